import SqlVerif.Model.Escape
/-!
# Lemmas about the escape printers (`Model/Escape.lean`) against the literal scanners (`Model/Scan.lean`)

Part A: uniform one-step unfoldings of the scanners and of `EscapeQuotedString`.
Part B: `E'…'` and `U&'…'` round trips (all payloads).
Part C: quote-doubling printer, verbatim kinds, dollar quoting, identifiers (under `Clean…` predicates).
Part D: raw mode (`unescape = false`): exact bodies, printer identity, same shape in both modes.
-/
namespace SqlVerif.Escape
open SqlVerif.Scan

/-! ## Part A — one-step unfoldings -/

/-- one step of `quotedBody`, uniform in the length of the input -/
theorem quotedBody_cons (q : Nat) (bs un : Bool) (c : Nat) (cs : List Nat) :
    quotedBody q bs un (c :: cs) =
      if c = q then
        (match cs with
         | [] => some ([], [])
         | c2 :: cs2 =>
           if c2 = q then push (if un then [c] else [c, c]) (quotedBody q bs un cs2)
           else some ([], c2 :: cs2))
      else if c = 92 ∧ bs = true then
        (match cs with
         | [] => none
         | c2 :: cs2 => push (if un then [bsEscape c2] else [c, c2]) (quotedBody q bs un cs2))
      else push [c] (quotedBody q bs un cs) := by
  cases cs with
  | nil =>
    simp only [quotedBody]
    split
    · rfl
    · split <;> simp [push]
  | cons c2 cs2 => simp only [quotedBody]

theorem tripleBody_cons (q : Nat) (bs un : Bool) (n c : Nat) (cs : List Nat) :
    tripleBody q bs un n (c :: cs) =
      if c = q ∧ n + 1 = 3 then some ([], cs)
      else if c = 92 ∧ bs = true then
        (match cs with
         | [] => none
         | c2 :: cs2 => push (if un then [bsEscape c2] else [c, c2]) (tripleBody q bs un 0 cs2))
      else push [c] (tripleBody q bs un (if c = q then n + 1 else 0) cs) := by
  cases cs with
  | nil =>
    simp only [tripleBody]
    split
    · rfl
    · split <;> simp [push]
  | cons c2 cs2 => simp only [tripleBody]

theorem escQGo_cons (q prev c : Nat) (cs : List Nat) :
    escQGo q prev (c :: cs) =
      if c = q then
        if prev = 92 then c :: escQGo q prev cs
        else (match cs with
          | [] => [c, c]
          | c2 :: cs2 => if c2 = q then c :: c :: escQGo q c cs2 else c :: c :: escQGo q c (c2 :: cs2))
      else c :: escQGo q c cs := by
  cases cs with
  | nil => simp only [escQGo]
  | cons c2 cs2 => simp only [escQGo]

theorem quotedIdentBody_eq (q : Nat) (un : Bool) (s : List Nat) :
    quotedIdentBody q un s = quotedBody q false un s := by
  fun_induction quotedIdentBody q un s <;> simp_all [quotedBody]

/-! ## Part B — `E'…'` and `U&'…'` -/

theorem escSeq_quote (cs : List Nat) : escSeq (39 :: cs) = some (39, 1) := by
  simp [escSeq, isOctDigit]
theorem escSeq_bs (cs : List Nat) : escSeq (92 :: cs) = some (92, 1) := by
  simp [escSeq, isOctDigit]
theorem escSeq_n (cs : List Nat) : escSeq (110 :: cs) = some (10, 1) := by
  simp [escSeq]
theorem escSeq_t (cs : List Nat) : escSeq (116 :: cs) = some (9, 1) := by
  simp [escSeq]
theorem escSeq_r (cs : List Nat) : escSeq (114 :: cs) = some (13, 1) := by
  simp [escSeq]

theorem escapedBody_close (rest : List Nat) (h : rest.head? ≠ some 39) :
    escapedBody 0 (39 :: rest) = some ([], rest) := by
  cases rest with
  | nil => simp [escapedBody]
  | cons a r =>
    have : a ≠ 39 := by simpa using h
    simp [escapedBody]
    split
    · rename_i heq; simp at heq; exact absurd heq.1 this
    · rfl

theorem escapedBody_escapeE (p rest : List Nat) (h : rest.head? ≠ some 39) :
    escapedBody 0 (escapeE p ++ 39 :: rest) = some (p, rest) := by
  induction p with
  | nil => simpa [escapeE] using escapedBody_close rest h
  | cons c p ih =>
    simp only [escapeE, escE1]
    split
    · subst_vars
      simp [escapedBody, escSeq_quote, ih, push]
    · split
      · subst_vars
        simp [escapedBody, escSeq_bs, ih, push]
      · split
        · subst_vars; simp [escapedBody, escSeq_n, ih, push]
        · split
          · subst_vars; simp [escapedBody, escSeq_t, ih, push]
          · split
            · subst_vars; simp [escapedBody, escSeq_r, ih, push]
            · simp [escapedBody, push, *]

theorem hexVal_hexDigitU (d : Nat) (h : d < 16) : hexVal (hexDigitU d) = some d := by
  unfold hexDigitU hexVal
  split
  · have h1 : 48 ≤ 48 + d ∧ 48 + d ≤ 57 := by omega
    simp [h1]
  · have h1 : ¬ (48 ≤ 55 + d ∧ 55 + d ≤ 57) := by omega
    have h2 : 65 ≤ 55 + d ∧ 55 + d ≤ 70 := by omega
    simp [h1, h2]

theorem takeHexDigits_hex4 (n : Nat) (h : n < 65536) (s : List Nat) :
    takeHexDigits 4 0 (hex4 n ++ s) = .ok (n, s) := by
  simp only [hex4, List.cons_append, List.nil_append, takeHexDigits,
    hexVal_hexDigitU _ (Nat.mod_lt _ (by decide : 16 > 0))]
  congr 2
  omega

theorem takeHexDigits_hex6 (n : Nat) (h : n < 16777216) (s : List Nat) :
    takeHexDigits 6 0 (hex6 n ++ s) = .ok (n, s) := by
  simp only [hex6, List.cons_append, List.nil_append, takeHexDigits,
    hexVal_hexDigitU _ (Nat.mod_lt _ (by decide : 16 > 0))]
  congr 2
  omega

/-- a code point that `char::from_u32` accepts -/
def IsScalar (c : Nat) : Prop := c < 0xD800 ∨ (0xE000 ≤ c ∧ c ≤ 0x10FFFF)
instance (c : Nat) : Decidable (IsScalar c) := by unfold IsScalar; infer_instance

theorem charFromU32_scalar (c : Nat) (h : IsScalar c) : charFromU32 c = some c := by
  unfold charFromU32; unfold IsScalar at h; simp [h]

theorem takeChar_hex4 (c : Nat) (h : IsScalar c) (h2 : c ≤ 65535) (s : List Nat) :
    takeCharFromHexDigits 4 (hex4 c ++ s) = .ok (c, s) := by
  unfold takeCharFromHexDigits
  rw [takeHexDigits_hex4 c (by omega)]
  simp [charFromU32_scalar c h]

theorem takeChar_hex6 (c : Nat) (h : IsScalar c) (s : List Nat) :
    takeCharFromHexDigits 6 (hex6 c ++ s) = .ok (c, s) := by
  unfold takeCharFromHexDigits
  rw [takeHexDigits_hex6 c (by unfold IsScalar at h; omega)]
  simp [charFromU32_scalar c h]

theorem unicodeBody_skip : ∀ (l s : List Nat), s ≠ [] → unicodeBody l.length (l ++ s) = unicodeBody 0 s
  | [], s, _ => rfl
  | a :: l, s, h => by
    simp only [List.length_cons, List.cons_append]
    rw [unicodeBody]
    exact unicodeBody_skip l s h

theorem unicodeBody_close (rest : List Nat) (h : rest.head? ≠ some 39) :
    unicodeBody 0 (39 :: rest) = .ok ([], rest) := by
  cases rest with
  | nil => simp [unicodeBody]
  | cons a r =>
    have : a ≠ 39 := by simpa using h
    simp [unicodeBody]
    split
    · rename_i heq; simp at heq; exact absurd heq.1 this
    · rfl

theorem hexDigitU_ne (d : Nat) (h : d < 16) : hexDigitU d ≠ 92 ∧ hexDigitU d ≠ 43 := by
  unfold hexDigitU; split <;> omega


theorem unicodeBody_bs4 (d : Nat) (tl : List Nat) (h1 : d ≠ 92) (h2 : d ≠ 43) :
    unicodeBody 0 (92 :: d :: tl) =
      (match takeCharFromHexDigits 4 (d :: tl) with
       | .error e => .error e
       | .ok (ch, _) => pushE [ch] (unicodeBody 4 (d :: tl))) := by
  simp only [unicodeBody, show ¬ (92 = 39) by decide, ↓reduceIte]
  split
  · rename_i heq; simp at heq; exact absurd heq.1 h1
  · rename_i heq; simp at heq; exact absurd heq.1 h2
  · rfl

theorem unicodeBody_plus (cs2 : List Nat) :
    unicodeBody 0 (92 :: 43 :: cs2) =
      (match takeCharFromHexDigits 6 cs2 with
       | .error e => .error e
       | .ok (ch, _) => pushE [ch] (unicodeBody 7 (43 :: cs2))) := by
  conv => lhs; rw [unicodeBody]
  rfl

theorem unicodeBody_escapeU (p rest : List Nat) (hp : ∀ c ∈ p, 128 ≤ c → IsScalar c)
    (h : rest.head? ≠ some 39) :
    unicodeBody 0 (escapeU p ++ 39 :: rest) = .ok (p, rest) := by
  induction p with
  | nil => simpa [escapeU] using unicodeBody_close rest h
  | cons c p ih =>
    have ih := ih (fun x hx => hp x (List.mem_cons_of_mem _ hx))
    have hc := hp c (List.mem_cons_self ..)
    simp only [escapeU, escU1]
    split
    · subst_vars; simp [unicodeBody, ih, pushE]
    · split
      · subst_vars; simp [unicodeBody, ih, pushE]
      · split
        · simp [unicodeBody, pushE, *]
        · have hsc := hc (by omega)
          have hne : escapeU p ++ 39 :: rest ≠ [] := by simp
          split
          · rename_i h16
            have h0 := hexDigitU_ne (c / 4096 % 16) (Nat.mod_lt _ (by decide))
            have e4 := takeChar_hex4 c hsc h16 (escapeU p ++ 39 :: rest)
            have sk := unicodeBody_skip (hex4 c) _ hne
            simp only [hex4, List.cons_append, List.nil_append, List.length_cons, List.length_nil] at e4 sk ⊢
            rw [unicodeBody_bs4 _ _ h0.1 h0.2, e4]
            simp only [Nat.zero_add, Nat.reduceAdd] at sk
            simp only [sk, ih, pushE, List.cons_append, List.nil_append]
          · have e6 := takeChar_hex6 c hsc (escapeU p ++ 39 :: rest)
            have sk := unicodeBody_skip (43 :: hex6 c) _ hne
            simp only [hex6, List.cons_append, List.nil_append, List.length_cons, List.length_nil] at e6 sk ⊢
            rw [unicodeBody_plus, e6]
            simp only [Nat.zero_add, Nat.reduceAdd] at sk
            simp only [sk, ih, pushE, List.cons_append, List.nil_append]

/-! ## Part C — the quote-doubling printer -/

/-- no adjacent pair `a b` -/
def noAdj (a b : Nat) : List Nat → Bool
  | x :: y :: r => !(x == a && y == b) && noAdj a b (y :: r)
  | _ => true

theorem noAdj_cons2 (a b x y : Nat) (r : List Nat) :
    noAdj a b (x :: y :: r) = (!(x == a && y == b) && noAdj a b (y :: r)) := rfl

theorem noAdj_tail {a b x : Nat} {r : List Nat} (h : noAdj a b (x :: r) = true) : noAdj a b r = true := by
  cases r with
  | nil => rfl
  | cons y r => rw [noAdj_cons2] at h; simp at h; exact h.2

theorem noAdj_head {a b x y : Nat} {r : List Nat} (h : noAdj a b (x :: y :: r) = true) :
    ¬ (x = a ∧ y = b) := by
  rw [noAdj_cons2] at h
  intro ⟨e1, e2⟩
  simp [e1, e2] at h

/-- payloads on which `EscapeQuotedString` followed by the quoted-string scanner is the identity -/
def CleanQ (q : Nat) (bs : Bool) (p : List Nat) : Prop :=
  noAdj q q p = true ∧ noAdj 92 q p = true ∧ (bs = true → 92 ∉ p)

instance (q : Nat) (bs : Bool) (p : List Nat) : Decidable (CleanQ q bs p) := by
  unfold CleanQ; infer_instance

theorem quotedBody_close (q : Nat) (bs un : Bool) (rest : List Nat) (h : rest.head? ≠ some q) :
    quotedBody q bs un (q :: rest) = some ([], rest) := by
  rw [quotedBody_cons]
  cases rest with
  | nil => simp
  | cons a r =>
    have : a ≠ q := by simpa using h
    simp [this]

theorem quoted_go (q : Nat) (bs : Bool) (rest : List Nat) (hr : rest.head? ≠ some q) :
    ∀ (p : List Nat) (prev : Nat), CleanQ q bs p → (p.head? = some q → prev ≠ 92) →
      quotedBody q bs true (escQGo q prev p ++ q :: rest) = some (p, rest) := by
  intro p
  induction p with
  | nil => intro prev _ _; simpa [escQGo] using quotedBody_close q bs true rest hr
  | cons c p ih =>
    intro prev hc hprev
    obtain ⟨h1, h2, h3⟩ := hc
    have hc' : CleanQ q bs p := ⟨noAdj_tail h1, noAdj_tail h2, fun hb hm => h3 hb (List.mem_cons_of_mem _ hm)⟩
    rw [escQGo_cons]
    by_cases hcq : c = q
    · subst hcq
      have hp92 : prev ≠ 92 := hprev rfl
      simp only [↓reduceIte, hp92]
      cases p with
      | nil =>
        simp only [List.cons_append, List.nil_append]
        rw [quotedBody_cons]
        simp only [↓reduceIte]
        have := quotedBody_close c bs true rest hr
        simp [this, push]
      | cons c2 p2 =>
        have hne : c2 ≠ c := fun e => noAdj_head h1 ⟨rfl, e⟩
        simp only [hne, ↓reduceIte, List.cons_append]
        rw [quotedBody_cons]
        simp only [↓reduceIte]
        have := ih c hc' (by intro hh; simp at hh; exact absurd hh hne)
        simp [this, push]
    · simp only [hcq, ↓reduceIte, List.cons_append]
      rw [quotedBody_cons]
      have hnb : ¬ (c = 92 ∧ bs = true) := by
        intro ⟨e, hb⟩; exact h3 hb (by simp [e])
      simp only [hcq, ↓reduceIte, hnb]
      have := ih c hc' (by
        intro hh e
        cases p with
        | nil => simp at hh
        | cons c2 p2 =>
          simp at hh
          exact noAdj_head h2 ⟨e, hh⟩)
      simp [this, push]

/-! ### verbatim single-quoted kinds -/

theorem push_some {a p r : List Nat} {o : Option (List Nat × List Nat)} :
    push a o = some (p, r) ↔ ∃ p', o = some (p', r) ∧ p = a ++ p' := by
  cases o with
  | none => simp [push]
  | some y =>
    obtain ⟨p', r'⟩ := y
    constructor
    · intro h
      simp only [push, Option.some.injEq, Prod.mk.injEq] at h
      exact ⟨p', by rw [h.2], h.1.symm⟩
    · rintro ⟨p'', h1, h2⟩
      simp only [Option.some.injEq, Prod.mk.injEq] at h1
      simp only [push, h1.1, h1.2, h2]

theorem push_cons_iff {c : Nat} {p r : List Nat} {o : Option (List Nat × List Nat)} :
    push [c] o = some (c :: p, r) ↔ o = some (p, r) := by
  rw [push_some]
  constructor
  · rintro ⟨p', e, h⟩; simp at h; subst h; exact e
  · intro e; exact ⟨p, e, rfl⟩

/-- with un-escaping on, the payload is never longer than the consumed body without its closing quote -/
theorem quotedBody_len (q : Nat) (bs : Bool) : ∀ (s pl r : List Nat),
    quotedBody q bs true s = some (pl, r) → pl.length + 1 + r.length ≤ s.length := by
  intro s
  fun_induction quotedBody q bs true s <;> intro pl r e
  · simp at e
  · simp at e; obtain ⟨rfl, rfl⟩ := e; simp
  · simp at e
  · rename_i ih
    obtain ⟨p', e', rfl⟩ := push_some.1 e
    have := ih p' r e'
    simp at this ⊢; omega
  · simp at e; obtain ⟨rfl, rfl⟩ := e; simp; omega
  · rename_i ih
    obtain ⟨p', e', rfl⟩ := push_some.1 e
    have := ih p' r e'
    simp at this ⊢; omega
  · rename_i ih
    obtain ⟨p', e', rfl⟩ := push_some.1 e
    have := ih p' r e'
    simp at this ⊢; omega

/-- **verbatim single-quoted kinds**: a body printed as is comes back iff it contains no quote and,
when backslash escapes are on, no backslash -/
theorem verbatim1_iff (q : Nat) (bs : Bool) (rest : List Nat) (hr : rest.head? ≠ some q) :
    ∀ p : List Nat, quotedBody q bs true (p ++ q :: rest) = some (p, rest) ↔ (q ∉ p ∧ (bs = true → 92 ∉ p)) := by
  intro p
  induction p with
  | nil => simp [quotedBody_close q bs true rest hr]
  | cons c p ih =>
    rw [List.cons_append, quotedBody_cons]
    by_cases hc : c = q
    · subst hc
      simp only [↓reduceIte, List.mem_cons, true_or, not_true_eq_false, false_and, iff_false]
      cases hp : p ++ c :: rest with
      | nil => simp at hp
      | cons c2 cs2 =>
        simp only
        split
        · intro e
          obtain ⟨p', e', h'⟩ := push_some.1 e
          have hl := quotedBody_len c bs cs2 p' rest e'
          have h2 := congrArg List.length hp
          have h3 := congrArg List.length h'
          simp only [List.length_cons, List.length_append, List.length_nil] at h2 h3
          omega
        · simp
    · simp only [hc, ↓reduceIte]
      by_cases hb : c = 92 ∧ bs = true
      · obtain ⟨rfl, rfl⟩ := hb
        simp only [and_self, ↓reduceIte]
        refine iff_of_false ?_ (by simp)
        cases hp : p ++ q :: rest with
        | nil => simp at hp
        | cons c2 cs2 =>
          simp only
          intro e
          obtain ⟨p', e', h'⟩ := push_some.1 e
          have hl := quotedBody_len q _ cs2 p' rest e'
          have h2 := congrArg List.length hp
          have h3 := congrArg List.length h'
          simp only [List.length_cons, List.length_append, List.length_nil] at h2 h3
          omega
      · simp only [hb, ↓reduceIte]
        rw [show (c :: p, rest) = ([c] ++ p, rest) from rfl]
        have : push [c] (quotedBody q bs true (p ++ q :: rest)) = some ([c] ++ p, rest) ↔
            quotedBody q bs true (p ++ q :: rest) = some (p, rest) := by
          rw [push_some]
          constructor
          · rintro ⟨p', e, h⟩; simp at h; subst h; exact e
          · intro e; exact ⟨p, e, rfl⟩
        rw [this, ih]
        have hc' : q ≠ c := fun e => hc e.symm
        simp only [List.mem_cons, not_or, hc', not_false_eq_true, true_and]
        constructor
        · rintro ⟨h1, h2⟩; exact ⟨h1, fun hb' => ⟨fun e => hb ⟨e.symm, hb'⟩, h2 hb'⟩⟩
        · rintro ⟨h1, h2⟩; exact ⟨h1, fun hb' => (h2 hb').2⟩

/-! ### triple-quoted kinds -/

/-- `n` = length of the run of quotes just before the body: the body never completes a run of
three quotes and does not end in a quote -/
def clean3 (q : Nat) : Nat → List Nat → Bool
  | n, [] => n == 0
  | n, c :: cs => if c = q then decide (n + 1 < 3) && clean3 q (n + 1) cs else clean3 q 0 cs

theorem tripleBody_len (q : Nat) (bs : Bool) : ∀ (n : Nat) (s pl r : List Nat),
    tripleBody q bs true n s = some (pl, r) → pl.length + 1 + r.length ≤ s.length := by
  intro n s
  fun_induction tripleBody q bs true n s <;> intro pl r e
  all_goals first
    | (simp at e; done)
    | (simp only [Option.some.injEq, Prod.mk.injEq] at e; obtain ⟨rfl, rfl⟩ := e
       simp only [List.length_nil, List.length_cons]; omega)
    | (rename_i ih; obtain ⟨p', e', rfl⟩ := push_some.1 e; have := ih p' r e'
       simp only [↓reduceIte, List.length_append, List.length_nil, List.length_cons] at this ⊢; omega)

theorem triple_close (q : Nat) (bs : Bool) (hq : q ≠ 92) (rest : List Nat) :
    ∀ n, n ≤ 2 → (tripleBody q bs true n (q :: q :: q :: rest) = some ([q, q], rest) ↔ n = 0) := by
  intro n hn
  have h92 : ¬ (q = 92 ∧ bs = true) := fun h => hq h.1
  match n, hn with
  | 0, _ => simp [tripleBody_cons, h92, push]
  | 1, _ => simp [tripleBody_cons, h92, push]
  | 2, _ => simp [tripleBody_cons]

/-- **verbatim triple-quoted kinds** -/
theorem triple_iff (q : Nat) (bs : Bool) (hq : q ≠ 92) (rest : List Nat) :
    ∀ (p : List Nat) (n : Nat), n ≤ 2 →
      (tripleBody q bs true n (p ++ q :: q :: q :: rest) = some (p ++ [q, q], rest) ↔
        (clean3 q n p = true ∧ (bs = true → 92 ∉ p))) := by
  intro p
  induction p with
  | nil =>
    intro n hn
    simp only [List.nil_append, triple_close q bs hq rest n hn, clean3]
    simp
  | cons c p ih =>
    intro n hn
    rw [List.cons_append, tripleBody_cons]
    by_cases h1 : c = q ∧ n + 1 = 3
    · simp only [h1, and_self, ↓reduceIte, clean3]
      simp
    · simp only [h1, ↓reduceIte]
      by_cases hb : c = 92 ∧ bs = true
      · obtain ⟨rfl, rfl⟩ := hb
        simp only [and_self, ↓reduceIte]
        refine iff_of_false ?_ (by simp)
        cases hp : p ++ q :: q :: q :: rest with
        | nil => simp at hp
        | cons c2 cs2 =>
          simp only
          intro e
          obtain ⟨p', e', h'⟩ := push_some.1 e
          have hl := tripleBody_len q _ 0 cs2 p' rest e'
          have h2 := congrArg List.length hp
          have h3 := congrArg List.length h'
          simp only [List.length_cons, List.length_append, List.length_nil] at h2 h3
          omega
      · simp only [hb, ↓reduceIte, List.cons_append, push_cons_iff]
        have hn' : (if c = q then n + 1 else 0) ≤ 2 := by
          split
          · rename_i hc; have : n + 1 ≠ 3 := fun h => h1 ⟨hc, h⟩; omega
          · omega
        rw [ih _ hn']
        by_cases hc : c = q
        · subst hc
          have : n + 1 < 3 := by have : n + 1 ≠ 3 := fun h => h1 ⟨rfl, h⟩; omega
          have hc92 : ¬ (92 = c) := fun e => hq e.symm
          simp [clean3, this, hc92]
        · simp only [hc, ↓reduceIte, clean3, List.mem_cons, not_or]
          constructor
          · rintro ⟨h1', h2⟩; exact ⟨h1', fun hb' => ⟨fun e => hb ⟨e.symm, hb'⟩, h2 hb'⟩⟩
          · rintro ⟨h1', h2⟩; exact ⟨h1', fun hb' => (h2 hb').2⟩

/-! ### dollar quoting -/

/-- no `$$` inside and no `$` at the end -/
def cleanDollar : List Nat → Bool
  | [] => true
  | [c] => c != 36
  | c :: d :: r => if c = 36 then (d != 36 && cleanDollar r) else cleanDollar (d :: r)

theorem dollarUntagged_close (prev : Option Nat) (hp : prev ≠ some 36) (rest : List Nat) :
    dollarUntaggedBody prev (36 :: 36 :: rest) = some ([], rest) := by
  simp [dollarUntaggedBody, hp]

theorem dollarUntagged_cons (prev : Option Nat) (c : Nat) (cs : List Nat) :
    dollarUntaggedBody prev (c :: cs) =
      if prev = some 36 then
        (if c = 36 then some ([], cs) else push [36, c] (dollarUntaggedBody (some c) cs))
      else if c ≠ 36 then push [c] (dollarUntaggedBody (some c) cs)
      else dollarUntaggedBody (some c) cs := by
  rw [dollarUntaggedBody]

theorem dollar_untagged_go (rest : List Nat) : ∀ (p : List Nat) (prev : Option Nat), prev ≠ some 36 →
    cleanDollar p = true → dollarUntaggedBody prev (p ++ 36 :: 36 :: rest) = some (p, rest) := by
  intro p
  fun_induction cleanDollar p <;> intro prev hp hc
  · exact dollarUntagged_close prev hp rest
  · rename_i c
    have hc' : c ≠ 36 := by simpa using hc
    have : some c ≠ some 36 := by simpa using hc'
    simp [dollarUntaggedBody, hp, hc', push]
  · rename_i d r ih
    simp only [Bool.and_eq_true, bne_iff_ne, ne_eq] at hc
    have hd : some d ≠ some 36 := by simpa using hc.1
    have := ih (some d) hd hc.2
    simp [dollarUntaggedBody, hp, hc.1, this, push]
  · rename_i c d r hc36 ih
    have hcs : some c ≠ some 36 := by simpa using hc36
    have := ih (some c) hcs hc
    rw [List.cons_append, dollarUntagged_cons]
    simp only [hp, ↓reduceIte, ne_eq, hc36, not_false_eq_true, this, push]
    rfl

/-- every `$` of the body is followed by a character that is neither `$` nor the first character
of the tag (so that the non-backtracking tag matcher fails at once and resumes right after it) -/
def cleanTag (t0 : Nat) : List Nat → Bool
  | [] => true
  | [c] => c != 36
  | c :: d :: r => if c = 36 then (d != 36 && d != t0 && cleanTag t0 r) else cleanTag t0 (d :: r)

theorem dollarTagged_none_cons (tag : List Nat) (c : Nat) (s : List Nat) (hs : s ≠ []) :
    dollarTaggedBody tag none (c :: s) =
      if c ≠ 36 then pushE [c] (dollarTaggedBody tag none s)
      else match tag with
        | [] => (match s with
          | [] => .error ⟨str "Unterminated dollar-quoted, expected $", []⟩
          | c2 :: cs2 => if c2 = 36 then .ok ([], cs2) else pushE [36] (dollarTaggedBody tag none s))
        | t :: ts => dollarTaggedBody tag (some (t, ts, [36])) s := by
  cases s with
  | nil => exact absurd rfl hs
  | cons c2 cs2 =>
    simp only [dollarTaggedBody]
    split
    · rfl
    · cases tag <;> rfl

theorem dollarTagged_some_cons (tag : List Nat) (t : Nat) (ts m : List Nat) (c : Nat) (s : List Nat)
    (hs : s ≠ []) :
    dollarTaggedBody tag (some (t, ts, m)) (c :: s) =
      if c ≠ t then pushE (m ++ [c]) (dollarTaggedBody tag none s)
      else match ts with
        | [] => (match s with
          | [] => .error ⟨str "Unterminated dollar-quoted, expected $", []⟩
          | c2 :: cs2 => if c2 = 36 then .ok ([], cs2) else pushE (m ++ [c]) (dollarTaggedBody tag none s))
        | t' :: ts' => dollarTaggedBody tag (some (t', ts', m ++ [c])) s := by
  cases s with
  | nil => exact absurd rfl hs
  | cons c2 cs2 =>
    simp only [dollarTaggedBody]
    split
    · rfl
    · cases ts <;> rfl

/-- the closing delimiter, once its `$` was seen -/
theorem dollarTagged_match (tag rest : List Nat) : ∀ (ts : List Nat) (t : Nat) (m : List Nat),
    dollarTaggedBody tag (some (t, ts, m)) (t :: (ts ++ 36 :: rest)) = .ok ([], rest) := by
  intro ts
  induction ts with
  | nil => intro t m; simp [dollarTaggedBody]
  | cons t' ts ih =>
    intro t m
    rw [List.cons_append, dollarTagged_some_cons _ _ _ _ _ _ (by simp)]
    simp only [ne_eq, not_true_eq_false, ↓reduceIte]
    exact ih t' _

theorem dollarTagged_close (t0 : Nat) (ts rest : List Nat) :
    dollarTaggedBody (t0 :: ts) none (36 :: t0 :: (ts ++ 36 :: rest)) = .ok ([], rest) := by
  rw [dollarTagged_none_cons _ _ _ (by simp)]
  simp only [ne_eq, not_true_eq_false, ↓reduceIte]
  exact dollarTagged_match _ rest ts t0 _

theorem dollar_tagged_go (t0 : Nat) (ts rest : List Nat) : ∀ p : List Nat, cleanTag t0 p = true →
    dollarTaggedBody (t0 :: ts) none (p ++ 36 :: t0 :: (ts ++ 36 :: rest)) = .ok (p, rest) := by
  intro p
  fun_induction cleanTag t0 p <;> intro hc
  · exact dollarTagged_close t0 ts rest
  · rename_i c
    have hc' : c ≠ 36 := by simpa using hc
    rw [List.cons_append, dollarTagged_none_cons _ _ _ (by simp)]
    simp [hc', dollarTagged_close t0 ts rest, pushE]
  · rename_i d r ih
    simp only [Bool.and_eq_true, bne_iff_ne, ne_eq] at hc
    rw [List.cons_append, dollarTagged_none_cons _ _ _ (by simp)]
    simp only [ne_eq, not_true_eq_false, ↓reduceIte]
    rw [List.cons_append, dollarTagged_some_cons _ _ _ _ _ _ (by simp)]
    simp [hc.1.2, ih hc.2, pushE]
  · rename_i c d r hc36 ih
    rw [List.cons_append, dollarTagged_none_cons _ _ _ (by simp)]
    have h := ih hc
    simp only [List.cons_append] at h
    simp [hc36, h, pushE]

/-! ## Part D — raw mode (`unescape = false`) -/

/-- the raw payload of a quoted string is the text up to the closing quote -/
theorem quotedBody_raw_exact (q : Nat) (bs : Bool) : ∀ (s p r : List Nat),
    quotedBody q bs false s = some (p, r) → s = p ++ q :: r := by
  intro s
  fun_induction quotedBody q bs false s <;> intro p r e
  all_goals first
    | (simp at e; done)
    | (simp only [Option.some.injEq, Prod.mk.injEq] at e; obtain ⟨rfl, rfl⟩ := e; simp_all; done)
    | (rename_i ih; obtain ⟨p', e', rfl⟩ := push_some.1 e; have := ih p' r e'; simp_all; done)

theorem tripleBody_raw_exact (q : Nat) (bs : Bool) : ∀ (n : Nat) (s pl r : List Nat),
    tripleBody q bs false n s = some (pl, r) →
      s = pl ++ q :: r ∧ ∃ pre, List.replicate n q ++ pl = pre ++ [q, q] := by
  intro n s
  fun_induction tripleBody q bs false n s <;> intro pl r e
  · simp at e
  · rename_i n c h
    simp only [Option.some.injEq, Prod.mk.injEq] at e; obtain ⟨rfl, rfl⟩ := e
    have : n = 2 := by omega
    subst this
    exact ⟨by simp [h.1], [], by simp [List.replicate]⟩
  · simp at e
  · rename_i n c c2 cs2 h
    simp only [Option.some.injEq, Prod.mk.injEq] at e; obtain ⟨rfl, rfl⟩ := e
    have : n = 2 := by omega
    subst this
    exact ⟨by simp [h.1], [], by simp [List.replicate]⟩
  · rename_i n c c2 cs2 h1 h2 ih
    obtain ⟨p', e', rfl⟩ := push_some.1 e
    obtain ⟨h3, pre, h4⟩ := ih p' r e'
    simp only [List.replicate_zero, List.nil_append] at h4
    refine ⟨by simp [h3, h2.1], List.replicate n q ++ [c, c2] ++ pre, ?_⟩
    simp [h4]
  · rename_i n c c2 cs2 h1 h2 ih
    obtain ⟨p', e', rfl⟩ := push_some.1 e
    obtain ⟨h3, pre, h4⟩ := ih p' r e'
    refine ⟨by simp [h3], ?_⟩
    by_cases hc : c = q
    · subst hc
      simp only [↓reduceIte] at h4
      refine ⟨pre, ?_⟩
      rw [← h4, List.replicate_succ', List.append_assoc]
    · simp only [hc, ↓reduceIte, List.replicate_zero, List.nil_append] at h4
      exact ⟨List.replicate n q ++ [c] ++ pre, by simp [h4]⟩


theorem dropLast2_append (pre : List Nat) (a b : Nat) : (pre ++ [a, b]).dropLast.dropLast = pre := by
  have : pre ++ [a, b] = (pre ++ [a]) ++ [b] := by simp
  rw [this, List.dropLast_concat, List.dropLast_concat]

theorem consumeOpening_exact (q : Nat) : ∀ (n : Nat) (s b : List Nat),
    consumeOpening q n s = some b → s = List.replicate n q ++ b := by
  intro n s
  fun_induction consumeOpening q n s <;> intro b e
  · simp at e; simp [e]
  · simp at e
  · rename_i n cs ih; rw [ih b e, List.replicate_succ]; rfl
  · simp at e

/-- `tokenize_quoted_string` in raw mode: the payload is the source text between the delimiters -/
theorem scanQuoted_raw_exact (q : Nat) (triple : Bool) (openN : Nat) (bs : Bool) (s p r : List Nat)
    (h : scanQuoted q triple openN bs false s = .ok (p, r)) :
    s = List.replicate openN q ++ p ++ (if triple then [q, q, q] else [q]) ++ r := by
  unfold scanQuoted at h
  split at h
  · simp at h
  · rename_i body hb
    have h0 := consumeOpening_exact q openN s body hb
    split at h
    · rename_i ht
      split at h
      · simp at h
      · rename_i pl r' hq
        simp only [Except.ok.injEq, Prod.mk.injEq] at h
        obtain ⟨rfl, rfl⟩ := h
        obtain ⟨h1, pre, h2⟩ := tripleBody_raw_exact q bs 0 body pl r' hq
        simp only [List.replicate_zero, List.nil_append] at h2
        subst h2
        rw [dropLast2_append, h0, h1, ht]
        simp
    · rename_i ht
      split at h
      · simp at h
      · rename_i x hq
        obtain ⟨p', r'⟩ := x
        simp only [Except.ok.injEq, Prod.mk.injEq] at h
        obtain ⟨rfl, rfl⟩ := h
        have h1 := quotedBody_raw_exact q bs body p' r' hq
        have : triple = false := by simpa using ht
        rw [h0, h1, this]
        simp

theorem countOpening_exact (q : Nat) : ∀ (n : Nat) (s : List Nat),
    s = List.replicate (countOpening q n s).1 q ++ (countOpening q n s).2 := by
  intro n s
  fun_induction countOpening q n s
  · simp
  · simp
  · rename_i n cs k r hk ih
    simp only [hk] at ih
    simp only [List.replicate_succ, List.cons_append]
    rw [← ih]
  · simp

/-- `tokenize_single_or_triple_quoted_string` in raw mode -/
theorem scanSingleOrTriple_raw_exact (q : Nat) (bs : Bool) (s : List Nat) (t : Bool) (p r : List Nat)
    (h : scanSingleOrTriple q bs false s = .ok (t, p, r)) :
    s = (if t then [q, q, q] else [q]) ++ p ++ (if t then [q, q, q] else [q]) ++ r := by
  unfold scanSingleOrTriple at h
  have hc := countOpening_exact q 3 s
  split at h
  · rename_i r0 hk
    rw [hk] at hc
    split at h
    · simp at h
    · rename_i p' r' hs
      simp only [Except.ok.injEq, Prod.mk.injEq] at h
      obtain ⟨rfl, rfl, rfl⟩ := h
      have := scanQuoted_raw_exact q false 0 bs r0 _ _ hs
      rw [hc, this]; simp
  · rename_i r0 hk
    rw [hk] at hc
    simp only [Except.ok.injEq, Prod.mk.injEq] at h
    obtain ⟨rfl, rfl, rfl⟩ := h
    rw [hc]; simp [List.replicate]
  · rename_i r0 hk
    rw [hk] at hc
    split at h
    · simp at h
    · rename_i p' r' hs
      simp only [Except.ok.injEq, Prod.mk.injEq] at h
      obtain ⟨rfl, rfl, rfl⟩ := h
      have := scanQuoted_raw_exact q true 0 bs r0 _ _ hs
      rw [hc, this]; simp [List.replicate]
  · simp at h

/-! ### the printer is the identity on raw bodies -/

/-- along a run of the raw-mode scanner, `EscapeQuotedString` reproduces the payload whatever
`previous_char` was on entry: quotes occur only doubled (consumed as a pair when not after a
backslash) or after a backslash (written once each) -/
theorem escQGo_raw (q : Nat) (bs : Bool) : ∀ (s p r : List Nat),
    quotedBody q bs false s = some (p, r) → ∀ prev, escQGo q prev p = p := by
  intro s
  fun_induction quotedBody q bs false s <;> intro p r e prev
  · simp at e
  · simp at e; rw [e.1]; rfl
  · simp at e
  · rename_i cs2 ih
    obtain ⟨p', e', rfl⟩ := push_some.1 e
    simp only [Bool.false_eq_true, ↓reduceIte, List.cons_append, List.nil_append]
    rw [escQGo_cons]
    simp only [↓reduceIte]
    by_cases hp : prev = 92
    · simp only [hp, ↓reduceIte]
      rw [escQGo_cons]
      simp only [↓reduceIte, ih p' r e' 92]
    · simp only [hp, ↓reduceIte, ih p' r e' q]
  · simp at e; rw [e.1]; rfl
  · rename_i c c2 cs2 hc hb ih
    obtain ⟨p', e', rfl⟩ := push_some.1 e
    obtain ⟨rfl, _⟩ := hb
    simp only [Bool.false_eq_true, ↓reduceIte, List.cons_append, List.nil_append]
    rw [escQGo_cons]
    simp only [hc, ↓reduceIte]
    rw [escQGo_cons]
    by_cases h2 : c2 = q
    · simp only [h2, ↓reduceIte, ih p' r e' 92]
    · simp only [h2, ↓reduceIte, ih p' r e' c2]
  · rename_i c c2 cs2 hc hb ih
    obtain ⟨p', e', rfl⟩ := push_some.1 e
    simp only [List.cons_append, List.nil_append]
    rw [escQGo_cons]
    simp only [hc, ↓reduceIte, ih p' r e' c]


/-! ### both modes consume the same text -/

theorem push_map_snd (a : List Nat) (o : Option (List Nat × List Nat)) :
    (push a o).map Prod.snd = o.map Prod.snd := by
  cases o with
  | none => rfl
  | some x => obtain ⟨p, r⟩ := x; rfl

/-- whether and where a quoted string ends does not depend on `unescape` -/
theorem quotedBody_modes (q : Nat) (bs : Bool) (s : List Nat) :
    (quotedBody q bs true s).map Prod.snd = (quotedBody q bs false s).map Prod.snd := by
  fun_induction quotedBody q bs true s
  case case6 c c2 cs2 hc hb ih =>
    obtain ⟨rfl, rfl⟩ := hb
    conv => rhs; unfold quotedBody
    simp only [hc, ↓reduceIte, and_self, push_map_snd, ih]
  all_goals
    (conv => rhs; unfold quotedBody) <;> simp only [*, push_map_snd, ↓reduceIte]

theorem tripleBody_modes (q : Nat) (bs : Bool) (n : Nat) (s : List Nat) :
    (tripleBody q bs true n s).map Prod.snd = (tripleBody q bs false n s).map Prod.snd := by
  fun_induction tripleBody q bs true n s
  case case5 n c c2 cs2 hc hb ih =>
    obtain ⟨rfl, rfl⟩ := hb
    conv => rhs; unfold tripleBody
    simp only [hc, ↓reduceIte, and_self, push_map_snd, ih]
  all_goals
    (conv => rhs; unfold tripleBody) <;> simp only [*, push_map_snd, ↓reduceIte, and_self]

/-! ### token level: one token in both modes -/

open SqlVerif.Tok SqlVerif.Keywords

/-- the same surroundings with `Tokenizer::unescape` set to `b` -/
def withUn (env : Env) (b : Bool) : Env := { env with unescape := b }

theorem lexOp_withUn (env : Env) (b : Bool) (c : Nat) (cs : List Nat) :
    lexOp (withUn env b) c cs = lexOp env c cs := rfl
theorem lexMinus_withUn (env : Env) (b : Bool) (cs : List Nat) :
    lexMinus (withUn env b) cs = lexMinus env cs := rfl
theorem lexNumber_withUn (env : Env) (b : Bool) (cs : List Nat) :
    lexNumber (withUn env b) cs = lexNumber env cs := rfl
theorem lexEscaped_withUn (env : Env) (b : Bool) (c : Nat) (cs : List Nat) :
    lexEscaped (withUn env b) c cs = lexEscaped env c cs := rfl
theorem lexUnicode_withUn (env : Env) (b : Bool) (c : Nat) (cs : List Nat) :
    lexUnicode (withUn env b) c cs = lexUnicode env c cs := rfl
theorem wordFrom_withUn (env : Env) (b : Bool) (f cs : List Nat) :
    wordFrom (withUn env b) f cs = wordFrom env f cs := rfl

/-- a token with the payload blanked when the payload depends on `unescape`: the string kinds
scanned by `tokenize_quoted_string` and delimited identifiers.  `E'…'`, `U&'…'`, dollar-quoted
strings and every other token are left as they are. -/
def eraseTok : Token → Token
  | .word w => if w.quote.isSome then .word { w with value := [] } else .word w
  | .singleQuotedString _ => .singleQuotedString []
  | .doubleQuotedString _ => .doubleQuotedString []
  | .tripleSingleQuotedString _ => .tripleSingleQuotedString []
  | .tripleDoubleQuotedString _ => .tripleDoubleQuotedString []
  | .singleQuotedByteStringLiteral _ => .singleQuotedByteStringLiteral []
  | .doubleQuotedByteStringLiteral _ => .doubleQuotedByteStringLiteral []
  | .tripleSingleQuotedByteStringLiteral _ => .tripleSingleQuotedByteStringLiteral []
  | .tripleDoubleQuotedByteStringLiteral _ => .tripleDoubleQuotedByteStringLiteral []
  | .singleQuotedRawStringLiteral _ => .singleQuotedRawStringLiteral []
  | .doubleQuotedRawStringLiteral _ => .doubleQuotedRawStringLiteral []
  | .tripleSingleQuotedRawStringLiteral _ => .tripleSingleQuotedRawStringLiteral []
  | .tripleDoubleQuotedRawStringLiteral _ => .tripleDoubleQuotedRawStringLiteral []
  | .nationalStringLiteral _ => .nationalStringLiteral []
  | .hexStringLiteral _ => .hexStringLiteral []
  | t => t

/-- a branch result with the payload blanked -/
def eraseRes : Res → Res
  | .error e => .error e
  | .ok (t, r) => .ok (eraseTok t, r)

/-- `f` builds one of the blanked kinds -/
def Blank (f : List Nat → Token) : Prop := ∀ p p', eraseTok (f p) = eraseTok (f p')

theorem eraseRes_ite (c : Prop) [Decidable c] (a b a' b' : Res)
    (h1 : c → eraseRes a = eraseRes a') (h2 : ¬ c → eraseRes b = eraseRes b') :
    eraseRes (if c then a else b) = eraseRes (if c then a' else b') := by
  by_cases h : c <;> simp [h, h1, h2]

theorem eraseRes_ite2 (c c' : Prop) [Decidable c] [Decidable c'] (a b a' b' : Res) (hc : c ↔ c')
    (h1 : c → eraseRes a = eraseRes a') (h2 : ¬ c → eraseRes b = eraseRes b') :
    eraseRes (if c then a else b) = eraseRes (if c' then a' else b') := by
  by_cases h : c
  · have h' : c' := hc.1 h
    simp [h, h', h1]
  · have h' : ¬ c' := fun x => h (hc.2 x)
    simp [h, h', h2]

theorem scanQuoted_modes (q : Nat) (triple : Bool) (n : Nat) (bs : Bool) (s : List Nat) (f : List Nat → Token)
    (hf : Blank f) :
    eraseRes (ofScan f (scanQuoted q triple n bs true s)) = eraseRes (ofScan f (scanQuoted q triple n bs false s)) := by
  unfold scanQuoted
  cases consumeOpening q n s with
  | none => rfl
  | some body =>
    simp only
    cases triple with
    | true =>
      simp only [↓reduceIte]
      have := tripleBody_modes q bs 0 body
      cases h1 : tripleBody q bs true 0 body with
      | none =>
        cases h2 : tripleBody q bs false 0 body with
        | none => rfl
        | some y => rw [h1, h2] at this; simp at this
      | some x =>
        cases h2 : tripleBody q bs false 0 body with
        | none => rw [h1, h2] at this; simp at this
        | some y =>
          rw [h1, h2] at this
          obtain ⟨p, r⟩ := x; obtain ⟨p', r'⟩ := y
          simp at this; subst this
          simp only [ofScan, eraseRes, hf _ p'.dropLast.dropLast]
    | false =>
      simp only [Bool.false_eq_true, ↓reduceIte]
      have := quotedBody_modes q bs body
      cases h1 : quotedBody q bs true body with
      | none =>
        cases h2 : quotedBody q bs false body with
        | none => rfl
        | some y => rw [h1, h2] at this; simp at this
      | some x =>
        cases h2 : quotedBody q bs false body with
        | none => rw [h1, h2] at this; simp at this
        | some y =>
          rw [h1, h2] at this
          obtain ⟨p, r⟩ := x; obtain ⟨p', r'⟩ := y
          simp at this; subst this
          simp only [ofScan, eraseRes, hf _ p']


theorem singleOrTriple_eq (env : Env) (q : Nat) (bs : Bool) (f g : List Nat → Token) (s : List Nat) :
    singleOrTriple env q bs f g s =
      (match countOpening q 3 s with
       | (1, r) => ofScan f (scanQuoted q false 0 bs env.unescape r)
       | (2, r) => .ok (f [], r)
       | (3, r) => ofScan g (scanQuoted q true 0 bs env.unescape r)
       | _ => .error (.err ⟨str "invalid string literal opening", s⟩)) := by
  unfold singleOrTriple scanSingleOrTriple
  generalize countOpening q 3 s = x
  obtain ⟨k, r⟩ := x
  match k with
  | 0 => rfl
  | 1 =>
    show (match (match scanQuoted q false 0 bs env.unescape r with
          | .error e => .error e
          | .ok (p, r') => .ok (false, p, r') : Except ScanErr (Bool × List Nat × List Nat)) with
      | .error e => .error (.err e)
      | .ok (false, p, r) => .ok (f p, r)
      | .ok (true, p, r) => .ok (g p, r) : Res) = ofScan f (scanQuoted q false 0 bs env.unescape r)
    cases scanQuoted q false 0 bs env.unescape r with
    | error e => rfl
    | ok x => obtain ⟨p, r'⟩ := x; rfl
  | 2 => rfl
  | 3 =>
    show (match (match scanQuoted q true 0 bs env.unescape r with
          | .error e => .error e
          | .ok (p, r') => .ok (true, p, r') : Except ScanErr (Bool × List Nat × List Nat)) with
      | .error e => .error (.err e)
      | .ok (false, p, r) => .ok (f p, r)
      | .ok (true, p, r) => .ok (g p, r) : Res) = ofScan g (scanQuoted q true 0 bs env.unescape r)
    cases scanQuoted q true 0 bs env.unescape r with
    | error e => rfl
    | ok x => obtain ⟨p, r'⟩ := x; rfl
  | n + 4 => rfl

theorem singleOrTriple_modes (env : Env) (q : Nat) (bs : Bool) (f g : List Nat → Token) (s : List Nat)
    (hf : Blank f) (hg : Blank g) :
    eraseRes (singleOrTriple (withUn env true) q bs f g s) =
      eraseRes (singleOrTriple (withUn env false) q bs f g s) := by
  rw [singleOrTriple_eq, singleOrTriple_eq]
  show eraseRes (match countOpening q 3 s with
       | (1, r) => ofScan f (scanQuoted q false 0 bs true r)
       | (2, r) => .ok (f [], r)
       | (3, r) => ofScan g (scanQuoted q true 0 bs true r)
       | _ => .error (.err ⟨str "invalid string literal opening", s⟩)) =
    eraseRes (match countOpening q 3 s with
       | (1, r) => ofScan f (scanQuoted q false 0 bs false r)
       | (2, r) => .ok (f [], r)
       | (3, r) => ofScan g (scanQuoted q true 0 bs false r)
       | _ => .error (.err ⟨str "invalid string literal opening", s⟩))
  split
  · exact scanQuoted_modes _ _ _ _ _ _ hf
  · rfl
  · exact scanQuoted_modes _ _ _ _ _ _ hg
  · rfl


theorem scanSingleQuoted_modes (q : Nat) (bs : Bool) (s : List Nat) (f : List Nat → Token) (hf : Blank f) :
    eraseRes (ofScan f (scanSingleQuoted q bs true s)) = eraseRes (ofScan f (scanSingleQuoted q bs false s)) :=
  scanQuoted_modes q false 1 bs s f hf

theorem lexByte_modes (env : Env) (b : Nat) (cs : List Nat) :
    eraseRes (lexByte (withUn env true) b cs) = eraseRes (lexByte (withUn env false) b cs) := by
  unfold lexByte
  split
  · exact eraseRes_ite _ _ _ _ _ (fun _ => singleOrTriple_modes env _ _ _ _ _ (fun _ _ => rfl) (fun _ _ => rfl))
      (fun _ => scanSingleQuoted_modes _ _ _ _ (fun _ _ => rfl))
  · exact eraseRes_ite _ _ _ _ _ (fun _ => singleOrTriple_modes env _ _ _ _ _ (fun _ _ => rfl) (fun _ _ => rfl))
      (fun _ => scanSingleQuoted_modes _ _ _ _ (fun _ _ => rfl))
  · rfl

theorem lexRaw_modes (env : Env) (b : Nat) (cs : List Nat) :
    eraseRes (lexRaw (withUn env true) b cs) = eraseRes (lexRaw (withUn env false) b cs) := by
  unfold lexRaw
  split
  · exact singleOrTriple_modes env _ _ _ _ _ (fun _ _ => rfl) (fun _ _ => rfl)
  · exact singleOrTriple_modes env _ _ _ _ _ (fun _ _ => rfl) (fun _ _ => rfl)
  · rfl

theorem lexPrefixed_modes (env : Env) (mk : List Nat → Token) (hm : Blank mk) (c : Nat) (cs : List Nat) :
    eraseRes (lexPrefixed (withUn env true) mk c cs) = eraseRes (lexPrefixed (withUn env false) mk c cs) := by
  unfold lexPrefixed
  split
  · exact scanSingleQuoted_modes _ _ _ _ hm
  · rfl

theorem lexQuote_modes (env : Env) (q : Nat) (f g : List Nat → Token) (hf : Blank f) (hg : Blank g) (s : List Nat) :
    eraseRes (lexQuote (withUn env true) q f g s) = eraseRes (lexQuote (withUn env false) q f g s) := by
  unfold lexQuote
  exact eraseRes_ite _ _ _ _ _ (fun _ => singleOrTriple_modes env _ _ _ _ _ hf hg)
    (fun _ => scanSingleQuoted_modes _ _ _ _ hf)

theorem eraseTok_mkWord_quoted (env : Env) (p : List Nat) (c : Nat) :
    eraseTok (mkWord env p (some c)) = .word ⟨[], some c, none⟩ := by
  simp [mkWord, makeWord, eraseTok]

theorem lexQuotedIdent_modes (env : Env) (c : Nat) (cs : List Nat) :
    eraseRes (lexQuotedIdent (withUn env true) c cs) = eraseRes (lexQuotedIdent (withUn env false) c cs) := by
  unfold lexQuotedIdent
  cases matchingEndQuote c with
  | none => rfl
  | some qe =>
    simp only
    show eraseRes (match quotedIdentBody qe true cs with
        | some (p, r) => .ok (mkWord (withUn env true) p (some c), r)
        | none => _) = eraseRes (match quotedIdentBody qe false cs with
        | some (p, r) => .ok (mkWord (withUn env false) p (some c), r)
        | none => _)
    have := quotedBody_modes qe false cs
    rw [← quotedIdentBody_eq, ← quotedIdentBody_eq] at this
    cases h1 : quotedIdentBody qe true cs with
    | none =>
      cases h2 : quotedIdentBody qe false cs with
      | none => rfl
      | some y => rw [h1, h2] at this; simp at this
    | some x =>
      cases h2 : quotedIdentBody qe false cs with
      | none => rw [h1, h2] at this; simp at this
      | some y =>
        rw [h1, h2] at this
        obtain ⟨p, r⟩ := x; obtain ⟨p', r'⟩ := y
        simp at this; subst this
        simp only [eraseRes, eraseTok_mkWord_quoted]

theorem withUn_isBigQuery (env : Env) (b : Bool) : (withUn env b).isBigQuery = env.isBigQuery := rfl
theorem withUn_isGeneric (env : Env) (b : Bool) : (withUn env b).isGeneric = env.isGeneric := rfl
theorem withUn_row (env : Env) (b : Bool) : (withUn env b).row = env.row := rfl
theorem withUn_isDelimStart (env : Env) (b : Bool) : (withUn env b).isDelimStart = env.isDelimStart := rfl
theorem withUn_isIdentStart (env : Env) (b : Bool) : (withUn env b).isIdentStart = env.isIdentStart := rfl
theorem withUn_proper (env : Env) (b : Bool) (s : List Nat) :
    (withUn env b).properIdentInsideQuotes s = env.properIdentInsideQuotes s := rfl

/-- **one token, both modes**: the same error, or the same token up to the blanked payloads and
the same input left -/
theorem lexHead_modes (env : Env) (c : Nat) (cs : List Nat) :
    eraseRes (lexHead (withUn env true) c cs) = eraseRes (lexHead (withUn env false) c cs) := by
  unfold lexHead
  repeat' ((with_reducible apply eraseRes_ite2) <;> first | exact Iff.rfl | intro _)
  all_goals first
    | rfl
    | exact lexByte_modes _ _ _
    | exact lexRaw_modes _ _ _
    | exact lexPrefixed_modes _ _ (fun _ _ => rfl) _ _
    | exact lexQuote_modes _ _ _ _ (fun _ _ => rfl) (fun _ _ => rfl) _
    | exact lexQuotedIdent_modes _ _ _


theorem nextToken_modes (env : Env) (s : List Nat) :
    (match nextToken (withUn env true) s, nextToken (withUn env false) s with
     | .error e, .error e' => e = e'
     | .ok none, .ok none => True
     | .ok (some (t, r)), .ok (some (t', r')) => eraseTok t = eraseTok t' ∧ r = r'
     | _, _ => False) := by
  cases s with
  | nil => simp [nextToken]
  | cons c cs =>
    have := lexHead_modes env c cs
    simp only [nextToken]
    cases h1 : lexHead (withUn env true) c cs with
    | error e =>
      cases h2 : lexHead (withUn env false) c cs with
      | error e' => rw [h1, h2] at this; simpa [eraseRes] using this
      | ok y => rw [h1, h2] at this; obtain ⟨t', r'⟩ := y; simp [eraseRes] at this
    | ok x =>
      obtain ⟨t, r⟩ := x
      cases h2 : lexHead (withUn env false) c cs with
      | error e' => rw [h1, h2] at this; simp [eraseRes] at this
      | ok y =>
        obtain ⟨t', r'⟩ := y
        rw [h1, h2] at this
        simpa [eraseRes] using this

/-- an entry of the loop with the payload blanked -/
def eraseEntry (x : Token × Loc × List Nat) : Token × Loc × List Nat := (eraseTok x.1, x.2.1, x.2.2)

def mapOk {ε α β : Type} (f : α → β) : Except ε α → Except ε β
  | .error e => .error e
  | .ok a => .ok (f a)

theorem tokLoop_modes (env : Env) : ∀ (fuel : Nat) (s : List Nat) (loc : Loc),
    mapOk (List.map eraseEntry) (tokLoop (nextToken (withUn env true)) fuel s loc) =
      mapOk (List.map eraseEntry) (tokLoop (nextToken (withUn env false)) fuel s loc) := by
  intro fuel
  induction fuel with
  | zero => intro s loc; rfl
  | succ n ih =>
    intro s loc
    have hn := nextToken_modes env s
    simp only [tokLoop]
    cases h1 : nextToken (withUn env true) s with
    | error e =>
      cases h2 : nextToken (withUn env false) s with
      | error e' => rw [h1, h2] at hn; simp at hn; subst hn; rfl
      | ok o => rw [h1, h2] at hn; cases o <;> simp at hn
    | ok o =>
      cases h2 : nextToken (withUn env false) s with
      | error e' => rw [h1, h2] at hn; cases o <;> simp at hn
      | ok o' =>
        rw [h1, h2] at hn
        cases o with
        | none =>
          cases o' with
          | none => rfl
          | some y => simp at hn
        | some x =>
          cases o' with
          | none => simp at hn
          | some y =>
            obtain ⟨t, r⟩ := x; obtain ⟨t', r'⟩ := y
            simp only at hn
            obtain ⟨ht, rfl⟩ := hn
            simp only
            have := ih r (advance loc (consumed s r))
            cases h3 : tokLoop (nextToken (withUn env true)) n r (advance loc (consumed s r)) with
            | error e =>
              cases h4 : tokLoop (nextToken (withUn env false)) n r (advance loc (consumed s r)) with
              | error e' => rw [h3, h4] at this; simpa [mapOk] using this
              | ok b => rw [h3, h4] at this; simp [mapOk] at this
            | ok a =>
              cases h4 : tokLoop (nextToken (withUn env false)) n r (advance loc (consumed s r)) with
              | error e' => rw [h3, h4] at this; simp [mapOk] at this
              | ok b =>
                rw [h3, h4] at this
                simp only [mapOk, Except.ok.injEq] at this
                simp only [mapOk, List.map_cons, this, eraseEntry, ht]

/-- **both modes, whole input**: `tokenize` fails in both modes with the same located error, or
succeeds in both with token lists that agree in length, kinds, locations and everything except
the blanked payloads -/
theorem tokenize_modes (env : Env) (s : List Nat) :
    mapOk (List.map fun x : Token × Loc => (eraseTok x.1, x.2)) (tokenize (withUn env true) s) =
      mapOk (List.map fun x : Token × Loc => (eraseTok x.1, x.2)) (tokenize (withUn env false) s) := by
  have := tokLoop_modes env (s.length + 1) s ⟨1, 1⟩
  unfold tokenize tokenizeSpans
  cases h3 : tokLoop (nextToken (withUn env true)) (s.length + 1) s ⟨1, 1⟩ with
  | error e =>
    cases h4 : tokLoop (nextToken (withUn env false)) (s.length + 1) s ⟨1, 1⟩ with
    | error e' => rw [h3, h4] at this; simpa [mapOk] using this
    | ok b => rw [h3, h4] at this; simp [mapOk] at this
  | ok a =>
    cases h4 : tokLoop (nextToken (withUn env false)) (s.length + 1) s ⟨1, 1⟩ with
    | error e' => rw [h3, h4] at this; simp [mapOk] at this
    | ok b =>
      rw [h3, h4] at this
      simp only [mapOk, Except.ok.injEq] at this
      simp only [mapOk, Except.ok.injEq, List.map_map]
      have h5 := congrArg (List.map fun x : Token × Loc × List Nat => (x.1, x.2.1)) this
      simpa [List.map_map, Function.comp_def, eraseEntry, forgetSpan] using h5

/-! ### token level: round trips and raw bodies -/

/-- `E'…'` at token level, every dialect, both modes -/
theorem escaped_token (env : Env) (p rest : List Nat) (h : rest.head? ≠ some 39) :
    nextToken env (showValue .escaped p ++ rest) = .ok (some (.escapedStringLiteral p, rest)) := by
  have := escapedBody_escapeE p rest h
  simp [showValue, nextToken, lexHead, lexEscaped, scanEscaped, this]

/-- `U&'…'` at token level, every dialect with `supports_unicode_string_literal` -/
theorem unicode_token (env : Env) (hu : env.row.flags.supports_unicode_string_literal = true)
    (p rest : List Nat) (hp : ∀ c ∈ p, 128 ≤ c → IsScalar c) (h : rest.head? ≠ some 39) :
    nextToken env (showValue .unicode p ++ rest) = .ok (some (.unicodeStringLiteral p, rest)) := by
  have := unicodeBody_escapeU p rest hp h
  simp [showValue, nextToken, lexHead, lexUnicode, scanUnicode, hu, this, ofScan]

/-- `N'…'` at token level, every dialect: exactly the bodies without quote and backslash -/
theorem national_token (env : Env) (hun : env.unescape = true) (p rest : List Nat) (h : rest.head? ≠ some 39) :
    nextToken env (showValue .national p ++ rest) = .ok (some (.nationalStringLiteral p, rest)) ↔
      (39 ∉ p ∧ 92 ∉ p) := by
  have := verbatim1_iff 39 true rest h p
  simp only [forall_const] at this
  rw [← this]
  simp only [showValue, nextToken, lexHead, lexPrefixed, scanSingleQuoted, scanQuoted, consumeOpening, hun,
    List.cons_append, List.nil_append, List.append_assoc]
  simp
  cases quotedBody 39 true true (p ++ 39 :: rest) with
  | none => simp [ofScan]
  | some x => obtain ⟨a, b⟩ := x; simp [ofScan]


theorem countOpening_one (q c : Nat) (hc : c ≠ q) (s : List Nat) :
    countOpening q 3 (q :: c :: s) = (1, c :: s) := by
  simp [countOpening, hc]

theorem countOpening_two (q : Nat) (rest : List Nat) (h : rest.head? ≠ some q) :
    countOpening q 3 (q :: q :: rest) = (2, rest) := by
  cases rest with
  | nil => simp [countOpening]
  | cons a r =>
    have : a ≠ q := by simpa using h
    simp [countOpening, this]

/-- plain quoted strings at token level (`q` = `'` for every dialect, `"` where it is a string
delimiter): under `CleanQ`, and in dialects with triple-quoted strings only when the payload does
not start with the quote -/
theorem quoted_lexQuote (env : Env) (hun : env.unescape = true) (q : Nat) (f g : List Nat → Token)
    (p rest : List Nat) (h : rest.head? ≠ some q)
    (hc : CleanQ q env.row.flags.supports_string_literal_backslash_escape p)
    (ht : env.row.flags.supports_triple_quoted_string = true → p.head? ≠ some q) :
    lexQuote env q f g ([q] ++ escapeQ q p ++ [q] ++ rest) = .ok (f p, rest) := by
  have hgo := quoted_go q env.row.flags.supports_string_literal_backslash_escape rest h p 0 hc (fun _ => by decide)
  unfold lexQuote
  simp only [hun, List.cons_append, List.nil_append, List.append_assoc]
  split
  · rename_i h3
    rw [singleOrTriple_eq]
    cases p with
    | nil =>
      simp only [escapeQ, escQGo, List.nil_append]
      rw [countOpening_two q rest h]
      rfl
    | cons c p' =>
      have hcq : c ≠ q := by
        have := ht h3; simpa using this
      have he : escapeQ q (c :: p') = c :: escQGo q c p' := by
        simp [escapeQ, escQGo_cons, hcq]
      rw [he, List.cons_append, countOpening_one q c hcq]
      simp only [hun, scanQuoted, consumeOpening]
      have he2 : escQGo q 0 (c :: p') = c :: escQGo q c p' := he
      rw [he2] at hgo
      simp only [List.cons_append] at hgo
      simp [hgo, ofScan]
  · simp only [scanSingleQuoted, scanQuoted, consumeOpening, ↓reduceIte]
    unfold escapeQ
    simp [hgo, ofScan]

theorem single_quoted_token (env : Env) (hun : env.unescape = true) (p rest : List Nat)
    (h : rest.head? ≠ some 39)
    (hc : CleanQ 39 env.row.flags.supports_string_literal_backslash_escape p)
    (ht : env.row.flags.supports_triple_quoted_string = true → p.head? ≠ some 39) :
    nextToken env (showValue .singleQuoted p ++ rest) = .ok (some (.singleQuotedString p, rest)) := by
  have := quoted_lexQuote env hun 39 .singleQuotedString .tripleSingleQuotedString p rest h hc ht
  simp only [List.cons_append, List.nil_append, List.append_assoc] at this
  simp [showValue, nextToken, lexHead, this]


/-! ### raw bodies at branch level -/

theorem raw_singleOrTriple (env : Env) (hun : env.unescape = false) (q : Nat) (bs : Bool)
    (f g : List Nat → Token) (s : List Nat) (t : Token) (rest : List Nat)
    (h : singleOrTriple env q bs f g s = .ok (t, rest)) :
    ∃ p, (t = f p ∧ s = [q] ++ p ++ [q] ++ rest) ∨ (t = g p ∧ s = [q, q, q] ++ p ++ [q, q, q] ++ rest) := by
  unfold singleOrTriple at h
  rw [hun] at h
  split at h
  · simp at h
  · rename_i p r hs
    simp only [Except.ok.injEq, Prod.mk.injEq] at h
    obtain ⟨rfl, rfl⟩ := h
    exact ⟨p, Or.inl ⟨rfl, by simpa using scanSingleOrTriple_raw_exact q bs s false p r hs⟩⟩
  · rename_i p r hs
    simp only [Except.ok.injEq, Prod.mk.injEq] at h
    obtain ⟨rfl, rfl⟩ := h
    exact ⟨p, Or.inr ⟨rfl, by simpa using scanSingleOrTriple_raw_exact q bs s true p r hs⟩⟩

theorem raw_scanSingleQuoted (q : Nat) (bs : Bool) (f : List Nat → Token) (s : List Nat) (t : Token)
    (rest : List Nat) (h : ofScan f (scanSingleQuoted q bs false s) = .ok (t, rest)) :
    ∃ p, t = f p ∧ s = [q] ++ p ++ [q] ++ rest := by
  cases hs : scanSingleQuoted q bs false s with
  | error e => rw [hs] at h; simp [ofScan] at h
  | ok x =>
    obtain ⟨p, r⟩ := x
    rw [hs] at h
    simp only [ofScan, Except.ok.injEq, Prod.mk.injEq] at h
    obtain ⟨rfl, rfl⟩ := h
    exact ⟨p, rfl, by simpa [List.replicate] using scanQuoted_raw_exact q false 1 bs s p r hs⟩

theorem raw_lexQuote (env : Env) (hun : env.unescape = false) (q : Nat) (f g : List Nat → Token)
    (s : List Nat) (t : Token) (rest : List Nat) (h : lexQuote env q f g s = .ok (t, rest)) :
    ∃ p, (t = f p ∧ s = [q] ++ p ++ [q] ++ rest) ∨ (t = g p ∧ s = [q, q, q] ++ p ++ [q, q, q] ++ rest) := by
  unfold lexQuote at h
  simp only at h
  split at h
  · exact raw_singleOrTriple env hun q _ f g s t rest h
  · rw [hun] at h
    obtain ⟨p, h1, h2⟩ := raw_scanSingleQuoted q _ f s t rest h
    exact ⟨p, Or.inl ⟨h1, h2⟩⟩

theorem raw_lexQuotedIdent (env : Env) (hun : env.unescape = false) (c : Nat) (cs : List Nat) (t : Token)
    (rest : List Nat) (h : lexQuotedIdent env c cs = .ok (t, rest)) :
    ∃ p qe, matchingEndQuote c = some qe ∧ t = mkWord env p (some c) ∧ c :: cs = [c] ++ p ++ [qe] ++ rest := by
  unfold lexQuotedIdent at h
  split at h
  · simp at h
  · rename_i qe hq
    rw [hun] at h
    split at h
    · rename_i p r hb
      simp only [Except.ok.injEq, Prod.mk.injEq] at h
      obtain ⟨rfl, rfl⟩ := h
      rw [quotedIdentBody_eq] at hb
      have := quotedBody_raw_exact qe false cs p r hb
      exact ⟨p, qe, hq, rfl, by simp [this]⟩
    · simp at h

/-! ### concrete surroundings for examples and witnesses -/

/-- results of scanners and of `next_token` can be compared by `decide` -/
instance instDecidableEqExcept {ε α : Type} [DecidableEq ε] [DecidableEq α] : DecidableEq (Except ε α) :=
  fun a b =>
    match a, b with
    | .error x, .error y => if h : x = y then isTrue (by rw [h]) else isFalse (fun e => h (by cases e; rfl))
    | .ok x, .ok y => if h : x = y then isTrue (by rw [h]) else isFalse (fun e => h (by cases e; rfl))
    | .error _, .ok _ => isFalse (fun e => by cases e)
    | .ok _, .error _ => isFalse (fun e => by cases e)

def asciiBit (t : List Bool) (c : Nat) : Bool := t.getD c false

/-- a built-in dialect row with Rust's character predicates on ASCII (as tabulated from the running
code); characters above 127 answer `false` -/
def envOf (row : SqlVerif.Gen.DialectRow) (un : Bool) : Env :=
  { row := row, unescape := un,
    isWhitespace := asciiBit SqlVerif.Gen.asciiIsWhitespace, isAlphabetic := asciiBit SqlVerif.Gen.asciiIsAlphabetic,
    isNumeric := asciiBit SqlVerif.Gen.asciiIsNumeric, isAlphanumeric := asciiBit SqlVerif.Gen.asciiIsAlphanumeric,
    toUpper := fun c => [SqlVerif.Gen.asciiToUpper.getD c c],
    isIdentStart := asciiBit row.asciiIdentStart, isIdentPart := asciiBit row.asciiIdentPart,
    isDelimStart := asciiBit row.asciiDelimStart, isCustomOpPart := asciiBit row.asciiCustomOp }

end SqlVerif.Escape

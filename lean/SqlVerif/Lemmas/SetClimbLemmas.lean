import SqlVerif.Model.SetClimb
/-!
Lemmas about the set-operation climbing model (`Model/SetClimb.lean`) for property C04:
token yield, shape invariant, uniqueness of the well-shaped bracketing of parenthesis-free chains.
-/
namespace SqlVerif.SetClimb

/-- in-order token yield; a parenthesised body contributes its parentheses -/
def SetExpr.flatten : SetExpr → List STok
  | .sel n => [.sel n]
  | .query e => .lparen :: e.flatten ++ [.rparen]
  | .setOp l _ _ ops r => l.flatten ++ ops ++ r.flatten

/-- levels of the operators exposed on the left / right edge -/
def leftOpen : SetExpr → List Nat
  | .setOp l o _ _ _ => precOf o :: leftOpen l
  | _ => []

def rightOpen : SetExpr → List Nat
  | .setOp _ o _ _ r => precOf o :: rightOpen r
  | _ => []

def WellShaped : SetExpr → Prop
  | .sel _ => True
  | .query e => WellShaped e
  | .setOp l o _ _ r =>
    (∀ x ∈ rightOpen l, precOf o ≤ x) ∧ (∀ y ∈ leftOpen r, precOf o < y) ∧ WellShaped l ∧ WellShaped r

theorem quantTail_yield (ts : List STok) : ts = (quantTail ts).2.1 ++ (quantTail ts).2.2 := by
  unfold quantTail
  split <;> simp

theorem yield_all (f : Nat) :
    (∀ d ts e rest, parseQuery f d ts = .ok (e, rest) → ts = e.flatten ++ rest) ∧
    (∀ d p ts e rest, queryBody f d p ts = .ok (e, rest) → ts = e.flatten ++ rest) ∧
    (∀ d e0 p ts e rest, remaining f d e0 p ts = .ok (e, rest) → e0.flatten ++ ts = e.flatten ++ rest) := by
  induction f with
  | zero => simp [parseQuery, queryBody, remaining]
  | succ f ih =>
    obtain ⟨ihQ, ihB, ihR⟩ := ih
    refine ⟨?_, ?_, ?_⟩
    · intro d ts e rest h
      cases d with
      | zero => simp [parseQuery] at h
      | succ d => rw [parseQuery] at h; exact ihB _ _ _ _ _ h
    · intro d p ts e rest h
      unfold queryBody at h
      split at h
      · split at h
        · simp at h
        · split at h
          · simp at h
          · have := ihR _ _ _ _ _ _ h
            simpa [SetExpr.flatten] using this
      · split at h
        · simp at h
        · rename_i e1 r1 hq
          have h1 := ihQ _ _ _ _ hq
          split at h
          · split at h
            · simp at h
            · have := ihR _ _ _ _ _ _ h
              rw [h1]
              simpa [SetExpr.flatten] using this
          · simp at h
          · simp at h
      · simp at h
      · simp at h
    · intro d e0 p ts e rest h
      unfold remaining at h
      split at h
      · rename_i o rest0
        split at h
        · simp at h; obtain ⟨rfl, rfl⟩ := h; rfl
        · split at h
          · simp at h
          · rename_i r rest' hb
            have h1 := ihB _ _ _ _ _ hb
            have h2 := ihR _ _ _ _ _ _ h
            have h3 := quantTail_yield rest0
            rw [← h2]
            simp only [SetExpr.flatten, List.append_assoc, List.cons_append, List.nil_append]
            congr 1
            rw [← h1]
            simp [← h3]
      · simp at h; obtain ⟨rfl, rfl⟩ := h; rfl

/-- postcondition of `parse_query_body(p)` -/
def BodyPost (p : Nat) (e : SetExpr) (rest : List STok) : Prop :=
  WellShaped e ∧ (∀ y ∈ leftOpen e, p < y) ∧ (∀ x ∈ rightOpen e, nextPrec rest ≤ x) ∧ nextPrec rest ≤ p

theorem shape_all (f : Nat) :
    (∀ d ts e rest, parseQuery f d ts = .ok (e, rest) → BodyPost 0 e rest) ∧
    (∀ d p ts e rest, queryBody f d p ts = .ok (e, rest) → BodyPost p e rest) ∧
    (∀ d e0 p ts e rest, WellShaped e0 → (∀ y ∈ leftOpen e0, p < y) →
      (∀ x ∈ rightOpen e0, nextPrec ts ≤ x) → remaining f d e0 p ts = .ok (e, rest) → BodyPost p e rest) := by
  induction f with
  | zero => simp [parseQuery, queryBody, remaining]
  | succ f ih =>
    obtain ⟨ihQ, ihB, ihR⟩ := ih
    refine ⟨?_, ?_, ?_⟩
    · intro d ts e rest h
      cases d with
      | zero => simp [parseQuery] at h
      | succ d => rw [parseQuery] at h; exact ihB _ _ _ _ _ h
    · intro d p ts e rest h
      unfold queryBody at h
      split at h
      · split at h
        · simp at h
        · split at h
          · simp at h
          · exact ihR _ _ _ _ _ _ (by simp [WellShaped]) (by simp [leftOpen]) (by simp [rightOpen]) h
      · split at h
        · simp at h
        · rename_i e1 r1 hq
          obtain ⟨w1, -, -, -⟩ := ihQ _ _ _ _ hq
          split at h
          · split at h
            · simp at h
            · exact ihR _ _ _ _ _ _ (by simpa [WellShaped] using w1) (by simp [leftOpen]) (by simp [rightOpen]) h
          · simp at h
          · simp at h
      · simp at h
      · simp at h
    · intro d e0 p ts e rest w lo ro h
      unfold remaining at h
      split at h
      · rename_i o rest0
        split at h
        · rename_i hge
          simp at h; obtain ⟨rfl, rfl⟩ := h
          exact ⟨w, lo, ro, by simpa [nextPrec] using hge⟩
        · rename_i hlt
          split at h
          · simp at h
          · rename_i r rest' hb
            obtain ⟨w1, lo1, ro1, hp1⟩ := ihB _ _ _ _ _ hb
            refine ihR _ (.setOp e0 o _ _ r) _ _ _ _
              (show WellShaped (.setOp e0 o _ _ r) from ⟨by simpa [nextPrec] using ro, lo1, w, w1⟩) ?_ ?_ h
            · intro y hy
              simp [leftOpen] at hy
              rcases hy with rfl | hy
              · omega
              · exact lo y hy
            · intro x hx
              simp [rightOpen] at hx
              rcases hx with rfl | hx
              · exact hp1
              · exact ro1 x hx
      · rename_i hno
        simp at h; obtain ⟨rfl, rfl⟩ := h
        refine ⟨w, lo, ro, ?_⟩
        have : nextPrec ts = 0 := by
          unfold nextPrec
          split
          · rename_i o r; exact absurd rfl (hno o r)
          · rfl
        omega

-- ---------------------------------------------------------------- parenthesis-free chains
def isQuantTok : STok → Bool
  | .all | .distinct | .by_ | .name => true
  | _ => false

/-- trees without parentheses whose operator tokens are an operator followed by quantifier words -/
inductive PureSet : SetExpr → Prop
  | sel (n : Nat) : PureSet (.sel n)
  | setOp (l : SetExpr) (o : Op) (q : SQuant) (qt : List STok) (r : SetExpr) :
      (∀ t ∈ qt, isQuantTok t = true) → (quantTail qt).1 = q → PureSet l → PureSet r →
      PureSet (.setOp l o q (.op o :: qt) r)

def opsOf : SetExpr → List Op
  | .setOp l o _ _ r => opsOf l ++ [o] ++ opsOf r
  | _ => []

theorem pure_head {e : SetExpr} (h : PureSet e) : ∃ n rest, e.flatten = .sel n :: rest := by
  induction h with
  | sel n => exact ⟨n, [], rfl⟩
  | setOp l o q qt r _ _ _ _ ihl _ =>
    obtain ⟨n, rest, hl⟩ := ihl
    exact ⟨n, rest ++ STok.op o :: (qt ++ r.flatten), by simp [SetExpr.flatten, hl]⟩

theorem pure_op_mem {e : SetExpr} (h : PureSet e) (o : Op) (ho : STok.op o ∈ e.flatten) : o ∈ opsOf e := by
  induction h with
  | sel n => simp [SetExpr.flatten] at ho
  | setOp l o' q qt r hq _ _ _ ihl ihr =>
    simp [SetExpr.flatten] at ho
    simp [opsOf]
    rcases ho with ho | ho | ho | ho
    · exact Or.inl (ihl ho)
    · exact Or.inr (Or.inl ho)
    · have := hq _ ho; simp [isQuantTok] at this
    · exact Or.inr (Or.inr (ihr ho))

def rootLevel : SetExpr → Nat
  | .setOp _ o _ _ _ => precOf o
  | _ => 0

theorem pure_ops_ge_root {e : SetExpr} (h : PureSet e) (w : WellShaped e) : ∀ s ∈ opsOf e, rootLevel e ≤ precOf s := by
  induction h with
  | sel n => simp [opsOf]
  | setOp l o q qt r _ _ hl hr ihl ihr =>
    obtain ⟨wl, wr, w1, w2⟩ := w
    intro s hs
    simp [opsOf] at hs
    simp only [rootLevel]
    rcases hs with hs | rfl | hs
    · have := ihl w1 s hs
      cases hl with
      | sel => simp [opsOf] at hs
      | setOp l' o' q' qt' r' =>
        have := wl (precOf o') (by simp [rightOpen])
        simp [rootLevel] at *
        omega
    · exact Nat.le_refl _
    · have := ihr w2 s hs
      cases hr with
      | sel => simp [opsOf] at hs
      | setOp l' o' q' qt' r' =>
        have := wr (precOf o') (by simp [leftOpen])
        simp [rootLevel] at *
        omega

theorem pure_ops_split {l r : SetExpr} {o : Op} {q : SQuant} {ops : List STok}
    (hl : PureSet l) (hr : PureSet r) (w : WellShaped (.setOp l o q ops r)) :
    (∀ s ∈ opsOf l, precOf o ≤ precOf s) ∧ (∀ s ∈ opsOf r, precOf o < precOf s) := by
  obtain ⟨wl, wr, w1, w2⟩ := w
  constructor
  · intro s hs
    have := pure_ops_ge_root hl w1 s hs
    cases hl with
    | sel => simp [opsOf] at hs
    | setOp l' o' q' qt' r' =>
      have := wl (precOf o') (by simp [rightOpen])
      simp [rootLevel] at *
      omega
  · intro s hs
    have := pure_ops_ge_root hr w2 s hs
    cases hr with
    | sel => simp [opsOf] at hs
    | setOp l' o' q' qt' r' =>
      have := wr (precOf o') (by simp [leftOpen])
      simp [rootLevel] at *
      omega

/-- quantifier words followed by an operand split in one way only -/
theorem quant_split (qt1 qt2 f1 f2 : List STok) (h1 : ∀ t ∈ qt1, isQuantTok t = true)
    (h2 : ∀ t ∈ qt2, isQuantTok t = true) (n1 n2 : Nat) (r1 r2 : List STok)
    (hf1 : f1 = .sel n1 :: r1) (hf2 : f2 = .sel n2 :: r2) (h : qt1 ++ f1 = qt2 ++ f2) :
    qt1 = qt2 ∧ f1 = f2 := by
  induction qt1 generalizing qt2 with
  | nil =>
    cases qt2 with
    | nil => simpa using h
    | cons t qt2 =>
      subst hf1
      simp at h
      have := h2 t (by simp)
      rw [← h.1] at this
      simp [isQuantTok] at this
  | cons t qt1 ih =>
    cases qt2 with
    | nil =>
      subst hf2
      simp at h
      have := h1 t (by simp)
      rw [h.1] at this
      simp [isQuantTok] at this
    | cons t' qt2 =>
      simp at h
      obtain ⟨rfl, h⟩ := h
      have := ih qt2 (fun x hx => h1 x (by simp [hx])) (fun x hx => h2 x (by simp [hx])) h
      exact ⟨by rw [this.1], this.2⟩

/-- two well-shaped parenthesis-free trees with the same yield are equal -/
theorem unique_pure (e1 : SetExpr) (h1 : PureSet e1) :
    ∀ e2, PureSet e2 → WellShaped e1 → WellShaped e2 → e1.flatten = e2.flatten → e1 = e2 := by
  induction h1 with
  | sel n =>
    intro e2 h2 _ _ hf
    cases h2 with
    | sel m => simp [SetExpr.flatten] at hf; subst hf; rfl
    | setOp l2 o2 q2 qt2 r2 _ _ hl2 _ =>
      obtain ⟨m, rest, hm⟩ := pure_head hl2
      simp [SetExpr.flatten, hm] at hf
  | setOp l o q qt r hq hqq hl hr ihl ihr =>
    intro e2 h2 w1 w2 hf
    cases h2 with
    | sel m =>
      obtain ⟨m', rest, hm⟩ := pure_head hl
      simp [SetExpr.flatten, hm] at hf
    | setOp l2 o2 q2 qt2 r2 hq2 hqq2 hl2 hr2 =>
      have p1 := pure_ops_split hl hr w1
      have p2 := pure_ops_split hl2 hr2 w2
      obtain ⟨n1, rr1, hr1⟩ := pure_head hr
      obtain ⟨n2, rr2, hr2'⟩ := pure_head hr2
      simp only [SetExpr.flatten, List.append_assoc, List.cons_append] at hf
      rcases List.append_eq_append_iff.1 hf with ⟨a, ha1, ha2⟩ | ⟨a, ha1, ha2⟩
      · cases a with
        | nil =>
          simp at ha1 ha2
          obtain ⟨rfl, hrest⟩ := ha2
          obtain ⟨rfl, hfr⟩ := quant_split qt qt2 _ _ hq hq2 n1 n2 rr1 rr2 hr1 hr2' hrest
          have e1 := ihl l2 hl2 w1.2.2.1 w2.2.2.1 ha1.symm
          have e2 := ihr r2 hr2 w1.2.2.2 w2.2.2.2 hfr
          subst e1 e2
          rw [← hqq, ← hqq2]
        | cons x a =>
          simp at ha2
          obtain ⟨rfl, ha2⟩ := ha2
          have m1 : o ∈ opsOf l2 := pure_op_mem hl2 o (by rw [ha1]; simp)
          have m2 : o2 ∈ opsOf r := by
            apply pure_op_mem hr
            have hmem : STok.op o2 ∈ qt ++ r.flatten := by rw [ha2]; simp
            rcases List.mem_append.1 hmem with hm | hm
            · have := hq _ hm; simp [isQuantTok] at this
            · exact hm
          have := p2.1 o m1
          have := p1.2 o2 m2
          omega
      · cases a with
        | nil =>
          simp at ha1 ha2
          obtain ⟨rfl, hrest⟩ := ha2
          obtain ⟨rfl, hfr⟩ := quant_split qt qt2 _ _ hq hq2 n1 n2 rr1 rr2 hr1 hr2' hrest.symm
          have e1 := ihl l2 hl2 w1.2.2.1 w2.2.2.1 ha1
          have e2 := ihr r2 hr2 w1.2.2.2 w2.2.2.2 hfr
          subst e1 e2
          rw [← hqq, ← hqq2]
        | cons x a =>
          simp at ha2
          obtain ⟨rfl, ha2⟩ := ha2
          have m1 : o2 ∈ opsOf l := pure_op_mem hl o2 (by rw [ha1]; simp)
          have m2 : o ∈ opsOf r2 := by
            apply pure_op_mem hr2
            have hmem : STok.op o ∈ qt2 ++ r2.flatten := by rw [ha2]; simp
            rcases List.mem_append.1 hmem with hm | hm
            · have := hq2 _ hm; simp [isQuantTok] at this
            · exact hm
          have := p1.1 o2 m1
          have := p2.2 o m2
          omega

-- ---------------------------------------------------------------- the parser on parenthesis-free input
def NoParen (ts : List STok) : Prop := ∀ t ∈ ts, t ≠ .lparen

theorem quantTail_quant (ts : List STok) :
    (∀ t ∈ (quantTail ts).2.1, isQuantTok t = true) ∧ (quantTail (quantTail ts).2.1).1 = (quantTail ts).1 := by
  unfold quantTail
  split <;> simp [isQuantTok]

theorem noParen_quantTail {ts : List STok} (h : NoParen ts) : NoParen (quantTail ts).2.2 := by
  intro t ht
  apply h
  rw [quantTail_yield ts]
  simp [ht]

/-- on parenthesis-free input the parser builds parenthesis-free trees -/
theorem pure_all (f : Nat) :
    (∀ d p ts e rest, NoParen ts → queryBody f d p ts = .ok (e, rest) → PureSet e ∧ NoParen rest) ∧
    (∀ d e0 p ts e rest, PureSet e0 → NoParen ts → remaining f d e0 p ts = .ok (e, rest) →
      PureSet e ∧ NoParen rest) := by
  induction f with
  | zero => simp [queryBody, remaining]
  | succ f ih =>
    obtain ⟨ihB, ihR⟩ := ih
    refine ⟨?_, ?_⟩
    · intro d p ts e rest hn h
      unfold queryBody at h
      split at h
      · split at h
        · simp at h
        · split at h
          · simp at h
          · exact ihR _ _ _ _ _ _ (.sel _) (fun t ht => hn t (by simp [ht])) h
      · exact absurd rfl (hn .lparen (by simp))
      · simp at h
      · simp at h
    · intro d e0 p ts e rest h0 hn h
      unfold remaining at h
      split at h
      · rename_i o rest0
        split at h
        · simp at h; obtain ⟨rfl, rfl⟩ := h; exact ⟨h0, hn⟩
        · split at h
          · simp at h
          · rename_i r rest' hb
            have hn0 : NoParen rest0 := fun t ht => hn t (by simp [ht])
            obtain ⟨p1, n1⟩ := ihB _ _ _ _ _ (noParen_quantTail hn0) hb
            have hq := quantTail_quant rest0
            exact ihR _ _ _ _ _ _ (.setOp _ _ _ _ _ hq.1 hq.2 h0 p1) n1 h
      · simp at h; obtain ⟨rfl, rfl⟩ := h; exact ⟨h0, hn⟩

end SqlVerif.SetClimb

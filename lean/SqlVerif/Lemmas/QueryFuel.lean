import SqlVerif.Lemmas.PrattFuel
import SqlVerif.Lemmas.QueryLemmas
/-!
Fuel lemmas for the query model (`Model/Query.lean`) and the statements loop (`Model/Stmts.lean`),
used by `Props/C02Parser.lean`.

* `*_mono` / `qfuel_mono_all`: every function is fuel-monotone (`FuelRel`: out of fuel, or the
  outcome under any larger fuel).
* `*_le` / `*_lt`: rests are not longer (from the yield lemmas) / strictly shorter.
* `*_nofuel` / `qnofuel_all`: with `2 n + 2` fuel the helpers, with `2 n + 3 … 2 n + 5` the
  functions of the mutual block never answer `Err.fuel` (`n` = remaining tokens).
* `Stmts.loop_nofuel`, `loop_stmt_err`, `loop_congr`: the loop of `parse_statements` never exhausts
  its own counter when statements consume a token; statement errors come from suffix-length inputs;
  congruence in the statement parser.
-/
namespace SqlVerif.Query
open SqlVerif.Pratt SqlVerif.Gen
open SqlVerif.SetClimb (Op SQuant precOf)

theorem parseE_mono (c : QCfg) (d : Nat) {f g : Nat} (h : f ≤ g) (ts : List Tok) :
    FuelRel (parseE c f d ts) (parseE c g d ts) := (fuel_mono_all c.e f g h).1 _ _ _

/-- one sequencing step of a fuel-monotonicity proof: the sub-run at the smaller fuel ran out of
fuel (then so does the caller), or it is the sub-run at the larger fuel -/
macro "fr_step " h:term : tactic =>
  `(tactic| (have hfr := $h; rcases hfr with h1 | h1 <;> first | (left; rw [h1]; done) | rw [h1]))

theorem commaSepE_mono {α : Type} (tc : Bool) (elem elem' : List Tok → Res α)
    (hel : ∀ ts, FuelRel (elem ts) (elem' ts)) :
    ∀ (n m : Nat), n ≤ m → ∀ ts, FuelRel (commaSepE tc elem n ts) (commaSepE tc elem' m ts) := by
  intro n
  induction n with
  | zero => intro m _ ts; left; simp [commaSepE]
  | succ n ih =>
    intro m hm ts
    obtain ⟨m, rfl⟩ : ∃ m', m = m' + 1 := ⟨m - 1, by omega⟩
    simp only [commaSepE]
    fr_step hel ts
    cases elem' ts with
    | error er => right; rfl
    | ok v =>
      obtain ⟨v, rest⟩ := v
      simp only
      split
      · rename_i rest'
        split
        · right; rfl
        · fr_step ih m (by omega) rest'
          right; rfl
      · right; rfl

theorem itemViaExpr_mono (c : QCfg) (d : Nat) {f g : Nat} (h : f ≤ g) (ts : List Tok) :
    FuelRel (itemViaExpr c f d ts) (itemViaExpr c g d ts) := by
  unfold itemViaExpr
  fr_step parseE_mono c d h ts
  right; rfl

theorem selectItem_mono (c : QCfg) (d : Nat) {f g : Nat} (h : f ≤ g) (ts : List Tok) :
    FuelRel (selectItem c f d ts) (selectItem c g d ts) := by
  unfold selectItem
  repeat' split
  all_goals first
    | exact itemViaExpr_mono c d h _
    | (right; rfl)

theorem groupByElem_mono (c : QCfg) (d : Nat) {f g : Nat} (h : f ≤ g) (ts : List Tok) :
    FuelRel (groupByElem c f d ts) (groupByElem c g d ts) := by
  unfold groupByElem
  split
  · right; rfl
  · exact parseE_mono c d h ts

theorem orderByElem_mono (c : QCfg) (d : Nat) {f g : Nat} (h : f ≤ g) (ts : List Tok) :
    FuelRel (orderByElem c f d ts) (orderByElem c g d ts) := by
  unfold orderByElem
  fr_step parseE_mono c d h ts
  right; rfl

theorem limPart_mono (c : QCfg) (d : Nat) {f g : Nat} (h : f ≤ g) (cs : List LimClause) (ts : List Tok) :
    FuelRel (limPart c f d cs ts) (limPart c g d cs ts) := by
  unfold limPart
  split
  · split
    · split
      · right; rfl
      · rename_i r _ _ _
        fr_step parseE_mono c d h r
        right; rfl
    · right; rfl
  · right; rfl

theorem offPart_mono (c : QCfg) (d : Nat) {f g : Nat} (h : f ≤ g) (cs : List LimClause) (ts : List Tok) :
    FuelRel (offPart c f d cs ts) (offPart c g d cs ts) := by
  unfold offPart
  split
  · split
    · rename_i kw r _
      fr_step parseE_mono c d h r
      right; rfl
    · right; rfl
  · right; rfl

theorem commaPart_mono (c : QCfg) (d : Nat) {f g : Nat} (h : f ≤ g) (cs : List LimClause) (ts : List Tok) :
    FuelRel (commaPart c f d cs ts) (commaPart c g d cs ts) := by
  unfold commaPart
  split
  · split
    · rename_i r
      fr_step parseE_mono c d h r
      right; rfl
    · right; rfl
  · right; rfl

theorem limStep_mono (c : QCfg) (d : Nat) {f g : Nat} (h : f ≤ g) (cs : List LimClause) (ts : List Tok) :
    FuelRel (limStep c f d cs ts) (limStep c g d cs ts) := by
  unfold limStep
  fr_step limPart_mono c d h cs ts
  cases limPart c g d cs ts with
  | error er => right; rfl
  | ok v =>
    obtain ⟨cs1, ts1⟩ := v
    simp only
    fr_step offPart_mono c d h cs1 ts1
    cases offPart c g d cs1 ts1 with
    | error er => right; rfl
    | ok v =>
      obtain ⟨cs2, ts2⟩ := v
      exact commaPart_mono c d h cs2 ts2

theorem orderPart_mono (c : QCfg) (d : Nat) {f g : Nat} (h : f ≤ g) (ts : List Tok) :
    FuelRel (orderPart c f d ts) (orderPart c g d ts) := by
  unfold orderPart
  split
  · rename_i kws r _
    fr_step commaSepE_mono c.e.trailingCommas _ _ (orderByElem_mono c d h) f g h r
    right; rfl
  · right; rfl

theorem queryTail_mono (c : QCfg) (d : Nat) {f g : Nat} (h : f ≤ g) (ts : List Tok) :
    FuelRel (queryTail c f d ts) (queryTail c g d ts) := by
  unfold queryTail
  fr_step orderPart_mono c d h ts
  cases orderPart c g d ts with
  | error er => right; rfl
  | ok v =>
    obtain ⟨ko, ts1⟩ := v
    simp only
    fr_step limStep_mono c d h [] ts1
    cases limStep c g d [] ts1 with
    | error er => right; rfl
    | ok v =>
      obtain ⟨cs1, ts2⟩ := v
      simp only
      fr_step limStep_mono c d h cs1 ts2
      right; rfl

theorem joinCstr_mono (c : QCfg) (d : Nat) {f g : Nat} (h : f ≤ g) (ts : List Tok) :
    FuelRel (joinCstr c f d ts) (joinCstr c g d ts) := by
  unfold joinCstr
  split
  · rename_i kw r _
    fr_step parseE_mono c d h r
    right; rfl
  · split
    · split
      · rename_i r1 _
        fr_step commaSepE_mono c.e.trailingCommas identElem identElem (fun _ => FuelRel.refl _) f g h r1
        right; rfl
      · right; rfl
    · right; rfl

theorem optCstr_mono (c : QCfg) (d : Nat) {f g : Nat} (h : f ≤ g) (b : Bool) (ts : List Tok) :
    FuelRel (optCstr c f d b ts) (optCstr c g d b ts) := by
  unfold optCstr
  split
  · exact joinCstr_mono c d h ts
  · right; rfl

theorem kwExprPart_mono (c : QCfg) (d : Nat) {f g : Nat} (h : f ≤ g) (k : Nat) (ts : List Tok) :
    FuelRel (kwExprPart c f d k ts) (kwExprPart c g d k ts) := by
  unfold kwExprPart
  split
  · rename_i kw r _
    fr_step parseE_mono c d h r
    right; rfl
  · right; rfl

theorem groupPart_mono (c : QCfg) (d : Nat) {f g : Nat} (h : f ≤ g) (ts : List Tok) :
    FuelRel (groupPart c f d ts) (groupPart c g d ts) := by
  unfold groupPart
  split
  · rename_i kws r _
    split
    · right; rfl
    · fr_step commaSepE_mono c.e.trailingCommas _ _ (groupByElem_mono c d h) f g h r
      right; rfl
  · right; rfl

theorem selTail_mono (c : QCfg) (d : Nat) {f g : Nat} (h : f ≤ g) (ts : List Tok) :
    FuelRel (selTail c f d ts) (selTail c g d ts) := by
  unfold selTail
  split
  · right; rfl
  fr_step kwExprPart_mono c d h K.WHERE ts
  cases kwExprPart c g d K.WHERE ts with
  | error er => right; rfl
  | ok v =>
    obtain ⟨w, ts1⟩ := v
    simp only
    fr_step groupPart_mono c d h ts1
    cases groupPart c g d ts1 with
    | error er => right; rfl
    | ok v =>
      obtain ⟨gp, ts2⟩ := v
      simp only
      split
      · right; rfl
      fr_step kwExprPart_mono c d h K.HAVING ts2
      right; rfl

theorem selHead_mono (c : QCfg) (d : Nat) {f g : Nat} (h : f ≤ g) (sel : Tok) (ts : List Tok) :
    FuelRel (selHead c f d sel ts) (selHead c g d sel ts) := by
  unfold selHead
  split
  · right; rfl
  split
  · right; rfl
  · rename_i qd ts1 _
    split
    · right; rfl
    · fr_step commaSepE_mono (c.e.trailingCommas || c.projTrailing) _ _
        (selectItem_mono (c.withTrailing (c.e.trailingCommas || c.projTrailing)) d h) f g h ts1
      right; rfl


theorem qfuel_mono_all (c : QCfg) (f : Nat) : ∀ g, f ≤ g →
    (∀ d ts, FuelRel (parseQuery c f d ts) (parseQuery c g d ts)) ∧
    (∀ d prec ts, FuelRel (queryBody c f d prec ts) (queryBody c g d prec ts)) ∧
    (∀ d e prec ts, FuelRel (remaining c f d e prec ts) (remaining c g d e prec ts)) ∧
    (∀ d sel ts, FuelRel (parseSelect c f d sel ts) (parseSelect c g d sel ts)) ∧
    (∀ d conn ts, FuelRel (fromItems c f d conn ts) (fromItems c g d conn ts)) ∧
    (∀ d cstr ts, FuelRel (fromRest c f d cstr ts) (fromRest c g d cstr ts)) := by
  induction f with
  | zero =>
    intro g _
    refine ⟨?_, ?_, ?_, ?_, ?_, ?_⟩ <;> intros <;> left <;>
      simp [parseQuery, queryBody, remaining, parseSelect, fromItems, fromRest]
  | succ f ih =>
    intro g hg
    obtain ⟨g, rfl⟩ : ∃ g', g = g' + 1 := ⟨g - 1, by omega⟩
    have hfg : f ≤ g := by omega
    obtain ⟨ihQ, ihB, ihR, ihS, ihI, ihF⟩ := ih g hfg
    refine ⟨?_, ?_, ?_, ?_, ?_, ?_⟩
    · -- parseQuery
      intro d ts
      cases d with
      | zero => right; simp [parseQuery]
      | succ d =>
        simp only [parseQuery]
        split
        · right; rfl
        fr_step ihB d c.e.prec.unknown ts
        cases queryBody c g d c.e.prec.unknown ts with
        | error er => right; rfl
        | ok v =>
          obtain ⟨body, ts1⟩ := v
          simp only
          fr_step queryTail_mono c d hfg ts1
          right; rfl
    · -- queryBody
      intro d prec ts
      cases ts with
      | nil => right; simp [queryBody]
      | cons t rest =>
        unfold queryBody
        simp only
        split
        · fr_step ihS d t rest
          cases parseSelect c g d t rest with
          | error er => right; rfl
          | ok v => obtain ⟨s, ts1⟩ := v; exact ihR d s prec ts1
        · split
          · fr_step ihQ d rest
            cases parseQuery c g d rest with
            | error er => right; rfl
            | ok v =>
              obtain ⟨q, ts1⟩ := v
              simp only
              split
              · exact ihR _ _ _ _
              · right; rfl
          · right; rfl
    · -- remaining
      intro d e prec ts
      cases ts with
      | nil => right; simp [remaining]
      | cons t rest =>
        unfold remaining
        simp only
        split
        · right; rfl
        · rename_i o _
          split
          · right; rfl
          · fr_step ihB d (precOf o) (setQuant rest).2.2
            cases queryBody c g d (precOf o) (setQuant rest).2.2 with
            | error er => right; rfl
            | ok v => obtain ⟨r, ts1⟩ := v; exact ihR _ _ _ _
    · -- parseSelect
      intro d sel ts
      simp only [parseSelect]
      fr_step selHead_mono c d hfg sel ts
      cases selHead c g d sel ts with
      | error er => right; rfl
      | ok v =>
        obtain ⟨hd, ts1⟩ := v
        simp only
        split
        · rename_i kw r _
          fr_step ihI d (.from kw) r
          cases fromItems c g d (.from kw) r with
          | error er => right; rfl
          | ok v =>
            obtain ⟨fr, ts2⟩ := v
            simp only
            fr_step selTail_mono c d hfg ts2
            right; rfl
        · fr_step selTail_mono c d hfg ts1
          right; rfl
    · -- fromItems
      intro d conn ts
      simp only [fromItems]
      split
      · right; rfl
      cases factorHead c ts with
      | error er => right; rfl
      | ok fh =>
        cases fh with
        | table name al r =>
          simp only
          fr_step ihF d conn.hasCstr r
          right; rfl
        | paren lp r =>
          simp only
          fr_step ihQ (d - 1) r
          cases parseQuery c g (d - 1) r with
          | error er => cases er <;> (right; rfl)
          | ok v =>
            obtain ⟨q, r1⟩ := v
            simp only
            split
            · split
              · right; rfl
              · split
                · right; rfl
                · rename_i r3 _ _
                  fr_step ihF d conn.hasCstr r3
                  right; rfl
            · right; rfl
    · -- fromRest
      intro d cstr ts
      simp only [fromRest]
      fr_step optCstr_mono c d hfg cstr ts
      cases optCstr c g d cstr ts with
      | error er => right; rfl
      | ok v =>
        obtain ⟨k, ts1⟩ := v
        simp only
        cases joinHead ts1 with
        | error er => right; rfl
        | ok jh =>
          cases jh with
          | join jk toks r =>
            simp only
            fr_step ihI d (.join jk toks) r
            right; rfl
          | stop =>
            simp only
            split
            · rename_i r
              split
              · right; rfl
              · fr_step ihI d (.comma (.sym .Comma)) r
                right; rfl
            · right; rfl


/-- from a yield equation `ts = pre ++ rest` (after unfolding) to `rest.length ≤ ts.length` -/
macro "len_of " h:term : tactic =>
  `(tactic| (have hlen := congrArg List.length $h; simp at hlen; omega))

theorem parseE_lt {c : QCfg} {f d : Nat} {ts : List Tok} {e : Expr} {rest : List Tok}
    (h : parseE c f d ts = .ok (e, rest)) : rest.length < ts.length := subexpr_lt h

theorem selectItem_le {c : QCfg} {f d : Nat} {ts : List Tok} {v : SelectItem} {rest : List Tok}
    (h : selectItem c f d ts = .ok (v, rest)) : rest.length ≤ ts.length := by
  len_of selectItem_yield _ _ _ _ _ _ h

theorem groupByElem_le {c : QCfg} {f d : Nat} {ts : List Tok} {v : Expr} {rest : List Tok}
    (h : groupByElem c f d ts = .ok (v, rest)) : rest.length ≤ ts.length := by
  len_of groupByElem_yield _ _ _ _ _ _ h

theorem orderByElem_le {c : QCfg} {f d : Nat} {ts : List Tok} {v : OrderByExpr} {rest : List Tok}
    (h : orderByElem c f d ts = .ok (v, rest)) : rest.length ≤ ts.length := by
  len_of orderByElem_yield _ _ _ _ _ _ h

theorem identElem_le {ts : List Tok} {v : Tok} {rest : List Tok}
    (h : identElem ts = .ok (v, rest)) : rest.length ≤ ts.length := by
  unfold identElem at h
  split at h
  · simp at h
  · split at h
    · simp at h; obtain ⟨_, rfl⟩ := h; simp
    · simp at h

theorem limPart_le {c : QCfg} {f d : Nat} {cs : List LimClause} {ts : List Tok} {cs' : List LimClause}
    {rest : List Tok} (h : limPart c f d cs ts = .ok (cs', rest)) : rest.length ≤ ts.length := by
  obtain ⟨new, _, h1⟩ := limPart_yield _ _ _ _ _ _ _ h
  len_of h1

theorem offPart_le {c : QCfg} {f d : Nat} {cs : List LimClause} {ts : List Tok} {cs' : List LimClause}
    {rest : List Tok} (h : offPart c f d cs ts = .ok (cs', rest)) : rest.length ≤ ts.length := by
  obtain ⟨new, _, h1⟩ := offPart_yield _ _ _ _ _ _ _ h
  len_of h1

theorem limStep_le {c : QCfg} {f d : Nat} {cs : List LimClause} {ts : List Tok} {cs' : List LimClause}
    {rest : List Tok} (h : limStep c f d cs ts = .ok (cs', rest)) : rest.length ≤ ts.length := by
  obtain ⟨new, _, h1⟩ := limStep_yield _ _ _ _ _ _ _ h
  len_of h1

theorem orderPart_le {c : QCfg} {f d : Nat} {ts : List Tok} {ko : List Tok × Sep OrderByExpr} {rest : List Tok}
    (h : orderPart c f d ts = .ok (ko, rest)) : rest.length ≤ ts.length := by
  len_of orderPart_yield _ _ _ _ _ _ h

theorem queryTail_le {c : QCfg} {f d : Nat} {ts : List Tok} {qt : QueryTail} {rest : List Tok}
    (h : queryTail c f d ts = .ok (qt, rest)) : rest.length ≤ ts.length := by
  len_of queryTail_yield _ _ _ _ _ _ h

theorem optCstr_le {c : QCfg} {f d : Nat} {b : Bool} {ts : List Tok} {k : JoinCstr} {rest : List Tok}
    (h : optCstr c f d b ts = .ok (k, rest)) : rest.length ≤ ts.length := by
  len_of optCstr_yield _ _ _ _ _ _ _ h

theorem kwExprPart_le {c : QCfg} {f d k : Nat} {ts : List Tok} {w : List Tok × Option Expr} {rest : List Tok}
    (h : kwExprPart c f d k ts = .ok (w, rest)) : rest.length ≤ ts.length := by
  len_of kwExprPart_yield _ _ _ _ _ _ _ h

theorem groupPart_le {c : QCfg} {f d : Nat} {ts : List Tok} {g : List Tok × Sep Expr} {rest : List Tok}
    (h : groupPart c f d ts = .ok (g, rest)) : rest.length ≤ ts.length := by
  len_of groupPart_yield _ _ _ _ _ _ h

theorem selTail_le {c : QCfg} {f d : Nat} {ts : List Tok} {tl : SelTail} {rest : List Tok}
    (h : selTail c f d ts = .ok (tl, rest)) : rest.length ≤ ts.length := by
  len_of selTail_yield _ _ _ _ _ _ h

theorem selHead_le {c : QCfg} {f d : Nat} {sel : Tok} {ts : List Tok} {hd : SelHead} {rest : List Tok}
    (h : selHead c f d sel ts = .ok (hd, rest)) : rest.length ≤ ts.length := by
  have h1 := selHead_yield _ _ _ _ _ _ _ h
  have : hd.sel = sel := by
    unfold selHead at h
    repeat' split at h
    all_goals first | (simp at h; done) | (simp at h; obtain ⟨rfl, _⟩ := h; rfl)
  have hlen := congrArg List.length h1
  simp [SelHead.flatten] at hlen; omega

theorem allOrDistinct_le {ts : List Tok} {qd : List Tok × Bool} {rest : List Tok}
    (h : allOrDistinct ts = .ok (qd, rest)) : rest.length ≤ ts.length := by
  len_of allOrDistinct_yield _ _ _ h

theorem optTableAlias_le {ts al rest : List Tok} (h : optTableAlias ts = .ok (al, rest)) :
    rest.length ≤ ts.length := by
  len_of optTableAlias_yield _ _ _ h

theorem parseQuery_le {c : QCfg} {f d : Nat} {ts : List Tok} {q : Query} {rest : List Tok}
    (h : parseQuery c f d ts = .ok (q, rest)) : rest.length ≤ ts.length := by
  len_of (query_yield_all c f).1 _ _ _ _ h

theorem queryBody_le {c : QCfg} {f d prec : Nat} {ts : List Tok} {n : QNode} {rest : List Tok}
    (h : queryBody c f d prec ts = .ok (n, rest)) : rest.length ≤ ts.length := by
  len_of (query_yield_all c f).2.1 _ _ _ _ _ h

theorem fromRest_le {c : QCfg} {f d : Nat} {b : Bool} {ts : List Tok} {k : JoinCstr} {n : QNode} {rest : List Tok}
    (h : fromRest c f d b ts = .ok ((k, n), rest)) : rest.length ≤ ts.length := by
  len_of (query_yield_all c f).2.2.2.2.2 _ _ _ _ _ _ h

theorem objectName_lt (acc ts name rest : List Tok) (h : objectName acc ts = .ok (name, rest)) :
    rest.length < ts.length := by
  fun_induction objectName acc ts <;> simp_all
  all_goals first | omega | (obtain ⟨_, rfl⟩ := h; simp)

/-- a factor head consumes at least one token -/
theorem factorHead_lt {c : QCfg} {ts : List Tok} {fh : FactorHead} (h : factorHead c ts = .ok fh) :
    (match fh with | .paren _ rest => rest.length | .table _ _ rest => rest.length) < ts.length := by
  unfold factorHead at h
  split at h
  · simp at h
  · split at h
    · rename_i lp rest he
      simp at h; subst h
      unfold eatSym at he
      split at he
      · split at he
        · simp at he; obtain ⟨_, rfl⟩ := he; simp
        · simp at he
      · simp at he
    · split at h
      · simp at h
      · split at h
        · simp at h
        · rename_i name r hn
          have h1 := objectName_lt _ _ _ _ hn
          split at h
          · simp at h
          · split at h
            · simp at h
            · split at h
              · simp at h
              · rename_i al r' ha
                have h2 := optTableAlias_le ha
                split at h
                · simp at h
                · simp at h; subst h; simp only; omega

theorem joinHead_lt {ts : List Tok} {k : JoinKind} {toks r : List Tok}
    (h : joinHead ts = .ok (.join k toks r)) : r.length < ts.length := by
  have h1 := joinHead_yield _ _ _ _ h
  have h2 : toks ≠ [] := by
    unfold joinHead at h
    repeat' split at h
    all_goals first
      | (simp at h; done)
      | (simp at h; obtain ⟨_, rfl, _⟩ := h; simp)
      | (unfold leftRightTail at h
         repeat' split at h
         all_goals first
           | (simp at h; done)
           | (simp at h; obtain ⟨_, rfl, _⟩ := h; simp))
  have : toks.length ≠ 0 := by simpa using h2
  rw [h1]; simp; omega


theorem fromItems_le {c : QCfg} {f d : Nat} {conn : Conn} {ts : List Tok} {n : QNode} {rest : List Tok}
    (h : fromItems c f d conn ts = .ok (n, rest)) : rest.length ≤ ts.length := by
  cases f with
  | zero => simp [fromItems] at h
  | succ f =>
    simp only [fromItems] at h
    split at h
    · simp at h
    · split at h
      · simp at h
      · rename_i name al r hfh
        have h1 := factorHead_lt hfh
        simp only at h1
        split at h
        · simp at h
        · rename_i k rs ts' hr
          have h2 := fromRest_le hr
          simp at h; obtain ⟨_, rfl⟩ := h; omega
      · rename_i lp r hfh
        have h1 := factorHead_lt hfh
        simp only at h1
        split at h
        · simp at h
        · simp at h
        · simp at h
        · rename_i q r1 hq
          have h2 := parseQuery_le hq
          split at h
          · rename_i r2
            split at h
            · simp at h
            · rename_i al r3 ha
              have h3 := optTableAlias_le ha
              split at h
              · simp at h
              · split at h
                · simp at h
                · rename_i k rs ts' hr
                  have h4 := fromRest_le hr
                  simp at h; obtain ⟨_, rfl⟩ := h
                  simp at h2; omega
          · simp at h

theorem parseSelect_le {c : QCfg} {f d : Nat} {sel : Tok} {ts : List Tok} {n : QNode} {rest : List Tok}
    (h : parseSelect c f d sel ts = .ok (n, rest)) : rest.length ≤ ts.length := by
  cases f with
  | zero => simp [parseSelect] at h
  | succ f =>
    simp only [parseSelect] at h
    split at h
    · simp at h
    · rename_i hd ts1 hh
      have h1 := selHead_le hh
      split at h
      · rename_i kw r hk
        have hk' := (eatKw_some_iff _ _ _ _).1 hk
        split at h
        · simp at h
        · rename_i fr ts2 hf
          have h2 := fromItems_le hf
          split at h
          · simp at h
          · rename_i tl ts3 ht
            have h3 := selTail_le ht
            simp at h; obtain ⟨_, rfl⟩ := h
            rw [hk'.1] at h1; simp at h1; omega
      · split at h
        · simp at h
        · rename_i tl ts3 ht
          have h3 := selTail_le ht
          simp at h; obtain ⟨_, rfl⟩ := h; omega

theorem setQuant_le (ts : List Tok) : (setQuant ts).2.2.length ≤ ts.length := by
  len_of setQuant_yield ts

theorem remaining_le {c : QCfg} {f d : Nat} {e : QNode} {prec : Nat} {ts : List Tok} {n : QNode} {rest : List Tok}
    (h : remaining c f d e prec ts = .ok (n, rest)) : rest.length ≤ ts.length := by
  induction f generalizing e ts with
  | zero => simp [remaining] at h
  | succ f ih =>
    unfold remaining at h
    split at h
    · simp at h; obtain ⟨_, rfl⟩ := h; simp
    · rename_i t r
      split at h
      · simp at h; obtain ⟨_, rfl⟩ := h; simp
      · split at h
        · simp at h; obtain ⟨_, rfl⟩ := h; simp
        · split at h
          · simp at h
          · rename_i rr ts1 hb
            have h1 := queryBody_le hb
            have h2 := ih h
            have h3 := setQuant_le r
            simp; omega


@[simp] theorem syn_ne_fuel (w : String) : syn w ≠ .fuel := by simp [syn]

theorem optAlias_ne_fuel (res : List Nat) (ts : List Tok) : optAlias res ts ≠ .error .fuel := by
  unfold optAlias
  repeat' split
  all_goals (simp; done)

theorem identElem_ne_fuel (ts : List Tok) : identElem ts ≠ .error .fuel := by
  unfold identElem
  repeat' split
  all_goals (simp; done)

theorem optTableAlias_ne_fuel (ts : List Tok) : optTableAlias ts ≠ .error .fuel := by
  unfold optTableAlias
  split
  · rename_i er he; intro h; simp at h; subst h; exact optAlias_ne_fuel _ _ he
  · split <;> simp

theorem allOrDistinct_ne_fuel (ts : List Tok) : allOrDistinct ts ≠ .error .fuel := by
  unfold allOrDistinct
  repeat' split
  all_goals (simp; done)

theorem leftRightTail_ne_fuel (k : JoinKind) (t : Tok) (r : List Tok) : leftRightTail k t r ≠ .error .fuel := by
  unfold leftRightTail
  repeat' split
  all_goals (simp; done)

theorem joinHead_ne_fuel (ts : List Tok) : joinHead ts ≠ .error .fuel := by
  unfold joinHead
  repeat' split
  all_goals first
    | (simp; done)
    | exact leftRightTail_ne_fuel _ _ _

theorem objectName_ne_fuel (acc ts : List Tok) : objectName acc ts ≠ .error .fuel := by
  fun_induction objectName acc ts <;> simp_all

theorem factorHead_ne_fuel (c : QCfg) (ts : List Tok) : factorHead c ts ≠ .error .fuel := by
  unfold factorHead
  repeat' split
  all_goals first
    | (simp; done)
    | (rename_i he; intro h; simp at h; subst h; exact objectName_ne_fuel _ _ he)
    | (rename_i he; intro h; simp at h; subst h; exact optTableAlias_ne_fuel _ he)

-- ------------------------------------------------------------------ enough fuel: the helpers
theorem parseE_nofuel (c : QCfg) {f : Nat} (d : Nat) (ts : List Tok) (h : 2 * ts.length + 2 ≤ f) :
    parseE c f d ts ≠ .error .fuel := (nofuel_all c.e f).1 _ _ _ h

/-- a sub-run that failed did not fail for lack of fuel -/
macro "nf_err " h:term : tactic =>
  `(tactic| (rename_i er he; intro hc; simp at hc; subst hc; exact $h he))

theorem commaSepE_nofuel {α : Type} (tc : Bool) (elem : List Tok → Res α)
    (hle : ∀ ts v rest, elem ts = .ok (v, rest) → rest.length ≤ ts.length) :
    ∀ (n : Nat) (ts : List Tok), ts.length + 1 ≤ n →
      (∀ ts', ts'.length ≤ ts.length → elem ts' ≠ .error .fuel) →
      commaSepE tc elem n ts ≠ .error .fuel := by
  intro n
  induction n with
  | zero => intro ts h; omega
  | succ n ih =>
    intro ts hn hel
    simp only [commaSepE]
    split
    · nf_err hel ts (Nat.le_refl _)
    · rename_i v rest he
      have h1 := hle _ _ _ he
      split
      · rename_i rest'
        simp at h1
        split
        · simp
        · split
          · nf_err ih rest' (by omega) (fun ts' h' => hel ts' (by omega))
          · simp
      · simp

theorem itemViaExpr_nofuel (c : QCfg) {f : Nat} (d : Nat) (ts : List Tok) (h : 2 * ts.length + 2 ≤ f) :
    itemViaExpr c f d ts ≠ .error .fuel := by
  unfold itemViaExpr
  split
  · nf_err parseE_nofuel c d ts h
  · split
    · simp
    · split
      · nf_err optAlias_ne_fuel _ _
      · simp

theorem selectItem_nofuel (c : QCfg) {f : Nat} (d : Nat) (ts : List Tok) (h : 2 * ts.length + 2 ≤ f) :
    selectItem c f d ts ≠ .error .fuel := by
  unfold selectItem
  repeat' split
  all_goals first
    | exact itemViaExpr_nofuel c d _ h
    | (simp; done)

theorem groupByElem_nofuel (c : QCfg) {f : Nat} (d : Nat) (ts : List Tok) (h : 2 * ts.length + 2 ≤ f) :
    groupByElem c f d ts ≠ .error .fuel := by
  unfold groupByElem
  split
  · simp
  · exact parseE_nofuel c d ts h

theorem orderByElem_nofuel (c : QCfg) {f : Nat} (d : Nat) (ts : List Tok) (h : 2 * ts.length + 2 ≤ f) :
    orderByElem c f d ts ≠ .error .fuel := by
  unfold orderByElem
  split
  · nf_err parseE_nofuel c d ts h
  · split <;> simp

theorem limPart_nofuel (c : QCfg) {f : Nat} (d : Nat) (cs : List LimClause) (ts : List Tok)
    (h : 2 * ts.length + 2 ≤ f) : limPart c f d cs ts ≠ .error .fuel := by
  unfold limPart
  split
  · split
    · rename_i kw r hk
      have := (eatKw_some_iff _ _ _ _).1 hk
      split
      · simp
      · split
        · nf_err parseE_nofuel c d r (by rw [this.1] at h; simp at h; omega)
        · simp
    · simp
  · simp

theorem offPart_nofuel (c : QCfg) {f : Nat} (d : Nat) (cs : List LimClause) (ts : List Tok)
    (h : 2 * ts.length + 2 ≤ f) : offPart c f d cs ts ≠ .error .fuel := by
  unfold offPart
  split
  · split
    · rename_i kw r hk
      have := (eatKw_some_iff _ _ _ _).1 hk
      split
      · nf_err parseE_nofuel c d r (by rw [this.1] at h; simp at h; omega)
      · simp
    · simp
  · simp

theorem commaPart_nofuel (c : QCfg) {f : Nat} (d : Nat) (cs : List LimClause) (ts : List Tok)
    (h : 2 * ts.length + 2 ≤ f) : commaPart c f d cs ts ≠ .error .fuel := by
  unfold commaPart
  split
  · split
    · rename_i r
      split
      · nf_err parseE_nofuel c d r (by simp at h; omega)
      · simp
    · simp
  · simp

theorem commaPart_le {c : QCfg} {f d : Nat} {cs : List LimClause} {ts : List Tok} {cs' : List LimClause}
    {rest : List Tok} (h : commaPart c f d cs ts = .ok (cs', rest)) : rest.length ≤ ts.length := by
  obtain ⟨new, _, h1⟩ := commaPart_yield _ _ _ _ _ _ _ h
  len_of h1

theorem limStep_nofuel (c : QCfg) {f : Nat} (d : Nat) (cs : List LimClause) (ts : List Tok)
    (h : 2 * ts.length + 2 ≤ f) : limStep c f d cs ts ≠ .error .fuel := by
  unfold limStep
  split
  · nf_err limPart_nofuel c d cs ts h
  · rename_i cs1 ts1 h1
    have := limPart_le h1
    split
    · nf_err offPart_nofuel c d cs1 ts1 (by omega)
    · rename_i cs2 ts2 h2
      have := offPart_le h2
      exact commaPart_nofuel c d cs2 ts2 (by omega)

theorem orderPart_nofuel (c : QCfg) {f : Nat} (d : Nat) (ts : List Tok) (h : 2 * ts.length + 2 ≤ f) :
    orderPart c f d ts ≠ .error .fuel := by
  unfold orderPart
  split
  · rename_i kws r hk
    have hr : r.length ≤ ts.length := by len_of eatKws_yield _ _ _ _ hk
    split
    · nf_err commaSepE_nofuel _ _ (fun _ _ _ => orderByElem_le) f r (by omega)
        (fun ts' h' => orderByElem_nofuel c d ts' (by omega))
    · split <;> simp
  · simp

theorem queryTail_nofuel (c : QCfg) {f : Nat} (d : Nat) (ts : List Tok) (h : 2 * ts.length + 2 ≤ f) :
    queryTail c f d ts ≠ .error .fuel := by
  unfold queryTail
  split
  · nf_err orderPart_nofuel c d ts h
  · rename_i ko ts1 h0
    have := orderPart_le h0
    split
    · nf_err limStep_nofuel c d [] ts1 (by omega)
    · rename_i cs1 ts2 h1
      have := limStep_le h1
      split
      · nf_err limStep_nofuel c d cs1 ts2 (by omega)
      · split <;> simp

theorem joinCstr_nofuel (c : QCfg) {f : Nat} (d : Nat) (ts : List Tok) (h : 2 * ts.length + 2 ≤ f) :
    joinCstr c f d ts ≠ .error .fuel := by
  unfold joinCstr
  split
  · rename_i kw r hk
    have := (eatKw_some_iff _ _ _ _).1 hk
    split
    · nf_err parseE_nofuel c d r (by rw [this.1] at h; simp at h; omega)
    · simp
  · split
    · rename_i kw r hk
      have := (eatKw_some_iff _ _ _ _).1 hk
      split
      · rename_i r1
        split
        · nf_err commaSepE_nofuel _ _ (fun _ _ _ => identElem_le) f r1 (by rw [this.1] at h; simp at h; omega)
            (fun ts' _ => identElem_ne_fuel ts')
        · split <;> simp
      · simp
    · simp

theorem optCstr_nofuel (c : QCfg) {f : Nat} (d : Nat) (b : Bool) (ts : List Tok) (h : 2 * ts.length + 2 ≤ f) :
    optCstr c f d b ts ≠ .error .fuel := by
  unfold optCstr
  split
  · exact joinCstr_nofuel c d ts h
  · simp

theorem kwExprPart_nofuel (c : QCfg) {f : Nat} (d k : Nat) (ts : List Tok) (h : 2 * ts.length + 2 ≤ f) :
    kwExprPart c f d k ts ≠ .error .fuel := by
  unfold kwExprPart
  split
  · rename_i kw r hk
    have := (eatKw_some_iff _ _ _ _).1 hk
    split
    · nf_err parseE_nofuel c d r (by rw [this.1] at h; simp at h; omega)
    · simp
  · simp

theorem groupPart_nofuel (c : QCfg) {f : Nat} (d : Nat) (ts : List Tok) (h : 2 * ts.length + 2 ≤ f) :
    groupPart c f d ts ≠ .error .fuel := by
  unfold groupPart
  split
  · rename_i kws r hk
    have hr : r.length ≤ ts.length := by len_of eatKws_yield _ _ _ _ hk
    split
    · simp
    · split
      · nf_err commaSepE_nofuel _ _ (fun _ _ _ => groupByElem_le) f r (by omega)
          (fun ts' h' => groupByElem_nofuel c d ts' (by omega))
      · split <;> simp
  · simp

theorem selTail_nofuel (c : QCfg) {f : Nat} (d : Nat) (ts : List Tok) (h : 2 * ts.length + 2 ≤ f) :
    selTail c f d ts ≠ .error .fuel := by
  unfold selTail
  split
  · simp
  split
  · nf_err kwExprPart_nofuel c d K.WHERE ts h
  · rename_i w ts1 hw
    have := kwExprPart_le hw
    split
    · nf_err groupPart_nofuel c d ts1 (by omega)
    · rename_i g ts2 hg
      have := groupPart_le hg
      split
      · simp
      split
      · nf_err kwExprPart_nofuel c d K.HAVING ts2 (by omega)
      · split <;> simp

theorem selHead_nofuel (c : QCfg) {f : Nat} (d : Nat) (sel : Tok) (ts : List Tok) (h : 2 * ts.length + 2 ≤ f) :
    selHead c f d sel ts ≠ .error .fuel := by
  unfold selHead
  split
  · simp
  split
  · nf_err allOrDistinct_ne_fuel ts
  · rename_i qd ts1 hq
    have := allOrDistinct_le hq
    split
    · simp
    · split
      · nf_err commaSepE_nofuel _ _ (fun _ _ _ => selectItem_le) f ts1 (by omega)
          (fun ts' h' => selectItem_nofuel _ d ts' (by omega))
      · split <;> simp


theorem qnofuel_all (c : QCfg) (f : Nat) :
    (∀ d ts, 2 * ts.length + 5 ≤ f → parseQuery c f d ts ≠ .error .fuel) ∧
    (∀ d prec ts, 2 * ts.length + 4 ≤ f → queryBody c f d prec ts ≠ .error .fuel) ∧
    (∀ d e prec ts, 2 * ts.length + 4 ≤ f → remaining c f d e prec ts ≠ .error .fuel) ∧
    (∀ d sel ts, 2 * ts.length + 4 ≤ f → parseSelect c f d sel ts ≠ .error .fuel) ∧
    (∀ d conn ts, 2 * ts.length + 4 ≤ f → fromItems c f d conn ts ≠ .error .fuel) ∧
    (∀ d cstr ts, 2 * ts.length + 3 ≤ f → fromRest c f d cstr ts ≠ .error .fuel) := by
  induction f with
  | zero => refine ⟨?_, ?_, ?_, ?_, ?_, ?_⟩ <;> intros <;> omega
  | succ f ih =>
    obtain ⟨ihQ, ihB, ihR, ihS, ihI, ihF⟩ := ih
    refine ⟨?_, ?_, ?_, ?_, ?_, ?_⟩
    · -- parseQuery
      intro d ts hf
      cases d with
      | zero => simp [parseQuery]
      | succ d =>
        simp only [parseQuery]
        split
        · simp
        split
        · nf_err ihB d _ ts (by omega)
        · rename_i body ts1 hb
          have := queryBody_le hb
          split
          · nf_err queryTail_nofuel c d ts1 (by omega)
          · simp
    · -- queryBody
      intro d prec ts hf
      cases ts with
      | nil => simp [queryBody]
      | cons t rest =>
        unfold queryBody
        simp only
        simp at hf
        split
        · split
          · nf_err ihS d t rest (by omega)
          · rename_i s ts1 hs
            have := parseSelect_le hs
            exact ihR _ _ _ _ (by omega)
        · split
          · split
            · nf_err ihQ d rest (by omega)
            · rename_i q ts1 hq
              have := parseQuery_le hq
              split
              · rename_i ts2
                simp at this
                exact ihR _ _ _ _ (by omega)
              · simp
          · split <;> simp
    · -- remaining
      intro d e prec ts hf
      cases ts with
      | nil => simp [remaining]
      | cons t rest =>
        unfold remaining
        simp only
        simp at hf
        have hq := setQuant_le rest
        split
        · simp
        · split
          · simp
          · split
            · nf_err ihB d _ _ (by omega)
            · rename_i r ts1 hb
              have := queryBody_le hb
              exact ihR _ _ _ _ (by omega)
    · -- parseSelect
      intro d sel ts hf
      simp only [parseSelect]
      split
      · nf_err selHead_nofuel c d sel ts (by omega)
      · rename_i hd ts1 hh
        have h1 := selHead_le hh
        split
        · rename_i kw r hk
          have hk' := (eatKw_some_iff _ _ _ _).1 hk
          rw [hk'.1] at h1; simp at h1
          split
          · nf_err ihI d _ r (by omega)
          · rename_i fr ts2 hfi
            have := fromItems_le hfi
            split
            · nf_err selTail_nofuel c d ts2 (by omega)
            · simp
        · split
          · nf_err selTail_nofuel c d ts1 (by omega)
          · simp
    · -- fromItems
      intro d conn ts hf
      simp only [fromItems]
      split
      · simp
      split
      · nf_err factorHead_ne_fuel c ts
      · rename_i name al r hfh
        have h1 := factorHead_lt hfh
        simp only at h1
        split
        · nf_err ihF d _ r (by omega)
        · simp
      · rename_i lp r hfh
        have h1 := factorHead_lt hfh
        simp only at h1
        split
        · simp
        · rename_i hq; exact absurd hq (ihQ _ _ (by omega))
        · simp
        · rename_i q r1 hq
          have h2 := parseQuery_le hq
          split
          · rename_i r2
            simp at h2
            split
            · simp
            · rename_i al r3 ha
              have h3 := optTableAlias_le ha
              split
              · simp
              · split
                · nf_err ihF d _ r3 (by omega)
                · simp
          · simp
    · -- fromRest
      intro d cstr ts hf
      simp only [fromRest]
      split
      · nf_err optCstr_nofuel c d cstr ts (by omega)
      · rename_i k ts1 hc
        have h1 := optCstr_le hc
        split
        · nf_err joinHead_ne_fuel ts1
        · rename_i jk toks r hj
          have h2 := joinHead_lt hj
          split
          · nf_err ihI d _ r (by omega)
          · simp
        · split
          · rename_i r _
            simp at h1
            split
            · simp
            · split
              · nf_err ihI d _ r (by omega)
              · simp
          · simp

end SqlVerif.Query

namespace SqlVerif.Stmts
variable {τ α ε : Type}

theorem dropSemis_le (c : TokClass τ) (ts : List τ) : (dropSemis c ts).2.length ≤ ts.length := by
  induction ts with
  | nil => simp [dropSemis]
  | cons t r ih =>
    simp only [dropSemis]
    split
    · simp; omega
    · simp

/-- the statements loop never runs out of ITS fuel (`ts.length + 1` in `parseStatements`) when the
statement parser consumes at least one token -/
theorem loop_nofuel (c : TokClass τ) (ps : List τ → Except ε (α × List τ))
    (hps : ∀ ts a rest, ps ts = .ok (a, rest) → rest.length < ts.length) :
    ∀ (fuel : Nat) (expecting : Bool) (ts : List τ) (acc : List α), ts.length + 1 ≤ fuel →
      loop c ps fuel expecting ts acc ≠ .error .fuel := by
  intro fuel
  induction fuel with
  | zero => intro _ ts _ h; omega
  | succ fuel ih =>
    intro expecting ts acc hf
    have hd := dropSemis_le c ts
    simp only [loop]
    split
    · simp
    · rename_i t rest hd2
      rw [hd2] at hd
      repeat' split
      all_goals first
        | (simp; done)
        | (rename_i a rest' hp; have := hps _ _ _ hp; simp only [List.length_cons] at hd this; exact ih _ _ _ (by omega))

/-- a statement error reported by the loop is the error of the statement parser on some suffix-length input -/
theorem loop_stmt_err (c : TokClass τ) (ps : List τ → Except ε (α × List τ))
    (hps : ∀ ts a rest, ps ts = .ok (a, rest) → rest.length ≤ ts.length) :
    ∀ (fuel : Nat) (expecting : Bool) (ts : List τ) (acc : List α) (e : ε),
      loop c ps fuel expecting ts acc = .error (.stmt e) →
      ∃ ts', ts'.length ≤ ts.length ∧ ps ts' = .error e := by
  intro fuel
  induction fuel with
  | zero => intro _ ts _ e h; simp [loop] at h
  | succ fuel ih =>
    intro expecting ts acc e h
    have hd := dropSemis_le c ts
    simp only [loop] at h
    split at h
    · simp at h
    · rename_i t rest hd2
      rw [hd2] at hd
      repeat' split at h
      all_goals first
        | (simp at h; done)
        | (rename_i e' hp; simp at h; subst h; exact ⟨_, hd, hp⟩)
        | (rename_i a rest' hp
           have := hps _ _ _ hp
           obtain ⟨ts', h1, h2⟩ := ih _ _ _ _ h
           simp only [List.length_cons] at hd this; exact ⟨ts', by omega, h2⟩)

/-- if a second statement parser agrees with the first wherever the first does not fail with the
designated error `ef`, the loops agree unless the first reports that error -/
theorem loop_congr (c : TokClass τ) (ps ps' : List τ → Except ε (α × List τ)) (ef : ε)
    (hps : ∀ ts, ps ts = .error ef ∨ ps ts = ps' ts) :
    ∀ (fuel : Nat) (expecting : Bool) (ts : List τ) (acc : List α),
      loop c ps fuel expecting ts acc = .error (.stmt ef) ∨
      loop c ps fuel expecting ts acc = loop c ps' fuel expecting ts acc := by
  intro fuel
  induction fuel with
  | zero => intro _ _ _; right; rfl
  | succ fuel ih =>
    intro expecting ts acc
    simp only [loop]
    generalize (if (dropSemis c ts).1 then false else expecting) = ex
    split
    · right; rfl
    · rename_i t rest hd2
      split
      · right; rfl
      · split
        · right; rfl
        · rcases hps (t :: rest) with h1 | h1
          · left; rw [h1]
          · rw [h1]
            cases ps' (t :: rest) with
            | error e => right; rfl
            | ok v => exact ih _ _ _

end SqlVerif.Stmts

namespace SqlVerif.Query
open SqlVerif.Pratt SqlVerif.Gen
open SqlVerif.SetClimb (Op SQuant precOf)

theorem queryBody_lt {c : QCfg} {f d prec : Nat} {ts : List Tok} {n : QNode} {rest : List Tok}
    (h : queryBody c f d prec ts = .ok (n, rest)) : rest.length < ts.length := by
  cases f with
  | zero => simp [queryBody] at h
  | succ f =>
    unfold queryBody at h
    split at h
    · simp at h
    · rename_i t r
      split at h
      · split at h
        · simp at h
        · rename_i s ts1 hs
          have h1 := parseSelect_le hs
          have h2 := remaining_le h
          simp; omega
      · split at h
        · split at h
          · simp at h
          · rename_i q ts1 hq
            have h1 := parseQuery_le hq
            split at h
            · have h2 := remaining_le h
              simp at h1 ⊢; omega
            · simp at h
        · split at h <;> simp at h

theorem parseQuery_lt {c : QCfg} {f d : Nat} {ts : List Tok} {q : Query} {rest : List Tok}
    (h : parseQuery c f d ts = .ok (q, rest)) : rest.length < ts.length := by
  cases f with
  | zero => simp [parseQuery] at h
  | succ f =>
    cases d with
    | zero => simp [parseQuery] at h
    | succ d =>
      simp only [parseQuery] at h
      split at h
      · simp at h
      · split at h
        · simp at h
        · rename_i body ts1 hb
          have h1 := queryBody_lt hb
          split at h
          · simp at h
          · rename_i qt ts2 ht
            have h2 := queryTail_le ht
            simp at h; obtain ⟨_, rfl⟩ := h; omega

theorem parseStatement_lt {c : QCfg} {f limit : Nat} {ts : List Tok} {q : Query} {rest : List Tok}
    (h : parseStatement c f limit ts = .ok (q, rest)) : rest.length < ts.length := by
  unfold parseStatement at h
  repeat' split at h
  all_goals first
    | (simp at h; done)
    | exact parseQuery_lt h

theorem parseStatement_nofuel (c : QCfg) {f : Nat} (limit : Nat) (ts : List Tok) (h : 2 * ts.length + 5 ≤ f) :
    parseStatement c f limit ts ≠ .error .fuel := by
  unfold parseStatement
  repeat' split
  all_goals first
    | (simp; done)
    | exact (qnofuel_all c f).1 _ _ h

theorem parseStatement_mono (c : QCfg) {f g : Nat} (h : f ≤ g) (limit : Nat) (ts : List Tok) :
    FuelRel (parseStatement c f limit ts) (parseStatement c g limit ts) := by
  unfold parseStatement
  repeat' split
  all_goals first
    | exact (qfuel_mono_all c f g h).1 _ _
    | (right; rfl)

/-- the loop of `parse_statements` never runs out of its own fuel, for any statement fuel -/
theorem parseScript_loop_nofuel (c : QCfg) (f limit : Nat) (ts : List Tok) :
    parseScript c f limit ts ≠ .error .fuel :=
  SqlVerif.Stmts.loop_nofuel stmtClass _ (fun _ _ _ h => parseStatement_lt h) _ _ _ _ (Nat.le_refl _)

theorem parseScript_nofuel (c : QCfg) {f : Nat} (limit : Nat) (ts : List Tok) (h : 2 * ts.length + 5 ≤ f) :
    parseScript c f limit ts ≠ .error (.stmt .fuel) := by
  intro hc
  obtain ⟨ts', h1, h2⟩ := SqlVerif.Stmts.loop_stmt_err stmtClass _
    (fun _ _ _ h => Nat.le_of_lt (parseStatement_lt h)) _ _ _ _ _ hc
  exact parseStatement_nofuel c limit ts' (by omega) h2

theorem parseScript_mono (c : QCfg) {f g : Nat} (h : f ≤ g) (limit : Nat) (ts : List Tok) :
    parseScript c f limit ts = .error (.stmt .fuel) ∨ parseScript c f limit ts = parseScript c g limit ts :=
  SqlVerif.Stmts.loop_congr stmtClass (parseStatement c f limit) (parseStatement c g limit) Pratt.Err.fuel
    (fun ts' => parseStatement_mono c h limit ts') _ _ _ _

end SqlVerif.Query

import SqlVerif.Lemmas.PrattLemmas
import SqlVerif.Gen.Reserved
/-!
Extension lemmas for the Pratt model (`Model/Pratt.lean`): a successful run of any parser function
on `ts` is reproduced on `ts ++ x :: r` when `x` is a *stopper* (`,` `)` `;` `]` `}` or a word of
`RESERVED_FOR_COLUMN_ALIAS`): same tree, the appended tokens untouched.  Every peek past the end of
`ts` sees EOF in the first run and `x` in the second, and the parser treats both alike on every
successful path.  Used for the locality theorems of C11 / C13 on the query fragment.
-/
namespace SqlVerif.Pratt
open SqlVerif.Gen

/-- tokens after which nothing of an expression continues: `,` `)` `;` `]` `}` and the words of
`RESERVED_FOR_COLUMN_ALIAS` (the comma and the list-ending tokens of `parse_comma_separated`) -/
def stopper : Tok → Bool
  | .sym .Comma | .sym .RParen | .sym .SemiColon | .sym .RBracket | .sym .RBrace => true
  | .word _ _ (some k) => reservedForColumnAlias.contains k
  | _ => false

/-- keywords the expression parser compares a peeked token with (besides the classifier `kwClass`);
`SELECT`, `WITH` (sub-query look-ahead) and `FROM` (`IS DISTINCT FROM`) are reserved words and are
treated separately -/
def exprKws : List Nat :=
  [KW.TIME, KW.ZONE, KW.ANY, KW.ALL, KW.SOME, kwIndex "EXISTS", KW.COLLATE, KW.UNNEST, KW.AND, KW.ESCAPE, KW.TO,
   KW.UNSIGNED, KW.NULL, KW.NOT, KW.TRUE, KW.FALSE, KW.UNKNOWN, KW.DISTINCT]

theorem reserved_facts : reservedForColumnAlias.all (fun k => kwClass k == .other && !exprKws.contains k) = true := by
  decide +kernel

theorem reserved_other {k : Nat} (h : reservedForColumnAlias.contains k = true) : kwClass k = .other := by
  have := List.all_eq_true.1 reserved_facts k (List.contains_iff_mem.1 h)
  simp at this; exact this.1

theorem reserved_notExpr {k k' : Nat} (h : reservedForColumnAlias.contains k = true) (h' : k' ∈ exprKws) : (k == k') = false := by
  have := List.all_eq_true.1 reserved_facts k (List.contains_iff_mem.1 h)
  simp at this
  cases hk : k == k' with
  | false => rfl
  | true => simp at hk; subst hk; exact absurd h' this.2

theorem stopper_kwc {x : Tok} (h : stopper x = true) : x.kwc = .other := by
  unfold stopper at h
  split at h <;> simp_all [Tok.kwc, reserved_other]

theorem stopper_isKw {x : Tok} (h : stopper x = true) {k : Nat} (hk : k ∈ exprKws) : x.isKw k = false := by
  unfold stopper at h
  split at h <;> simp_all [Tok.isKw]
  exact fun hh => by simpa [hh] using reserved_notExpr (List.contains_iff_mem.2 h) hk
theorem stopper_isSym {x : Tok} (h : stopper x = true) {s : Sym}
    (hs : s ≠ .Comma ∧ s ≠ .RParen ∧ s ≠ .SemiColon ∧ s ≠ .RBracket ∧ s ≠ .RBrace) : x.isSym s = false := by
  unfold stopper at h
  split at h <;> simp_all [Tok.isSym] <;> (intro hh; simp_all)

theorem eatKw_ext {ts : List Tok} {k : Nat} {t : Tok} {rest : List Tok} (h : eatKw ts k = some (t, rest))
    (s : List Tok) : eatKw (ts ++ s) k = some (t, rest ++ s) := by
  obtain ⟨rfl, hk⟩ := (eatKw_some_iff _ _ _ _).1 h
  simp [eatKw, hk]

theorem eatKw_ext_none {x : Tok} (hx : stopper x = true) {k : Nat} (hk : k ∈ exprKws) {ts : List Tok}
    (h : eatKw ts k = none) (r : List Tok) : eatKw (ts ++ x :: r) k = none := by
  cases ts with
  | nil => simp [eatKw, stopper_isKw hx hk]
  | cons t rest => simpa [eatKw] using h

theorem peekKw_ext {x : Tok} (hx : stopper x = true) {k : Nat} (hk : k ∈ exprKws) (ts r : List Tok) :
    peekKw (ts ++ x :: r) k = peekKw ts k := by
  cases ts with
  | nil => simp [peekKw, stopper_isKw hx hk]
  | cons t rest => simp [peekKw]

theorem peekSym_ext {x : Tok} {s : Sym} (hx : x.isSym s = false) (ts r : List Tok) :
    peekSym (ts ++ x :: r) s = peekSym ts s := by
  cases ts with
  | nil => simp [peekSym, hx]
  | cons t rest => simp [peekSym]

theorem peekKwc_ext {x : Tok} (hx : stopper x = true) (ts r : List Tok) :
    peekKwc (ts ++ x :: r) = peekKwc ts := by
  cases ts with
  | nil => simp [peekKwc, stopper_kwc hx]
  | cons t rest => simp [peekKwc]

theorem stopper_shape {x : Tok} (h : stopper x = true) :
    (∃ s, x = .sym s ∧ (s = .Comma ∨ s = .RParen ∨ s = .SemiColon ∨ s = .RBracket ∨ s = .RBrace)) ∨
    (∃ v q k, x = .word v q (some k) ∧ reservedForColumnAlias.contains k = true) := by
  unfold stopper at h
  split at h <;> simp_all
  exact ⟨_, _, _, ⟨rfl, rfl, rfl⟩, h⟩

theorem nextPrecDefault_stopper (c : Cfg) {x : Tok} (hx : stopper x = true) (r : List Tok) :
    nextPrecDefault c (x :: r) = c.prec.unknown := by
  rcases stopper_shape hx with ⟨s, rfl, hs⟩ | ⟨v, q, k, rfl, hk⟩
  · rcases hs with rfl | rfl | rfl | rfl | rfl <;> simp [nextPrecDefault, symPrec]
  · have := stopper_kwc hx
    simp [nextPrecDefault, this]

theorem pgOverride_stopper (c : Cfg) {x : Tok} (hx : stopper x = true) (r : List Tok) :
    pgOverride c (x :: r) = none := by
  rcases stopper_shape hx with ⟨s, rfl, hs⟩ | ⟨v, q, k, rfl, hk⟩
  · rcases hs with rfl | rfl | rfl | rfl | rfl <;> simp [pgOverride]
  · have := stopper_kwc hx
    simp [pgOverride, this]

theorem nextPrecDefault_ext (c : Cfg) {x : Tok} (hx : stopper x = true) (ts r : List Tok) :
    nextPrecDefault c (ts ++ x :: r) = nextPrecDefault c ts := by
  have hT : x.isKw KW.TIME = false := stopper_isKw hx (by simp [exprKws])
  have hZ : x.isKw KW.ZONE = false := stopper_isKw hx (by simp [exprKws])
  match ts with
  | [] => simp [nextPrecDefault_stopper c hx]; rfl
  | [t] =>
    simp only [List.cons_append, List.nil_append, nextPrecDefault]
    split <;> try rfl
    split <;> try rfl
    · cases r with
      | nil => rfl
      | cons t2 r2 => simp [hT]
    · simp [peekKwc, stopper_kwc hx]
  | [t, t1] =>
    simp only [List.cons_append, List.nil_append, nextPrecDefault]
    split <;> try rfl
    split <;> try rfl
    simp [hZ]
  | t :: t1 :: t2 :: rest => simp [nextPrecDefault, peekKwc]

theorem pgOverride_ext (c : Cfg) {x : Tok} (hx : stopper x = true) (ts r : List Tok) :
    pgOverride c (ts ++ x :: r) = pgOverride c ts := by
  cases ts with
  | nil => simp [pgOverride_stopper c hx]; rfl
  | cons t rest => simp [pgOverride]

theorem nextPrec_ext (c : Cfg) {x : Tok} (hx : stopper x = true) (ts r : List Tok) :
    nextPrec c (ts ++ x :: r) = nextPrec c ts := by
  have hc : x.isSym .Colon = false := stopper_isSym hx (by simp)
  simp [nextPrec, pgOverride_ext c hx, nextPrecDefault_ext c hx, peekSym_ext hc]

def PrefixPlan.ext (s : List Tok) : PrefixPlan → PrefixPlan
  | .atom k toks rest => .atom k toks (rest ++ s)
  | .pre o t p rest => .pre o t p (rest ++ s)
  | .paren rest => .paren (rest ++ s)

/-- a stopper is not a period -/
theorem stopper_not_period {x : Tok} (hx : stopper x = true) : x ≠ .sym .Period := by
  intro h; subst h; simp [stopper] at hx

theorem not_period_head_ext {x : Tok} (hx : stopper x = true) (ts1 r : List Tok)
    (hnp : ∀ rest', ts1 = .sym .Period :: rest' → False) : ∀ rest', ts1 ++ x :: r = .sym .Period :: rest' → False := by
  intro rest' h
  cases ts1 with
  | nil => simp at h; exact stopper_not_period hx h.1
  | cons a b => simp at h; exact hnp b (by rw [h.1])

theorem compoundTail_ext {x : Tok} (hx : stopper x = true) (r : List Tok) :
    ∀ (n : Nat) (ts acc toks rest : List Tok), ts.length ≤ n → compoundTail acc ts = .ok (toks, rest) →
      compoundTail acc (ts ++ x :: r) = .ok (toks, rest ++ x :: r) := by
  intro n
  induction n with
  | zero =>
    intro ts acc toks rest hl h
    have : ts = [] := by cases ts <;> simp_all
    subst this; simp [compoundTail] at h
  | succ n ih =>
    intro ts acc toks rest hl h
    cases ts with
    | nil => simp [compoundTail] at h
    | cons t ts1 =>
      unfold compoundTail at h
      split at h
      · -- word
        split at h
        · rename_i rest'
          have := ih rest' _ _ _ (by simp at hl ⊢; omega) h
          simp only [List.cons_append]
          unfold compoundTail
          simp [this]
        · rename_i hnp
          simp at h; obtain ⟨rfl, rfl⟩ := h
          simp only [List.cons_append]
          unfold compoundTail
          simp only
          split
          · rename_i rest' heq; exact absurd heq (fun hh => not_period_head_ext hx _ r hnp _ hh)
          · rfl
      · -- sqs
        split at h
        · rename_i rest'
          have := ih rest' _ _ _ (by simp at hl ⊢; omega) h
          simp only [List.cons_append]
          unfold compoundTail
          simp [this]
        · rename_i hnp
          simp at h; obtain ⟨rfl, rfl⟩ := h
          simp only [List.cons_append]
          unfold compoundTail
          simp only
          split
          · rename_i rest' heq; exact absurd heq (fun hh => not_period_head_ext hx _ r hnp _ hh)
          · rfl
      · simp at h
      · simp at h

end SqlVerif.Pratt

import SqlVerif.Lemmas.PrattLemmas
import SqlVerif.Gen.Reserved
/-!
Extension lemmas for the Pratt model (`Model/Pratt.lean`): a successful run of any parser function
on `ts` is reproduced on `ts ++ x :: r` when `x` is a *stopper* (`,` `)` `;` `]` `}` or a word of
`RESERVED_FOR_COLUMN_ALIAS`): same tree, the appended tokens untouched.  Every peek past the end of
`ts` sees EOF in the first run and `x` in the second, and the parser treats both alike on every
successful path.  Used for the locality theorems of C11 / C13 on the query fragment.
-/
namespace SqlVerif.Pratt
open SqlVerif.Gen

/-- tokens after which nothing of an expression continues: `,` `)` `;` `]` `}` and the words of
`RESERVED_FOR_COLUMN_ALIAS` (the comma and the list-ending tokens of `parse_comma_separated`) -/
def stopper : Tok → Bool
  | .sym .Comma | .sym .RParen | .sym .SemiColon | .sym .RBracket | .sym .RBrace => true
  | .word _ _ (some k) => reservedForColumnAlias.contains k
  | _ => false

/-- keywords the expression parser compares a peeked token with (besides the classifier `kwClass`);
`SELECT`, `WITH` (sub-query look-ahead) and `FROM` (`IS DISTINCT FROM`) are reserved words and are
treated separately -/
def exprKws : List Nat :=
  [KW.TIME, KW.ZONE, KW.ANY, KW.ALL, KW.SOME, kwIndex "EXISTS", KW.COLLATE, KW.UNNEST, KW.AND, KW.ESCAPE, KW.TO,
   KW.UNSIGNED, KW.NULL, KW.NOT, KW.TRUE, KW.FALSE, KW.UNKNOWN, KW.DISTINCT,
   -- tested by the query layer directly after a list element
   kwIndex "AS", kwIndex "ASC", kwIndex "DESC", kwIndex "NULLS", kwIndex "ILIKE", kwIndex "EXCLUDE", kwIndex "REPLACE",
   kwIndex "RENAME", kwIndex "GROUPING", kwIndex "CUBE", kwIndex "ROLLUP", kwIndex "FIRST", kwIndex "LAST", kwIndex "FILL"]

theorem reserved_facts : reservedForColumnAlias.all (fun k => kwClass k == .other && !exprKws.contains k) = true := by
  decide +kernel

theorem reserved_other {k : Nat} (h : reservedForColumnAlias.contains k = true) : kwClass k = .other := by
  have := List.all_eq_true.1 reserved_facts k (List.contains_iff_mem.1 h)
  simp at this; exact this.1

theorem reserved_notExpr {k k' : Nat} (h : reservedForColumnAlias.contains k = true) (h' : k' ∈ exprKws) : (k == k') = false := by
  have := List.all_eq_true.1 reserved_facts k (List.contains_iff_mem.1 h)
  simp at this
  cases hk : k == k' with
  | false => rfl
  | true => simp at hk; subst hk; exact absurd h' this.2

theorem stopper_kwc {x : Tok} (h : stopper x = true) : x.kwc = .other := by
  unfold stopper at h
  split at h <;> simp_all [Tok.kwc, reserved_other]

theorem stopper_isKw {x : Tok} (h : stopper x = true) {k : Nat} (hk : k ∈ exprKws) : x.isKw k = false := by
  unfold stopper at h
  split at h <;> simp_all [Tok.isKw]
  exact fun hh => by simpa [hh] using reserved_notExpr (List.contains_iff_mem.2 h) hk
theorem stopper_isSym {x : Tok} (h : stopper x = true) {s : Sym}
    (hs : s ≠ .Comma ∧ s ≠ .RParen ∧ s ≠ .SemiColon ∧ s ≠ .RBracket ∧ s ≠ .RBrace) : x.isSym s = false := by
  unfold stopper at h
  split at h <;> simp_all [Tok.isSym] <;> (intro hh; simp_all)

theorem eatKw_ext {ts : List Tok} {k : Nat} {t : Tok} {rest : List Tok} (h : eatKw ts k = some (t, rest))
    (s : List Tok) : eatKw (ts ++ s) k = some (t, rest ++ s) := by
  obtain ⟨rfl, hk⟩ := (eatKw_some_iff _ _ _ _).1 h
  simp [eatKw, hk]

theorem eatKw_ext_none {x : Tok} (hx : stopper x = true) {k : Nat} (hk : k ∈ exprKws) {ts : List Tok}
    (h : eatKw ts k = none) (r : List Tok) : eatKw (ts ++ x :: r) k = none := by
  cases ts with
  | nil => simp [eatKw, stopper_isKw hx hk]
  | cons t rest => simpa [eatKw] using h

theorem peekKw_ext {x : Tok} (hx : stopper x = true) {k : Nat} (hk : k ∈ exprKws) (ts r : List Tok) :
    peekKw (ts ++ x :: r) k = peekKw ts k := by
  cases ts with
  | nil => simp [peekKw, stopper_isKw hx hk]
  | cons t rest => simp [peekKw]

theorem peekSym_ext {x : Tok} {s : Sym} (hx : x.isSym s = false) (ts r : List Tok) :
    peekSym (ts ++ x :: r) s = peekSym ts s := by
  cases ts with
  | nil => simp [peekSym, hx]
  | cons t rest => simp [peekSym]

theorem peekKwc_ext {x : Tok} (hx : stopper x = true) (ts r : List Tok) :
    peekKwc (ts ++ x :: r) = peekKwc ts := by
  cases ts with
  | nil => simp [peekKwc, stopper_kwc hx]
  | cons t rest => simp [peekKwc]

theorem stopper_shape {x : Tok} (h : stopper x = true) :
    (∃ s, x = .sym s ∧ (s = .Comma ∨ s = .RParen ∨ s = .SemiColon ∨ s = .RBracket ∨ s = .RBrace)) ∨
    (∃ v q k, x = .word v q (some k) ∧ reservedForColumnAlias.contains k = true) := by
  unfold stopper at h
  split at h <;> simp_all
  exact ⟨_, _, _, ⟨rfl, rfl, rfl⟩, h⟩

theorem nextPrecDefault_stopper (c : Cfg) {x : Tok} (hx : stopper x = true) (r : List Tok) :
    nextPrecDefault c (x :: r) = c.prec.unknown := by
  rcases stopper_shape hx with ⟨s, rfl, hs⟩ | ⟨v, q, k, rfl, hk⟩
  · rcases hs with rfl | rfl | rfl | rfl | rfl <;> simp [nextPrecDefault, symPrec]
  · have := stopper_kwc hx
    simp [nextPrecDefault, this]

theorem pgOverride_stopper (c : Cfg) {x : Tok} (hx : stopper x = true) (r : List Tok) :
    pgOverride c (x :: r) = none := by
  rcases stopper_shape hx with ⟨s, rfl, hs⟩ | ⟨v, q, k, rfl, hk⟩
  · rcases hs with rfl | rfl | rfl | rfl | rfl <;> simp [pgOverride]
  · have := stopper_kwc hx
    simp [pgOverride, this]

theorem nextPrecDefault_ext (c : Cfg) {x : Tok} (hx : stopper x = true) (ts r : List Tok) :
    nextPrecDefault c (ts ++ x :: r) = nextPrecDefault c ts := by
  have hT : x.isKw KW.TIME = false := stopper_isKw hx (by simp [exprKws])
  have hZ : x.isKw KW.ZONE = false := stopper_isKw hx (by simp [exprKws])
  match ts with
  | [] => simp [nextPrecDefault_stopper c hx]; rfl
  | [t] =>
    simp only [List.cons_append, List.nil_append, nextPrecDefault]
    split <;> try rfl
    split <;> try rfl
    · cases r with
      | nil => rfl
      | cons t2 r2 => simp [hT]
    · simp [peekKwc, stopper_kwc hx]
  | [t, t1] =>
    simp only [List.cons_append, List.nil_append, nextPrecDefault]
    split <;> try rfl
    split <;> try rfl
    simp [hZ]
  | t :: t1 :: t2 :: rest => simp [nextPrecDefault, peekKwc]

theorem pgOverride_ext (c : Cfg) {x : Tok} (hx : stopper x = true) (ts r : List Tok) :
    pgOverride c (ts ++ x :: r) = pgOverride c ts := by
  cases ts with
  | nil => simp [pgOverride_stopper c hx]; rfl
  | cons t rest => simp [pgOverride]

theorem nextPrec_ext (c : Cfg) {x : Tok} (hx : stopper x = true) (ts r : List Tok) :
    nextPrec c (ts ++ x :: r) = nextPrec c ts := by
  have hc : x.isSym .Colon = false := stopper_isSym hx (by simp)
  simp [nextPrec, pgOverride_ext c hx, nextPrecDefault_ext c hx, peekSym_ext hc]

def PrefixPlan.ext (s : List Tok) : PrefixPlan → PrefixPlan
  | .atom k toks rest => .atom k toks (rest ++ s)
  | .pre o t p rest => .pre o t p (rest ++ s)
  | .paren rest => .paren (rest ++ s)

/-- a stopper is not a period -/
theorem stopper_not_period {x : Tok} (hx : stopper x = true) : x ≠ .sym .Period := by
  intro h; subst h; simp [stopper] at hx

theorem not_period_head_ext {x : Tok} (hx : stopper x = true) (ts1 r : List Tok)
    (hnp : ∀ rest', ts1 = .sym .Period :: rest' → False) : ∀ rest', ts1 ++ x :: r = .sym .Period :: rest' → False := by
  intro rest' h
  cases ts1 with
  | nil => simp at h; exact stopper_not_period hx h.1
  | cons a b => simp at h; exact hnp b (by rw [h.1])

theorem compoundTail_ext {x : Tok} (hx : stopper x = true) (r : List Tok) :
    ∀ (n : Nat) (ts acc toks rest : List Tok), ts.length ≤ n → compoundTail acc ts = .ok (toks, rest) →
      compoundTail acc (ts ++ x :: r) = .ok (toks, rest ++ x :: r) := by
  intro n
  induction n with
  | zero =>
    intro ts acc toks rest hl h
    have : ts = [] := by cases ts <;> simp_all
    subst this; simp [compoundTail] at h
  | succ n ih =>
    intro ts acc toks rest hl h
    cases ts with
    | nil => simp [compoundTail] at h
    | cons t ts1 =>
      unfold compoundTail at h
      split at h
      · -- word
        split at h
        · rename_i rest'
          have := ih rest' _ _ _ (by simp at hl ⊢; omega) h
          simp only [List.cons_append]
          unfold compoundTail
          simp [this]
        · rename_i hnp
          simp at h; obtain ⟨rfl, rfl⟩ := h
          simp only [List.cons_append]
          unfold compoundTail
          simp only
          split
          · rename_i rest' heq; exact absurd heq (fun hh => not_period_head_ext hx _ r hnp _ hh)
          · rfl
      · -- sqs
        split at h
        · rename_i rest'
          have := ih rest' _ _ _ (by simp at hl ⊢; omega) h
          simp only [List.cons_append]
          unfold compoundTail
          simp [this]
        · rename_i hnp
          simp at h; obtain ⟨rfl, rfl⟩ := h
          simp only [List.cons_append]
          unfold compoundTail
          simp only
          split
          · rename_i rest' heq; exact absurd heq (fun hh => not_period_head_ext hx _ r hnp _ hh)
          · rfl
      · simp at h
      · simp at h

theorem wordTail_stopper (c : Cfg) (t : Tok) (v : W) {x : Tok} (hx : stopper x = true) (r : List Tok) :
    wordTail c t v (x :: r) = .ok (.atom .ident [t] (x :: r)) := by
  rcases stopper_shape hx with ⟨s, rfl, hs⟩ | ⟨v', q, k, rfl, hk⟩
  · rcases hs with rfl | rfl | rfl | rfl | rfl <;> simp [wordTail]
  · simp [wordTail]

theorem wordTail_ext (c : Cfg) (t : Tok) (v : W) {x : Tok} (hx : stopper x = true) (r rest : List Tok) (plan : PrefixPlan)
    (h : wordTail c t v rest = .ok plan) : wordTail c t v (rest ++ x :: r) = .ok (plan.ext (x :: r)) := by
  cases rest with
  | nil =>
    simp [wordTail] at h; subst h
    simpa [PrefixPlan.ext] using wordTail_stopper c t v hx r
  | cons a b =>
    unfold wordTail at h ⊢
    simp only [List.cons_append]
    split at h
    · simp at h
    · rename_i rest' heq
      simp at heq; obtain ⟨rfl, rfl⟩ := heq
      simp only
      split at h
      · simp at h
      · rename_i toks rest'' hc
        have := compoundTail_ext hx r _ _ _ _ _ (Nat.le_refl _) hc
        simp only [this]
        have hl : x.isSym .LParen = false := stopper_isSym hx (by simp)
        rw [peekSym_ext hl]
        split at h
        · simp at h
        · rename_i hp
          simp at h; subst h
          simp [hp, PrefixPlan.ext]
    · rename_i heq
      simp at heq; obtain ⟨rfl, rfl⟩ := heq
      simp only
      split at h
      · simp at h
      · rename_i hl; simp at h; subst h; simp [hl, PrefixPlan.ext]
    · rename_i heq
      simp at heq; obtain ⟨rfl, rfl⟩ := heq
      simp only
      split at h
      · simp at h
      · rename_i hl; simp at h; subst h; simp [hl, PrefixPlan.ext]
    · rename_i heq
      simp at heq; obtain ⟨rfl, rfl⟩ := heq
      simp only
      split at h
      · simp at h
      · rename_i hl; simp at h; subst h; simp [hl, PrefixPlan.ext]
    · rename_i heq
      simp at heq; obtain ⟨rfl, rfl⟩ := heq
      simp only
      split at h
      · simp at h
      · rename_i hl; simp at h; subst h; simp [hl, PrefixPlan.ext]
    · rename_i h1 h2 h3 h4 h5 h6
      simp at h; subst h
      split
      · rename_i heq; simp at heq; exact (h1 b (by rw [heq.1])).elim
      · rename_i heq; simp at heq; exact (h2 b (by rw [heq.1])).elim
      · rename_i heq; simp at heq; exact (h3 b (by rw [heq.1])).elim
      · rename_i heq; simp at heq; exact (h4 _ b (by rw [heq.1])).elim
      · rename_i heq; simp at heq; exact (h5 _ b (by rw [heq.1])).elim
      · rename_i heq; simp at heq; exact (h6 _ _ b (by rw [heq.1])).elim
      · simp [PrefixPlan.ext]

theorem lambdaAhead_ext {x : Tok} (hx : x.isSym .Arrow = false) (r : List Tok) :
    ∀ ts : List Tok, (∃ t ∈ ts, t.isSym .RParen = true) → lambdaAhead (ts ++ x :: r) = lambdaAhead ts := by
  intro ts
  induction ts with
  | nil => intro h; simp at h
  | cons a b ih =>
    intro h
    by_cases ha : a.isSym .RParen = true
    · cases b with
      | nil => simp [lambdaAhead, List.dropWhile, ha, hx]
      | cons t rest => simp [lambdaAhead, List.dropWhile, ha]
    · have hb : ∃ t ∈ b, t.isSym .RParen = true := by
        obtain ⟨t, ht, hr⟩ := h
        simp at ht
        rcases ht with rfl | ht
        · exact absurd hr ha
        · exact ⟨t, ht, hr⟩
      have := ih hb
      simp only [lambdaAhead, List.cons_append, List.dropWhile, ha] at this ⊢
      simpa using this

theorem subQueryAhead_ext (t : Tok) (rest s : List Tok) : subQueryAhead ((t :: rest) ++ s) = subQueryAhead (t :: rest) := by
  simp [subQueryAhead, peekKw]

theorem prefixHead_ext (c : Cfg) {x : Tok} (hx : stopper x = true) (r ts : List Tok) (plan : PrefixPlan)
    (h : prefixHead c ts = .ok plan)
    (hp : ∀ rest, plan = .paren rest → ∃ t ∈ rest, t.isSym .RParen = true) :
    prefixHead c (ts ++ x :: r) = .ok (plan.ext (x :: r)) := by
  have hE : ∀ rest, peekKw (rest ++ x :: r) (kwIndex "EXISTS") = peekKw rest (kwIndex "EXISTS") :=
    fun rest => peekKw_ext hx (by simp [exprKws]) rest r
  cases ts with
  | nil => simp [prefixHead] at h
  | cons t rest =>
    simp only [List.cons_append]
    unfold prefixHead at h ⊢
    simp only at h ⊢
    repeat' split at h
    all_goals try (first
      | (simp at h; done)
      | (simp at h; subst h; simp_all [PrefixPlan.ext]; done)
      | (have := wordTail_ext c _ _ hx r _ _ h; simp_all; done))
    -- `(`: a parenthesised expression; the look-aheads see the same tokens
    rename_i hs hl
    simp at h; subst h
    obtain ⟨t0, ht0, hr0⟩ := hp rest rfl
    have hA : x.isSym .Arrow = false := stopper_isSym hx (by simp)
    have h1 : lambdaAhead (rest ++ x :: r) = lambdaAhead rest := lambdaAhead_ext hA r rest ⟨t0, ht0, hr0⟩
    have h2 : subQueryAhead (rest ++ x :: r) = subQueryAhead rest := by
      cases rest with
      | nil => simp at ht0
      | cons a b => exact subQueryAhead_ext a b _
    simp [h1, h2, hs, hl, PrefixPlan.ext]

theorem collateCheck_ext {x : Tok} (hx : stopper x = true) (r : List Tok) {e e' : Expr} {rest rest' : List Tok}
    (h : collateCheck e rest = .ok (e', rest')) : collateCheck e (rest ++ x :: r) = .ok (e', rest' ++ x :: r) := by
  unfold collateCheck at h ⊢
  rw [peekKw_ext hx (by simp [exprKws])]
  split at h
  · simp at h
  · rename_i hc; simp at h; obtain ⟨rfl, rfl⟩ := h; simp [hc]

theorem eatKws_ext (ks : List Nat) : ∀ {ts ops rest : List Tok}, eatKws ts ks = some (ops, rest) →
    ∀ s, eatKws (ts ++ s) ks = some (ops, rest ++ s) := by
  induction ks with
  | nil => intro ts ops rest h s; simp [eatKws] at h ⊢; obtain ⟨rfl, rfl⟩ := h; simp
  | cons k ks ih =>
    intro ts ops rest h s
    unfold eatKws at h ⊢
    split at h
    · simp at h
    · rename_i t r hk
      rw [eatKw_ext hk]
      simp only
      split at h
      · simp at h
      · rename_i ops' rest' hr
        simp at h; obtain ⟨rfl, rfl⟩ := h
        simp [ih hr]

theorem eatKws_ext_none {x : Tok} (hx : stopper x = true) (r : List Tok) (ks : List Nat) (hks : ∀ k ∈ ks, k ∈ exprKws) :
    ∀ {ts : List Tok}, ks ≠ [] → eatKws ts ks = none → eatKws (ts ++ x :: r) ks = none := by
  induction ks with
  | nil => intro ts hne; exact absurd rfl hne
  | cons k ks ih =>
    intro ts _ h
    unfold eatKws at h ⊢
    split at h
    · rename_i hk
      rw [eatKw_ext_none hx (hks k (by simp)) hk]
    · rename_i t rest hk
      rw [eatKw_ext hk]
      simp only
      split at h
      · rename_i hr
        cases ks with
        | nil => simp [eatKws] at hr
        | cons k2 ks2 =>
          rw [ih (fun k hk => hks k (by simp [hk])) (by simp) hr]
      · simp at h

def IsPlan.ext (s : List Tok) : IsPlan → IsPlan
  | .post k ops rest => .post k ops (rest ++ s)
  | .distinct neg ops rest => .distinct neg ops (rest ++ s)

theorem isKw_ne {t : Tok} {a b : Nat} (h : t.isKw a = true) (hab : (a == b) = false) : t.isKw b = false := by
  unfold Tok.isKw at h ⊢
  split at h <;> simp_all

theorem not_ne_distinct : (KW.NOT == KW.DISTINCT) = false := by decide +kernel

theorem isTail_ext {x : Tok} (hx : stopper x = true) (r : List Tok) {ts : List Tok} {p : IsPlan}
    (h : isTail ts = some p) : isTail (ts ++ x :: r) = some (p.ext (x :: r)) := by
  have n1 := @eatKws_ext_none x hx r [KW.NULL] (by simp [exprKws]) ts (by simp)
  have n2 := @eatKws_ext_none x hx r [KW.NOT, KW.NULL] (by simp [exprKws]) ts (by simp)
  have n3 := @eatKws_ext_none x hx r [KW.TRUE] (by simp [exprKws]) ts (by simp)
  have n4 := @eatKws_ext_none x hx r [KW.NOT, KW.TRUE] (by simp [exprKws]) ts (by simp)
  have n5 := @eatKws_ext_none x hx r [KW.FALSE] (by simp [exprKws]) ts (by simp)
  have n6 := @eatKws_ext_none x hx r [KW.NOT, KW.FALSE] (by simp [exprKws]) ts (by simp)
  have n7 := @eatKws_ext_none x hx r [KW.UNKNOWN] (by simp [exprKws]) ts (by simp)
  have n8 := @eatKws_ext_none x hx r [KW.NOT, KW.UNKNOWN] (by simp [exprKws]) ts (by simp)
  unfold isTail at h ⊢
  split at h
  · rename_i ops r' hk; simp at h; subst h; simp [eatKws_ext _ hk, IsPlan.ext]
  rename_i h1; rw [n1 h1]; simp only
  split at h
  · rename_i ops r' hk; simp at h; subst h; simp [eatKws_ext _ hk, IsPlan.ext]
  rename_i h2; rw [n2 h2]; simp only
  split at h
  · rename_i ops r' hk; simp at h; subst h; simp [eatKws_ext _ hk, IsPlan.ext]
  rename_i h3; rw [n3 h3]; simp only
  split at h
  · rename_i ops r' hk; simp at h; subst h; simp [eatKws_ext _ hk, IsPlan.ext]
  rename_i h4; rw [n4 h4]; simp only
  split at h
  · rename_i ops r' hk; simp at h; subst h; simp [eatKws_ext _ hk, IsPlan.ext]
  rename_i h5; rw [n5 h5]; simp only
  split at h
  · rename_i ops r' hk; simp at h; subst h; simp [eatKws_ext _ hk, IsPlan.ext]
  rename_i h6; rw [n6 h6]; simp only
  split at h
  · rename_i ops r' hk; simp at h; subst h; simp [eatKws_ext _ hk, IsPlan.ext]
  rename_i h7; rw [n7 h7]; simp only
  split at h
  · rename_i ops r' hk; simp at h; subst h; simp [eatKws_ext _ hk, IsPlan.ext]
  rename_i h8; rw [n8 h8]; simp only
  split at h
  · rename_i ops r' hk; simp at h; subst h; simp [eatKws_ext _ hk, IsPlan.ext]
  rename_i h9
  split at h
  · rename_i ops r' hk
    simp at h; subst h
    -- the first token is NOT, so `DISTINCT FROM` still fails on the extended list
    have h9' : eatKws (ts ++ x :: r) [KW.DISTINCT, KW.FROM] = none := by
      unfold eatKws at hk
      split at hk
      · simp at hk
      · rename_i t rest hkn
        obtain ⟨rfl, hn⟩ := (eatKw_some_iff _ _ _ _).1 hkn
        simp [eatKws, eatKw, isKw_ne hn not_ne_distinct]
    simp [h9', eatKws_ext _ hk, IsPlan.ext]
  · simp at h

def InfixPlan.ext (s : List Tok) : InfixPlan → InfixPlan
  | .right k ops rest p => .right k ops (rest ++ s) p
  | .post k ops rest => .post k ops (rest ++ s)
  | .like k neg any ops rest => .like k neg any ops (rest ++ s)
  | .between neg ops rest => .between neg ops (rest ++ s)
  | .inl neg ops rest => .inl neg ops (rest ++ s)
  | .quant o qk ops rest p => .quant o qk ops (rest ++ s) p

/-- plans whose operand list opens with `(`: the look-ahead for a sub-query needs a token there -/
def InfixPlan.NeedsRest : InfixPlan → Prop
  | .inl _ _ rest => rest ≠ []
  | .quant _ _ _ rest _ => rest ≠ []
  | _ => True

theorem subQueryAhead_ne (rest s : List Tok) (h : rest ≠ []) : subQueryAhead (rest ++ s) = subQueryAhead rest := by
  cases rest with
  | nil => exact absurd rfl h
  | cons a b => exact subQueryAhead_ext a b s

theorem notFamilyTail_ext (c : Cfg) {x : Tok} (hx : stopper x = true) (r : List Tok) (neg : Bool) (pre ts : List Tok)
    (plan : InfixPlan) (h : notFamilyTail c neg pre ts = .ok plan) (hn : plan.NeedsRest) :
    notFamilyTail c neg pre (ts ++ x :: r) = .ok (plan.ext (x :: r)) := by
  have hU : ∀ rest, peekKw (rest ++ x :: r) KW.UNNEST = peekKw rest KW.UNNEST :=
    fun rest => peekKw_ext hx (by simp [exprKws]) rest r
  have hkc := stopper_kwc hx
  cases ts with
  | nil => simp [notFamilyTail] at h
  | cons t1 r1 =>
    simp only [List.cons_append]
    unfold notFamilyTail at h ⊢
    simp only at h ⊢
    split at h
    · -- regexp
      rename_i hk
      split at h
      · simp at h; subst h; simp [hkc, InfixPlan.ext]
      · rename_i t2 r2
        split at h <;> (rename_i h2; simp at h; subst h; simp [h2, InfixPlan.ext])
    · simp at h; subst h; simp [InfixPlan.ext]
    · -- in
      rename_i hk
      simp only [hU]
      split at h
      · simp at h
      · rename_i hu
        split at h
        · rename_i r2
          split at h
          · simp at h
          · rename_i hs
            simp at h; subst h
            simp only [InfixPlan.NeedsRest] at hn
            simp [hu, subQueryAhead_ne _ _ hn, hs, InfixPlan.ext]
        · simp at h
    · simp at h; subst h; simp [InfixPlan.ext]
    · -- like
      rename_i hk
      split at h
      · rename_i t2 r2 ha; simp at h; subst h; simp [eatKw_ext ha, InfixPlan.ext]
      · rename_i ha; simp at h; subst h
        simp [eatKw_ext_none hx (by simp [exprKws]) ha, InfixPlan.ext]
    · -- ilike
      rename_i hk
      split at h
      · rename_i t2 r2 ha; simp at h; subst h; simp [eatKw_ext ha, InfixPlan.ext]
      · rename_i ha; simp at h; subst h
        simp [eatKw_ext_none hx (by simp [exprKws]) ha, InfixPlan.ext]
    · -- similar
      rename_i hk
      split at h
      · rename_i t2 r2 ha; simp at h; subst h; simp [eatKw_ext ha, InfixPlan.ext]
      · simp at h
    · simp at h

theorem typeContinues_ext {x : Tok} (hx : stopper x = true) (ts r : List Tok) :
    typeContinues (ts ++ x :: r) = typeContinues ts := by
  have h1 : x.isSym .LParen = false := stopper_isSym hx (by simp)
  have h2 : x.isSym .LBracket = false := stopper_isSym hx (by simp)
  simp [typeContinues, peekSym_ext h1, peekSym_ext h2, peekKw_ext hx (show KW.UNSIGNED ∈ exprKws by simp [exprKws])]

theorem escapeTail_ext (c : Cfg) {x : Tok} (hx : stopper x = true) (r ts : List Tok) :
    (escapeTail c ts = .ok none → escapeTail c (ts ++ x :: r) = .ok none) ∧
    (∀ esc rest, escapeTail c ts = .ok (some (esc, rest)) → escapeTail c (ts ++ x :: r) = .ok (some (esc, rest ++ x :: r))) := by
  constructor
  · intro h
    unfold escapeTail at h ⊢
    split at h
    · rename_i hk; rw [eatKw_ext_none hx (by simp [exprKws]) hk]
    · rename_i t1 r1 hk
      repeat' split at h
      all_goals simp at h
  · intro esc rest h
    unfold escapeTail at h ⊢
    split at h
    · simp at h
    · rename_i t1 r1 hk
      rw [eatKw_ext hk]
      simp only
      repeat' split at h
      all_goals first
        | (simp at h; done)
        | (simp at h; obtain ⟨rfl, rfl⟩ := h; simp)

theorem infixHead_ext (c : Cfg) {x : Tok} (hx : stopper x = true) (r : List Tok) (d q : Nat) (ts : List Tok)
    (plan : InfixPlan) (h : infixHead c d q ts = .ok plan) (hn : plan.NeedsRest) :
    infixHead c d q (ts ++ x :: r) = .ok (plan.ext (x :: r)) := by
  have hANY : x.isKw KW.ANY = false := stopper_isKw hx (by simp [exprKws])
  have hALL : x.isKw KW.ALL = false := stopper_isKw hx (by simp [exprKws])
  have hSOME : x.isKw KW.SOME = false := stopper_isKw hx (by simp [exprKws])
  cases ts with
  | nil => simp [infixHead] at h
  | cons t rest =>
    simp only [List.cons_append]
    unfold infixHead at h ⊢
    simp only at h ⊢
    split at h
    · simp at h; subst h; simp_all [InfixPlan.ext]
    · rename_i hmy
      simp only [hmy]
      split at h
      · simp at h
      · -- regular binary operator
        rename_i o ho
        split at h
        · simp at h; subst h; simp [hANY, hALL, hSOME, InfixPlan.ext]
        · rename_i t2 rest2
          simp only [List.cons_append]
          split at h
          · rename_i hq
            simp only [hq, if_true]
            split at h
            · rename_i rest3
              simp only [List.cons_append]
              split at h
              · simp at h
              · rename_i hs
                simp at h; subst h
                simp only [InfixPlan.NeedsRest] at hn
                simp [subQueryAhead_ne _ _ hn, hs, InfixPlan.ext]
            · rename_i hnl
              simp at h
          · rename_i hq
            simp at h; subst h
            simp [hq, InfixPlan.ext]
      · -- not a regular operator
        rename_i hb
        split at h
        · -- word
          split at h
          · -- IS
            split at h
            · rename_i ik ops rest' hi
              simp at h; subst h
              simp [isTail_ext hx r hi, IsPlan.ext, InfixPlan.ext]
            · rename_i neg ops rest' hi
              simp at h; subst h
              simp [isTail_ext hx r hi, IsPlan.ext, InfixPlan.ext]
            · simp at h
          · -- AT
            repeat' split at h
            all_goals first
              | (simp at h; done)
              | (simp at h; subst h; simp_all [InfixPlan.ext])
          · -- NOT
            have := notFamilyTail_ext c hx r _ _ _ _ h hn
            simpa using this
          · have := notFamilyTail_ext c hx r _ _ _ _ h hn
            simpa using this
          · have := notFamilyTail_ext c hx r _ _ _ _ h hn
            simpa using this
          · have := notFamilyTail_ext c hx r _ _ _ _ h hn
            simpa using this
          · have := notFamilyTail_ext c hx r _ _ _ _ h hn
            simpa using this
          · have := notFamilyTail_ext c hx r _ _ _ _ h hn
            simpa using this
          · have := notFamilyTail_ext c hx r _ _ _ _ h hn
            simpa using this
          · have := notFamilyTail_ext c hx r _ _ _ _ h hn
            simpa using this
          · simp at h
        · -- ::
          split at h
          · simp at h
          · rename_i hd
            simp only [hd, if_false]
            split at h
            · simp at h
            · rename_i ty rest2
              simp only [List.cons_append]
              split at h
              · rename_i k
                split at h
                · rename_i hc
                  simp at h; subst h
                  simp at hc
                  simp [typeContinues_ext hx, hc, InfixPlan.ext]
                · simp at h
              all_goals simp at h
        · simp at h; subst h; simp [InfixPlan.ext]
        all_goals (try (repeat' split at h)) <;> simp at h

theorem parseSubexpr_ne_nil (c : Cfg) (f d p : Nat) (ts : List Tok) (e : Expr) (rest : List Tok)
    (h : parseSubexpr c f d p ts = .ok (e, rest)) : ts ≠ [] := by
  intro hts; subst hts
  cases f with
  | zero => simp [parseSubexpr] at h
  | succ f =>
    cases d with
    | zero => simp [parseSubexpr] at h
    | succ d =>
      simp only [parseSubexpr] at h
      cases f with
      | zero => simp [parsePrefix] at h
      | succ f =>
        simp only [parsePrefix] at h
        split at h
        · simp at h
        · rename_i heq
          split at heq
          · simp at heq
          · simp [prefixHead] at heq

theorem parseItems_ne_nil (c : Cfg) (f d : Nat) (ts : List Tok) (e : Expr) (rest : List Tok)
    (h : parseItems c f d ts = .ok (e, rest)) : ts ≠ [] := by
  cases f with
  | zero => simp [parseItems] at h
  | succ f =>
    simp only [parseItems] at h
    split at h
    · simp at h
    · rename_i e1 r1 hs; exact parseSubexpr_ne_nil _ _ _ _ _ _ _ hs

theorem listEndAhead_ne (rest s : List Tok) (h : rest ≠ []) : listEndAhead (rest ++ s) = listEndAhead rest := by
  cases rest with
  | nil => exact absurd rfl h
  | cons a b => simp [listEndAhead]

theorem peekSym_ne (rest s : List Tok) (sy : Sym) (h : rest ≠ []) : peekSym (rest ++ s) sy = peekSym rest sy := by
  cases rest with
  | nil => exact absurd rfl h
  | cons a b => simp [peekSym]

theorem ext_all (c : Cfg) {x : Tok} (hx : stopper x = true) (r : List Tok) (f : Nat) :
    (∀ d p ts e rest, parseSubexpr c f d p ts = .ok (e, rest) →
      parseSubexpr c f d p (ts ++ x :: r) = .ok (e, rest ++ x :: r)) ∧
    (∀ d p e0 ts e rest, loop c f d p e0 ts = .ok (e, rest) →
      loop c f d p e0 (ts ++ x :: r) = .ok (e, rest ++ x :: r)) ∧
    (∀ d ts e rest, parsePrefix c f d ts = .ok (e, rest) →
      parsePrefix c f d (ts ++ x :: r) = .ok (e, rest ++ x :: r)) ∧
    (∀ d e0 q ts e rest, parseInfix c f d e0 q ts = .ok (e, rest) →
      parseInfix c f d e0 q (ts ++ x :: r) = .ok (e, rest ++ x :: r)) ∧
    (∀ d ts e rest, parseItems c f d ts = .ok (e, rest) → rest ≠ [] →
      parseItems c f d (ts ++ x :: r) = .ok (e, rest ++ x :: r)) := by
  induction f with
  | zero => simp [parseSubexpr, loop, parsePrefix, parseInfix, parseItems]
  | succ f ih =>
    obtain ⟨ihS, ihL, ihP, ihI, ihT⟩ := ih
    refine ⟨?_, ?_, ?_, ?_, ?_⟩
    · -- parseSubexpr
      intro d p ts e rest h
      cases d with
      | zero => simp [parseSubexpr] at h
      | succ d =>
        simp only [parseSubexpr] at h ⊢
        split at h
        · simp at h
        · rename_i e0 ts' hp
          rw [ihP _ _ _ _ hp]
          exact ihL _ _ _ _ _ _ h
    · -- loop
      intro d p e0 ts e rest h
      simp only [loop] at h ⊢
      rw [nextPrec_ext c hx]
      split at h
      · rename_i hge
        simp at h; obtain ⟨rfl, rfl⟩ := h
        simp [hge]
      · rename_i hlt
        simp only [hlt, if_false]
        split at h
        · simp at h
        · rename_i e1 ts1 hi
          rw [ihI _ _ _ _ _ _ hi]
          exact ihL _ _ _ _ _ _ h
    · -- parsePrefix
      intro d ts e rest h
      simp only [parsePrefix] at h ⊢
      split at h
      · simp at h
      · rename_i hd
        simp only [hd, if_false]
        split at h
        · simp at h
        · rename_i k toks r0 hh
          rw [prefixHead_ext c hx r _ _ hh (by intro _ hc; cases hc)]
          simp only [PrefixPlan.ext]
          exact collateCheck_ext hx r h
        · rename_i o t p r0 hh
          rw [prefixHead_ext c hx r _ _ hh (by intro _ hc; cases hc)]
          simp only [PrefixPlan.ext]
          split at h
          · simp at h
          · rename_i e1 r1 hs
            rw [ihS _ _ _ _ _ hs]
            exact collateCheck_ext hx r h
        · rename_i r0 hh
          split at h
          · simp at h
          · rename_i e1 r1 hs
            have hy := (yield_all c f).1 _ _ _ _ _ hs
            split at h
            · simp at h
            · rename_i r2
              have hpar : ∃ t ∈ r0, t.isSym .RParen = true := by
                rw [hy]; exact ⟨.sym .RParen, by simp, by simp [Tok.isSym]⟩
              rw [prefixHead_ext c hx r _ _ hh (by intro rr hc; cases hc; exact hpar)]
              simp only [PrefixPlan.ext]
              rw [ihS _ _ _ _ _ hs]
              simp only [List.cons_append]
              have hper : x.isSym .Period = false := stopper_isSym hx (by simp)
              rw [peekSym_ext hper]
              split at h
              · simp at h
              · rename_i hnp
                simp only [hnp]
                exact collateCheck_ext hx r h
            · simp at h
    · -- parseInfix
      intro d e0 q ts e rest h
      simp only [parseInfix] at h ⊢
      split at h
      · simp at h
      · -- right
        rename_i k ops r0 p hh
        rw [infixHead_ext c hx r _ _ _ _ hh trivial]
        simp only [InfixPlan.ext]
        split at h
        · simp at h
        · rename_i r1 rest' hs
          rw [ihS _ _ _ _ _ hs]
          simp at h; obtain ⟨rfl, rfl⟩ := h; rfl
      · -- post
        rename_i k ops r0 hh
        rw [infixHead_ext c hx r _ _ _ _ hh trivial]
        simp only [InfixPlan.ext]
        simp at h; obtain ⟨rfl, rfl⟩ := h; rfl
      · -- like
        rename_i k neg any ops r0 hh
        rw [infixHead_ext c hx r _ _ _ _ hh trivial]
        simp only [InfixPlan.ext]
        split at h
        · simp at h
        · rename_i pat rest' hs
          rw [ihS _ _ _ _ _ hs]
          simp only
          split at h
          · simp at h
          · rename_i he
            rw [(escapeTail_ext c hx r _).1 he]
            simp at h; obtain ⟨rfl, rfl⟩ := h; rfl
          · rename_i esc rest'' he
            rw [(escapeTail_ext c hx r _).2 _ _ he]
            simp at h; obtain ⟨rfl, rfl⟩ := h; rfl
      · -- between
        rename_i neg ops r0 hh
        rw [infixHead_ext c hx r _ _ _ _ hh trivial]
        simp only [InfixPlan.ext]
        split at h
        · simp at h
        · rename_i lo rest' hs
          rw [ihS _ _ _ _ _ hs]
          simp only
          split at h
          · simp at h
          · rename_i andTok rest'' ha
            rw [eatKw_ext ha]
            simp only
            split at h
            · simp at h
            · rename_i hi rest3 hs2
              rw [ihS _ _ _ _ _ hs2]
              simp at h; obtain ⟨rfl, rfl⟩ := h; rfl
      · -- inl
        rename_i neg ops r0 hh
        have hne : r0 ≠ [] := by
          intro h0; subst h0
          split at h
          · simp at h
          · split at h
            · rename_i heq; simp at heq
            · split at h
              · simp at h
              · rename_i items rest' ht; exact parseItems_ne_nil _ _ _ _ _ _ ht rfl
        rw [infixHead_ext c hx r _ _ _ _ hh hne]
        simp only [InfixPlan.ext]
        rw [peekSym_ne _ _ _ hne]
        split at h
        · simp at h
        · rename_i hc
          simp only [hc]
          split at h
          · rename_i heq
            simp at h; obtain ⟨rfl, rfl⟩ := h
            simp [heq]
          · rename_i hnot
            split at h
            · simp at h
            · rename_i items rest' ht
              split at h
              · rename_i rest''
                simp at h; obtain ⟨rfl, rfl⟩ := h
                have hT := ihT _ _ _ _ ht (by simp)
                simp only [Bool.false_eq_true, if_false]
                obtain ⟨a, b, hab⟩ := List.exists_cons_of_ne_nil hne
                subst hab
                split
                · rename_i rest3 heq1 heq2
                  simp at heq2
                  exact (hnot _ heq1 (by rw [heq2.1])).elim
                · rw [hT]; simp
              · simp at h
      · -- quant
        rename_i o qk ops r0 p hh
        have hne : r0 ≠ [] := by
          intro h0; subst h0
          split at h
          · simp at h
          · rename_i r1 rest' hs; exact parseSubexpr_ne_nil _ _ _ _ _ _ _ hs rfl
        rw [infixHead_ext c hx r _ _ _ _ hh hne]
        simp only [InfixPlan.ext]
        split at h
        · simp at h
        · rename_i r1 rest' hs
          rw [ihS _ _ _ _ _ hs]
          simp only
          split at h
          · rename_i rest''
            simp only [List.cons_append]
            split at h
            · rename_i ho
              simp at h; obtain ⟨rfl, rfl⟩ := h
              simp [ho]
            · simp at h
          · simp at h
    · -- parseItems
      intro d ts e rest h hrest
      simp only [parseItems] at h ⊢
      split at h
      · simp at h
      · rename_i e1 r1 hs
        rw [ihS _ _ _ _ _ hs]
        simp only
        split at h
        · rename_i rest'
          simp only [List.cons_append]
          split at h
          · simp at h
          · rename_i hc
            split at h
            · simp at h
            · rename_i items rest'' ht
              simp at h; obtain ⟨rfl, rfl⟩ := h
              have hne : rest' ≠ [] := parseItems_ne_nil _ _ _ _ _ _ ht
              rw [listEndAhead_ne _ _ hne]
              simp only [hc]
              rw [ihT _ _ _ _ ht hrest]
              simp
        · rename_i hnc
          simp at h; obtain ⟨rfl, rfl⟩ := h
          cases r1 with
          | nil => exact absurd rfl hrest
          | cons a b =>
            simp only [List.cons_append]
            split
            · rename_i rest3 heq; simp at heq; exact (hnc b (by rw [heq.1])).elim
            · rfl

/-- **Extension theorem** for `parse_subexpr`: a successful run is reproduced in front of any
stopper token -/
theorem parseSubexpr_ext (c : Cfg) {x : Tok} (hx : stopper x = true) (r : List Tok) (f d p : Nat) (ts : List Tok)
    (e : Expr) (rest : List Tok) (h : parseSubexpr c f d p ts = .ok (e, rest)) :
    parseSubexpr c f d p (ts ++ x :: r) = .ok (e, rest ++ x :: r) :=
  (ext_all c hx r f).1 _ _ _ _ _ h

-- versions of the basic lemmas that take the keyword fact directly (used with `;`, which is no keyword at all)
theorem eatKw_none' {x : Tok} {k : Nat} (hk : x.isKw k = false) {ts : List Tok} (h : eatKw ts k = none) (r : List Tok) :
    eatKw (ts ++ x :: r) k = none := by
  cases ts with
  | nil => simp [eatKw, hk]
  | cons t rest => simpa [eatKw] using h

theorem peekKw_ext' {x : Tok} {k : Nat} (hk : x.isKw k = false) (ts r : List Tok) :
    peekKw (ts ++ x :: r) k = peekKw ts k := by
  cases ts with
  | nil => simp [peekKw, hk]
  | cons t rest => simp [peekKw]

theorem eatKws_none' {x : Tok} (r : List Tok) (ks : List Nat) (hks : ∀ k ∈ ks, x.isKw k = false) :
    ∀ {ts : List Tok}, ks ≠ [] → eatKws ts ks = none → eatKws (ts ++ x :: r) ks = none := by
  induction ks with
  | nil => intro ts hne; exact absurd rfl hne
  | cons k ks ih =>
    intro ts _ h
    unfold eatKws at h ⊢
    split at h
    · rename_i hk
      rw [eatKw_none' (hks k (by simp)) hk]
    · rename_i t rest hk
      rw [eatKw_ext hk]
      simp only
      split at h
      · rename_i hr
        cases ks with
        | nil => simp [eatKws] at hr
        | cons k2 ks2 =>
          rw [ih (fun k hk => hks k (by simp [hk])) (by simp) hr]
      · simp at h

theorem parsePrefix_rparen (c : Cfg) (f d : Nat) (tail : List Tok) (e : Expr) (rest : List Tok) :
    parsePrefix c f d (.sym .RParen :: tail) ≠ .ok (e, rest) := by
  intro h
  cases f with
  | zero => simp [parsePrefix] at h
  | succ f =>
    simp only [parsePrefix] at h
    split at h
    · simp at h
    · simp [prefixHead] at h

theorem parseSubexpr_rparen (c : Cfg) (f d p : Nat) (tail : List Tok) (e : Expr) (rest : List Tok) :
    parseSubexpr c f d p (.sym .RParen :: tail) ≠ .ok (e, rest) := by
  intro h
  cases f with
  | zero => simp [parseSubexpr] at h
  | succ f =>
    cases d with
    | zero => simp [parseSubexpr] at h
    | succ d =>
      simp only [parseSubexpr] at h
      split at h
      · simp at h
      · rename_i e0 ts' hp; exact parsePrefix_rparen _ _ _ _ _ _ hp

/-- `( )` and a lone `(` are not expressions -/
theorem parseSubexpr_lparen (c : Cfg) (f d p : Nat) (rest0 : List Tok) (e : Expr) (rest : List Tok)
    (h : parseSubexpr c f d p (.sym .LParen :: rest0) = .ok (e, rest)) :
    rest0 ≠ [] ∧ ∀ tail, rest0 ≠ .sym .RParen :: tail := by
  cases f with
  | zero => simp [parseSubexpr] at h
  | succ f =>
    cases d with
    | zero => simp [parseSubexpr] at h
    | succ d =>
      simp only [parseSubexpr] at h
      split at h
      · simp at h
      · rename_i e0 ts' hp
        cases f with
        | zero => simp [parsePrefix] at hp
        | succ f =>
          simp only [parsePrefix] at hp
          split at hp
          · simp at hp
          · split at hp
            · simp at hp
            · rename_i k toks r0 hh; have := prefixHead_lparen _ _ _ hh; simp at this
            · rename_i o t p' r0 hh; have := prefixHead_lparen _ _ _ hh; simp at this
            · rename_i r0 hh
              have := prefixHead_lparen _ _ _ hh
              simp at this; subst this
              split at hp
              · simp at hp
              · rename_i e1 r1 hs
                exact ⟨parseSubexpr_ne_nil _ _ _ _ _ _ _ hs, fun tail ht => by
                  subst ht; exact parseSubexpr_rparen _ _ _ _ _ _ _ hs⟩

end SqlVerif.Pratt

import SqlVerif.Lemmas.DmlFaith
/-!
The statement-level fixpoint on the statement fragment, assembled from

* `parseStmt_sim2` (`Lemmas/DmlSim2.lean`): the parser respects the token image `qc`;
* `stmt_showToks_eq_norm`, `stmt_inj` (`Lemmas/DmlNorm.lean`): the printed tokens are the yield of the
  normal form; a tree is determined by its image and its yield;
* `parseStmt_wf` (`Lemmas/DmlWF.lean`), `stmt_faith` (`Lemmas/DmlFaith.lean`): for parsed, printable,
  normal-shape trees over lexer-like tokens the normal form has the image of the tree;
* `stmt_sexp_norm`: the normal form holds the same AST.

`UPDATE` is re-parsed piece by piece (`parseUpdate_reparse`): the `=` of an assignment is a token the
image does not determine (`==` has the same image), but the printed `=` is `=`.
-/
namespace SqlVerif.Dml
open SqlVerif.Pratt SqlVerif.Query SqlVerif.Gen
set_option linter.unusedSimpArgs false

theorem app_qc {p p' x y : List Tok} (h1 : p.map qc = p'.map qc) (h2 : x.map qc = y.map qc) :
    (p ++ x).map qc = (p' ++ y).map qc := by
  rw [List.map_append, List.map_append, h1, h2]

/-- re-parsing one component: two runs with the same image run, the second on the yield of a tree `nv`
with the image of the first result, give `nv` -/
theorem reparse_two {α : Type} {M : α → α} {fl : α → List Tok} {x y z : Res α} {B : List Tok}
    (h1 : Rel2 M x z) (h2 : Rel2 M y z) (hyb : ∀ v r, y = .ok (v, r) → B = fl v ++ r)
    (hc : ∀ v v' b b', M v = M v' → fl v ++ b = fl v' ++ b' → v = v' ∧ b = b')
    {v : α} {r : List Tok} (h : x = .ok (v, r)) {nv : α} {r' : List Tok} (hB : B = fl nv ++ r') (hf : M nv = M v) :
    y = .ok (nv, r') := by
  obtain ⟨v', r'', hy, e1, s1⟩ := Rel2.two' h1 h2 h
  have hb2 := hyb _ _ hy
  rw [hB] at hb2
  obtain ⟨e2, e3⟩ := hc nv v' r' r'' (hf.trans e1.symm) hb2
  rw [hy, e2, e3]

/-- the single-list instance -/
theorem reparse_one {α : Type} {M : α → α} {fl : α → List Tok} {F : List Tok → Res α}
    (hF : ∀ ts, Rel2 M (F ts) (F (ts.map qc))) (hy : ∀ ts v r, F ts = .ok (v, r) → ts = fl v ++ r)
    (hfl : ∀ v, fl (M v) = (fl v).map qc)
    (hc : ∀ v v' b b', M v = M v' → fl v ++ b = fl v' ++ b' → v = v' ∧ b = b')
    {a : List Tok} {v : α} {r : List Tok} (h : F a = .ok (v, r)) {nv : α} {r' : List Tok} (hf : M nv = M v)
    (hr : r.map qc = r'.map qc) : F (fl nv ++ r') = .ok (nv, r') := by
  have ha := hy _ _ _ h
  have hs : (fl nv ++ r').map qc = a.map qc := by
    rw [ha, List.map_append, List.map_append, ← hfl, ← hfl, hf, hr]
  have h2 := hF (fl nv ++ r')
  rw [hs] at h2
  exact reparse_two (hF a) h2 (fun v r h => hy _ _ _ h) hc h rfl hf

-- ------------------------------------------------------------------ UPDATE, piece by piece
theorem assignment_reparse (c : DCfg) (f d : Nat) {a : List Tok} {v : Assign} {r r' : List Tok}
    (h : assignment c f d a = .ok (v, r)) (hf : v.norm.mapT qc = v.mapT qc) (hr : r.map qc = r'.map qc) :
    assignment c f d (v.norm.flatten ++ r') = .ok (v.norm, r') := by
  unfold assignment at h
  split at h
  · simp at h
  · rename_i tg r1 htg
    split at h
    · simp at h
    · rename_i eq r2 heq
      obtain ⟨rfl, rfl⟩ := eatSym_some heq
      split at h
      · simp at h
      · rename_i e r3 hex
        simp at h
        obtain ⟨rfl, rfl⟩ := h
        simp only [Assign.norm, Assign.mapT, Assign.mk.injEq] at hf
        obtain ⟨f1, -, f3⟩ := hf
        have g3 : (e.norm.flatten ++ r').map qc = (e.flatten ++ r3).map qc := by
          rw [List.map_append, List.map_append, ← flatten_mapT_qc, ← flatten_mapT_qc, f3, hr]
        have hye := parseE_yield c.q f d _ _ _ hex
        unfold assignment
        simp only [Assign.norm, Assign.flatten, List.append_assoc, List.cons_append]
        rw [reparse_one (assignTarget_qc c f) (assignTarget_yield c f) target_flatten_qc target_cancel htg f1
          (r' := .sym .Eq :: (e.norm.flatten ++ r')) (by rw [hye]; simp [g3, qc])]
        simp only [eatSym, Tok.isSym, beq_self_eq_true, ↓reduceIte]
        rw [reparse_one (parseE_qc c.q f d) (parseE_yield c.q f d) flatten_mapT_qc (fun _ _ _ _ hm h => expr_cancel hm h)
          hex f3 hr]

theorem assigns_reparse (c : DCfg) (f d : Nat) (p : Assign → Bool) : ∀ (n : Nat) {a : List Tok} {vs : Sep Assign} {r r' : List Tok},
    commaSepE c.tc (assignment c f d) n a = .ok (vs, r) → sepNormal p vs = true →
    sepMap (Assign.mapT qc) qc (sepNorm Assign.norm vs) = sepMap (Assign.mapT qc) qc vs → r.map qc = r'.map qc →
    commaSepE c.tc (assignment c f d) n (sepFlat Assign.flatten (sepNorm Assign.norm vs) ++ r') =
      .ok (sepNorm Assign.norm vs, r') := by
  intro n
  induction n with
  | zero => intro a vs r r' h; simp [commaSepE] at h
  | succ n ih =>
    intro a vs r r' h hn hf hr
    simp only [commaSepE] at h
    split at h
    · simp at h
    · rename_i v r1 hv
      split at h
      · rename_i r2
        split at h
        · simp at h
          obtain ⟨rfl, rfl⟩ := h
          simp [sepNormal] at hn
        · rename_i hle0
          split at h
          · simp at h
          · rename_i vs0 r3 hrec
            simp at h
            obtain ⟨rfl, rfl⟩ := h
            have hne : vs0 ≠ [] := (commaSepE_wf _ _ (fun _ => True) (fun _ _ _ _ => trivial) _ _ _ _ hrec).2
            cases vs0 with
            | nil => exact absurd rfl hne
            | cons y rest0 =>
              simp only [sepNormal, Bool.and_eq_true] at hn
              simp only [sepNorm, sepMap, List.map_cons, List.cons.injEq, Prod.mk.injEq] at hf
              obtain ⟨⟨f1, -⟩, f2⟩ := hf
              have hrec' := ih hrec hn.2 (by simpa [sepMap] using f2) hr
              have hy0 := commaSepE_yield _ _ Assign.flatten (assignment_yield c f d) _ _ _ _ hrec
              have g : (sepFlat Assign.flatten (sepNorm Assign.norm (y :: rest0)) ++ r').map qc = r2.map qc := by
                rw [hy0, List.map_append, List.map_append, hr]
                congr 1
                rw [← sepFlat_map _ _ assign_flatten_qc, ← sepFlat_map _ _ assign_flatten_qc]
                congr 1
              simp only [sepNorm, sepFlat, List.append_assoc, List.cons_append, List.nil_append, commaSepE]
              rw [assignment_reparse c f d hv f1 (r' := .sym .Comma :: (sepFlat Assign.flatten (sepNorm Assign.norm (y :: rest0)) ++ r'))
                (by simp [g, qc])]
              simp only
              have hle : listEnds (sepFlat Assign.flatten (sepNorm Assign.norm (y :: rest0)) ++ r') = listEnds r2 := by
                rw [← listEnds_qc, g, listEnds_qc]
              rw [hle]
              simp only [hle0, Bool.false_eq_true, ↓reduceIte]
              rw [hrec']
      · rename_i hnc
        simp at h
        obtain ⟨rfl, rfl⟩ := h
        simp only [sepNorm, sepMap, List.map_cons, List.map_nil, List.cons.injEq, Prod.mk.injEq, and_true] at hf
        simp only [sepNorm, sepFlat, List.append_nil, commaSepE]
        rw [assignment_reparse c f d hv hf hr]
        simp only
        have : ∀ rest', r' ≠ .sym .Comma :: rest' := by
          intro rest' hx
          subst hx
          cases r1 with
          | nil => simp at hr
          | cons x l =>
            simp only [List.map_cons, List.cons.injEq] at hr
            exact hnc l (by rw [qc_eq_comma hr.1])
        split
        · exact absurd rfl (this _)
        · rfl

theorem headFrom_flatten (n : QNode) (t : Tok) (hf : headFrom n = true) :
    (setHead t n).flatten = t :: n.flatten.tail := by
  cases n with
  | ftable conn name al cstr rest =>
    cases conn <;> simp [headFrom] at hf
    simp [setHead, QNode.flatten, Conn.toks]
  | fderived conn lp body qt rp al cstr rest =>
    cases conn <;> simp [headFrom] at hf
    simp [setHead, QNode.flatten, Conn.toks]
  | _ => simp [headFrom] at hf

theorem headFrom_norm (n : QNode) : headFrom n.norm = headFrom n := by
  cases n with
  | ftable conn name al cstr rest => cases conn <;> rfl
  | fderived conn lp body qt rp al cstr rest => cases conn <;> rfl
  | _ => rfl

theorem parseUpdate_reparse (c : DCfg) (f d : Nat) {kw : Tok} {a : List Tok} {u : Update} {rest rest' : List Tok}
    (h : parseUpdate c f d kw a = .ok (u, rest)) (hn : u.normal = true)
    (hf : u.norm.mapT qc = u.mapT qc) (hr : rest.map qc = rest'.map qc) :
    parseUpdate c f d (kwT "UPDATE") (u.norm.flatten.tail ++ rest') = .ok (u.norm, rest') := by
  unfold parseUpdate at h
  split at h
  · simp at h
  · rename_i tbl r1 htb
    split at h
    · simp at h
    · rename_i setKw r2 hset
      obtain ⟨rfl, hsk⟩ := (eatKw_some_iff _ _ _ _).1 hset
      split at h
      · simp at h
      · rename_i as r3 has
        split at h
        · simp at h
        · rename_i fr r4 hfr
          split at h
          · simp at h
          · rename_i w r5 hw
            split at h
            · simp at h
            · rename_i ret r6 hret
              simp at h
              obtain ⟨rfl, rfl⟩ := h
              obtain ⟨fk, frm⟩ := fr
              obtain ⟨wk, sel⟩ := w
              obtain ⟨rk, items⟩ := ret
              simp only [Update.normal, Bool.and_eq_true, List.isEmpty_iff] at hn
              obtain ⟨⟨⟨⟨-, n2⟩, n3⟩, -⟩, -⟩ := hn
              subst n3
              simp only [Update.norm, Update.mapT, Update.mk.injEq] at hf
              obtain ⟨f1, f2, f3, -, f5, f6, f7, f8, f9⟩ := hf
              have hhf := twj_headFrom c.q f d kw a tbl _ htb
              -- the remaining printed tokens, from the right
              have g6 : (retKwNorm items ++ sepFlat SelectItem.flatten (sepNorm SelectItem.norm items) ++ rest').map qc =
                  r5.map qc := by
                rw [retPart_yield _ _ _ _ _ _ hret]
                refine app_qc (app_qc f8 ?_) hr.symm
                rw [← items_flatten_qc, ← items_flatten_qc, f9]
              have g5 : (whereKwNorm sel ++ optFlat (sel.map Expr.norm) ++
                  (retKwNorm items ++ sepFlat SelectItem.flatten (sepNorm SelectItem.norm items) ++ rest')).map qc = r4.map qc := by
                rw [kwExprPart_yield _ _ _ _ _ _ _ hw]
                refine app_qc (app_qc f6 ?_) g6
                rw [← optFlat_qc, ← optFlat_qc, f7]
              have g4 : (([] : List Tok) ++ frm.norm.flatten ++ (whereKwNorm sel ++ optFlat (sel.map Expr.norm) ++
                  (retKwNorm items ++ sepFlat SelectItem.flatten (sepNorm SelectItem.norm items) ++ rest'))).map qc = r3.map qc := by
                rw [updateFromPart_yield _ _ _ _ _ _ hfr]
                refine app_qc (app_qc rfl ?_) g5
                rw [← node_flatten_qc, ← node_flatten_qc, f5]
              have g3 : (sepFlat Assign.flatten (sepNorm Assign.norm as) ++ (([] : List Tok) ++ frm.norm.flatten ++
                  (whereKwNorm sel ++ optFlat (sel.map Expr.norm) ++
                  (retKwNorm items ++ sepFlat SelectItem.flatten (sepNorm SelectItem.norm items) ++ rest')))).map qc = r2.map qc := by
                rw [commaSepE_yield _ _ Assign.flatten (assignment_yield c f d) _ _ _ _ has]
                refine app_qc ?_ g4
                rw [← sepFlat_map _ _ assign_flatten_qc, ← sepFlat_map _ _ assign_flatten_qc, f3]
              -- the printed token list
              have hfl : (Update.norm ⟨tbl, setKw, as, [], frm, wk, sel, rk, items⟩).flatten.tail ++ rest' =
                  (setHead (kwT "UPDATE") tbl.norm).flatten.tail ++ (kwT "SET" :: (sepFlat Assign.flatten (sepNorm Assign.norm as) ++
                    (([] : List Tok) ++ frm.norm.flatten ++ (whereKwNorm sel ++ optFlat (sel.map Expr.norm) ++
                    (retKwNorm items ++ sepFlat SelectItem.flatten (sepNorm SelectItem.norm items) ++ rest'))))) := by
                rw [headFrom_flatten _ _ (by rw [headFrom_norm]; exact hhf)]
                simp [Update.norm, Update.flatten, headFrom_flatten _ _ (by rw [headFrom_norm]; exact hhf)]
              rw [hfl]
              unfold parseUpdate
              -- 1. the target table
              have h1 := twj_qc c.q f d (.from kw) a
              have hya := twj_yield c.q f d (.from kw) a tbl _ htb
              simp only [Conn.toks, List.cons_append, List.nil_append] at hya
              have hB : kwT "UPDATE" :: ((setHead (kwT "UPDATE") tbl.norm).flatten.tail ++ (kwT "SET" ::
                  (sepFlat Assign.flatten (sepNorm Assign.norm as) ++ (([] : List Tok) ++ frm.norm.flatten ++
                  (whereKwNorm sel ++ optFlat (sel.map Expr.norm) ++
                  (retKwNorm items ++ sepFlat SelectItem.flatten (sepNorm SelectItem.norm items) ++ rest')))))) =
                  (setHead (kwT "UPDATE") tbl.norm).flatten ++ (kwT "SET" ::
                  (sepFlat Assign.flatten (sepNorm Assign.norm as) ++ (([] : List Tok) ++ frm.norm.flatten ++
                  (whereKwNorm sel ++ optFlat (sel.map Expr.norm) ++
                  (retKwNorm items ++ sepFlat SelectItem.flatten (sepNorm SelectItem.norm items) ++ rest'))))) := by
                rw [headFrom_flatten _ _ (by rw [headFrom_norm]; exact hhf)]
                simp
              have hmap : (kwT "UPDATE" :: ((setHead (kwT "UPDATE") tbl.norm).flatten.tail ++ (kwT "SET" ::
                  (sepFlat Assign.flatten (sepNorm Assign.norm as) ++ (([] : List Tok) ++ frm.norm.flatten ++
                  (whereKwNorm sel ++ optFlat (sel.map Expr.norm) ++
                  (retKwNorm items ++ sepFlat SelectItem.flatten (sepNorm SelectItem.norm items) ++ rest'))))))).map qc =
                  (kw :: a).map qc := by
                rw [hB, hya]
                refine app_qc ?_ ?_
                · rw [← node_flatten_qc, ← node_flatten_qc, f1]
                · simp only [List.map_cons, f2, g3]
              simp only [List.map_cons, List.cons.injEq] at hmap
              have h2 := twj_qc c.q f d (.from (kwT "UPDATE")) ((setHead (kwT "UPDATE") tbl.norm).flatten.tail ++ (kwT "SET" ::
                  (sepFlat Assign.flatten (sepNorm Assign.norm as) ++ (([] : List Tok) ++ frm.norm.flatten ++
                  (whereKwNorm sel ++ optFlat (sel.map Expr.norm) ++
                  (retKwNorm items ++ sepFlat SelectItem.flatten (sepNorm SelectItem.norm items) ++ rest'))))))
              simp only [Conn.mapT] at h1 h2
              rw [hmap.1, hmap.2] at h2
              rw [reparse_two (fl := QNode.flatten) h1 h2
                (fun v r h => by simpa [Conn.toks] using twj_yield c.q f d _ _ _ _ h) node_cancel htb hB f1]
              -- 2. SET
              have hset' : (kwT "SET").isKw DK.SET = true := kwT_isKw "SET"
              simp only [eatKw, hset', ↓reduceIte]
              -- 3. the assignments
              rw [assigns_reparse c f d _ f has n2 f3 (by rw [g4])]
              simp only
              -- 4. FROM
              rw [reparse_one (M := fun p : List Tok × QNode => (p.1.map qc, p.2.mapT qc)) (fl := fun p => p.1 ++ p.2.flatten)
                (updateFromPart_qc c f d) (fun ts v r h => updateFromPart_yield c f d ts v r h)
                (fun v => by simp [node_flatten_qc])
                (fun v v' b b' hm h => by
                  obtain ⟨v1, v2⟩ := v
                  obtain ⟨w1, w2⟩ := v'
                  simp only [Prod.mk.injEq] at hm
                  simp only [List.append_assoc] at h
                  obtain ⟨e1, h⟩ := toks_cancel hm.1 h
                  obtain ⟨e2, h⟩ := node_cancel _ _ _ _ hm.2 h
                  exact ⟨by rw [e1, e2], h⟩)
                hfr (nv := ([], frm.norm)) (by simp [f5]) (by rw [g5])]
              simp only
              -- 5. WHERE
              rw [reparse_one (M := fun p : List Tok × Option Expr => (p.1.map qc, p.2.map (Expr.mapT qc)))
                (fl := fun p => p.1 ++ optFlat p.2)
                (kwExprPart_qc c.q f d DK.WHERE) (fun ts v r h => kwExprPart_yield c.q f d DK.WHERE ts v r h)
                (fun v => by simp [optFlat_qc])
                (fun v v' b b' hm h => by
                  obtain ⟨v1, v2⟩ := v
                  obtain ⟨w1, w2⟩ := v'
                  simp only [Prod.mk.injEq] at hm
                  simp only [List.append_assoc] at h
                  obtain ⟨e1, h⟩ := toks_cancel hm.1 h
                  obtain ⟨e2, h⟩ := opt_cancel _ _ _ _ hm.2 h
                  exact ⟨by rw [e1, e2], h⟩)
                hw (nv := (whereKwNorm sel, sel.map Expr.norm)) (by simp [f6, f7]) (by rw [g6])]
              simp only
              -- 6. RETURNING
              rw [reparse_one (M := fun p : List Tok × Sep SelectItem => (p.1.map qc, sepMap (SelectItem.mapT qc) qc p.2))
                (fl := fun p => p.1 ++ sepFlat SelectItem.flatten p.2)
                (retPart_qc c f d) (fun ts v r h => retPart_yield c f d ts v r h)
                (fun v => by simp [items_flatten_qc])
                (fun v v' b b' hm h => by
                  obtain ⟨v1, v2⟩ := v
                  obtain ⟨w1, w2⟩ := v'
                  simp only [Prod.mk.injEq] at hm
                  simp only [List.append_assoc] at h
                  obtain ⟨e1, h⟩ := toks_cancel hm.1 h
                  obtain ⟨e2, h⟩ := items_cancel _ _ _ _ hm.2 h
                  exact ⟨by rw [e1, e2], h⟩)
                hret (nv := (retKwNorm items, sepNorm SelectItem.norm items)) (by simp [f8, f9]) hr]
              simp [Update.norm]

-- ------------------------------------------------------------------ assembly
theorem kwUPDATE_dispatch : (kwT "UPDATE").isKw DK.SELECT = false ∧ (kwT "UPDATE").isKw DK.VALUES = false ∧
    (kwT "UPDATE").isKw DK.INSERT = false ∧ (kwT "UPDATE").isKw DK.UPDATE = true := by decide +kernel

/-- an accepted `UPDATE` statement was parsed by `parseUpdate` -/
theorem parseStmt_update (c : DCfg) (f limit : Nat) (ts : List Tok) (u : Update) (rest : List Tok)
    (h : parseStmt c f limit ts = .ok (.update u, rest)) :
    ∃ d t ra, limit = d + 1 ∧ ts = t :: ra ∧ parseUpdate c f d t ra = .ok (u, rest) := by
  unfold parseStmt at h
  cases limit with
  | zero => simp at h
  | succ d =>
    simp only at h
    cases ts with
    | nil => simp at h
    | cons t r =>
      simp only at h
      split at h
      · obtain ⟨q, _, hq⟩ := mapRes_ok h; cases hq
      · split at h
        · obtain ⟨q, _, hq⟩ := mapRes_ok h; cases hq
        · split at h
          · obtain ⟨q, _, hq⟩ := mapRes_ok h; cases hq
          · split at h
            · obtain ⟨v, hv, hq⟩ := mapRes_ok h
              cases hq
              exact ⟨d, t, r, rfl, rfl, hv⟩
            · split at h
              · obtain ⟨q, _, hq⟩ := mapRes_ok h; cases hq
              · split at h
                · obtain ⟨q, _, hq⟩ := mapRes_ok h; cases hq
                · split at h
                  · obtain ⟨q, _, hq⟩ := mapRes_ok h; cases hq
                  · split at h
                    · obtain ⟨q, _, hq⟩ := mapRes_ok h; cases hq
                    · simp at h
                    · simp at h

/-- the consumed tokens of an accepted statement are lexer-like when the input is -/
theorem stmt_flatten_tokOk (c : DCfg) (f limit : Nat) (ts : List Tok) (s : Stmt) (rest : List Tok)
    (h : parseStmt c f limit ts = .ok (s, rest)) (ht : ts.all tokOk = true) : s.flatten.all tokOk = true := by
  have y := parseStmt_yield c f limit ts s rest h
  rw [y, List.all_append, Bool.and_eq_true] at ht
  exact ht.1

/-- re-parsing the printed tokens in front of any continuation that looks like the original one:
if the normal form has the image of the tree, the parser reads the normal form back -/
theorem stmt_reparse_of_faithful (c : DCfg) (f limit : Nat) (ts : List Tok) (s : Stmt) (rest rest' : List Tok)
    (h : parseStmt c f limit ts = .ok (s, rest)) (hl : s.typesLeaf = true) (hn : s.normal = true)
    (hf : s.norm.mapT qc = s.mapT qc) (hr : rest.map qc = rest'.map qc) :
    parseStmt c f limit (s.showToks ++ rest') = .ok (s.norm, rest') := by
  have hw := parseStmt_wf c f limit ts s rest h
  have hshow := stmt_showToks_eq_norm s (wf_headsOk s hw)
  cases hu : s.isUpdate with
  | false =>
    have y : ts = s.flatten ++ rest := parseStmt_yield c f limit ts s rest h
    have hs : ts.map qc = (s.showToks ++ rest').map qc := by
      rw [y, hshow, List.map_append, List.map_append, ← stmt_flatten_qc, ← stmt_flatten_qc, hf, hr]
    obtain ⟨s', r', h', hq', hr'⟩ := parseStmt_sim2 c f limit hs h hl (by rw [hu]; intro hx; cases hx)
    have y' : s.showToks ++ rest' = s'.flatten ++ r' := parseStmt_yield c f limit _ s' r' h'
    have hlen : rest'.length = r'.length := by
      have h1 := len_of_map hr'
      have h2 := len_of_map hr
      omega
    obtain ⟨a1, a2⟩ := List.append_inj' y' hlen
    have : s' = s.norm := stmt_inj s' s.norm (hq'.trans hf.symm) (by rw [← a1, hshow])
    rw [h', this, a2]
  | true =>
    cases s with
    | update u =>
      obtain ⟨d, t, ra, rfl, rfl, hpu⟩ := parseStmt_update c f limit ts u rest h
      simp only [Stmt.norm, Stmt.mapT, Stmt.update.injEq] at hf
      have hhead : headFrom u.table = true := by
        rcases hw.1 with h1 | h1
        · exact absurd h1 hw.2.1
        · exact h1.1
      have hfl : u.norm.flatten = kwT "UPDATE" :: u.norm.flatten.tail := by
        have := headFrom_flatten u.table.norm (kwT "UPDATE") (by rw [headFrom_norm]; exact hhead)
        simp only [Update.norm, Update.flatten, this, List.cons_append, List.tail_cons]
      have := parseUpdate_reparse c f d hpu hn hf hr
      rw [hshow]
      simp only [Stmt.norm, Stmt.flatten]
      rw [hfl]
      unfold parseStmt
      simp only [List.cons_append, kwUPDATE_dispatch.1, kwUPDATE_dispatch.2.1, kwUPDATE_dispatch.2.2.1, kwUPDATE_dispatch.2.2.2,
        Bool.false_eq_true, ↓reduceIte, this]
      rfl
    | _ => simp [Stmt.isUpdate] at hu

/-- **parse → print → parse** on the statement fragment, in front of a continuation -/
theorem stmt_reparse_sub (c : DCfg) (f limit : Nat) (ts : List Tok) (s : Stmt) (rest rest' : List Tok)
    (h : parseStmt c f limit ts = .ok (s, rest)) (hp : s.printableQ = true) (hn : s.normal = true)
    (ht : ts.all tokOk = true) (hr : rest.map qc = rest'.map qc) :
    parseStmt c f limit (s.showToks ++ rest') = .ok (s.norm, rest') :=
  stmt_reparse_of_faithful c f limit ts s rest rest' h (printableQ_typesLeaf s hp) hn
    (stmt_faith s (parseStmt_wf c f limit ts s rest h) hn hp (stmt_flatten_tokOk c f limit ts s rest h ht)) hr

end SqlVerif.Dml

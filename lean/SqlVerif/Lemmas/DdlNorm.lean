import SqlVerif.Lemmas.DdlDefs
/-!
The printed normal form of a tree of the second statement model (`Ddl.Stmt.norm`, `Lemmas/DdlDefs.lean`),
the analogue of `Lemmas/DmlNorm.lean`:

* `stmt_showToks_eq_norm`  `s.showToks = s.norm.flatten` under `s.showOk` (`dml`: `Dml.Stmt.headsOk`; nothing for
                           the new statement kinds since `Display` writes `TEMPORARY` before `MATERIALIZED`);
* `stmt_flatten_qc`        the yield of the image is the image of the yield;
* `stmt_inj`               a tree is determined by its image (`mapT qc`) together with its yield;
* `stmt_sexp_norm`         the normal form holds the same AST (no well-formedness needed: `kwNormTok` keeps
                           `isKw` and `kwText` of every token, `nullsDNorm` / `usingNorm` keep what the AST reads).
-/
namespace SqlVerif.Ddl
open SqlVerif.Pratt SqlVerif.Query SqlVerif.Dml SqlVerif.Gen
set_option linter.unusedSimpArgs false

-- ------------------------------------------------------------------ showToks = norm.flatten
theorem toksOf_sepPiecesTight {α : Type} (f : α → List Piece) :
    ∀ l : Sep α, toksOf (sepPiecesTight f l) = toksOf (sepPieces f l) := by
  intro l
  induction l with
  | nil => rfl
  | cons p rest ih =>
    cases rest with
    | nil => rfl
    | cons q rest2 =>
      simp only [sepPiecesTight, sepPieces, Pratt.toksOf_append, Pratt.toksOf_spaced, Pratt.toksOf_glued] at ih ⊢
      rw [ih]

theorem optKws_nil (names : List String) : optKws [] names = [] := rfl

theorem toksOf_optKw1 (l : List Tok) (a : String) :
    toksOf (if l.isEmpty then [] else [kwP true a]) = optKws l [a] := by
  unfold optKws; cases l.isEmpty <;> rfl

theorem toksOf_optKw2 (l : List Tok) (a b : String) :
    toksOf (if l.isEmpty then [] else [kwP true a, kwP true b]) = optKws l [a, b] := by
  unfold optKws; cases l.isEmpty <;> rfl

theorem toksOf_optKw3 (l : List Tok) (a b c : String) :
    toksOf (if l.isEmpty then [] else [kwP true a, kwP true b, kwP true c]) = optKws l [a, b, c] := by
  unfold optKws; cases l.isEmpty <;> rfl

theorem toksOf_viewColPieces (v : ViewCol) : toksOf v.pieces = v.norm.flatten := by
  obtain ⟨name, ty, toks⟩ := v
  cases ty <;> simp [ViewCol.pieces, ViewCol.norm, ViewCol.flatten, Pratt.toksOf_append, Pratt.toksOf_spaced, idPiece_tok]

theorem toksOf_viewColsPieces (cols : Sep ViewCol) :
    toksOf (if cols.isEmpty then [] else [symP true .LParen] ++ glued (sepPieces ViewCol.pieces cols) ++ [symP false .RParen]) =
      (if cols.isEmpty then [] else [Tok.sym .LParen]) ++ sepFlat ViewCol.flatten (sepNorm ViewCol.norm cols) ++
        (if cols.isEmpty then [] else [Tok.sym .RParen]) := by
  have hs := toksOf_sepPieces ViewCol.pieces ViewCol.flatten ViewCol.norm toksOf_viewColPieces cols
  cases h : cols.isEmpty
  · simp [Pratt.toksOf_append, Pratt.toksOf_glued, hs]
  · have : cols = [] := by simpa using h
    rw [this]; rfl

theorem toksOf_createViewPieces (v : CreateView) : toksOf v.pieces = v.norm.flatten := by
  unfold CreateView.pieces CreateView.norm CreateView.flatten
  simp only [Pratt.toksOf_append, toksOf_optKw1, toksOf_optKw2, toksOf_optKw3, toksOf_viewColsPieces, Pratt.toksOf_spaced,
    toksOf_namePieces, toksOf_sourcePieces, Pratt.toksOf_cons, Pratt.toksOf_nil, kwP_tok]
  simp

theorem toksOf_usingPieces (toks : List Tok) : toksOf (usingPieces toks) = usingNorm toks := by
  unfold usingPieces usingNorm
  cases toks.getLast? <;> simp [toksOf, idPiece_tok]

theorem toksOf_nullsDPieces (nulls : List Tok) : toksOf (nullsPieces nulls) = nullsDNorm nulls := by
  match nulls with
  | [] => rfl
  | [_] => rfl
  | [_, _] => rfl
  | _ :: _ :: _ :: _ => rfl

theorem toksOf_idsTight (ids : Sep Tok) :
    toksOf (sepPiecesTight (fun t => [idPiece false t]) ids) = sepFlat (fun t => [t]) (sepNorm id ids) := by
  rw [toksOf_sepPiecesTight, toksOf_idsSep]

theorem toksOf_orderTight (cols : Sep OrderByExpr) :
    toksOf (sepPiecesTight OrderByExpr.pieces cols) = sepFlat OrderByExpr.flatten (sepNorm OrderByExpr.norm cols) := by
  rw [toksOf_sepPiecesTight]
  exact toksOf_sepPieces OrderByExpr.pieces OrderByExpr.flatten OrderByExpr.norm toksOf_orderPieces cols

theorem toksOf_inclPieces (ids : Sep Tok) :
    toksOf (if ids.isEmpty then []
      else [kwP true "INCLUDE", symP true .LParen] ++ glued (sepPiecesTight (fun t => [idPiece false t]) ids) ++
        [symP false .RParen]) =
      (if ids.isEmpty then [] else [kwT "INCLUDE"]) ++ (ParenIds.norm ⟨[], ids, []⟩).flatten := by
  unfold ParenIds.norm
  cases h : ids.isEmpty
  · simp [ParenIds.flatten, Pratt.toksOf_append, Pratt.toksOf_glued, toksOf_idsTight]
  · simp [ParenIds.none, ParenIds.flatten, sepFlat]

theorem toksOf_createIndexPieces (i : CreateIndex) : toksOf i.pieces = i.norm.flatten := by
  unfold CreateIndex.pieces CreateIndex.norm CreateIndex.flatten IdxHead.norm IdxHead.flatten IdxTail.norm IdxTail.flatten
  simp only [Pratt.toksOf_append, toksOf_optKw1, toksOf_optKw3, Pratt.toksOf_spaced, Pratt.toksOf_glued, toksOf_namePieces,
    toksOf_usingPieces, toksOf_orderTight, toksOf_inclPieces, toksOf_nullsDPieces, toksOf_wherePieces,
    Pratt.toksOf_cons, Pratt.toksOf_nil, kwP_tok, symP_tok, ← parenIds_norm_ids]
  have hn : toksOf (if i.hd.name.isEmpty then [] else spaced (namePieces i.hd.name)) = i.hd.name := by
    cases hh : i.hd.name.isEmpty
    · simp [Pratt.toksOf_spaced, toksOf_namePieces]
    · have : i.hd.name = [] := by simpa using hh
      rw [this]; rfl
  rw [hn]
  cases (i.idxKws.length == 2) <;> simp

theorem toksOf_colOpPieces (op : AlterColOp) : toksOf op.pieces = op.kwsNorm ++ op.norm.flatten := by
  cases op with
  | setDefault e =>
    simp [AlterColOp.pieces, AlterColOp.kwsNorm, AlterColOp.norm, AlterColOp.flatten, Pratt.toksOf_append,
      Pratt.toksOf_spaced, toksOf_exprPieces]
  | _ => rfl

theorem toksOf_alterOpPieces (o : AlterOp) : toksOf o.pieces = o.norm.flatten := by
  cases o with
  | addColumn k i1 ck i2 keep cd =>
    unfold AlterOp.pieces AlterOp.norm AlterOp.flatten
    simp only [Pratt.toksOf_append, toksOf_optKw1, Pratt.toksOf_spaced, toksOf_colDefPieces, Pratt.toksOf_cons,
      Pratt.toksOf_nil, kwP_tok]
    cases addIfne i1 i2 keep <;> cases hc : ck.isEmpty <;> simp [ineNorm, optKws, hc]
  | dropColumn k sw ck ie n cas =>
    unfold AlterOp.pieces AlterOp.norm AlterOp.flatten
    simp only [Pratt.toksOf_append, toksOf_optKw1, toksOf_optKw2, Pratt.toksOf_cons, Pratt.toksOf_nil, kwP_tok, idPiece_tok]
    simp
  | renameColumn k ck o t n =>
    simp [AlterOp.pieces, AlterOp.norm, AlterOp.flatten, idPiece_tok]
  | renameTable k t name =>
    simp [AlterOp.pieces, AlterOp.norm, AlterOp.flatten, Pratt.toksOf_append, Pratt.toksOf_spaced, toksOf_namePieces]
  | alterColumn k ck n ops op =>
    simp [AlterOp.pieces, AlterOp.norm, AlterOp.flatten, Pratt.toksOf_append, toksOf_colOpPieces, idPiece_tok]

theorem toksOf_alterTablePieces (a : AlterTable) : toksOf a.pieces = a.norm.flatten := by
  have hs := toksOf_sepPieces AlterOp.pieces AlterOp.flatten AlterOp.norm toksOf_alterOpPieces a.ops
  unfold AlterTable.pieces AlterTable.norm AlterTable.flatten
  simp only [Pratt.toksOf_append, toksOf_optKw1, toksOf_optKw2, Pratt.toksOf_spaced, toksOf_namePieces, hs,
    Pratt.toksOf_cons, Pratt.toksOf_nil, kwP_tok]
  simp

theorem toksOf_kwTokPs (l : List Tok) : toksOf (l.map (kwTokP true)) = l.map kwNormTok := by
  simp [toksOf, kwNormTok, Function.comp_def]

theorem toksOf_truncatePieces (t : Truncate) : toksOf t.pieces = t.norm.flatten := by
  unfold Truncate.pieces Truncate.norm Truncate.flatten
  simp only [Pratt.toksOf_append, toksOf_optKw1, Pratt.toksOf_spaced, toksOf_namesSep, toksOf_kwTokPs,
    Pratt.toksOf_cons, Pratt.toksOf_nil, kwP_tok]
  simp

theorem toksOf_dropObjPieces (d : Drop) : toksOf (dropObjPieces d) = (dropObjNorm d).flatten := by
  unfold dropObjPieces dropObjNorm Drop.flatten
  simp only [Pratt.toksOf_append, toksOf_optKw1, toksOf_optKw2, Pratt.toksOf_spaced, toksOf_namesSep,
    Pratt.toksOf_cons, Pratt.toksOf_nil, kwP_tok]
  simp [kwNormTok]

/-- the FROM-item lists of `UPDATE` / `DELETE … USING` begin with their keyword (first fragment); the new
statement kinds need nothing -/
def Stmt.showOk : Stmt → Prop
  | .dml s => s.headsOk
  | _ => True

/-- the printed tokens are the yield of the normal form -/
theorem stmt_showToks_eq_norm (s : Stmt) (h : s.showOk) : s.showToks = s.norm.flatten := by
  show toksOf s.pieces = _
  cases s with
  | createView v => exact toksOf_createViewPieces v
  | createIndex i => exact toksOf_createIndexPieces i
  | alterTable a => exact toksOf_alterTablePieces a
  | truncate t => exact toksOf_truncatePieces t
  | dropObj d => exact toksOf_dropObjPieces d
  | dml s => exact Dml.stmt_showToks_eq_norm s h

-- ------------------------------------------------------------------ the yield of the image
theorem viewCol_flatten_qc (v : ViewCol) : (v.mapT qc).flatten = v.flatten.map qc := by
  simp [ViewCol.mapT, ViewCol.flatten]

theorem createView_flatten_qc (v : CreateView) : (v.mapT qc).flatten = v.flatten.map qc := by
  simp [CreateView.mapT, CreateView.flatten, sepFlat_map _ _ viewCol_flatten_qc, source_flatten_qc]

theorem idxHead_flatten_qc (hd : IdxHead) : (hd.mapT qc).flatten = hd.flatten.map qc := by
  simp [IdxHead.mapT, IdxHead.flatten]

theorem idxTail_flatten_qc (tl : IdxTail) : (tl.mapT qc).flatten = tl.flatten.map qc := by
  simp [IdxTail.mapT, IdxTail.flatten, parenIds_flatten_qc, optFlat_qc]

theorem createIndex_flatten_qc (i : CreateIndex) : (i.mapT qc).flatten = i.flatten.map qc := by
  simp [CreateIndex.mapT, CreateIndex.flatten, idxHead_flatten_qc, idxTail_flatten_qc, sepFlat_map _ _ order_flatten_qc]

theorem colOp_flatten_qc (op : AlterColOp) : (op.mapT qc).flatten = op.flatten.map qc := by
  cases op <;> simp [AlterColOp.mapT, AlterColOp.flatten, flatten_mapT_qc]

theorem alterOp_flatten_qc (o : AlterOp) : (o.mapT qc).flatten = o.flatten.map qc := by
  cases o <;> simp [AlterOp.mapT, AlterOp.flatten, colDef_flatten_qc, colOp_flatten_qc]

theorem alterTable_flatten_qc (a : AlterTable) : (a.mapT qc).flatten = a.flatten.map qc := by
  simp [AlterTable.mapT, AlterTable.flatten, sepFlat_map _ _ alterOp_flatten_qc]

theorem truncate_flatten_qc (t : Truncate) : (t.mapT qc).flatten = t.flatten.map qc := by
  simp [Truncate.mapT, Truncate.flatten, names_flatten_qc]

theorem stmt_flatten_qc (s : Stmt) : (s.mapT qc).flatten = s.flatten.map qc := by
  cases s with
  | createView v => exact createView_flatten_qc v
  | createIndex i => exact createIndex_flatten_qc i
  | alterTable a => exact alterTable_flatten_qc a
  | truncate t => exact truncate_flatten_qc t
  | dropObj d => exact drop_flatten_qc d
  | dml s => exact Dml.stmt_flatten_qc s

-- ------------------------------------------------------------------ image + yield determine the tree
theorem viewCol_cancel (v v' : ViewCol) (b b' : List Tok) (hm : v.mapT qc = v'.mapT qc)
    (h : v.flatten ++ b = v'.flatten ++ b') : v = v' ∧ b = b' := by
  obtain ⟨a1, a2, a3⟩ := v
  obtain ⟨c1, c2, c3⟩ := v'
  simp only [ViewCol.mapT, ViewCol.mk.injEq] at hm
  obtain ⟨_, hm2, hm3⟩ := hm
  simp only [ViewCol.flatten, List.cons_append] at h
  obtain ⟨e1, h⟩ := tok_cancel h
  obtain ⟨e3, h⟩ := toks_cancel hm3 h
  exact ⟨by rw [e1, hm2, e3], h⟩

theorem createView_cancel (v v' : CreateView) (b b' : List Tok) (hm : v.mapT qc = v'.mapT qc)
    (h : v.flatten ++ b = v'.flatten ++ b') : v = v' ∧ b = b' := by
  obtain ⟨a1, a2, a3, a4, a5, a6, a7, a8, a9, a10, a11, a12⟩ := v
  obtain ⟨c1, c2, c3, c4, c5, c6, c7, c8, c9, c10, c11, c12⟩ := v'
  simp only [CreateView.mapT, CreateView.mk.injEq] at hm
  obtain ⟨_, hm2, hm3, hm4, _, hm6, hm7, hm8, hm9, hm10, _, hm12⟩ := hm
  simp only [CreateView.flatten, List.append_assoc, List.cons_append] at h
  obtain ⟨e1, h⟩ := tok_cancel h
  obtain ⟨e2, h⟩ := toks_cancel hm2 h
  obtain ⟨e3, h⟩ := toks_cancel hm3 h
  obtain ⟨e4, h⟩ := toks_cancel hm4 h
  obtain ⟨e5, h⟩ := tok_cancel h
  obtain ⟨e6, h⟩ := toks_cancel hm6 h
  obtain ⟨e7, h⟩ := toks_cancel hm7 h
  obtain ⟨e8, h⟩ := toks_cancel hm8 h
  obtain ⟨e9, h⟩ := sep_cancel _ _ viewCol_cancel _ _ _ _ hm9 h
  obtain ⟨e10, h⟩ := toks_cancel hm10 h
  obtain ⟨e11, h⟩ := tok_cancel h
  obtain ⟨e12, h⟩ := source_cancel _ _ _ _ hm12 h
  exact ⟨by rw [e1, e2, e3, e4, e5, e6, e7, e8, e9, e10, e11, e12], h⟩

theorem idxHead_cancel (hd hd' : IdxHead) (b b' : List Tok) (hm : hd.mapT qc = hd'.mapT qc)
    (h : hd.flatten ++ b = hd'.flatten ++ b') : hd = hd' ∧ b = b' := by
  obtain ⟨a1, a2, a3, a4, a5, a6, a7⟩ := hd
  obtain ⟨c1, c2, c3, c4, c5, c6, c7⟩ := hd'
  simp only [IdxHead.mapT, IdxHead.mk.injEq] at hm
  obtain ⟨hm1, hm2, hm3, _, hm5, hm6, _⟩ := hm
  simp only [IdxHead.flatten, List.append_assoc, List.cons_append, List.nil_append] at h
  obtain ⟨e1, h⟩ := toks_cancel hm1 h
  obtain ⟨e2, h⟩ := toks_cancel hm2 h
  obtain ⟨e3, h⟩ := toks_cancel hm3 h
  obtain ⟨e4, h⟩ := tok_cancel h
  obtain ⟨e5, h⟩ := toks_cancel hm5 h
  obtain ⟨e6, h⟩ := toks_cancel hm6 h
  obtain ⟨e7, h⟩ := tok_cancel h
  exact ⟨by rw [e1, e2, e3, e4, e5, e6, e7], h⟩

theorem idxTail_cancel (tl tl' : IdxTail) (b b' : List Tok) (hm : tl.mapT qc = tl'.mapT qc)
    (h : tl.flatten ++ b = tl'.flatten ++ b') : tl = tl' ∧ b = b' := by
  obtain ⟨a1, a2, a3, a4, a5⟩ := tl
  obtain ⟨c1, c2, c3, c4, c5⟩ := tl'
  simp only [IdxTail.mapT, IdxTail.mk.injEq] at hm
  obtain ⟨hm1, hm2, hm3, hm4, hm5⟩ := hm
  simp only [IdxTail.flatten, List.append_assoc] at h
  obtain ⟨e1, h⟩ := toks_cancel hm1 h
  obtain ⟨e2, h⟩ := parenIds_cancel _ _ _ _ hm2 h
  obtain ⟨e3, h⟩ := toks_cancel hm3 h
  obtain ⟨e4, h⟩ := toks_cancel hm4 h
  obtain ⟨e5, h⟩ := opt_cancel _ _ _ _ hm5 h
  exact ⟨by rw [e1, e2, e3, e4, e5], h⟩

theorem createIndex_cancel (i i' : CreateIndex) (b b' : List Tok) (hm : i.mapT qc = i'.mapT qc)
    (h : i.flatten ++ b = i'.flatten ++ b') : i = i' ∧ b = b' := by
  obtain ⟨a1, a2, a3, a4, a5, a6, a7⟩ := i
  obtain ⟨c1, c2, c3, c4, c5, c6, c7⟩ := i'
  simp only [CreateIndex.mapT, CreateIndex.mk.injEq] at hm
  obtain ⟨_, hm2, hm3, hm4, hm5, _, hm7⟩ := hm
  simp only [CreateIndex.flatten, List.append_assoc, List.cons_append] at h
  obtain ⟨e1, h⟩ := tok_cancel h
  obtain ⟨e2, h⟩ := toks_cancel hm2 h
  obtain ⟨e3, h⟩ := toks_cancel hm3 h
  obtain ⟨e4, h⟩ := idxHead_cancel _ _ _ _ hm4 h
  obtain ⟨e5, h⟩ := sep_cancel _ _ order_cancel _ _ _ _ hm5 h
  obtain ⟨e6, h⟩ := tok_cancel h
  obtain ⟨e7, h⟩ := idxTail_cancel _ _ _ _ hm7 h
  exact ⟨by rw [e1, e2, e3, e4, e5, e6, e7], h⟩

theorem colOp_cancel (op op' : AlterColOp) (b b' : List Tok) (hm : op.mapT qc = op'.mapT qc)
    (h : op.flatten ++ b = op'.flatten ++ b') : op = op' ∧ b = b' := by
  cases op <;> cases op' <;> simp [AlterColOp.mapT] at hm
  · exact ⟨rfl, by simpa [AlterColOp.flatten] using h⟩
  · exact ⟨rfl, by simpa [AlterColOp.flatten] using h⟩
  · simp only [AlterColOp.flatten] at h
    obtain ⟨e1, h⟩ := expr_cancel hm h
    exact ⟨by rw [e1], h⟩
  · exact ⟨rfl, by simpa [AlterColOp.flatten] using h⟩

theorem alterOp_cancel (o o' : AlterOp) (b b' : List Tok) (hm : o.mapT qc = o'.mapT qc)
    (h : o.flatten ++ b = o'.flatten ++ b') : o = o' ∧ b = b' := by
  cases o <;> cases o' <;> simp [AlterOp.mapT] at hm
  · obtain ⟨_, hm2, hm3, hm4, hm5, hm6⟩ := hm
    simp only [AlterOp.flatten, List.append_assoc, List.cons_append] at h
    obtain ⟨e1, h⟩ := tok_cancel h
    obtain ⟨e2, h⟩ := toks_cancel hm2 h
    obtain ⟨e3, h⟩ := toks_cancel hm3 h
    obtain ⟨e4, h⟩ := toks_cancel hm4 h
    obtain ⟨e6, h⟩ := colDef_cancel _ _ _ _ hm6 h
    exact ⟨by rw [e1, e2, e3, e4, hm5, e6], h⟩
  · obtain ⟨_, hm2, hm3, hm4, _, hm6⟩ := hm
    simp only [AlterOp.flatten, List.append_assoc, List.cons_append] at h
    obtain ⟨e1, h⟩ := tok_cancel h
    obtain ⟨e2, h⟩ := toks_cancel hm2 h
    obtain ⟨e3, h⟩ := toks_cancel hm3 h
    obtain ⟨e4, h⟩ := toks_cancel hm4 h
    obtain ⟨e5, h⟩ := tok_cancel h
    obtain ⟨e6, h⟩ := toks_cancel hm6 h
    exact ⟨by rw [e1, e2, e3, e4, e5, e6], h⟩
  · obtain ⟨_, hm2, _, _, _⟩ := hm
    simp only [AlterOp.flatten, List.append_assoc, List.cons_append, List.nil_append] at h
    obtain ⟨e1, h⟩ := tok_cancel h
    obtain ⟨e2, h⟩ := toks_cancel hm2 h
    obtain ⟨e3, h⟩ := tok_cancel h
    obtain ⟨e4, h⟩ := tok_cancel h
    obtain ⟨e5, h⟩ := tok_cancel h
    exact ⟨by rw [e1, e2, e3, e4, e5], h⟩
  · obtain ⟨_, _, hm3⟩ := hm
    simp only [AlterOp.flatten, List.cons_append] at h
    obtain ⟨e1, h⟩ := tok_cancel h
    obtain ⟨e2, h⟩ := tok_cancel h
    obtain ⟨e3, h⟩ := toks_cancel hm3 h
    exact ⟨by rw [e1, e2, e3], h⟩
  · obtain ⟨_, hm2, _, hm4, hm5⟩ := hm
    simp only [AlterOp.flatten, List.append_assoc, List.cons_append] at h
    obtain ⟨e1, h⟩ := tok_cancel h
    obtain ⟨e2, h⟩ := toks_cancel hm2 h
    obtain ⟨e3, h⟩ := tok_cancel h
    obtain ⟨e4, h⟩ := toks_cancel hm4 h
    obtain ⟨e5, h⟩ := colOp_cancel _ _ _ _ hm5 h
    exact ⟨by rw [e1, e2, e3, e4, e5], h⟩

theorem alterTable_cancel (a a' : AlterTable) (b b' : List Tok) (hm : a.mapT qc = a'.mapT qc)
    (h : a.flatten ++ b = a'.flatten ++ b') : a = a' ∧ b = b' := by
  obtain ⟨a1, a2, a3, a4, a5, a6⟩ := a
  obtain ⟨c1, c2, c3, c4, c5, c6⟩ := a'
  simp only [AlterTable.mapT, AlterTable.mk.injEq] at hm
  obtain ⟨_, _, hm3, hm4, hm5, hm6⟩ := hm
  simp only [AlterTable.flatten, List.append_assoc, List.cons_append] at h
  obtain ⟨e1, h⟩ := tok_cancel h
  obtain ⟨e2, h⟩ := tok_cancel h
  obtain ⟨e3, h⟩ := toks_cancel hm3 h
  obtain ⟨e4, h⟩ := toks_cancel hm4 h
  obtain ⟨e5, h⟩ := toks_cancel hm5 h
  obtain ⟨e6, h⟩ := sep_cancel _ _ alterOp_cancel _ _ _ _ hm6 h
  exact ⟨by rw [e1, e2, e3, e4, e5, e6], h⟩

theorem truncate_cancel (t t' : Truncate) (b b' : List Tok) (hm : t.mapT qc = t'.mapT qc)
    (h : t.flatten ++ b = t'.flatten ++ b') : t = t' ∧ b = b' := by
  obtain ⟨a1, a2, a3, a4, a5, a6⟩ := t
  obtain ⟨c1, c2, c3, c4, c5, c6⟩ := t'
  simp only [Truncate.mapT, Truncate.mk.injEq] at hm
  obtain ⟨_, hm2, hm3, hm4, hm5, hm6⟩ := hm
  simp only [Truncate.flatten, List.append_assoc, List.cons_append] at h
  obtain ⟨e1, h⟩ := tok_cancel h
  obtain ⟨e2, h⟩ := toks_cancel hm2 h
  obtain ⟨e3, h⟩ := toks_cancel hm3 h
  obtain ⟨e4, h⟩ := names_cancel _ _ _ _ hm4 h
  obtain ⟨e5, h⟩ := toks_cancel hm5 h
  obtain ⟨e6, h⟩ := toks_cancel hm6 h
  exact ⟨by rw [e1, e2, e3, e4, e5, e6], h⟩

theorem stmt_cancel (s s' : Stmt) (b b' : List Tok) (hm : s.mapT qc = s'.mapT qc)
    (h : s.flatten ++ b = s'.flatten ++ b') : s = s' ∧ b = b' := by
  cases s <;> cases s' <;> simp [Stmt.mapT] at hm
  · obtain ⟨e1, h⟩ := createView_cancel _ _ _ _ hm h; exact ⟨by rw [e1], h⟩
  · obtain ⟨e1, h⟩ := createIndex_cancel _ _ _ _ hm h; exact ⟨by rw [e1], h⟩
  · obtain ⟨e1, h⟩ := alterTable_cancel _ _ _ _ hm h; exact ⟨by rw [e1], h⟩
  · obtain ⟨e1, h⟩ := truncate_cancel _ _ _ _ hm h; exact ⟨by rw [e1], h⟩
  · obtain ⟨e1, h⟩ := drop_cancel _ _ _ _ hm h; exact ⟨by rw [e1], h⟩
  · obtain ⟨e1, h⟩ := Dml.stmt_cancel _ _ _ _ hm h; exact ⟨by rw [e1], h⟩

/-- a statement tree is determined by its image together with its yield -/
theorem stmt_inj (s s' : Stmt) (hm : s.mapT qc = s'.mapT qc) (h : s.flatten = s'.flatten) : s = s' :=
  (stmt_cancel s s' [] [] hm (by simpa using h)).1

-- ------------------------------------------------------------------ the normal form holds the same AST
theorem optKws_isEmpty (l : List Tok) (a : String) (rest : List String) :
    (optKws l (a :: rest)).isEmpty = l.isEmpty := by
  unfold optKws; cases l.isEmpty <;> rfl

theorem viewCol_sexp_norm (v : ViewCol) : v.norm.sexp = v.sexp := rfl

theorem createView_sexp_norm (v : CreateView) : v.norm.sexp = v.sexp := by
  unfold CreateView.sexp CreateView.norm
  simp only [optKws_isEmpty, sepSexp_norm _ _ viewCol_sexp_norm, source_sexp_norm]

theorem optIdSexp_usingNorm (toks : List Tok) : optIdSexp (usingNorm toks) = optIdSexp toks := by
  unfold optIdSexp usingNorm
  cases h : toks.getLast? with
  | none => rfl
  | some t => rfl

theorem nullsName_nullsDNorm (nulls : List Tok) : nullsName (nullsDNorm nulls) = nullsName nulls := by
  match nulls with
  | [] => rfl
  | [_] => rfl
  | [_, _] => rfl
  | _ :: _ :: _ :: _ => rfl

theorem idxKws_len (l : List Tok) :
    ((if l.length == 2 then [kwT "UNIQUE", kwT "INDEX"] else [kwT "INDEX"]).length == 2) = (l.length == 2) := by
  cases l.length == 2 <;> rfl

theorem createIndex_sexp_norm (i : CreateIndex) : i.norm.sexp = i.sexp := by
  unfold CreateIndex.sexp CreateIndex.norm IdxHead.norm IdxTail.norm
  simp only [idxKws_len, optKws_isEmpty, optIdSexp_usingNorm, sepSexp_norm _ _ order_sexp_norm, parenIds_norm_sexp,
    nullsName_nullsDNorm, optExprSexp_norm]

theorem colOp_sexp_norm (op : AlterColOp) : op.norm.sexp = op.sexp := by
  cases op with
  | setDefault e => unfold AlterColOp.sexp AlterColOp.norm; simp only [norm_sexp]
  | _ => rfl

theorem addIfne_norm (i1 i2 ck : List Tok) (keep : Bool) :
    addIfne (if ck.isEmpty then ineNorm (addIfne i1 i2 keep) else []) (if ck.isEmpty then [] else ineNorm (addIfne i1 i2 keep)) keep =
      addIfne i1 i2 keep := by
  unfold addIfne
  generalize (!i1.isEmpty || !i2.isEmpty) = x
  cases keep <;> cases ck.isEmpty <;> cases x <;> simp [ineNorm]

theorem alterOp_sexp_norm (o : AlterOp) : o.norm.sexp = o.sexp := by
  cases o with
  | addColumn k i1 ck i2 keep cd =>
    unfold AlterOp.sexp AlterOp.norm
    simp only [optKws_isEmpty, addIfne_norm, colDef_sexp_norm]
  | dropColumn k sw ck ie n cas =>
    unfold AlterOp.sexp AlterOp.norm
    simp only [optKws_isEmpty]
  | renameColumn k ck o t n => rfl
  | renameTable k t name => rfl
  | alterColumn k ck n ops op =>
    unfold AlterOp.sexp AlterOp.norm
    simp only [colOp_sexp_norm]

theorem alterTable_sexp_norm (a : AlterTable) : a.norm.sexp = a.sexp := by
  unfold AlterTable.sexp AlterTable.norm
  simp only [optKws_isEmpty, sepSexp_norm _ _ alterOp_sexp_norm]

theorem kwNormTok_isKw (t : Tok) (k : Nat) : (kwNormTok t).isKw k = t.isKw k := by
  cases t with
  | word v q kw => cases kw <;> rfl
  | _ => rfl

theorem kwText_kwNormTok (t : Tok) : kwText (kwNormTok t) = kwText t := by
  cases t with
  | word v q kw => cases kw <;> rfl
  | _ => rfl

theorem identityName_norm (l : List Tok) : identityName (l.map kwNormTok) = identityName l := by
  cases l with
  | nil => rfl
  | cons t rest => simp only [List.map_cons, identityName, kwNormTok_isKw]

theorem cascadeName_norm (l : List Tok) : cascadeName (l.map kwNormTok) = cascadeName l := by
  cases l with
  | nil => rfl
  | cons t rest => simp only [List.map_cons, cascadeName, kwNormTok_isKw]

theorem truncate_sexp_norm (t : Truncate) : t.norm.sexp = t.sexp := by
  unfold Truncate.sexp Truncate.norm
  simp only [optKws_isEmpty, sepSexp_norm nameSexp id (fun _ => rfl), identityName_norm, cascadeName_norm]

theorem dropObj_sexp_norm (d : Drop) : dropObjSexp (dropObjNorm d) = dropObjSexp d := by
  unfold dropObjSexp dropObjNorm
  simp only [optKws_isEmpty, sepSexp_norm nameSexp id (fun _ => rfl), kwText_kwNormTok]

/-- the printed normal form holds the same AST -/
theorem stmt_sexp_norm (s : Stmt) : s.norm.sexp = s.sexp := by
  cases s with
  | createView v => exact createView_sexp_norm v
  | createIndex i => exact createIndex_sexp_norm i
  | alterTable a => exact alterTable_sexp_norm a
  | truncate t => exact truncate_sexp_norm t
  | dropObj d => exact dropObj_sexp_norm d
  | dml s => exact Dml.stmt_sexp_norm s

end SqlVerif.Ddl

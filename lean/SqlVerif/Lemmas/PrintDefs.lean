import SqlVerif.Model.ExprPrint
import SqlVerif.Lemmas.PrattLemmas
/-!
Definitions shared by the C01 / C05 lemmas on the expression fragment.

* `canon`      what the parser model can observe of a token: of a word only its keyword and whether
               its value starts with an underscore (the introducer test of `parse_prefix`); `==` and `=`
               are one operator.  `Sim a b`: two token lists with the same observable image.
* `Expr.mapT`  map a function over every token stored in a tree.
* `Expr.norm`  the tree with every stored token replaced by the token the printer emits for it
               (`showToks e = (norm e).flatten`, `(norm e).sexp = e.sexp`).
* `Expr.printable` the decidable restriction under which the fixpoint theorem is proved.
-/
namespace SqlVerif.Pratt

def canon : Tok → Tok
  | .word v _ kw => .word (if v.head? == some 95 then [95] else []) none kw
  | .sym .DoubleEq => .sym .Eq
  | t => t

def Sim (a b : List Tok) : Prop := a.map canon = b.map canon

/-- finer image: identifiers, numbers, strings and placeholders are kept as they are; of a keyword
token only the keyword (and the underscore flag) is kept; `==` and `=` are one operator -/
def canon1 : Tok → Tok
  | .word v _ (some k) => .word (if v.head? == some 95 then [95] else []) none (some k)
  | .sym .DoubleEq => .sym .Eq
  | t => t

/-- what the user wrote: identifiers with their quoting, numbers, string payloads, placeholders
(the `Content` of the whole-grammar oracle C05) -/
inductive Content
  | ident (v : W) (q : Option Nat)
  | num (s : W)
  | str (s : W)
  | ph (s : W)
deriving DecidableEq, Repr

def contentOf : Tok → Option Content
  | .word v q none => some (.ident v q)
  | .number s _ => some (.num s)
  | .sqs s => some (.str s)
  | .dqs s => some (.str s)
  | .placeholder s => some (.ph s)
  | _ => none

def Expr.mapT (m : Tok → Tok) : Expr → Expr
  | .atom k toks => .atom k (toks.map m)
  | .nested e => .nested (e.mapT m)
  | .pre o t e => .pre o (m t) (e.mapT m)
  | .bin k l ops r => .bin k (l.mapT m) (ops.map m) (r.mapT m)
  | .post k l ops => .post k (l.mapT m) (ops.map m)
  | .between neg l ops lo a hi => .between neg (l.mapT m) (ops.map m) (lo.mapT m) (m a) (hi.mapT m)
  | .likeEsc k neg any l ops pat esc => .likeEsc k neg any (l.mapT m) (ops.map m) (pat.mapT m) (esc.map m)
  | .inList neg l ops items => .inList neg (l.mapT m) (ops.map m) (items.mapT m)
  | .quant o q l ops r => .quant o q (l.mapT m) (ops.map m) (r.mapT m)
  | .lcons e sep rest => .lcons (e.mapT m) (sep.map m) (rest.mapT m)
  | .lnil => .lnil

def toksOf (ps : List Piece) : List Tok := ps.map (·.tok)

/-- printed operator tokens of the `LIKE` family -/
def likeOps (k : LikeKind) (neg any : Bool) : List Tok :=
  toksOf (notP neg ++ k.pieces ++ (if any then [kwP true "ANY"] else []))

/-- the tree with every stored token replaced by its printed form -/
def Expr.norm : Expr → Expr
  | .atom k toks => .atom k (toksOf (atomPieces k toks))
  | .nested e => .nested e.norm
  | .pre o _ e => .pre o o.tok e.norm
  | .bin (.op o) l _ r => .bin (.op o) l.norm [o.tok] r.norm
  | .bin (.isDistinct neg) l _ r =>
    .bin (.isDistinct neg) l.norm (toksOf ([kwP true "IS"] ++ notP neg ++ [kwP true "DISTINCT", kwP true "FROM"])) r.norm
  | .bin .atTz l _ r => .bin .atTz l.norm [kwT "AT", kwT "TIME", kwT "ZONE"] r.norm
  | .bin (.like k neg any) l _ r => .bin (.like k neg any) l.norm (likeOps k neg any) r.norm
  | .post (.is k) l _ => .post (.is k) l.norm (toksOf ([kwP true "IS"] ++ k.pieces))
  | .post .cast l ops => .post .cast l.norm (toksOf (castPieces ops))
  | .post .factorial l _ => .post .factorial l.norm [.sym .ExclamationMark]
  | .between neg l _ lo _ hi =>
    .between neg l.norm (toksOf (notP neg ++ [kwP true "BETWEEN"])) lo.norm (kwT "AND") hi.norm
  | .likeEsc k neg any l _ pat esc =>
    .likeEsc k neg any l.norm (likeOps k neg any) pat.norm (toksOf (escPieces esc))
  | .inList neg l _ items =>
    .inList neg l.norm (toksOf (notP neg ++ [kwP true "IN", symP true .LParen])) items.norm
  | .quant o q l _ r => .quant o q l.norm [o.tok, q.piece.tok, .sym .LParen] r.norm
  | .lcons e _ rest => .lcons e.norm (if rest.isNil then [] else [.sym .Comma]) rest.norm
  | .lnil => .lnil

/-- a keyword token whose spelling does not start with an underscore (every keyword token of the lexer) -/
def kwClean : Tok → Bool
  | .word v _ (some _) => !(v.head? == some 95)
  | _ => true

/-- node-local part of `printable` -/
def atomPrintable (k : AtomKind) (toks : List Tok) : Bool :=
  match k, toks with
  | .ph2, [_, .word _ q _] => q.isNone
  | _, _ => true

def escPrintable (esc : List Tok) : Bool :=
  match esc with
  | [_, .sqs _] => true
  | _ => false

/-- Shapes covered by `reparse_fixpoint_partial`.  Excluded (all of them re-parse to the same tree;
they are left out because the printed token list is not a token-by-token image of the input):
`REGEXP RLIKE` (two operator tokens print as one), an `ESCAPE` operand written as a bare word or as
"…" (prints as '…'), `:"x"` / `@"x"` (the quotes of a quoted placeholder name are dropped), and
keyword tokens spelled with a leading underscore (no lexer produces them). -/
def Expr.printable : Expr → Bool
  | .atom k toks => atomPrintable k toks && toks.all kwClean
  | .nested e => e.printable
  | .pre _ t e => kwClean t && e.printable
  | .bin (.like .Regexp neg _) l ops r => (ops.length == (if neg then 2 else 1)) && ops.all kwClean && l.printable && r.printable
  | .bin _ l ops r => ops.all kwClean && l.printable && r.printable
  | .post _ l ops => ops.all kwClean && l.printable
  | .between _ l ops lo a hi => ops.all kwClean && kwClean a && l.printable && lo.printable && hi.printable
  | .likeEsc _ _ _ l ops pat esc => ops.all kwClean && esc.all kwClean && escPrintable esc && l.printable && pat.printable
  | .inList _ l ops items => ops.all kwClean && l.printable && items.printable
  | .quant _ _ l ops r => ops.all kwClean && l.printable && r.printable
  | .lcons e _ rest => e.printable && rest.printable
  | .lnil => true

end SqlVerif.Pratt

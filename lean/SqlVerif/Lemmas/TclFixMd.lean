import SqlVerif.Lemmas.TclFixSexp
/-! The parser of `Model/Tcl.lean` only builds trees whose modifier slot holds at most one token (`parseStmt_mdOk`). -/
set_option linter.unusedSimpArgs false
namespace SqlVerif.Tcl
open SqlVerif.Pratt SqlVerif.Query SqlVerif.Dml SqlVerif.Ddl SqlVerif.Gen

theorem parseStart_mdOk {f : Nat} {kw : Tok} {ts : List Tok} {s : Stmt} {rest : List Tok}
    (h : parseStart f kw ts = .ok (s, rest)) : s.mdOk := by
  unfold parseStart at h
  repeat' (split at h)
  all_goals (first | (simp at h; done) | (simp at h; obtain ⟨rfl, -⟩ := h; trivial))
theorem parseBegin_mdOk {c : TCfg} {f : Nat} {kw : Tok} {ts : List Tok} {s : Stmt} {rest : List Tok}
    (h : parseBegin c f kw ts = .ok (s, rest)) : s.mdOk := by
  unfold parseBegin at h
  repeat' (split at h)
  all_goals (first | (simp at h; done) | (simp at h; obtain ⟨rfl, -⟩ := h; trivial))
theorem parseCommit_mdOk {kw : Tok} {ts : List Tok} {s : Stmt} {rest : List Tok}
    (h : parseCommit kw ts = .ok (s, rest)) : s.mdOk := by
  unfold parseCommit at h
  repeat' (split at h)
  all_goals (first | (simp at h; done) | (simp at h; obtain ⟨rfl, -⟩ := h; trivial))
theorem parseRollback_mdOk {kw : Tok} {ts : List Tok} {s : Stmt} {rest : List Tok}
    (h : parseRollback kw ts = .ok (s, rest)) : s.mdOk := by
  unfold parseRollback at h
  repeat' (split at h)
  all_goals (first | (simp at h; done) | (simp at h; obtain ⟨rfl, -⟩ := h; trivial))
theorem parseSavepoint_mdOk {kw : Tok} {ts : List Tok} {s : Stmt} {rest : List Tok}
    (h : parseSavepoint kw ts = .ok (s, rest)) : s.mdOk := by
  unfold parseSavepoint at h
  repeat' (split at h)
  all_goals (first | (simp at h; done) | (simp at h; obtain ⟨rfl, -⟩ := h; trivial))
theorem parseRelease_mdOk {kw : Tok} {ts : List Tok} {s : Stmt} {rest : List Tok}
    (h : parseRelease kw ts = .ok (s, rest)) : s.mdOk := by
  unfold parseRelease at h
  repeat' (split at h)
  all_goals (first | (simp at h; done) | (simp at h; obtain ⟨rfl, -⟩ := h; trivial))
theorem parseUse_mdOk {c : TCfg} {kw : Tok} {ts : List Tok} {s : Stmt} {rest : List Tok}
    (h : parseUse c kw ts = .ok (s, rest)) : s.mdOk := by
  unfold parseUse at h
  repeat' (split at h)
  all_goals (first | (simp at h; done) | (simp at h; obtain ⟨rfl, -⟩ := h; trivial))
theorem parseDiscard_mdOk {kw : Tok} {ts : List Tok} {s : Stmt} {rest : List Tok}
    (h : parseDiscard kw ts = .ok (s, rest)) : s.mdOk := by
  unfold parseDiscard at h
  repeat' (split at h)
  all_goals (first | (simp at h; done) | (simp at h; obtain ⟨rfl, -⟩ := h; trivial))
theorem parseDeallocate_mdOk {kw : Tok} {ts : List Tok} {s : Stmt} {rest : List Tok}
    (h : parseDeallocate kw ts = .ok (s, rest)) : s.mdOk := by
  unfold parseDeallocate at h
  repeat' (split at h)
  all_goals (first | (simp at h; done) | (simp at h; obtain ⟨rfl, -⟩ := h; trivial))
theorem parseClose_mdOk {kw : Tok} {ts : List Tok} {s : Stmt} {rest : List Tok}
    (h : parseClose kw ts = .ok (s, rest)) : s.mdOk := by
  unfold parseClose at h
  repeat' (split at h)
  all_goals (first | (simp at h; done) | (simp at h; obtain ⟨rfl, -⟩ := h; trivial))
theorem parseAssert_mdOk {c : TCfg} {f d : Nat} {kw : Tok} {ts : List Tok} {s : Stmt} {rest : List Tok}
    (h : parseAssert c f d kw ts = .ok (s, rest)) : s.mdOk := by
  unfold parseAssert at h
  repeat' (split at h)
  all_goals (first | (simp at h; done) | (simp at h; obtain ⟨rfl, -⟩ := h; trivial))
theorem parseSetRole_mdOk {kw : Tok} {md : List Tok} {rk : Tok} {ts : List Tok} {s : Stmt} {rest : List Tok}
    (h : parseSetRole kw md rk ts = .ok (s, rest)) : s.mdOk := by
  unfold parseSetRole at h
  repeat' (split at h)
  all_goals (first | (simp at h; done) | (simp at h; obtain ⟨rfl, -⟩ := h; trivial))
theorem parseSetNames_mdOk {kw : Tok} {md colon name : List Tok} {ts : List Tok} {s : Stmt} {rest : List Tok}
    (h : parseSetNames kw md colon name ts = .ok (s, rest)) : s.mdOk := by
  unfold parseSetNames at h
  repeat' (split at h)
  all_goals (first | (simp at h; done) | (simp at h; obtain ⟨rfl, -⟩ := h; trivial))
theorem parseSetCharacteristics_mdOk {f : Nat} {kw : Tok} {md colon name : List Tok} {ts : List Tok} {s : Stmt} {rest : List Tok}
    (h : parseSetCharacteristics f kw md colon name ts = .ok (s, rest)) : s.mdOk := by
  unfold parseSetCharacteristics at h
  repeat' (split at h)
  all_goals (first | (simp at h; done) | (simp at h; obtain ⟨rfl, -⟩ := h; trivial))
theorem parseSetTransaction_mdOk {f : Nat} {kw : Tok} {md colon name : List Tok} {ts : List Tok} {s : Stmt} {rest : List Tok}
    (h : parseSetTransaction f kw md colon name ts = .ok (s, rest)) : s.mdOk := by
  unfold parseSetTransaction at h
  repeat' (split at h)
  all_goals (first | (simp at h; done) | (simp at h; obtain ⟨rfl, -⟩ := h; trivial))

theorem parseSetValues_mdOk {c : TCfg} {f d : Nat} {kw : Tok} {md colon : List Tok} {tg : SetTarget} {eq : Tok} {ts : List Tok}
    {s : Stmt} {rest : List Tok} (h : parseSetValues c f d kw md colon tg eq ts = .ok (s, rest))
    (hmd : md = [] ∨ ∃ t, md = [t]) : s.mdOk := by
  unfold parseSetValues at h
  repeat' (split at h)
  all_goals (first | (simp at h; done) | (simp at h; obtain ⟨rfl, -⟩ := h; exact hmd))

theorem parseSetOther_mdOk {c : TCfg} {f d : Nat} {kw : Tok} {md colon : List Tok} {tg : SetTarget} {ts : List Tok}
    {s : Stmt} {rest : List Tok} (h : parseSetOther c f d kw md colon tg ts = .ok (s, rest)) : s.mdOk := by
  unfold parseSetOther at h
  split at h
  · simp at h
  · split at h
    · split at h
      · simp at h
      · simp at h; obtain ⟨rfl, -⟩ := h; trivial
    · split at h
      · exact parseSetCharacteristics_mdOk h
      · split at h
        · exact parseSetTransaction_mdOk h
        · simp at h

theorem parseSet_mdOk {c : TCfg} {f d : Nat} {kw : Tok} {ts : List Tok} {s : Stmt} {rest : List Tok}
    (h : parseSet c f d kw ts = .ok (s, rest)) : s.mdOk := by
  unfold parseSet parseSetTail at h
  split at h
  · exact parseSetRole_mdOk h
  · split at h
    · simp at h
    · unfold parseSetVar at h
      split at h
      · simp at h
      · split at h
        · exact parseSetNames_mdOk h
        · split at h
          · exact parseSetValues_mdOk h (oneOfTail_shape _ _)
          · exact parseSetOther_mdOk h

theorem parseStmt_mdOk (c : TCfg) (f limit : Nat) (ts : List Tok) (s : Stmt) (rest : List Tok)
    (h : parseStmt c f limit ts = .ok (s, rest)) : s.mdOk := by
  unfold parseStmt at h
  cases limit with
  | zero => simp at h
  | succ d =>
    simp only at h
    cases ts with
    | nil => simp at h
    | cons t r =>
      simp only at h
      by_cases hSTART : t.isKw TK.START = true
      · rw [if_pos hSTART] at h; exact parseStart_mdOk h
      rw [if_neg hSTART] at h
      by_cases hBEGIN : t.isKw TK.BEGIN = true
      · rw [if_pos hBEGIN] at h; exact parseBegin_mdOk h
      rw [if_neg hBEGIN] at h
      by_cases hEND_ : t.isKw TK.END_ = true
      · rw [if_pos hEND_] at h; exact parseCommit_mdOk h
      rw [if_neg hEND_] at h
      by_cases hCOMMIT : t.isKw TK.COMMIT = true
      · rw [if_pos hCOMMIT] at h; exact parseCommit_mdOk h
      rw [if_neg hCOMMIT] at h
      by_cases hROLLBACK : t.isKw TK.ROLLBACK = true
      · rw [if_pos hROLLBACK] at h; exact parseRollback_mdOk h
      rw [if_neg hROLLBACK] at h
      by_cases hSAVEPOINT : t.isKw TK.SAVEPOINT = true
      · rw [if_pos hSAVEPOINT] at h; exact parseSavepoint_mdOk h
      rw [if_neg hSAVEPOINT] at h
      by_cases hRELEASE : t.isKw TK.RELEASE = true
      · rw [if_pos hRELEASE] at h; exact parseRelease_mdOk h
      rw [if_neg hRELEASE] at h
      by_cases hSET : t.isKw TK.SET = true
      · rw [if_pos hSET] at h; exact parseSet_mdOk h
      rw [if_neg hSET] at h
      by_cases hUSE : t.isKw TK.USE = true
      · rw [if_pos hUSE] at h; exact parseUse_mdOk h
      rw [if_neg hUSE] at h
      by_cases hDISCARD : t.isKw TK.DISCARD = true
      · rw [if_pos hDISCARD] at h; exact parseDiscard_mdOk h
      rw [if_neg hDISCARD] at h
      by_cases hDEALLOCATE : t.isKw TK.DEALLOCATE = true
      · rw [if_pos hDEALLOCATE] at h; exact parseDeallocate_mdOk h
      rw [if_neg hDEALLOCATE] at h
      by_cases hCLOSE : t.isKw TK.CLOSE = true
      · rw [if_pos hCLOSE] at h; exact parseClose_mdOk h
      rw [if_neg hCLOSE] at h
      by_cases hASSERT : t.isKw TK.ASSERT = true
      · rw [if_pos hASSERT] at h; exact parseAssert_mdOk h
      rw [if_neg hASSERT] at h
      obtain ⟨v, hv, rfl⟩ := mapRes_ok h
      trivial

end SqlVerif.Tcl

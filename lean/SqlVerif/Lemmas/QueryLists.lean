import SqlVerif.Lemmas.QueryExt
import SqlVerif.Lemmas.ListsLemmas
/-!
The list parser of the query model (`commaSepE`, `Model/Query.lean`) is `parse_comma_separated` of
`Model/Lists.lean` instantiated with the real token classification, and element parsers that repeat a
complete parse in front of every stopper token are *local* in the sense of `Lemmas/ListsLemmas.lean`.
-/
namespace SqlVerif.Query
open SqlVerif.Pratt SqlVerif.Gen
open SqlVerif.SetClimb (Op SQuant precOf)

/-- the classification `parse_comma_separated` uses, on real tokens -/
def listClass : SqlVerif.Lists.TokClass Tok where
  isComma t := t.isSym .Comma
  endsList := endsList

/-- an element parser of the model as the list model of `Model/Lists.lean` wants it -/
def asOpt {α : Type} (elem : List Tok → Res α) (ts : List Tok) : Option (α × List Tok) := (elem ts).toOption

theorem isComma_eq {t : Tok} (h : t.isSym .Comma = true) : t = .sym .Comma := by
  unfold Tok.isSym at h
  split at h
  · simp at h; subst h; rfl
  · simp at h

theorem peekEnds_eq (ts : List Tok) : SqlVerif.Lists.peekEnds listClass ts = listEnds ts := by
  cases ts <;> rfl

/-- the list parser of the model is `parse_comma_separated` of `Model/Lists.lean` on real tokens -/
theorem commaSepE_eq_lists {α : Type} (tc : Bool) (elem : List Tok → Res α) :
    ∀ (n : Nat) (ts : List Tok) (vs : Sep α) (rest : List Tok), commaSepE tc elem n ts = .ok (vs, rest) →
      SqlVerif.Lists.commaSep listClass tc (asOpt elem) n ts = some (vs.map (·.1), rest) := by
  intro n
  induction n with
  | zero => intro ts vs rest h; simp [commaSepE] at h
  | succ n ih =>
    intro ts vs rest h
    simp only [commaSepE] at h
    simp only [SqlVerif.Lists.commaSep, asOpt]
    split at h
    · simp at h
    · rename_i v r1 he
      simp only [he, Except.toOption]
      split at h
      · rename_i r2
        have hce : SqlVerif.Lists.commaSepEnd listClass tc (.sym .Comma :: r2) =
            (if tc then listEnds r2 else false, r2) := by
          simp [SqlVerif.Lists.commaSepEnd, listClass, Tok.isSym]
          cases tc <;> simp [listClass] at * <;> exact peekEnds_eq r2
        rw [hce]
        split at h
        · rename_i hc
          simp at h; obtain ⟨rfl, rfl⟩ := h
          simp at hc
          simp [hc.1, hc.2]
        · rename_i hc
          split at h
          · simp at h
          · rename_i vs' r3 hr
            simp at h; obtain ⟨rfl, rfl⟩ := h
            have := ih _ _ _ hr
            have hc' : (if tc then listEnds r2 else false) = false := by
              cases tc <;> simp_all
            simp [hc', this]
      · rename_i hnc
        simp at h; obtain ⟨rfl, rfl⟩ := h
        have : SqlVerif.Lists.commaSepEnd listClass tc r1 = (true, r1) := by
          cases r1 with
          | nil => rfl
          | cons a b =>
            simp only [SqlVerif.Lists.commaSepEnd]
            have : listClass.isComma a = false := by
              cases ha : listClass.isComma a with
              | false => rfl
              | true => exact (hnc b (by rw [isComma_eq ha])).elim
            simp [this]
        simp [this]

/-- comma or list-ending token = stopper of the expression parser -/
theorem follower_stopper {t : Tok} (h : listClass.isComma t = true ∨ listClass.endsList t = true) : stopper t = true := by
  rcases h with h | h
  · rw [isComma_eq h]; rfl
  · simp only [listClass, endsList] at h
    unfold stopper
    split at h <;> simp_all

/-- an element parser that repeats a complete parse in front of every stopper is local on what it
accepts completely -/
theorem localOn_of_ext {α : Type} (elem : List Tok → Res α) (a : List Tok) (v : α)
    (hacc : elem a = .ok (v, []))
    (hext : ∀ x r, stopper x = true → elem (a ++ x :: r) = .ok (v, x :: r)) :
    SqlVerif.Lists.LocalOn listClass (asOpt elem) a v := by
  intro s hs
  rcases hs with rfl | ⟨t, r, rfl, ht⟩
  · simp [asOpt, hacc, Except.toOption]
  · simp [asOpt, hext t r (follower_stopper ht), Except.toOption]

end SqlVerif.Query

import SqlVerif.Model.Stmts
namespace SqlVerif.Stmts

variable {τ α ε : Type}

/-- a run of separators -/
def AllSemis (c : TokClass τ) (l : List τ) : Prop := ∀ t ∈ l, c.isSemi t = true

/-- what may follow a statement: EOF or a separator -/
def Follower (c : TokClass τ) (f : List τ) : Prop := f = [] ∨ ∃ t r, f = t :: r ∧ c.isSemi t = true

/-- the statement parser is *local* on statement text `s` with value `a`: followed by EOF or a
separator it consumes exactly `s` — it never eats the separator or anything after it -/
def LocalOn (c : TokClass τ) (ps : List τ → Except ε (α × List τ)) (s : List τ) (a : α) : Prop :=
  ∀ f, Follower c f → ps (s ++ f) = .ok (a, f)

/-- a statement text is non-empty and does not begin with a separator -/
def StartsStmt (c : TokClass τ) (s : List τ) : Prop := ∃ t r, s = t :: r ∧ c.isSemi t = false

theorem dropSemis_all (c : TokClass τ) : ∀ (sep : List τ) (rest : List τ), AllSemis c sep →
    (rest = [] ∨ ∃ t r, rest = t :: r ∧ c.isSemi t = false) →
    dropSemis c (sep ++ rest) = (!sep.isEmpty, rest) := by
  intro sep
  induction sep with
  | nil =>
    intro rest _ hr
    rcases hr with h | ⟨t, r, h, hn⟩
    · subst h; rfl
    · subst h; simp [dropSemis, hn]
  | cons s sep ih =>
    intro rest hs hr
    have h1 : c.isSemi s = true := hs s (List.mem_cons_self ..)
    have := ih rest (fun t ht => hs t (List.mem_cons_of_mem _ ht)) hr
    simp [dropSemis, h1, this]

/-- script text: `sep₀ s₁ sep₁ s₂ … sₙ sepₙ` -/
def script : List τ → List (List τ × List τ) → List τ
  | sep0, [] => sep0
  | sep0, (s, sep) :: rest => sep0 ++ s ++ script sep rest

/-- every separator run between two statements is non-empty -/
def InnerSepsNonEmpty : List (List τ × List τ) → Prop
  | [] => True
  | [_] => True
  | (_, sep) :: b :: rest => sep ≠ [] ∧ InnerSepsNonEmpty (b :: rest)

theorem script_head (c : TokClass τ) (sep : List τ) (items : List (List τ × α × List τ))
    (hstart : ∀ it ∈ items, StartsStmt c it.1) :
    script sep (items.map fun it => (it.1, it.2.2)) = sep ++ (match items with
      | [] => []
      | it :: rest => it.1 ++ script it.2.2 (rest.map fun it => (it.1, it.2.2))) := by
  cases items with
  | nil => simp [script]
  | cons it rest => simp [script, List.append_assoc]

/-- **Loop theorem.** If the statement parser is local on every statement, the loop returns
exactly the statements, in order, for any layout of separators (empty statements, leading and
trailing `;` allowed). Stated for the loop started in any state reachable there. -/
theorem loop_concat (c : TokClass τ) (ps : List τ → Except ε (α × List τ)) :
    ∀ (items : List (List τ × α × List τ)) (sep0 : List τ) (expecting : Bool) (acc : List α) (fuel : Nat),
      AllSemis c sep0 →
      (∀ it ∈ items, AllSemis c it.2.2) →
      (∀ it ∈ items, StartsStmt c it.1) →
      (∀ it ∈ items, LocalOn c ps it.1 it.2.1) →
      InnerSepsNonEmpty (items.map fun it => (it.1, it.2.2)) →
      -- when a delimiter is expected and statements remain, the leading separator run is non-empty
      (expecting = true → items ≠ [] → sep0 ≠ []) →
      items.length < fuel →
      loop c ps fuel expecting (script sep0 (items.map fun it => (it.1, it.2.2))) acc =
        .ok (acc ++ items.map (·.2.1)) := by
  intro items
  induction items with
  | nil =>
    intro sep0 expecting acc fuel hs0 _ _ _ _ _ hf
    cases fuel with
    | zero => omega
    | succ fuel =>
      have := dropSemis_all c sep0 [] hs0 (Or.inl rfl)
      simp only [List.append_nil] at this
      simp [loop, script, this]
  | cons it rest ih =>
    intro sep0 expecting acc fuel hs0 hsep hstart hloc hinner hexp hf
    cases fuel with
    | zero => simp at hf
    | succ fuel =>
      obtain ⟨t, r, hs, hns⟩ := hstart it (List.mem_cons_self ..)
      have hscript : script sep0 ((it :: rest).map fun it => (it.1, it.2.2)) =
          sep0 ++ (t :: (r ++ script it.2.2 (rest.map fun it => (it.1, it.2.2)))) := by
        simp [script, hs, List.append_assoc]
      have hd := dropSemis_all c sep0 (t :: (r ++ script it.2.2 (rest.map fun it => (it.1, it.2.2)))) hs0
        (Or.inr ⟨t, _, rfl, hns⟩)
      -- after the separators a delimiter is no longer expected
      have hexp' : (if (!sep0.isEmpty) = true then false else expecting) = false := by
        cases hsep0 : sep0.isEmpty with
        | false => simp
        | true =>
          have : sep0 = [] := List.isEmpty_iff.1 hsep0
          cases hE : expecting with
          | false => simp
          | true => exact absurd this (hexp hE (by simp))
      -- the statement parser consumes exactly the statement
      have hfollow : Follower c (script it.2.2 (rest.map fun it => (it.1, it.2.2))) := by
        cases rest with
        | nil =>
          simp only [List.map_nil, script]
          cases hsp : it.2.2 with
          | nil => exact Or.inl rfl
          | cons x xs => exact Or.inr ⟨x, xs, rfl, hsep it (List.mem_cons_self ..) x (by simp [hsp])⟩
        | cons it2 rest2 =>
          have hne : it.2.2 ≠ [] := hinner.1
          cases hsp : it.2.2 with
          | nil => exact absurd hsp hne
          | cons x xs =>
            refine Or.inr ⟨x, xs ++ it2.1 ++ script it2.2.2 (rest2.map fun it => (it.1, it.2.2)), ?_,
              hsep it (List.mem_cons_self ..) x (by simp [hsp])⟩
            simp [script, List.append_assoc]
      have hps := hloc it (List.mem_cons_self ..) _ hfollow
      rw [hs, List.cons_append] at hps
      rw [hscript]
      simp only [loop, hd, hexp', Bool.false_and, Bool.false_eq_true, ↓reduceIte, hps]
      -- continue with the rest
      have hinner' : InnerSepsNonEmpty (rest.map fun it => (it.1, it.2.2)) := by
        cases rest with
        | nil => trivial
        | cons it2 rest2 => exact hinner.2
      have hexp2 : (true = true → rest ≠ [] → it.2.2 ≠ []) := by
        intro _ hr
        cases rest with
        | nil => exact absurd rfl hr
        | cons it2 rest2 => exact hinner.1
      have := ih it.2.2 true (acc ++ [it.2.1]) fuel (hsep it (List.mem_cons_self ..))
        (fun x hx => hsep x (List.mem_cons_of_mem _ hx))
        (fun x hx => hstart x (List.mem_cons_of_mem _ hx))
        (fun x hx => hloc x (List.mem_cons_of_mem _ hx)) hinner' hexp2 (by simpa using hf)
      rw [this]
      simp

end SqlVerif.Stmts

import SqlVerif.Model.DdlPrint
import SqlVerif.Lemmas.DmlLemmas
/-!
Token yield of the trees of `Model/Ddl.lean` (`flatten`) and the yield theorems: a successful run of
every parser function consumes exactly the tokens its tree keeps.
-/
namespace SqlVerif.Ddl
open SqlVerif.Pratt SqlVerif.Query SqlVerif.Dml SqlVerif.Gen

-- ------------------------------------------------------------------ flatten
def ViewCol.flatten (v : ViewCol) : List Tok := v.name :: v.tyToks

def CreateView.flatten (v : CreateView) : List Tok :=
  v.kw :: v.orReplace ++ v.temp ++ v.mat ++ v.viewKw :: v.ifne ++ v.name ++ v.lp ++ sepFlat ViewCol.flatten v.cols ++ v.rp ++
    v.asKw :: v.query.flatten

def IdxHead.flatten (hd : IdxHead) : List Tok :=
  hd.conc ++ hd.ifne ++ hd.name ++ hd.onKw :: hd.table ++ hd.usingToks ++ [hd.lp]

def IdxTail.flatten (tl : IdxTail) : List Tok :=
  tl.inclKw ++ tl.incl.flatten ++ tl.nulls ++ tl.whereKw ++ optFlat tl.pred

def CreateIndex.flatten (i : CreateIndex) : List Tok :=
  i.kw :: i.temp ++ i.idxKws ++ i.hd.flatten ++ sepFlat OrderByExpr.flatten i.cols ++ i.rp :: i.tl.flatten

def AlterColOp.flatten : AlterColOp → List Tok
  | .setDefault e => e.flatten
  | _ => []

def AlterOp.flatten : AlterOp → List Tok
  | .addColumn k i1 ck i2 _ cd => k :: i1 ++ ck ++ i2 ++ cd.flatten
  | .dropColumn k sw ck ie n cas => k :: sw ++ ck ++ ie ++ n :: cas
  | .renameColumn k ck o t n => k :: ck ++ [o, t, n]
  | .renameTable k t name => k :: t :: name
  | .alterColumn k ck n ops op => k :: ck ++ n :: ops ++ op.flatten

def AlterTable.flatten (a : AlterTable) : List Tok :=
  a.kw :: a.tableKw :: a.ifExists ++ a.only ++ a.name ++ sepFlat AlterOp.flatten a.ops

def Truncate.flatten (t : Truncate) : List Tok :=
  t.kw :: t.tableKw ++ t.only ++ sepFlat (fun n => n) t.names ++ t.identity ++ t.cascade

def Stmt.flatten : Stmt → List Tok
  | .createView v => v.flatten
  | .createIndex i => i.flatten
  | .alterTable a => a.flatten
  | .truncate t => t.flatten
  | .dropObj d => d.flatten
  | .dml s => s.flatten

-- ------------------------------------------------------------------ CREATE VIEW
theorem viewCol_yield (c : XCfg) (f d : Nat) (ts : List Tok) (v : ViewCol) (rest : List Tok)
    (h : viewCol c f d ts = .ok (v, rest)) : ts = v.flatten ++ rest := by
  unfold viewCol at h
  split at h
  · simp at h
  · rename_i name r hn
    have h0 := identElem_yield _ _ _ hn
    split at h
    · simp at h
    · split at h
      · split at h
        · simp at h
        · rename_i ty r1 ht
          have h1 := colType_yield _ _ _ _ _ _ ht
          simp at h; obtain ⟨rfl, rfl⟩ := h
          simp [ViewCol.flatten, h0, h1]
      · simp at h; obtain ⟨rfl, rfl⟩ := h
        simp [ViewCol.flatten, h0]

theorem viewColumns_yield (c : XCfg) (f d : Nat) (ts : List Tok) (cols : List Tok × Sep ViewCol × List Tok) (rest : List Tok)
    (h : viewColumns c f d ts = .ok (cols, rest)) : ts = cols.1 ++ sepFlat ViewCol.flatten cols.2.1 ++ cols.2.2 ++ rest := by
  unfold viewColumns at h
  split at h
  · simp at h; obtain ⟨rfl, rfl⟩ := h; simp [sepFlat]
  · rename_i lp r hl
    obtain ⟨rfl, -⟩ := eatSym_some hl
    split at h
    · rename_i rp r' hr
      obtain ⟨rfl, -⟩ := eatSym_some hr
      simp at h; obtain ⟨rfl, rfl⟩ := h; simp [sepFlat]
    · split at h
      · simp at h
      · rename_i cs r1 hc
        have h1 := commaSepE_yield _ _ ViewCol.flatten (viewCol_yield c f d) _ _ _ _ hc
        split at h
        · rename_i rp r2 hr
          obtain ⟨rfl, -⟩ := eatSym_some hr
          simp at h; obtain ⟨rfl, rfl⟩ := h
          simp [h1]
        · simp at h

theorem viewIfneTail_yield (c : XCfg) (ts : List Tok) : ts = (viewIfneTail c ts).1 ++ (viewIfneTail c ts).2 := by
  unfold viewIfneTail
  split
  · exact kwsTail_yield _ _
  · simp

theorem viewBody_yield (c : XCfg) (f d : Nat) (ts : List Tok) (b : Tok × Source) (rest : List Tok)
    (h : viewBody c f d ts = .ok (b, rest)) : ts = b.1 :: b.2.flatten ++ rest := by
  unfold viewBody at h
  split at h
  · simp at h
  · split at h
    · simp at h
    · rename_i asKw r hk
      obtain ⟨rfl, -⟩ := (eatKw_some_iff _ _ _ _).1 hk
      split at h
      · simp at h
      · rename_i q r1 hq
        have h1 := parseSource_yield _ _ _ _ _ _ hq
        split at h
        · simp at h
        · simp at h; obtain ⟨rfl, rfl⟩ := h
          simp [h1]

theorem parseCreateView_yield (c : XCfg) (f d : Nat) (kw : Tok) (orRep temp ts : List Tok) (v : CreateView) (rest : List Tok)
    (h : parseCreateView c f d kw orRep temp ts = .ok (v, rest)) : kw :: (orRep ++ temp ++ ts) = v.flatten ++ rest := by
  unfold parseCreateView at h
  split at h
  · simp at h
  · rename_i vk r0 hk
    obtain ⟨h0, -⟩ := (eatKw_some_iff _ _ _ _).1 hk
    have hm := kwTail_yield XK.MATERIALIZED ts
    have hi := viewIfneTail_yield c r0
    split at h
    · simp at h
    · rename_i name r1 hn
      have h1 := nameElem_yield _ _ _ hn
      split at h
      · simp at h
      · split at h
        · simp at h
        · rename_i cols r2 hc
          have h2 := viewColumns_yield _ _ _ _ _ _ hc
          split at h
          · simp at h
          · rename_i b r3 hb
            have h3 := viewBody_yield _ _ _ _ _ _ hb
            simp at h; obtain ⟨rfl, rfl⟩ := h
            simp only [CreateView.flatten]
            generalize kwTail XK.MATERIALIZED ts = A at *
            obtain ⟨a1, a2⟩ := A
            generalize viewIfneTail c r0 = B at *
            obtain ⟨b1, b2⟩ := B
            simp only at hm h0 hi h1 ⊢
            subst hm h0 hi h1 h2 h3
            simp

-- ------------------------------------------------------------------ CREATE INDEX
theorem indexName_yield (ifne : Bool) (ts : List Tok) (nm : List Tok × Tok) (rest : List Tok)
    (h : indexName ifne ts = .ok (nm, rest)) : ts = nm.1 ++ nm.2 :: rest := by
  unfold indexName at h
  split at h
  · rename_i on r ho
    split at ho
    · simp at ho
    · obtain ⟨rfl, -⟩ := (eatKw_some_iff _ _ _ _).1 ho
      simp at h; obtain ⟨rfl, rfl⟩ := h; simp
  · split at h
    · simp at h
    · rename_i name r hn
      have h1 := nameElem_yield _ _ _ hn
      split at h
      · simp at h
      · rename_i on r1 ho
        obtain ⟨rfl, -⟩ := (eatKw_some_iff _ _ _ _).1 ho
        simp at h; obtain ⟨rfl, rfl⟩ := h; simp [h1]

theorem indexUsing_yield (ts us rest : List Tok) (h : indexUsing ts = .ok (us, rest)) : ts = us ++ rest := by
  unfold indexUsing at h
  split at h
  · simp at h; obtain ⟨rfl, rfl⟩ := h; simp
  · rename_i u r hu
    obtain ⟨rfl, -⟩ := (eatKw_some_iff _ _ _ _).1 hu
    split at h
    · simp at h
    · rename_i m r1 hm
      have := identElem_yield _ _ _ hm
      simp at h; obtain ⟨rfl, rfl⟩ := h; simp [this]

theorem indexHead_yield (c : XCfg) (ts : List Tok) (hd : IdxHead) (rest : List Tok)
    (h : indexHead c ts = .ok (hd, rest)) : ts = hd.flatten ++ rest := by
  unfold indexHead at h
  have hc := kwTail_yield XK.CONCURRENTLY ts
  have hi := kwsTail_yield ineKws (kwTail XK.CONCURRENTLY ts).2
  split at h
  · simp at h
  · rename_i nm r1 hn
    have h1 := indexName_yield _ _ _ _ hn
    split at h
    · simp at h
    · rename_i table r2 ht
      have h2 := nameElem_yield _ _ _ ht
      split at h
      · simp at h
      · split at h
        · simp at h
        · rename_i us r3 hu
          have h3 := indexUsing_yield _ _ _ hu
          split at h
          · simp at h
          · rename_i lp r4 hl
            obtain ⟨h4, -⟩ := eatSym_some hl
            simp at h; obtain ⟨rfl, rfl⟩ := h
            simp only [IdxHead.flatten]
            generalize kwTail XK.CONCURRENTLY ts = A at *
            obtain ⟨a1, a2⟩ := A
            generalize kwsTail ineKws a2 = B at *
            obtain ⟨b1, b2⟩ := B
            simp only at hc hi h1 ⊢
            subst hc hi h1 h2 h3 h4
            simp

theorem includePart_yield (c : XCfg) (f : Nat) (ts : List Tok) (inc : List Tok × ParenIds) (rest : List Tok)
    (h : includePart c f ts = .ok (inc, rest)) : ts = inc.1 ++ inc.2.flatten ++ rest := by
  unfold includePart at h
  split at h
  · simp at h; obtain ⟨rfl, rfl⟩ := h; simp [ParenIds.flatten, ParenIds.none, sepFlat]
  · rename_i k r hk
    obtain ⟨rfl, -⟩ := (eatKw_some_iff _ _ _ _).1 hk
    split at h
    · simp at h
    · rename_i lp r1 hl
      obtain ⟨rfl, -⟩ := eatSym_some hl
      split at h
      · simp at h
      · rename_i ids r2 hi
        have h1 := commaSepE_yield _ _ (fun t => [t]) identElem_yield _ _ _ _ hi
        split at h
        · simp at h
        · rename_i rp r3 hr
          obtain ⟨rfl, -⟩ := eatSym_some hr
          simp at h; obtain ⟨rfl, rfl⟩ := h
          simp [ParenIds.flatten, h1]

theorem nullsDistinct_yield (ts nl rest : List Tok) (h : nullsDistinct ts = .ok (nl, rest)) : ts = nl ++ rest := by
  unfold nullsDistinct at h
  split at h
  · simp at h; obtain ⟨rfl, rfl⟩ := h; simp
  · rename_i n r hn
    obtain ⟨rfl, -⟩ := (eatKw_some_iff _ _ _ _).1 hn
    have hk := kwTail_yield XK.NOT r
    split at h
    · simp at h
    · rename_i dk r1 hd
      obtain ⟨h1, -⟩ := (eatKw_some_iff _ _ _ _).1 hd
      simp at h; obtain ⟨rfl, rfl⟩ := h
      generalize kwTail XK.NOT r = A at *
      obtain ⟨a1, a2⟩ := A
      simp only at hk h1 ⊢
      subst hk h1
      simp

theorem indexTail_yield (c : XCfg) (f d : Nat) (ts : List Tok) (tl : IdxTail) (rest : List Tok)
    (h : indexTail c f d ts = .ok (tl, rest)) : ts = tl.flatten ++ rest := by
  unfold indexTail at h
  split at h
  · simp at h
  · rename_i inc r1 hi
    have h1 := includePart_yield _ _ _ _ _ hi
    split at h
    · simp at h
    · rename_i nl r2 hn
      have h2 := nullsDistinct_yield _ _ _ hn
      split at h
      · simp at h
      · split at h
        · simp at h
        · rename_i w r3 hw
          have h3 := kwExprPart_yield _ _ _ _ _ _ _ hw
          simp at h; obtain ⟨rfl, rfl⟩ := h
          simp [IdxTail.flatten, h1, h2, h3]

theorem parseCreateIndex_yield (c : XCfg) (f d : Nat) (kw : Tok) (temp ik ts : List Tok) (i : CreateIndex) (rest : List Tok)
    (h : parseCreateIndex c f d kw temp ik ts = .ok (i, rest)) : kw :: (temp ++ ik ++ ts) = i.flatten ++ rest := by
  unfold parseCreateIndex at h
  split at h
  · simp at h
  · rename_i hd r1 hh
    have h1 := indexHead_yield _ _ _ _ hh
    split at h
    · simp at h
    · rename_i cols r2 hc
      have h2 := commaSepE_yield _ _ OrderByExpr.flatten (orderByElem_yield c.d.q f d) _ _ _ _ hc
      split at h
      · simp at h
      · rename_i rp r3 hr
        obtain ⟨rfl, -⟩ := eatSym_some hr
        split at h
        · simp at h
        · rename_i tl r4 ht
          have h4 := indexTail_yield _ _ _ _ _ _ ht
          simp at h; obtain ⟨rfl, rfl⟩ := h
          simp [CreateIndex.flatten, h1, h2, h4]

-- ------------------------------------------------------------------ ALTER TABLE
theorem addIneTail_yield (c : XCfg) (ts : List Tok) : ts = (addIneTail c ts).1 ++ (addIneTail c ts).2 := by
  unfold addIneTail
  split
  · exact kwsTail_yield _ _
  · simp

theorem addOp_yield (c : XCfg) (f d : Nat) (k : Tok) (ts : List Tok) (op : AlterOp) (rest : List Tok)
    (h : addOp c f d k ts = .ok (op, rest)) : k :: ts = op.flatten ++ rest := by
  unfold addOp at h
  have h1 := kwsTail_yield ineKws ts
  have h2 := kwTail_yield XK.COLUMN (kwsTail ineKws ts).2
  have h3 := addIneTail_yield c (kwTail XK.COLUMN (kwsTail ineKws ts).2).2
  split at h
  · simp at h
  · split at h
    · simp at h
    · split at h
      · simp at h
      · split at h
        · simp at h
        · rename_i cd r hc
          have h4 := columnDef_yield _ _ _ _ _ _ hc
          split at h
          · simp at h
          · simp at h; obtain ⟨rfl, rfl⟩ := h
            simp only [AlterOp.flatten]
            generalize kwsTail ineKws ts = A at *
            obtain ⟨a1, a2⟩ := A
            generalize kwTail XK.COLUMN a2 = B at *
            obtain ⟨b1, b2⟩ := B
            generalize addIneTail c b2 = C at *
            obtain ⟨c1, c2⟩ := C
            simp only at h1 h2 h3 h4 ⊢
            subst h1 h2 h3 h4
            simp

theorem dropOp_yield (c : XCfg) (k : Tok) (ts : List Tok) (op : AlterOp) (rest : List Tok)
    (h : dropOp c k ts = .ok (op, rest)) : k :: ts = op.flatten ++ rest := by
  unfold dropOp at h
  have h1 := kwsTail_yield [XK.PRIMARY, XK.KEY] ts
  have h2 := kwTail_yield XK.PROJECTION (kwsTail [XK.PRIMARY, XK.KEY] ts).2
  have h3 := kwTail_yield XK.COLUMN (kwTail XK.PROJECTION (kwsTail [XK.PRIMARY, XK.KEY] ts).2).2
  have h4 := kwsTail_yield ieKws (kwTail XK.COLUMN (kwTail XK.PROJECTION (kwsTail [XK.PRIMARY, XK.KEY] ts).2).2).2
  split at h
  · simp at h
  · split at h
    · simp at h
    · split at h
      · simp at h
      · split at h
        · simp at h
        · rename_i name r hn
          have h5 := identElem_yield _ _ _ hn
          have h6 := kwTail_yield XK.CASCADE r
          simp at h; obtain ⟨rfl, rfl⟩ := h
          simp only [AlterOp.flatten]
          generalize kwsTail [XK.PRIMARY, XK.KEY] ts = A at *
          obtain ⟨a1, a2⟩ := A
          generalize kwTail XK.PROJECTION a2 = B at *
          obtain ⟨b1, b2⟩ := B
          generalize kwTail XK.COLUMN b2 = C at *
          obtain ⟨c1, c2⟩ := C
          generalize kwsTail ieKws c2 = D at *
          obtain ⟨d1, d2⟩ := D
          generalize kwTail XK.CASCADE r = E at *
          obtain ⟨e1, e2⟩ := E
          simp only at h1 h2 h3 h4 h5 h6 ⊢
          subst h1 h2 h3 h4 h5 h6
          simp

theorem renameColOp_yield (k : Tok) (ts : List Tok) (op : AlterOp) (rest : List Tok)
    (h : renameColOp k ts = .ok (op, rest)) : k :: ts = op.flatten ++ rest := by
  unfold renameColOp at h
  have h1 := kwTail_yield XK.COLUMN ts
  split at h
  · simp at h
  · rename_i old r ho
    have h2 := identElem_yield _ _ _ ho
    split at h
    · simp at h
    · rename_i toKw r1 ht
      obtain ⟨rfl, -⟩ := (eatKw_some_iff _ _ _ _).1 ht
      split at h
      · simp at h
      · rename_i new r2 hn
        have h3 := identElem_yield _ _ _ hn
        simp at h; obtain ⟨rfl, rfl⟩ := h
        simp only [AlterOp.flatten]
        generalize kwTail XK.COLUMN ts = A at *
        obtain ⟨a1, a2⟩ := A
        simp only at h1 h2 ⊢
        subst h1 h2 h3
        simp

theorem renameOp_yield (c : XCfg) (k : Tok) (ts : List Tok) (op : AlterOp) (rest : List Tok)
    (h : renameOp c k ts = .ok (op, rest)) : k :: ts = op.flatten ++ rest := by
  unfold renameOp at h
  split at h
  · simp at h
  · split at h
    · rename_i toKw r ht
      obtain ⟨rfl, -⟩ := (eatKw_some_iff _ _ _ _).1 ht
      split at h
      · simp at h
      · rename_i name r1 hn
        have h1 := nameElem_yield _ _ _ hn
        split at h
        · simp at h
        · simp at h; obtain ⟨rfl, rfl⟩ := h
          simp [AlterOp.flatten, h1]
    · exact renameColOp_yield _ _ _ _ h

theorem alterColTail_yield (c : XCfg) (f d : Nat) (ts : List Tok) (p : List Tok × AlterColOp) (rest : List Tok)
    (h : alterColTail c f d ts = .ok (p, rest)) : ts = p.1 ++ p.2.flatten ++ rest := by
  unfold alterColTail at h
  split at h
  · rename_i toks r hk
    have := eatKws_yield _ _ _ _ hk
    simp at h; obtain ⟨rfl, rfl⟩ := h; simp [AlterColOp.flatten, this]
  · split at h
    · rename_i toks r hk
      have := eatKws_yield _ _ _ _ hk
      simp at h; obtain ⟨rfl, rfl⟩ := h; simp [AlterColOp.flatten, this]
    · split at h
      · rename_i toks r hk
        have h0 := eatKws_yield _ _ _ _ hk
        split at h
        · simp at h
        · rename_i e r1 he
          have h1 := parseE_yield _ _ _ _ _ _ he
          simp at h; obtain ⟨rfl, rfl⟩ := h; simp [AlterColOp.flatten, h0, h1]
      · split at h
        · rename_i toks r hk
          have := eatKws_yield _ _ _ _ hk
          simp at h; obtain ⟨rfl, rfl⟩ := h; simp [AlterColOp.flatten, this]
        · split at h <;> simp at h

theorem alterColOp_yield (c : XCfg) (f d : Nat) (k : Tok) (ts : List Tok) (op : AlterOp) (rest : List Tok)
    (h : alterColOp c f d k ts = .ok (op, rest)) : k :: ts = op.flatten ++ rest := by
  unfold alterColOp at h
  have h1 := kwTail_yield XK.COLUMN ts
  split at h
  · simp at h
  · rename_i name r hn
    have h2 := identElem_yield _ _ _ hn
    split at h
    · simp at h
    · rename_i p r1 hp
      have h3 := alterColTail_yield _ _ _ _ _ _ hp
      simp at h; obtain ⟨rfl, rfl⟩ := h
      simp only [AlterOp.flatten]
      generalize kwTail XK.COLUMN ts = A at *
      obtain ⟨a1, a2⟩ := A
      simp only at h1 h2 ⊢
      subst h1 h2 h3
      simp

theorem alterOp_yield (c : XCfg) (f d : Nat) (ts : List Tok) (op : AlterOp) (rest : List Tok)
    (h : alterOp c f d ts = .ok (op, rest)) : ts = op.flatten ++ rest := by
  unfold alterOp at h
  split at h
  · rename_i k r hk
    obtain ⟨rfl, -⟩ := (eatKw_some_iff _ _ _ _).1 hk
    exact addOp_yield _ _ _ _ _ _ _ h
  · split at h
    · rename_i k r hk
      obtain ⟨rfl, -⟩ := (eatKw_some_iff _ _ _ _).1 hk
      exact renameOp_yield _ _ _ _ _ h
    · split at h
      · rename_i k r hk
        obtain ⟨rfl, -⟩ := (eatKw_some_iff _ _ _ _).1 hk
        exact dropOp_yield _ _ _ _ _ h
      · split at h
        · rename_i k r hk
          obtain ⟨rfl, -⟩ := (eatKw_some_iff _ _ _ _).1 hk
          exact alterColOp_yield _ _ _ _ _ _ _ h
        · split at h <;> simp at h

theorem parseAlter_yield (c : XCfg) (f d : Nat) (kw : Tok) (ts : List Tok) (a : AlterTable) (rest : List Tok)
    (h : parseAlter c f d kw ts = .ok (a, rest)) : kw :: ts = a.flatten ++ rest := by
  unfold parseAlter at h
  split at h
  · split at h <;> simp at h
  · rename_i tk r0 hk
    obtain ⟨rfl, -⟩ := (eatKw_some_iff _ _ _ _).1 hk
    have h1 := kwsTail_yield ieKws r0
    have h2 := kwTail_yield XK.ONLY (kwsTail ieKws r0).2
    split at h
    · simp at h
    · rename_i name r1 hn
      have h3 := nameElem_yield _ _ _ hn
      split at h
      · simp at h
      · split at h
        · simp at h
        · split at h
          · simp at h
          · rename_i ops r2 ho
            have h4 := commaSepE_yield _ _ AlterOp.flatten (alterOp_yield c f d) _ _ _ _ ho
            split at h
            · simp at h
            · simp at h; obtain ⟨rfl, rfl⟩ := h
              simp only [AlterTable.flatten]
              generalize kwsTail ieKws r0 = A at *
              obtain ⟨a1, a2⟩ := A
              generalize kwTail XK.ONLY a2 = B at *
              obtain ⟨b1, b2⟩ := B
              simp only at h1 h2 h3 ⊢
              subst h1 h2 h3 h4
              simp

-- ------------------------------------------------------------------ TRUNCATE, DROP
theorem truncIdentity_yield (c : XCfg) (ts : List Tok) : ts = (truncIdentity c ts).1 ++ (truncIdentity c ts).2 := by
  unfold truncIdentity
  split
  · split
    · rename_i p hp; exact eatKws_yield _ _ _ _ hp
    · exact kwsTail_yield _ _
  · simp

theorem truncCascade_yield (c : XCfg) (ts : List Tok) : ts = (truncCascade c ts).1 ++ (truncCascade c ts).2 := by
  unfold truncCascade
  split
  · split
    · rename_i t r hk; simp [((eatKw_some_iff _ _ _ _).1 hk).1]
    · exact kwTail_yield _ _
  · simp

theorem parseTruncate_yield (c : XCfg) (f : Nat) (kw : Tok) (ts : List Tok) (t : Truncate) (rest : List Tok)
    (h : parseTruncate c f kw ts = .ok (t, rest)) : kw :: ts = t.flatten ++ rest := by
  unfold parseTruncate at h
  have h1 := kwTail_yield XK.TABLE ts
  have h2 := kwTail_yield XK.ONLY (kwTail XK.TABLE ts).2
  split at h
  · simp at h
  · rename_i names r1 hn
    have h3 := commaSepE_names_yield _ _ _ _ _ hn
    have h4 := truncIdentity_yield c r1
    have h5 := truncCascade_yield c (truncIdentity c r1).2
    split at h
    · simp at h
    · split at h
      · simp at h
      · split at h
        · simp at h
        · simp at h; obtain ⟨rfl, rfl⟩ := h
          simp only [Truncate.flatten]
          generalize kwTail XK.TABLE ts = A at *
          obtain ⟨a1, a2⟩ := A
          generalize kwTail XK.ONLY a2 = B at *
          obtain ⟨b1, b2⟩ := B
          generalize truncIdentity c r1 = C at *
          obtain ⟨c1, c2⟩ := C
          generalize truncCascade c c2 = D at *
          obtain ⟨d1, d2⟩ := D
          simp only at h1 h2 h3 h4 h5 ⊢
          subst h1 h2 h3 h4 h5
          simp

theorem parseDropObj_yield (c : XCfg) (f : Nat) (kw kind : Tok) (ts : List Tok) (dr : Drop) (rest : List Tok)
    (h : parseDropObj c f kw kind ts = .ok (dr, rest)) : kw :: kind :: ts = dr.flatten ++ rest := by
  unfold parseDropObj at h
  have hi := kwsTail_yield ieKws ts
  split at h
  · simp at h
  · rename_i names r1 hn
    have h1 := commaSepE_names_yield _ _ _ _ _ hn
    have hc := kwTail_yield XK.CASCADE r1
    have hr := kwTail_yield XK.RESTRICT (kwTail XK.CASCADE r1).2
    have hp := kwTail_yield XK.PURGE (kwTail XK.RESTRICT (kwTail XK.CASCADE r1).2).2
    split at h
    · simp at h
    · split at h
      · simp at h
      · split at h
        · simp at h
        · simp at h; obtain ⟨rfl, rfl⟩ := h
          simp only [Drop.flatten]
          generalize kwsTail ieKws ts = I at *
          obtain ⟨i1, i2⟩ := I
          generalize kwTail XK.CASCADE r1 = A at *
          obtain ⟨a1, a2⟩ := A
          generalize kwTail XK.RESTRICT a2 = B at *
          obtain ⟨b1, b2⟩ := B
          generalize kwTail XK.PURGE b2 = P at *
          obtain ⟨p1, p2⟩ := P
          simp only at hi h1 hc hr hp ⊢
          subst hi h1 hc hr hp
          simp

-- ------------------------------------------------------------------ heads and statements
theorem dropHead_some {ts : List Tok} {kind : Tok} {r : List Tok} (h : dropHead ts = some (kind, r)) : ts = kind :: r := by
  unfold dropHead at h
  split at h
  · split at h
    · simp at h; obtain ⟨rfl, rfl⟩ := h; rfl
    · simp at h
  · simp at h

theorem indexKws_yield {ts ik r : List Tok} (h : indexKws ts = some (ik, r)) : ts = ik ++ r := by
  unfold indexKws at h
  split at h
  · rename_i t r' hk
    obtain ⟨rfl, -⟩ := (eatKw_some_iff _ _ _ _).1 hk
    simp at h; obtain ⟨rfl, rfl⟩ := h; rfl
  · exact eatKws_yield _ _ _ _ h

theorem createHeadTail_view {orRep ts o t r : List Tok} (h : createHeadTail orRep ts = .view o t r) :
    o = orRep ∧ ts = t ++ r := by
  unfold createHeadTail at h
  split at h
  · simp at h
  · split at h
    · simp at h; obtain ⟨rfl, rfl, rfl⟩ := h
      exact ⟨rfl, tempTail_yield ts⟩
    · split at h
      · simp at h
      · split at h <;> simp at h

theorem createHeadTail_index {orRep ts t ik r : List Tok} (h : createHeadTail orRep ts = .index t ik r) :
    orRep = [] ∧ ts = t ++ ik ++ r := by
  unfold createHeadTail at h
  split at h
  · simp at h
  · split at h
    · simp at h
    · split at h
      · simp at h
      · rename_i ho
        split at h
        · rename_i ik' r' hk
          simp at h; obtain ⟨rfl, rfl, rfl⟩ := h
          have h1 := tempTail_yield ts
          have h2 := indexKws_yield hk
          refine ⟨by simpa using ho, ?_⟩
          generalize tempTail ts = A at *
          obtain ⟨a1, a2⟩ := A
          simp only at h1 h2 ⊢
          subst h1 h2
          simp
        · simp at h

theorem createHead_view {ts o t r : List Tok} (h : createHead ts = .view o t r) : ts = o ++ t ++ r := by
  unfold createHead at h
  obtain ⟨rfl, h2⟩ := createHeadTail_view h
  have h1 := kwsTail_yield [XK.OR, XK.REPLACE] ts
  generalize kwsTail [XK.OR, XK.REPLACE] ts = A at *
  obtain ⟨a1, a2⟩ := A
  simp only at h1 h2 ⊢
  subst h1 h2
  simp

theorem createHead_index {ts t ik r : List Tok} (h : createHead ts = .index t ik r) : ts = t ++ ik ++ r := by
  unfold createHead at h
  obtain ⟨h0, h2⟩ := createHeadTail_index h
  have h1 := kwsTail_yield [XK.OR, XK.REPLACE] ts
  generalize kwsTail [XK.OR, XK.REPLACE] ts = A at *
  obtain ⟨a1, a2⟩ := A
  simp only at h0 h1 h2 ⊢
  subst h0 h1 h2
  simp

/-- **yield**: a successful statement parse consumes exactly the tokens of its tree -/
theorem parseStmt_yield (c : XCfg) (f limit : Nat) (ts : List Tok) (s : Stmt) (rest : List Tok)
    (h : parseStmt c f limit ts = .ok (s, rest)) : ts = s.flatten ++ rest := by
  unfold parseStmt at h
  cases limit with
  | zero => simp at h
  | succ d =>
    simp only at h
    cases ts with
    | nil => simp at h
    | cons t r =>
      simp only at h
      split at h
      · split at h
        · rename_i o tm r1 hh
          obtain ⟨v, hv, rfl⟩ := mapRes_ok h
          have := parseCreateView_yield _ _ _ _ _ _ _ _ _ hv
          rw [createHead_view hh]
          simpa [Stmt.flatten] using this
        · rename_i tm ik r1 hh
          obtain ⟨v, hv, rfl⟩ := mapRes_ok h
          have := parseCreateIndex_yield _ _ _ _ _ _ _ _ _ hv
          rw [createHead_index hh]
          simpa [Stmt.flatten] using this
        · obtain ⟨v, hv, rfl⟩ := mapRes_ok h
          simpa [Stmt.flatten] using SqlVerif.Dml.parseStmt_yield _ _ _ _ _ _ hv
      · split at h
        · obtain ⟨v, hv, rfl⟩ := mapRes_ok h
          simpa [Stmt.flatten] using parseAlter_yield _ _ _ _ _ _ _ hv
        · split at h
          · obtain ⟨v, hv, rfl⟩ := mapRes_ok h
            simpa [Stmt.flatten] using parseTruncate_yield _ _ _ _ _ _ hv
          · split at h
            · split at h
              · rename_i kind r1 hh
                obtain ⟨v, hv, rfl⟩ := mapRes_ok h
                rw [dropHead_some hh]
                simpa [Stmt.flatten] using parseDropObj_yield _ _ _ _ _ _ _ hv
              · obtain ⟨v, hv, rfl⟩ := mapRes_ok h
                simpa [Stmt.flatten] using SqlVerif.Dml.parseStmt_yield _ _ _ _ _ _ hv
            · obtain ⟨v, hv, rfl⟩ := mapRes_ok h
              simpa [Stmt.flatten] using SqlVerif.Dml.parseStmt_yield _ _ _ _ _ _ hv

end SqlVerif.Ddl

import SqlVerif.Model.Tokenizer
/-!
# Lemmas about the tokenizer model

Part A: everything the loop `tokLoop` guarantees, for an arbitrary token function `next` that
(1) leaves a proper suffix of its input and (2) returns `none` only on empty input (`NextOK`).
Part B: `nextToken env` has these two properties, for every `env`.
Part C: when a token determines its source text (`Token.text`), the consumed slice is that text.
-/
namespace SqlVerif.Tok
open SqlVerif.Scan

/-! ## Part A — the loop -/

/-- the two facts about the token function on which all loop theorems rest -/
structure NextOK {T : Type} (next : List Nat → Except LexErr (Option (T × List Nat))) : Prop where
  progress : ∀ s t rest, next s = .ok (some (t, rest)) → ∃ pre, pre ≠ [] ∧ s = pre ++ rest
  eof : ∀ s, next s = .ok none → s = []

theorem consumed_append (pre rest : List Nat) : consumed (pre ++ rest) rest = pre := by
  simp [consumed]

/-- projections of a loop entry -/
abbrev Entry (T : Type) := T × Loc × List Nat
def Entry.tok {T} (x : Entry T) : T := x.1
def Entry.loc {T} (x : Entry T) : Loc := x.2.1
def Entry.slice {T} (x : Entry T) : List Nat := x.2.2

/-- concatenation of the consumed slices -/
def slices {T} (ts : List (Entry T)) : List Nat := (ts.map Entry.slice).flatten

@[simp] theorem slices_nil {T} : slices ([] : List (Entry T)) = [] := rfl
@[simp] theorem slices_cons {T} (x : Entry T) (xs : List (Entry T)) :
    slices (x :: xs) = x.slice ++ slices xs := by simp [slices]
@[simp] theorem slices_append {T} (a b : List (Entry T)) : slices (a ++ b) = slices a ++ slices b := by
  simp [slices]

/-- every entry carries the location reached by running `State::next` over all slices before it -/
def LocChain {T} : Loc → List (Entry T) → Prop
  | _, [] => True
  | l, x :: xs => x.loc = l ∧ LocChain (advance l x.slice) xs

/-- one unfolding of the loop on a successful step -/
theorem tokLoop_step {T} {next : List Nat → Except LexErr (Option (T × List Nat))} (h : NextOK next)
    {fuel : Nat} {s : List Nat} {loc : Loc} {ts : List (Entry T)}
    (e : tokLoop next (fuel + 1) s loc = .ok ts) :
    (s = [] ∧ ts = []) ∨
    ∃ t pre rest ts', pre ≠ [] ∧ s = pre ++ rest ∧ next s = .ok (some (t, rest)) ∧
      tokLoop next fuel rest (advance loc pre) = .ok ts' ∧ ts = (t, loc, pre) :: ts' := by
  simp only [tokLoop] at e
  split at e
  · simp at e
  · rename_i hn
    left
    exact ⟨h.eof _ hn, by simpa using e.symm⟩
  · rename_i t rest hn
    right
    obtain ⟨pre, hne, hs⟩ := h.progress _ _ _ hn
    subst hs
    rw [consumed_append] at e
    split at e
    · simp at e
    · rename_i ts' hrec
      refine ⟨t, pre, rest, ts', hne, rfl, hn, hrec, ?_⟩
      simpa using e.symm

/-- the invariant of the loop: slices tile the input, are non-empty, and locations chain -/
theorem tokLoop_inv {T} {next : List Nat → Except LexErr (Option (T × List Nat))} (h : NextOK next) :
    ∀ (fuel : Nat) (s : List Nat) (loc : Loc) (ts : List (Entry T)),
      tokLoop next fuel s loc = .ok ts →
      slices ts = s ∧ (∀ x ∈ ts, x.slice ≠ []) ∧ LocChain loc ts := by
  intro fuel
  induction fuel with
  | zero => intro s loc ts e; simp [tokLoop] at e
  | succ n ih =>
    intro s loc ts e
    rcases tokLoop_step h e with ⟨hs, ht⟩ | ⟨t, pre, rest, ts', hne, hs, _, hrec, ht⟩
    · subst hs ht; simp [LocChain]
    · subst hs ht
      obtain ⟨h1, h2, h3⟩ := ih _ _ _ hrec
      refine ⟨by simp [Entry.slice, h1], ?_, ?_⟩
      · intro x hx
        rcases List.mem_cons.1 hx with rfl | hx
        · exact hne
        · exact h2 x hx
      · exact ⟨rfl, h3⟩

/-- with fuel above the input length the loop never runs out of fuel -/
theorem tokLoop_fuel_ok {T} {next : List Nat → Except LexErr (Option (T × List Nat))} (h : NextOK next) :
    ∀ (fuel : Nat) (s : List Nat) (loc : Loc), s.length < fuel →
      tokLoop next fuel s loc ≠ .error .fuel := by
  intro fuel
  induction fuel with
  | zero => intro s loc hl; omega
  | succ n ih =>
    intro s loc hl
    simp only [tokLoop]
    split
    · rename_i e _; cases e <;> simp [LexErr.locate]
    · simp
    · rename_i t rest hn
      obtain ⟨pre, hne, hs⟩ := h.progress _ _ _ hn
      have hlen : rest.length < n := by
        subst hs
        have : 0 < pre.length := List.length_pos_iff.2 hne
        simp at hl; omega
      have := ih rest (advance loc (consumed s rest)) hlen
      split
      · rename_i e he; intro hc; simp at hc; subst hc; exact this he
      · simp

/-- tokens and slices, without locations -/
def untimed {T} (ts : List (Entry T)) : List (T × List Nat) := ts.map fun x => (x.tok, x.slice)

/-- neither the starting location nor the amount of (sufficient) fuel influences tokens or slices -/
theorem tokLoop_loc_irrel {T} {next : List Nat → Except LexErr (Option (T × List Nat))} (h : NextOK next) :
    ∀ (fuel : Nat) (s : List Nat) (loc : Loc) (ts : List (Entry T)),
      tokLoop next fuel s loc = .ok ts →
      ∀ (fuel' : Nat) (loc' : Loc), s.length < fuel' →
        ∃ ts', tokLoop next fuel' s loc' = .ok ts' ∧ untimed ts' = untimed ts := by
  intro fuel
  induction fuel with
  | zero => intro s loc ts e; simp [tokLoop] at e
  | succ n ih =>
    intro s loc ts e fuel' loc' hl
    rcases tokLoop_step h e with ⟨hs, ht⟩ | ⟨t, pre, rest, ts', hne, hs, hn, hrec, ht⟩
    · subst hs ht
      cases fuel' with
      | zero => omega
      | succ m =>
        have : next [] = .ok none := by
          cases hx : next [] with
          | error e' => simp [tokLoop, hx] at e
          | ok o =>
            cases o with
            | none => rfl
            | some p =>
              obtain ⟨pre, hne, hs⟩ := h.progress [] p.1 p.2 (by rw [hx])
              have hl := congrArg List.length hs
              simp at hl
              exact absurd (List.eq_nil_of_length_eq_zero (by omega)) hne
        exact ⟨[], by simp [tokLoop, this], rfl⟩
    · subst ht
      cases fuel' with
      | zero => omega
      | succ m =>
        have hlen : rest.length < m := by
          subst hs
          have : 0 < pre.length := List.length_pos_iff.2 hne
          simp at hl; omega
        obtain ⟨ts2, h2, hu⟩ := ih _ _ _ hrec m (advance loc' pre) hlen
        refine ⟨(t, loc', pre) :: ts2, ?_, ?_⟩
        · subst hs
          simp only [tokLoop, hn, consumed_append, h2]
        · simp only [untimed, List.map_cons] at hu ⊢
          rw [hu]; rfl

/-- restarting the loop at a token boundary yields the remaining entries -/
theorem tokLoop_suffix {T} {next : List Nat → Except LexErr (Option (T × List Nat))} (h : NextOK next) :
    ∀ (pre : List (Entry T)) (fuel : Nat) (s : List Nat) (loc : Loc) (post : List (Entry T)),
      tokLoop next fuel s loc = .ok (pre ++ post) →
      ∃ fuel' loc', tokLoop next fuel' (slices post) loc' = .ok post := by
  intro pre
  induction pre with
  | nil =>
    intro fuel s loc post e
    have := (tokLoop_inv h _ _ _ _ e).1
    simp at this
    exact ⟨fuel, loc, by rw [this]; simpa using e⟩
  | cons x pre ih =>
    intro fuel s loc post e
    cases fuel with
    | zero => simp [tokLoop] at e
    | succ n =>
      rcases tokLoop_step h e with ⟨_, ht⟩ | ⟨t, p, rest, ts', _, _, _, hrec, ht⟩
      · simp at ht
      · simp only [List.cons_append, List.cons.injEq] at ht
        rw [← ht.2] at hrec
        exact ih _ _ _ _ hrec

/-- every entry records one successful call of the token function: its token, and as slice the
prefix that call consumed -/
theorem tokLoop_entries {T} {next : List Nat → Except LexErr (Option (T × List Nat))} (h : NextOK next) :
    ∀ (fuel : Nat) (s : List Nat) (loc : Loc) (ts : List (Entry T)),
      tokLoop next fuel s loc = .ok ts →
      ∀ x ∈ ts, ∃ rest, next (x.slice ++ rest) = .ok (some (x.tok, rest)) := by
  intro fuel
  induction fuel with
  | zero => intro s loc ts e; simp [tokLoop] at e
  | succ n ih =>
    intro s loc ts e x hx
    rcases tokLoop_step h e with ⟨_, ht⟩ | ⟨t, pre, rest, ts', _, hs, hn, hrec, ht⟩
    · subst ht; simp at hx
    · subst ht
      rcases List.mem_cons.1 hx with rfl | hx
      · exact ⟨rest, by show next (pre ++ rest) = _; rw [← hs]; exact hn⟩
      · exact ih _ _ _ hrec x hx

/-! ### locations -/

/-- the position computed from the text before a token only -/
def locOf (p : List Nat) : Loc :=
  ⟨1 + p.count 10, 1 + (p.reverse.takeWhile (fun c => c != 10)).length⟩

theorem advance_append (l : Loc) (a b : List Nat) : advance l (a ++ b) = advance (advance l a) b := by
  simp [advance, List.foldl_append]

theorem advance_start_rev : ∀ r : List Nat,
    advance ⟨1, 1⟩ r.reverse = ⟨1 + r.count 10, 1 + (r.takeWhile (fun c => c != 10)).length⟩
  | [] => rfl
  | c :: r => by
    rw [List.reverse_cons, advance_append, advance_start_rev r]
    by_cases hc : c = 10
    · subst hc; simp [advance, stepLoc]; omega
    · simp [advance, stepLoc, hc]; omega

/-- `State::next` run from `(1,1)` over a prefix = newline count and distance to the last newline -/
theorem advance_start (p : List Nat) : advance ⟨1, 1⟩ p = locOf p := by
  have := advance_start_rev p.reverse
  simpa [locOf, List.count_reverse] using this

/-- lexicographic order on locations -/
def Loc.lt (a b : Loc) : Prop := a.line < b.line ∨ (a.line = b.line ∧ a.col < b.col)
def Loc.le (a b : Loc) : Prop := Loc.lt a b ∨ a = b

theorem Loc.lt_trans {a b c : Loc} (h1 : Loc.lt a b) (h2 : Loc.lt b c) : Loc.lt a c := by
  unfold Loc.lt at *; omega

theorem Loc.lt_of_lt_of_le {a b c : Loc} (h1 : Loc.lt a b) (h2 : Loc.le b c) : Loc.lt a c := by
  rcases h2 with h2 | rfl
  · exact Loc.lt_trans h1 h2
  · exact h1

theorem stepLoc_lt (l : Loc) (c : Nat) : Loc.lt l (stepLoc l c) := by
  unfold stepLoc Loc.lt; split <;> simp

theorem advance_le : ∀ (p : List Nat) (l : Loc), Loc.le l (advance l p)
  | [], l => Or.inr rfl
  | c :: p, l => by
    have h1 := stepLoc_lt l c
    have h2 := advance_le p (stepLoc l c)
    exact Or.inl (Loc.lt_of_lt_of_le h1 h2)

theorem advance_lt : ∀ (p : List Nat) (l : Loc), p ≠ [] → Loc.lt l (advance l p)
  | [], _, h => absurd rfl h
  | c :: p, l, _ => Loc.lt_of_lt_of_le (stepLoc_lt l c) (advance_le p (stepLoc l c))

theorem locChain_index {T} : ∀ (pre : List (Entry T)) (l : Loc) (x : Entry T) (post : List (Entry T)),
    LocChain l (pre ++ x :: post) → x.loc = advance l (slices pre)
  | [], l, x, post, h => by simpa [advance] using h.1
  | y :: pre, l, x, post, h => by
    have := locChain_index pre _ x post h.2
    rw [this, slices_cons, advance_append]

theorem locChain_ge {T} : ∀ (ts : List (Entry T)) (l : Loc), LocChain l ts →
    ∀ x ∈ ts, Loc.le l x.loc
  | [], _, _, x, hx => by simp at hx
  | y :: ts, l, h, x, hx => by
    rcases List.mem_cons.1 hx with rfl | hx
    · exact Or.inr h.1.symm
    · have h1 := locChain_ge ts _ h.2 x hx
      have h2 := advance_le y.slice l
      rcases h2 with h2 | h2
      · exact Or.inl (Loc.lt_of_lt_of_le h2 h1)
      · rw [← h2] at h1; exact h1

theorem locChain_pairwise {T} : ∀ (ts : List (Entry T)) (l : Loc), LocChain l ts →
    (∀ x ∈ ts, x.slice ≠ []) → ts.Pairwise (fun a b => Loc.lt a.loc b.loc)
  | [], _, _, _ => List.Pairwise.nil
  | y :: ts, l, h, hne => by
    refine List.pairwise_cons.2 ⟨?_, locChain_pairwise ts _ h.2 (fun x hx => hne x (List.mem_cons_of_mem _ hx))⟩
    intro x hx
    have h1 := locChain_ge ts _ h.2 x hx
    have h2 := advance_lt y.slice l (hne y (List.mem_cons_self ..))
    rw [h.1]
    exact Loc.lt_of_lt_of_le h2 h1

theorem length_le_of_nonempty_slices {T} : ∀ (ts : List (Entry T)), (∀ x ∈ ts, x.slice ≠ []) →
    ts.length ≤ (slices ts).length
  | [], _ => by simp
  | y :: ts, h => by
    have h1 := length_le_of_nonempty_slices ts (fun x hx => h x (List.mem_cons_of_mem _ hx))
    have h2 : 0 < y.slice.length := List.length_pos_iff.2 (h y (List.mem_cons_self ..))
    simp; omega

/-! ## Part B — `nextToken` leaves a proper suffix -/

theorem suf_cons {r s : List Nat} (c : Nat) (h : r <:+ s) : r <:+ c :: s :=
  h.trans (List.suffix_cons c s)

/-- closes goals `r <:+ c₁ :: … :: cₙ :: s` from a hypothesis `r <:+ s` or by reflexivity -/
macro "suff_tac" : tactic =>
  `(tactic| (repeat (first | assumption | exact List.suffix_refl _ | exact List.nil_suffix | apply suf_cons)))

/-- result of an `Option`-valued scanner leaves a suffix -/
def SufO (o : Option (List Nat × List Nat)) (s : List Nat) : Prop :=
  ∀ p r, o = some (p, r) → r <:+ s

theorem sufO_none (s) : SufO none s ↔ True := by simp [SufO]
theorem sufO_some (p r s) : SufO (some (p, r)) s ↔ r <:+ s := by
  simp only [SufO]
  constructor
  · intro h; exact h p r rfl
  · intro h p' r' e; simp at e; rw [← e.2]; exact h
theorem sufO_push (p o s) : SufO (push p o) s ↔ SufO o s := by
  cases o with
  | none => simp [Scan.push]
  | some x => obtain ⟨a, b⟩ := x; simp [Scan.push, sufO_some]

theorem SufO.mono {o s s'} (h : SufO o s) (hs : s <:+ s') : SufO o s' :=
  fun p r e => (h p r e).trans hs

macro "sufo_tac" : tactic =>
  `(tactic| ((try simp only [sufO_none, sufO_some, sufO_push]); try first
    | suff_tac; done
    | exact SufO.mono (by assumption) (by suff_tac)))

theorem quotedBody_suf (q : Nat) (bs un : Bool) : ∀ s, SufO (quotedBody q bs un s) s := by
  intro s
  fun_induction quotedBody q bs un s <;> sufo_tac

theorem tripleBody_suf (q : Nat) (bs un : Bool) : ∀ n s, SufO (tripleBody q bs un n s) s := by
  intro n s
  fun_induction tripleBody q bs un n s <;> sufo_tac

theorem quotedIdentBody_suf (q : Nat) (un : Bool) : ∀ s, SufO (quotedIdentBody q un s) s := by
  intro s
  fun_induction quotedIdentBody q un s <;> sufo_tac

theorem escapedBody_suf : ∀ k s, SufO (escapedBody k s) s := by
  intro k s
  fun_induction escapedBody k s <;> sufo_tac

theorem dollarUntaggedBody_suf : ∀ k s, SufO (dollarUntaggedBody k s) s := by
  intro k s
  fun_induction dollarUntaggedBody k s <;> sufo_tac

theorem multiLineBody_suf : ∀ a b s, SufO (multiLineBody a b s) s := by
  intro a b s
  fun_induction multiLineBody a b s <;> sufo_tac

/-! ### `Except`-valued scanners and token branches -/

/-- the input left by a successful result is a suffix of `s` -/
def SufE {ε α : Type} (o : Except ε (α × List Nat)) (s : List Nat) : Prop :=
  ∀ p r, o = .ok (p, r) → r <:+ s

theorem sufE_error {ε α : Type} (e : ε) (s) : SufE (.error e : Except ε (α × List Nat)) s ↔ True := by
  simp [SufE]
theorem sufE_ok {ε α : Type} (p : α) (r s) : SufE (.ok (p, r) : Except ε (α × List Nat)) s ↔ r <:+ s := by
  simp only [SufE]
  constructor
  · intro h; exact h p r rfl
  · intro h p' r' e; simp at e; rw [← e.2]; exact h
theorem sufE_pushE (p o s) : SufE (pushE p o) s ↔ SufE o s := by
  cases o with
  | error e => simp [Scan.pushE, sufE_error]
  | ok x => obtain ⟨a, b⟩ := x; simp [Scan.pushE, sufE_ok]

theorem SufE.mono {ε α : Type} {o : Except ε (α × List Nat)} {s s'} (h : SufE o s) (hs : s <:+ s') :
    SufE o s' :=
  fun p r e => (h p r e).trans hs

theorem sufE_ofScan (f : List Nat → Token) (x s) : SufE (ofScan f x) s ↔ SufE x s := by
  cases x with
  | error e => simp [ofScan, sufE_error]
  | ok y => obtain ⟨a, b⟩ := y; simp [ofScan, sufE_ok]

theorem SufO.toE {o : Option (List Nat × List Nat)} {s} (h : SufO o s) {ε : Type} (e : ε) :
    SufE (match o with | none => .error e | some r => .ok r) s := by
  cases o with
  | none => simp [sufE_error]
  | some x => obtain ⟨a, b⟩ := x; simp only [sufE_ok]; exact h a b rfl

macro "sufe_core" : tactic =>
  `(tactic| ((try simp only [sufE_error, sufE_ok, sufE_pushE]); try first
    | suff_tac; done
    | exact SufE.mono (by assumption) (by suff_tac)))

macro "sufe_tac" : tactic =>
  `(tactic| ((try subst_vars); first
    | sufe_core; done
    | (simp only [*]; sufe_core; done)
    | (split <;> sufe_core)))

theorem sufE_ite {ε α : Type} (c : Prop) [Decidable c] (a b : Except ε (α × List Nat)) (s) :
    SufE (if c then a else b) s ↔ (c → SufE a s) ∧ (¬ c → SufE b s) := by
  by_cases h : c <;> simp [h]

theorem takeHexDigits_suf : ∀ n acc s, SufE (takeHexDigits n acc s) s := by
  intro n acc s
  fun_induction takeHexDigits n acc s <;> sufe_tac

theorem unicodeBody_suf : ∀ k s, SufE (unicodeBody k s) s := by
  intro k s
  fun_induction unicodeBody k s <;> sufe_tac

theorem scanUnicode_suf (s) : SufE (scanUnicode s) s := by
  cases s with
  | nil => exact unicodeBody_suf 0 []
  | cons c cs => exact (unicodeBody_suf 0 cs).mono (List.suffix_cons ..)

theorem dollarTaggedBody_suf (tag) : ∀ m s, SufE (dollarTaggedBody tag m s) s := by
  intro m s
  fun_induction dollarTaggedBody tag m s <;> sufe_tac

theorem consumeOpening_suf (q) : ∀ n s b, consumeOpening q n s = some b → b <:+ s := by
  intro n s
  fun_induction consumeOpening q n s <;> intro b e
  · simp at e; rw [← e]; exact List.suffix_refl _
  · simp at e
  · rename_i ih; exact suf_cons _ (ih b e)
  · simp at e

theorem scanQuoted_suf (q triple n bs un s) : SufE (scanQuoted q triple n bs un s) s := by
  unfold scanQuoted
  split
  · simp [sufE_error]
  · rename_i body hb
    have h1 := consumeOpening_suf q n s body hb
    split
    · split
      · simp [sufE_error]
      · rename_i p r hr
        simp only [sufE_ok]
        exact (tripleBody_suf q bs un 0 body p r hr).trans h1
    · split
      · simp [sufE_error]
      · rename_i x hr
        obtain ⟨p, r⟩ := x
        simp only [sufE_ok]
        exact (quotedBody_suf q bs un body p r hr).trans h1

/-- with the opening quote in front, what is left is a suffix of the text after that quote -/
theorem scanSingleQuoted_suf (q bs un cs) : SufE (scanSingleQuoted q bs un (q :: cs)) cs := by
  simp only [scanSingleQuoted, scanQuoted, consumeOpening, ↓reduceIte, Bool.false_eq_true]
  cases hq : quotedBody q bs un cs with
  | none => simp [sufE_error]
  | some x =>
    obtain ⟨p, r⟩ := x
    simp only [sufE_ok]
    exact quotedBody_suf q bs un cs p r hq

theorem countOpening_suf (q) : ∀ n s, (countOpening q n s).2 <:+ s := by
  intro n s
  fun_induction countOpening q n s
  · exact List.suffix_refl _
  · exact List.suffix_refl _
  · rename_i ih; simp_all; exact suf_cons _ ih
  · exact List.suffix_refl _

theorem countOpening_head (q n cs) :
    countOpening q (n + 1) (q :: cs) = ((countOpening q n cs).1 + 1, (countOpening q n cs).2) := by
  simp [countOpening]

/-- `scanSingleOrTriple` leaves a suffix of what `countOpening` left -/
theorem scanSingleOrTriple_suf (q bs un s) : ∀ b p r, scanSingleOrTriple q bs un s = .ok (b, p, r) →
    r <:+ (countOpening q 3 s).2 := by
  intro b p r e
  unfold scanSingleOrTriple at e
  split at e
  · rename_i r0 hc
    rw [hc]
    split at e
    · simp at e
    · rename_i p' r' hs
      simp at e; rw [← e.2.2]
      exact scanQuoted_suf q false 0 bs un r0 p' r' hs
  · rename_i r0 hc
    rw [hc]; simp at e; rw [← e.2.2]; exact List.suffix_refl _
  · rename_i r0 hc
    rw [hc]
    split at e
    · simp at e
    · rename_i p' r' hs
      simp at e; rw [← e.2.2]
      exact scanQuoted_suf q true 0 bs un r0 p' r' hs
  · simp at e

theorem singleOrTriple_suf (env q bs f g s) : SufE (singleOrTriple env q bs f g s) (countOpening q 3 s).2 := by
  intro t r e
  unfold singleOrTriple at e
  split at e
  · simp at e
  · rename_i p r' h; simp at e; rw [← e.2]; exact scanSingleOrTriple_suf _ _ _ _ _ _ _ h
  · rename_i p r' h; simp at e; rw [← e.2]; exact scanSingleOrTriple_suf _ _ _ _ _ _ _ h

/-- strict form: the opening quote is at the head -/
theorem singleOrTriple_suf_cons (env q bs f g cs) : SufE (singleOrTriple env q bs f g (q :: cs)) cs := by
  have := singleOrTriple_suf env q bs f g (q :: cs)
  rw [countOpening_head] at this
  exact this.mono (countOpening_suf q 2 cs)

theorem scanMultiLineComment_suf (s) : SufE (scanMultiLineComment s) s := by
  unfold scanMultiLineComment
  split
  · simp [sufE_error]
  · rename_i p r h; simp only [sufE_ok]; exact multiLineBody_suf 32 1 s p r h

theorem singleLineComment_suf (s) : (singleLineComment s).2 <:+ s := by
  unfold singleLineComment
  split
  · exact List.nil_suffix
  · rename_i c r h
    have := List.dropWhile_suffix (l := s) (fun c => c != 10)
    rw [h] at this
    exact (List.suffix_cons c r).trans this

/-! ### branches of `next_token`: conditional rewrite rules `… = True` for `simp (disch := suff_tac)` -/

theorem T_intro {P : Prop} (h : P) : P ↔ True := ⟨fun _ => trivial, fun _ => h⟩

theorem tokenizeWord_suf (env first cs) : (tokenizeWord env first cs).2 <:+ cs :=
  List.dropWhile_suffix _

theorem wordFrom_suf (env first cs s) (h : cs <:+ s) : SufE (wordFrom env first cs) s ↔ True := by
  apply T_intro
  simp only [wordFrom, sufE_ok]
  exact (tokenizeWord_suf ..).trans h

theorem identOrKeyword_suf (env first cs s) (h : cs <:+ s) : SufE (identOrKeyword env first cs) s ↔ True := by
  apply T_intro
  simp only [identOrKeyword, sufE_ite, sufE_ok]
  exact ⟨fun _ => ((List.dropWhile_suffix _).trans (tokenizeWord_suf ..)).trans h,
    fun _ => (tokenizeWord_suf ..).trans h⟩

theorem binop_suf (env pfx d cs s) (h : cs <:+ s) : SufE (binop env pfx d cs) s ↔ True := by
  apply T_intro
  simp only [binop, startBinop, sufE_ok]
  exact (List.dropWhile_suffix _).trans h

theorem lineComment_suf (pfx cs s) (h : cs <:+ s) : SufE (lineComment pfx cs) s ↔ True := by
  apply T_intro
  simp only [lineComment, sufE_ok]
  exact (singleLineComment_suf cs).trans h

theorem lexMultiLineComment_suf (cs s) (h : cs <:+ s) : SufE (lexMultiLineComment cs) s ↔ True := by
  apply T_intro
  simp only [lexMultiLineComment, sufE_ofScan]
  exact (scanMultiLineComment_suf cs).mono h

theorem res_ok_suf (t : Token) (r s : List Nat) (h : r <:+ s) : SufE (.ok (t, r) : Res) s ↔ True :=
  T_intro ((sufE_ok ..).2 h)

theorem res_err_suf (e : LexErr) (s : List Nat) : SufE (.error e : Res) s ↔ True :=
  sufE_error ..

/-- split every `match`/`if` of an unfolded branch function and close the leaves -/
macro "lex_tac" : tactic =>
  `(tactic| (repeat' split) <;>
      simp (disch := suff_tac) only [res_ok_suf, res_err_suf, wordFrom_suf, identOrKeyword_suf, binop_suf,
        lineComment_suf, lexMultiLineComment_suf])

theorem lexMinus_suf (env cs) : SufE (lexMinus env cs) cs := by unfold lexMinus; lex_tac
theorem lexSlash_suf (env cs) : SufE (lexSlash env cs) cs := by unfold lexSlash; lex_tac
theorem lexPercent_suf (env cs) : SufE (lexPercent env cs) cs := by unfold lexPercent; lex_tac
theorem lexPipe_suf (env cs) : SufE (lexPipe env cs) cs := by unfold lexPipe; lex_tac
theorem lexEq_suf (cs) : SufE (lexEq cs) cs := by unfold lexEq; lex_tac
theorem lexBang_suf (cs) : SufE (lexBang cs) cs := by unfold lexBang; lex_tac
theorem lexLt_suf (env cs) : SufE (lexLt env cs) cs := by unfold lexLt; lex_tac
theorem lexGt_suf (env cs) : SufE (lexGt env cs) cs := by unfold lexGt; lex_tac
theorem lexColon_suf (cs) : SufE (lexColon cs) cs := by unfold lexColon; lex_tac
theorem lexAmp_suf (env cs) : SufE (lexAmp env cs) cs := by unfold lexAmp; lex_tac
theorem lexCaret_suf (cs) : SufE (lexCaret cs) cs := by unfold lexCaret; lex_tac
theorem lexTilde_suf (env cs) : SufE (lexTilde env cs) cs := by unfold lexTilde; lex_tac
theorem lexSharp_suf (env cs) : SufE (lexSharp env cs) cs := by unfold lexSharp; lex_tac
theorem lexAt_suf (env cs) : SufE (lexAt env cs) cs := by unfold lexAt; lex_tac
theorem lexQuestionPg_suf (cs) : SufE (lexQuestionPg cs) cs := by unfold lexQuestionPg; lex_tac
theorem lexQuestion_suf (env cs) : SufE (lexQuestion env cs) cs := by
  simp only [lexQuestion, sufE_ok]; exact List.dropWhile_suffix _

theorem sufT {ε α : Type} {o : Except ε (α × List Nat)} {cs s} (h0 : SufE o cs) (h : cs <:+ s) :
    SufE o s ↔ True := T_intro (h0.mono h)

theorem singleOrTriple_sufT (env q bs f g s' s) (h : s' <:+ s) :
    SufE (singleOrTriple env q bs f g s') s ↔ True :=
  sufT (singleOrTriple_suf env q bs f g s') ((countOpening_suf q 3 s').trans h)

theorem ofScan_singleQuoted_sufT (f q bs un s' s) (h : s' <:+ s) :
    SufE (ofScan f (scanSingleQuoted q bs un s')) s ↔ True :=
  sufT ((sufE_ofScan ..).2 (scanQuoted_suf q false 1 bs un s')) h

theorem ofScan_scanUnicode_sufT (f s' s) (h : s' <:+ s) : SufE (ofScan f (scanUnicode s')) s ↔ True :=
  sufT ((sufE_ofScan ..).2 (scanUnicode_suf s')) h

macro "lex_tac2" : tactic =>
  `(tactic| (repeat' split) <;>
      simp (disch := suff_tac) only [res_ok_suf, res_err_suf, wordFrom_suf, identOrKeyword_suf, binop_suf,
        lineComment_suf, lexMultiLineComment_suf, singleOrTriple_sufT, ofScan_singleQuoted_sufT,
        ofScan_scanUnicode_sufT])

theorem lexByte_suf (env b cs) : SufE (lexByte env b cs) cs := by unfold lexByte; lex_tac2
theorem lexRaw_suf (env b cs) : SufE (lexRaw env b cs) cs := by unfold lexRaw; lex_tac2
theorem lexPrefixed_suf (env f c cs) : SufE (lexPrefixed env f c cs) cs := by unfold lexPrefixed; lex_tac2
theorem lexUnicode_suf (env c cs) : SufE (lexUnicode env c cs) cs := by unfold lexUnicode; lex_tac2

theorem scanEscaped_suf (s) : SufO (scanEscaped s) s := by
  cases s with
  | nil => simp [scanEscaped, sufO_none]
  | cons c cs => exact (escapedBody_suf 0 cs).mono (List.suffix_cons ..)

theorem lexEscaped_suf (env c cs) : SufE (lexEscaped env c cs) cs := by
  unfold lexEscaped
  split
  · split
    · rename_i p r h; simp only [sufE_ok]; exact scanEscaped_suf _ p r h
    · simp only [sufE_error]
  · simp (disch := suff_tac) only [wordFrom_suf]

/-- strict: the quote at the head is consumed -/
theorem lexQuote_suf_cons (env q f g cs) : SufE (lexQuote env q f g (q :: cs)) cs := by
  unfold lexQuote
  dsimp only
  split
  · exact singleOrTriple_suf_cons _ _ _ _ _ _
  · exact (sufE_ofScan _ _ _).2 (scanSingleQuoted_suf _ _ _ _)

theorem lexQuotedIdent_suf (env c cs) : SufE (lexQuotedIdent env c cs) cs := by
  unfold lexQuotedIdent
  split
  · simp only [sufE_error]
  · split
    · rename_i p r h; simp only [sufE_ok]; exact quotedIdentBody_suf _ _ _ p r h
    · simp only [sufE_error]

theorem scanExponent_suf (s3 r3) : (scanExponent s3 r3).2.2 <:+ r3 := by
  unfold scanExponent
  split
  · exact List.suffix_refl _
  · rename_i e r
    split
    · dsimp only
      generalize hr : List.drop _ r = r'
      have hd : r' <:+ e :: r := by
        rw [← hr]; exact (List.drop_suffix _ _).trans (List.suffix_cons _ _)
      split
      · split
        · exact (List.dropWhile_suffix _).trans hd
        · exact List.suffix_refl _
      · exact List.suffix_refl _
    · exact List.suffix_refl _

theorem lexNumberTail_suf (env s2 r2) : SufE (lexNumberTail env s2 r2) r2 := by
  unfold lexNumberTail
  have h3 : r2.dropWhile isAsciiDigit <:+ r2 := List.dropWhile_suffix _
  have h4 := scanExponent_suf (s2 ++ r2.takeWhile isAsciiDigit) (r2.dropWhile isAsciiDigit)
  simp only [sufE_ite, sufE_ok]
  refine ⟨fun _ => h3, fun _ => ⟨fun _ => ((List.dropWhile_suffix _).trans h4).trans h3, fun _ => ?_⟩⟩
  split
  · rename_i r5 h5
    simp only [sufE_ok]
    rw [h5] at h4
    exact ((List.suffix_cons ..).trans h4).trans h3
  · simp only [sufE_ok]; exact h4.trans h3

/-- what `lexNumber` certainly consumes: the leading digits and one period -/
def dotTail : List Nat → List Nat
  | 46 :: r => r
  | r => r

theorem dotTail_suf (r) : dotTail r <:+ r := by
  unfold dotTail; split
  · exact List.suffix_cons ..
  · exact List.suffix_refl _

theorem lexNumber_suf (env s) : SufE (lexNumber env s) (dotTail (s.dropWhile isAsciiDigit)) := by
  unfold lexNumber
  dsimp only
  split
  · rename_i r2 h
    simp only [sufE_ok]
    split at h
    · rw [h]; simp only [dotTail]; exact (List.dropWhile_suffix _).trans (List.suffix_cons ..)
    · simp at h
  · split
    · rename_i r h; rw [h]; simp only [dotTail]; exact lexNumberTail_suf _ _ _
    · rename_i h
      have : dotTail (s.dropWhile isAsciiDigit) = s.dropWhile isAsciiDigit := by
        unfold dotTail; split
        · rename_i r hr; exact absurd hr (h r)
        · rfl
      rw [this]; exact lexNumberTail_suf _ _ _

/-- strict: a leading digit or period is consumed -/
theorem lexNumber_suf_cons (env c cs) (h : isDigitOrDot c = true) : SufE (lexNumber env (c :: cs)) cs := by
  refine (lexNumber_suf env (c :: cs)).mono ?_
  by_cases hd : isAsciiDigit c = true
  · simp only [List.dropWhile_cons, hd, ↓reduceIte]
    exact (dotTail_suf _).trans (List.dropWhile_suffix _)
  · have hc : c = 46 := by
      simp only [isDigitOrDot, Bool.or_eq_true, beq_iff_eq] at h
      rcases h with h | h
      · exact absurd h hd
      · exact h
    subst hc
    simp [hd, dotTail]

theorem lexDollar_suf (env cs) : SufE (lexDollar env cs) cs := by
  unfold lexDollar
  split
  · split
    · simp only [sufE_error]
    · rename_i p r' h
      simp only [sufE_ok]
      exact (dollarUntaggedBody_suf none _ p r' h).trans (List.suffix_cons _ _)
  · simp only []
    split
    · rename_i r h
      have hr : r <:+ cs := by
        have := List.dropWhile_suffix (l := cs) (fun c => env.isAlphanumeric c || c == 95)
        rw [h] at this
        exact (List.suffix_cons ..).trans this
      split
      · simp only [sufE_error]
      · rename_i p r' h2
        simp only [sufE_ok]
        exact (dollarTaggedBody_suf _ none r p r' h2).trans hr
    · simp only [sufE_ok]; exact List.dropWhile_suffix _

theorem lexMinus_sufT (env cs s) (h : cs <:+ s) : SufE (lexMinus env cs) s ↔ True := sufT (lexMinus_suf _ _) h
theorem lexSlash_sufT (env cs s) (h : cs <:+ s) : SufE (lexSlash env cs) s ↔ True := sufT (lexSlash_suf _ _) h
theorem lexPercent_sufT (env cs s) (h : cs <:+ s) : SufE (lexPercent env cs) s ↔ True := sufT (lexPercent_suf _ _) h
theorem lexPipe_sufT (env cs s) (h : cs <:+ s) : SufE (lexPipe env cs) s ↔ True := sufT (lexPipe_suf _ _) h
theorem lexEq_sufT (cs s) (h : cs <:+ s) : SufE (lexEq cs) s ↔ True := sufT (lexEq_suf _) h
theorem lexBang_sufT (cs s) (h : cs <:+ s) : SufE (lexBang cs) s ↔ True := sufT (lexBang_suf _) h
theorem lexLt_sufT (env cs s) (h : cs <:+ s) : SufE (lexLt env cs) s ↔ True := sufT (lexLt_suf _ _) h
theorem lexGt_sufT (env cs s) (h : cs <:+ s) : SufE (lexGt env cs) s ↔ True := sufT (lexGt_suf _ _) h
theorem lexColon_sufT (cs s) (h : cs <:+ s) : SufE (lexColon cs) s ↔ True := sufT (lexColon_suf _) h
theorem lexAmp_sufT (env cs s) (h : cs <:+ s) : SufE (lexAmp env cs) s ↔ True := sufT (lexAmp_suf _ _) h
theorem lexCaret_sufT (cs s) (h : cs <:+ s) : SufE (lexCaret cs) s ↔ True := sufT (lexCaret_suf _) h
theorem lexTilde_sufT (env cs s) (h : cs <:+ s) : SufE (lexTilde env cs) s ↔ True := sufT (lexTilde_suf _ _) h
theorem lexSharp_sufT (env cs s) (h : cs <:+ s) : SufE (lexSharp env cs) s ↔ True := sufT (lexSharp_suf _ _) h
theorem lexAt_sufT (env cs s) (h : cs <:+ s) : SufE (lexAt env cs) s ↔ True := sufT (lexAt_suf _ _) h
theorem lexQuestionPg_sufT (cs s) (h : cs <:+ s) : SufE (lexQuestionPg cs) s ↔ True := sufT (lexQuestionPg_suf _) h
theorem lexQuestion_sufT (env cs s) (h : cs <:+ s) : SufE (lexQuestion env cs) s ↔ True := sufT (lexQuestion_suf _ _) h
theorem lexDollar_sufT (env cs s) (h : cs <:+ s) : SufE (lexDollar env cs) s ↔ True := sufT (lexDollar_suf _ _) h
theorem lexByte_sufT (env b cs s) (h : cs <:+ s) : SufE (lexByte env b cs) s ↔ True := sufT (lexByte_suf _ _ _) h
theorem lexRaw_sufT (env b cs s) (h : cs <:+ s) : SufE (lexRaw env b cs) s ↔ True := sufT (lexRaw_suf _ _ _) h
theorem lexPrefixed_sufT (env f c cs s) (h : cs <:+ s) : SufE (lexPrefixed env f c cs) s ↔ True :=
  sufT (lexPrefixed_suf _ _ _ _) h
theorem lexEscaped_sufT (env c cs s) (h : cs <:+ s) : SufE (lexEscaped env c cs) s ↔ True :=
  sufT (lexEscaped_suf _ _ _) h
theorem lexUnicode_sufT (env c cs s) (h : cs <:+ s) : SufE (lexUnicode env c cs) s ↔ True :=
  sufT (lexUnicode_suf _ _ _) h
theorem lexQuotedIdent_sufT (env c cs s) (h : cs <:+ s) : SufE (lexQuotedIdent env c cs) s ↔ True :=
  sufT (lexQuotedIdent_suf _ _ _) h

theorem lexOp_suf (env c cs) : SufE (lexOp env c cs) cs := by
  unfold lexOp
  repeat' (rw [sufE_ite]; refine ⟨fun _ => ?_, fun _ => ?_⟩)
  all_goals
    simp (disch := suff_tac) only [res_ok_suf, identOrKeyword_suf, lineComment_suf, lexSlash_sufT,
      lexPercent_sufT, lexPipe_sufT, lexEq_sufT, lexBang_sufT, lexLt_sufT, lexGt_sufT, lexColon_sufT,
      lexAmp_sufT, lexCaret_sufT, lexTilde_sufT, lexSharp_sufT, lexAt_sufT, lexQuestionPg_sufT,
      lexQuestion_sufT, lexDollar_sufT]

theorem lexOp_sufT (env c cs s) (h : cs <:+ s) : SufE (lexOp env c cs) s ↔ True := sufT (lexOp_suf _ _ _) h

theorem lexHead_suf (env c cs) : SufE (lexHead env c cs) cs := by
  unfold lexHead
  repeat' (rw [sufE_ite]; refine ⟨fun _ => ?_, fun _ => ?_⟩)
  all_goals (try split)
  all_goals first
    | (simp (disch := suff_tac) only [res_ok_suf, lexByte_sufT, lexRaw_sufT, lexPrefixed_sufT,
        lexEscaped_sufT, lexUnicode_sufT, lexQuotedIdent_sufT, lexMinus_sufT, lexOp_sufT]; done)
    | (subst_vars; exact lexQuote_suf_cons _ _ _ _ _)
    | (rename_i h; obtain ⟨rfl, _⟩ := h; exact lexQuote_suf_cons _ _ _ _ _)
    | (rename_i h _; exact lexNumber_suf_cons env c cs h)
    | (rename_i h; exact lexNumber_suf_cons env c cs h)

/-- **the one fact about `next_token`**: a token consumes a non-empty prefix of the input -/
theorem nextToken_suffix (env : Env) (s : List Nat) (t : Token) (rest : List Nat)
    (h : nextToken env s = .ok (some (t, rest))) : ∃ pre, pre ≠ [] ∧ s = pre ++ rest := by
  unfold nextToken at h
  split at h
  · simp at h
  · rename_i c cs
    split at h
    · simp at h
    · rename_i r hr
      simp at h
      subst h
      obtain ⟨pre, hp⟩ := lexHead_suf env c cs t rest hr
      exact ⟨c :: pre, by simp, by rw [← hp]; rfl⟩

theorem nextToken_eof (env : Env) (s : List Nat) (h : nextToken env s = .ok none) : s = [] := by
  unfold nextToken at h
  split at h
  · rfl
  · split at h <;> simp at h

theorem nextToken_ok (env : Env) : NextOK (nextToken env) :=
  ⟨nextToken_suffix env, nextToken_eof env⟩

/-! ## Part C — the slice of a token is its text -/

/-- the source text a token stands for, when the token alone determines it (`Display for Token`).
`none` for quoted literals and delimited identifiers (their slice carries quotes/escapes), for
`Neq` (`<>` or `!=`), `Newline` (`\n`, `\r`, `\r\n`), `Space` (any whitespace character) and
`HexStringLiteral` (`X'…'` or `0x…`). -/
def Token.text : Token → Option (List Nat)
  | .word w => if w.quote = none then some w.value else none
  | .number s l => some (s ++ if l then [76] else [])
  | .char c => some [c]
  | .comma => some [44]
  | .whitespace .tab => some [9]
  | .whitespace (.singleLineComment c p) => some (p ++ c)
  | .whitespace (.multiLineComment s) => some ([47, 42] ++ s ++ [42, 47])
  | .doubleEq => some [61, 61] | .eq => some [61] | .lt => some [60] | .gt => some [62]
  | .ltEq => some [60, 61] | .gtEq => some [62, 61] | .spaceship => some [60, 61, 62]
  | .plus => some [43] | .minus => some [45] | .mul => some [42] | .div => some [47]
  | .duckIntDiv => some [47, 47] | .mod => some [37] | .stringConcat => some [124, 124]
  | .lParen => some [40] | .rParen => some [41] | .period => some [46] | .colon => some [58]
  | .doubleColon => some [58, 58] | .assignment => some [58, 61] | .semiColon => some [59]
  | .backslash => some [92] | .lBracket => some [91] | .rBracket => some [93]
  | .ampersand => some [38] | .pipe => some [124] | .caret => some [94] | .lBrace => some [123]
  | .rBrace => some [125] | .rArrow => some [61, 62] | .sharp => some [35]
  | .tilde => some [126] | .tildeAsterisk => some [126, 42]
  | .exclamationMarkTilde => some [33, 126] | .exclamationMarkTildeAsterisk => some [33, 126, 42]
  | .doubleTilde => some [126, 126] | .doubleTildeAsterisk => some [126, 126, 42]
  | .exclamationMarkDoubleTilde => some [33, 126, 126]
  | .exclamationMarkDoubleTildeAsterisk => some [33, 126, 126, 42]
  | .shiftLeft => some [60, 60] | .shiftRight => some [62, 62] | .overlap => some [38, 38]
  | .exclamationMark => some [33] | .doubleExclamationMark => some [33, 33] | .atSign => some [64]
  | .caretAt => some [94, 64] | .pgSquareRoot => some [124, 47] | .pgCubeRoot => some [124, 124, 47]
  | .placeholder s => some s
  | .arrow => some [45, 62] | .longArrow => some [45, 62, 62] | .hashArrow => some [35, 62]
  | .hashLongArrow => some [35, 62, 62] | .atArrow => some [64, 62] | .arrowAt => some [60, 64]
  | .hashMinus => some [35, 45] | .atQuestion => some [64, 63] | .atAt => some [64, 64]
  | .question => some [63] | .questionAnd => some [63, 38] | .questionPipe => some [63, 124]
  | .customBinaryOperator s => some s
  | _ => none

/-- `pre` = characters of the token already consumed, `cs` = input after them: if the branch
result has a text, the text is exactly what was consumed -/
def TextE (pre : List Nat) (r : Res) (cs : List Nat) : Prop :=
  ∀ t rest x, r = .ok (t, rest) → t.text = some x → pre ++ cs = x ++ rest

theorem textE_error (pre e cs) : TextE pre (.error e) cs := by
  intro t rest x h; simp at h

/-- leaves `.ok (token, rest)` with a concrete token -/
macro "text_leaf" : tactic =>
  `(tactic| (intro t rest x h ht; cases h; cases ht <;> first | rfl | (simp; done)))

theorem takeWhile_nil_dropWhile {p : Nat → Bool} {l : List Nat} (h : l.takeWhile p = []) :
    l.dropWhile p = l := by
  have := List.takeWhile_append_dropWhile (p := p) (l := l)
  rw [h] at this; simpa using this

theorem binop_text (env : Env) (pfx : String) (d : Token) (pre cs cs' : List Nat)
    (hd : ∀ x, d.text = some x → x = str pfx) (hcs : pre ++ cs = str pfx ++ cs') :
    TextE pre (binop env pfx d cs') cs := by
  intro t rest x h ht
  simp only [binop, startBinop, Except.ok.injEq, Prod.mk.injEq] at h
  obtain ⟨rfl, rfl⟩ := h
  rw [hcs]
  split at ht
  · rename_i hk
    simp only [List.isEmpty_iff] at hk
    rw [hd x ht, takeWhile_nil_dropWhile hk]
  · cases ht
    rw [List.append_assoc, List.takeWhile_append_dropWhile]

theorem textE_mono_eq {pre cs pre' cs' : List Nat} {r : Res} (h : pre ++ cs = pre' ++ cs')
    (h0 : TextE pre' r cs') : TextE pre r cs := by
  intro t rest x e ht; rw [h]; exact h0 t rest x e ht

theorem singleLineComment_split (s : List Nat) : (singleLineComment s).1 ++ (singleLineComment s).2 = s := by
  unfold singleLineComment
  split
  · rename_i h
    have := List.takeWhile_append_dropWhile (p := fun c => c != 10) (l := s)
    rw [h] at this; simpa using this
  · rename_i c r h
    have := List.takeWhile_append_dropWhile (p := fun c => c != 10) (l := s)
    rw [h] at this; simpa using this

theorem lineComment_text (pfx : String) (pre cs cs' : List Nat) (h : pre ++ cs = str pfx ++ cs') :
    TextE pre (lineComment pfx cs') cs := by
  intro t rest x e ht
  cases e; cases ht
  rw [h, List.append_assoc, singleLineComment_split]

theorem tokenizeWord_split (env : Env) (first cs : List Nat) :
    (tokenizeWord env first cs).1 ++ (tokenizeWord env first cs).2 = first ++ cs := by
  simp [tokenizeWord, List.takeWhile_append_dropWhile]

theorem mkWord_text (env : Env) (w : List Nat) : (mkWord env w none).text = some w := rfl
theorem mkWord_quoted_text (env : Env) (w : List Nat) (q : Nat) : (mkWord env w (some q)).text = none := rfl

theorem takeWhile_of_all {p : Nat → Bool} : ∀ {l : List Nat}, l.all p = true → l.takeWhile p = l
  | [], _ => rfl
  | a :: l, h => by
    simp only [List.all_cons, Bool.and_eq_true] at h
    simp [h.1, takeWhile_of_all h.2]

theorem identOrKeyword_text (env : Env) (first pre cs cs' : List Nat) (h : pre ++ cs = first ++ cs') :
    TextE pre (identOrKeyword env first cs') cs := by
  intro t rest x e ht
  rw [h, ← tokenizeWord_split env first cs']
  unfold identOrKeyword at e
  dsimp only at e
  split at e
  · rename_i hall
    cases e; cases ht
    rw [takeWhile_of_all hall]
    simp [List.takeWhile_append_dropWhile]
  · cases e
    rw [mkWord_text] at ht
    cases ht; rfl

theorem wordFrom_text (env : Env) (first pre cs cs' : List Nat) (h : pre ++ cs = first ++ cs') :
    TextE pre (wordFrom env first cs') cs := by
  intro t rest x e ht
  rw [h, ← tokenizeWord_split env first cs']
  unfold wordFrom at e
  cases e
  rw [mkWord_text] at ht
  cases ht; rfl

theorem push_eq_some {a : List Nat} {o : Option (List Nat × List Nat)} {p r : List Nat}
    (h : push a o = some (p, r)) : ∃ p', o = some (p', r) ∧ p = a ++ p' := by
  cases o with
  | none => simp [Scan.push] at h
  | some y => obtain ⟨p', r'⟩ := y; simp [Scan.push] at h; exact ⟨p', by rw [h.2], h.1.symm⟩

/-- what `multiLineBody` consumed is what it pushed plus the final `/`; the last thing pushed
(or `last` if nothing was) is `*` -/
theorem multiLineBody_split : ∀ (last nested : Nat) (s p r : List Nat),
    multiLineBody last nested s = some (p, r) → s = p ++ 47 :: r ∧ ∃ q, last :: p = q ++ [42] := by
  intro last nested s
  fun_induction multiLineBody last nested s <;> intro p r e
  · simp at e
  · rename_i ih
    obtain ⟨p', e', rfl⟩ := push_eq_some e
    obtain ⟨h1, q, h2⟩ := ih p' r e'
    refine ⟨by rw [h1]; simp, ?_⟩
    rw [show [_] ++ p' = _ :: p' from rfl, h2]
    exact ⟨_ :: q, rfl⟩
  · rename_i hc _
    cases e
    exact ⟨by simp [hc.2], [], by simp [hc.1]⟩
  · rename_i ih
    obtain ⟨p', e', rfl⟩ := push_eq_some e
    obtain ⟨h1, q, h2⟩ := ih p' r e'
    refine ⟨by rw [h1]; simp, ?_⟩
    rw [show [_] ++ p' = _ :: p' from rfl, h2]
    exact ⟨_ :: q, rfl⟩
  · rename_i ih
    obtain ⟨p', e', rfl⟩ := push_eq_some e
    obtain ⟨h1, q, h2⟩ := ih p' r e'
    refine ⟨by rw [h1]; simp, ?_⟩
    rw [show [_] ++ p' = _ :: p' from rfl, h2]
    exact ⟨_ :: q, rfl⟩

theorem lexMultiLineComment_text (pre cs cs' : List Nat) (h : pre ++ cs = [47, 42] ++ cs') :
    TextE pre (lexMultiLineComment cs') cs := by
  intro t rest x e ht
  rw [h]
  unfold lexMultiLineComment scanMultiLineComment at e
  split at e
  · simp [ofScan] at e
  · rename_i p r hb
    simp only [ofScan, Except.ok.injEq, Prod.mk.injEq] at e
    obtain ⟨rfl, rfl⟩ := e
    cases ht
    obtain ⟨h1, q, h2⟩ := multiLineBody_split 32 1 cs' p r hb
    cases q with
    | nil => simp at h2
    | cons a q =>
      simp only [List.cons_append, List.cons.injEq] at h2
      rw [h1, h2.2]
      simp

theorem ofScan_text (f : List Nat → Token) (hf : ∀ p, (f p).text = none) (pre x cs) :
    TextE pre (ofScan f x) cs := by
  intro t rest y e ht
  cases x with
  | error err => simp [ofScan] at e
  | ok v => obtain ⟨a, b⟩ := v; simp only [ofScan] at e; cases e; rw [hf] at ht; cases ht

theorem singleOrTriple_text (env : Env) (q : Nat) (bs : Bool) (f g : List Nat → Token)
    (hf : ∀ p, (f p).text = none) (hg : ∀ p, (g p).text = none) (pre s cs) :
    TextE pre (singleOrTriple env q bs f g s) cs := by
  intro t rest y e ht
  unfold singleOrTriple at e
  split at e
  · simp at e
  · cases e; rw [hf] at ht; cases ht
  · cases e; rw [hg] at ht; cases ht

/-- closes every leaf of an unfolded, fully split branch function -/
macro "text_tac" : tactic =>
  `(tactic| first
    | text_leaf
    | exact textE_error _ _ _
    | exact binop_text _ _ _ _ _ _ (fun _ h => by cases h <;> rfl) (by rfl)
    | exact lineComment_text _ _ _ _ (by rfl)
    | exact identOrKeyword_text _ _ _ _ _ (by rfl)
    | exact wordFrom_text _ _ _ _ _ (by rfl)
    | exact lexMultiLineComment_text _ _ _ (by rfl)
    | exact ofScan_text _ (fun _ => rfl) _ _ _
    | exact singleOrTriple_text _ _ _ _ _ (fun _ => rfl) (fun _ => rfl) _ _ _)

theorem lexMinus_text (env cs) : TextE [45] (lexMinus env cs) cs := by
  unfold lexMinus; repeat' split
  all_goals text_tac
theorem lexSlash_text (env cs) : TextE [47] (lexSlash env cs) cs := by
  unfold lexSlash; repeat' split
  all_goals text_tac
theorem lexPercent_text (env cs) : TextE [37] (lexPercent env cs) cs := by
  unfold lexPercent; repeat' split
  all_goals text_tac
theorem lexPipe_text (env cs) : TextE [124] (lexPipe env cs) cs := by
  unfold lexPipe; repeat' split
  all_goals text_tac
theorem lexEq_text (cs) : TextE [61] (lexEq cs) cs := by
  unfold lexEq; repeat' split
  all_goals text_tac
theorem lexBang_text (cs) : TextE [33] (lexBang cs) cs := by
  unfold lexBang; repeat' split
  all_goals text_tac
theorem lexLt_text (env cs) : TextE [60] (lexLt env cs) cs := by
  unfold lexLt; repeat' split
  all_goals text_tac
theorem lexGt_text (env cs) : TextE [62] (lexGt env cs) cs := by
  unfold lexGt; repeat' split
  all_goals text_tac
theorem lexColon_text (cs) : TextE [58] (lexColon cs) cs := by
  unfold lexColon; repeat' split
  all_goals text_tac
theorem lexAmp_text (env cs) : TextE [38] (lexAmp env cs) cs := by
  unfold lexAmp; repeat' split
  all_goals text_tac
theorem lexCaret_text (cs) : TextE [94] (lexCaret cs) cs := by
  unfold lexCaret; repeat' split
  all_goals text_tac
theorem lexTilde_text (env cs) : TextE [126] (lexTilde env cs) cs := by
  unfold lexTilde; repeat' split
  all_goals text_tac
theorem lexSharp_text (env cs) : TextE [35] (lexSharp env cs) cs := by
  unfold lexSharp; repeat' split
  all_goals text_tac
theorem lexAt_text (env cs) : TextE [64] (lexAt env cs) cs := by
  unfold lexAt; repeat' split
  all_goals text_tac
theorem lexQuestionPg_text (cs) : TextE [63] (lexQuestionPg cs) cs := by
  unfold lexQuestionPg; repeat' split
  all_goals text_tac
theorem lexQuestion_text (env cs) : TextE [63] (lexQuestion env cs) cs := by
  intro t rest x e ht
  cases e; cases ht
  simp [List.takeWhile_append_dropWhile]
theorem lexByte_text (env b cs) : TextE [b] (lexByte env b cs) cs := by
  unfold lexByte; repeat' split
  all_goals text_tac
theorem lexRaw_text (env b cs) : TextE [b] (lexRaw env b cs) cs := by
  unfold lexRaw; repeat' split
  all_goals text_tac
theorem lexPrefixed_text (env f c cs) (hf : ∀ p, (f p).text = none) :
    TextE [c] (lexPrefixed env f c cs) cs := by
  unfold lexPrefixed; split
  · exact ofScan_text _ hf _ _ _
  · text_tac
theorem lexEscaped_text (env c cs) : TextE [c] (lexEscaped env c cs) cs := by
  unfold lexEscaped; repeat' split
  all_goals text_tac
theorem lexUnicode_text (env c cs) : TextE [c] (lexUnicode env c cs) cs := by
  unfold lexUnicode; repeat' split
  all_goals text_tac
theorem lexQuote_text (env q f g s pre cs) (hf : ∀ p, (f p).text = none) (hg : ∀ p, (g p).text = none) :
    TextE pre (lexQuote env q f g s) cs := by
  unfold lexQuote; dsimp only; split
  · exact singleOrTriple_text _ _ _ _ _ hf hg _ _ _
  · exact ofScan_text _ hf _ _ _
theorem lexQuotedIdent_text (env c cs) : TextE [c] (lexQuotedIdent env c cs) cs := by
  unfold lexQuotedIdent; repeat' split
  all_goals first
    | exact textE_error _ _ _
    | (intro t rest x e ht; cases e; rw [mkWord_quoted_text] at ht; cases ht)

theorem expSign_split (r : List Nat) : expSign r ++ r.drop (expSign r).length = r := by
  unfold expSign
  split
  · split <;> simp
  · rfl

theorem scanExponent_split (s3 r3 : List Nat) :
    (scanExponent s3 r3).2.1 ++ (scanExponent s3 r3).2.2 = s3 ++ r3 := by
  unfold scanExponent
  split
  · rfl
  · rename_i e r
    split
    · dsimp only
      have hs := expSign_split r
      generalize hr : List.drop _ r = r' at hs
      split
      · split
        · rw [List.append_assoc, List.append_assoc, List.takeWhile_append_dropWhile]
          simp only [List.cons_append, hs]
        · rfl
      · rfl
    · rfl

theorem lexNumberTail_text (env : Env) (pre cs s2 r2 : List Nat) (h : pre ++ cs = s2 ++ r2) :
    TextE pre (lexNumberTail env s2 r2) cs := by
  intro t rest x e ht
  rw [h]
  unfold lexNumberTail at e
  dsimp only at e
  have hs3 : (s2 ++ r2.takeWhile isAsciiDigit) ++ r2.dropWhile isAsciiDigit = s2 ++ r2 := by
    rw [List.append_assoc, List.takeWhile_append_dropWhile]
  have h4 := scanExponent_split (s2 ++ r2.takeWhile isAsciiDigit) (r2.dropWhile isAsciiDigit)
  split at e
  · rename_i h3
    cases e; cases ht
    rw [← hs3, h3]
  · split at e
    · cases e
      rw [mkWord_text] at ht; cases ht
      rw [List.append_assoc, List.takeWhile_append_dropWhile, h4, hs3]
    · split at e
      · rename_i r5 h5
        cases e; cases ht
        rw [h5] at h4
        rw [← hs3, ← h4]; simp
      · cases e; cases ht
        rw [← hs3, ← h4]; simp

theorem lexNumber_text (env : Env) (s : List Nat) : TextE [] (lexNumber env s) s := by
  unfold lexNumber
  dsimp only
  have hs := List.takeWhile_append_dropWhile (p := isAsciiDigit) (l := s)
  split
  · text_leaf
  · split
    · rename_i r h
      refine lexNumberTail_text env _ _ _ _ ?_
      rw [h] at hs
      simp only [List.nil_append, List.append_assoc, List.cons_append]; exact hs.symm
    · exact lexNumberTail_text env _ _ _ _ (by simp [hs])

theorem lexDollar_text (env : Env) (cs : List Nat) : TextE [36] (lexDollar env cs) cs := by
  unfold lexDollar
  split
  · split
    · exact textE_error _ _ _
    · text_leaf
  · dsimp only
    split
    · split
      · exact textE_error _ _ _
      · text_leaf
    · intro t rest x e ht
      cases e; cases ht
      simp [List.takeWhile_append_dropWhile]

theorem textE_ite (c : Prop) [Decidable c] (pre : List Nat) (a b : Res) (cs : List Nat) :
    TextE pre (if c then a else b) cs ↔ (c → TextE pre a cs) ∧ (¬ c → TextE pre b cs) := by
  by_cases h : c <;> simp [h]

theorem lexOp_text (env : Env) (c : Nat) (cs : List Nat) : TextE [c] (lexOp env c cs) cs := by
  unfold lexOp
  repeat' (rw [textE_ite]; refine ⟨fun h => ?_, fun _ => ?_⟩)
  all_goals (try subst_vars)
  all_goals (try (rename_i h; obtain ⟨rfl, _⟩ := h))
  all_goals first
    | text_tac
    | exact lexSlash_text _ _ | exact lexPercent_text _ _ | exact lexPipe_text _ _ | exact lexEq_text _
    | exact lexBang_text _ | exact lexLt_text _ _ | exact lexGt_text _ _ | exact lexColon_text _
    | exact lexAmp_text _ _ | exact lexCaret_text _ | exact lexTilde_text _ _ | exact lexSharp_text _ _
    | exact lexAt_text _ _ | exact lexQuestionPg_text _ | exact lexQuestion_text _ _
    | exact lexDollar_text _ _

theorem lexHead_text (env : Env) (c : Nat) (cs : List Nat) : TextE [c] (lexHead env c cs) cs := by
  unfold lexHead
  repeat' (rw [textE_ite]; refine ⟨fun h => ?_, fun _ => ?_⟩)
  all_goals (try subst_vars)
  all_goals (try split)
  all_goals first
    | text_tac
    | exact lexByte_text _ _ _ | exact lexRaw_text _ _ _
    | exact lexPrefixed_text _ _ _ _ (fun _ => rfl)
    | exact lexEscaped_text _ _ _ | exact lexUnicode_text _ _ _
    | exact lexQuote_text _ _ _ _ _ _ _ (fun _ => rfl) (fun _ => rfl)
    | exact lexQuotedIdent_text _ _ _
    | exact textE_mono_eq rfl (lexNumber_text _ _)
    | exact lexMinus_text _ _
    | exact lexOp_text _ _ _

/-- **slice_is_text**: whenever the token determines its source text (`Token.text`: unquoted
words, numbers, punctuation and operators, placeholders, custom operators, comments, `Char`),
the characters consumed for it are exactly that text -/
theorem nextToken_text (env : Env) (s : List Nat) (t : Token) (rest x : List Nat)
    (h : nextToken env s = .ok (some (t, rest))) (ht : t.text = some x) : s = x ++ rest := by
  unfold nextToken at h
  split at h
  · simp at h
  · rename_i c cs
    split at h
    · simp at h
    · rename_i r hr
      simp at h
      subst h
      exact lexHead_text env c cs t rest x hr ht


end SqlVerif.Tok

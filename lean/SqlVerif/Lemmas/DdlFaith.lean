import SqlVerif.Lemmas.DdlWF
/-!
The printer of the second statement fragment is faithful to what the parser stored:
`stmt_faith` — `WF`, `printableQ`, `normal` and `tokOk` tokens ⇒ `s.norm.mapT qc = s.mapT qc`
(definitions in `Lemmas/DdlDefs.lean`, method of `Lemmas/DmlFaith.lean`).
-/
namespace SqlVerif.Ddl
open SqlVerif.Pratt SqlVerif.Query SqlVerif.Dml SqlVerif.Gen
set_option linter.unusedSimpArgs false

-- ------------------------------------------------------------------ keyword tokens
theorem tokOk_OR : tokOk (kwT "OR") = true := by decide +kernel
theorem tokOk_REPLACE : tokOk (kwT "REPLACE") = true := by decide +kernel
theorem tokOk_MATERIALIZED : tokOk (kwT "MATERIALIZED") = true := by decide +kernel
theorem tokOk_VIEW : tokOk (kwT "VIEW") = true := by decide +kernel
theorem tokOk_CONCURRENTLY : tokOk (kwT "CONCURRENTLY") = true := by decide +kernel
theorem tokOk_INCLUDE : tokOk (kwT "INCLUDE") = true := by decide +kernel
theorem tokOk_INDEX : tokOk (kwT "INDEX") = true := by decide +kernel
theorem tokOk_ALTER : tokOk (kwT "ALTER") = true := by decide +kernel
theorem tokOk_ONLY : tokOk (kwT "ONLY") = true := by decide +kernel
theorem tokOk_ADD : tokOk (kwT "ADD") = true := by decide +kernel
theorem tokOk_COLUMN : tokOk (kwT "COLUMN") = true := by decide +kernel
theorem tokOk_RENAME : tokOk (kwT "RENAME") = true := by decide +kernel
theorem tokOk_TO : tokOk (kwT "TO") = true := by decide +kernel
theorem tokOk_TRUNCATE : tokOk (kwT "TRUNCATE") = true := by decide +kernel

theorem kwClean_table : SqlVerif.Gen.keywordsList.all (fun v => !(v.head? == some 95)) = true := by decide +kernel

theorem kwClean_kwTi (k : Nat) : kwClean (kwTi k) = true := by
  simp only [kwTi, kwClean]
  by_cases h : k < SqlVerif.Gen.keywordsList.length
  · have hn : kwName k = SqlVerif.Gen.keywordsList[k] := by
      unfold kwName
      rw [List.getD_eq_getElem?_getD, List.getElem?_eq_getElem h]; rfl
    rw [hn]
    exact List.all_eq_true.1 kwClean_table _ (List.getElem_mem h)
  · have hn : kwName k = [] := by
      unfold kwName
      rw [List.getD_eq_getElem?_getD, List.getElem?_eq_none (by omega)]; rfl
    rw [hn]; rfl

theorem tokOk_kwTi (k : Nat) : tokOk (kwTi k) = true := by
  simp [tokOk, kwClean_kwTi, kwTokOk_kwTi]

/-- a keyword token re-spelled by `Display` has the image of the source token -/
theorem kwNormTok_faith (t : Tok) (hk : ∃ k, t.isKw k = true) (ht : tokOk t = true) : qc (kwNormTok t) = qc t := by
  obtain ⟨k, hk⟩ := hk
  cases t with
  | word v q kw =>
    cases kw with
    | none => simp [Tok.isKw] at hk
    | some k' =>
      simp only [kwNormTok, kwTokP]
      exact qc_of_kw (kwTi_isKw _) (by simp [Tok.isKw]) (tokOk_kwTi _) ht
  | _ => simp [Tok.isKw] at hk

theorem kwNormToks_faith : ∀ (l : List Tok), allKw l → l.all tokOk = true → (l.map kwNormTok).map qc = l.map qc
  | [], _, _ => rfl
  | t :: rest, hw, ht => by
    simp only [List.all_cons, Bool.and_eq_true] at ht
    simp only [List.map_cons, kwNormTok_faith t (hw t (by simp)) ht.1,
      kwNormToks_faith rest (fun x hx => hw x (by simp [hx])) ht.2]

theorem optKws1_faith {n : String} (l : List Tok) (hw : optKwWF (kwIndex n) l) (ht : l.all tokOk = true)
    (hn : tokOk (kwT n) = true) : (optKws l [n]).map qc = l.map qc := by
  have := optKw_faith (n := n) l hw ht hn
  simpa [optKws] using this

theorem optKws2_faith {n1 n2 : String} (l : List Tok) (hw : l = [] ∨ isKwL l [kwIndex n1, kwIndex n2]) (ht : l.all tokOk = true)
    (h1 : tokOk (kwT n1) = true) (h2 : tokOk (kwT n2) = true) : (optKws l [n1, n2]).map qc = l.map qc := by
  rcases hw with rfl | h
  · rfl
  · have : l.isEmpty = false := by
      have := isKwL_length h
      cases l <;> simp_all
    simp only [optKws, this, Bool.false_eq_true, if_false, List.map_cons, List.map_nil]
    exact kwL2_faith h ht h1 h2

theorem optKws3_faith {n1 n2 n3 : String} (l : List Tok) (hw : l = [] ∨ isKwL l [kwIndex n1, kwIndex n2, kwIndex n3])
    (ht : l.all tokOk = true) (h1 : tokOk (kwT n1) = true) (h2 : tokOk (kwT n2) = true) (h3 : tokOk (kwT n3) = true) :
    (optKws l [n1, n2, n3]).map qc = l.map qc := by
  rcases hw with rfl | h
  · rfl
  · have : l.isEmpty = false := by
      have := isKwL_length h
      cases l <;> simp_all
    simp only [optKws, this, Bool.false_eq_true, if_false, List.map_cons, List.map_nil]
    exact kwL3_faith h ht h1 h2 h3

-- ------------------------------------------------------------------ CREATE VIEW
theorem viewCols_faith (l : Sep ViewCol) (hw : sepWF ViewCol.WF l) (hn : sepNormal (fun c => c.ty.isNone) l = true)
    (ht : (sepFlat ViewCol.flatten l).all tokOk = true) :
    sepMap (ViewCol.mapT qc) qc (sepNorm ViewCol.norm l) = sepMap (ViewCol.mapT qc) qc l :=
  sep_faith ViewCol.WF (fun c => c.ty.isNone) ViewCol.flatten (ViewCol.mapT qc) ViewCol.norm
    (fun v h1 h2 _ => by
      obtain ⟨name, ty, tt⟩ := v
      have hty : ty = none := by simpa using h2
      subst hty
      have : tt = [] := h1 rfl
      subst this
      rfl) l hw hn ht

theorem view_faith (v : CreateView) (hw : v.WF) (hn : v.normal = true) (hp : v.query.printable = true)
    (ht : v.flatten.all tokOk = true) : v.norm.mapT qc = v.mapT qc := by
  obtain ⟨kw, orRep, temp, mat, vk, ifne, name, lp, cols, rp, asKw, q⟩ := v
  simp only [CreateView.WF] at hw
  simp only [CreateView.normal, Bool.and_eq_true, Bool.or_eq_true, Bool.not_eq_true'] at hn
  simp only [CreateView.flatten, List.all_append, List.all_cons, Bool.and_eq_true, and_assoc] at ht
  obtain ⟨h1, h2, h3, h4, h5, h6, h7, h8, h9, h10⟩ := hw
  obtain ⟨⟨⟨n1, n3⟩, n4⟩, n5⟩ := hn
  obtain ⟨t1, t2, t3, t4, t5, t6, t7, t8, t9, t10, t11, t12⟩ := ht
  have htemp : (optKws temp ["TEMPORARY"]).map qc = temp.map qc := by
    rcases h3 with rfl | ⟨t, rfl, _⟩
    · rfl
    · simp only [List.all_cons, List.all_nil, Bool.and_true] at n1 t3
      simp [optKws, qc_kwT (n := "TEMPORARY") n1 t3 tokOk_TEMPORARY]
  have hpar : (if cols.isEmpty then [] else [Tok.sym .LParen]) = lp ∧ (if cols.isEmpty then [] else [Tok.sym .RParen]) = rp := by
    rcases h7 with ⟨rfl, rfl, rfl⟩ | ⟨rfl, rfl⟩
    · exact ⟨rfl, rfl⟩
    · have : cols.isEmpty = false := by simpa using n3
      simp [this]
  simp only [CreateView.norm, CreateView.mapT, qc_kwT (n := "CREATE") h1 t1 tokOk_CREATE,
    optKws2_faith (n1 := "OR") (n2 := "REPLACE") orRep h2 t2 tokOk_OR tokOk_REPLACE, htemp,
    optKws1_faith (n := "MATERIALIZED") mat h4 t4 tokOk_MATERIALIZED, qc_kwT (n := "VIEW") h5 t5 tokOk_VIEW,
    optKws3_faith (n1 := "IF") (n2 := "NOT") (n3 := "EXISTS") ifne h6 t6 tokOk_IF tokOk_NOT tokOk_EXISTS, hpar.1, hpar.2,
    viewCols_faith cols h8 n4 t9, qc_kwT (n := "AS") h9 t11 tokOk_AS, source_faith q h10 n5 hp t12]

-- ------------------------------------------------------------------ CREATE INDEX
theorem idxHead_faith (hd : IdxHead) (hw : hd.WF) (ht : hd.flatten.all tokOk = true) : hd.norm.mapT qc = hd.mapT qc := by
  obtain ⟨conc, ifne, name, on, table, us, lp⟩ := hd
  simp only [IdxHead.WF] at hw
  simp only [IdxHead.flatten, List.all_append, List.all_cons, List.all_nil, Bool.and_eq_true, Bool.and_true, and_assoc] at ht
  obtain ⟨h1, h2, h3, h4, rfl⟩ := hw
  obtain ⟨t1, t2, t3, t4, t5, t6, t7⟩ := ht
  have hus : (usingNorm us).map qc = us.map qc := by
    rcases h4 with rfl | ⟨u, m, rfl, hu⟩
    · rfl
    · simp only [List.all_cons, List.all_nil, Bool.and_true, Bool.and_eq_true] at t6
      simp [usingNorm, qc_kwT (n := "USING") hu t6.1 tokOk_USING]
  simp only [IdxHead.norm, IdxHead.mapT, optKws1_faith (n := "CONCURRENTLY") conc h1 t1 tokOk_CONCURRENTLY,
    optKws3_faith (n1 := "IF") (n2 := "NOT") (n3 := "EXISTS") ifne h2 t2 tokOk_IF tokOk_NOT tokOk_EXISTS,
    qc_kwT (n := "ON") h3 t4 tokOk_ON, hus]

theorem nullsD_faith (nl : List Tok)
    (hw : nl = [] ∨ isKwL nl [XK.NULLS, XK.DISTINCT] ∨ isKwL nl [XK.NULLS, XK.NOT, XK.DISTINCT]) (ht : nl.all tokOk = true) :
    (nullsDNorm nl).map qc = nl.map qc := by
  rcases hw with rfl | h | h
  · rfl
  · match nl, h with
    | [a, b], h =>
      simp only [nullsDNorm, List.map_cons, List.map_nil]
      exact kwL2_faith (n1 := "NULLS") (n2 := "DISTINCT") h ht tokOk_NULLS tokOk_DISTINCT
  · match nl, h with
    | [a, b, c], h =>
      simp only [nullsDNorm, List.map_cons, List.map_nil]
      exact kwL3_faith (n1 := "NULLS") (n2 := "NOT") (n3 := "DISTINCT") h ht tokOk_NULLS tokOk_NOT tokOk_DISTINCT

theorem idxTail_faith (tl : IdxTail) (hw : tl.WF) (hn : sepNormal (fun _ => true) tl.incl.ids = true)
    (hp : optPrintable tl.pred = true) (ht : tl.flatten.all tokOk = true) : tl.norm.mapT qc = tl.mapT qc := by
  obtain ⟨ik, inc, nl, wk, pred⟩ := tl
  simp only [IdxTail.WF] at hw
  simp only [IdxTail.flatten, List.all_append, Bool.and_eq_true, and_assoc] at ht
  obtain ⟨h1, h2, h3⟩ := hw
  obtain ⟨t1, t2, t3, t4, t5⟩ := ht
  have hw' := where_faith wk pred h3 hp t4 t5
  have hinc : (if inc.ids.isEmpty then [] else [kwT "INCLUDE"]).map qc = ik.map qc ∧ inc.norm.mapT qc = inc.mapT qc := by
    rcases h1 with ⟨rfl, rfl⟩ | ⟨k, rfl, hk, hlp, hrp, hne, hs⟩
    · exact ⟨rfl, rfl⟩
    · obtain ⟨lp, ids, rp⟩ := inc
      simp only at hlp hrp hne hs hn
      subst hlp; subst hrp
      have he : ids.isEmpty = false := by cases ids <;> simp_all
      simp only [List.all_cons, List.all_nil, Bool.and_true] at t1
      simp only [ParenIds.flatten, List.all_append, Bool.and_eq_true] at t2
      refine ⟨by simp [he, qc_kwT (n := "INCLUDE") hk t1 tokOk_INCLUDE], ?_⟩
      simp only [ParenIds.norm, he, Bool.false_eq_true, if_false, ParenIds.mapT, ids_faith ids hs hn t2.1.2]
  simp only [IdxTail.norm, IdxTail.mapT, hinc.1, hinc.2, nullsD_faith nl h2 t3, hw'.1, hw'.2]

theorem index_faith (i : CreateIndex) (hw : i.WF) (hn : i.normal = true) (hp : i.printable = true)
    (ht : i.flatten.all tokOk = true) : i.norm.mapT qc = i.mapT qc := by
  obtain ⟨kw, temp, ik, hd, cols, rp, tl⟩ := i
  simp only [CreateIndex.WF] at hw
  simp only [CreateIndex.normal, Bool.and_eq_true, List.isEmpty_iff] at hn
  simp only [CreateIndex.printable, Bool.and_eq_true] at hp
  simp only [CreateIndex.flatten, List.all_append, List.all_cons, Bool.and_eq_true, and_assoc] at ht
  obtain ⟨h1, h2, h3, h4, h5, rfl, h7⟩ := hw
  obtain ⟨⟨rfl, n2⟩, n3⟩ := hn
  obtain ⟨t1, t2, t3, t4, t5, t6, t7⟩ := ht
  have hik : (if ik.length == 2 then [kwT "UNIQUE", kwT "INDEX"] else [kwT "INDEX"]).map qc = ik.map qc := by
    rcases h2 with h | h
    · have hl := isKwL_length h
      have : (ik.length == 2) = false := by simp [hl]
      simp only [this, Bool.false_eq_true, if_false, List.map_cons, List.map_nil]
      exact kwL1_faith (n1 := "INDEX") h t3 tokOk_INDEX
    · have hl := isKwL_length h
      have : (ik.length == 2) = true := by simp [hl]
      simp only [this, if_true, List.map_cons, List.map_nil]
      exact kwL2_faith (n1 := "UNIQUE") (n2 := "INDEX") h t3 tokOk_UNIQUE tokOk_INDEX
  simp only [CreateIndex.norm, CreateIndex.mapT, qc_kwT (n := "CREATE") h1 t1 tokOk_CREATE, hik, idxHead_faith hd h3 t4,
    orders_faith cols h4 n2 hp.1 t5, idxTail_faith tl h7 n3 hp.2 t7, List.map_nil]

-- ------------------------------------------------------------------ ALTER TABLE
theorem ine_faith (l : List Tok) (hw : ineWF l) (ht : l.all tokOk = true) (hne : l ≠ []) : (ineNorm true).map qc = l.map qc := by
  rcases hw with rfl | h
  · exact absurd rfl hne
  · simp only [ineNorm, if_true, List.map_cons, List.map_nil]
    exact kwL3_faith (n1 := "IF") (n2 := "NOT") (n3 := "EXISTS") h ht tokOk_IF tokOk_NOT tokOk_EXISTS

theorem alterColOp_faith (ops : List Tok) (op : AlterColOp) (hw : op.WF ops) (hp : op.printable = true)
    (ht1 : ops.all tokOk = true) (ht2 : op.flatten.all tokOk = true) :
    op.kwsNorm.map qc = ops.map qc ∧ op.norm.mapT qc = op.mapT qc := by
  cases op with
  | setNotNull =>
    refine ⟨?_, rfl⟩
    simp only [AlterColOp.kwsNorm, List.map_cons, List.map_nil]
    exact kwL3_faith (n1 := "SET") (n2 := "NOT") (n3 := "NULL") hw ht1 tokOk_SET tokOk_NOT tokOk_NULL
  | dropNotNull =>
    refine ⟨?_, rfl⟩
    simp only [AlterColOp.kwsNorm, List.map_cons, List.map_nil]
    exact kwL3_faith (n1 := "DROP") (n2 := "NOT") (n3 := "NULL") hw ht1 tokOk_DROP tokOk_NOT tokOk_NULL
  | setDefault e =>
    simp only [AlterColOp.WF, AlterColOp.printable, AlterColOp.flatten] at hw hp ht2
    refine ⟨?_, ?_⟩
    · simp only [AlterColOp.kwsNorm, List.map_cons, List.map_nil]
      exact kwL2_faith (n1 := "SET") (n2 := "DEFAULT") hw.1 ht1 tokOk_SET tokOk_DEFAULT
    · simp only [AlterColOp.norm, AlterColOp.mapT, expr_faith e (hw.2 hp) hp (flatten_kwTokOk ht2)]
  | dropDefault =>
    refine ⟨?_, rfl⟩
    simp only [AlterColOp.kwsNorm, List.map_cons, List.map_nil]
    exact kwL2_faith (n1 := "DROP") (n2 := "DEFAULT") hw ht1 tokOk_DROP tokOk_DEFAULT

theorem alterOp_faith (op : AlterOp) (hw : op.WF) (hn : op.normal = true) (hp : op.printableQ = true)
    (ht : op.flatten.all tokOk = true) : op.norm.mapT qc = op.mapT qc := by
  cases op with
  | addColumn k i1 ck i2 keep cd =>
    simp only [AlterOp.WF] at hw
    simp only [AlterOp.normal, Bool.and_eq_true, Bool.or_eq_true, List.isEmpty_iff] at hn
    simp only [AlterOp.printableQ] at hp
    simp only [AlterOp.flatten, List.all_append, List.all_cons, Bool.and_eq_true, and_assoc] at ht
    obtain ⟨h1, h2, h3, h4, h5, h6⟩ := hw
    obtain ⟨⟨n1, n2⟩, n3⟩ := hn
    obtain ⟨t1, t2, t3, t4, t5⟩ := ht
    have hcd := colDef_faith cd h6 n1 hp t5
    have hck := optKws1_faith (n := "COLUMN") ck h3 t3 tokOk_COLUMN
    have hk := qc_kwT (n := "ADD") h1 t1 tokOk_ADD
    cases hcke : ck.isEmpty with
    | true =>
      have hck0 : ck = [] := by simpa using hcke
      subst hck0
      simp only [List.isEmpty_nil, if_true, List.isEmpty_iff] at n3
      subst n3
      by_cases hi : i1 = []
      · subst hi
        simp only [AlterOp.norm, AlterOp.mapT, List.isEmpty_nil, if_true, addIfne, Bool.not_true, Bool.or_self, Bool.and_false,
          ineNorm, Bool.false_eq_true, if_false, hk, hck, hcd, List.map_nil]
      · have hkeep : keep = true := by
          rcases n2 with ⟨h, _⟩ | h
          · exact absurd h hi
          · exact h
        subst hkeep
        have hne : i1.isEmpty = false := by cases i1 <;> simp_all
        simp only [AlterOp.norm, AlterOp.mapT, List.isEmpty_nil, if_true, addIfne, hne, Bool.not_false, Bool.true_or, Bool.and_self,
          hk, hck, hcd, ine_faith i1 h2 t2 hi, List.map_nil]
    | false =>
      have hckne : ck ≠ [] := by intro hh; simp [hh] at hcke
      simp only [hckne, if_false, List.isEmpty_iff] at n3
      subst n3
      by_cases hi : i2 = []
      · subst hi
        simp only [AlterOp.norm, AlterOp.mapT, hcke, Bool.false_eq_true, if_false, addIfne, List.isEmpty_nil, Bool.not_true,
          Bool.or_self, Bool.and_false, ineNorm, hk, hck, hcd, List.map_nil]
      · have hkeep : keep = true := by
          cases keep with
          | true => rfl
          | false => exact absurd (h5 rfl) hi
        subst hkeep
        have hne : i2.isEmpty = false := by cases i2 <;> simp_all
        simp only [AlterOp.norm, AlterOp.mapT, hcke, Bool.false_eq_true, if_false, addIfne, hne, Bool.not_false, Bool.or_true,
          Bool.and_self, hk, hck, hcd, ine_faith i2 h4 t4 hi, List.map_nil]
  | dropColumn k sw ck ie n cas =>
    simp only [AlterOp.WF] at hw
    simp only [AlterOp.normal, Bool.and_eq_true, Bool.not_eq_true', List.isEmpty_iff] at hn
    simp only [AlterOp.flatten, List.all_append, List.all_cons, Bool.and_eq_true, and_assoc] at ht
    obtain ⟨h1, h2, h3, h4⟩ := hw
    obtain ⟨rfl, n2⟩ := hn
    obtain ⟨t1, t2, t3, t4, t5, t6⟩ := ht
    have hck : [kwT "COLUMN"].map qc = ck.map qc := by
      have := optKws1_faith (n := "COLUMN") ck h2 t3 tokOk_COLUMN
      simpa [optKws, n2] using this
    simp only [AlterOp.norm, AlterOp.mapT, qc_kwT (n := "DROP") h1 t1 tokOk_DROP, hck,
      optKws2_faith (n1 := "IF") (n2 := "EXISTS") ie h3 t4 tokOk_IF tokOk_EXISTS,
      optKws1_faith (n := "CASCADE") cas h4 t6 tokOk_CASCADE, List.map_nil]
  | renameColumn k ck o t n =>
    simp only [AlterOp.WF] at hw
    simp only [AlterOp.normal, Bool.not_eq_true'] at hn
    simp only [AlterOp.flatten, List.all_append, List.all_cons, List.all_nil, Bool.and_eq_true, Bool.and_true, and_assoc] at ht
    obtain ⟨h1, h2, h3⟩ := hw
    obtain ⟨t1, t2, t3, t4, t5⟩ := ht
    have hck : [kwT "COLUMN"].map qc = ck.map qc := by
      have := optKws1_faith (n := "COLUMN") ck h2 t2 tokOk_COLUMN
      simpa [optKws, hn] using this
    simp only [AlterOp.norm, AlterOp.mapT, qc_kwT (n := "RENAME") h1 t1 tokOk_RENAME, hck, qc_kwT (n := "TO") h3 t4 tokOk_TO]
  | renameTable k t name =>
    simp only [AlterOp.WF] at hw
    simp only [AlterOp.flatten, List.all_cons, Bool.and_eq_true] at ht
    simp only [AlterOp.norm, AlterOp.mapT, qc_kwT (n := "RENAME") hw.1 ht.1 tokOk_RENAME, qc_kwT (n := "TO") hw.2 ht.2.1 tokOk_TO]
  | alterColumn k ck n ops op =>
    simp only [AlterOp.WF] at hw
    simp only [AlterOp.normal, Bool.not_eq_true'] at hn
    simp only [AlterOp.printableQ] at hp
    simp only [AlterOp.flatten, List.all_append, List.all_cons, Bool.and_eq_true, and_assoc] at ht
    obtain ⟨h1, h2, h3⟩ := hw
    obtain ⟨t1, t2, t3, t4, t5⟩ := ht
    have hck : [kwT "COLUMN"].map qc = ck.map qc := by
      have := optKws1_faith (n := "COLUMN") ck h2 t2 tokOk_COLUMN
      simpa [optKws, hn] using this
    have ho := alterColOp_faith ops op h3 hp t4 t5
    simp only [AlterOp.norm, AlterOp.mapT, qc_kwT (n := "ALTER") h1 t1 tokOk_ALTER, hck, ho.1, ho.2]

theorem alter_faith (a : AlterTable) (hw : a.WF) (hn : sepNormal AlterOp.normal a.ops = true)
    (hp : a.ops.all (fun p => p.1.printableQ) = true) (ht : a.flatten.all tokOk = true) : a.norm.mapT qc = a.mapT qc := by
  obtain ⟨kw, tk, ie, only, name, ops⟩ := a
  simp only [AlterTable.WF] at hw
  simp only [AlterTable.flatten, List.all_append, List.all_cons, Bool.and_eq_true, and_assoc] at ht
  obtain ⟨h1, h2, h3, h4, h5, h6⟩ := hw
  obtain ⟨t1, t2, t3, t4, t5, t6⟩ := ht
  have hs := sep_faith AlterOp.WF (fun op => op.normal && op.printableQ) AlterOp.flatten (AlterOp.mapT qc) AlterOp.norm
    (fun op h1 h2 h3 => by
      simp only [Bool.and_eq_true] at h2
      exact alterOp_faith op h1 h2.1 h2.2 h3) ops h5 (sepNormal_and _ _ _ hn hp) t6
  simp only [AlterTable.norm, AlterTable.mapT, qc_kwT (n := "ALTER") h1 t1 tokOk_ALTER, qc_kwT (n := "TABLE") h2 t2 tokOk_TABLE,
    optKws2_faith (n1 := "IF") (n2 := "EXISTS") ie h3 t3 tokOk_IF tokOk_EXISTS,
    optKws1_faith (n := "ONLY") only h4 t4 tokOk_ONLY, hs]

-- ------------------------------------------------------------------ TRUNCATE, DROP
theorem truncate_faith (t : Truncate) (hw : t.WF) (hn : sepNormal (fun _ => true) t.names = true)
    (ht : t.flatten.all tokOk = true) : t.norm.mapT qc = t.mapT qc := by
  obtain ⟨kw, tk, only, names, idn, cas⟩ := t
  simp only [Truncate.WF] at hw
  simp only [Truncate.flatten, List.all_append, List.all_cons, Bool.and_eq_true, and_assoc] at ht
  obtain ⟨h1, h2, h3, h4, h5, h6, h7⟩ := hw
  obtain ⟨t1, t2, t3, t4, t5, t6⟩ := ht
  simp only [Truncate.norm, Truncate.mapT, qc_kwT (n := "TRUNCATE") h1 t1 tokOk_TRUNCATE,
    optKws1_faith (n := "TABLE") tk h2 t2 tokOk_TABLE, optKws1_faith (n := "ONLY") only h3 t3 tokOk_ONLY,
    names_faith names h4 hn t4, kwNormToks_faith idn h6 t5, kwNormToks_faith cas h7 t6]

theorem dropObj_faith (d : Drop) (hw : dropObjWF d) (hn : d.normal = true) (ht : d.flatten.all tokOk = true) :
    (dropObjNorm d).mapT qc = d.mapT qc := by
  obtain ⟨kw, tk, ie, names, ca, re, pu⟩ := d
  simp only [dropObjWF, Drop.normal] at hw hn
  simp only [Drop.flatten, List.all_append, List.all_cons, Bool.and_eq_true, and_assoc] at ht
  obtain ⟨h1, h2, h3, h4, h5, h6, h7, h8⟩ := hw
  obtain ⟨t1, t2, t3, t4, t5, t6, t7⟩ := ht
  simp only [dropObjNorm, Drop.mapT, qc_kwT (n := "DROP") h1 t1 tokOk_DROP, kwNormTok_faith tk h2 t2,
    optKws2_faith (n1 := "IF") (n2 := "EXISTS") ie h3 t3 tokOk_IF tokOk_EXISTS, names_faith names h4 hn t4,
    optKws1_faith (n := "CASCADE") ca h6 t5 tokOk_CASCADE, optKws1_faith (n := "RESTRICT") re h7 t6 tokOk_RESTRICT,
    optKws1_faith (n := "PURGE") pu h8 t7 tokOk_PURGE]

-- ------------------------------------------------------------------ statements
/-- **faithfulness**: for a tree the statement parser can build (`WF`), printable, of normal shape and
made of lexer-like tokens, the printed normal form has the same image, slot by slot -/
theorem stmt_faith (s : Stmt) (hw : s.WF) (hn : s.normal = true) (hp : s.printableQ = true)
    (ht : s.flatten.all tokOk = true) : s.norm.mapT qc = s.mapT qc := by
  cases s with
  | createView v =>
    simp only [Stmt.printableQ, Bool.and_eq_true] at hp
    simp only [Stmt.norm, Stmt.mapT, view_faith v hw hn hp.2 ht]
  | createIndex i => simp only [Stmt.norm, Stmt.mapT, index_faith i hw hn hp ht]
  | alterTable a => simp only [Stmt.norm, Stmt.mapT, alter_faith a hw hn hp ht]
  | truncate t => simp only [Stmt.norm, Stmt.mapT, truncate_faith t hw hn ht]
  | dropObj d => simp only [Stmt.norm, Stmt.mapT, dropObj_faith d hw hn ht]
  | dml s0 => simp only [Stmt.norm, Stmt.mapT, SqlVerif.Dml.stmt_faith s0 hw hn hp ht]

theorem printableQ_typesLeaf (s : Stmt) (h : s.printableQ = true) : s.typesLeaf = true := by
  cases s with
  | createView v =>
    simp only [Stmt.printableQ, Bool.and_eq_true] at h
    exact h.1
  | alterTable a =>
    simp only [Stmt.printableQ, Stmt.typesLeaf, List.all_eq_true] at h ⊢
    intro p hp
    have := h p hp
    cases hop : p.1 with
    | addColumn k i1 ck i2 keep cd =>
      rw [hop] at this
      simp only [AlterOp.printableQ, ColDef.printableQ, Bool.and_eq_true] at this
      simp only [AlterOp.typesLeaf, this.1]
    | _ => rfl
  | dml s0 => exact SqlVerif.Dml.printableQ_typesLeaf s0 h
  | _ => rfl

end SqlVerif.Ddl

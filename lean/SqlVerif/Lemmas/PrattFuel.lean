import SqlVerif.Lemmas.PrattLemmas
/-!
Fuel lemmas for the Pratt model (`Model/Pratt.lean`), used by `Props/C02Parser.lean`.

* Part 1 — progress: the head functions consume at least one token (`prefixHead_len`,
  `infixHead_len`), hence `parsePrefix`, `parseInfix`, `parseSubexpr`, `parseItems` return a strictly
  shorter rest and `loop` a rest that is not longer.
* Part 2 — no function of the fragment *produces* `Err.fuel` except the fuel match itself
  (`*_ne_fuel`), and `nofuel_all`: with fuel `2 n + 2` (`parseSubexpr`, `parseInfix`), `2 n + 1`
  (`parsePrefix`), `2 n + 3` (`loop`, `parseItems`) for `n` remaining tokens no run answers `fuel`:
  every edge of the call graph either consumes a token or goes to a function of smaller rank.
* Part 3 — `fuel_mono_all`: a run under fuel `f` ran out of fuel or is the run under any `g ≥ f`.
* Part 4 — call counting: `costSubexpr` … count the calls of the five functions along the model's
  own run; `cost_all`: `≤ 4 n + 2` calls, amortised `< 4` per consumed token.
-/
namespace SqlVerif.Pratt

def PrefixPlan.rest : PrefixPlan → List Tok
  | .atom _ _ rest | .pre _ _ _ rest | .paren rest => rest

theorem compoundTail_len (acc ts toks rest : List Tok)
    (h : compoundTail acc ts = .ok (toks, rest)) : rest.length < ts.length := by
  fun_induction compoundTail acc ts <;> simp_all
  all_goals first | omega | (obtain ⟨_, rfl⟩ := h; simp)

theorem wordTail_len (c : Cfg) (t : Tok) (v : W) (rest : List Tok) (plan : PrefixPlan)
    (h : wordTail c t v rest = .ok plan) : plan.rest.length < (t :: rest).length := by
  unfold wordTail at h
  split at h
  · simp at h
  · split at h
    · simp at h
    · rename_i toks rest'' hc
      have := compoundTail_len _ _ _ _ hc
      split at h
      · simp at h
      · simp at h; subst h; simp [PrefixPlan.rest]; omega
  all_goals (repeat' split at h)
  all_goals first
    | (simp at h; done)
    | (simp at h; subst h; simp [PrefixPlan.rest])

theorem prefixHead_len (c : Cfg) (ts : List Tok) (plan : PrefixPlan)
    (h : prefixHead c ts = .ok plan) : plan.rest.length < ts.length := by
  unfold prefixHead at h
  repeat' split at h
  all_goals first
    | (simp at h; done)
    | exact wordTail_len _ _ _ _ _ h
    | (simp at h; subst h; simp [PrefixPlan.rest]; done)
    | (simp at h; subst h; simp [PrefixPlan.rest]; omega)

theorem notFamilyTail_ops_ne (c : Cfg) (neg : Bool) (pre ts : List Tok) (plan : InfixPlan)
    (h : notFamilyTail c neg pre ts = .ok plan) : plan.ops ≠ [] := by
  unfold notFamilyTail at h
  repeat' split at h
  all_goals first
    | (simp at h; done)
    | (simp at h; subst h; simp [InfixPlan.ops])

theorem infixHead_ops_ne (c : Cfg) (d q : Nat) (ts : List Tok) (plan : InfixPlan)
    (h : infixHead c d q ts = .ok plan) : plan.ops ≠ [] := by
  unfold infixHead at h
  repeat' split at h
  all_goals first
    | (simp at h; done)
    | (simp at h; subst h; simp [InfixPlan.ops]; done)
    | exact notFamilyTail_ops_ne _ _ _ _ _ h

theorem infixHead_len (c : Cfg) (d q : Nat) (ts : List Tok) (plan : InfixPlan)
    (h : infixHead c d q ts = .ok plan) : plan.rest.length < ts.length := by
  have h1 := infixHead_yield c d q ts plan h
  have h2 := infixHead_ops_ne c d q ts plan h
  have : plan.ops.length ≠ 0 := by simpa using h2
  rw [h1]; simp; omega

theorem escapeTail_len (c : Cfg) (ts : List Tok) (o : Option (List Tok × List Tok))
    (h : escapeTail c ts = .ok o) : ∀ esc rest, o = some (esc, rest) → rest.length ≤ ts.length := by
  intro esc rest ho
  subst ho
  have := escapeTail_yield c ts esc rest h
  rw [this]; simp


theorem subexpr_le {c : Cfg} {f d p : Nat} {ts : List Tok} {e : Expr} {rest : List Tok}
    (h : parseSubexpr c f d p ts = .ok (e, rest)) : rest.length ≤ ts.length := by
  rw [(yield_all c f).1 _ _ _ _ _ h]; simp

theorem items_le {c : Cfg} {f d : Nat} {ts : List Tok} {e : Expr} {rest : List Tok}
    (h : parseItems c f d ts = .ok (e, rest)) : rest.length ≤ ts.length := by
  rw [(yield_all c f).2.2.2.2 _ _ _ _ h]; simp

theorem prefix_lt {c : Cfg} {f d : Nat} {ts : List Tok} {e : Expr} {rest : List Tok}
    (h : parsePrefix c f d ts = .ok (e, rest)) : rest.length < ts.length := by
  cases f with
  | zero => simp [parsePrefix] at h
  | succ f =>
    simp only [parsePrefix] at h
    split at h
    · simp at h
    split at h
    · simp at h
    all_goals (rename_i hh; have hl := prefixHead_len _ _ _ hh; simp only [PrefixPlan.rest] at hl)
    · obtain ⟨rfl, rfl⟩ := collateCheck_ok h; exact hl
    · split at h
      · simp at h
      · rename_i e1 r1 hs
        have := subexpr_le hs
        obtain ⟨rfl, rfl⟩ := collateCheck_ok h; omega
    · split at h
      · simp at h
      · rename_i e1 r1 hs
        have := subexpr_le hs
        split at h
        · simp at h
        · split at h
          · simp at h
          · obtain ⟨rfl, rfl⟩ := collateCheck_ok h; simp at this; omega
        · simp at h

theorem infix_lt {c : Cfg} {f d : Nat} {e0 : Expr} {q : Nat} {ts : List Tok} {e : Expr} {rest : List Tok}
    (h : parseInfix c f d e0 q ts = .ok (e, rest)) : rest.length < ts.length := by
  cases f with
  | zero => simp [parseInfix] at h
  | succ f =>
    simp only [parseInfix] at h
    split at h
    · simp at h
    all_goals (rename_i hh; have hl := infixHead_len _ _ _ _ _ hh; simp only [InfixPlan.rest] at hl)
    · split at h
      · simp at h
      · rename_i r rest' hs
        have := subexpr_le hs
        simp at h; obtain ⟨rfl, rfl⟩ := h; omega
    · simp at h; obtain ⟨rfl, rfl⟩ := h; exact hl
    · split at h
      · simp at h
      · rename_i pat rest' hs
        have := subexpr_le hs
        split at h
        · simp at h
        · simp at h; obtain ⟨rfl, rfl⟩ := h; omega
        · rename_i esc rest'' he
          have hesc := escapeTail_yield _ _ _ _ he
          simp at h; obtain ⟨rfl, rfl⟩ := h
          rw [hesc] at this; simp at this; omega
    · split at h
      · simp at h
      · rename_i lo rest' hs
        have h1 := subexpr_le hs
        split at h
        · simp at h
        · rename_i andTok rest'' ha
          have h2 := (eatKw_some_iff _ _ _ _).1 ha
          split at h
          · simp at h
          · rename_i hi rest3 hs2
            have h3 := subexpr_le hs2
            simp at h; obtain ⟨rfl, rfl⟩ := h
            rw [h2.1] at h1; simp at h1; omega
    · split at h
      · simp at h
      · split at h
        · simp at h; obtain ⟨rfl, rfl⟩ := h
          simp at hl; omega
        · split at h
          · simp at h
          · rename_i items rest' hs
            have h1 := items_le hs
            split at h
            · simp at h; obtain ⟨rfl, rfl⟩ := h
              simp at h1; omega
            · simp at h
    · split at h
      · simp at h
      · rename_i r rest' hs
        have h1 := subexpr_le hs
        split at h
        · split at h
          · simp at h; obtain ⟨rfl, rfl⟩ := h
            simp at h1; omega
          · simp at h
        · simp at h

theorem loop_le {c : Cfg} {f d p : Nat} {e0 : Expr} {ts : List Tok} {e : Expr} {rest : List Tok}
    (h : loop c f d p e0 ts = .ok (e, rest)) : rest.length ≤ ts.length := by
  induction f generalizing e0 ts with
  | zero => simp [loop] at h
  | succ f ih =>
    simp only [loop] at h
    split at h
    · simp at h; obtain ⟨rfl, rfl⟩ := h; exact Nat.le_refl _
    · split at h
      · simp at h
      · rename_i e1 ts1 hi
        have := infix_lt hi
        have := ih h
        omega

theorem subexpr_lt {c : Cfg} {f d p : Nat} {ts : List Tok} {e : Expr} {rest : List Tok}
    (h : parseSubexpr c f d p ts = .ok (e, rest)) : rest.length < ts.length := by
  cases f with
  | zero => simp [parseSubexpr] at h
  | succ f =>
    cases d with
    | zero => simp [parseSubexpr] at h
    | succ d =>
      simp only [parseSubexpr] at h
      split at h
      · simp at h
      · rename_i e0 ts' hp
        have := prefix_lt hp
        have := loop_le h
        omega


@[simp] theorem expected_ne_fuel (w : String) (t : Option Tok) : expected w t ≠ .fuel := by
  unfold expected; split <;> simp

@[simp] theorem noInfix_ne_fuel (t : Option Tok) : noInfix t ≠ .fuel := by
  unfold noInfix; split <;> simp

@[simp] theorem quantMsg_ne_fuel (o : BinOp) : quantMsg o ≠ .fuel := by
  simp [quantMsg]

theorem compoundTail_ne_fuel (acc ts : List Tok) : compoundTail acc ts ≠ .error .fuel := by
  fun_induction compoundTail acc ts <;> simp_all

theorem wordTail_ne_fuel (c : Cfg) (t : Tok) (v : W) (rest : List Tok) : wordTail c t v rest ≠ .error .fuel := by
  unfold wordTail
  repeat' split
  all_goals first
    | (simp; done)
    | (rename_i hc; intro h; simp at h; subst h; exact compoundTail_ne_fuel _ _ hc)

theorem prefixHead_ne_fuel (c : Cfg) (ts : List Tok) : prefixHead c ts ≠ .error .fuel := by
  unfold prefixHead
  repeat' split
  all_goals first
    | (simp; done)
    | exact wordTail_ne_fuel _ _ _ _

theorem collateCheck_ne_fuel (e : Expr) (rest : List Tok) : collateCheck e rest ≠ .error .fuel := by
  unfold collateCheck; split <;> simp

theorem notFamilyTail_ne_fuel (c : Cfg) (neg : Bool) (pre ts : List Tok) : notFamilyTail c neg pre ts ≠ .error .fuel := by
  unfold notFamilyTail
  repeat' split
  all_goals (simp; done)

theorem infixHead_ne_fuel (c : Cfg) (d q : Nat) (ts : List Tok) : infixHead c d q ts ≠ .error .fuel := by
  unfold infixHead
  repeat' split
  all_goals first
    | (simp; done)
    | exact notFamilyTail_ne_fuel _ _ _ _

theorem escapeTail_ne_fuel (c : Cfg) (ts : List Tok) : escapeTail c ts ≠ .error .fuel := by
  unfold escapeTail
  repeat' split
  all_goals (simp; done)


theorem nofuel_all (c : Cfg) (f : Nat) :
    (∀ d p ts, 2 * ts.length + 2 ≤ f → parseSubexpr c f d p ts ≠ .error .fuel) ∧
    (∀ d p e ts, 2 * ts.length + 3 ≤ f → loop c f d p e ts ≠ .error .fuel) ∧
    (∀ d ts, 2 * ts.length + 1 ≤ f → parsePrefix c f d ts ≠ .error .fuel) ∧
    (∀ d e q ts, 2 * ts.length + 2 ≤ f → parseInfix c f d e q ts ≠ .error .fuel) ∧
    (∀ d ts, 2 * ts.length + 3 ≤ f → parseItems c f d ts ≠ .error .fuel) := by
  induction f with
  | zero => refine ⟨?_, ?_, ?_, ?_, ?_⟩ <;> intros <;> omega
  | succ f ih =>
    obtain ⟨ihS, ihL, ihP, ihI, ihT⟩ := ih
    refine ⟨?_, ?_, ?_, ?_, ?_⟩
    · intro d p ts hf
      cases d with
      | zero => simp [parseSubexpr]
      | succ d =>
        simp only [parseSubexpr]
        split
        · rename_i er hp
          intro h; simp at h; subst h
          exact ihP _ _ (by omega) hp
        · rename_i e ts' hp
          have := prefix_lt hp
          exact ihL _ _ _ _ (by omega)
    · intro d p e ts hf
      simp only [loop]
      split
      · simp
      · split
        · rename_i er hi
          intro h; simp at h; subst h
          exact ihI _ _ _ _ (by omega) hi
        · rename_i e' ts' hi
          have := infix_lt hi
          exact ihL _ _ _ _ (by omega)
    · intro d ts hf
      simp only [parsePrefix]
      split
      · simp
      split
      · rename_i er hh; intro h; simp at h; subst h; exact prefixHead_ne_fuel _ _ hh
      all_goals (rename_i hh; have hl := prefixHead_len _ _ _ hh; simp only [PrefixPlan.rest] at hl)
      · exact collateCheck_ne_fuel _ _
      · split
        · rename_i er hs; intro h; simp at h; subst h; exact ihS _ _ _ (by omega) hs
        · exact collateCheck_ne_fuel _ _
      · split
        · rename_i er hs; intro h; simp at h; subst h; exact ihS _ _ _ (by omega) hs
        · split
          · simp
          · split
            · simp
            · exact collateCheck_ne_fuel _ _
          · simp
    · intro d e q ts hf
      simp only [parseInfix]
      split
      · rename_i er hh; intro h; simp at h; subst h; exact infixHead_ne_fuel _ _ _ _ hh
      all_goals (rename_i hh; have hl := infixHead_len _ _ _ _ _ hh; simp only [InfixPlan.rest] at hl)
      · split
        · rename_i er hs; intro h; simp at h; subst h; exact ihS _ _ _ (by omega) hs
        · simp
      · simp
      · split
        · rename_i er hs; intro h; simp at h; subst h; exact ihS _ _ _ (by omega) hs
        · split
          · rename_i er he; intro h; simp at h; subst h; exact escapeTail_ne_fuel _ _ he
          · simp
          · simp
      · split
        · rename_i er hs; intro h; simp at h; subst h; exact ihS _ _ _ (by omega) hs
        · rename_i lo rest' hs
          have h1 := subexpr_le hs
          split
          · simp
          · rename_i andTok rest'' ha
            have h2 := (eatKw_some_iff _ _ _ _).1 ha
            rw [h2.1] at h1; simp at h1
            split
            · rename_i er hs2; intro h; simp at h; subst h; exact ihS _ _ _ (by omega) hs2
            · simp
      · split
        · simp
        · split
          · simp
          · split
            · rename_i er hs; intro h; simp at h; subst h; exact ihT _ _ (by omega) hs
            · split <;> simp
      · split
        · rename_i er hs; intro h; simp at h; subst h; exact ihS _ _ _ (by omega) hs
        · split
          · split <;> simp
          · simp
    · intro d ts hf
      simp only [parseItems]
      split
      · rename_i er hs; intro h; simp at h; subst h; exact ihS _ _ _ (by omega) hs
      · rename_i e rest hs
        have h1 := subexpr_le hs
        split
        · split
          · simp
          · simp at h1
            split
            · rename_i er ht; intro h; simp at h; subst h; exact ihT _ _ (by omega) ht
            · simp
        · simp

/-- "ran out of fuel, or is the same outcome" -/
def FuelRel {α : Type} (x y : Except Err α) : Prop := x = .error .fuel ∨ x = y

theorem FuelRel.refl {α : Type} (x : Except Err α) : FuelRel x x := Or.inr rfl

theorem FuelRel.eq_of_ne {α : Type} {x y : Except Err α} (h : FuelRel x y) (hx : x ≠ .error .fuel) : y = x := by
  rcases h with h | h
  · exact absurd h hx
  · exact h.symm

theorem fuel_mono_all (c : Cfg) (f : Nat) : ∀ g, f ≤ g →
    (∀ d p ts, FuelRel (parseSubexpr c f d p ts) (parseSubexpr c g d p ts)) ∧
    (∀ d p e ts, FuelRel (loop c f d p e ts) (loop c g d p e ts)) ∧
    (∀ d ts, FuelRel (parsePrefix c f d ts) (parsePrefix c g d ts)) ∧
    (∀ d e q ts, FuelRel (parseInfix c f d e q ts) (parseInfix c g d e q ts)) ∧
    (∀ d ts, FuelRel (parseItems c f d ts) (parseItems c g d ts)) := by
  induction f with
  | zero =>
    intro g _
    refine ⟨?_, ?_, ?_, ?_, ?_⟩ <;> intros <;> left <;> simp [parseSubexpr, loop, parsePrefix, parseInfix, parseItems]
  | succ f ih =>
    intro g hg
    obtain ⟨g, rfl⟩ : ∃ g', g = g' + 1 := ⟨g - 1, by omega⟩
    obtain ⟨ihS, ihL, ihP, ihI, ihT⟩ := ih g (by omega)
    refine ⟨?_, ?_, ?_, ?_, ?_⟩
    · -- parseSubexpr
      intro d p ts
      cases d with
      | zero => right; simp [parseSubexpr]
      | succ d =>
        simp only [parseSubexpr]
        rcases ihP d ts with h1 | h1
        · left; rw [h1]
        · rw [h1]
          cases parsePrefix c g d ts with
          | error er => right; rfl
          | ok v => obtain ⟨e, ts'⟩ := v; exact ihL d p e ts'
    · -- loop
      intro d p e ts
      simp only [loop]
      split
      · right; rfl
      · rcases ihI d e (nextPrec c ts) ts with h1 | h1
        · left; rw [h1]
        · rw [h1]
          cases parseInfix c g d e (nextPrec c ts) ts with
          | error er => right; rfl
          | ok v => obtain ⟨e', ts'⟩ := v; exact ihL d p e' ts'
    · -- parsePrefix
      intro d ts
      simp only [parsePrefix]
      split
      · right; rfl
      cases prefixHead c ts with
      | error er => right; rfl
      | ok plan =>
        cases plan with
        | atom k toks rest => right; rfl
        | pre o t p rest =>
          simp only
          rcases ihS d p rest with h1 | h1
          · left; rw [h1]
          · right; rw [h1]
        | paren rest =>
          simp only
          rcases ihS d c.prec.unknown rest with h1 | h1
          · left; rw [h1]
          · right; rw [h1]
    · -- parseInfix
      intro d e q ts
      simp only [parseInfix]
      cases infixHead c d q ts with
      | error er => right; rfl
      | ok plan =>
        cases plan with
        | right k ops rest p =>
          simp only
          rcases ihS d p rest with h1 | h1
          · left; rw [h1]
          · right; rw [h1]
        | post k ops rest => right; rfl
        | like k neg any ops rest =>
          simp only
          rcases ihS d c.prec.pLike rest with h1 | h1
          · left; rw [h1]
          · right; rw [h1]
        | between neg ops rest =>
          simp only
          rcases ihS d c.prec.pBetween rest with h1 | h1
          · left; rw [h1]
          · rw [h1]
            cases parseSubexpr c g d c.prec.pBetween rest with
            | error er => right; rfl
            | ok v =>
              obtain ⟨lo, rest'⟩ := v
              simp only
              cases eatKw rest' KW.AND with
              | none => right; rfl
              | some w =>
                obtain ⟨andTok, rest''⟩ := w
                simp only
                rcases ihS d c.prec.pBetween rest'' with h2 | h2
                · left; rw [h2]
                · right; rw [h2]
        | inl neg ops rest =>
          simp only
          split
          · right; rfl
          · split
            · right; rfl
            · rename_i r0 _ _ _ _
              rcases ihT d r0 with h1 | h1
              · left; rw [h1]
              · right; rw [h1]
        | quant o qk ops rest p =>
          simp only
          rcases ihS d p rest with h1 | h1
          · left; rw [h1]
          · right; rw [h1]
    · -- parseItems
      intro d ts
      simp only [parseItems]
      rcases ihS d c.prec.unknown ts with h1 | h1
      · left; rw [h1]
      · rw [h1]
        cases parseSubexpr c g d c.prec.unknown ts with
        | error er => right; rfl
        | ok v =>
          obtain ⟨e, rest⟩ := v
          simp only
          split
          · split
            · right; rfl
            · rename_i rest' _
              rcases ihT d rest' with h2 | h2
              · left; rw [h2]
              · right; rw [h2]
          · right; rfl


/-- the `IN ()` test of `parse_in` -/
def inlEmpty (c : Cfg) (rest : List Tok) : Bool :=
  match c.inEmptyList, rest with
  | true, .sym .RParen :: _ => true
  | _, _ => false

theorem inlEmpty_true {c : Cfg} {rest : List Tok} (h : inlEmpty c rest = true) :
    c.inEmptyList = true ∧ ∃ r, rest = .sym .RParen :: r := by
  unfold inlEmpty at h
  split at h
  · rename_i heq; exact ⟨heq, _, rfl⟩
  · simp at h

mutual
def costSubexpr (c : Cfg) : Nat → Nat → Nat → List Tok → Nat
  | 0, _, _, _ => 1
  | _ + 1, 0, _, _ => 1
  | f + 1, d + 1, p, ts =>
    1 + costPrefix c f d ts +
      (match parsePrefix c f d ts with
       | .error _ => 0
       | .ok (e, ts') => costLoop c f d p e ts')
def costLoop (c : Cfg) : Nat → Nat → Nat → Expr → List Tok → Nat
  | 0, _, _, _, _ => 1
  | f + 1, d, p, e, ts =>
    if p ≥ nextPrec c ts then 1
    else
      1 + costInfix c f d e (nextPrec c ts) ts +
        (match parseInfix c f d e (nextPrec c ts) ts with
         | .error _ => 0
         | .ok (e', ts') => costLoop c f d p e' ts')
def costPrefix (c : Cfg) : Nat → Nat → List Tok → Nat
  | 0, _, _ => 1
  | f + 1, d, ts =>
    if d = 0 then 1 else
    match prefixHead c ts with
    | .error _ => 1
    | .ok (.atom _ _ _) => 1
    | .ok (.pre _ _ p rest) => 1 + costSubexpr c f d p rest
    | .ok (.paren rest) => 1 + costSubexpr c f d c.prec.unknown rest
def costInfix (c : Cfg) : Nat → Nat → Expr → Nat → List Tok → Nat
  | 0, _, _, _, _ => 1
  | f + 1, d, _, q, ts =>
    match infixHead c d q ts with
    | .error _ => 1
    | .ok (.right _ _ rest p) => 1 + costSubexpr c f d p rest
    | .ok (.post _ _ _) => 1
    | .ok (.like _ _ _ _ rest) => 1 + costSubexpr c f d c.prec.pLike rest
    | .ok (.between _ _ rest) =>
      1 + costSubexpr c f d c.prec.pBetween rest +
        (match parseSubexpr c f d c.prec.pBetween rest with
         | .error _ => 0
         | .ok (_, rest') =>
           match eatKw rest' KW.AND with
           | none => 0
           | some (_, rest'') => costSubexpr c f d c.prec.pBetween rest'')
    | .ok (.inl _ _ rest) =>
      if c.trailingCommas && peekSym rest .Comma then 1
      else
      if inlEmpty c rest then 1 else 1 + costItems c f d rest
    | .ok (.quant _ _ _ rest p) => 1 + costSubexpr c f d p rest
def costItems (c : Cfg) : Nat → Nat → List Tok → Nat
  | 0, _, _ => 1
  | f + 1, d, ts =>
    1 + costSubexpr c f d c.prec.unknown ts +
      (match parseSubexpr c f d c.prec.unknown ts with
       | .error _ => 0
       | .ok (_, rest) =>
         match rest with
         | .sym .Comma :: rest' =>
           if c.trailingCommas && listEndAhead rest' then 0 else costItems c f d rest'
         | _ => 0)
end


theorem cost_all (c : Cfg) (f : Nat) :
    (∀ d p ts, (∀ e rest, parseSubexpr c f d p ts = .ok (e, rest) →
        costSubexpr c f d p ts + 1 + 4 * rest.length ≤ 4 * ts.length) ∧
      costSubexpr c f d p ts ≤ 4 * ts.length + 2) ∧
    (∀ d p e0 ts, (∀ e rest, loop c f d p e0 ts = .ok (e, rest) →
        costLoop c f d p e0 ts + 4 * rest.length ≤ 4 * ts.length + 1) ∧
      costLoop c f d p e0 ts ≤ 4 * ts.length + 2) ∧
    (∀ d ts, (∀ e rest, parsePrefix c f d ts = .ok (e, rest) →
        costPrefix c f d ts + 3 + 4 * rest.length ≤ 4 * ts.length) ∧
      costPrefix c f d ts ≤ 4 * ts.length + 1) ∧
    (∀ d e0 q ts, (∀ e rest, parseInfix c f d e0 q ts = .ok (e, rest) →
        costInfix c f d e0 q ts + 1 + 4 * rest.length ≤ 4 * ts.length) ∧
      costInfix c f d e0 q ts ≤ 4 * ts.length + 1) ∧
    (∀ d ts, (∀ e rest, parseItems c f d ts = .ok (e, rest) →
        costItems c f d ts + 4 * rest.length ≤ 4 * ts.length) ∧
      costItems c f d ts ≤ 4 * ts.length + 3) := by
  induction f with
  | zero =>
    refine ⟨?_, ?_, ?_, ?_, ?_⟩ <;> intros <;>
      simp [parseSubexpr, loop, parsePrefix, parseInfix, parseItems, costSubexpr, costLoop, costPrefix,
        costInfix, costItems]
  | succ f ih =>
    obtain ⟨ihS, ihL, ihP, ihI, ihT⟩ := ih
    refine ⟨?_, ?_, ?_, ?_, ?_⟩
    · -- parseSubexpr
      intro d p ts
      cases d with
      | zero => simp [parseSubexpr, costSubexpr]
      | succ d =>
        simp only [parseSubexpr, costSubexpr]
        have hP := ihP d ts
        cases hp : parsePrefix c f d ts with
        | error er => simp; omega
        | ok v =>
          obtain ⟨e0, ts'⟩ := v
          have h1 := hP.1 _ _ hp
          have hL := ihL d p e0 ts'
          simp only
          refine ⟨?_, by omega⟩
          intro e rest h
          have := hL.1 _ _ h
          omega
    · -- loop
      intro d p e0 ts
      simp only [loop, costLoop]
      split
      · refine ⟨?_, by omega⟩
        intro e rest h; simp at h; obtain ⟨_, rfl⟩ := h; omega
      · have hI := ihI d e0 (nextPrec c ts) ts
        cases hi : parseInfix c f d e0 (nextPrec c ts) ts with
        | error er => simp; omega
        | ok v =>
          obtain ⟨e1, ts1⟩ := v
          have h1 := hI.1 _ _ hi
          have hL := ihL d p e1 ts1
          simp only
          refine ⟨?_, by omega⟩
          intro e rest h
          have := hL.1 _ _ h
          omega
    · -- parsePrefix
      intro d ts
      simp only [parsePrefix, costPrefix]
      split
      · simp
      cases hh : prefixHead c ts with
      | error er => simp
      | ok plan =>
        have hl := prefixHead_len _ _ _ hh
        cases plan with
        | atom k toks rest =>
          simp only [PrefixPlan.rest] at hl ⊢
          refine ⟨?_, by omega⟩
          intro e r h; obtain ⟨_, rfl⟩ := collateCheck_ok h; omega
        | pre o t p rest =>
          simp only [PrefixPlan.rest] at hl ⊢
          have hS := ihS d p rest
          refine ⟨?_, by omega⟩
          intro e r h
          split at h
          · simp at h
          · rename_i e1 r1 hs
            have := hS.1 _ _ hs
            obtain ⟨_, rfl⟩ := collateCheck_ok h; omega
        | paren rest =>
          simp only [PrefixPlan.rest] at hl ⊢
          have hS := ihS d c.prec.unknown rest
          refine ⟨?_, by omega⟩
          intro e r h
          split at h
          · simp at h
          · rename_i e1 r1 hs
            have := hS.1 _ _ hs
            split at h
            · simp at h
            · split at h
              · simp at h
              · obtain ⟨_, rfl⟩ := collateCheck_ok h; simp at this; omega
            · simp at h
    · -- parseInfix
      intro d e0 q ts
      simp only [parseInfix, costInfix]
      cases hh : infixHead c d q ts with
      | error er => simp
      | ok plan =>
        have hl := infixHead_len _ _ _ _ _ hh
        cases plan with
        | right k ops rest p =>
          simp only [InfixPlan.rest] at hl ⊢
          have hS := ihS d p rest
          refine ⟨?_, by omega⟩
          intro e r h
          split at h
          · simp at h
          · rename_i e1 r1 hs
            have := hS.1 _ _ hs
            simp at h; obtain ⟨_, rfl⟩ := h; omega
        | post k ops rest =>
          simp only [InfixPlan.rest] at hl ⊢
          refine ⟨?_, by omega⟩
          intro e r h
          simp at h; obtain ⟨_, rfl⟩ := h; omega
        | like k neg any ops rest =>
          simp only [InfixPlan.rest] at hl ⊢
          have hS := ihS d c.prec.pLike rest
          refine ⟨?_, by omega⟩
          intro e r h
          split at h
          · simp at h
          · rename_i e1 r1 hs
            have := hS.1 _ _ hs
            split at h
            · simp at h
            · simp at h; obtain ⟨_, rfl⟩ := h; omega
            · rename_i esc rest'' he
              have hesc := escapeTail_yield _ _ _ _ he
              simp at h; obtain ⟨_, rfl⟩ := h
              rw [hesc] at this; simp at this; omega
        | between neg ops rest =>
          simp only [InfixPlan.rest] at hl ⊢
          have hS := ihS d c.prec.pBetween rest
          cases hs : parseSubexpr c f d c.prec.pBetween rest with
          | error er => simp; omega
          | ok v =>
            obtain ⟨lo, rest'⟩ := v
            have h1 := hS.1 _ _ hs
            simp only
            cases ha : eatKw rest' KW.AND with
            | none => simp; omega
            | some w =>
              obtain ⟨andTok, rest''⟩ := w
              have h2 := (eatKw_some_iff _ _ _ _).1 ha
              rw [h2.1] at h1; simp at h1
              have hS2 := ihS d c.prec.pBetween rest''
              simp only
              refine ⟨?_, by omega⟩
              intro e r h
              split at h
              · simp at h
              · rename_i hi r3 hs2
                have := hS2.1 _ _ hs2
                simp at h; obtain ⟨_, rfl⟩ := h; omega
        | inl neg ops rest =>
          simp only [InfixPlan.rest] at hl ⊢
          by_cases hc : (c.trailingCommas && peekSym rest .Comma) = true
          · simp [hc]
          · simp only [hc, Bool.false_eq_true, ↓reduceIte]
            have hT := ihT d rest
            cases hE : inlEmpty c rest with
            | true =>
              simp only [↓reduceIte]
              refine ⟨?_, by omega⟩
              intro e r h
              obtain ⟨hI, r', rfl⟩ := inlEmpty_true hE
              simp only [hI] at h
              simp at h; obtain ⟨_, rfl⟩ := h; simp at hl; omega
            | false =>
              simp only [Bool.false_eq_true, ↓reduceIte]
              refine ⟨?_, by omega⟩
              intro e r h
              split at h
              · rename_i heq; simp [inlEmpty, heq] at hE
              · split at h
                · simp at h
                · rename_i items r1 ht
                  have := hT.1 _ _ ht
                  split at h
                  · simp at h; obtain ⟨_, rfl⟩ := h; simp at this; omega
                  · simp at h
        | quant o qk ops rest p =>
          simp only [InfixPlan.rest] at hl ⊢
          have hS := ihS d p rest
          refine ⟨?_, by omega⟩
          intro e r h
          split at h
          · simp at h
          · rename_i e1 r1 hs
            have := hS.1 _ _ hs
            split at h
            · split at h
              · simp at h; obtain ⟨_, rfl⟩ := h; simp at this; omega
              · simp at h
            · simp at h
    · -- parseItems
      intro d ts
      simp only [parseItems, costItems]
      have hS := ihS d c.prec.unknown ts
      cases hs : parseSubexpr c f d c.prec.unknown ts with
      | error er => simp; omega
      | ok v =>
        obtain ⟨e1, r1⟩ := v
        have h1 := hS.1 _ _ hs
        simp only
        split
        · rename_i rest'
          simp at h1
          simp only
          by_cases hc : (c.trailingCommas && listEndAhead rest') = true
          · simp [hc]; omega
          · simp only [hc, Bool.false_eq_true, ↓reduceIte]
            have hT := ihT d rest'
            refine ⟨?_, by omega⟩
            intro e r h
            split at h
            · simp at h
            · rename_i items r2 ht
              have := hT.1 _ _ ht
              simp at h; obtain ⟨_, rfl⟩ := h; omega
        · rename_i hne
          split
          · rename_i rest' ; exact absurd rfl (hne rest')
          · refine ⟨?_, by omega⟩
            intro e r h
            simp at h; obtain ⟨_, rfl⟩ := h; omega

end SqlVerif.Pratt

import SqlVerif.Model.Keywords
/-! Correctness of binary search over a strictly sorted table. -/
namespace SqlVerif.Keywords

theorem ltW_irrefl : ∀ a : W, ltW a a = false
  | [] => rfl
  | x :: xs => by simp [ltW, ltW_irrefl xs]

theorem ltW_trans : ∀ a b c : W, ltW a b = true → ltW b c = true → ltW a c = true
  | [], [], _, h, _ => by simp [ltW] at h
  | [], _ :: _, [], _, h => by simp [ltW] at h
  | [], _ :: _, _ :: _, _, _ => by simp [ltW]
  | _ :: _, [], _, h, _ => by simp [ltW] at h
  | _ :: _, _ :: _, [], _, h => by simp [ltW] at h
  | x :: xs, y :: ys, z :: zs, h1, h2 => by
    simp only [ltW] at h1 h2 ⊢
    by_cases hxy : x < y
    · by_cases hyz : y < z
      · have : x < z := Nat.lt_trans hxy hyz
        simp [this]
      · by_cases hzy : z < y
        · simp [hyz, hzy] at h2
        · have : y = z := by omega
          subst this; simp [hxy]
    · by_cases hyx : y < x
      · simp [hxy, hyx] at h1
      · have hxy' : x = y := by omega
        subst hxy'
        by_cases hxz : x < z
        · simp [hxz]
        · by_cases hzx : z < x
          · simp [hxz, hzx] at h2
          · simp [hxz, hzx] at h2 ⊢
            simp [hxy] at h1
            exact ltW_trans xs ys zs h1 h2

/-- every adjacent pair is strictly increasing (decidable, checked on the generated table) -/
def adjSorted : List W → Bool
  | [] => true
  | [_] => true
  | a :: b :: rest => ltW a b && adjSorted (b :: rest)

/-- strict sortedness as a statement about indices -/
def StrictSorted (t : Array W) : Prop :=
  ∀ i j, i < j → j < t.size → ltW t[i]! t[j]! = true

theorem adjSorted_pairwise : ∀ (l : List W), adjSorted l = true →
    ∀ i j, i < j → j < l.length → ltW l[i]! l[j]! = true
  | [], _, _, j, _, hj => by simp at hj
  | [_], _, i, j, hij, hj => by simp at hj; omega
  | a :: b :: rest, h, i, j, hij, hj => by
    simp only [adjSorted, Bool.and_eq_true] at h
    have ih := adjSorted_pairwise (b :: rest) h.2
    match i, j with
    | _, 0 => omega
    | 0, 1 => simpa using h.1
    | 0, j + 2 =>
      have h1 : ltW b (b :: rest)[j + 1]! = true := by
        have := ih 0 (j + 1) (by omega) (by simp at hj ⊢; omega)
        simpa using this
      have : ltW a (b :: rest)[j + 1]! = true := ltW_trans _ _ _ h.1 h1
      simpa using this
    | i + 1, j + 1 =>
      have := ih i j (by omega) (by simp at hj ⊢; omega)
      simpa using this

theorem strictSorted_of_adjSorted (t : Array W) (h : adjSorted t.toList = true) : StrictSorted t := by
  intro i j hij hj
  have := adjSorted_pairwise t.toList h i j hij (by simpa using hj)
  have hi : i < t.size := by omega
  simpa [getElem!_pos, hi, hj] using this

theorem ltW_ne {a b : W} (h : ltW a b = true) : a ≠ b := by
  intro e; subst e; simp [ltW_irrefl] at h

theorem ltW_asymm {a b : W} (h : ltW a b = true) : ltW b a = false := by
  cases hb : ltW b a with
  | false => rfl
  | true => have := ltW_trans _ _ _ h hb; simp [ltW_irrefl] at this

/-- soundness: whatever index the search returns holds the word -/
theorem bsearchGo_sound (t : Array W) (w : W) :
    ∀ fuel lo hi i, hi ≤ t.size → bsearchGo t w fuel lo hi = some i → i < t.size ∧ t[i]! = w := by
  intro fuel
  induction fuel with
  | zero => intro lo hi i _ h; simp [bsearchGo] at h
  | succ n ih =>
    intro lo hi i hhi h
    simp only [bsearchGo] at h
    split at h
    · rename_i hlt
      split at h
      · rename_i heq
        injection h with h; subst h
        exact ⟨by omega, heq⟩
      · split at h
        · exact ih _ _ _ hhi h
        · exact ih _ _ _ (by omega) h
    · simp at h

/-- completeness: on a strictly sorted table, a word stored at index `i ∈ [lo,hi)` is found at `i` -/
theorem bsearchGo_complete (t : Array W) (hs : StrictSorted t) (w : W) :
    ∀ fuel lo hi i, hi ≤ t.size → lo ≤ i → i < hi → t[i]! = w → hi - lo < fuel →
      bsearchGo t w fuel lo hi = some i := by
  intro fuel
  induction fuel with
  | zero => intro lo hi i _ _ _ _ hf; omega
  | succ n ih =>
    intro lo hi i hhi hlo hih heq hf
    simp only [bsearchGo]
    have hlt : lo < hi := by omega
    simp only [hlt, ↓reduceIte]
    by_cases hm : t[lo + (hi - lo) / 2]! = w
    · simp only [hm, ↓reduceIte]
      -- the index is unique on a strictly sorted table
      by_cases hlt' : lo + (hi - lo) / 2 < i
      · have := hs _ _ hlt' (by omega); rw [hm, heq] at this; simp [ltW_irrefl] at this
      · by_cases hgt : i < lo + (hi - lo) / 2
        · have := hs _ _ hgt (by omega); rw [hm, heq] at this; simp [ltW_irrefl] at this
        · congr 1; omega
    · simp only [hm, ↓reduceIte]
      by_cases hlt' : lo + (hi - lo) / 2 < i
      · have h1 := hs _ _ hlt' (by omega)
        rw [heq] at h1
        simp only [h1, ↓reduceIte]
        exact ih _ _ _ hhi (by omega) hih heq (by omega)
      · have hgt : i < lo + (hi - lo) / 2 := by
          rcases Nat.lt_or_ge i (lo + (hi - lo) / 2) with h | h
          · exact h
          · have : i = lo + (hi - lo) / 2 := by omega
            subst this; exact absurd heq hm
        have h1 := hs _ _ hgt (by omega)
        rw [heq] at h1
        have h2 := ltW_asymm h1
        simp only [h2]
        exact ih _ _ _ (by omega) hlo hgt heq (by omega)

theorem bsearch_sound (t : Array W) (w : W) (i : Nat) (h : bsearch t w = some i) :
    i < t.size ∧ t[i]! = w :=
  bsearchGo_sound t w _ _ _ _ (Nat.le_refl _) h

theorem bsearch_complete (t : Array W) (hs : StrictSorted t) (w : W) (i : Nat)
    (hi : i < t.size) (h : t[i]! = w) : bsearch t w = some i :=
  bsearchGo_complete t hs w _ _ _ _ (Nat.le_refl _) (Nat.zero_le _) hi h (by omega)

theorem bsearch_none_iff (t : Array W) (hs : StrictSorted t) (w : W) :
    bsearch t w = none ↔ ∀ i, i < t.size → t[i]! ≠ w := by
  constructor
  · intro h i hi he
    have := bsearch_complete t hs w i hi he
    simp [h] at this
  · intro h
    cases hb : bsearch t w with
    | none => rfl
    | some i => have := bsearch_sound t w i hb; exact absurd this.2 (h i this.1)

end SqlVerif.Keywords

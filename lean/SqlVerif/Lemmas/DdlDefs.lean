import SqlVerif.Lemmas.DdlContent
import SqlVerif.Lemmas.DmlFaith
/-!
Definitions for the parse → print → parse fixpoint (C01) on the second statement model
(`Model/Ddl.lean`), the analogues of those of `Lemmas/Dml{Sim,Norm,WF,Faith}.lean`:

* `Stmt.mapT`        the image of a tree under a token map (the data type of a column is kept);
* `Stmt.norm`        the tree with every stored token replaced by the token `Display` emits for it;
* `Stmt.WF`          what the parser guarantees about the stored tokens (each keyword slot holds its
                     keyword, separators are commas, parentheses are parentheses);
* `Stmt.typesLeaf`   the column types of `ADD coldef` are keyword types, view columns carry no type;
* `Stmt.normal`      decidable: the shapes whose printed form is a token-by-token image of the source;
* `Stmt.printableQ`  decidable: every expression / query printable, column types keyword types.
-/
namespace SqlVerif.Ddl
open SqlVerif.Pratt SqlVerif.Query SqlVerif.Dml SqlVerif.Gen

-- ------------------------------------------------------------------ images
def ViewCol.mapT (m : Tok → Tok) (v : ViewCol) : ViewCol := ⟨m v.name, v.ty, v.tyToks.map m⟩

def CreateView.mapT (m : Tok → Tok) (v : CreateView) : CreateView :=
  ⟨m v.kw, v.orReplace.map m, v.temp.map m, v.mat.map m, m v.viewKw, v.ifne.map m, v.name.map m, v.lp.map m,
   sepMap (ViewCol.mapT m) m v.cols, v.rp.map m, m v.asKw, v.query.mapT m⟩

def IdxHead.mapT (m : Tok → Tok) (hd : IdxHead) : IdxHead :=
  ⟨hd.conc.map m, hd.ifne.map m, hd.name.map m, m hd.onKw, hd.table.map m, hd.usingToks.map m, m hd.lp⟩

def IdxTail.mapT (m : Tok → Tok) (tl : IdxTail) : IdxTail :=
  ⟨tl.inclKw.map m, tl.incl.mapT m, tl.nulls.map m, tl.whereKw.map m, tl.pred.map (Expr.mapT m)⟩

def CreateIndex.mapT (m : Tok → Tok) (i : CreateIndex) : CreateIndex :=
  ⟨m i.kw, i.temp.map m, i.idxKws.map m, i.hd.mapT m, sepMap (OrderByExpr.mapT m) m i.cols, m i.rp, i.tl.mapT m⟩

def AlterColOp.mapT (m : Tok → Tok) : AlterColOp → AlterColOp
  | .setDefault e => .setDefault (e.mapT m)
  | .setNotNull => .setNotNull
  | .dropNotNull => .dropNotNull
  | .dropDefault => .dropDefault

def AlterOp.mapT (m : Tok → Tok) : AlterOp → AlterOp
  | .addColumn k i1 ck i2 keep cd => .addColumn (m k) (i1.map m) (ck.map m) (i2.map m) keep (cd.mapT m)
  | .dropColumn k sw ck ie n cas => .dropColumn (m k) (sw.map m) (ck.map m) (ie.map m) (m n) (cas.map m)
  | .renameColumn k ck o t n => .renameColumn (m k) (ck.map m) (m o) (m t) (m n)
  | .renameTable k t name => .renameTable (m k) (m t) (name.map m)
  | .alterColumn k ck n ops op => .alterColumn (m k) (ck.map m) (m n) (ops.map m) (op.mapT m)

def AlterTable.mapT (m : Tok → Tok) (a : AlterTable) : AlterTable :=
  ⟨m a.kw, m a.tableKw, a.ifExists.map m, a.only.map m, a.name.map m, sepMap (AlterOp.mapT m) m a.ops⟩

def Truncate.mapT (m : Tok → Tok) (t : Truncate) : Truncate :=
  ⟨m t.kw, t.tableKw.map m, t.only.map m, sepMap (List.map m) m t.names, t.identity.map m, t.cascade.map m⟩

def Stmt.mapT (m : Tok → Tok) : Stmt → Stmt
  | .createView v => .createView (v.mapT m)
  | .createIndex i => .createIndex (i.mapT m)
  | .alterTable a => .alterTable (a.mapT m)
  | .truncate t => .truncate (t.mapT m)
  | .dropObj d => .dropObj (d.mapT m)
  | .dml s => .dml (s.mapT m)

-- ------------------------------------------------------------------ printed normal forms
def optKws (l : List Tok) (names : List String) : List Tok := if l.isEmpty then [] else names.map kwT

def ViewCol.norm (v : ViewCol) : ViewCol :=
  ⟨v.name, v.ty, match v.ty with | some t => toksOf (dtPiecesD t) | none => []⟩

def CreateView.norm (v : CreateView) : CreateView :=
  ⟨kwT "CREATE", optKws v.orReplace ["OR", "REPLACE"], optKws v.temp ["TEMPORARY"], optKws v.mat ["MATERIALIZED"], kwT "VIEW",
   optKws v.ifne ["IF", "NOT", "EXISTS"], v.name, if v.cols.isEmpty then [] else [.sym .LParen], sepNorm ViewCol.norm v.cols,
   if v.cols.isEmpty then [] else [.sym .RParen], kwT "AS", v.query.norm⟩

def usingNorm (toks : List Tok) : List Tok :=
  match toks.getLast? with
  | some t => [kwT "USING", t]
  | none => []

def IdxHead.norm (hd : IdxHead) : IdxHead :=
  ⟨optKws hd.conc ["CONCURRENTLY"], optKws hd.ifne ["IF", "NOT", "EXISTS"], hd.name, kwT "ON", hd.table, usingNorm hd.usingToks,
   .sym .LParen⟩

def nullsDNorm (nulls : List Tok) : List Tok :=
  match nulls with
  | [] => []
  | [_, _] => [kwT "NULLS", kwT "DISTINCT"]
  | _ => [kwT "NULLS", kwT "NOT", kwT "DISTINCT"]

def IdxTail.norm (tl : IdxTail) : IdxTail :=
  ⟨if tl.incl.ids.isEmpty then [] else [kwT "INCLUDE"], tl.incl.norm, nullsDNorm tl.nulls, whereKwNorm tl.pred,
   tl.pred.map Expr.norm⟩

def CreateIndex.norm (i : CreateIndex) : CreateIndex :=
  ⟨kwT "CREATE", [], if i.idxKws.length == 2 then [kwT "UNIQUE", kwT "INDEX"] else [kwT "INDEX"], i.hd.norm,
   sepNorm OrderByExpr.norm i.cols, .sym .RParen, i.tl.norm⟩

def AlterColOp.norm : AlterColOp → AlterColOp
  | .setDefault e => .setDefault e.norm
  | .setNotNull => .setNotNull
  | .dropNotNull => .dropNotNull
  | .dropDefault => .dropDefault

/-- the keywords `Display` writes in front of the operand of `ALTER COLUMN name` -/
def AlterColOp.kwsNorm : AlterColOp → List Tok
  | .setNotNull => [kwT "SET", kwT "NOT", kwT "NULL"]
  | .dropNotNull => [kwT "DROP", kwT "NOT", kwT "NULL"]
  | .setDefault _ => [kwT "SET", kwT "DEFAULT"]
  | .dropDefault => [kwT "DROP", kwT "DEFAULT"]

def ineNorm (b : Bool) : List Tok := if b then [kwT "IF", kwT "NOT", kwT "EXISTS"] else []

/-- `IF NOT EXISTS` is printed behind `COLUMN`; without `COLUMN` the parser reads it back in the first slot -/
def AlterOp.norm : AlterOp → AlterOp
  | .addColumn _ i1 ck i2 keep cd =>
    .addColumn (kwT "ADD") (if ck.isEmpty then ineNorm (addIfne i1 i2 keep) else []) (optKws ck ["COLUMN"])
      (if ck.isEmpty then [] else ineNorm (addIfne i1 i2 keep)) keep cd.norm
  | .dropColumn _ _ _ ie n cas =>
    .dropColumn (kwT "DROP") [] [kwT "COLUMN"] (optKws ie ["IF", "EXISTS"]) n (optKws cas ["CASCADE"])
  | .renameColumn _ _ o _ n => .renameColumn (kwT "RENAME") [kwT "COLUMN"] o (kwT "TO") n
  | .renameTable _ _ name => .renameTable (kwT "RENAME") (kwT "TO") name
  | .alterColumn _ _ n _ op => .alterColumn (kwT "ALTER") [kwT "COLUMN"] n op.kwsNorm op.norm

def AlterTable.norm (a : AlterTable) : AlterTable :=
  ⟨kwT "ALTER", kwT "TABLE", optKws a.ifExists ["IF", "EXISTS"], optKws a.only ["ONLY"], a.name, sepNorm AlterOp.norm a.ops⟩

/-- a keyword token in table spelling -/
def kwNormTok (t : Tok) : Tok := (kwTokP true t).tok

def Truncate.norm (t : Truncate) : Truncate :=
  ⟨kwT "TRUNCATE", optKws t.tableKw ["TABLE"], optKws t.only ["ONLY"], sepNorm id t.names, t.identity.map kwNormTok,
   t.cascade.map kwNormTok⟩

def dropObjNorm (d : Drop) : Drop :=
  ⟨kwT "DROP", kwNormTok d.tableKw, optKws d.ifExists ["IF", "EXISTS"], sepNorm id d.names, optKws d.cascade ["CASCADE"],
   optKws d.restrict ["RESTRICT"], optKws d.purge ["PURGE"]⟩

def Stmt.norm : Stmt → Stmt
  | .createView v => .createView v.norm
  | .createIndex i => .createIndex i.norm
  | .alterTable a => .alterTable a.norm
  | .truncate t => .truncate t.norm
  | .dropObj d => .dropObj (dropObjNorm d)
  | .dml s => .dml s.norm

-- ------------------------------------------------------------------ what the parser guarantees
def ViewCol.WF (v : ViewCol) : Prop := v.ty = none → v.tyToks = []

def CreateView.WF (v : CreateView) : Prop :=
  v.kw.isKw XK.CREATE = true ∧ (v.orReplace = [] ∨ isKwL v.orReplace [XK.OR, XK.REPLACE]) ∧
    (v.temp = [] ∨ ∃ t, v.temp = [t] ∧ (t.isKw DK.TEMP = true ∨ t.isKw DK.TEMPORARY = true)) ∧
    optKwWF XK.MATERIALIZED v.mat ∧ v.viewKw.isKw XK.VIEW = true ∧ (v.ifne = [] ∨ isKwL v.ifne [XK.IF, XK.NOT, XK.EXISTS]) ∧
    ((v.lp = [] ∧ v.cols = [] ∧ v.rp = []) ∨ (v.lp = [.sym .LParen] ∧ v.rp = [.sym .RParen])) ∧
    sepWF ViewCol.WF v.cols ∧ v.asKw.isKw XK.AS = true ∧ v.query.WF

def IdxHead.WF (hd : IdxHead) : Prop :=
  optKwWF XK.CONCURRENTLY hd.conc ∧ (hd.ifne = [] ∨ isKwL hd.ifne [XK.IF, XK.NOT, XK.EXISTS]) ∧ hd.onKw.isKw XK.ON = true ∧
    (hd.usingToks = [] ∨ ∃ u m, hd.usingToks = [u, m] ∧ u.isKw XK.USING = true) ∧ hd.lp = .sym .LParen

def IdxTail.WF (tl : IdxTail) : Prop :=
  ((tl.inclKw = [] ∧ tl.incl = ParenIds.none) ∨
    (∃ k, tl.inclKw = [k] ∧ k.isKw XK.INCLUDE = true ∧ tl.incl.lp = [.sym .LParen] ∧ tl.incl.rp = [.sym .RParen] ∧
      tl.incl.ids ≠ [] ∧ sepWF (fun _ => True) tl.incl.ids)) ∧
    (tl.nulls = [] ∨ isKwL tl.nulls [XK.NULLS, XK.DISTINCT] ∨ isKwL tl.nulls [XK.NULLS, XK.NOT, XK.DISTINCT]) ∧
    kwExprWF XK.WHERE tl.whereKw tl.pred

def CreateIndex.WF (i : CreateIndex) : Prop :=
  i.kw.isKw XK.CREATE = true ∧ (isKwL i.idxKws [XK.INDEX] ∨ isKwL i.idxKws [XK.UNIQUE, XK.INDEX]) ∧ i.hd.WF ∧
    sepWF OrderByExpr.WF i.cols ∧ i.cols ≠ [] ∧ i.rp = .sym .RParen ∧ i.tl.WF

def AlterColOp.WF (ops : List Tok) : AlterColOp → Prop
  | .setNotNull => isKwL ops [XK.SET, XK.NOT, XK.NULL]
  | .dropNotNull => isKwL ops [XK.DROP, XK.NOT, XK.NULL]
  | .setDefault e => isKwL ops [XK.SET, XK.DEFAULT] ∧ ExprWF e
  | .dropDefault => isKwL ops [XK.DROP, XK.DEFAULT]

def ineWF (l : List Tok) : Prop := l = [] ∨ isKwL l [XK.IF, XK.NOT, XK.EXISTS]

def AlterOp.WF : AlterOp → Prop
  | .addColumn k i1 ck i2 keep cd =>
    k.isKw XK.ADD = true ∧ ineWF i1 ∧ optKwWF XK.COLUMN ck ∧ ineWF i2 ∧ (keep = false → i2 = []) ∧ cd.WF
  | .dropColumn k _ ck ie _ cas =>
    k.isKw XK.DROP = true ∧ optKwWF XK.COLUMN ck ∧ (ie = [] ∨ isKwL ie [XK.IF, XK.EXISTS]) ∧ optKwWF XK.CASCADE cas
  | .renameColumn k ck _ t _ => k.isKw XK.RENAME = true ∧ optKwWF XK.COLUMN ck ∧ t.isKw XK.TO = true
  | .renameTable k t _ => k.isKw XK.RENAME = true ∧ t.isKw XK.TO = true
  | .alterColumn k ck _ ops op => k.isKw XK.ALTER = true ∧ optKwWF XK.COLUMN ck ∧ op.WF ops

def AlterTable.WF (a : AlterTable) : Prop :=
  a.kw.isKw XK.ALTER = true ∧ a.tableKw.isKw XK.TABLE = true ∧ (a.ifExists = [] ∨ isKwL a.ifExists [XK.IF, XK.EXISTS]) ∧
    optKwWF XK.ONLY a.only ∧ sepWF AlterOp.WF a.ops ∧ a.ops ≠ []

/-- every token of the list is a keyword word (what `kwNormTok` re-spells) -/
def allKw (l : List Tok) : Prop := ∀ t ∈ l, ∃ k, t.isKw k = true

def Truncate.WF (t : Truncate) : Prop :=
  t.kw.isKw XK.TRUNCATE = true ∧ optKwWF XK.TABLE t.tableKw ∧ optKwWF XK.ONLY t.only ∧ sepWF (fun _ => True) t.names ∧
    t.names ≠ [] ∧ allKw t.identity ∧ allKw t.cascade

def dropObjWF (d : Drop) : Prop :=
  d.kw.isKw XK.DROP = true ∧ (∃ k, d.tableKw.isKw k = true) ∧ (d.ifExists = [] ∨ isKwL d.ifExists [XK.IF, XK.EXISTS]) ∧
    sepWF (fun _ => True) d.names ∧ d.names ≠ [] ∧ optKwWF XK.CASCADE d.cascade ∧ optKwWF XK.RESTRICT d.restrict ∧
    optKwWF XK.PURGE d.purge

def Stmt.WF : Stmt → Prop
  | .createView v => v.WF
  | .createIndex i => i.WF
  | .alterTable a => a.WF
  | .truncate t => t.WF
  | .dropObj d => dropObjWF d
  | .dml s => s.WF

-- ------------------------------------------------------------------ side conditions (decidable)
def AlterOp.typesLeaf : AlterOp → Bool
  | .addColumn _ _ _ _ _ cd => SqlVerif.DTy.tyLeafNC cd.ty
  | _ => true

/-- the condition of the norm-invariance theorem: column types are keyword types (a custom type name is
stored with its spelling), view columns carry no data type -/
def Stmt.typesLeaf : Stmt → Bool
  | .createView v => v.cols.all (fun p => p.1.ty.isNone)
  | .alterTable a => a.ops.all (fun p => p.1.typesLeaf)
  | .dml s => s.typesLeaf
  | _ => true

def CreateView.normal (v : CreateView) : Bool :=
  v.temp.all (fun t => t.isKw DK.TEMPORARY) && (v.lp.isEmpty || !v.cols.isEmpty) &&
    sepNormal (fun c => c.ty.isNone) v.cols && v.query.normal

def CreateIndex.normal (i : CreateIndex) : Bool :=
  i.temp.isEmpty && sepNormal (fun _ => true) i.cols && sepNormal (fun _ => true) i.tl.incl.ids

def AlterOp.normal : AlterOp → Bool
  | .addColumn _ i1 ck i2 keep cd =>
    cd.normal && ((i1.isEmpty && i2.isEmpty) || keep) && (if ck.isEmpty then i2.isEmpty else i1.isEmpty)
  | .dropColumn _ sw ck _ _ _ => sw.isEmpty && !ck.isEmpty
  | .renameColumn _ ck _ _ _ => !ck.isEmpty
  | .renameTable _ _ _ => true
  | .alterColumn _ ck _ _ _ => !ck.isEmpty

/-- The shapes whose printed form is a token-by-token image of the source (beyond `Dml.Stmt.normal`):
`CREATE VIEW` with `TEMPORARY` (not `TEMP`), no `()` column list, no trailing comma; `CREATE INDEX` without `TEMP`, without trailing commas;
`ALTER TABLE` operations with `COLUMN` written in `DROP` / `RENAME` / `ALTER`, no swallowed `PRIMARY KEY` /
`PROJECTION`, `IF NOT EXISTS` of `ADD` kept by the dialect and in the slot `Display` prints it; no trailing commas. -/
def Stmt.normal : Stmt → Bool
  | .createView v => v.normal
  | .createIndex i => i.normal
  | .alterTable a => sepNormal AlterOp.normal a.ops
  | .truncate t => sepNormal (fun _ => true) t.names
  | .dropObj d => d.normal
  | .dml s => s.normal

def AlterOp.printableQ : AlterOp → Bool
  | .addColumn _ _ _ _ _ cd => cd.printableQ
  | .alterColumn _ _ _ _ op => op.printable
  | _ => true

def Stmt.printableQ : Stmt → Bool
  | .createView v => v.cols.all (fun p => p.1.ty.isNone) && v.query.printable
  | .createIndex i => i.printable
  | .alterTable a => a.ops.all (fun p => p.1.printableQ)
  | .truncate _ => true
  | .dropObj _ => true
  | .dml s => s.printableQ

end SqlVerif.Ddl

import SqlVerif.Model.CursorState
import SqlVerif.Lemmas.CursorLemmas
/-! Lemmas about `CursorState.run` (flag-threading interpreter of `ProgS`). -/
namespace SqlVerif.CursorState
open SqlVerif.Cursor
variable {τ α : Type}

/-- every scope restores what it changed: whatever the program, the flags at the end of a run that
does not panic are the flags at its start -/
theorem run_flags (isWs : τ → Bool) (p : ProgS τ α) :
    ∀ (s : St τ) (f' : Flags), (run isWs p s).flags? = some f' → f' = s.flags := by
  induction p with
  | ret a => intro s f' h; simp [run, Out.flags?] at h; exact h.symm
  | err m l => intro s f' h; simp [run, Out.flags?] at h; exact h.symm
  | peek n k ih => intro s f' h; simp only [run] at h; have := ih _ _ _ h; exact this
  | next k ih => intro s f' h; simp only [run] at h; have := ih _ _ _ h; exact this
  | prev p ih =>
    intro s f' h
    simp only [run] at h
    cases hp : prev isWs s.cur with
    | none => simp [hp, Out.flags?] at h
    | some c => simp only [hp] at h; have := ih _ _ h; exact this
  | save slot p ih => intro s f' h; simp only [run] at h; have := ih _ _ h; exact this
  | restore slot p ih => intro s f' h; simp only [run] at h; have := ih _ _ h; exact this
  | peekNoSkip n k ih => intro s f' h; simp only [run] at h; have := ih _ _ _ h; exact this
  | nextNoSkip k ih => intro s f' h; simp only [run] at h; have := ih _ _ _ h; exact this
  | getFlags k ih => intro s f' h; simp only [run] at h; exact ih _ _ _ h
  | withTrailing v body k ihb ihk =>
    intro s f' h
    simp only [run] at h
    cases hb : run isWs body (s.setTrailing (s.flags.trailingCommas || v)) with
    | ok a s' =>
      have := ihb _ s'.flags (by rw [hb]; rfl)
      simp only [hb] at h
      have h2 := ihk a _ _ h
      rw [h2]; simp [St.setTrailing, this]
    | err m l s' =>
      have := ihb _ s'.flags (by rw [hb]; rfl)
      simp only [hb, Out.flags?, Option.some.injEq] at h
      rw [← h]; simp [St.setTrailing, this]
    | limit s' =>
      have := ihb _ s'.flags (by rw [hb]; rfl)
      simp only [hb, Out.flags?, Option.some.injEq] at h
      rw [← h]; simp [St.setTrailing, this]
    | panic => simp [hb, Out.flags?] at h
  | withState v body k ihb ihk =>
    intro s f' h
    simp only [run] at h
    cases hb : run isWs body (s.setNormal v) with
    | ok a s' =>
      have := ihb _ s'.flags (by rw [hb]; rfl)
      simp only [hb] at h
      have h2 := ihk a _ _ h
      rw [h2]; simp [St.setNormal, this]
    | err m l s' =>
      have := ihb _ s'.flags (by rw [hb]; rfl)
      simp only [hb, Out.flags?, Option.some.injEq] at h
      rw [← h]; simp [St.setNormal, this]
    | limit s' =>
      have := ihb _ s'.flags (by rw [hb]; rfl)
      simp only [hb, Out.flags?, Option.some.injEq] at h
      rw [← h]; simp [St.setNormal, this]
    | panic => simp [hb, Out.flags?] at h
  | withGuard body k ihb ihk =>
    intro s f' h
    simp only [run] at h
    cases hd : s.flags.depth with
    | zero => simp [hd, Out.flags?] at h; exact h.symm
    | succ d =>
      simp only [hd] at h
      have hfl : ∀ s' : St τ, s'.flags = (s.setDepth d).flags → (s'.setDepth (s'.flags.depth + 1)).flags = s.flags := by
        intro s' e
        simp only [St.setDepth, e]
        cases hs : s.flags
        simp_all
      cases hb : run isWs body (s.setDepth d) with
      | ok a s' =>
        have := ihb _ s'.flags (by rw [hb]; rfl)
        simp only [hb] at h
        have h2 := ihk a _ _ h
        rw [h2]; exact hfl s' this
      | err m l s' =>
        have := ihb _ s'.flags (by rw [hb]; rfl)
        simp only [hb, Out.flags?, Option.some.injEq] at h
        rw [← h]; exact hfl s' this
      | limit s' =>
        have := ihb _ s'.flags (by rw [hb]; rfl)
        simp only [hb, Out.flags?, Option.some.injEq] at h
        rw [← h]; exact hfl s' this
      | panic => simp [hb, Out.flags?] at h
  | attempt b body k ihb ihk =>
    intro s f' h
    simp only [run] at h
    cases hb : run isWs body s with
    | ok a s' =>
      have := ihb _ s'.flags (by rw [hb]; rfl)
      simp only [hb] at h
      rw [ihk _ _ _ h, this]
    | err m l s' =>
      have := ihb _ s'.flags (by rw [hb]; rfl)
      simp only [hb] at h
      rw [ihk _ _ _ h, this]
    | limit s' =>
      have := ihb _ s'.flags (by rw [hb]; rfl)
      simp only [hb] at h
      cases b with
      | true => simp only [↓reduceIte] at h; rw [ihk _ _ _ h, this]
      | false => simp [Out.flags?] at h; rw [← h, this]
    | panic => simp [hb, Out.flags?] at h
end SqlVerif.CursorState

namespace SqlVerif.CursorState
open SqlVerif.Cursor
variable {τ α : Type}

theorem Out.toRes_flags? (o : Out τ α) : o.toRes.flags? = o.flags? := by
  cases o <;> rfl

theorem run_ok_flags {isWs : τ → Bool} {p : ProgS τ α} {s s' : St τ} {a : α}
    (h : run isWs p s = .ok a s') : s'.flags = s.flags :=
  run_flags isWs p s s'.flags (by rw [h]; rfl)

theorem run_err_flags {isWs : τ → Bool} {p : ProgS τ α} {s s' : St τ} {m : Nat} {l : Option Nat}
    (h : run isWs p s = .err m l s') : s'.flags = s.flags :=
  run_flags isWs p s s'.flags (by rw [h]; rfl)

theorem run_limit_flags {isWs : τ → Bool} {p : ProgS τ α} {s s' : St τ}
    (h : run isWs p s = .limit s') : s'.flags = s.flags :=
  run_flags isWs p s s'.flags (by rw [h]; rfl)

/-- index and flags forgotten / kept: what `lift` preserves of `Cursor.runC` -/
def ResS.core : ResS α → Res α
  | .ok a pos _ => .ok a pos
  | .err m l _ _ => .err m l
  | .limit _ _ => .panic
  | .panic => .panic

/-- a lifted `Cursor.Prog` never produces the limit error -/
def Out.noLimit : Out τ α → Prop
  | .limit _ => False
  | _ => True

/-- `lift` is conservative: same value, same positioned error, same panic as `Cursor.runC` -/
theorem run_lift (isWs : τ → Bool) (p : Prog τ α) :
    ∀ (s : St τ), (run isWs (lift p) s).toRes.core = runC isWs p s.cur s.regs s.log ∧
      (run isWs (lift p) s).noLimit := by
  induction p with
  | ret a => intro s; simp [lift, run, runC, Out.toRes, ResS.core, Out.noLimit]
  | err m h => intro s; cases h <;> simp [lift, run, runC, Out.toRes, ResS.core, Out.noLimit, resolve]
  | peek n k ih => intro s; simp only [lift, run, runC]; exact ih _ _
  | next k ih => intro s; simp only [lift, run, runC]; exact ih _ _
  | prev p ih =>
    intro s
    simp only [lift, run, runC]
    cases hp : prev isWs s.cur with
    | none => simp [Out.toRes, ResS.core, Out.noLimit]
    | some c => exact ih _
  | save slot p ih => intro s; simp only [lift, run, runC]; exact ih _
  | restore slot p ih => intro s; simp only [lift, run, runC]; exact ih _
  | peekNoSkip n k ih => intro s; simp only [lift, run, runC]; exact ih _ _
  | nextNoSkip k ih => intro s; simp only [lift, run, runC]; exact ih _ _

end SqlVerif.CursorState

/-! ## Flags compiled away

The flags are deterministic bookkeeping that never depends on the tokens, so a flagged program and
initial flags determine a plain `Cursor.Prog` with the same behaviour.  This transports every
theorem about `Cursor.runC` (C07 layout blindness, C10 location soundness, C14 location erasure)
to `ProgS`. -/
namespace SqlVerif.CursorState
open SqlVerif.Cursor
variable {τ α β : Type}

def Flags.setT (f : Flags) (b : Bool) : Flags := { f with trailingCommas := b }
def Flags.setN (f : Flags) (b : Bool) : Flags := { f with stateNormal := b }
def Flags.setD (f : Flags) (d : Nat) : Flags := { f with depth := d }

/-- flags are deterministic bookkeeping: they can be compiled away into a plain cursor program -/
def compile : ProgS τ α → Flags → (α → Flags → Prog τ β) → (Nat → Option Nat → Flags → Prog τ β) →
    (Flags → Prog τ β) → Prog τ β
  | .ret a, f, kOk, _, _ => kOk a f
  | .err m h, f, _, kErr, _ => kErr m h f
  | .peek n k, f, kOk, kErr, kLim => .peek n fun t => compile (k t) f kOk kErr kLim
  | .next k, f, kOk, kErr, kLim => .next fun t => compile (k t) f kOk kErr kLim
  | .prev p, f, kOk, kErr, kLim => .prev (compile p f kOk kErr kLim)
  | .save slot p, f, kOk, kErr, kLim => .save slot (compile p f kOk kErr kLim)
  | .restore slot p, f, kOk, kErr, kLim => .restore slot (compile p f kOk kErr kLim)
  | .peekNoSkip n k, f, kOk, kErr, kLim => .peekNoSkip n fun t => compile (k t) f kOk kErr kLim
  | .nextNoSkip k, f, kOk, kErr, kLim => .nextNoSkip fun t => compile (k t) f kOk kErr kLim
  | .getFlags k, f, kOk, kErr, kLim => compile (k f) f kOk kErr kLim
  | .withTrailing v body k, f, kOk, kErr, kLim =>
    compile body (f.setT (f.trailingCommas || v))
      (fun a f' => compile (k a) (f'.setT f.trailingCommas) kOk kErr kLim)
      (fun m h f' => kErr m h (f'.setT f.trailingCommas))
      (fun f' => kLim (f'.setT f.trailingCommas))
  | .withState n body k, f, kOk, kErr, kLim =>
    compile body (f.setN n)
      (fun a f' => compile (k a) (f'.setN f.stateNormal) kOk kErr kLim)
      (fun m h f' => kErr m h (f'.setN f.stateNormal))
      (fun f' => kLim (f'.setN f.stateNormal))
  | .withGuard body k, f, kOk, kErr, kLim =>
    match f.depth with
    | 0 => kLim f
    | d + 1 =>
      compile body (f.setD d)
        (fun a f' => compile (k a) (f'.setD (f'.depth + 1)) kOk kErr kLim)
        (fun m h f' => kErr m h (f'.setD (f'.depth + 1)))
        (fun f' => kLim (f'.setD (f'.depth + 1)))
  | .attempt b body k, f, kOk, kErr, kLim =>
    compile body f
      (fun a f' => compile (k (some a)) f' kOk kErr kLim)
      (fun _ _ f' => compile (k none) f' kOk kErr kLim)
      (fun f' => if b then compile (k none) f' kOk kErr kLim else kLim f')

/-- what the compiled program does after the flagged program has ended -/
def after (isWs : τ → Bool) (kOk : α → Flags → Prog τ β) (kErr : Nat → Option Nat → Flags → Prog τ β)
    (kLim : Flags → Prog τ β) : Out τ α → Res β
  | .ok a s => runC isWs (kOk a s.flags) s.cur s.regs s.log
  | .err m h s => runC isWs (kErr m h s.flags) s.cur s.regs s.log
  | .limit s => runC isWs (kLim s.flags) s.cur s.regs s.log
  | .panic => .panic

theorem runC_compile (isWs : τ → Bool) (p : ProgS τ α) :
    ∀ (s : St τ) (kOk : α → Flags → Prog τ β) (kErr : Nat → Option Nat → Flags → Prog τ β) (kLim : Flags → Prog τ β),
      runC isWs (compile p s.flags kOk kErr kLim) s.cur s.regs s.log = after isWs kOk kErr kLim (run isWs p s) := by
  induction p with
  | ret a => intro s kOk kErr kLim; simp [compile, run, after]
  | err m h => intro s kOk kErr kLim; simp [compile, run, after]
  | peek n k ih =>
    intro s kOk kErr kLim
    simp only [compile, run, runC]
    exact ih _ { s with log := s.log ++ [locOf (peekNth isWs s.cur n)] } kOk kErr kLim
  | next k ih =>
    intro s kOk kErr kLim
    simp only [compile, run, runC]
    exact ih _ { s with cur := (next isWs s.cur).2, log := s.log ++ [locOf (next isWs s.cur).1] } kOk kErr kLim
  | prev p ih =>
    intro s kOk kErr kLim
    simp only [compile, run, runC]
    cases hp : prev isWs s.cur with
    | none => simp [after]
    | some c => exact ih { s with cur := c } kOk kErr kLim
  | save slot p ih =>
    intro s kOk kErr kLim
    simp only [compile, run, runC]
    exact ih { s with regs := fun x => if x = slot then s.cur.index else s.regs x } kOk kErr kLim
  | restore slot p ih =>
    intro s kOk kErr kLim
    simp only [compile, run, runC]
    exact ih { s with cur := { s.cur with index := s.regs slot } } kOk kErr kLim
  | peekNoSkip n k ih =>
    intro s kOk kErr kLim
    simp only [compile, run, runC]
    exact ih _ { s with log := s.log ++ [locOf (peekNthNoSkip s.cur n)] } kOk kErr kLim
  | nextNoSkip k ih =>
    intro s kOk kErr kLim
    simp only [compile, run, runC]
    exact ih _ { s with cur := (nextNoSkip s.cur).2, log := s.log ++ [locOf (nextNoSkip s.cur).1] } kOk kErr kLim
  | getFlags k ih =>
    intro s kOk kErr kLim
    simp only [compile, run]
    exact ih _ s kOk kErr kLim
  | withTrailing v body k ihb ihk =>
    intro s kOk kErr kLim
    simp only [compile, run]
    have hb := ihb (s.setTrailing (s.flags.trailingCommas || v))
      (fun a f' => compile (k a) (f'.setT s.flags.trailingCommas) kOk kErr kLim)
      (fun m h f' => kErr m h (f'.setT s.flags.trailingCommas))
      (fun f' => kLim (f'.setT s.flags.trailingCommas))
    simp only [St.setTrailing] at hb
    rw [show (s.flags.setT (s.flags.trailingCommas || v)) = { s.flags with trailingCommas := s.flags.trailingCommas || v } from rfl]
    rw [hb]
    cases hr : run isWs body (s.setTrailing (s.flags.trailingCommas || v)) with
    | ok a s' =>
      simp only [St.setTrailing] at hr
      simp only [hr, after]
      exact ihk a (s'.setTrailing s.flags.trailingCommas) kOk kErr kLim
    | err m h s' => simp only [St.setTrailing] at hr; simp [hr, after, St.setTrailing, Flags.setT]
    | limit s' => simp only [St.setTrailing] at hr; simp [hr, after, St.setTrailing, Flags.setT]
    | panic => simp only [St.setTrailing] at hr; simp [hr, after]
  | withState v body k ihb ihk =>
    intro s kOk kErr kLim
    simp only [compile, run]
    have hb := ihb (s.setNormal v)
      (fun a f' => compile (k a) (f'.setN s.flags.stateNormal) kOk kErr kLim)
      (fun m h f' => kErr m h (f'.setN s.flags.stateNormal))
      (fun f' => kLim (f'.setN s.flags.stateNormal))
    simp only [St.setNormal] at hb
    rw [show (s.flags.setN v) = { s.flags with stateNormal := v } from rfl]
    rw [hb]
    cases hr : run isWs body (s.setNormal v) with
    | ok a s' =>
      simp only [St.setNormal] at hr
      simp only [hr, after]
      exact ihk a (s'.setNormal s.flags.stateNormal) kOk kErr kLim
    | err m h s' => simp only [St.setNormal] at hr; simp [hr, after, St.setNormal, Flags.setN]
    | limit s' => simp only [St.setNormal] at hr; simp [hr, after, St.setNormal, Flags.setN]
    | panic => simp only [St.setNormal] at hr; simp [hr, after]
  | withGuard body k ihb ihk =>
    intro s kOk kErr kLim
    simp only [compile, run]
    cases hd : s.flags.depth with
    | zero => simp [after]
    | succ d =>
      simp only []
      have hb := ihb (s.setDepth d)
        (fun a f' => compile (k a) (f'.setD (f'.depth + 1)) kOk kErr kLim)
        (fun m h f' => kErr m h (f'.setD (f'.depth + 1)))
        (fun f' => kLim (f'.setD (f'.depth + 1)))
      simp only [St.setDepth] at hb
      rw [show (s.flags.setD d) = { s.flags with depth := d } from rfl]
      rw [hb]
      cases hr : run isWs body (s.setDepth d) with
      | ok a s' =>
        simp only [St.setDepth] at hr
        simp only [hr, after]
        exact ihk a (s'.setDepth (s'.flags.depth + 1)) kOk kErr kLim
      | err m h s' => simp only [St.setDepth] at hr; simp [hr, after, St.setDepth, Flags.setD]
      | limit s' => simp only [St.setDepth] at hr; simp [hr, after, St.setDepth, Flags.setD]
      | panic => simp only [St.setDepth] at hr; simp [hr, after]
  | attempt b body k ihb ihk =>
    intro s kOk kErr kLim
    simp only [compile, run]
    rw [ihb s]
    cases hr : run isWs body s with
    | ok a s' => simp only [after]; exact ihk _ s' kOk kErr kLim
    | err m h s' => simp only [after]; exact ihk _ s' kOk kErr kLim
    | limit s' =>
      simp only [after]
      cases b with
      | true => simp only [↓reduceIte]; exact ihk _ s' kOk kErr kLim
      | false => simp
    | panic => simp [after]

/-- continuations of the top level: value and limit become values (with the flags), an error stays an error -/
def toProg (p : ProgS τ α) (f : Flags) : Prog τ (Option α × Flags) :=
  compile p f (fun a f' => .ret (some a, f')) (fun m h _ => .err m h) (fun f' => .ret (none, f'))

theorem skipping_compile (p : ProgS τ α) (hp : SkippingS p) :
    ∀ (f : Flags) (kOk : α → Flags → Prog τ β) (kErr : Nat → Option Nat → Flags → Prog τ β) (kLim : Flags → Prog τ β),
      (∀ a f, Skipping (kOk a f)) → (∀ m h f, Skipping (kErr m h f)) → (∀ f, Skipping (kLim f)) →
      Skipping (compile p f kOk kErr kLim) := by
  induction hp with
  | ret a => intro f kOk kErr kLim h1 h2 h3; exact h1 a f
  | err m h => intro f kOk kErr kLim h1 h2 h3; exact h2 m h f
  | peek n k _ ih => intro f kOk kErr kLim h1 h2 h3; exact .peek _ _ fun t => ih t f kOk kErr kLim h1 h2 h3
  | next k _ ih => intro f kOk kErr kLim h1 h2 h3; exact .next _ fun t => ih t f kOk kErr kLim h1 h2 h3
  | prev p _ ih => intro f kOk kErr kLim h1 h2 h3; exact .prev _ (ih f kOk kErr kLim h1 h2 h3)
  | save slot p _ ih => intro f kOk kErr kLim h1 h2 h3; exact .save _ _ (ih f kOk kErr kLim h1 h2 h3)
  | restore slot p _ ih => intro f kOk kErr kLim h1 h2 h3; exact .restore _ _ (ih f kOk kErr kLim h1 h2 h3)
  | getFlags k _ ih => intro f kOk kErr kLim h1 h2 h3; exact ih f f kOk kErr kLim h1 h2 h3
  | withTrailing v body k _ _ ihb ihk =>
    intro f kOk kErr kLim h1 h2 h3
    exact ihb _ _ _ _ (fun a f' => ihk a _ kOk kErr kLim h1 h2 h3) (fun m h f' => h2 m h _) (fun f' => h3 _)
  | withState v body k _ _ ihb ihk =>
    intro f kOk kErr kLim h1 h2 h3
    exact ihb _ _ _ _ (fun a f' => ihk a _ kOk kErr kLim h1 h2 h3) (fun m h f' => h2 m h _) (fun f' => h3 _)
  | withGuard body k _ _ ihb ihk =>
    intro f kOk kErr kLim h1 h2 h3
    simp only [compile]
    cases f.depth with
    | zero => exact h3 f
    | succ d =>
      exact ihb _ _ _ _ (fun a f' => ihk a _ kOk kErr kLim h1 h2 h3) (fun m h f' => h2 m h _) (fun f' => h3 _)
  | attempt b body k _ _ ihb ihk =>
    intro f kOk kErr kLim h1 h2 h3
    refine ihb _ _ _ _ (fun a f' => ihk _ _ kOk kErr kLim h1 h2 h3) (fun m h f' => ihk _ _ kOk kErr kLim h1 h2 h3) (fun f' => ?_)
    cases b with
    | true => exact ihk _ _ kOk kErr kLim h1 h2 h3
    | false => exact h3 f'

theorem skipping_toProg (p : ProgS τ α) (hp : SkippingS p) (f : Flags) : Skipping (toProg p f) :=
  skipping_compile p hp f _ _ _ (fun _ _ => .ret _) (fun _ _ _ => .err _ _) (fun _ => .ret _)

end SqlVerif.CursorState

namespace SqlVerif.CursorState
open SqlVerif.Cursor
variable {τ α : Type}

/-- reading the shape of the compiled run back as a shape with flags; `f₀` = initial flags (an
error carries no value, and by `run_flags` its flags are the initial ones) -/
def decodeShape (f₀ : Flags) : Option (Sum (Option α × Flags) Nat) → ShapeS α
  | some (.inl (some a, f)) => .ok a f
  | some (.inl (none, f)) => .limit f
  | some (.inr m) => .err m f₀
  | none => .panic

theorem runS_shape (isWs : τ → Bool) (p : ProgS τ α) (c : CState τ) (f : Flags) :
    (runS isWs p c f).shape = decodeShape f (runC isWs (toProg p f) c (fun _ => 0) []).shape := by
  have h := runC_compile (β := Option α × Flags) isWs p ⟨c, f, fun _ => 0, []⟩
    (fun a f' => .ret (some a, f')) (fun m h _ => .err m h) (fun f' => .ret (none, f'))
  simp only [runS, toProg]
  simp only at h
  rw [h]
  cases hr : run isWs p ⟨c, f, fun _ => 0, []⟩ with
  | ok a s' => simp [after, runC, Res.shape, decodeShape, Out.toRes, ResS.shape]
  | err m l s' =>
    have := run_err_flags hr
    simp only at this
    cases l <;> simp [after, runC, Res.shape, decodeShape, Out.toRes, ResS.shape, this]
  | limit s' => simp [after, runC, Res.shape, decodeShape, Out.toRes, ResS.shape]
  | panic => simp [after, Res.shape, decodeShape, Out.toRes, ResS.shape]

/-- an error of the flagged run is the same positioned error of the compiled plain program -/
theorem runS_err_compiled (isWs : τ → Bool) (p : ProgS τ α) (c : CState τ) (f : Flags)
    (m : Nat) (l : Loc) (pos : Nat) (f' : Flags) (h : runS isWs p c f = .err m l pos f') :
    runC isWs (toProg p f) c (fun _ => 0) [] = .err m l := by
  have hc := runC_compile (β := Option α × Flags) isWs p ⟨c, f, fun _ => 0, []⟩
    (fun a f' => .ret (some a, f')) (fun m h _ => .err m h) (fun f' => .ret (none, f'))
  simp only at hc
  simp only [toProg]
  rw [hc]
  simp only [runS] at h
  cases hr : run isWs p ⟨c, f, fun _ => 0, []⟩ with
  | ok a s' => simp [hr, Out.toRes] at h
  | err m' l' s' =>
    simp only [hr, Out.toRes, ResS.err.injEq] at h
    cases l' <;> simp_all [after, runC, resolve]
  | limit s' => simp [hr, Out.toRes] at h
  | panic => simp [hr, Out.toRes] at h

end SqlVerif.CursorState

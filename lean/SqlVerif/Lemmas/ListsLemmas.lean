import SqlVerif.Model.Lists
namespace SqlVerif.Lists

variable {τ α : Type}

/-- tokens that may follow an element: EOF, a comma, or a token that ends a list -/
def Follower (c : TokClass τ) (s : List τ) : Prop :=
  s = [] ∨ ∃ t r, s = t :: r ∧ (c.isComma t = true ∨ c.endsList t = true)

/-- An element parser is *local* on element `a` with value `v`: whatever admissible follower comes
next, it consumes exactly `a` and returns `v`. -/
def LocalOn (c : TokClass τ) (f : List τ → Option (α × List τ)) (a : List τ) (v : α) : Prop :=
  ∀ s : List τ, Follower c s → f (a ++ s) = some (v, s)

/-- the list is followed by EOF or by a non-comma token that ends a list -/
def EndTail (c : TokClass τ) (tail : List τ) : Prop :=
  tail = [] ∨ ∃ t r, tail = t :: r ∧ c.isComma t = false ∧ c.endsList t = true

/-- `x` starts with a token that does not end a list -/
def StartsPlain (c : TokClass τ) (x : List τ) : Prop := ∃ t r, x = t :: r ∧ c.endsList t = false

theorem EndTail.follower {c : TokClass τ} {tail : List τ} (h : EndTail c tail) : Follower c tail := by
  rcases h with h | ⟨t, r, h, _, he⟩
  · exact Or.inl h
  · exact Or.inr ⟨t, r, h, Or.inr he⟩

theorem EndTail.peekEnds {c : TokClass τ} {tail : List τ} (h : EndTail c tail) : peekEnds c tail = true := by
  rcases h with h | ⟨t, r, h, _, he⟩
  · subst h; rfl
  · subst h; simpa [Lists.peekEnds] using he

/-- one element followed by a comma and more list text -/
theorem commaSep_step (c : TokClass τ) (tc : Bool) (f : List τ → Option (α × List τ)) (comma : τ)
    (hc : c.isComma comma = true) (a : List τ) (v : α) (hl : LocalOn c f a v) (x : List τ)
    (hx : tc = true → StartsPlain c x) (fuel : Nat) :
    commaSep c tc f (fuel + 1) (a ++ comma :: x) =
      (commaSep c tc f fuel x).map (fun p => (v :: p.1, p.2)) := by
  have hf : f (a ++ comma :: x) = some (v, comma :: x) := hl _ (Or.inr ⟨comma, x, rfl, Or.inl hc⟩)
  have hgo : commaSepEnd c tc (comma :: x) = (false, x) := by
    simp only [commaSepEnd, hc, ↓reduceIte]
    cases htc : tc with
    | false => simp
    | true =>
      obtain ⟨t, r, rfl, hne⟩ := hx htc
      simp [peekEnds, hne]
  simp only [commaSep, hf, hgo]
  cases commaSep c tc f fuel x with
  | none => rfl
  | some p => rfl

/-- the last element, followed directly by the end of the list -/
theorem commaSep_last (c : TokClass τ) (tc : Bool) (f : List τ → Option (α × List τ))
    (a : List τ) (v : α) (hl : LocalOn c f a v) (tail : List τ) (ht : EndTail c tail) (fuel : Nat) :
    commaSep c tc f (fuel + 1) (a ++ tail) = some ([v], tail) := by
  have hf : f (a ++ tail) = some (v, tail) := hl _ ht.follower
  simp only [commaSep, hf]
  rcases ht with h | ⟨t, r, h, hnc, _⟩
  · subst h; simp [commaSepEnd]
  · subst h; simp [commaSepEnd, hnc]

/-- the last element, followed by a *trailing* comma and then the end of the list (option on) -/
theorem commaSep_last_trailing (c : TokClass τ) (f : List τ → Option (α × List τ)) (comma : τ)
    (hc : c.isComma comma = true) (a : List τ) (v : α) (hl : LocalOn c f a v) (tail : List τ)
    (ht : EndTail c tail) (fuel : Nat) :
    commaSep c true f (fuel + 1) (a ++ comma :: tail) = some ([v], tail) := by
  have hf : f (a ++ comma :: tail) = some (v, comma :: tail) := hl _ (Or.inr ⟨comma, tail, rfl, Or.inl hc⟩)
  simp [commaSep, hf, commaSepEnd, hc, ht.peekEnds]

/-- the text of a list: elements joined by a comma token -/
def joinWith (comma : τ) : List (List τ) → List τ
  | [] => []
  | [a] => a
  | a :: b :: rest => a ++ comma :: joinWith comma (b :: rest)

theorem joinWith_startsPlain (c : TokClass τ) (comma : τ) (e : List τ) (rest : List (List τ)) (tail : List τ)
    (h : StartsPlain c e) : StartsPlain c (joinWith comma (e :: rest) ++ tail) := by
  obtain ⟨t, r, rfl, hne⟩ := h
  cases rest with
  | nil => exact ⟨t, r ++ tail, by simp [joinWith], hne⟩
  | cons e2 rest2 => exact ⟨t, _, by simp [joinWith]; rfl, hne⟩

/-- General form: a well-formed list whose last element is followed by `last` (either the end tail
itself, or — option on — a trailing comma and the end tail) parses to its values and stops at the tail. -/
theorem commaSep_join_gen (c : TokClass τ) (tc : Bool) (f : List τ → Option (α × List τ)) (comma : τ)
    (hc : c.isComma comma = true) (tail : List τ) (ht : EndTail c tail) (trailing : Bool)
    (htr : trailing = true → tc = true) :
    ∀ (es : List (List τ × α)), es ≠ [] →
      (∀ e ∈ es, LocalOn c f e.1 e.2) →
      (tc = true → ∀ e ∈ es.tail, StartsPlain c e.1) →
      ∀ fuel, es.length ≤ fuel →
        commaSep c tc f fuel (joinWith comma (es.map (·.1)) ++ (if trailing then comma :: tail else tail))
          = some (es.map (·.2), tail) := by
  intro es
  induction es with
  | nil => intro h; exact absurd rfl h
  | cons e rest ih =>
    intro _ hloc hbegin fuel hfuel
    cases fuel with
    | zero => simp at hfuel
    | succ fuel =>
      have hle := hloc e (List.mem_cons_self ..)
      cases rest with
      | nil =>
        simp only [List.map, joinWith]
        cases trailing with
        | false => simpa using commaSep_last c tc f e.1 e.2 hle tail ht fuel
        | true =>
          have := htr rfl; subst this
          simpa using commaSep_last_trailing c f comma hc e.1 e.2 hle tail ht fuel
      | cons e2 rest2 =>
        have hx : tc = true → StartsPlain c (joinWith comma (List.map (·.1) (e2 :: rest2)) ++
            (if trailing then comma :: tail else tail)) := fun htc =>
          joinWith_startsPlain c comma e2.1 _ _ (hbegin htc e2 (by simp))
        have hstep := commaSep_step c tc f comma hc e.1 e.2 hle _ hx fuel
        have ih' := ih (by simp) (fun x hx => hloc x (List.mem_cons_of_mem _ hx))
          (fun htc x hx => hbegin htc x (by
            simp only [List.tail_cons] at hx ⊢
            exact List.mem_cons_of_mem _ hx)) fuel (by simpa using hfuel)
        simp only [List.map, joinWith, List.append_assoc, List.cons_append] at hstep ih' ⊢
        rw [hstep, ih']
        rfl

end SqlVerif.Lists

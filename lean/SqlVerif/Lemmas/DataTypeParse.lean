import SqlVerif.Lemmas.DataTypeLemmas
/-!
Parser-side lemmas for C18: every arm of `parse_data_type_helper` on the token stream `emit`.
-/
set_option linter.unusedSimpArgs false
namespace SqlVerif.DTy
open SqlVerif.Pratt (W Sym str wordDisplay)
variable {g : Bool}

/-- what may follow the core of a type (before the `[]` suffixes) without extending it -/
def followC : Option Tok → Bool
  | some (.sym .LParen) | some (.sym .Lt) | some (.sym .Period) => false
  | some (.word _ _ kw) =>
    !(kw == .PRECISION || kw == .VARYING || kw == .LARGE || kw == .UNSIGNED || kw == .WITH || kw == .WITHOUT)
  | _ => true

theorem followC_of_followTok {o : Option Tok} (h : followTok o = true) : followC o = true := by
  unfold followTok at h
  unfold followC
  split at h <;> simp_all

section follow
variable {R : List Tok} (h : followC R.head? = true)
include h

theorem follow_noLParen : consumeSym .LParen R = none := by
  cases R with
  | nil => rfl
  | cons x r =>
    cases x <;> simp [consumeSym, Tok.isSym]
    rename_i s; cases s <;> simp_all [followC]

theorem follow_noLt : consumeSym .Lt R = none := by
  cases R with
  | nil => rfl
  | cons x r =>
    cases x <;> simp [consumeSym, Tok.isSym]
    rename_i s; cases s <;> simp_all [followC]

theorem follow_noKw (k : DKw) (hk : k = .PRECISION ∨ k = .VARYING ∨ k = .LARGE ∨ k = .UNSIGNED ∨ k = .WITH ∨ k = .WITHOUT) :
    peekKw R k = false := by
  cases R with
  | nil => rfl
  | cons x r =>
    cases x <;> simp [peekKw]
    rename_i v q kw
    simp [followC] at h
    rcases hk with rfl | rfl | rfl | rfl | rfl | rfl <;> simp_all

end follow

/-- the arms of `parse_data_type_helper` that do not recurse: keyword leaves and the `_` arm -/
def flat (c : Cfg) : List Tok → Except Err (DT × List Tok)
  | .word v q kw :: r =>
    match parseLeaf c kw r with
    | some res => res
    | none => parseCustom c (.word v q kw :: r)
  | ts => expectedAt "a data type name" ts

/-- the end of the helper: the `[]` suffix loop keeps the trailing-bracket flag -/
def finish (c : Cfg) (f : Nat) (t : DT) (tr : Bool) (r : List Tok) : Except Err (DT × Bool × List Tok) :=
  match suffixLoop c f t r with
  | .error e => .error e
  | .ok (t', r2) => .ok (t', tr, r2)

theorem helper_flat (c : Cfg) (f d : Nat) (v : W) (q : Option Nat) (kw : DKw) (r : List Tok)
    (h : headOf c kw = none) :
    parseHelper c (f + 1) (d + 1) (.word v q kw :: r) =
      match flat c (.word v q kw :: r) with
      | .error e => .error e
      | .ok (t, r1) => finish c f t false r1 := by
  rw [parseHelper]
  simp only [h, flat, finish]
  cases parseLeaf c kw r with
  | none =>
    cases parseCustom c (.word v q kw :: r) with
    | error e => rfl
    | ok p => rfl
  | some res =>
    cases res with
    | error e => rfl
    | ok p => rfl

theorem flat_simple (c : Cfg) (k : SimpleKind) (R : List Tok) (hk : k ≠ .unspecified)
    (h : followC R.head? = true) : flat c (k.toks ++ R) = .ok (.simple k, R) := by
  have hp := follow_noKw h .PRECISION (by simp)
  cases k <;> simp [SimpleKind.toks, kwTok, flat, parseLeaf, simpleOfKw, hp] at hk ⊢
  all_goals (try rfl)

theorem optPrecision_toks (l : Option Nat) (R : List Tok) (hl : optU64 l = true)
    (h : consumeSym .LParen R = none) : optPrecision (optLenToks l ++ R) = .ok (l, R) := by
  cases l with
  | none => simp [optLenToks, optPrecision, h]; rfl
  | some n =>
    have hn : n ≤ u64Max := by simpa [optU64, u64] using hl
    simp [optLenToks, optPrecision, consumeSym, LParen, RParen, Tok.isSym, numTok, literalUint,
      parseU64_digits hn, expectSym]
    rfl

theorem flat_withLen (c : Cfg) (k : LenKind) (l : Option Nat) (R : List Tok) (hl : optU64 l = true)
    (h : followC R.head? = true) : flat c (k.toks ++ (optLenToks l ++ R)) = .ok (.withLen k l, R) := by
  have h1 := optPrecision_toks l R hl (follow_noLParen h)
  cases k <;>
    simp [LenKind.toks, kwTok, flat, parseLeaf, simpleOfKw, lenOfKw, charFamily, peekKw, h1] <;> rfl

theorem flat_int (c : Cfg) (k : IntKind) (l : Option Nat) (u : Bool) (R : List Tok) (hl : optU64 l = true)
    (h : followC R.head? = true) :
    flat c (k.tok :: (optLenToks l ++ ((if u then [kwTok "UNSIGNED" .UNSIGNED] else []) ++ R))) =
      .ok (.int k l u, R) := by
  cases u with
  | false =>
    have h1 := optPrecision_toks l R hl (follow_noLParen h)
    have h2 := follow_noKw h .UNSIGNED (by simp)
    cases k <;>
      simp [IntKind.tok, kwTok, flat, parseLeaf, simpleOfKw, lenOfKw, intOfKw, h1, h2, bind, Except.bind, pure, Except.pure]
  | true =>
    have h1 := optPrecision_toks l (kwTok "UNSIGNED" .UNSIGNED :: R) hl (by simp [kwTok, consumeSym, Tok.isSym])
    have h2 : peekKw (kwTok "UNSIGNED" .UNSIGNED :: R) .UNSIGNED = true := by simp [kwTok, peekKw]
    simp only [kwTok] at h1 h2
    cases k <;>
      simp [IntKind.tok, kwTok, flat, parseLeaf, simpleOfKw, lenOfKw, intOfKw, h1, h2, bind, Except.bind, pure, Except.pure]

def charLenOK : Option CharLen → Bool
  | some (.int n _) => u64 n
  | _ => true

theorem optCharLen_toks (l : Option CharLen) (R : List Tok) (hl : charLenOK l = true)
    (h : consumeSym .LParen R = none) : optCharLen (charLenToks l ++ R) = .ok (l, R) := by
  rcases l with _ | (⟨n, _ | u⟩ | _)
  · simp [charLenToks, optCharLen, h]; rfl
  · have hn : n ≤ u64Max := by simpa [charLenOK, u64] using hl
    simp [charLenToks, optCharLen, consumeSym, LParen, RParen, Tok.isSym, numTok, literalUint,
      parseU64_digits hn, expectSym, peekKw, bind, Except.bind, pure, Except.pure]
  · have hn : n ≤ u64Max := by simpa [charLenOK, u64] using hl
    cases u <;>
    simp [charLenToks, optCharLen, consumeSym, LParen, RParen, Tok.isSym, numTok, literalUint,
      parseU64_digits hn, expectSym, peekKw, CharUnit.tok, kwTok, bind, Except.bind, pure, Except.pure]
  · simp [charLenToks, optCharLen, consumeSym, LParen, RParen, Tok.isSym, kwTok, peekKw, expectSym,
      bind, Except.bind, pure, Except.pure]

theorem peekKw_word (v : W) (q : Option Nat) (kw k : DKw) (r : List Tok) :
    peekKw (.word v q kw :: r) k = (kw == k) := rfl

theorem peekKw_sym (s : Sym) (k : DKw) (r : List Tok) : peekKw (.sym s :: r) k = false := rfl

theorem peekKw_charLen (l : Option CharLen) (R : List Tok) (k : DKw) (h : peekKw R k = false) :
    peekKw (charLenToks l ++ R) k = false := by
  rcases l with _ | (⟨n, _ | u⟩ | _)
  · simpa [charLenToks] using h
  all_goals simp [charLenToks, LParen, peekKw_sym]

theorem flat_charLike (c : Cfg) (k : CharKind) (l : Option CharLen) (R : List Tok) (hl : charLenOK l = true)
    (h : followC R.head? = true) : flat c (k.toks ++ (charLenToks l ++ R)) = .ok (.charLike k l, R) := by
  have h1 := optCharLen_toks l R hl (follow_noLParen h)
  have h2 := peekKw_charLen l R .VARYING (follow_noKw h .VARYING (by simp))
  have h3 := peekKw_charLen l R .LARGE (follow_noKw h .LARGE (by simp))
  cases k <;>
    simp [CharKind.toks, kwTok, flat, parseLeaf, charFamily, peekKw_word, h1, h2, h3, bind, Except.bind, pure, Except.pure]

def numInfoOK : NumInfo → Bool
  | .none => true
  | .prec p => u64 p
  | .precScale p s => u64 p && u64 s

theorem optNumInfo_toks (i : NumInfo) (R : List Tok) (hi : numInfoOK i = true)
    (h : consumeSym .LParen R = none) : optNumInfo (numInfoToks i ++ R) = .ok (i, R) := by
  cases i with
  | none => simp [numInfoToks, optNumInfo, h]; rfl
  | prec p =>
    have hp : p ≤ u64Max := by simpa [numInfoOK, u64] using hi
    simp [numInfoToks, optNumInfo, consumeSym, LParen, RParen, Comma, Tok.isSym, numTok, literalUint,
      parseU64_digits hp, expectSym, bind, Except.bind, pure, Except.pure]
  | precScale p s =>
    have hh : p ≤ u64Max ∧ s ≤ u64Max := by simpa [numInfoOK, u64] using hi
    simp [numInfoToks, optNumInfo, consumeSym, LParen, RParen, Comma, Tok.isSym, numTok, literalUint,
      parseU64_digits hh.1, parseU64_digits hh.2, expectSym, bind, Except.bind, pure, Except.pure]

theorem flat_exactNum (c : Cfg) (k : NumKind) (i : NumInfo) (R : List Tok) (hi : numInfoOK i = true)
    (h : followC R.head? = true) : flat c (k.tok :: (numInfoToks i ++ R)) = .ok (.exactNum k i, R) := by
  have h1 := optNumInfo_toks i R hi (follow_noLParen h)
  cases k <;>
    simp [NumKind.tok, kwTok, flat, parseLeaf, simpleOfKw, lenOfKw, intOfKw, numOfKw, h1, bind, Except.bind, pure, Except.pure]

theorem optTz_toks (z : TzInfo) (R : List Tok) (hz : z ≠ .tz) (h : followC R.head? = true) :
    optTz (tzWords z ++ R) = .ok (z, R) := by
  cases z with
  | none =>
    simp [tzWords, optTz, follow_noKw h .WITH (by simp), follow_noKw h .WITHOUT (by simp)]; rfl
  | withTz => simp [tzWords, optTz, kwTok, peekKw, expectKw, bind, Except.bind, pure, Except.pure]
  | withoutTz => simp [tzWords, optTz, kwTok, peekKw, expectKw, bind, Except.bind, pure, Except.pure]
  | tz => exact absurd rfl hz

theorem noLParen_tzWords (z : TzInfo) (R : List Tok) (h : consumeSym .LParen R = none) :
    consumeSym .LParen (tzWords z ++ R) = none := by
  cases z
  · simpa [tzWords] using h
  · simp [tzWords, kwTok, consumeSym, Tok.isSym]
  · simp [tzWords, kwTok, consumeSym, Tok.isSym]
  · simpa [tzWords] using h

theorem flat_time (c : Cfg) (k : TimeKind) (p : Option Nat) (z : TzInfo) (R : List Tok) (hp : optU64 p = true)
    (h : followC R.head? = true) : flat c (timeToks k p z ++ R) = .ok (.time k p z, R) := by
  by_cases hz : z = .tz
  · subst hz
    have h1 := optPrecision_toks p R hp (follow_noLParen h)
    cases k <;> simp [timeToks, kwTok, flat, parseLeaf, h1, bind, Except.bind, pure, Except.pure]
  · have h1 := optPrecision_toks p (tzWords z ++ R) hp (noLParen_tzWords z R (follow_noLParen h))
    have h2 := optTz_toks z R hz h
    cases k <;> cases z <;>
      simp_all [timeToks, kwTok, flat, parseLeaf, bind, Except.bind, pure, Except.pure]

theorem flat_datetime64 (c : Cfg) (env : Env) (p : Nat) (z : Option W) (R : List Tok) (hp : u64 p = true) :
    flat c (pre c env (.datetime64 p z) ++ R) = .ok (.datetime64 p z, R) := by
  have hn : p ≤ u64Max := by simpa [u64] using hp
  cases z <;>
    simp [pre, kwTok, flat, parseLeaf, expectSym, LParen, RParen, Comma, Tok.isSym, numTok, literalUint,
      parseU64_digits hn, consumeSym, literalString, bind, Except.bind, pure, Except.pure]

theorem flat_fixedString (c : Cfg) (n : Nat) (R : List Tok) (hp : u64 n = true) :
    flat c ([kwTok "FixedString" .FIXEDSTRING, LParen, numTok n, RParen] ++ R) = .ok (.fixedString n, R) := by
  have hn : n ≤ u64Max := by simpa [u64] using hp
  simp [kwTok, flat, parseLeaf, expectSym, LParen, RParen, Tok.isSym, numTok, literalUint,
      parseU64_digits hn, bind, Except.bind, pure, Except.pure]

theorem strVals_labels (c : Cfg) : ∀ (ls : List W) (R : List Tok), ls ≠ [] →
    strVals c (labelsToks ls ++ RParen :: R) = .ok (ls, RParen :: R)
  | [], _, h => absurd rfl h
  | [l], R, _ => by simp [labelsToks, intersperse, strVals, RParen, pure, Except.pure]
  | l :: l2 :: r, R, _ => by
    have ih := strVals_labels c (l2 :: r) R (by simp)
    simp only [labelsToks, Comma, List.map] at ih
    have hend : ∀ X : List Tok, afterCommaEnds c.trailingCommas
        (intersperse (Tok.sym Sym.Comma) ([Tok.sqs l2] :: List.map (fun l => [Tok.sqs l]) r) ++ X) = false := by
      intro X; cases r <;> simp [intersperse, afterCommaEnds]
    simp [labelsToks, intersperse, strVals, hend, Comma, ih, bind, Except.bind, pure, Except.pure]

theorem flat_enum (c : Cfg) (ls : List W) (R : List Tok) (h : ls ≠ []) :
    flat c (kwTok "ENUM" .ENUM :: LParen :: (labelsToks ls ++ [RParen]) ++ R) = .ok (.enum ls, R) := by
  have := strVals_labels c ls R h
  simp [kwTok, flat, parseLeaf, stringValues, expectSym, LParen, RParen, Tok.isSym, bind, Except.bind, pure, Except.pure] at this ⊢
  simp [this]

theorem flat_set (c : Cfg) (ls : List W) (R : List Tok) (h : ls ≠ []) :
    flat c (kwTok "SET" .SET :: LParen :: (labelsToks ls ++ [RParen]) ++ R) = .ok (.set ls, R) := by
  have := strVals_labels c ls R h
  simp [kwTok, flat, parseLeaf, stringValues, expectSym, LParen, RParen, Tok.isSym, bind, Except.bind, pure, Except.pure] at this ⊢
  simp [this]

theorem parseIdent_identTok (c : Cfg) (env : Env) (i : Ident) (r : List Tok) :
    parseIdent (identTok c env i :: r) = .ok (i, r) := by
  obtain ⟨v, q⟩ := i
  unfold identTok
  cases q with
  | none => simp [parseIdent, pure, Except.pure]
  | some q =>
    by_cases h1 : q = 39
    · subst h1; simp [parseIdent, pure, Except.pure]
    · by_cases h2 : q = 34 ∧ ¬ c.dqWord = true
      · obtain ⟨rfl, h3⟩ := h2
        simp [parseIdent, h3, pure, Except.pure]
      · simp only [h1, h2, if_false]
        simp [parseIdent, pure, Except.pure]

def noPeriod : List Tok → Bool
  | .sym .Period :: _ => false
  | _ => true

theorem objName_single (c : Cfg) (env : Env) (i : Ident) (X : List Tok) (hX : noPeriod X = true) :
    objName (identTok c env i :: X) = .ok ([i], X) := by
  unfold objName
  rw [parseIdent_identTok]
  cases X with
  | nil => rfl
  | cons x r =>
    cases x <;> try rfl
    rename_i s; cases s <;> first | rfl | simp [noPeriod] at hX

theorem objName_name (c : Cfg) (env : Env) : ∀ (name : List Ident) (X : List Tok), name ≠ [] →
    noPeriod X = true → objName (nameToks c env name ++ X) = .ok (name, X)
  | [], _, h, _ => absurd rfl h
  | [i], X, _, hX => by simpa [nameToks, intersperse] using objName_single c env i X hX
  | i :: j :: r, X, _, hX => by
    have ih := objName_name c env (j :: r) X (by simp) hX
    simp only [nameToks, List.map] at ih
    simp only [nameToks, List.map, intersperse, List.cons_append, List.nil_append, List.append_assoc]
    rw [objName, parseIdent_identTok]
    simp [ih, bind, Except.bind, pure, Except.pure]

theorem bqSplit_id (c : Cfg) (name : List Ident)
    (h : (!c.isBigQuery || name.all fun j => !j.value.contains 46) = true) : bqSplit c name = name := by
  unfold bqSplit
  by_cases hb : c.isBigQuery = true
  · simp [hb] at h
    have : (name.any fun i => i.value.contains 46) = false := by
      rw [List.any_eq_false]
      intro x hx
      simpa using h x hx
    simp only [hb, this, Bool.and_false]
    simp
  · simp [hb]

theorem modLoop_one {env : Env} {m : W} (h : modOK env m = true) (r : List Tok) :
    modLoop (env.lexMod m ++ r) = (do let (ms, r') ← modLoop r; pure (m :: ms, r')) := by
  unfold modOK at h
  split at h
  · rename_i s l heq
    have : s = m := by simpa using h
    subst this
    rw [heq]; simp [modLoop]
  · rename_i v q k heq
    have : wordDisplay v q = some m := by simpa using h
    rw [heq]; simp [modLoop, this]
  · rename_i s heq
    have : sqSpell s = m := by simpa using h
    subst this
    rw [heq]; simp [modLoop]
  · simp at h

theorem modLoop_mods {env : Env} : ∀ (mods : List W) (R : List Tok), mods ≠ [] → mods.all (modOK env) = true →
    modLoop (intersperse Comma (mods.map env.lexMod) ++ RParen :: R) = .ok (mods, R)
  | [], _, h, _ => absurd rfl h
  | [m], R, _, hm => by
    have h1 : modOK env m = true := by simpa using hm
    simp only [List.map, intersperse]
    rw [modLoop_one h1]
    simp [modLoop, RParen, bind, Except.bind, pure, Except.pure]
  | m :: m2 :: r, R, _, hm => by
    have h1 : modOK env m = true ∧ (m2 :: r).all (modOK env) = true := by simpa using hm
    have ih := modLoop_mods (m2 :: r) R (by simp) h1.2
    simp only [List.map] at ih
    simp only [List.map, intersperse, List.append_assoc, List.cons_append]
    rw [modLoop_one h1.1]
    simp [modLoop, Comma, ih, bind, Except.bind, pure, Except.pure]
    simp only [Comma] at ih
    simp [ih]

theorem parseLeaf_none (c : Cfg) (k : DKw) (r : List Tok) (h : leafKw k = false) : parseLeaf c k r = none := by
  cases k <;> simp [leafKw, simpleOfKw, lenOfKw, intOfKw, numOfKw] at h <;>
    simp [parseLeaf, simpleOfKw, lenOfKw, intOfKw, numOfKw]

/-- the first token is a word whose keyword selects no recursive arm under the dialect -/
def headFlat (c : Cfg) : List Tok → Bool
  | .word _ _ kw :: _ => (headOf c kw).isNone
  | _ => false

theorem helper_flat2 (c : Cfg) (f d : Nat) (ts : List Tok) (h : headFlat c ts = true) :
    parseHelper c (f + 1) (d + 1) ts =
      match flat c ts with
      | .error e => .error e
      | .ok (t, r1) => finish c f t false r1 := by
  cases ts with
  | nil => simp [headFlat] at h
  | cons x r =>
    cases x <;> try (simp [headFlat] at h)
    rename_i v q kw
    exact helper_flat c f d v q kw r (by simpa [headFlat] using h)

theorem flat_custom (c : Cfg) (env : Env) (name : List Ident) (mods : List W) (R : List Tok)
    (h : prod c env (.custom name mods) = true) (hf : followC R.head? = true) :
    headFlat c (pre c env (.custom name mods) ++ R) = true ∧
    flat c (pre c env (.custom name mods) ++ R) = .ok (.custom name mods, R) := by
  simp only [prod, Bool.and_eq_true] at h
  obtain ⟨hname, hmods⟩ := h
  cases name with
  | nil => simp [nameOK] at hname
  | cons i rest =>
    simp only [nameOK, Bool.and_eq_true] at hname
    obtain ⟨⟨hw, hk⟩, hbq⟩ := hname
    -- the first token
    have hfirst : ∃ v q, identTok c env i = .word v q (identKw env i) := by
      obtain ⟨v, q⟩ := i
      unfold identTok identKw
      cases q with
      | none => exact ⟨v, none, rfl⟩
      | some q =>
        simp only [identIsWord, Bool.and_eq_true, Bool.not_eq_true', beq_eq_false_iff_ne, ne_eq] at hw
        have h1 : ¬ q = 39 := hw.1
        have h2 : ¬ (q = 34 ∧ ¬ c.dqWord = true) := by
          intro hh; have := hw.2; simp [hh.1, hh.2] at this
        exact ⟨v, some q, by simp only [h1, if_false]; rw [if_neg h2]⟩
    obtain ⟨v, q, hv⟩ := hfirst
    simp only [isCustomKw, Bool.and_eq_true, Bool.not_eq_true'] at hk
    have hpre : ∃ X, pre c env (.custom (i :: rest) mods) ++ R = .word v q (identKw env i) :: X := by
      cases rest <;> by_cases hm : mods.isEmpty = true <;>
        simp [pre, hm, nameToks, intersperse, hv]
    obtain ⟨X, hX⟩ := hpre
    refine ⟨by rw [hX]; simpa [headFlat] using hk.1, ?_⟩
    have hleaf : ∀ r, parseLeaf c (identKw env i) r = none := fun r => parseLeaf_none c _ r hk.2
    rw [hX]
    simp only [flat, hleaf]
    rw [← hX]
    -- the `_` arm
    by_cases hm : mods.isEmpty = true
    · have hm' : mods = [] := by simpa using hm
      subst hm'
      have hR : noPeriod R = true := by
        cases R with
        | nil => rfl
        | cons x r => cases x <;> try rfl
                      rename_i s; cases s <;> first | rfl | simp [followC] at hf
      simp [pre, parseCustom, objName_name c env (i :: rest) R (by simp) hR, bqSplit_id c _ hbq,
        follow_noLParen hf, bind, Except.bind, pure, Except.pure]
    · have hne : mods ≠ [] := by intro hh; subst hh; simp at hm
      have h1 := objName_name c env (i :: rest) (LParen :: (intersperse Comma (mods.map env.lexMod) ++ RParen :: R))
        (by simp) (by simp [LParen, noPeriod])
      have h2 := modLoop_mods mods R hne hmods
      simp only [pre, hm, if_false, Bool.false_eq_true, List.append_assoc, List.cons_append, List.nil_append]
      simp [parseCustom, h1, bqSplit_id c _ hbq, consumeSym, LParen, Tok.isSym, h2, bind, Except.bind, pure, Except.pure]
      simp only [LParen] at h1
      simp [h1, bqSplit_id c _ hbq, h2]

-- ------------------------------------------------------------------ the `[]` suffix loop
def applySq : DT → List (Option Nat) → DT
  | t, [] => t
  | t, s :: ss => applySq (.arraySquare t s) ss

def sfxToks (c : Cfg) (ss : List (Option Nat)) : List Tok := ss.flatMap (sqToks c)

def szOK (c : Cfg) : Option Nat → Bool
  | none => true
  | some n => u64 n && (c.isGeneric || c.isDuckDb || c.isPostgres)

theorem suffix_spec (c : Cfg) (hlb : c.lbWord = false) : ∀ (ss : List (Option Nat)) (f : Nat) (t : DT) (R : List Tok),
    ss.all (szOK c) = true → consumeSym .LBracket R = none → ss.length + 1 ≤ f →
    suffixLoop c f t (sfxToks c ss ++ R) = .ok (applySq t ss, R)
  | [], f, t, R, _, hR, hf => by
    obtain ⟨f', rfl⟩ : ∃ f', f = f' + 1 := ⟨f - 1, by simp at hf; omega⟩
    simp [sfxToks, suffixLoop, hR, applySq, pure, Except.pure]
  | sz :: ss, f, t, R, hs, hR, hf => by
    obtain ⟨f', rfl⟩ : ∃ f', f = f' + 1 := ⟨f - 1, by simp at hf; omega⟩
    have hs' : szOK c sz = true ∧ ss.all (szOK c) = true := by simpa using hs
    have ih := suffix_spec c hlb ss f' (.arraySquare t sz) R hs'.2 hR (by simp at hf ⊢; omega)
    simp only [sfxToks] at ih
    cases sz with
    | none =>
      simp only [sfxToks, List.flatMap_cons, sqToks, hlb, Bool.false_eq_true, if_false, List.cons_append,
        List.nil_append, List.append_assoc]
      rw [suffixLoop]
      simp only [consumeSym, Tok.isSym, beq_self_eq_true, if_true]
      by_cases hsz : (c.isGeneric || c.isDuckDb || c.isPostgres) = true
      · simp [hsz, literalUint, expectedAt, expectSym, Tok.isSym, ih, applySq]
      · simp [hsz, expectSym, Tok.isSym, ih, applySq]
    | some n =>
      have hn : n ≤ u64Max ∧ (c.isGeneric || c.isDuckDb || c.isPostgres) = true := by
        simpa [szOK, u64] using hs'.1
      simp only [sfxToks, List.flatMap_cons, sqToks, hlb, Bool.false_eq_true, if_false, List.cons_append,
        List.nil_append, List.append_assoc]
      rw [suffixLoop]
      simp only [consumeSym, Tok.isSym, beq_self_eq_true, if_true]
      simp [hn.2, numTok, literalUint, parseU64_digits hn.1, expectSym, Tok.isSym, ih, applySq, bind, Except.bind,
        pure, Except.pure]

-- ------------------------------------------------------------------ what is left after a type
/-- `MatchedTrailingBracket` returned for `t` followed by `k` outer closers -/
def trOf (t : DT) (k : Nat) : Bool := decide (closers t % 2 = 1) && decide (1 ≤ k)

/-- the stream left after `t`: the unconsumed outer closers, then `T` -/
def remOf (t : DT) (k : Nat) (T : List Tok) : List Tok := run0 (if trOf t k then k - 1 else k) ++ T

/-- no token of the outer run is left in front of `T` once `t` has been read -/
def runEmpty (t : DT) (k : Nat) : Bool := k == 0 || (k == 1 && closers t % 2 == 1)

/-- hypotheses on what follows: `sq` = the `[` of a suffix may follow (core only) -/
def Ctx (sq : Bool) (t : DT) (k : Nat) (T : List Tok) : Prop :=
  runEmpty t k = true →
    followC T.head? = true ∧ (structEven t = true → T.head? ≠ some Comma) ∧
    (consumeSym .LBracket T ≠ none → sq = true ∧ k = 0 ∧ (closers t = 0 ∨ closers t % 2 = 1))

theorem run0_head (n : Nat) (hn : 1 ≤ n) : ∃ r, run0 n = ShrT :: r ∨ run0 n = GtT :: r := by
  rcases n with _ | _ | n
  · omega
  · exact ⟨[], Or.inr (by simp)⟩
  · exact ⟨run0 n, Or.inl (run0_add_two n)⟩

theorem remOf_runEmpty (t : DT) (k : Nat) (T : List Tok) (h : runEmpty t k = true) : remOf t k T = T := by
  unfold runEmpty at h
  unfold remOf trOf
  simp only [Bool.or_eq_true, Bool.and_eq_true, beq_iff_eq] at h
  rcases h with h | ⟨h1, h2⟩
  · subst h; simp
  · subst h1; simp [h2]

theorem remOf_head (t : DT) (k : Nat) (T : List Tok) (h : runEmpty t k = false) :
    ∃ r, remOf t k T = ShrT :: r ∨ remOf t k T = GtT :: r := by
  unfold runEmpty at h
  unfold remOf trOf
  simp only [Bool.or_eq_false_iff, Bool.and_eq_false_imp, beq_eq_false_iff_ne, ne_eq, beq_iff_eq] at h
  obtain ⟨h0, h1⟩ := h
  by_cases hc : closers t % 2 = 1
  · have hk : 2 ≤ k := by
      by_cases hk1 : k = 1
      · exact absurd hc (h1 hk1)
      · omega
    have : decide (1 ≤ k) = true := by simp; omega
    simp only [hc, this, decide_true, Bool.and_self, if_true]
    obtain ⟨r, hr⟩ := run0_head (k - 1) (by omega)
    exact ⟨r ++ T, by rcases hr with hr | hr <;> simp [hr]⟩
  · simp only [hc, decide_false, Bool.false_and, Bool.false_eq_true, if_false]
    obtain ⟨r, hr⟩ := run0_head k (by omega)
    exact ⟨r ++ T, by rcases hr with hr | hr <;> simp [hr]⟩

/-- whatever `followC` and friends look at is fine in front of the remaining stream -/
theorem followC_rem {sq : Bool} {t : DT} {k : Nat} {T : List Tok} (h : Ctx sq t k T) :
    followC (remOf t k T).head? = true := by
  by_cases he : runEmpty t k = true
  · rw [remOf_runEmpty t k T he]; exact (h he).1
  · obtain ⟨r, hr⟩ := remOf_head t k T (by simpa using he)
    rcases hr with hr | hr <;> simp [hr, ShrT, GtT, followC]

theorem noComma_rem {sq : Bool} {t : DT} {k : Nat} {T : List Tok} (h : Ctx sq t k T) (hs : structEven t = true) :
    consumeSym .Comma (remOf t k T) = none := by
  by_cases he : runEmpty t k = true
  · rw [remOf_runEmpty t k T he]
    have := (h he).2.1 hs
    cases T with
    | nil => rfl
    | cons x r =>
      cases x <;> try rfl
      rename_i s; cases s <;> first | rfl | simp [Comma] at this
  · obtain ⟨r, hr⟩ := remOf_head t k T (by simpa using he)
    rcases hr with hr | hr <;> simp [hr, ShrT, GtT, consumeSym, Tok.isSym]

theorem noLB_rem {t : DT} {k : Nat} {T : List Tok} (h : Ctx false t k T) :
    consumeSym .LBracket (remOf t k T) = none := by
  by_cases he : runEmpty t k = true
  · rw [remOf_runEmpty t k T he]
    by_cases hh : consumeSym .LBracket T = none
    · exact hh
    · have := ((h he).2.2 hh).1
      simp at this
  · obtain ⟨r, hr⟩ := remOf_head t k T (by simpa using he)
    rcases hr with hr | hr <;> simp [hr, ShrT, GtT, consumeSym, Tok.isSym]

theorem finish_ok (c : Cfg) (f : Nat) (t : DT) (tr : Bool) (R : List Tok) (h : consumeSym .LBracket R = none) :
    finish c (f + 1) t tr R = .ok (t, tr, R) := by
  simp [finish, suffixLoop, h, pure, Except.pure]

-- ------------------------------------------------------------------ leaves
def isLeaf : DT → Bool
  | .simple _ | .withLen _ _ | .int _ _ _ | .charLike _ _ | .exactNum _ _ | .time _ _ _ | .datetime64 _ _
  | .fixedString _ | .custom _ _ | .enum _ | .set _ => true
  | _ => false

theorem core_leaf (c : Cfg) (env : Env) (f d : Nat) (t : DT) (R : List Tok) (hl : isLeaf t = true)
    (hp : prod c env t = true) (hf : followC R.head? = true) :
    parseHelper c (f + 1) (d + 1) (pre c env t ++ R) = finish c f t false R := by
  cases t <;> simp [isLeaf] at hl
  case simple k =>
    have hk : k ≠ .unspecified := by simpa [prod] using hp
    have h1 : headFlat c (pre c env (.simple k) ++ R) = true := by
      cases k <;> first | rfl | exact absurd rfl hk
    rw [helper_flat2 c f d _ h1]
    simp only [pre, flat_simple c k R hk hf]
  case withLen k l =>
    have h1 : headFlat c (pre c env (.withLen k l) ++ R) = true := by cases k <;> rfl
    rw [helper_flat2 c f d _ h1]
    simp only [pre, List.append_assoc, flat_withLen c k l R (by simpa [prod] using hp) hf]
  case int k l u =>
    have h1 : headFlat c (pre c env (.int k l u) ++ R) = true := by cases k <;> rfl
    rw [helper_flat2 c f d _ h1]
    simp only [pre, List.cons_append, List.append_assoc, flat_int c k l u R (by simpa [prod] using hp) hf]
  case charLike k l =>
    have h1 : headFlat c (pre c env (.charLike k l) ++ R) = true := by cases k <;> rfl
    rw [helper_flat2 c f d _ h1]
    have hl' : charLenOK l = true := by
      rcases l with _ | (⟨n, u⟩ | _) <;> simp [prod, charLenOK] at hp ⊢
      exact hp
    simp only [pre, List.append_assoc, flat_charLike c k l R hl' hf]
  case exactNum k i =>
    have h1 : headFlat c (pre c env (.exactNum k i) ++ R) = true := by cases k <;> rfl
    rw [helper_flat2 c f d _ h1]
    have hi : numInfoOK i = true := by cases i <;> simp [prod, numInfoOK] at hp ⊢ <;> exact hp
    simp only [pre, List.cons_append, flat_exactNum c k i R hi hf]
  case time k p z =>
    have h1 : headFlat c (pre c env (.time k p z) ++ R) = true := by cases k <;> cases z <;> rfl
    rw [helper_flat2 c f d _ h1]
    simp only [pre, flat_time c k p z R (by simpa [prod] using hp) hf]
  case datetime64 p z =>
    have h1 : headFlat c (pre c env (.datetime64 p z) ++ R) = true := rfl
    rw [helper_flat2 c f d _ h1]
    simp only [flat_datetime64 c env p z R (by simpa [prod] using hp)]
  case fixedString n =>
    have h1 : headFlat c (pre c env (.fixedString n) ++ R) = true := rfl
    rw [helper_flat2 c f d _ h1]
    simp only [pre, flat_fixedString c n R (by simpa [prod] using hp)]
  case custom name mods =>
    obtain ⟨h1, h2⟩ := flat_custom c env name mods R hp hf
    rw [helper_flat2 c f d _ h1, h2]
  case enum ls =>
    have h1 : headFlat c (pre c env (.enum ls) ++ R) = true := rfl
    rw [helper_flat2 c f d _ h1]
    have hne : ls ≠ [] := by intro hh; subst hh; simp [prod] at hp
    simp only [pre, flat_enum c ls R hne]
  case set ls =>
    have h1 : headFlat c (pre c env (.set ls) ++ R) = true := rfl
    rw [helper_flat2 c f d _ h1]
    have hne : ls ≠ [] := by intro hh; subst hh; simp [prod] at hp
    simp only [pre, flat_set c ls R hne]


-- ------------------------------------------------------------------ the first two tokens of a type
theorem pre_head_word (c : Cfg) (env : Env) (t : DT) (hl : isLeaf t = true) (hp : prod c env t = true) :
    ∃ v q kw r, pre c env t = .word v q kw :: r := by
  cases t <;> simp [isLeaf] at hl
  case simple k =>
    have hk : k ≠ .unspecified := by simpa [prod] using hp
    cases k <;> first | exact ⟨_, _, _, _, rfl⟩ | exact absurd rfl hk
  case withLen k l => cases k <;> exact ⟨_, _, _, _, rfl⟩
  case int k l u => cases k <;> exact ⟨_, _, _, _, rfl⟩
  case charLike k l => cases k <;> exact ⟨_, _, _, _, rfl⟩
  case exactNum k i => cases k <;> exact ⟨_, _, _, _, rfl⟩
  case time k p z => cases k <;> cases z <;> exact ⟨_, _, _, _, rfl⟩
  case datetime64 p z => exact ⟨_, _, _, _, rfl⟩
  case fixedString n => exact ⟨_, _, _, _, rfl⟩
  case custom name mods =>
    obtain ⟨h1, _⟩ := flat_custom c env name mods [] hp rfl
    cases hx : pre c env (.custom name mods) ++ [] with
    | nil => rw [hx] at h1; simp [headFlat] at h1
    | cons x r =>
      rw [hx] at h1
      cases x <;> simp [headFlat] at h1
      rename_i v q kw
      exact ⟨v, q, kw, r, by simpa using hx⟩
  case enum ls => exact ⟨_, _, _, _, rfl⟩
  case set ls => exact ⟨_, _, _, _, rfl⟩

theorem emit_head_word (c : Cfg) (env : Env) : ∀ (t : DT) (k : Nat) (T : List Tok), prod c env t = true →
    ∃ v q kw r, emit c env g t k T = .word v q kw :: r
  | .arraySquare t sz, k, T, h => by
    simp only [prod, Bool.and_eq_true] at h
    simp only [emit]
    exact emit_head_word c env t 0 _ h.1.1.2
  | .arrayAngle t, k, T, _ => ⟨_, _, _, _, rfl⟩
  | .arrayParen t, k, T, _ => ⟨_, _, _, _, rfl⟩
  | .map a b, k, T, _ => ⟨_, _, _, _, rfl⟩
  | .tuple fs, k, T, _ => ⟨_, _, _, _, rfl⟩
  | .nested fs, k, T, _ => ⟨_, _, _, _, rfl⟩
  | .union fs, k, T, _ => ⟨_, _, _, _, rfl⟩
  | .struct .nil _, k, T, _ => ⟨_, _, _, _, rfl⟩
  | .struct (.cons n t r) .paren, k, T, _ => ⟨_, _, _, _, rfl⟩
  | .struct (.cons n t r) .angle, k, T, _ => ⟨_, _, _, _, rfl⟩
  | .nullable t, k, T, _ => ⟨_, _, _, _, rfl⟩
  | .lowCardinality t, k, T, _ => ⟨_, _, _, _, rfl⟩
  | .arrayNone, k, T, _ => ⟨_, _, _, _, rfl⟩
  | .simple x, k, T, h => by
    obtain ⟨v, q, kw, r, hr⟩ := pre_head_word c env (.simple x) rfl h
    exact ⟨v, q, kw, r ++ (run g k ++ T), by simp only [emit, hr, List.cons_append]⟩
  | .withLen x l, k, T, h => by
    obtain ⟨v, q, kw, r, hr⟩ := pre_head_word c env (.withLen x l) rfl h
    exact ⟨v, q, kw, r ++ (run g k ++ T), by simp only [emit, hr, List.cons_append]⟩
  | .int x l u, k, T, h => by
    obtain ⟨v, q, kw, r, hr⟩ := pre_head_word c env (.int x l u) rfl h
    exact ⟨v, q, kw, r ++ (run g k ++ T), by simp only [emit, hr, List.cons_append]⟩
  | .charLike x l, k, T, h => by
    obtain ⟨v, q, kw, r, hr⟩ := pre_head_word c env (.charLike x l) rfl h
    exact ⟨v, q, kw, r ++ (run g k ++ T), by simp only [emit, hr, List.cons_append]⟩
  | .exactNum x i, k, T, h => by
    obtain ⟨v, q, kw, r, hr⟩ := pre_head_word c env (.exactNum x i) rfl h
    exact ⟨v, q, kw, r ++ (run g k ++ T), by simp only [emit, hr, List.cons_append]⟩
  | .time x p z, k, T, h => by
    obtain ⟨v, q, kw, r, hr⟩ := pre_head_word c env (.time x p z) rfl h
    exact ⟨v, q, kw, r ++ (run g k ++ T), by simp only [emit, hr, List.cons_append]⟩
  | .datetime64 p z, k, T, h => by
    obtain ⟨v, q, kw, r, hr⟩ := pre_head_word c env (.datetime64 p z) rfl h
    exact ⟨v, q, kw, r ++ (run g k ++ T), by simp only [emit, hr, List.cons_append]⟩
  | .fixedString n, k, T, h => by
    obtain ⟨v, q, kw, r, hr⟩ := pre_head_word c env (.fixedString n) rfl h
    exact ⟨v, q, kw, r ++ (run g k ++ T), by simp only [emit, hr, List.cons_append]⟩
  | .custom n m, k, T, h => by
    obtain ⟨v, q, kw, r, hr⟩ := pre_head_word c env (.custom n m) rfl h
    exact ⟨v, q, kw, r ++ (run g k ++ T), by simp only [emit, hr, List.cons_append]⟩
  | .enum ls, k, T, h => by
    obtain ⟨v, q, kw, r, hr⟩ := pre_head_word c env (.enum ls) rfl h
    exact ⟨v, q, kw, r ++ (run g k ++ T), by simp only [emit, hr, List.cons_append]⟩
  | .set ls, k, T, h => by
    obtain ⟨v, q, kw, r, hr⟩ := pre_head_word c env (.set ls) rfl h
    exact ⟨v, q, kw, r ++ (run g k ++ T), by simp only [emit, hr, List.cons_append]⟩


def nonWord : List Tok → Bool
  | x :: _ => !x.isWord
  | [] => true

theorem fieldHasName_append (xs X : List Tok) (hx : xs ≠ []) (hX : nonWord X = true) :
    fieldHasName (xs ++ X) = twoWords xs := by
  rcases xs with _ | ⟨a, _ | ⟨b, r⟩⟩
  · exact absurd rfl hx
  · cases X with
    | nil => simp [fieldHasName, twoWords]
    | cons x r => simp [fieldHasName, twoWords]; intro _; simpa [nonWord] using hX
  · simp [fieldHasName, twoWords]

theorem hasName_leaf (c : Cfg) (env : Env) (t : DT) (X : List Tok) (hl : isLeaf t = true)
    (hp : prod c env t = true) (hX : nonWord X = true) :
    fieldHasName (pre c env t ++ X) = twoWords (pre c env t) := by
  obtain ⟨v, q, kw, r, hr⟩ := pre_head_word c env t hl hp
  exact fieldHasName_append (pre c env t) X (by rw [hr]; simp) hX

theorem hasName_emit (c : Cfg) (env : Env) : ∀ (t : DT) (k : Nat) (T : List Tok), prod c env t = true →
    nonWord (run g k ++ T) = true → fieldHasName (emit c env g t k T) = twoWordsT c env t
  | .arraySquare t sz, k, T, h, _ => by
    simp only [prod, Bool.and_eq_true, Bool.not_eq_true'] at h
    simp only [emit, twoWordsT]
    refine hasName_emit c env t 0 _ h.1.1.2 ?_
    simp only [run_zero, List.nil_append, sqToks, h.1.1.1, Bool.false_eq_true, if_false]
    cases sz <;> simp [nonWord, Tok.isWord]
  | .arrayAngle t, k, T, _, _ => by simp [emit, twoWordsT, fieldHasName, LtT, Tok.isWord]
  | .arrayParen t, k, T, _, _ => by simp [emit, twoWordsT, fieldHasName, LParen, Tok.isWord]
  | .map a b, k, T, _, _ => by simp [emit, twoWordsT, fieldHasName, LParen, Tok.isWord]
  | .tuple fs, k, T, _, _ => by simp [emit, twoWordsT, fieldHasName, LParen, Tok.isWord]
  | .nested fs, k, T, _, _ => by simp [emit, twoWordsT, fieldHasName, LParen, Tok.isWord]
  | .union fs, k, T, _, _ => by simp [emit, twoWordsT, fieldHasName, LParen, Tok.isWord]
  | .struct .nil b, k, T, _, hX => by
    simp only [emit, twoWordsT]
    cases hx : run g k ++ T with
    | nil => simp [fieldHasName]
    | cons x r => rw [hx] at hX; simp [fieldHasName]; intro _; simpa [nonWord] using hX
  | .struct (.cons n t r) .paren, k, T, _, _ => by simp [emit, twoWordsT, fieldHasName, LParen, Tok.isWord]
  | .struct (.cons n t r) .angle, k, T, _, _ => by simp [emit, twoWordsT, fieldHasName, LtT, Tok.isWord]
  | .nullable t, k, T, _, _ => by simp [emit, twoWordsT, fieldHasName, LParen, Tok.isWord]
  | .lowCardinality t, k, T, _, _ => by simp [emit, twoWordsT, fieldHasName, LParen, Tok.isWord]
  | .arrayNone, k, T, _, hX => by
    simp only [emit, twoWordsT, pre, List.cons_append, List.nil_append]
    cases hx : run g k ++ T with
    | nil => simp [fieldHasName]
    | cons x r => rw [hx] at hX; simp [fieldHasName]; intro _; simpa [nonWord] using hX
  | .simple x, k, T, h, hX => by simp only [emit, twoWordsT]; exact hasName_leaf c env _ _ rfl h hX
  | .withLen x l, k, T, h, hX => by simp only [emit, twoWordsT]; exact hasName_leaf c env _ _ rfl h hX
  | .int x l u, k, T, h, hX => by simp only [emit, twoWordsT]; exact hasName_leaf c env _ _ rfl h hX
  | .charLike x l, k, T, h, hX => by simp only [emit, twoWordsT]; exact hasName_leaf c env _ _ rfl h hX
  | .exactNum x i, k, T, h, hX => by simp only [emit, twoWordsT]; exact hasName_leaf c env _ _ rfl h hX
  | .time x p z, k, T, h, hX => by simp only [emit, twoWordsT]; exact hasName_leaf c env _ _ rfl h hX
  | .datetime64 p z, k, T, h, hX => by simp only [emit, twoWordsT]; exact hasName_leaf c env _ _ rfl h hX
  | .fixedString n, k, T, h, hX => by simp only [emit, twoWordsT]; exact hasName_leaf c env _ _ rfl h hX
  | .custom n m, k, T, h, hX => by simp only [emit, twoWordsT]; exact hasName_leaf c env _ _ rfl h hX
  | .enum ls, k, T, h, hX => by simp only [emit, twoWordsT]; exact hasName_leaf c env _ _ rfl h hX
  | .set ls, k, T, h, hX => by simp only [emit, twoWordsT]; exact hasName_leaf c env _ _ rfl h hX


end SqlVerif.DTy

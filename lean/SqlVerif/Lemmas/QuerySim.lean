import SqlVerif.Lemmas.QueryExt
import SqlVerif.Lemmas.PrintSim
import SqlVerif.Lemmas.PrintFaithful
/-!
The query model (`Model/Query.lean`) respects the token image `qc`.

`qc` is what the query layer (and, below it, the expression layer) can observe of a token:
identifiers (words without a keyword), numbers, strings and placeholders literally; of a keyword
word its keyword, its quote style, whether its spelling is `from` up to case (`isBareFrom`), starts
with an underscore (`parse_prefix`) or contains a period (BigQuery table names); `==` and `=` are one
operator.

Every parser function `F` of the model satisfies `Rel2 M (F ts) (F (ts.map qc))`: on `ts` and on its
image it fails on both or succeeds on both, with the image of the tree (`M = mapT qc`) and the image
of the rest.  Since `qc` is a function on single tokens, this gives the two-list form: on two token
lists with the same image the parser takes the same branches (`*_sim2`).
-/
namespace SqlVerif.Query
open SqlVerif.Pratt SqlVerif.Gen
open SqlVerif.SetClimb (Op SQuant precOf)
set_option linter.unusedSimpArgs false

-- ------------------------------------------------------------------ the token image
/-- what is kept of the spelling of a keyword word -/
def encB (fr us dot : Bool) : W :=
  if fr then str "from" else (if us then [95] else []) ++ (if dot then [46] else [])

def encV (v : W) : W := encB (asciiLower v == str "from") (v.head? == some 95) (v.contains 46)

def qc : Tok → Tok
  | .word v q (some k) => .word (encV v) q (some k)
  | .sym .DoubleEq => .sym .Eq
  | t => t

theorem str_from : str "from" = [102, 114, 111, 109] := by decide

theorem lower_from_shape {v : W} (h : asciiLower v = str "from") :
    v.contains 46 = false ∧ (v.head? == some 95) = false := by
  rw [str_from] at h
  unfold asciiLower at h
  match v, h with
  | [], h => simp at h
  | [_], h => simp at h
  | [_, _], h => simp at h
  | [_, _, _], h => simp at h
  | _ :: _ :: _ :: _ :: _ :: _, h => simp at h
  | [a, b, c, d], h =>
    simp only [List.map_cons, List.map_nil, List.cons.injEq, and_true] at h
    obtain ⟨h1, h2, h3, h4⟩ := h
    refine ⟨?_, ?_⟩
    · simp only [List.contains_cons, List.contains_nil, Bool.or_false, Bool.or_eq_false_iff, beq_eq_false_iff_ne, ne_eq]
      refine ⟨?_, ?_, ?_, ?_⟩ <;> intro hx <;> simp [← hx] at h1 h2 h3 h4
    · simp only [List.head?_cons, beq_eq_false_iff_ne, ne_eq, Option.some.injEq]
      intro hx; simp [hx] at h1

theorem encB_lower (fr us dot : Bool) : (asciiLower (encB fr us dot) == str "from") = fr := by
  cases fr <;> cases us <;> cases dot <;> decide

theorem encB_head (us dot : Bool) : ((encB false us dot).head? == some 95) = us := by
  cases us <;> cases dot <;> decide

theorem encB_dot (us dot : Bool) : (encB false us dot).contains 46 = dot := by
  cases us <;> cases dot <;> decide

theorem encV_lower (v : W) : (asciiLower (encV v) == str "from") = (asciiLower v == str "from") := encB_lower _ _ _

theorem encV_head (v : W) : ((encV v).head? == some 95) = (v.head? == some 95) := by
  unfold encV
  cases h : (asciiLower v == str "from")
  · exact encB_head _ _
  · have hv := lower_from_shape (v := v) (by simpa using h)
    rw [hv.2]; rfl

theorem encV_dot (v : W) : (encV v).contains 46 = v.contains 46 := by
  unfold encV
  cases h : (asciiLower v == str "from")
  · exact encB_dot _ _
  · have hv := lower_from_shape (v := v) (by simpa using h)
    rw [hv.1]; rfl

theorem qc_sym (s : Sym) : qc (.sym s) = .sym (if s = .DoubleEq then .Eq else s) := by
  cases s <;> rfl

theorem canon_qc (t : Tok) : canon (qc t) = canon t := by
  cases t with
  | word v q kw =>
    cases kw with
    | none => rfl
    | some k => simp only [qc, canon, encV_head]
  | sym s => cases s <;> rfl
  | _ => rfl

theorem qc_isKw (t : Tok) (k : Nat) : (qc t).isKw k = t.isKw k := by
  rw [← canon_isKw, canon_qc, canon_isKw]

theorem qc_isSym (t : Tok) (s : Sym) (h1 : s ≠ .Eq) (h2 : s ≠ .DoubleEq) : (qc t).isSym s = t.isSym s := by
  rw [← canon_isSym _ _ h1 h2, canon_qc, canon_isSym _ _ h1 h2]

theorem qc_isIdentTok (t : Tok) : isIdentTok (qc t) = isIdentTok t := by
  cases t with
  | word v q kw => cases kw <;> rfl
  | sym s => cases s <;> rfl
  | _ => rfl

theorem qc_endsList (t : Tok) : endsList (qc t) = endsList t := by
  cases t with
  | word v q kw => cases kw <;> rfl
  | sym s => cases s <;> rfl
  | _ => rfl

theorem map_canon_qc (ts : List Tok) : (ts.map qc).map canon = ts.map canon := by
  simp [Function.comp_def, canon_qc]

theorem sim_qc (ts : List Tok) : Sim ts (ts.map qc) := (map_canon_qc ts).symm

end SqlVerif.Query

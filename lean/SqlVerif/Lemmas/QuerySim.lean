import SqlVerif.Lemmas.QueryExt
import SqlVerif.Lemmas.PrintSim
import SqlVerif.Lemmas.PrintFaithful
/-!
The query model (`Model/Query.lean`) respects the token image `qc`.

`qc` is what the query layer (and, below it, the expression layer) can observe of a token:
identifiers (words without a keyword), numbers, strings and placeholders literally; of a keyword
word its keyword, its quote style, whether its spelling is `from` up to case (`isBareFrom`), starts
with an underscore (`parse_prefix`) or contains a period (BigQuery table names); `==` and `=` are one
operator.

Every parser function `F` of the model satisfies `Rel2 M (F ts) (F (ts.map qc))`: on `ts` and on its
image it fails on both or succeeds on both, with the image of the tree (`M = mapT qc`) and the image
of the rest.  Since `qc` is a function on single tokens, this gives the two-list form: on two token
lists with the same image the parser takes the same branches (`*_sim2`).
-/
namespace SqlVerif.Query
open SqlVerif.Pratt SqlVerif.Gen
open SqlVerif.SetClimb (Op SQuant precOf)
set_option linter.unusedSimpArgs false

-- ------------------------------------------------------------------ the token image
/-- what is kept of the spelling of a keyword word -/
def encB (fr us dot : Bool) : W :=
  if fr then str "from" else (if us then [95] else []) ++ (if dot then [46] else [])

def encV (v : W) : W := encB (asciiLower v == str "from") (v.head? == some 95) (v.contains 46)

def qc : Tok → Tok
  | .word v q (some k) => .word (encV v) q (some k)
  | .sym .DoubleEq => .sym .Eq
  | t => t

theorem str_from : str "from" = [102, 114, 111, 109] := by decide

theorem lower_from_shape {v : W} (h : asciiLower v = str "from") :
    v.contains 46 = false ∧ (v.head? == some 95) = false := by
  rw [str_from] at h
  unfold asciiLower at h
  match v, h with
  | [], h => simp at h
  | [_], h => simp at h
  | [_, _], h => simp at h
  | [_, _, _], h => simp at h
  | _ :: _ :: _ :: _ :: _ :: _, h => simp at h
  | [a, b, c, d], h =>
    simp only [List.map_cons, List.map_nil, List.cons.injEq, and_true] at h
    obtain ⟨h1, h2, h3, h4⟩ := h
    refine ⟨?_, ?_⟩
    · simp only [List.contains_cons, List.contains_nil, Bool.or_false, Bool.or_eq_false_iff, beq_eq_false_iff_ne, ne_eq]
      refine ⟨?_, ?_, ?_, ?_⟩ <;> intro hx <;> simp [← hx] at h1 h2 h3 h4
    · simp only [List.head?_cons, beq_eq_false_iff_ne, ne_eq, Option.some.injEq]
      intro hx; simp [hx] at h1

theorem encB_lower (fr us dot : Bool) : (asciiLower (encB fr us dot) == str "from") = fr := by
  cases fr <;> cases us <;> cases dot <;> decide

theorem encB_head (us dot : Bool) : ((encB false us dot).head? == some 95) = us := by
  cases us <;> cases dot <;> decide

theorem encB_dot (us dot : Bool) : (encB false us dot).contains 46 = dot := by
  cases us <;> cases dot <;> decide

theorem encV_lower (v : W) : (asciiLower (encV v) == str "from") = (asciiLower v == str "from") := encB_lower _ _ _

theorem encV_head (v : W) : ((encV v).head? == some 95) = (v.head? == some 95) := by
  unfold encV
  cases h : (asciiLower v == str "from")
  · exact encB_head _ _
  · have hv := lower_from_shape (v := v) (by simpa using h)
    rw [hv.2]; rfl

theorem encV_dot (v : W) : (encV v).contains 46 = v.contains 46 := by
  unfold encV
  cases h : (asciiLower v == str "from")
  · exact encB_dot _ _
  · have hv := lower_from_shape (v := v) (by simpa using h)
    rw [hv.1]; rfl

theorem qc_sym (s : Sym) : qc (.sym s) = .sym (if s = .DoubleEq then .Eq else s) := by
  cases s <;> rfl

theorem canon_qc (t : Tok) : canon (qc t) = canon t := by
  cases t with
  | word v q kw =>
    cases kw with
    | none => rfl
    | some k => simp only [qc, canon, encV_head]
  | sym s => cases s <;> rfl
  | _ => rfl

theorem qc_isKw (t : Tok) (k : Nat) : (qc t).isKw k = t.isKw k := by
  rw [← canon_isKw, canon_qc, canon_isKw]

theorem qc_isSym (t : Tok) (s : Sym) (h1 : s ≠ .Eq) (h2 : s ≠ .DoubleEq) : (qc t).isSym s = t.isSym s := by
  rw [← canon_isSym _ _ h1 h2, canon_qc, canon_isSym _ _ h1 h2]

theorem qc_isIdentTok (t : Tok) : isIdentTok (qc t) = isIdentTok t := by
  cases t with
  | word v q kw => cases kw <;> rfl
  | sym s => cases s <;> rfl
  | _ => rfl

theorem qc_endsList (t : Tok) : endsList (qc t) = endsList t := by
  cases t with
  | word v q kw => cases kw <;> rfl
  | sym s => cases s <;> rfl
  | _ => rfl

theorem map_canon_qc (ts : List Tok) : (ts.map qc).map canon = ts.map canon := by
  simp [Function.comp_def, canon_qc]

theorem sim_qc (ts : List Tok) : Sim ts (ts.map qc) := (map_canon_qc ts).symm

-- ------------------------------------------------------------------ peeks and eats on the image
theorem peekKw_qc (ts : List Tok) (k : Nat) : peekKw (ts.map qc) k = peekKw ts k := by
  cases ts <;> simp [peekKw, qc_isKw]

theorem peekSym_qc (ts : List Tok) (s : Sym) (h1 : s ≠ .Eq) (h2 : s ≠ .DoubleEq) :
    peekSym (ts.map qc) s = peekSym ts s := by
  cases ts <;> simp [peekSym, qc_isSym _ _ h1 h2]

theorem peekAnyKw_qc (ts : List Tok) (ks : List Nat) : peekAnyKw (ts.map qc) ks = peekAnyKw ts ks := by
  unfold peekAnyKw
  induction ks with
  | nil => rfl
  | cons k ks ih => simp only [List.any_cons, ih, peekKw_qc]

theorem listEnds_qc (ts : List Tok) : listEnds (ts.map qc) = listEnds ts := by
  cases ts <;> simp [listEnds, qc_endsList]

/-- image of a `(value, rest)` result -/
def mp {α : Type} (M : α → α) (p : α × List Tok) : α × List Tok := (M p.1, p.2.map qc)

theorem eatKw_qc (ts : List Tok) (k : Nat) : eatKw (ts.map qc) k = (eatKw ts k).map (mp qc) := by
  cases ts with
  | nil => rfl
  | cons t r => simp only [List.map_cons, eatKw, qc_isKw]; split <;> simp [mp]

theorem eatKws_qc (ks : List Nat) : ∀ ts : List Tok, eatKws (ts.map qc) ks = (eatKws ts ks).map (mp (List.map qc)) := by
  induction ks with
  | nil => intro ts; simp [eatKws, mp]
  | cons k ks ih =>
    intro ts
    simp only [eatKws, eatKw_qc]
    cases h : eatKw ts k with
    | none => simp
    | some p =>
      obtain ⟨t, r⟩ := p
      simp only [Option.map_some, mp, ih]
      cases h2 : eatKws r ks with
      | none => simp
      | some p2 => obtain ⟨a, b⟩ := p2; simp [mp]

theorem eatSym_qc (ts : List Tok) (s : Sym) (h1 : s ≠ .Eq) (h2 : s ≠ .DoubleEq) :
    eatSym (ts.map qc) s = (eatSym ts s).map (mp qc) := by
  cases ts with
  | nil => rfl
  | cons t r => simp only [List.map_cons, eatSym, qc_isSym _ _ h1 h2]; split <;> simp [mp]

-- ------------------------------------------------------------------ results on a list and on its image
/-- the two results fail together or succeed together, the second with the image of the first -/
def Rel2 {α : Type} (M : α → α) : Res α → Res α → Prop
  | .ok p, .ok p' => p' = mp M p
  | .error _, .error _ => True
  | _, _ => False

@[simp] theorem rel2_ok_ok {α : Type} (M : α → α) (p p' : α × List Tok) :
    Rel2 M (.ok p) (.ok p') ↔ p' = mp M p := Iff.rfl
@[simp] theorem rel2_err_err {α : Type} (M : α → α) (e e' : Err) :
    Rel2 M (.error e : Res α) (.error e') ↔ True := Iff.rfl
@[simp] theorem rel2_ok_err {α : Type} (M : α → α) (p : α × List Tok) (e' : Err) :
    Rel2 M (.ok p) (.error e') ↔ False := Iff.rfl
@[simp] theorem rel2_err_ok {α : Type} (M : α → α) (e : Err) (p' : α × List Tok) :
    Rel2 M (.error e : Res α) (.ok p') ↔ False := Iff.rfl

theorem Rel2.elim {α : Type} {M : α → α} {x y : Res α} (h : Rel2 M x y) :
    (∃ v r, x = .ok (v, r) ∧ y = .ok (M v, r.map qc)) ∨ (∃ e e', x = .error e ∧ y = .error e') := by
  cases x with
  | error e =>
    cases y with
    | error e' => exact Or.inr ⟨e, e', rfl, rfl⟩
    | ok p' => exact absurd h (by simp)
  | ok p =>
    cases y with
    | error e' => exact absurd h (by simp)
    | ok p' =>
      simp at h; subst h
      exact Or.inl ⟨p.1, p.2, rfl, rfl⟩

theorem rel2_err {α : Type} (M : α → α) (e e' : Err) : Rel2 M (.error e : Res α) (.error e') := trivial
theorem rel2_ok {α : Type} (M : α → α) (v : α) (r : List Tok) : Rel2 M (.ok (v, r)) (.ok (M v, r.map qc)) := rfl

/-- the two-list form: on two lists with the same image -/
theorem Rel2.two {α : Type} {M : α → α} {F : List Tok → Res α} (hF : ∀ ts, Rel2 M (F ts) (F (ts.map qc)))
    {a b : List Tok} (hs : a.map qc = b.map qc) {v : α} {r : List Tok} (h : F a = .ok (v, r)) :
    ∃ v' r', F b = .ok (v', r') ∧ M v' = M v ∧ r'.map qc = r.map qc := by
  have h1 := hF a
  have h2 := hF b
  rw [h] at h1
  rw [← hs] at h2
  cases hb : F b with
  | error e =>
    rw [hb] at h2
    cases ha : F (a.map qc) with
    | error e' => rw [ha] at h1; simp at h1
    | ok p => rw [ha] at h2; simp at h2
  | ok p' =>
    rw [hb] at h2
    cases ha : F (a.map qc) with
    | error e' => rw [ha] at h1; simp at h1
    | ok p =>
      rw [ha] at h1 h2
      simp at h1 h2
      obtain ⟨v', r'⟩ := p'
      rw [h1] at h2
      simp [mp] at h2
      exact ⟨v', r', rfl, h2.1.symm, h2.2.symm⟩

-- ------------------------------------------------------------------ expressions
theorem flatten_mapT_qc (e : Expr) : (e.mapT qc).flatten = e.flatten.map qc := flatten_mapT qc rfl rfl e

theorem mapT_canon_qc (e : Expr) : (e.mapT qc).mapT canon = e.mapT canon := by
  rw [mapT_mapT]; congr 1; funext t; exact canon_qc t

theorem parseSubexpr_qc (c : Cfg) (f d p : Nat) (ts : List Tok) :
    Rel2 (Expr.mapT qc) (parseSubexpr c f d p ts) (parseSubexpr c f d p (ts.map qc)) := by
  cases h : parseSubexpr c f d p ts with
  | ok pr =>
    obtain ⟨e, r⟩ := pr
    obtain ⟨e', r', h', he', hr'⟩ := parse_sim c f d p ts _ e r (sim_qc ts) h
    rw [h']
    have y1 : ts = e.flatten ++ r := (yield_all c f).1 _ _ _ _ _ h
    have y2 : ts.map qc = e'.flatten ++ r' := (yield_all c f).1 _ _ _ _ _ h'
    have hl : r'.length = (r.map qc).length := by
      rw [List.length_map]; exact (len_of_map hr').symm
    rw [y1, List.map_append] at y2
    obtain ⟨a1, a2⟩ := List.append_inj' y2 hl.symm
    have : e' = e.mapT qc :=
      mapT_flatten_inj canon _ _ (by rw [he', mapT_canon_qc]) (by rw [flatten_mapT_qc, a1])
    simp [mp, this, a2]
  | error er =>
    cases h2 : parseSubexpr c f d p (ts.map qc) with
    | error er' => trivial
    | ok pr =>
      obtain ⟨e', r'⟩ := pr
      obtain ⟨e, r, h', _, _⟩ := parse_sim c f d p _ ts e' r' (sim_qc ts).symm h2
      rw [h] at h'; cases h'

theorem parseE_qc (c : QCfg) (f d : Nat) (ts : List Tok) :
    Rel2 (Expr.mapT qc) (parseE c f d ts) (parseE c f d (ts.map qc)) := parseSubexpr_qc c.e f d _ ts

-- ------------------------------------------------------------------ images of query trees
def sepMap {α : Type} (M : α → α) (m : Tok → Tok) (l : Sep α) : Sep α := l.map fun p => (M p.1, p.2.map m)

def SelectItem.mapT (m : Tok → Tok) : SelectItem → SelectItem
  | .expr e al => .expr (e.mapT m) (al.map m)
  | .wildcard t => .wildcard (m t)
  | .qualified toks => .qualified (toks.map m)

def OrderByExpr.mapT (m : Tok → Tok) (o : OrderByExpr) : OrderByExpr := ⟨o.e.mapT m, o.dir.map m, o.nulls.map m⟩

def LimClause.mapT (m : Tok → Tok) : LimClause → LimClause
  | .limit kw e => .limit (m kw) (e.mapT m)
  | .limitAll kw a => .limitAll (m kw) (m a)
  | .offset kw e rows => .offset (m kw) (e.mapT m) (rows.map m)
  | .comma t e => .comma (m t) (e.mapT m)

def QueryTail.mapT (m : Tok → Tok) (qt : QueryTail) : QueryTail :=
  ⟨qt.orderKw.map m, sepMap (OrderByExpr.mapT m) m qt.order, qt.lims.map (LimClause.mapT m)⟩

def SelHead.mapT (m : Tok → Tok) (hd : SelHead) : SelHead :=
  ⟨m hd.sel, hd.quant.map m, hd.distinct, sepMap (SelectItem.mapT m) m hd.proj⟩

def SelTail.mapT (m : Tok → Tok) (tl : SelTail) : SelTail :=
  ⟨tl.whereKw.map m, tl.selection.map (Expr.mapT m), tl.groupKw.map m, sepMap (Expr.mapT m) m tl.group,
   tl.havingKw.map m, tl.having.map (Expr.mapT m)⟩

def Conn.mapT (m : Tok → Tok) : Conn → Conn
  | .from t => .from (m t)
  | .comma t => .comma (m t)
  | .join k toks => .join k (toks.map m)

def JoinCstr.mapT (m : Tok → Tok) : JoinCstr → JoinCstr
  | .none => .none
  | .on kw e => .on (m kw) (e.mapT m)
  | .using kw lp cols rp => .using (m kw) (m lp) (sepMap m m cols) (m rp)

def QNode.mapT (m : Tok → Tok) : QNode → QNode
  | .select hd frm tl => .select (hd.mapT m) (frm.mapT m) (tl.mapT m)
  | .paren lp body qt rp => .paren (m lp) (body.mapT m) (qt.mapT m) (m rp)
  | .setOp l o q ops r => .setOp (l.mapT m) o q (ops.map m) (r.mapT m)
  | .fnil trail => .fnil (trail.map m)
  | .ftable conn name al cstr rest => .ftable (conn.mapT m) (name.map m) (al.map m) (cstr.mapT m) (rest.mapT m)
  | .fderived conn lp body qt rp al cstr rest =>
    .fderived (conn.mapT m) (m lp) (body.mapT m) (qt.mapT m) (m rp) (al.map m) (cstr.mapT m) (rest.mapT m)

def Query.mapT (m : Tok → Tok) (q : Query) : Query := ⟨q.body.mapT m, q.tail.mapT m⟩

-- ------------------------------------------------------------------ head functions
theorem optAlias_qc (res : List Nat) (ts : List Tok) :
    Rel2 (List.map qc) (optAlias res ts) (optAlias res (ts.map qc)) := by
  unfold optAlias
  rw [eatKw_qc]
  cases h : eatKw ts K.AS with
  | some p =>
    obtain ⟨asT, r⟩ := p
    simp only [Option.map_some, mp]
    cases r with
    | nil => simp
    | cons t r' => simp only [List.map_cons, qc_isIdentTok]; split <;> simp [mp]
  | none =>
    simp only [Option.map_none]
    cases ts with
    | nil => simp [mp]
    | cons t r =>
      cases t with
      | word v q kw =>
        cases kw with
        | none => simp [qc, mp]
        | some k => simp only [List.map_cons, qc]; split <;> simp [mp, qc]
      | sym s => cases s <;> simp [qc, mp]
      | _ => simp [qc, mp]

theorem identElem_qc (ts : List Tok) : Rel2 qc (identElem ts) (identElem (ts.map qc)) := by
  unfold identElem
  cases ts with
  | nil => simp
  | cons t r => simp only [List.map_cons, qc_isIdentTok]; split <;> simp [mp]

def QualRes.mapT (m : Tok → Tok) : QualRes → QualRes
  | .wild toks rest => .wild (toks.map m) (rest.map m)
  | .notWild => .notWild
  | .err => .err

theorem qualScan_qc_aux (n : Nat) : ∀ (ts acc : List Tok), ts.length ≤ n →
    qualScan (acc.map qc) (ts.map qc) = (qualScan acc ts).mapT qc := by
  induction n with
  | zero =>
    intro ts acc h
    cases ts with
    | nil => simp [qualScan, QualRes.mapT]
    | cons _ _ => simp at h
  | succ n ih =>
    intro ts acc h
    cases ts with
    | nil => simp [qualScan, QualRes.mapT]
    | cons t rest =>
      have key : ∀ rest' : List Tok, rest = .sym .Period :: rest' →
          qualScan ((acc ++ [t, .sym .Period]).map qc) (rest'.map qc) =
            (qualScan (acc ++ [t, .sym .Period]) rest').mapT qc := by
        intro rest' hr
        apply ih
        subst hr
        simp at h
        omega
      cases t with
      | word v q kw =>
        cases rest with
        | nil => cases kw <;> simp [qualScan, qc, QualRes.mapT]
        | cons t2 r2 =>
          cases t2 with
          | sym s =>
            cases s <;> first
              | (have := key r2 rfl; cases kw <;> simpa [qualScan, qc, QualRes.mapT] using this)
              | (cases kw <;> simp [qualScan, qc, QualRes.mapT])
          | word a b kw2 => cases kw <;> cases kw2 <;> simp [qualScan, qc, QualRes.mapT]
          | _ => cases kw <;> simp [qualScan, qc, QualRes.mapT]
      | sqs x =>
        cases rest with
        | nil => simp [qualScan, qc, QualRes.mapT]
        | cons t2 r2 =>
          cases t2 with
          | sym s =>
            cases s <;> first
              | (have := key r2 rfl; simpa [qualScan, qc, QualRes.mapT] using this)
              | simp [qualScan, qc, QualRes.mapT]
          | word a b kw2 => cases kw2 <;> simp [qualScan, qc, QualRes.mapT]
          | _ => simp [qualScan, qc, QualRes.mapT]
      | sym s => cases s <;> simp [qualScan, qc, QualRes.mapT]
      | _ => simp [qualScan, qc, QualRes.mapT]

theorem qualScan_qc (acc ts : List Tok) : qualScan (acc.map qc) (ts.map qc) = (qualScan acc ts).mapT qc :=
  qualScan_qc_aux ts.length ts acc (Nat.le_refl _)

theorem isBareFrom_qc (e : Expr) : isBareFrom (e.mapT qc) = isBareFrom e := by
  cases e with
  | atom k toks =>
    cases k <;> try rfl
    match toks with
    | [] => rfl
    | [t] =>
      cases t with
      | word v q kw =>
        cases q with
        | none =>
          cases kw with
          | none => rfl
          | some k => simp [Expr.mapT, qc, isBareFrom, encV_lower]
        | some c => cases kw <;> rfl
      | sym s => cases s <;> rfl
      | _ => rfl
    | _ :: _ :: _ => simp [Expr.mapT, isBareFrom]
  | _ => rfl

theorem wildcardForeign_qc (c : QCfg) (ts : List Tok) : wildcardForeign c (ts.map qc) = wildcardForeign c ts := by
  simp [wildcardForeign, peekAnyKw_qc, peekKw_qc]

theorem itemViaExpr_qc (c : QCfg) (f d : Nat) (ts : List Tok) :
    Rel2 (SelectItem.mapT qc) (itemViaExpr c f d ts) (itemViaExpr c f d (ts.map qc)) := by
  unfold itemViaExpr
  rcases (parseE_qc c f d ts).elim with ⟨e, r, h1, h2⟩ | ⟨er, er', h1, h2⟩
  · rw [h1, h2]
    simp only [isBareFrom_qc]
    split
    · simp
    · rcases (optAlias_qc reservedForColumnAlias r).elim with ⟨al, r', h3, h4⟩ | ⟨er, er', h3, h4⟩
      · rw [h3, h4]; simp [mp, SelectItem.mapT]
      · rw [h3, h4]; simp
  · rw [h1, h2]; simp

theorem selectItem_qc (c : QCfg) (f d : Nat) (ts : List Tok) :
    Rel2 (SelectItem.mapT qc) (selectItem c f d ts) (selectItem c f d (ts.map qc)) := by
  have hv := itemViaExpr_qc c f d ts
  cases ts with
  | nil => unfold selectItem; exact hv
  | cons t rest =>
    simp only [List.map_cons] at hv ⊢
    have hq : ∀ rest' : List Tok, rest = .sym .Period :: rest' →
        qualScan [qc t, .sym .Period] (rest'.map qc) = (qualScan [t, .sym .Period] rest').mapT qc := by
      intro rest' _
      have := qualScan_qc [t, .sym .Period] rest'
      simpa [qc_sym] using this
    cases t with
    | sym s =>
      cases s <;> try (unfold selectItem; exact hv)
      unfold selectItem
      simp only [qc, wildcardForeign_qc]
      split <;> simp [mp, SelectItem.mapT, qc]
    | word v q kw =>
      cases rest with
      | nil => unfold selectItem; cases kw <;> exact hv
      | cons t2 r2 =>
        cases t2 with
        | sym s =>
          cases s <;> try (unfold selectItem; cases kw <;> exact hv)
          have hq' := hq r2 rfl
          unfold selectItem
          cases kw with
          | none =>
            simp only [qc, List.map_cons] at hq' hv ⊢
            rw [hq']
            cases hh : qualScan [.word v q none, .sym .Period] r2 with
            | wild toks r =>
              simp only [QualRes.mapT, wildcardForeign_qc]
              split <;> simp [mp, SelectItem.mapT]
            | notWild => simpa [QualRes.mapT] using hv
            | err => simp [QualRes.mapT]
          | some k =>
            simp only [qc, List.map_cons] at hq' hv ⊢
            rw [hq']
            cases hh : qualScan [.word v q (some k), .sym .Period] r2 with
            | wild toks r =>
              simp only [QualRes.mapT, wildcardForeign_qc]
              split <;> simp [mp, SelectItem.mapT]
            | notWild => simpa [QualRes.mapT] using hv
            | err => simp [QualRes.mapT]
        | word a b kw2 => unfold selectItem; cases kw <;> cases kw2 <;> exact hv
        | _ => unfold selectItem; cases kw <;> exact hv
    | sqs x =>
      cases rest with
      | nil => unfold selectItem; exact hv
      | cons t2 r2 =>
        cases t2 with
        | sym s =>
          cases s <;> try (unfold selectItem; exact hv)
          have hq' := hq r2 rfl
          unfold selectItem
          simp only [qc, List.map_cons] at hq' hv ⊢
          rw [hq']
          cases hh : qualScan [.sqs x, .sym .Period] r2 with
          | wild toks r =>
            simp only [QualRes.mapT, wildcardForeign_qc]
            split <;> simp [mp, SelectItem.mapT]
          | notWild => simpa [QualRes.mapT] using hv
          | err => simp [QualRes.mapT]
        | word a b kw2 => unfold selectItem; cases kw2 <;> exact hv
        | _ => unfold selectItem; exact hv
    | _ => unfold selectItem; exact hv

theorem emptyTupleAhead_eq (ts : List Tok) :
    emptyTupleAhead ts = (peekSym ts .LParen && peekSym ts.tail .RParen) := by
  unfold emptyTupleAhead
  split
  · simp [peekSym, Tok.isSym]
  · rename_i h
    cases ts with
    | nil => simp [peekSym]
    | cons t r =>
      cases r with
      | nil => simp [peekSym]
      | cons t2 r2 =>
        cases t <;> cases t2 <;> simp_all [peekSym, Tok.isSym]

theorem emptyTupleAhead_qc (ts : List Tok) : emptyTupleAhead (ts.map qc) = emptyTupleAhead ts := by
  rw [emptyTupleAhead_eq, emptyTupleAhead_eq, peekSym_qc _ _ (by decide) (by decide), ← List.map_tail,
    peekSym_qc _ _ (by decide) (by decide)]

theorem groupByForeign_qc (c : QCfg) (ts : List Tok) : groupByForeign c (ts.map qc) = groupByForeign c ts := by
  simp [groupByForeign, peekAnyKw_qc, emptyTupleAhead_qc]

theorem groupByElem_qc (c : QCfg) (f d : Nat) (ts : List Tok) :
    Rel2 (Expr.mapT qc) (groupByElem c f d ts) (groupByElem c f d (ts.map qc)) := by
  unfold groupByElem
  rw [groupByForeign_qc]
  split
  · simp
  · exact parseE_qc c f d ts

theorem dirTail_qc (ts : List Tok) : dirTail (ts.map qc) = mp (List.map qc) (dirTail ts) := by
  unfold dirTail
  simp only [eatKw_qc]
  cases eatKw ts K.ASC <;> cases eatKw ts K.DESC <;> simp [mp]

theorem rowsTail_qc (ts : List Tok) : rowsTail (ts.map qc) = mp (List.map qc) (rowsTail ts) := by
  unfold rowsTail
  simp only [eatKw_qc]
  cases eatKw ts K.ROW <;> cases eatKw ts K.ROWS <;> simp [mp]

theorem allTail_qc (ts : List Tok) : allTail (ts.map qc) = mp (List.map qc) (allTail ts) := by
  unfold allTail
  simp only [eatKw_qc]
  cases eatKw ts K.ALL <;> simp [mp]

theorem nullsTail_qc (ts : List Tok) : nullsTail (ts.map qc) = mp (List.map qc) (nullsTail ts) := by
  unfold nullsTail
  simp only [eatKws_qc]
  cases eatKws ts [K.NULLS, K.FIRST] <;> cases eatKws ts [K.NULLS, K.LAST] <;> simp [mp]

theorem withFillAhead_qc (c : QCfg) (ts : List Tok) : withFillAhead c (ts.map qc) = withFillAhead c ts := by
  unfold withFillAhead
  rw [eatKws_qc]
  cases eatKws ts [K.WITH, K.FILL] <;> simp

theorem orderByElem_qc (c : QCfg) (f d : Nat) (ts : List Tok) :
    Rel2 (OrderByExpr.mapT qc) (orderByElem c f d ts) (orderByElem c f d (ts.map qc)) := by
  unfold orderByElem
  rcases (parseE_qc c f d ts).elim with ⟨e, r, h1, h2⟩ | ⟨er, er', h1, h2⟩
  · rw [h1, h2]
    simp only [dirTail_qc, nullsTail_qc, mp, withFillAhead_qc]
    split <;> simp [mp, OrderByExpr.mapT]
  · rw [h1, h2]; simp

-- ------------------------------------------------------------------ lists
theorem commaSepE_qc {α : Type} (tc : Bool) (elem elem' : List Tok → Res α) (M : α → α)
    (hel : ∀ ts, Rel2 M (elem ts) (elem' (ts.map qc))) :
    ∀ (n : Nat) (ts : List Tok), Rel2 (sepMap M qc) (commaSepE tc elem n ts) (commaSepE tc elem' n (ts.map qc)) := by
  intro n
  induction n with
  | zero => intro ts; simp [commaSepE]
  | succ n ih =>
    intro ts
    simp only [commaSepE]
    rcases (hel ts).elim with ⟨v, r, h1, h2⟩ | ⟨er, er', h1, h2⟩
    · rw [h1, h2]
      simp only
      cases r with
      | nil => simp [mp, sepMap]
      | cons t r2 =>
        cases t with
        | sym s =>
          cases s <;> try (simp [mp, sepMap, qc]; done)
          simp only [List.map_cons, qc, listEnds_qc]
          split
          · simp [mp, sepMap, qc]
          · rcases (ih r2).elim with ⟨vs, r3, h3, h4⟩ | ⟨er, er', h3, h4⟩
            · rw [h3, h4]; simp [mp, sepMap, qc]
            · rw [h3, h4]; simp
        | word a b kw => cases kw <;> simp [mp, sepMap, qc]
        | _ => simp [mp, sepMap, qc]
    · rw [h1, h2]; simp

-- ------------------------------------------------------------------ LIMIT / OFFSET
def limStMap (st : Option Expr × Option (Expr × List Tok)) : Option Expr × Option (Expr × List Tok) :=
  (st.1.map (Expr.mapT qc), st.2.map fun p => (p.1.mapT qc, p.2.map qc))

theorem limSem_qc (cs : List LimClause) : limSem (cs.map (LimClause.mapT qc)) = limStMap (limSem cs) := by
  unfold limSem
  have : ∀ (cs : List LimClause) (st : Option Expr × Option (Expr × List Tok)),
      List.foldl (fun st cl =>
        match cl with
        | .limit _ e => (some e, st.2)
        | .limitAll _ _ => (none, st.2)
        | .offset _ e rows => (st.1, some (e, rows))
        | .comma _ e => (some e, st.1.map fun l => (l, []))) (limStMap st) (cs.map (LimClause.mapT qc)) =
      limStMap (List.foldl (fun st cl =>
        match cl with
        | .limit _ e => (some e, st.2)
        | .limitAll _ _ => (none, st.2)
        | .offset _ e rows => (st.1, some (e, rows))
        | .comma _ e => (some e, st.1.map fun l => (l, []))) st cs) := by
    intro cs
    induction cs with
    | nil => intro st; rfl
    | cons cl rest ih =>
      intro st
      simp only [List.map_cons, List.foldl_cons]
      rw [← ih]
      congr 1
      cases cl <;> simp [LimClause.mapT, limStMap]
      cases st.1 <;> simp
  exact this cs (none, none)

theorem limSem_qc1 (cs : List LimClause) :
    (limSem (cs.map (LimClause.mapT qc))).1.isNone = (limSem cs).1.isNone := by
  rw [limSem_qc]; simp [limStMap]
theorem limSem_qc2 (cs : List LimClause) :
    (limSem (cs.map (LimClause.mapT qc))).2.isNone = (limSem cs).2.isNone := by
  rw [limSem_qc]; simp [limStMap]
theorem limSem_qc1' (cs : List LimClause) :
    (limSem (cs.map (LimClause.mapT qc))).1.isSome = (limSem cs).1.isSome := by
  rw [limSem_qc]; simp [limStMap]

theorem limPart_qc (c : QCfg) (f d : Nat) (cs : List LimClause) (ts : List Tok) :
    Rel2 (List.map (LimClause.mapT qc)) (limPart c f d cs ts) (limPart c f d (cs.map (LimClause.mapT qc)) (ts.map qc)) := by
  unfold limPart
  rw [limSem_qc1, eatKw_qc]
  split
  · cases h : eatKw ts K.LIMIT with
    | none => simp [mp]
    | some p =>
      obtain ⟨kw, r⟩ := p
      simp only [Option.map_some, mp, eatKw_qc]
      cases h2 : eatKw r K.ALL with
      | some p2 => obtain ⟨a, r'⟩ := p2; simp [mp, LimClause.mapT]
      | none =>
        simp only [Option.map_none]
        rcases (parseE_qc c f d r).elim with ⟨e, r', h1, h2⟩ | ⟨er, er', h1, h2⟩
        · rw [h1, h2]; simp [mp, LimClause.mapT]
        · rw [h1, h2]; simp
  · simp [mp]

theorem offPart_qc (c : QCfg) (f d : Nat) (cs : List LimClause) (ts : List Tok) :
    Rel2 (List.map (LimClause.mapT qc)) (offPart c f d cs ts) (offPart c f d (cs.map (LimClause.mapT qc)) (ts.map qc)) := by
  unfold offPart
  rw [limSem_qc2, eatKw_qc]
  split
  · cases h : eatKw ts K.OFFSET with
    | none => simp [mp]
    | some p =>
      obtain ⟨kw, r⟩ := p
      simp only [Option.map_some, mp]
      rcases (parseE_qc c f d r).elim with ⟨e, r', h1, h2⟩ | ⟨er, er', h1, h2⟩
      · rw [h1, h2]; simp [mp, LimClause.mapT, rowsTail_qc]
      · rw [h1, h2]; simp
  · simp [mp]

theorem commaPart_qc (c : QCfg) (f d : Nat) (cs : List LimClause) (ts : List Tok) :
    Rel2 (List.map (LimClause.mapT qc)) (commaPart c f d cs ts) (commaPart c f d (cs.map (LimClause.mapT qc)) (ts.map qc)) := by
  unfold commaPart
  rw [limSem_qc1', limSem_qc2]
  split
  · cases ts with
    | nil => simp [mp]
    | cons t r =>
      cases t with
      | sym s =>
        cases s <;> try (simp [mp, qc]; done)
        simp only [List.map_cons, qc]
        rcases (parseE_qc c f d r).elim with ⟨e, r', h1, h2⟩ | ⟨er, er', h1, h2⟩
        · rw [h1, h2]; simp [mp, LimClause.mapT, qc]
        · rw [h1, h2]; simp
      | word a b kw => cases kw <;> simp [mp, qc]
      | _ => simp [mp, qc]
  · simp [mp]

theorem limStep_qc (c : QCfg) (f d : Nat) (cs : List LimClause) (ts : List Tok) :
    Rel2 (List.map (LimClause.mapT qc)) (limStep c f d cs ts) (limStep c f d (cs.map (LimClause.mapT qc)) (ts.map qc)) := by
  unfold limStep
  rcases (limPart_qc c f d cs ts).elim with ⟨cs1, ts1, h1, h2⟩ | ⟨er, er', h1, h2⟩
  · rw [h1, h2]
    simp only
    rcases (offPart_qc c f d cs1 ts1).elim with ⟨cs2, ts2, h3, h4⟩ | ⟨er, er', h3, h4⟩
    · rw [h3, h4]; exact commaPart_qc c f d cs2 ts2
    · rw [h3, h4]; simp
  · rw [h1, h2]; simp

theorem queryTailForeign_qc (ts : List Tok) : queryTailForeign (ts.map qc) = queryTailForeign ts :=
  peekAnyKw_qc _ _

theorem orderPart_qc (c : QCfg) (f d : Nat) (ts : List Tok) :
    Rel2 (fun ko => (ko.1.map qc, sepMap (OrderByExpr.mapT qc) qc ko.2)) (orderPart c f d ts) (orderPart c f d (ts.map qc)) := by
  unfold orderPart
  rw [eatKws_qc]
  cases h : eatKws ts [K.ORDER, K.BY] with
  | none => simp [mp, sepMap]
  | some p =>
    obtain ⟨kws, r⟩ := p
    simp only [Option.map_some, mp]
    rcases (commaSepE_qc c.e.trailingCommas _ _ _ (orderByElem_qc c f d) f r).elim with ⟨os, r', h1, h2⟩ | ⟨er, er', h1, h2⟩
    · rw [h1, h2]
      simp only [peekKw_qc]
      split <;> simp [mp]
    · rw [h1, h2]; simp

theorem queryTail_qc (c : QCfg) (f d : Nat) (ts : List Tok) :
    Rel2 (QueryTail.mapT qc) (queryTail c f d ts) (queryTail c f d (ts.map qc)) := by
  unfold queryTail
  rcases (orderPart_qc c f d ts).elim with ⟨ko, ts1, h1, h2⟩ | ⟨er, er', h1, h2⟩
  · rw [h1, h2]
    simp only
    have h0 := limStep_qc c f d [] ts1
    simp only [List.map_nil] at h0
    rcases h0.elim with ⟨cs1, ts2, h3, h4⟩ | ⟨er, er', h3, h4⟩
    · rw [h3, h4]
      simp only
      rcases (limStep_qc c f d cs1 ts2).elim with ⟨cs2, ts3, h5, h6⟩ | ⟨er, er', h5, h6⟩
      · rw [h5, h6]
        simp only [queryTailForeign_qc]
        split <;> simp [mp, QueryTail.mapT]
      · rw [h5, h6]; simp
    · rw [h3, h4]; simp
  · rw [h1, h2]; simp

-- ------------------------------------------------------------------ set operators and joins
theorem setOpOf_qc (t : Tok) : setOpOf (qc t) = setOpOf t := by
  simp [setOpOf, qc_isKw]

theorem setQuant_qc (ts : List Tok) :
    setQuant (ts.map qc) = ((setQuant ts).1, (setQuant ts).2.1.map qc, (setQuant ts).2.2.map qc) := by
  unfold setQuant
  simp only [eatKws_qc, eatKw_qc]
  cases h1 : eatKws ts [K.DISTINCT, K.BY, K.NAME] with
  | some p => simp [mp]
  | none =>
    cases h2 : eatKws ts [K.BY, K.NAME] with
    | some p => simp [mp]
    | none =>
      cases h3 : eatKw ts K.ALL with
      | some p =>
        simp only [Option.map_some, mp, eatKws_qc]
        cases h4 : eatKws p.2 [K.BY, K.NAME] with
        | some q => simp [mp]
        | none => simp
      | none =>
        cases h4 : eatKw ts K.DISTINCT with
        | some p => simp [mp]
        | none => simp

def JoinHead.mapT (m : Tok → Tok) : JoinHead → JoinHead
  | .stop => .stop
  | .join k toks rest => .join k (toks.map m) (rest.map m)

/-- case split on an `eatKw` whose image has been rewritten by `eatKw_qc` -/
macro "ck" t:term : tactic =>
  `(tactic| (generalize $t = x; cases x <;> simp only [Option.map_some, Option.map_none, mp, eatKw_qc, peekKw_qc]))

theorem leftRightTail_qc (k0 : JoinKind) (t : Tok) (r : List Tok) :
    leftRightTail k0 (qc t) (r.map qc) = (leftRightTail k0 t r).map (JoinHead.mapT qc) := by
  unfold leftRightTail
  simp only [eatKw_qc, peekKw_qc]
  ck eatKw r K.OUTER
  · split
    · rfl
    · ck eatKw r K.JOIN <;> simp [Except.map, JoinHead.mapT]
  · rename_i p
    ck eatKw p.2 K.JOIN <;> simp [Except.map, JoinHead.mapT]

theorem joinHead_qc (ts : List Tok) : joinHead (ts.map qc) = (joinHead ts).map (JoinHead.mapT qc) := by
  unfold joinHead
  simp only [eatKw_qc, peekKw_qc]
  split
  · rfl
  ck eatKw ts K.CROSS
  rotate_left
  · rename_i p
    ck eatKw p.2 K.JOIN
    · split <;> rfl
    · simp [Except.map, JoinHead.mapT]
  ck eatKw ts K.OUTER
  rotate_left
  · split <;> rfl
  split
  · rfl
  ck eatKw ts K.INNER
  rotate_left
  · rename_i p
    ck eatKw p.2 K.JOIN <;> simp [Except.map, JoinHead.mapT]
  ck eatKw ts K.JOIN
  rotate_left
  · simp [Except.map, JoinHead.mapT]
  ck eatKw ts K.LEFT
  rotate_left
  · exact leftRightTail_qc _ _ _
  ck eatKw ts K.RIGHT
  rotate_left
  · exact leftRightTail_qc _ _ _
  ck eatKw ts K.FULL
  · rfl
  · rename_i p
    ck eatKw p.2 K.OUTER
    · ck eatKw p.2 K.JOIN <;> simp [Except.map, JoinHead.mapT]
    · rename_i p2
      ck eatKw p2.2 K.JOIN <;> simp [Except.map, JoinHead.mapT]

theorem joinCstr_qc (c : QCfg) (f d : Nat) (ts : List Tok) :
    Rel2 (JoinCstr.mapT qc) (joinCstr c f d ts) (joinCstr c f d (ts.map qc)) := by
  unfold joinCstr
  simp only [eatKw_qc]
  cases h : eatKw ts K.ON with
  | some p =>
    obtain ⟨kw, r⟩ := p
    simp only [Option.map_some, mp]
    rcases (parseE_qc c f d r).elim with ⟨e, r', h1, h2⟩ | ⟨er, er', h1, h2⟩
    · rw [h1, h2]; simp [mp, JoinCstr.mapT]
    · rw [h1, h2]; simp
  | none =>
    simp only [Option.map_none]
    cases h2 : eatKw ts K.USING with
    | none => simp [mp, JoinCstr.mapT]
    | some p =>
      obtain ⟨kw, r⟩ := p
      simp only [Option.map_some, mp]
      cases r with
      | nil => simp
      | cons t r1 =>
        cases t with
        | sym s =>
          cases s <;> try (simp [qc]; done)
          simp only [List.map_cons, qc]
          rcases (commaSepE_qc c.e.trailingCommas _ _ _ identElem_qc f r1).elim with ⟨cols, r2, h3, h4⟩ | ⟨er, er', h3, h4⟩
          · rw [h3, h4]
            simp only
            cases r2 with
            | nil => simp
            | cons t2 r3 =>
              cases t2 with
              | sym s2 => cases s2 <;> simp [qc, mp, JoinCstr.mapT]
              | word a b kw2 => cases kw2 <;> simp [qc]
              | _ => simp [qc]
          · rw [h3, h4]; simp
        | word a b kw2 => cases kw2 <;> simp [qc]
        | _ => simp [qc]

theorem optCstr_qc (c : QCfg) (f d : Nat) (b : Bool) (ts : List Tok) :
    Rel2 (JoinCstr.mapT qc) (optCstr c f d b ts) (optCstr c f d b (ts.map qc)) := by
  unfold optCstr
  split
  · exact joinCstr_qc c f d ts
  · simp [mp, JoinCstr.mapT]

theorem objectName_qc_aux (n : Nat) : ∀ (ts acc : List Tok), ts.length ≤ n →
    Rel2 (List.map qc) (objectName acc ts) (objectName (acc.map qc) (ts.map qc)) := by
  induction n with
  | zero =>
    intro ts acc h
    cases ts with
    | nil => simp [objectName]
    | cons _ _ => simp at h
  | succ n ih =>
    intro ts acc h
    cases ts with
    | nil => simp [objectName]
    | cons t rest =>
      simp only [List.map_cons]
      unfold objectName
      rw [qc_isIdentTok]
      split
      · cases rest with
        | nil => simp [mp]
        | cons t2 r2 =>
          cases t2 with
          | sym s =>
            cases s <;> try (simp [mp, qc]; done)
            have := ih r2 (acc ++ [t, .sym .Period]) (by simp at h; omega)
            simpa [qc] using this
          | word a b kw => cases kw <;> simp [mp, qc]
          | _ => simp [mp, qc]
      · simp

theorem objectName_qc (acc ts : List Tok) :
    Rel2 (List.map qc) (objectName acc ts) (objectName (acc.map qc) (ts.map qc)) :=
  objectName_qc_aux ts.length ts acc (Nat.le_refl _)

theorem getLast?_map_qc (l : List Tok) : (l.map qc).getLast? = l.getLast?.map qc := by
  simp [List.getLast?_map]

theorem bigQueryNameForeign_qc (name rest : List Tok) :
    bigQueryNameForeign (name.map qc) (rest.map qc) = bigQueryNameForeign name rest := by
  unfold bigQueryNameForeign
  rw [peekSym_qc _ _ (by decide) (by decide), getLast?_map_qc]
  congr 1
  congr 1
  · rw [List.any_map]
    congr 1
    funext t
    cases t with
    | word v q kw =>
      cases kw with
      | none => rfl
      | some k => exact encV_dot v
    | sym s => cases s <;> rfl
    | _ => rfl
  · congr 1
    cases name.getLast? with
    | none => rfl
    | some t =>
      cases t with
      | word v q kw => cases kw <;> cases q <;> rfl
      | sym s => cases s <;> rfl
      | _ => rfl

theorem afterNameForeign_qc (ts : List Tok) : afterNameForeign (ts.map qc) = afterNameForeign ts := by
  simp [afterNameForeign, peekAnyKw_qc, peekSym_qc]

theorem afterAliasForeign_qc (ts : List Tok) : afterAliasForeign (ts.map qc) = afterAliasForeign ts :=
  peekAnyKw_qc _ _
theorem afterFromForeign_qc (ts : List Tok) : afterFromForeign (ts.map qc) = afterFromForeign ts :=
  peekAnyKw_qc _ _
theorem afterGroupForeign_qc (ts : List Tok) : afterGroupForeign (ts.map qc) = afterGroupForeign ts :=
  peekAnyKw_qc _ _
theorem afterHavingForeign_qc (ts : List Tok) : afterHavingForeign (ts.map qc) = afterHavingForeign ts :=
  peekAnyKw_qc _ _

theorem optTableAlias_qc (ts : List Tok) : Rel2 (List.map qc) (optTableAlias ts) (optTableAlias (ts.map qc)) := by
  unfold optTableAlias
  rcases (optAlias_qc reservedForTableAlias ts).elim with ⟨al, r, h1, h2⟩ | ⟨er, er', h1, h2⟩
  · rw [h1, h2]
    simp only [peekSym_qc _ _ (by decide : Sym.LParen ≠ .Eq) (by decide : Sym.LParen ≠ .DoubleEq), List.isEmpty_map]
    split <;> simp [mp]
  · rw [h1, h2]; simp

theorem allOrDistinct_qc (ts : List Tok) :
    Rel2 (fun qd => (qd.1.map qc, qd.2)) (allOrDistinct ts) (allOrDistinct (ts.map qc)) := by
  unfold allOrDistinct
  simp only [allTail_qc, mp, eatKw_qc]
  cases h : eatKw (allTail ts).2 K.DISTINCT with
  | none => simp [mp]
  | some p =>
    obtain ⟨t, r⟩ := p
    simp only [Option.map_some, mp, List.isEmpty_map, peekKw_qc]
    split
    · simp
    · split <;> simp [mp]

theorem kwExprPart_qc (c : QCfg) (f d k : Nat) (ts : List Tok) :
    Rel2 (fun w => (w.1.map qc, w.2.map (Expr.mapT qc))) (kwExprPart c f d k ts) (kwExprPart c f d k (ts.map qc)) := by
  unfold kwExprPart
  rw [eatKw_qc]
  cases h : eatKw ts k with
  | none => simp [mp]
  | some p =>
    obtain ⟨kw, r⟩ := p
    simp only [Option.map_some, mp]
    rcases (parseE_qc c f d r).elim with ⟨e, r', h1, h2⟩ | ⟨er, er', h1, h2⟩
    · rw [h1, h2]; simp [mp]
    · rw [h1, h2]; simp

theorem groupPart_qc (c : QCfg) (f d : Nat) (ts : List Tok) :
    Rel2 (fun g => (g.1.map qc, sepMap (Expr.mapT qc) qc g.2)) (groupPart c f d ts) (groupPart c f d (ts.map qc)) := by
  unfold groupPart
  rw [eatKws_qc]
  cases h : eatKws ts [K.GROUP, K.BY] with
  | none => simp [mp, sepMap]
  | some p =>
    obtain ⟨kws, r⟩ := p
    simp only [Option.map_some, mp, peekKw_qc]
    split
    · simp
    · rcases (commaSepE_qc c.e.trailingCommas _ _ _ (groupByElem_qc c f d) f r).elim with ⟨es, r', h1, h2⟩ | ⟨er, er', h1, h2⟩
      · rw [h1, h2]
        simp only [peekKw_qc]
        split <;> simp [mp]
      · rw [h1, h2]; simp

theorem selTail_qc (c : QCfg) (f d : Nat) (ts : List Tok) :
    Rel2 (SelTail.mapT qc) (selTail c f d ts) (selTail c f d (ts.map qc)) := by
  unfold selTail
  rw [afterFromForeign_qc]
  split
  · simp
  · rcases (kwExprPart_qc c f d K.WHERE ts).elim with ⟨w, ts1, h1, h2⟩ | ⟨er, er', h1, h2⟩
    · rw [h1, h2]
      simp only
      rcases (groupPart_qc c f d ts1).elim with ⟨g, ts2, h3, h4⟩ | ⟨er, er', h3, h4⟩
      · rw [h3, h4]
        simp only [afterGroupForeign_qc]
        split
        · simp
        · rcases (kwExprPart_qc c f d K.HAVING ts2).elim with ⟨hv, ts3, h5, h6⟩ | ⟨er, er', h5, h6⟩
          · rw [h5, h6]
            simp only [afterHavingForeign_qc]
            split <;> simp [mp, SelTail.mapT]
          · rw [h5, h6]; simp
      · rw [h3, h4]; simp
    · rw [h1, h2]; simp

theorem selHead_qc (c : QCfg) (f d : Nat) (sel : Tok) (ts : List Tok) :
    Rel2 (SelHead.mapT qc) (selHead c f d sel ts) (selHead c f d (qc sel) (ts.map qc)) := by
  unfold selHead
  rw [peekKw_qc]
  split
  · simp
  · rcases (allOrDistinct_qc ts).elim with ⟨qd, ts1, h1, h2⟩ | ⟨er, er', h1, h2⟩
    · rw [h1, h2]
      simp only [peekKw_qc]
      split
      · simp
      · rcases (commaSepE_qc (c.e.trailingCommas || c.projTrailing) _ _ _
          (selectItem_qc (c.withTrailing (c.e.trailingCommas || c.projTrailing)) f d) f ts1).elim with
          ⟨proj, ts2, h3, h4⟩ | ⟨er, er', h3, h4⟩
        · rw [h3, h4]
          simp only [peekKw_qc]
          split <;> simp [mp, SelHead.mapT]
        · rw [h3, h4]; simp
    · rw [h1, h2]; simp

def FactorHead.mapT (m : Tok → Tok) : FactorHead → FactorHead
  | .paren lp rest => .paren (m lp) (rest.map m)
  | .table name al rest => .table (name.map m) (al.map m) (rest.map m)

theorem valuesParenAhead_eq (ts : List Tok) : valuesParenAhead ts = (peekKw ts K.VALUES && peekSym ts.tail .LParen) := by
  unfold valuesParenAhead
  congr 1
  split
  · simp [peekSym, Tok.isSym]
  · rename_i h
    cases ts with
    | nil => simp [peekSym]
    | cons t r =>
      cases r with
      | nil => simp [peekSym]
      | cons t2 r2 => cases t2 <;> simp_all [peekSym, Tok.isSym]

theorem valuesParenAhead_qc (ts : List Tok) : valuesParenAhead (ts.map qc) = valuesParenAhead ts := by
  rw [valuesParenAhead_eq, valuesParenAhead_eq, peekKw_qc, ← List.map_tail, peekSym_qc _ _ (by decide) (by decide)]

/-- results without a rest (`Except Err β`): fail together or succeed with the image -/
def RelX {β : Type} (M : β → β) : Except Err β → Except Err β → Prop
  | .ok v, .ok v' => v' = M v
  | .error _, .error _ => True
  | _, _ => False

theorem factorHead_qc (c : QCfg) (ts : List Tok) :
    RelX (FactorHead.mapT qc) (factorHead c ts) (factorHead c (ts.map qc)) := by
  unfold factorHead
  rw [peekAnyKw_qc, eatSym_qc _ _ (by decide) (by decide), valuesParenAhead_qc]
  split
  · trivial
  · cases h : eatSym ts .LParen with
    | some p => obtain ⟨lp, r⟩ := p; simp [mp, RelX, FactorHead.mapT]
    | none =>
      simp only [Option.map_none]
      split
      · trivial
      · have h0 := objectName_qc [] ts
        simp only [List.map_nil] at h0
        rcases h0.elim with ⟨name, r, h1, h2⟩ | ⟨er, er', h1, h2⟩
        · rw [h1, h2]
          simp only [bigQueryNameForeign_qc, afterNameForeign_qc]
          split
          · trivial
          · split
            · trivial
            · rcases (optTableAlias_qc r).elim with ⟨al, r', h3, h4⟩ | ⟨er, er', h3, h4⟩
              · rw [h3, h4]
                simp only [afterAliasForeign_qc]
                split
                · trivial
                · simp [RelX, FactorHead.mapT]
              · rw [h3, h4]; trivial
        · rw [h1, h2]; trivial

theorem RelX.elim {β : Type} {M : β → β} {x y : Except Err β} (h : RelX M x y) :
    (∃ v, x = .ok v ∧ y = .ok (M v)) ∨ (∃ e e', x = .error e ∧ y = .error e') := by
  cases x with
  | error e =>
    cases y with
    | error e' => exact Or.inr ⟨e, e', rfl, rfl⟩
    | ok p' => exact absurd h (by simp [RelX])
  | ok p =>
    cases y with
    | error e' => exact absurd h (by simp [RelX])
    | ok p' =>
      simp [RelX] at h; subst h
      exact Or.inl ⟨p, rfl, rfl⟩

theorem joinHead_qc' (ts : List Tok) : RelX (JoinHead.mapT qc) (joinHead ts) (joinHead (ts.map qc)) := by
  rw [joinHead_qc]
  cases joinHead ts <;> simp [Except.map, RelX]

theorem conn_hasCstr_qc (conn : Conn) : (conn.mapT qc).hasCstr = conn.hasCstr := by
  cases conn with
  | join k toks => cases k <;> rfl
  | _ => rfl

-- ------------------------------------------------------------------ the mutual block
theorem query_qc_all (c : QCfg) (f : Nat) :
    (∀ d ts, Rel2 (Query.mapT qc) (parseQuery c f d ts) (parseQuery c f d (ts.map qc))) ∧
    (∀ d prec ts, Rel2 (QNode.mapT qc) (queryBody c f d prec ts) (queryBody c f d prec (ts.map qc))) ∧
    (∀ d e prec ts, Rel2 (QNode.mapT qc) (remaining c f d e prec ts) (remaining c f d (e.mapT qc) prec (ts.map qc))) ∧
    (∀ d sel ts, Rel2 (QNode.mapT qc) (parseSelect c f d sel ts) (parseSelect c f d (qc sel) (ts.map qc))) ∧
    (∀ d conn ts, Rel2 (QNode.mapT qc) (fromItems c f d conn ts) (fromItems c f d (conn.mapT qc) (ts.map qc))) ∧
    (∀ d b ts, Rel2 (fun kn => (kn.1.mapT qc, kn.2.mapT qc)) (fromRest c f d b ts) (fromRest c f d b (ts.map qc))) := by
  induction f with
  | zero => simp [parseQuery, queryBody, remaining, parseSelect, fromItems, fromRest]
  | succ f ih =>
    obtain ⟨ihQ, ihB, ihR, ihS, ihF, ihT⟩ := ih
    refine ⟨?_, ?_, ?_, ?_, ?_, ?_⟩
    · -- parseQuery
      intro d ts
      cases d with
      | zero => simp [parseQuery]
      | succ d =>
        simp only [parseQuery, peekAnyKw_qc]
        split
        · simp
        · rcases (ihB d c.e.prec.unknown ts).elim with ⟨body, ts1, h1, h2⟩ | ⟨er, er', h1, h2⟩
          · rw [h1, h2]
            simp only
            rcases (queryTail_qc c f d ts1).elim with ⟨qt, ts2, h3, h4⟩ | ⟨er, er', h3, h4⟩
            · rw [h3, h4]; simp [mp, Query.mapT]
            · rw [h3, h4]; simp
          · rw [h1, h2]; simp
    · -- queryBody
      intro d prec ts
      cases ts with
      | nil => simp [queryBody]
      | cons t rest =>
        simp only [List.map_cons]
        unfold queryBody
        simp only [qc_isKw]
        split
        · rcases (ihS d t rest).elim with ⟨s, ts1, h1, h2⟩ | ⟨er, er', h1, h2⟩
          · rw [h1, h2]; exact ihR d s prec ts1
          · rw [h1, h2]; simp
        · cases t with
          | sym s =>
            cases s <;> try (simp [qc, Tok.isKw]; done)
            simp only [qc]
            rcases (ihQ d rest).elim with ⟨q, ts1, h1, h2⟩ | ⟨er, er', h1, h2⟩
            · rw [h1, h2]
              simp only
              cases ts1 with
              | nil => simp
              | cons t2 ts2 =>
                cases t2 with
                | sym s2 =>
                  cases s2 <;> try (simp [qc]; done)
                  have := ihR d (.paren (.sym .LParen) q.body q.tail (.sym .RParen)) prec ts2
                  simpa [qc, QNode.mapT, Query.mapT] using this
                | word a b kw => cases kw <;> simp [qc]
                | _ => simp [qc]
            · rw [h1, h2]; simp
          | word a b kw =>
            cases kw with
            | none => simp [qc, Tok.isKw]
            | some k =>
              simp only [qc, Tok.isKw]
              by_cases hh : (k == K.VALUES || k == K.TABLE) = true <;> simp [hh]
          | _ => simp [qc, Tok.isKw]
    · -- remaining
      intro d e prec ts
      cases ts with
      | nil => unfold remaining; simp [mp]
      | cons t rest =>
        simp only [List.map_cons]
        unfold remaining
        simp only [setOpOf_qc]
        cases ho : setOpOf t with
        | none => simp [mp]
        | some o =>
          simp only
          split
          · simp [mp]
          · simp only [setQuant_qc]
            rcases (ihB d (precOf o) (setQuant rest).2.2).elim with ⟨r, ts1, h1, h2⟩ | ⟨er, er', h1, h2⟩
            · rw [h1, h2]
              simp only
              have := ihR d (.setOp e o (setQuant rest).1 (t :: (setQuant rest).2.1) r) prec ts1
              simpa [QNode.mapT] using this
            · rw [h1, h2]; simp
    · -- parseSelect
      intro d sel ts
      simp only [parseSelect]
      rcases (selHead_qc c f d sel ts).elim with ⟨hd, ts1, h1, h2⟩ | ⟨er, er', h1, h2⟩
      · rw [h1, h2]
        simp only [eatKw_qc]
        cases hk : eatKw ts1 K.FROM with
        | some p =>
          obtain ⟨kw, r⟩ := p
          simp only [Option.map_some, mp]
          have h0 := ihF d (.from kw) r
          simp only [Conn.mapT] at h0
          rcases h0.elim with ⟨fr, ts2, h3, h4⟩ | ⟨er, er', h3, h4⟩
          · rw [h3, h4]
            simp only
            rcases (selTail_qc c f d ts2).elim with ⟨tl, ts3, h5, h6⟩ | ⟨er, er', h5, h6⟩
            · rw [h5, h6]; simp [mp, QNode.mapT]
            · rw [h5, h6]; simp
          · rw [h3, h4]; simp
        | none =>
          simp only [Option.map_none]
          rcases (selTail_qc c f d ts1).elim with ⟨tl, ts3, h5, h6⟩ | ⟨er, er', h5, h6⟩
          · rw [h5, h6]; simp [mp, QNode.mapT]
          · rw [h5, h6]; simp
      · rw [h1, h2]; simp
    · -- fromItems
      intro d conn ts
      simp only [fromItems, conn_hasCstr_qc]
      split
      · simp
      · rcases (factorHead_qc c ts).elim with ⟨fh, h1, h2⟩ | ⟨er, er', h1, h2⟩
        · rw [h1, h2]
          cases fh with
          | table name al r =>
            simp only [FactorHead.mapT]
            rcases (ihT d conn.hasCstr r).elim with ⟨kn, ts', h3, h4⟩ | ⟨er, er', h3, h4⟩
            · rw [h3, h4]; simp [mp, QNode.mapT]
            · rw [h3, h4]; simp
          | paren lp r =>
            simp only [FactorHead.mapT]
            rcases (ihQ (d - 1) r).elim with ⟨q, r1, h3, h4⟩ | ⟨er, er', h3, h4⟩
            · rw [h3, h4]
              simp only
              cases r1 with
              | nil => simp
              | cons t2 r2 =>
                cases t2 with
                | sym s2 =>
                  cases s2 <;> try (simp [qc]; done)
                  simp only [List.map_cons, qc]
                  rcases (optTableAlias_qc r2).elim with ⟨al, r3, h5, h6⟩ | ⟨er, er', h5, h6⟩
                  · rw [h5, h6]
                    simp only [peekAnyKw_qc]
                    split
                    · simp
                    · rcases (ihT d conn.hasCstr r3).elim with ⟨kn, ts', h7, h8⟩ | ⟨er, er', h7, h8⟩
                      · rw [h7, h8]; simp [mp, QNode.mapT, Query.mapT, qc]
                      · rw [h7, h8]; simp
                  · rw [h5, h6]; simp
                | word a b kw => cases kw <;> simp [qc]
                | _ => simp [qc]
            · rw [h3, h4]
              cases er <;> cases er' <;> simp
        · rw [h1, h2]; simp
    · -- fromRest
      intro d b ts
      simp only [fromRest]
      rcases (optCstr_qc c f d b ts).elim with ⟨k, ts1, h1, h2⟩ | ⟨er, er', h1, h2⟩
      · rw [h1, h2]
        simp only
        rcases (joinHead_qc' ts1).elim with ⟨jh, h3, h4⟩ | ⟨er, er', h3, h4⟩
        · rw [h3, h4]
          cases jh with
          | join jk toks r =>
            simp only [JoinHead.mapT]
            have h0 := ihF d (.join jk toks) r
            simp only [Conn.mapT] at h0
            rcases h0.elim with ⟨rest, ts2, h5, h6⟩ | ⟨er, er', h5, h6⟩
            · rw [h5, h6]; simp [mp]
            · rw [h5, h6]; simp
          | stop =>
            simp only [JoinHead.mapT]
            cases ts1 with
            | nil => simp [mp, QNode.mapT]
            | cons t2 r =>
              cases t2 with
              | sym s2 =>
                cases s2 <;> try (simp [qc, mp, QNode.mapT]; done)
                simp only [List.map_cons, qc, listEnds_qc]
                split
                · simp [mp, QNode.mapT, qc]
                · have h0 := ihF d (.comma (.sym .Comma)) r
                  simp only [Conn.mapT, qc] at h0
                  rcases h0.elim with ⟨rest, ts2, h5, h6⟩ | ⟨er, er', h5, h6⟩
                  · rw [h5, h6]; simp [mp]
                  · rw [h5, h6]; simp
              | word a b kw => cases kw <;> simp [qc, mp, QNode.mapT]
              | _ => simp [qc, mp, QNode.mapT]
        · rw [h3, h4]; simp
      · rw [h1, h2]; simp

theorem parseStatement_qc (c : QCfg) (f limit : Nat) (ts : List Tok) :
    Rel2 (Query.mapT qc) (parseStatement c f limit ts) (parseStatement c f limit (ts.map qc)) := by
  unfold parseStatement
  cases limit with
  | zero => simp
  | succ d =>
    simp only
    have hq := (query_qc_all c f).1 d ts
    cases ts with
    | nil => simp
    | cons t rest =>
      simp only [List.map_cons, qc_isKw] at hq ⊢
      split
      · exact hq
      · cases t with
        | sym s => cases s <;> first | exact hq | simp [qc]
        | word a b kw => cases kw <;> simp [qc]
        | _ => simp [qc]

/-- **the query parser respects the token image**: on two token lists with the same image the
statement parser succeeds on both or on none; the rests have the same image and the trees have the
same image (same shape, same image in every token slot) -/
theorem parseStatement_sim2 (c : QCfg) (f limit : Nat) {a b : List Tok} (hs : a.map qc = b.map qc)
    {q : Query} {r : List Tok} (h : parseStatement c f limit a = .ok (q, r)) :
    ∃ q' r', parseStatement c f limit b = .ok (q', r') ∧ q'.mapT qc = q.mapT qc ∧ r'.map qc = r.map qc :=
  Rel2.two (parseStatement_qc c f limit) hs h

end SqlVerif.Query

import SqlVerif.Lemmas.DmlNorm
import SqlVerif.Lemmas.QueryWF
/-!
Every tree the statement parser builds is well formed (`Stmt.WF`): every keyword slot holds its keyword,
every bracket slot its bracket, every separator slot a comma, every expression is a faithful parse
result, every query a well-formed query tree (`Lemmas/QueryWF.lean`).  Same structure as the yield
theorems of `Lemmas/DmlLemmas.lean`.
-/
namespace SqlVerif.Dml
open SqlVerif.Pratt SqlVerif.Query SqlVerif.Gen
set_option linter.unusedSimpArgs false

-- ------------------------------------------------------------------ what the parser guarantees
/-- `[]` or the keyword `k` -/
def optKwWF (k : Nat) (l : List Tok) : Prop := l = [] ∨ ∃ t, l = [t] ∧ t.isKw k = true

def Row.WF (r : Row) : Prop :=
  optKwWF DK.ROW r.rowKw ∧ r.lp = .sym .LParen ∧ r.rp = .sym .RParen ∧ sepWF ExprWF r.exprs

def ValuesQ.WF (v : ValuesQ) : Prop := v.kw.isKw DK.VALUES = true ∧ sepWF Row.WF v.rows ∧ v.tail.WF

def Source.WF : Source → Prop
  | .query q => q.WF
  | .values v => v.WF

def ParenIds.WF (p : ParenIds) : Prop :=
  (p.lp = [] ∧ p.ids = [] ∧ p.rp = []) ∨ (p.lp = [.sym .LParen] ∧ p.rp = [.sym .RParen] ∧ sepWF (fun _ => True) p.ids)

def InsSource.WF : InsSource → Prop
  | .defaultValues toks => isKwL toks [DK.DEFAULT, DK.VALUES]
  | .source s => s.WF

def retWF (kw : List Tok) (items : Sep SelectItem) : Prop :=
  ((kw = [] ∧ items = []) ∨ (∃ t, kw = [t] ∧ t.isKw DK.RETURNING = true ∧ items ≠ [])) ∧ sepWF SelectItem.WF items

def Insert.WF (i : Insert) : Prop :=
  i.kw.isKw DK.INSERT = true ∧ optKwWF DK.INTO i.into ∧ optKwWF DK.TABLE i.tableKw ∧ i.cols.WF ∧ i.src.WF ∧
    retWF i.retKw i.returning

def AssignTarget.WF : AssignTarget → Prop
  | .col _ => True
  | .tuple lp names rp => lp = .sym .LParen ∧ rp = .sym .RParen ∧ sepWF (fun _ => True) names

def Assign.WF (a : Assign) : Prop := a.target.WF ∧ a.eq = .sym .Eq ∧ ExprWF a.value

/-- a FROM-item list attached by the keyword `k` (or absent): apart from that keyword it is a well-formed
FROM list -/
def HeadWF (k : Nat) (n : QNode) : Prop :=
  n = .fnil [] ∨ (headFrom n = true ∧ (∃ t, t.isKw k = true ∧ n = setHead t n) ∧ (setHead (kwT "FROM") n).WF)

def Update.WF (u : Update) : Prop :=
  HeadWF DK.UPDATE u.table ∧ u.table ≠ .fnil [] ∧ u.setKw.isKw DK.SET = true ∧ sepWF Assign.WF u.assigns ∧
    optKwWF DK.FROM u.fromKw ∧ HeadWF DK.FROM u.frm ∧ kwExprWF DK.WHERE u.whereKw u.selection ∧ retWF u.retKw u.returning

def limitWF (kws : List Tok) (lim : Option Expr) : Prop :=
  (kws = [] ∧ lim = none) ∨ (∃ t e, kws = [t] ∧ t.isKw DK.LIMIT = true ∧ lim = some e ∧ ExprWF e) ∨
    (kws.length = 2 ∧ lim = none)

def Delete.WF (d : Delete) : Prop :=
  d.kw.isKw DK.DELETE = true ∧ sepWF (fun _ => True) d.tables ∧ HeadWF DK.FROM d.frm ∧ HeadWF DK.USING d.usng ∧
    kwExprWF DK.WHERE d.whereKw d.selection ∧ retWF d.retKw d.returning ∧
    ((d.orderKw = [] ∧ d.order = []) ∨ (isKwL d.orderKw [DK.ORDER, DK.BY] ∧ d.order ≠ [])) ∧ sepWF OrderByExpr.WF d.order ∧
    limitWF d.limitKw d.limit

def ColOpt.WF : ColOpt → Prop
  | .null t => t.isKw DK.NULL = true
  | .notNull toks => isKwL toks [DK.NOT, DK.NULL]
  | .default kw e => kw.isKw DK.DEFAULT = true ∧ ExprWF e
  | .primaryKey toks => isKwL toks [DK.PRIMARY, DK.KEY]
  | .unique t => t.isKw DK.UNIQUE = true
  | .check kw lp e rp => kw.isKw DK.CHECK = true ∧ lp = .sym .LParen ∧ rp = .sym .RParen ∧ ExprWF e
  | .comment kw s => kw.isKw DK.COMMENT = true ∧ ∃ v, s = .sqs v
  | .dialect t =>
    t.isKw DK.AUTO_INCREMENT = true ∨ t.isKw DK.AUTOINCREMENT = true ∨ t.isKw DK.ASC = true ∨ t.isKw DK.DESC = true
  | .references kw _ cols => kw.isKw DK.REFERENCES = true ∧ cols.WF

def ColDef.WF (cd : ColDef) : Prop := ∀ o ∈ cd.opts, o.WF

def CreateTable.WF (ct : CreateTable) : Prop :=
  ct.kw.isKw DK.CREATE = true ∧
    (ct.temp = [] ∨ ∃ t, ct.temp = [t] ∧ (t.isKw DK.TEMP = true ∨ t.isKw DK.TEMPORARY = true)) ∧
    ct.tableKw.isKw DK.TABLE = true ∧ (ct.ifne = [] ∨ isKwL ct.ifne [DK.IF, DK.NOT, DK.EXISTS]) ∧
    ((ct.lp = [] ∧ ct.cols = [] ∧ ct.rp = []) ∨ (ct.lp = [.sym .LParen] ∧ ct.rp = [.sym .RParen])) ∧
    sepWF ColDef.WF ct.cols

def Drop.WF (d : Drop) : Prop :=
  d.kw.isKw DK.DROP = true ∧ d.tableKw.isKw DK.TABLE = true ∧ (d.ifExists = [] ∨ isKwL d.ifExists [DK.IF, DK.EXISTS]) ∧
    sepWF (fun _ => True) d.names ∧ optKwWF DK.CASCADE d.cascade ∧ optKwWF DK.RESTRICT d.restrict ∧
    optKwWF DK.PURGE d.purge

def Stmt.WF : Stmt → Prop
  | .query s => s.WF
  | .insert i => i.WF
  | .update u => u.WF
  | .delete d => d.WF
  | .createTable ct => ct.WF
  | .drop d => d.WF

-- ------------------------------------------------------------------ helpers
theorem kwTail_wf (k : Nat) (ts : List Tok) : optKwWF k (kwTail k ts).1 := by
  unfold kwTail
  split
  · rename_i t r hk
    exact Or.inr ⟨t, rfl, ((eatKw_some_iff _ _ _ _).1 hk).2⟩
  · exact Or.inl rfl

theorem kwsTail_wf (ks : List Nat) (ts : List Tok) : (kwsTail ks ts).1 = [] ∨ isKwL (kwsTail ks ts).1 ks := by
  unfold kwsTail
  split
  · rename_i p hk
    obtain ⟨ops, r⟩ := p
    exact Or.inr (eatKws_isKwL _ _ _ _ hk)
  · exact Or.inl rfl

theorem names_wf (tc : Bool) (n : Nat) (ts : List Tok) (vs : Sep (List Tok)) (rest : List Tok)
    (h : commaSepE tc nameElem n ts = .ok (vs, rest)) : sepWF (fun _ => True) vs ∧ vs ≠ [] :=
  commaSepE_wf tc nameElem (fun _ => True) (fun _ _ _ _ => trivial) n ts vs rest h

-- ------------------------------------------------------------------ VALUES, sources
theorem rowBody_wf (c : DCfg) (f d : Nat) (rk ts : List Tok) (hrk : optKwWF DK.ROW rk) (row : Row) (rest : List Tok)
    (h : rowBody c f d rk ts = .ok (row, rest)) : row.WF := by
  unfold rowBody at h
  split at h
  · simp at h
  · rename_i lp r hl
    obtain ⟨-, rfl⟩ := eatSym_some hl
    split at h
    · rename_i rp r' he
      split at he
      · obtain ⟨-, rfl⟩ := eatSym_some he
        simp at h; obtain ⟨rfl, rfl⟩ := h
        exact ⟨hrk, rfl, rfl, trivial⟩
      · simp at he
    · split at h
      · simp at h
      · rename_i es r1 hes
        have h1 := commaSepE_wf _ _ ExprWF (parseE_wf c.q f d) _ _ _ _ hes
        split at h
        · rename_i rp r2 hr
          obtain ⟨-, rfl⟩ := eatSym_some hr
          simp at h; obtain ⟨rfl, rfl⟩ := h
          exact ⟨hrk, rfl, rfl, h1.1⟩
        · simp at h

theorem valuesRow_wf (c : DCfg) (f d : Nat) (ts : List Tok) (row : Row) (rest : List Tok)
    (h : valuesRow c f d ts = .ok (row, rest)) : row.WF := by
  unfold valuesRow at h
  exact rowBody_wf _ _ _ _ _ (kwTail_wf _ _) _ _ h

theorem valuesQuery_wf (c : DCfg) (f d : Nat) (kw : Tok) (hkw : kw.isKw DK.VALUES = true) (ts : List Tok) (v : ValuesQ)
    (rest : List Tok) (h : valuesQuery c f d kw ts = .ok (v, rest)) : v.WF := by
  unfold valuesQuery at h
  split at h
  · simp at h
  · rename_i d'
    split at h
    · simp at h
    · rename_i rows r1 hr
      have h1 := commaSepE_wf _ _ Row.WF (valuesRow_wf c f d') _ _ _ _ hr
      split at h
      · simp at h
      · split at h
        · simp at h
        · rename_i qt r2 hq
          have h2 := queryTail_wf _ _ _ _ _ _ hq
          simp at h; obtain ⟨rfl, rfl⟩ := h
          exact ⟨hkw, h1.1, h2⟩

theorem parseSource_wf (c : DCfg) (f d : Nat) (ts : List Tok) (s : Source) (rest : List Tok)
    (h : parseSource c f d ts = .ok (s, rest)) : s.WF := by
  unfold parseSource at h
  split at h
  · rename_i kw r hk
    obtain ⟨-, hkw⟩ := (eatKw_some_iff _ _ _ _).1 hk
    split at h
    · simp at h
    · rename_i v r' hv
      simp at h; obtain ⟨rfl, rfl⟩ := h
      exact valuesQuery_wf _ _ _ _ hkw _ _ _ hv
  · split at h
    · simp at h
    · rename_i q r' hq
      simp at h; obtain ⟨rfl, rfl⟩ := h
      exact (query_wf_all c.q f).1 _ _ _ _ hq

-- ------------------------------------------------------------------ shared clauses
theorem parenIds_wf (c : DCfg) (f : Nat) (ae : Bool) (ts : List Tok) (p : ParenIds) (rest : List Tok)
    (h : parenIds c f ae ts = .ok (p, rest)) : p.WF := by
  unfold parenIds at h
  split at h
  · simp at h; obtain ⟨rfl, rfl⟩ := h; exact Or.inl ⟨rfl, rfl, rfl⟩
  · rename_i lp r hl
    obtain ⟨-, rfl⟩ := eatSym_some hl
    split at h
    · rename_i rp r' he
      split at he
      · obtain ⟨-, rfl⟩ := eatSym_some he
        simp at h; obtain ⟨rfl, rfl⟩ := h
        exact Or.inr ⟨rfl, rfl, trivial⟩
      · simp at he
    · split at h
      · simp at h
      · rename_i ids r1 hi
        have h1 := commaSepE_wf _ _ (fun _ => True) (fun _ _ _ _ => trivial) _ _ _ _ hi
        split at h
        · rename_i rp r2 hr
          obtain ⟨-, rfl⟩ := eatSym_some hr
          simp at h; obtain ⟨rfl, rfl⟩ := h
          exact Or.inr ⟨rfl, rfl, h1.1⟩
        · simp at h

theorem retPart_wf (c : DCfg) (f d : Nat) (ts : List Tok) (ret : List Tok × Sep SelectItem) (rest : List Tok)
    (h : retPart c f d ts = .ok (ret, rest)) : retWF ret.1 ret.2 := by
  unfold retPart at h
  split at h
  · rename_i kw r hk
    obtain ⟨-, hkw⟩ := (eatKw_some_iff _ _ _ _).1 hk
    split at h
    · simp at h
    · rename_i items r' hi
      have h1 := commaSepE_wf _ _ SelectItem.WF (selectItem_wf c.q f d) _ _ _ _ hi
      simp at h; obtain ⟨rfl, rfl⟩ := h
      exact ⟨Or.inr ⟨kw, rfl, hkw, h1.2⟩, h1.1⟩
  · simp at h; obtain ⟨rfl, rfl⟩ := h
    exact ⟨Or.inl ⟨rfl, rfl⟩, trivial⟩

-- ------------------------------------------------------------------ INSERT
theorem insertBody_wf (c : DCfg) (f d : Nat) (ts : List Tok) (cs : ParenIds × InsSource) (rest : List Tok)
    (h : insertBody c f d ts = .ok (cs, rest)) : cs.1.WF ∧ cs.2.WF := by
  unfold insertBody at h
  split at h
  · rename_i toks r hk
    simp at h; obtain ⟨rfl, rfl⟩ := h
    exact ⟨Or.inl ⟨rfl, rfl, rfl⟩, eatKws_isKwL _ _ _ _ hk⟩
  · split at h
    · simp at h
    · rename_i cols r1 hc
      have h1 := parenIds_wf _ _ _ _ _ _ hc
      split at h
      · simp at h
      · split at h
        · simp at h
        · split at h
          · simp at h
          · rename_i s r2 hs
            have h2 := parseSource_wf _ _ _ _ _ _ hs
            simp at h; obtain ⟨rfl, rfl⟩ := h
            exact ⟨h1, h2⟩

theorem parseInsert_wf (c : DCfg) (f d : Nat) (kw : Tok) (hkw : kw.isKw DK.INSERT = true) (ts : List Tok) (i : Insert)
    (rest : List Tok) (h : parseInsert c f d kw ts = .ok (i, rest)) : i.WF := by
  unfold parseInsert at h
  split at h
  · simp at h
  · split at h
    · simp at h
    · split at h
      · simp at h
      · rename_i name r1 hn
        split at h
        · simp at h
        · split at h
          · simp at h
          · split at h
            · simp at h
            · rename_i cs r2 hb
              have h2 := insertBody_wf _ _ _ _ _ _ hb
              split at h
              · simp at h
              · split at h
                · simp at h
                · rename_i ret r3 hr
                  have h3 := retPart_wf _ _ _ _ _ _ hr
                  simp at h; obtain ⟨rfl, rfl⟩ := h
                  exact ⟨hkw, kwTail_wf _ _, kwTail_wf _ _, h2.1, h2.2, h3⟩

-- ------------------------------------------------------------------ FROM-item lists under another keyword
theorem setHead_node (fac : Factor) (kw kw' : Tok) (k : JoinCstr) (rest : QNode) :
    setHead kw' (fac.node (.from kw) k rest) = fac.node (.from kw') k rest := by cases fac <;> rfl

/-- the keyword in front of the first FROM item is only stored -/
theorem twj_head (c : QCfg) (f d : Nat) (kw kw' : Tok) (ts : List Tok) (n : QNode) (r : List Tok)
    (h : twj c f d (.from kw) ts = .ok (n, r)) :
    twj c f d (.from kw') ts = .ok (setHead kw' n, r) ∧ n = setHead kw n := by
  cases f with
  | zero => simp [twj] at h
  | succ f =>
    simp only [twj, Conn.hasCstr] at h ⊢
    split at h
    · simp at h
    · rename_i fac r1 hf
      split at h
      · simp at h
      · rename_i k ts1 hc
        split at h
        · simp at h
        · simp at h; obtain ⟨rfl, rfl⟩ := h
          simp [setHead_node]
        · split at h
          · simp at h
          · simp at h; obtain ⟨rfl, rfl⟩ := h
            simp [setHead_node]

theorem fromItems_head (c : QCfg) (f d : Nat) (kw kw' : Tok) (ts : List Tok) (n : QNode) (r : List Tok)
    (h : fromItems c f d (.from kw) ts = .ok (n, r)) :
    fromItems c f d (.from kw') ts = .ok (setHead kw' n, r) ∧ n = setHead kw n := by
  cases f with
  | zero => simp [fromItems] at h
  | succ f =>
    simp only [fromItems, Conn.hasCstr] at h ⊢
    repeat' split at h
    all_goals first
      | (simp at h; done)
      | (simp at h; obtain ⟨rfl, rfl⟩ := h; simp_all [setHead])

theorem factorPart_wf (c : QCfg) (f d : Nat) (ts : List Tok) (fac : Factor) (r : List Tok)
    (h : factorPart c f d ts = .ok (fac, r)) (conn : Conn) (k : JoinCstr) (rest : QNode) (hc : conn.WF) (hk : k.WF)
    (hr : rest.WF) : (fac.node conn k rest).WF := by
  unfold factorPart at h
  split at h
  · simp at h
  · split at h
    · simp at h
    · rename_i name al r0 hfh
      have h1 := factorHead_wf _ _ _ hfh
      simp at h; obtain ⟨rfl, rfl⟩ := h
      exact ⟨hc, h1, hk, hr⟩
    · rename_i lp r0 hfh
      have h1 := factorHead_wf _ _ _ hfh
      split at h
      · simp at h
      · simp at h
      · simp at h
      · rename_i q r1 hq
        have h2 := (query_wf_all c f).1 _ _ _ _ hq
        split at h
        · simp at h
        · rename_i rp r2 hrp
          obtain ⟨-, rfl⟩ := eatSym_some hrp
          split at h
          · simp at h
          · rename_i al r3 ha
            have h3 := optTableAlias_wf _ _ _ ha
            split at h
            · simp at h
            · simp at h; obtain ⟨rfl, rfl⟩ := h
              exact ⟨hc, h1, rfl, h2.1, h2.2, h3, hk, hr⟩

theorem twj_wf (c : QCfg) : ∀ (f d : Nat) (conn : Conn) (ts : List Tok) (n : QNode) (r : List Tok), conn.WF →
    twj c f d conn ts = .ok (n, r) → n.WF := by
  intro f
  induction f with
  | zero => intro d conn ts n r _ h; simp [twj] at h
  | succ f ih =>
    intro d conn ts n r hconn h
    simp only [twj] at h
    split at h
    · simp at h
    · rename_i fac r1 hf
      split at h
      · simp at h
      · rename_i k ts1 hc
        have h1 := optCstr_wf _ _ _ _ _ _ _ hc
        split at h
        · simp at h
        · simp at h; obtain ⟨rfl, rfl⟩ := h
          exact factorPart_wf _ _ _ _ _ _ hf _ _ _ hconn h1 (Or.inl rfl)
        · rename_i jk toks r2 hj
          have h2 := joinHead_wf _ _ _ _ hj
          split at h
          · simp at h
          · rename_i rest ts2 hrec
            simp at h; obtain ⟨rfl, rfl⟩ := h
            exact factorPart_wf _ _ _ _ _ _ hf _ _ _ hconn h1 (ih d (.join jk toks) r2 rest ts2 h2 hrec)

theorem kwT_FROM_isKw : (kwT "FROM").isKw K.FROM = true := by decide +kernel

theorem twj_headWF (c : QCfg) (f d : Nat) (k : Nat) (kw : Tok) (hkw : kw.isKw k = true) (ts : List Tok) (n : QNode)
    (r : List Tok) (h : twj c f d (.from kw) ts = .ok (n, r)) : HeadWF k n ∧ n ≠ .fnil [] := by
  obtain ⟨h1, h2⟩ := twj_head c f d kw (kwT "FROM") ts n r h
  have hf := twj_headFrom c f d kw ts n r h
  refine ⟨Or.inr ⟨hf, ⟨kw, hkw, h2⟩, twj_wf c f d (.from (kwT "FROM")) ts _ r kwT_FROM_isKw h1⟩, ?_⟩
  intro hn; rw [hn] at hf; simp [headFrom] at hf

theorem fromItems_headWF (c : QCfg) (f d : Nat) (k : Nat) (kw : Tok) (hkw : kw.isKw k = true) (ts : List Tok) (n : QNode)
    (r : List Tok) (h : fromItems c f d (.from kw) ts = .ok (n, r)) : HeadWF k n := by
  obtain ⟨h1, h2⟩ := fromItems_head c f d kw (kwT "FROM") ts n r h
  exact Or.inr ⟨fromItems_headFrom c f d kw ts n r h, ⟨kw, hkw, h2⟩,
    (query_wf_all c f).2.2.2.2.1 d (.from (kwT "FROM")) ts _ r kwT_FROM_isKw h1⟩

-- ------------------------------------------------------------------ UPDATE
theorem assignTarget_wf (c : DCfg) (f : Nat) (ts : List Tok) (tg : AssignTarget) (rest : List Tok)
    (h : assignTarget c f ts = .ok (tg, rest)) : tg.WF := by
  unfold assignTarget at h
  split at h
  · rename_i lp r hl
    obtain ⟨-, rfl⟩ := eatSym_some hl
    split at h
    · simp at h
    · rename_i names r1 hn
      have h1 := names_wf _ _ _ _ _ hn
      split at h
      · simp at h
      · rename_i rp r2 hr
        obtain ⟨-, rfl⟩ := eatSym_some hr
        split at h
        · simp at h
        · simp at h; obtain ⟨rfl, rfl⟩ := h
          exact ⟨rfl, rfl, h1.1⟩
  · split at h
    · simp at h
    · split at h
      · simp at h
      · simp at h; obtain ⟨rfl, rfl⟩ := h; trivial

theorem assignment_wf (c : DCfg) (f d : Nat) (ts : List Tok) (a : Assign) (rest : List Tok)
    (h : assignment c f d ts = .ok (a, rest)) : a.WF := by
  unfold assignment at h
  split at h
  · simp at h
  · rename_i tg r ht
    split at h
    · simp at h
    · rename_i eq r1 he
      obtain ⟨-, rfl⟩ := eatSym_some he
      split at h
      · simp at h
      · rename_i e r2 hex
        simp at h; obtain ⟨rfl, rfl⟩ := h
        exact ⟨assignTarget_wf _ _ _ _ _ ht, rfl, parseE_wf _ _ _ _ _ _ hex⟩

theorem updateFromPart_wf (c : DCfg) (f d : Nat) (ts : List Tok) (fr : List Tok × QNode) (rest : List Tok)
    (h : updateFromPart c f d ts = .ok (fr, rest)) : optKwWF DK.FROM fr.1 ∧ HeadWF DK.FROM fr.2 := by
  unfold updateFromPart at h
  split at h
  · simp at h; obtain ⟨rfl, rfl⟩ := h
    exact ⟨Or.inl rfl, Or.inl rfl⟩
  · rename_i kw r hk
    obtain ⟨-, hkw⟩ := (eatKw_some_iff _ _ _ _).1 hk
    split at h
    · split at h
      · simp at h
      · rename_i n r' ht
        simp at h; obtain ⟨rfl, rfl⟩ := h
        exact ⟨Or.inl rfl, (twj_headWF _ _ _ _ _ hkw _ _ _ ht).1⟩
    · simp at h; obtain ⟨rfl, rfl⟩ := h
      exact ⟨Or.inr ⟨kw, rfl, hkw⟩, Or.inl rfl⟩

theorem parseUpdate_wf (c : DCfg) (f d : Nat) (kw : Tok) (hkw : kw.isKw DK.UPDATE = true) (ts : List Tok) (u : Update)
    (rest : List Tok) (h : parseUpdate c f d kw ts = .ok (u, rest)) : u.WF := by
  unfold parseUpdate at h
  split at h
  · simp at h
  · rename_i tbl r1 ht
    have h1 := twj_headWF _ _ _ _ _ hkw _ _ _ ht
    split at h
    · simp at h
    · rename_i setKw r2 hs
      obtain ⟨-, hset⟩ := (eatKw_some_iff _ _ _ _).1 hs
      split at h
      · simp at h
      · rename_i as r3 ha
        have h2 := commaSepE_wf _ _ Assign.WF (assignment_wf c f d) _ _ _ _ ha
        split at h
        · simp at h
        · rename_i fr r4 hf
          have h3 := updateFromPart_wf _ _ _ _ _ _ hf
          split at h
          · simp at h
          · rename_i w r5 hw
            have h4 := kwExprPart_wf _ _ _ _ _ _ _ hw
            split at h
            · simp at h
            · rename_i ret r6 hr
              have h5 := retPart_wf _ _ _ _ _ _ hr
              simp at h; obtain ⟨rfl, rfl⟩ := h
              exact ⟨h1.1, h1.2, hset, h2.1, h3.1, h3.2, h4, h5⟩

-- ------------------------------------------------------------------ DELETE
theorem deleteHead_wf (c : DCfg) (f : Nat) (ts : List Tok) (hd : Sep (List Tok) × Tok) (rest : List Tok)
    (h : deleteHead c f ts = .ok (hd, rest)) : sepWF (fun _ => True) hd.1 ∧ hd.2.isKw DK.FROM = true := by
  unfold deleteHead at h
  split at h
  · rename_i fk r hk
    obtain ⟨-, hkw⟩ := (eatKw_some_iff _ _ _ _).1 hk
    simp at h; obtain ⟨rfl, rfl⟩ := h
    exact ⟨trivial, hkw⟩
  · split at h
    · simp at h
    · split at h
      · simp at h
      · rename_i names r1 hn
        have h1 := names_wf _ _ _ _ _ hn
        split at h
        · simp at h
        · rename_i fk r2 hk
          obtain ⟨-, hkw⟩ := (eatKw_some_iff _ _ _ _).1 hk
          split at h
          · simp at h
          · simp at h; obtain ⟨rfl, rfl⟩ := h
            exact ⟨h1.1, hkw⟩

theorem usingPart_wf (c : DCfg) (f d : Nat) (ts : List Tok) (n : QNode) (rest : List Tok)
    (h : usingPart c f d ts = .ok (n, rest)) : HeadWF DK.USING n := by
  unfold usingPart at h
  split at h
  · rename_i kw r hk
    obtain ⟨-, hkw⟩ := (eatKw_some_iff _ _ _ _).1 hk
    exact fromItems_headWF _ _ _ _ _ hkw _ _ _ h
  · simp at h; obtain ⟨rfl, rfl⟩ := h
    exact Or.inl rfl

theorem deleteOrderPart_wf (c : DCfg) (f d : Nat) (ts : List Tok) (ob : List Tok × Sep OrderByExpr) (rest : List Tok)
    (h : deleteOrderPart c f d ts = .ok (ob, rest)) :
    ((ob.1 = [] ∧ ob.2 = []) ∨ (isKwL ob.1 [DK.ORDER, DK.BY] ∧ ob.2 ≠ [])) ∧ sepWF OrderByExpr.WF ob.2 := by
  unfold deleteOrderPart at h
  split at h
  · rename_i kws r hk
    split at h
    · simp at h
    · rename_i os r' ho
      have h1 := commaSepE_wf _ _ OrderByExpr.WF (orderByElem_wf c.q f d) _ _ _ _ ho
      simp at h; obtain ⟨rfl, rfl⟩ := h
      exact ⟨Or.inr ⟨eatKws_isKwL _ _ _ _ hk, h1.2⟩, h1.1⟩
  · simp at h; obtain ⟨rfl, rfl⟩ := h
    exact ⟨Or.inl ⟨rfl, rfl⟩, trivial⟩

theorem deleteLimitPart_wf (c : DCfg) (f d : Nat) (ts : List Tok) (lim : List Tok × Option Expr) (rest : List Tok)
    (h : deleteLimitPart c f d ts = .ok (lim, rest)) : limitWF lim.1 lim.2 := by
  unfold deleteLimitPart at h
  split at h
  · rename_i kw r hk
    obtain ⟨-, hkw⟩ := (eatKw_some_iff _ _ _ _).1 hk
    split at h
    · simp at h; obtain ⟨rfl, rfl⟩ := h
      exact Or.inr (Or.inr ⟨rfl, rfl⟩)
    · split at h
      · simp at h
      · rename_i e r' he
        simp at h; obtain ⟨rfl, rfl⟩ := h
        exact Or.inr (Or.inl ⟨kw, e, rfl, hkw, rfl, parseE_wf _ _ _ _ _ _ he⟩)
  · simp at h; obtain ⟨rfl, rfl⟩ := h
    exact Or.inl ⟨rfl, rfl⟩

theorem parseDelete_wf (c : DCfg) (f d : Nat) (kw : Tok) (hkw : kw.isKw DK.DELETE = true) (ts : List Tok) (dl : Delete)
    (rest : List Tok) (h : parseDelete c f d kw ts = .ok (dl, rest)) : dl.WF := by
  unfold parseDelete at h
  split at h
  · simp at h
  · rename_i hd r1 hh
    have h1 := deleteHead_wf _ _ _ _ _ hh
    split at h
    · simp at h
    · rename_i frm r2 hf
      have h2 := fromItems_headWF _ _ _ _ _ h1.2 _ _ _ hf
      split at h
      · simp at h
      · rename_i us r3 hu
        have h3 := usingPart_wf _ _ _ _ _ _ hu
        split at h
        · simp at h
        · rename_i w r4 hw
          have h4 := kwExprPart_wf _ _ _ _ _ _ _ hw
          split at h
          · simp at h
          · rename_i ret r5 hr
            have h5 := retPart_wf _ _ _ _ _ _ hr
            split at h
            · simp at h
            · rename_i ob r6 ho
              have h6 := deleteOrderPart_wf _ _ _ _ _ _ ho
              split at h
              · simp at h
              · rename_i lim r7 hl
                have h7 := deleteLimitPart_wf _ _ _ _ _ _ hl
                simp at h; obtain ⟨rfl, rfl⟩ := h
                exact ⟨hkw, h1.1, h2, h3, h4, h5, h6.1, h6.2, h7⟩

-- ------------------------------------------------------------------ column options
def OptRes.WF : OptRes → Prop
  | .opt o => o.WF
  | .none _ => True

theorem dialectOpt_wf (ok : Bool) (t : Tok)
    (ht : t.isKw DK.AUTO_INCREMENT = true ∨ t.isKw DK.AUTOINCREMENT = true ∨ t.isKw DK.ASC = true ∨ t.isKw DK.DESC = true)
    (r : List Tok) (o : OptRes) (rest : List Tok) (h : dialectOpt ok t r = .ok (o, rest)) : o.WF := by
  unfold dialectOpt at h
  split at h
  · simp at h; obtain ⟨rfl, rfl⟩ := h; exact ht
  · split at h
    · simp at h
    · simp at h; obtain ⟨rfl, rfl⟩ := h; trivial

theorem colOptionTail_wf (c : DCfg) (ts : List Tok) (o : OptRes) (rest : List Tok)
    (h : colOptionTail c ts = .ok (o, rest)) : o.WF := by
  unfold colOptionTail at h
  split at h
  · rename_i t r hk
    exact dialectOpt_wf _ _ (Or.inl ((eatKw_some_iff _ _ _ _).1 hk).2) _ _ _ h
  · split at h
    · rename_i t r hk
      exact dialectOpt_wf _ _ (Or.inr (Or.inl ((eatKw_some_iff _ _ _ _).1 hk).2)) _ _ _ h
    · split at h
      · rename_i t r hk
        exact dialectOpt_wf _ _ (Or.inr (Or.inr (Or.inl ((eatKw_some_iff _ _ _ _).1 hk).2))) _ _ _ h
      · split at h
        · rename_i t r hk
          exact dialectOpt_wf _ _ (Or.inr (Or.inr (Or.inr ((eatKw_some_iff _ _ _ _).1 hk).2))) _ _ _ h
        · split at h
          · simp at h
          · simp at h; obtain ⟨rfl, rfl⟩ := h; trivial

theorem commentTail_wf (kw : Tok) (hkw : kw.isKw DK.COMMENT = true) (ts : List Tok) (o : OptRes) (rest : List Tok)
    (h : commentTail kw ts = .ok (o, rest)) : o.WF := by
  unfold commentTail at h
  split at h
  · simp at h; obtain ⟨rfl, rfl⟩ := h; exact ⟨hkw, _, rfl⟩
  · simp at h

theorem checkTail_wf (c : DCfg) (f d : Nat) (kw : Tok) (hkw : kw.isKw DK.CHECK = true) (ts : List Tok) (o : OptRes)
    (rest : List Tok) (h : checkTail c f d kw ts = .ok (o, rest)) : o.WF := by
  unfold checkTail at h
  split at h
  · simp at h
  · rename_i lp r hl
    obtain ⟨-, rfl⟩ := eatSym_some hl
    split at h
    · simp at h
    · rename_i e r1 he
      split at h
      · simp at h
      · rename_i rp r2 hr
        obtain ⟨-, rfl⟩ := eatSym_some hr
        simp at h; obtain ⟨rfl, rfl⟩ := h
        exact ⟨hkw, rfl, rfl, parseE_wf _ _ _ _ _ _ he⟩

theorem referencesTail_wf (c : DCfg) (f : Nat) (kw : Tok) (hkw : kw.isKw DK.REFERENCES = true) (ts : List Tok) (o : OptRes)
    (rest : List Tok) (h : referencesTail c f kw ts = .ok (o, rest)) : o.WF := by
  unfold referencesTail at h
  split at h
  · simp at h
  · split at h
    · simp at h
    · split at h
      · simp at h
      · rename_i cols r1 hc
        split at h
        · simp at h
        · simp at h; obtain ⟨rfl, rfl⟩ := h
          exact ⟨hkw, parenIds_wf _ _ _ _ _ _ hc⟩

theorem defaultTail_wf (c : DCfg) (f d : Nat) (kw : Tok) (hkw : kw.isKw DK.DEFAULT = true) (ts : List Tok) (o : OptRes)
    (rest : List Tok) (h : defaultTail c f d kw ts = .ok (o, rest)) : o.WF := by
  unfold defaultTail at h
  split at h
  · simp at h
  · rename_i e r he
    simp at h; obtain ⟨rfl, rfl⟩ := h
    exact ⟨hkw, parseE_wf _ _ _ _ _ _ he⟩

theorem colOption_wf (c : DCfg) (f d : Nat) (ts : List Tok) (o : OptRes) (rest : List Tok)
    (h : colOption c f d ts = .ok (o, rest)) : o.WF := by
  unfold colOption at h
  split at h
  · simp at h
  · split at h
    · rename_i toks r hk
      simp at h; obtain ⟨rfl, rfl⟩ := h
      exact eatKws_isKwL _ _ _ _ hk
    · split at h
      · rename_i kw r hk
        exact commentTail_wf _ ((eatKw_some_iff _ _ _ _).1 hk).2 _ _ _ h
      · split at h
        · rename_i t r hk
          simp at h; obtain ⟨rfl, rfl⟩ := h
          exact ((eatKw_some_iff _ _ _ _).1 hk).2
        · split at h
          · rename_i kw r hk
            exact defaultTail_wf _ _ _ _ ((eatKw_some_iff _ _ _ _).1 hk).2 _ _ _ h
          · split at h
            · simp at h
            · split at h
              · rename_i toks r hk
                obtain ⟨rfl, rfl⟩ := ccTail_yield _ _ _ _ h
                exact eatKws_isKwL _ _ _ _ hk
              · split at h
                · rename_i t r hk
                  obtain ⟨rfl, rfl⟩ := ccTail_yield _ _ _ _ h
                  exact ((eatKw_some_iff _ _ _ _).1 hk).2
                · split at h
                  · rename_i kw r hk
                    exact referencesTail_wf _ _ _ ((eatKw_some_iff _ _ _ _).1 hk).2 _ _ _ h
                  · split at h
                    · rename_i kw r hk
                      exact checkTail_wf _ _ _ _ ((eatKw_some_iff _ _ _ _).1 hk).2 _ _ _ h
                    · exact colOptionTail_wf _ _ _ _ h

theorem colOpts_wf (c : DCfg) (f d : Nat) : ∀ (n : Nat) (ts : List Tok) (od : List ColOpt × List Tok) (rest : List Tok),
    colOpts c f d n ts = .ok (od, rest) → ∀ o ∈ od.1, o.WF := by
  intro n
  induction n with
  | zero => intro ts od rest h; simp [colOpts] at h
  | succ n ih =>
    intro ts od rest h
    simp only [colOpts] at h
    split at h
    · simp at h
    · split at h
      · simp at h
      · split at h
        · simp at h
        · simp at h; obtain ⟨rfl, rfl⟩ := h
          intro o ho; simp at ho
      · rename_i o r ho
        have h1 : o.WF := colOption_wf _ _ _ _ _ _ ho
        split at h
        · simp at h
        · rename_i od' r' hr
          have h2 := ih _ _ _ hr
          simp at h; obtain ⟨rfl, rfl⟩ := h
          intro o' ho'
          simp only [List.mem_cons] at ho'
          rcases ho' with rfl | ho'
          · exact h1
          · exact h2 _ ho'

theorem columnDef_wf (c : DCfg) (f d : Nat) (ts : List Tok) (cd : ColDef) (rest : List Tok)
    (h : columnDef c f d ts = .ok (cd, rest)) : cd.WF := by
  unfold columnDef at h
  split at h
  · simp at h
  · split at h
    · simp at h
    · split at h
      · simp at h
      · split at h
        · simp at h
        · rename_i od r2 ho
          simp at h; obtain ⟨rfl, rfl⟩ := h
          exact colOpts_wf _ _ _ _ _ _ _ ho

-- ------------------------------------------------------------------ CREATE TABLE
theorem colEnd_close_wf (tc : Bool) (ts cm : List Tok) (rp : Tok) (r : List Tok) (h : colEnd tc ts = .close cm rp r) :
    (cm = [] ∨ cm = [.sym .Comma]) ∧ rp = .sym .RParen := by
  unfold colEnd at h
  split at h
  · rename_i c1 r1 hc
    obtain ⟨-, rfl⟩ := eatSym_some hc
    split at h
    · rename_i rp' r' he
      split at he
      · obtain ⟨-, rfl⟩ := eatSym_some he
        simp at h; obtain ⟨rfl, rfl, rfl⟩ := h; exact ⟨Or.inr rfl, rfl⟩
      · simp at he
    · simp at h
  · split at h
    · rename_i rp' r' he
      obtain ⟨-, rfl⟩ := eatSym_some he
      simp at h; obtain ⟨rfl, rfl, rfl⟩ := h; exact ⟨Or.inl rfl, rfl⟩
    · simp at h

theorem colEnd_more_wf (tc : Bool) (ts cm r : List Tok) (h : colEnd tc ts = .more cm r) : cm = [.sym .Comma] := by
  unfold colEnd at h
  split at h
  · rename_i c1 r1 hc
    obtain ⟨-, rfl⟩ := eatSym_some hc
    split at h
    · simp at h
    · simp at h; obtain ⟨rfl, rfl⟩ := h; rfl
  · split at h <;> simp at h

theorem colLoop_wf (c : DCfg) (f d : Nat) : ∀ (n : Nat) (ts : List Tok) (cr : Sep ColDef × Tok) (rest : List Tok),
    colLoop c f d n ts = .ok (cr, rest) → sepWF ColDef.WF cr.1 ∧ cr.1 ≠ [] ∧ cr.2 = .sym .RParen := by
  intro n
  induction n with
  | zero => intro ts cr rest h; simp [colLoop] at h
  | succ n ih =>
    intro ts cr rest h
    simp only [colLoop] at h
    split at h
    · simp at h
    · split at h
      · simp at h
      · split at h
        · simp at h
        · rename_i cd r1 hc
          have h1 := columnDef_wf _ _ _ _ _ _ hc
          split at h
          · simp at h
          · rename_i cm rp r2 he
            have h2 := colEnd_close_wf _ _ _ _ _ he
            simp at h; obtain ⟨rfl, rfl⟩ := h
            exact ⟨⟨h1, h2.1⟩, by simp, h2.2⟩
          · rename_i cm r2 he
            have h2 := colEnd_more_wf _ _ _ _ he
            split at h
            · simp at h
            · rename_i cr' r3 hr
              obtain ⟨h3, h4, h5⟩ := ih _ _ _ hr
              simp at h; obtain ⟨rfl, rfl⟩ := h
              refine ⟨?_, by simp, h5⟩
              cases hcr : cr'.1 with
              | nil => exact absurd hcr h4
              | cons y rest' =>
                rw [hcr] at h3
                exact ⟨h1, h2, h3⟩

theorem parseColumns_wf (c : DCfg) (f d : Nat) (ts : List Tok) (cols : List Tok × Sep ColDef × List Tok) (rest : List Tok)
    (h : parseColumns c f d ts = .ok (cols, rest)) :
    ((cols.1 = [] ∧ cols.2.1 = [] ∧ cols.2.2 = []) ∨ (cols.1 = [.sym .LParen] ∧ cols.2.2 = [.sym .RParen])) ∧
      sepWF ColDef.WF cols.2.1 := by
  unfold parseColumns at h
  split at h
  · simp at h; obtain ⟨rfl, rfl⟩ := h
    exact ⟨Or.inl ⟨rfl, rfl, rfl⟩, trivial⟩
  · rename_i lp r hl
    obtain ⟨-, rfl⟩ := eatSym_some hl
    split at h
    · rename_i rp r' hr
      obtain ⟨-, rfl⟩ := eatSym_some hr
      simp at h; obtain ⟨rfl, rfl⟩ := h
      exact ⟨Or.inr ⟨rfl, rfl⟩, trivial⟩
    · split at h
      · simp at h
      · rename_i cr r' hc
        obtain ⟨h1, -, h3⟩ := colLoop_wf _ _ _ _ _ _ _ hc
        simp at h; obtain ⟨rfl, rfl⟩ := h
        exact ⟨Or.inr ⟨rfl, by simp [h3]⟩, h1⟩

theorem tempTail_wf (ts : List Tok) :
    (tempTail ts).1 = [] ∨ ∃ t, (tempTail ts).1 = [t] ∧ (t.isKw DK.TEMP = true ∨ t.isKw DK.TEMPORARY = true) := by
  unfold tempTail
  split
  · rename_i t r hk
    exact Or.inr ⟨t, rfl, Or.inl ((eatKw_some_iff _ _ _ _).1 hk).2⟩
  · rcases kwTail_wf DK.TEMPORARY ts with h | ⟨t, h1, h2⟩
    · exact Or.inl h
    · exact Or.inr ⟨t, h1, Or.inr h2⟩

theorem parseCreate_wf (c : DCfg) (f d : Nat) (kw : Tok) (hkw : kw.isKw DK.CREATE = true) (ts : List Tok) (ct : CreateTable)
    (rest : List Tok) (h : parseCreate c f d kw ts = .ok (ct, rest)) : ct.WF := by
  unfold parseCreate at h
  split at h
  · simp at h
  · split at h
    · simp at h
    · split at h
      · simp at h
      · split at h
        · split at h <;> simp at h
        · rename_i tk r0 hk
          obtain ⟨-, htk⟩ := (eatKw_some_iff _ _ _ _).1 hk
          split at h
          · simp at h
          · split at h
            · simp at h
            · split at h
              · simp at h
              · split at h
                · simp at h
                · rename_i cols r2 hc
                  have h2 := parseColumns_wf _ _ _ _ _ _ hc
                  split at h
                  · simp at h
                  · simp at h; obtain ⟨rfl, rfl⟩ := h
                    exact ⟨hkw, tempTail_wf _, htk, kwsTail_wf _ _, h2.1, h2.2⟩

-- ------------------------------------------------------------------ DROP
theorem parseDrop_wf (c : DCfg) (f : Nat) (kw : Tok) (hkw : kw.isKw DK.DROP = true) (ts : List Tok) (dr : Drop)
    (rest : List Tok) (h : parseDrop c f kw ts = .ok (dr, rest)) : dr.WF := by
  unfold parseDrop at h
  split at h
  · simp at h
  · split at h
    · split at h <;> simp at h
    · rename_i tk r0 hk
      obtain ⟨-, htk⟩ := (eatKw_some_iff _ _ _ _).1 hk
      split at h
      · simp at h
      · rename_i names r1 hn
        have h1 := names_wf _ _ _ _ _ hn
        split at h
        · simp at h
        · split at h
          · simp at h
          · simp at h; obtain ⟨rfl, rfl⟩ := h
            exact ⟨hkw, htk, kwsTail_wf _ _, h1.1, kwTail_wf _ _, kwTail_wf _ _, kwTail_wf _ _⟩

-- ------------------------------------------------------------------ statements
/-- every tree the statement parser builds is well formed -/
theorem parseStmt_wf (c : DCfg) (f limit : Nat) (ts : List Tok) (s : Stmt) (rest : List Tok)
    (h : parseStmt c f limit ts = .ok (s, rest)) : s.WF := by
  unfold parseStmt at h
  cases limit with
  | zero => simp at h
  | succ d =>
    simp only at h
    cases ts with
    | nil => simp at h
    | cons t r =>
      simp only at h
      split at h
      · obtain ⟨q, hq, rfl⟩ := mapRes_ok h
        exact (query_wf_all c.q f).1 _ _ _ _ hq
      · split at h
        · rename_i hk
          obtain ⟨v, hv, rfl⟩ := mapRes_ok h
          exact valuesQuery_wf _ _ _ _ hk _ _ _ hv
        · split at h
          · rename_i hk
            obtain ⟨v, hv, rfl⟩ := mapRes_ok h
            exact parseInsert_wf _ _ _ _ hk _ _ _ hv
          · split at h
            · rename_i hk
              obtain ⟨v, hv, rfl⟩ := mapRes_ok h
              exact parseUpdate_wf _ _ _ _ hk _ _ _ hv
            · split at h
              · rename_i hk
                obtain ⟨v, hv, rfl⟩ := mapRes_ok h
                exact parseDelete_wf _ _ _ _ hk _ _ _ hv
              · split at h
                · rename_i hk
                  obtain ⟨v, hv, rfl⟩ := mapRes_ok h
                  exact parseCreate_wf _ _ _ _ hk _ _ _ hv
                · split at h
                  · rename_i hk
                    obtain ⟨v, hv, rfl⟩ := mapRes_ok h
                    exact parseDrop_wf _ _ _ hk _ _ _ hv
                  · split at h
                    · obtain ⟨q, hq, rfl⟩ := mapRes_ok h
                      exact (query_wf_all c.q f).1 _ _ _ _ hq
                    · simp at h
                    · simp at h

/-- the FROM-item lists that `Display` re-heads begin with their keyword (for `stmt_showToks_eq_norm`) -/
theorem wf_headsOk (s : Stmt) (h : s.WF) : s.headsOk := by
  cases s with
  | update u =>
    rcases h.1 with h1 | h1
    · exact Or.inr (by rw [h1]; rfl)
    · exact Or.inl h1.1
  | delete d =>
    rcases h.2.2.2.1 with h1 | h1
    · exact Or.inr (by rw [h1]; rfl)
    · exact Or.inl h1.1
  | _ => trivial

end SqlVerif.Dml

import SqlVerif.Lemmas.DmlSim
import SqlVerif.Lemmas.DmlDTSim
/-!
The two-list form of the simulation of the statement model: on two token lists with the same image
`qc` the statement parser takes the same branches.  Two side conditions (see `Lemmas/DmlSim.lean`):

* column types are keyword types (`tyLeafNC`: the parser does not store spellings), for `CREATE TABLE`;
* where the first list has `=`, the second has `=` (not `==`), for the assignments of `UPDATE`
  (`eqOk`; it holds e.g. when the second list has no `==` at all, or when the two lists agree on `==`).
-/
namespace SqlVerif.Dml
open SqlVerif.Pratt SqlVerif.Query SqlVerif.Gen
set_option linter.unusedSimpArgs false

-- ------------------------------------------------------------------ transfer along an equal image
/-- two results related to the same result on the common image -/
theorem Rel2.two' {α : Type} {M : α → α} {x y z : Res α} (h1 : Rel2 M x z) (h2 : Rel2 M y z)
    {v : α} {r : List Tok} (h : x = .ok (v, r)) :
    ∃ v' r', y = .ok (v', r') ∧ M v' = M v ∧ r'.map qc = r.map qc := by
  subst h
  cases z with
  | error e => simp at h1
  | ok p =>
    simp at h1
    cases y with
    | error e => simp at h2
    | ok p' =>
      simp at h2
      obtain ⟨v', r'⟩ := p'
      rw [h1] at h2
      simp [mp] at h2
      exact ⟨v', r', rfl, h2.1.symm, h2.2.symm⟩

theorem Rel2.two'_err {α : Type} {M : α → α} {x y z : Res α} (h1 : Rel2 M x z) (h2 : Rel2 M y z)
    {e : Err} (h : x = .error e) : ∃ e', y = .error e' := by
  subst h
  cases z with
  | ok p => simp at h1
  | error e2 =>
    cases y with
    | error e' => exact ⟨e', rfl⟩
    | ok p' => simp at h2

section transfer
variable {a b : List Tok} (hs : a.map qc = b.map qc)
include hs

theorem sim_peekKw (k : Nat) : peekKw a k = peekKw b k := by rw [← peekKw_qc a, hs, peekKw_qc]
theorem sim_peekAnyKw (ks : List Nat) : peekAnyKw a ks = peekAnyKw b ks := by rw [← peekAnyKw_qc a, hs, peekAnyKw_qc]
theorem sim_peekWord : peekWord a = peekWord b := by rw [← peekWord_qc a, hs, peekWord_qc]
theorem sim_constraintAhead : constraintAhead a = constraintAhead b := by rw [← constraintAhead_qc a, hs, constraintAhead_qc]
theorem sim_sqliteUnspecified : sqliteUnspecified a = sqliteUnspecified b := by
  rw [← sqliteUnspecified_qc a, hs, sqliteUnspecified_qc]
theorem sim_typeHeadLeaf : typeHeadLeaf a = typeHeadLeaf b := by rw [← typeHeadLeaf_qc a, hs, typeHeadLeaf_qc]

theorem sim_eatKw (k : Nat) : (eatKw a k).map (mp qc) = (eatKw b k).map (mp qc) := by
  rw [← eatKw_qc, ← eatKw_qc, hs]
theorem sim_eatSym (s : Sym) (h1 : s ≠ .Eq) (h2 : s ≠ .DoubleEq) : (eatSym a s).map (mp qc) = (eatSym b s).map (mp qc) := by
  rw [← eatSym_qc _ _ h1 h2, ← eatSym_qc _ _ h1 h2, hs]
theorem sim_kwTail (k : Nat) : mp (List.map qc) (kwTail k a) = mp (List.map qc) (kwTail k b) := by
  rw [← kwTail_qc, ← kwTail_qc, hs]
theorem sim_kwsTail (ks : List Nat) : mp (List.map qc) (kwsTail ks a) = mp (List.map qc) (kwsTail ks b) := by
  rw [← kwsTail_qc, ← kwsTail_qc, hs]
theorem sim_tempTail : mp (List.map qc) (tempTail a) = mp (List.map qc) (tempTail b) := by
  rw [← tempTail_qc, ← tempTail_qc, hs]
theorem sim_colEnd (tc : Bool) : (colEnd tc a).mapT qc = (colEnd tc b).mapT qc := by
  rw [← colEnd_qc, ← colEnd_qc, hs]

/-- a parser that respects the image, in the two-list form -/
theorem sim_of_rel2 {α : Type} {M : α → α} {F : List Tok → Res α} (hF : ∀ ts, Rel2 M (F ts) (F (ts.map qc)))
    {v : α} {r : List Tok} (h : F a = .ok (v, r)) :
    ∃ v' r', F b = .ok (v', r') ∧ M v' = M v ∧ r'.map qc = r.map qc :=
  Rel2.two hF hs h
end transfer

-- ------------------------------------------------------------------ CREATE TABLE
theorem colTypePart_sim2 (c : DCfg) (f d : Nat) {a b : List Tok} (hs : a.map qc = b.map qc)
    {t : SqlVerif.DTy.DT} {tt r : List Tok} (h : colTypePart c f d a = .ok ((t, tt), r))
    (hl : SqlVerif.DTy.tyLeafNC t = true) :
    ∃ tt' r', colTypePart c f d b = .ok ((t, tt'), r') ∧ tt'.map qc = tt.map qc ∧ r'.map qc = r.map qc := by
  unfold colTypePart at h ⊢
  rw [← sim_sqliteUnspecified hs]
  cases hb : (c.isSQLite && sqliteUnspecified a) with
  | true =>
    simp only [hb, ↓reduceIte] at h ⊢
    simp at h
    obtain ⟨⟨rfl, rfl⟩, rfl⟩ := h
    exact ⟨[], b, rfl, rfl, hs.symm⟩
  | false =>
    simp only [hb, Bool.false_eq_true, ↓reduceIte] at h ⊢
    have hh := colType_leafNC c f d a t tt r h hl
    have h1 := colType_qc c f d a hh
    have h2 := colType_qc c f d b (by rw [← sim_typeHeadLeaf hs]; exact hh)
    rw [← hs] at h2
    obtain ⟨v', r', h3, h4, h5⟩ := Rel2.two' h1 h2 h
    obtain ⟨t', tt'⟩ := v'
    simp at h4
    obtain ⟨rfl, h4⟩ := h4
    exact ⟨tt', r', h3, h4, h5⟩

theorem columnDef_sim2 (c : DCfg) (f d : Nat) {a b : List Tok} (hs : a.map qc = b.map qc)
    {cd : ColDef} {r : List Tok} (h : columnDef c f d a = .ok (cd, r)) (hl : SqlVerif.DTy.tyLeafNC cd.ty = true) :
    ∃ cd' r', columnDef c f d b = .ok (cd', r') ∧ cd'.mapT qc = cd.mapT qc ∧ r'.map qc = r.map qc := by
  unfold columnDef at h ⊢
  split at h
  · simp at h
  · rename_i name r0 hn
    obtain ⟨name', r0', hn', e1, s1⟩ := sim_of_rel2 hs identElem_qc hn
    rw [hn']
    simp only
    split at h
    · simp at h
    · rename_i ty r1 hty
      obtain ⟨t, tt⟩ := ty
      split at h
      · simp at h
      · rename_i hcol
        split at h
        · simp at h
        · rename_i od r2 hod
          simp at h
          obtain ⟨rfl, rfl⟩ := h
          simp only at hl
          obtain ⟨tt', r1', hty', e2, s2⟩ := colTypePart_sim2 c f d s1.symm hty hl
          rw [hty']
          simp only
          rw [← sim_peekKw s2.symm]
          simp only [hcol, Bool.false_eq_true, ↓reduceIte]
          obtain ⟨od', r2', hod', e3, s3⟩ := sim_of_rel2 s2.symm (colOpts_qc c f d f) hod
          rw [hod']
          simp only [Prod.mk.injEq] at e3
          refine ⟨_, _, rfl, ?_, s3⟩
          simp [ColDef.mapT, e1, e2, e3.1, e3.2]

/-- every column has a keyword type -/
def colsLeaf (cols : Sep ColDef) : Bool := cols.all fun p => SqlVerif.DTy.tyLeafNC p.1.ty

theorem colLoop_sim2 (c : DCfg) (f d : Nat) : ∀ (n : Nat) {a b : List Tok}, a.map qc = b.map qc →
    ∀ {cr : Sep ColDef × Tok} {r : List Tok}, colLoop c f d n a = .ok (cr, r) → colsLeaf cr.1 = true →
    ∃ cr' r', colLoop c f d n b = .ok (cr', r') ∧ sepMap (ColDef.mapT qc) qc cr'.1 = sepMap (ColDef.mapT qc) qc cr.1 ∧
      qc cr'.2 = qc cr.2 ∧ r'.map qc = r.map qc := by
  intro n
  induction n with
  | zero => intro a b _ cr r h; simp [colLoop] at h
  | succ n ih =>
    intro a b hs cr r h hl
    simp only [colLoop] at h ⊢
    rw [← sim_constraintAhead hs, ← sim_peekWord hs]
    split at h
    · simp at h
    · rename_i hca
      split at h
      · simp at h
      · rename_i hpw
        simp only [hca, hpw, Bool.false_eq_true, ↓reduceIte]
        split at h
        · simp at h
        · rename_i cd r1 hcd
          split at h
          · simp at h
          · rename_i cm rp r2 hend
            simp at h
            obtain ⟨rfl, rfl⟩ := h
            simp only [colsLeaf, List.all_cons, List.all_nil, Bool.and_true] at hl
            obtain ⟨cd', r1', hcd', e1, s1⟩ := columnDef_sim2 c f d hs hcd hl
            rw [hcd']
            simp only
            have := sim_colEnd s1.symm c.tc
            rw [hend] at this
            cases hend' : colEnd c.tc r1' with
            | bad => rw [hend'] at this; simp [ColEnd.mapT] at this
            | more cm' r2' => rw [hend'] at this; simp [ColEnd.mapT] at this
            | close cm' rp' r2' =>
              rw [hend'] at this
              simp only [ColEnd.mapT, ColEnd.close.injEq] at this
              refine ⟨_, _, rfl, ?_, this.2.1.symm, this.2.2.symm⟩
              simp [sepMap, e1, this.1]
          · rename_i cm r2 hend
            split at h
            · simp at h
            · rename_i cr0 r3 hrec
              simp at h
              obtain ⟨rfl, rfl⟩ := h
              simp only [colsLeaf, List.all_cons, Bool.and_eq_true] at hl
              obtain ⟨cd', r1', hcd', e1, s1⟩ := columnDef_sim2 c f d hs hcd hl.1
              rw [hcd']
              simp only
              have := sim_colEnd s1.symm c.tc
              rw [hend] at this
              cases hend' : colEnd c.tc r1' with
              | bad => rw [hend'] at this; simp [ColEnd.mapT] at this
              | close cm' rp' r2' => rw [hend'] at this; simp [ColEnd.mapT] at this
              | more cm' r2' =>
                rw [hend'] at this
                simp only [ColEnd.mapT, ColEnd.more.injEq] at this
                obtain ⟨cr0', r3', hrec', e2, e3, s3⟩ := ih this.2 hrec (by simpa [colsLeaf] using hl.2)
                simp only
                rw [hrec']
                refine ⟨_, _, rfl, ?_, e3, s3⟩
                simp [sepMap, e1, this.1] at e2 ⊢
                exact e2

theorem parseColumns_sim2 (c : DCfg) (f d : Nat) {a b : List Tok} (hs : a.map qc = b.map qc)
    {cols : List Tok × Sep ColDef × List Tok} {r : List Tok} (h : parseColumns c f d a = .ok (cols, r))
    (hl : colsLeaf cols.2.1 = true) :
    ∃ cols' r', parseColumns c f d b = .ok (cols', r') ∧ cols'.1.map qc = cols.1.map qc ∧
      sepMap (ColDef.mapT qc) qc cols'.2.1 = sepMap (ColDef.mapT qc) qc cols.2.1 ∧ cols'.2.2.map qc = cols.2.2.map qc ∧
      r'.map qc = r.map qc := by
  unfold parseColumns at h ⊢
  have hlp := sim_eatSym hs .LParen LP_ne.1 LP_ne.2
  cases h1 : eatSym a .LParen with
  | none =>
    rw [h1] at h hlp
    simp at h
    obtain ⟨rfl, rfl⟩ := h
    cases h1' : eatSym b .LParen with
    | some p => rw [h1'] at hlp; simp at hlp
    | none => exact ⟨_, _, rfl, rfl, rfl, rfl, hs.symm⟩
  | some p =>
    obtain ⟨lp, r0⟩ := p
    rw [h1] at h hlp
    cases h1' : eatSym b .LParen with
    | none => rw [h1'] at hlp; simp at hlp
    | some p' =>
      obtain ⟨lp', r0'⟩ := p'
      rw [h1'] at hlp
      simp [mp] at hlp
      simp only at h ⊢
      have hrp := sim_eatSym hlp.2 .RParen RP_ne.1 RP_ne.2
      cases h2 : eatSym r0 .RParen with
      | some q =>
        obtain ⟨rp, r1⟩ := q
        rw [h2] at h hrp
        simp at h
        obtain ⟨rfl, rfl⟩ := h
        cases h2' : eatSym r0' .RParen with
        | none => rw [h2'] at hrp; simp at hrp
        | some q' =>
          obtain ⟨rp', r1'⟩ := q'
          rw [h2'] at hrp
          simp [mp] at hrp
          exact ⟨_, _, rfl, by simp [hlp.1], rfl, by simp [hrp.1], hrp.2.symm⟩
      | none =>
        rw [h2] at h hrp
        cases h2' : eatSym r0' .RParen with
        | some q' => rw [h2'] at hrp; simp at hrp
        | none =>
          simp only at h ⊢
          split at h
          · simp at h
          · rename_i cr r1 hloop
            simp at h
            obtain ⟨rfl, rfl⟩ := h
            obtain ⟨cr', r1', hloop', e1, e2, s1⟩ := colLoop_sim2 c f d f hlp.2 hloop hl
            rw [hloop']
            exact ⟨_, _, rfl, by simp [hlp.1], e1, by simp [e2], s1⟩

theorem sim_bqnf {name name' r r' : List Tok} (h1 : name'.map qc = name.map qc) (h2 : r'.map qc = r.map qc) :
    bigQueryNameForeign name' r' = bigQueryNameForeign name r := by
  rw [← bigQueryNameForeign_qc name' r', h1, h2, bigQueryNameForeign_qc]

theorem parseCreate_sim2 (c : DCfg) (f d : Nat) {kw kw' : Tok} (hk : qc kw' = qc kw) {a b : List Tok}
    (hs : a.map qc = b.map qc) {ct : CreateTable} {r : List Tok} (h : parseCreate c f d kw a = .ok (ct, r))
    (hl : colsLeaf ct.cols = true) :
    ∃ ct' r', parseCreate c f d kw' b = .ok (ct', r') ∧ ct'.mapT qc = ct.mapT qc ∧ r'.map qc = r.map qc := by
  unfold parseCreate at h ⊢
  have ht := sim_tempTail hs
  generalize tempTail a = A at *
  generalize tempTail b = B at *
  obtain ⟨a1, a2⟩ := A
  obtain ⟨b1, b2⟩ := B
  simp only [mp, Prod.mk.injEq] at ht
  obtain ⟨ht1, ht2⟩ := ht
  rw [← show createHeadForeign a = createHeadForeign b by rw [← createHeadForeign_qc a, hs, createHeadForeign_qc],
    ← sim_peekKw ht2, ← show createOtherObject a2 = createOtherObject b2 by
      rw [← createOtherObject_qc a2, ht2, createOtherObject_qc]]
  simp only at h ⊢
  split at h
  · simp at h
  · rename_i h1
    split at h
    · simp at h
    · rename_i h2
      split at h
      · simp at h
      · rename_i h3
        simp only [h1, h2, h3, Bool.false_eq_true, ↓reduceIte]
        have hk1 := sim_eatKw ht2 DK.TABLE
        cases e1 : eatKw a2 DK.TABLE with
        | none => rw [e1] at h; simp only at h; split at h <;> simp at h
        | some p =>
          obtain ⟨tk, r0⟩ := p
          rw [e1] at h hk1
          cases e1' : eatKw b2 DK.TABLE with
          | none => rw [e1'] at hk1; simp at hk1
          | some p' =>
            obtain ⟨tk', r0'⟩ := p'
            rw [e1'] at hk1
            simp [mp] at hk1
            obtain ⟨hk2, hk3⟩ := hk1
            simp only at h ⊢
            have hi := sim_kwsTail hk3 [DK.IF, DK.NOT, DK.EXISTS]
            generalize kwsTail [DK.IF, DK.NOT, DK.EXISTS] r0 = I at *
            generalize kwsTail [DK.IF, DK.NOT, DK.EXISTS] r0' = I' at *
            obtain ⟨i1, i2⟩ := I
            obtain ⟨j1, j2⟩ := I'
            simp only [mp, Prod.mk.injEq] at hi
            obtain ⟨hi1, hi2⟩ := hi
            simp only at h ⊢
            split at h
            · simp at h
            · rename_i name r1 hn
              obtain ⟨name', r1', hn', en, sn⟩ := sim_of_rel2 hi2 nameElem_qc hn
              rw [hn']
              simp only
              rw [sim_bqnf en sn, ← show afterCreateNameForeign r1 = afterCreateNameForeign r1' by
                rw [← afterCreateNameForeign_qc r1, ← sn, afterCreateNameForeign_qc]]
              split at h
              · simp at h
              · rename_i h4
                split at h
                · simp at h
                · rename_i h5
                  simp only [h4, h5, Bool.false_eq_true, ↓reduceIte]
                  split at h
                  · simp at h
                  · rename_i cols r2 hc
                    split at h
                    · simp at h
                    · rename_i h6
                      simp at h
                      obtain ⟨rfl, rfl⟩ := h
                      simp only at hl
                      obtain ⟨cols', r2', hc', c1, c2, c3, sc⟩ := parseColumns_sim2 c f d sn.symm hc hl
                      rw [hc']
                      simp only
                      rw [← show createTailForeign r2 = createTailForeign r2' by
                        rw [← createTailForeign_qc r2, ← sc, createTailForeign_qc]]
                      simp only [h6, Bool.false_eq_true, ↓reduceIte]
                      refine ⟨_, _, rfl, ?_, sc⟩
                      simp [CreateTable.mapT, hk, ht1, hk2, hi1, en, c1, c2, c3]

-- ------------------------------------------------------------------ UPDATE: `=` is not `==` in an assignment
theorem qc_eq_comma {t : Tok} (h : qc t = .sym .Comma) : t = .sym .Comma := by
  cases t with
  | sym s => cases s <;> simp_all [qc]
  | word v q kw => cases kw <;> simp [qc] at h
  | _ => simp [qc] at h

/-- where the first list has `=`, the second has `=` (position by position) -/
def eqOk (a b : List Tok) : Bool := (a.zip b).all fun p => p.1 != .sym .Eq || p.2 == .sym .Eq

theorem eqOk_suffix {a b p p' r r' : List Tok} (ha : a = p ++ r) (hb : b = p' ++ r') (hl : p.length = p'.length)
    (h : eqOk a b = true) : eqOk r r' = true := by
  subst ha; subst hb
  unfold eqOk at h ⊢
  rw [List.zip_append hl, List.all_append, Bool.and_eq_true] at h
  exact h.2

theorem eqOk_cons {x y : Tok} {l l' : List Tok} (h : eqOk (x :: l) (y :: l') = true) : eqOk l l' = true := by
  unfold eqOk at h ⊢
  simp only [List.zip_cons_cons, List.all_cons, Bool.and_eq_true] at h
  exact h.2

theorem eqOk_head {y : Tok} {l l' : List Tok} (h : eqOk (.sym .Eq :: l) (y :: l') = true) : y = .sym .Eq := by
  unfold eqOk at h
  simp only [List.zip_cons_cons, List.all_cons, Bool.and_eq_true] at h
  simpa using h.1

theorem eqOk_of_noDE {a b : List Tok} (hs : a.map qc = b.map qc) (hb : ∀ t ∈ b, t ≠ .sym .DoubleEq) : eqOk a b = true := by
  induction a generalizing b with
  | nil => simp [eqOk]
  | cons x l ih =>
    cases b with
    | nil => simp [eqOk]
    | cons y l' =>
      simp only [List.map_cons, List.cons.injEq] at hs
      unfold eqOk
      simp only [List.zip_cons_cons, List.all_cons, Bool.and_eq_true]
      refine ⟨?_, ih hs.2 (fun t ht => hb t (List.mem_cons_of_mem _ ht))⟩
      by_cases hx : x = .sym .Eq
      · subst hx
        have hy := hs.1
        have hne := hb y (List.mem_cons_self ..)
        cases y with
        | sym s => cases s <;> simp_all [qc]
        | word v q kw => cases kw <;> simp [qc] at hy
        | _ => simp [qc] at hy
      · simp [hx]

/-- one step of a two-list proof with the `=` condition: a parser that respects the image and
consumes a prefix -/
theorem tsim_step {α : Type} {M : α → α} {F : List Tok → Res α} (hF : ∀ ts, Rel2 M (F ts) (F (ts.map qc)))
    (hy : ∀ ts v r, F ts = .ok (v, r) → ∃ p, ts = p ++ r) {a b : List Tok} (hs : a.map qc = b.map qc)
    (he : eqOk a b = true) {v : α} {r : List Tok} (h : F a = .ok (v, r)) :
    ∃ v' r', F b = .ok (v', r') ∧ M v' = M v ∧ r'.map qc = r.map qc ∧ eqOk r r' = true := by
  obtain ⟨v', r', h', e1, s1⟩ := Rel2.two hF hs h
  refine ⟨v', r', h', e1, s1, ?_⟩
  obtain ⟨p, hp⟩ := hy _ _ _ h
  obtain ⟨p', hp'⟩ := hy _ _ _ h'
  have l1 := len_of_map hs
  have l2 := len_of_map s1
  have l3 : p.length = p'.length := by
    have := congrArg List.length hp
    have := congrArg List.length hp'
    simp at *
    omega
  exact eqOk_suffix hp hp' l3 he

theorem assignment_sim2 (c : DCfg) (f d : Nat) {a b : List Tok} (hs : a.map qc = b.map qc) (he : eqOk a b = true)
    {v : Assign} {r : List Tok} (h : assignment c f d a = .ok (v, r)) :
    ∃ v' r', assignment c f d b = .ok (v', r') ∧ v'.mapT qc = v.mapT qc ∧ r'.map qc = r.map qc ∧ eqOk r r' = true := by
  unfold assignment at h ⊢
  split at h
  · simp at h
  · rename_i tg r1 htg
    obtain ⟨tg', r1', htg', e1, s1, q1⟩ :=
      tsim_step (assignTarget_qc c f) (fun ts v r h => ⟨_, assignTarget_yield c f ts v r h⟩) hs he htg
    rw [htg']
    simp only
    split at h
    · simp at h
    · rename_i eq r2 heq
      obtain ⟨rfl, rfl⟩ := eatSym_some heq
      cases r1' with
      | nil => simp at s1
      | cons y r2' =>
        have := eqOk_head q1
        subst this
        simp only [List.map_cons, List.cons.injEq] at s1
        simp only [eatSym, Tok.isSym, beq_self_eq_true, ↓reduceIte]
        split at h
        · simp at h
        · rename_i e r3 hex
          simp at h
          obtain ⟨rfl, rfl⟩ := h
          obtain ⟨e', r3', hex', e2, s2, q2⟩ :=
            tsim_step (parseE_qc c.q f d) (fun ts v r h => ⟨_, parseE_yield c.q f d ts v r h⟩) s1.2.symm (eqOk_cons q1) hex
          rw [hex']
          refine ⟨_, _, rfl, ?_, s2, q2⟩
          simp [Assign.mapT, e1, e2]

theorem sim_listEnds {a b : List Tok} (hs : a.map qc = b.map qc) : listEnds a = listEnds b := by
  rw [← listEnds_qc a, hs, listEnds_qc]

theorem commaSepE_sim2 {α : Type} (tc : Bool) (elem : List Tok → Res α) (M : α → α)
    (hel : ∀ {a b : List Tok}, a.map qc = b.map qc → eqOk a b = true → ∀ {v : α} {r : List Tok}, elem a = .ok (v, r) →
      ∃ v' r', elem b = .ok (v', r') ∧ M v' = M v ∧ r'.map qc = r.map qc ∧ eqOk r r' = true) :
    ∀ (n : Nat) {a b : List Tok}, a.map qc = b.map qc → eqOk a b = true → ∀ {vs : Sep α} {r : List Tok},
      commaSepE tc elem n a = .ok (vs, r) →
      ∃ vs' r', commaSepE tc elem n b = .ok (vs', r') ∧ sepMap M qc vs' = sepMap M qc vs ∧ r'.map qc = r.map qc ∧
        eqOk r r' = true := by
  intro n
  induction n with
  | zero => intro a b _ _ vs r h; simp [commaSepE] at h
  | succ n ih =>
    intro a b hs he vs r h
    simp only [commaSepE] at h ⊢
    split at h
    · simp at h
    · rename_i v r1 hv
      obtain ⟨v', r1', hv', e1, s1, q1⟩ := hel hs he hv
      rw [hv']
      simp only
      split at h
      · rename_i r2
        cases r1' with
        | nil => simp at s1
        | cons y r2' =>
          simp only [List.map_cons, List.cons.injEq] at s1
          have hy : y = .sym .Comma := qc_eq_comma s1.1
          subst hy
          simp only
          rw [← sim_listEnds s1.2.symm]
          split at h
          · rename_i hle
            simp at h
            obtain ⟨rfl, rfl⟩ := h
            simp only [hle, ↓reduceIte]
            exact ⟨_, _, rfl, by simp [sepMap, e1], s1.2, eqOk_cons q1⟩
          · rename_i hle
            simp only [hle, Bool.false_eq_true, ↓reduceIte]
            split at h
            · simp at h
            · rename_i vs0 r3 hrec
              simp at h
              obtain ⟨rfl, rfl⟩ := h
              obtain ⟨vs0', r3', hrec', e2, s2, q2⟩ := ih s1.2.symm (eqOk_cons q1) hrec
              rw [hrec']
              exact ⟨_, _, rfl, by simp [sepMap, e1] at e2 ⊢; exact e2, s2, q2⟩
      · rename_i hnc
        simp at h
        obtain ⟨rfl, rfl⟩ := h
        have : ∀ rest', r1' ≠ .sym .Comma :: rest' := by
          intro rest' hr
          subst hr
          cases r1 with
          | nil => simp at s1
          | cons x l =>
            simp only [List.map_cons, List.cons.injEq] at s1
            have hx : x = .sym .Comma := qc_eq_comma s1.1.symm
            exact hnc l (by rw [hx])
        split
        · exact absurd rfl (this _)
        · exact ⟨_, _, rfl, by simp [sepMap, e1], s1, q1⟩

theorem tsim_step' {α : Type} {M : α → α} {x y z : Res α} (h1 : Rel2 M x z) (h2 : Rel2 M y z) {A B : List Tok}
    (hs : A.map qc = B.map qc) (he : eqOk A B = true) (hya : ∀ v r, x = .ok (v, r) → ∃ p, A = p ++ r)
    (hyb : ∀ v r, y = .ok (v, r) → ∃ p, B = p ++ r) {v : α} {r : List Tok} (h : x = .ok (v, r)) :
    ∃ v' r', y = .ok (v', r') ∧ M v' = M v ∧ r'.map qc = r.map qc ∧ eqOk r r' = true := by
  obtain ⟨v', r', h', e1, s1⟩ := Rel2.two' h1 h2 h
  refine ⟨v', r', h', e1, s1, ?_⟩
  obtain ⟨p, hp⟩ := hya _ _ h
  obtain ⟨p', hp'⟩ := hyb _ _ h'
  have l1 := len_of_map hs
  have l2 := len_of_map s1
  have l3 : p.length = p'.length := by
    have := congrArg List.length hp
    have := congrArg List.length hp'
    simp at *
    omega
  exact eqOk_suffix hp hp' l3 he

theorem sim_isKw {t t' : Tok} (h : qc t' = qc t) (k : Nat) : t'.isKw k = t.isKw k := by
  rw [← qc_isKw t', h, qc_isKw]

theorem parseUpdate_sim2 (c : DCfg) (f d : Nat) {kw kw' : Tok} (hk : qc kw' = qc kw) {a b : List Tok}
    (hs : a.map qc = b.map qc) (he : eqOk (kw :: a) (kw' :: b) = true) {u : Update} {r : List Tok}
    (h : parseUpdate c f d kw a = .ok (u, r)) :
    ∃ u' r', parseUpdate c f d kw' b = .ok (u', r') ∧ u'.mapT qc = u.mapT qc ∧ r'.map qc = r.map qc := by
  unfold parseUpdate at h ⊢
  split at h
  · simp at h
  · rename_i tbl r1 htb
    have h1 := twj_qc c.q f d (.from kw) a
    have h2 := twj_qc c.q f d (.from kw') b
    simp only [Conn.mapT, hk, ← hs] at h1 h2
    obtain ⟨tbl', r1', htb', e1, s1, q1⟩ := tsim_step' (A := kw :: a) (B := kw' :: b) h1 h2 (by simp [hk, hs]) he
      (fun v r h => ⟨_, by simpa [Conn.toks] using twj_yield c.q f d _ _ _ _ h⟩)
      (fun v r h => ⟨_, by simpa [Conn.toks] using twj_yield c.q f d _ _ _ _ h⟩) htb
    rw [htb']
    simp only
    have hk1 := sim_eatKw s1.symm DK.SET
    cases e2 : eatKw r1 DK.SET with
    | none => rw [e2] at h; simp at h
    | some p =>
      obtain ⟨setKw, r2⟩ := p
      rw [e2] at h hk1
      obtain ⟨rfl, -⟩ := (eatKw_some_iff _ _ _ _).1 e2
      cases e2' : eatKw r1' DK.SET with
      | none => rw [e2'] at hk1; simp at hk1
      | some p' =>
        obtain ⟨setKw', r2'⟩ := p'
        rw [e2'] at hk1
        obtain ⟨rfl, -⟩ := (eatKw_some_iff _ _ _ _).1 e2'
        simp [mp] at hk1
        simp only at h ⊢
        split at h
        · simp at h
        · rename_i as r3 has
          obtain ⟨as', r3', has', e3, s3, -⟩ :=
            commaSepE_sim2 c.tc (assignment c f d) (Assign.mapT qc) (fun hs he _ _ h => assignment_sim2 c f d hs he h) f
              hk1.2 (eqOk_cons q1) has
          rw [has']
          simp only
          split at h
          · simp at h
          · rename_i fr r4 hfr
            obtain ⟨fr', r4', hfr', e4, s4⟩ := sim_of_rel2 s3.symm (updateFromPart_qc c f d) hfr
            rw [hfr']
            simp only
            split at h
            · simp at h
            · rename_i w r5 hw
              obtain ⟨w', r5', hw', e5, s5⟩ := sim_of_rel2 s4.symm (kwExprPart_qc c.q f d DK.WHERE) hw
              rw [hw']
              simp only
              split at h
              · simp at h
              · rename_i ret r6 hret
                obtain ⟨ret', r6', hret', e6, s6⟩ := sim_of_rel2 s5.symm (retPart_qc c f d) hret
                rw [hret']
                simp at h
                obtain ⟨rfl, rfl⟩ := h
                simp only [Prod.mk.injEq] at e4 e5 e6
                refine ⟨_, _, rfl, ?_, s6⟩
                simp [Update.mapT, e1, hk1.1, e3, e4.1, e4.2, e5.1, e5.2, e6.1, e6.2]

-- ------------------------------------------------------------------ the dispatcher
/-- every column type of a `CREATE TABLE` is a keyword type -/
def Stmt.typesLeaf : Stmt → Bool
  | .createTable ct => colsLeaf ct.cols
  | _ => true

def Stmt.isUpdate : Stmt → Bool
  | .update _ => true
  | _ => false

theorem mapRes_sim {α : Type} {M : α → α} {g : α → Stmt} {x y : Res α} {v : α} {r : List Tok}
    (_hx : x = .ok (v, r)) (hg : ∀ v v', M v' = M v → (g v').mapT qc = (g v).mapT qc)
    (h : ∃ v' r', y = .ok (v', r') ∧ M v' = M v ∧ r'.map qc = r.map qc) :
    ∃ s' r', mapRes g y = .ok (s', r') ∧ s'.mapT qc = (g v).mapT qc ∧ r'.map qc = r.map qc := by
  obtain ⟨v', r', hy, e, s⟩ := h
  exact ⟨g v', r', by rw [hy]; rfl, hg _ _ e, s⟩

/-- **the statement parser takes the same branches on two token lists with the same image**, given that
the column types are keyword types and — for `UPDATE` — that `=` is `=` in both lists -/
theorem parseStmt_sim2 (c : DCfg) (f limit : Nat) {a b : List Tok} (hs : a.map qc = b.map qc) {s : Stmt} {r : List Tok}
    (h : parseStmt c f limit a = .ok (s, r)) (hl : s.typesLeaf = true) (he : s.isUpdate = true → eqOk a b = true) :
    ∃ s' r', parseStmt c f limit b = .ok (s', r') ∧ s'.mapT qc = s.mapT qc ∧ r'.map qc = r.map qc := by
  unfold parseStmt at h ⊢
  cases limit with
  | zero => simp at h
  | succ d =>
    simp only at h ⊢
    cases a with
    | nil => simp at h
    | cons t ra =>
      cases b with
      | nil => simp at hs
      | cons t' rb =>
        simp only [List.map_cons, List.cons.injEq] at hs
        obtain ⟨ht, hr⟩ := hs
        have hfull : (t :: ra).map qc = (t' :: rb).map qc := by simp [ht, hr]
        simp only [sim_isKw ht.symm] at h ⊢
        split at h
        · rename_i hk
          rw [if_pos hk]
          obtain ⟨q, hq, rfl⟩ := mapRes_ok h
          exact mapRes_sim (M := Query.mapT qc) (g := fun q => Stmt.query (Source.query q)) hq
            (fun v v' e => by simp [Stmt.mapT, Source.mapT, e]) (sim_of_rel2 hfull ((query_qc_all c.q f).1 d) hq)
        rename_i hk
        rw [if_neg hk]
        split at h
        · rename_i hk
          rw [if_pos hk]
          obtain ⟨v, hv, rfl⟩ := mapRes_ok h
          have h1 := valuesQuery_qc c f d t ra
          have h2 := valuesQuery_qc c f d t' rb
          rw [← ht, ← hr] at h2
          exact mapRes_sim (M := ValuesQ.mapT qc) (g := fun v => Stmt.query (Source.values v)) hv
            (fun v v' e => by simp [Stmt.mapT, Source.mapT, e]) (Rel2.two' h1 h2 hv)
        rename_i hk
        rw [if_neg hk]
        split at h
        · rename_i hk
          rw [if_pos hk]
          obtain ⟨v, hv, rfl⟩ := mapRes_ok h
          have h1 := parseInsert_qc c f d t ra
          have h2 := parseInsert_qc c f d t' rb
          rw [← ht, ← hr] at h2
          exact mapRes_sim (M := Insert.mapT qc) (g := Stmt.insert) hv (fun v v' e => by simp [Stmt.mapT, e])
            (Rel2.two' h1 h2 hv)
        rename_i hk
        rw [if_neg hk]
        split at h
        · rename_i hk
          rw [if_pos hk]
          obtain ⟨v, hv, rfl⟩ := mapRes_ok h
          exact mapRes_sim (M := Update.mapT qc) (g := Stmt.update) hv (fun v v' e => by simp [Stmt.mapT, e])
            (parseUpdate_sim2 c f d ht.symm hr (he rfl) hv)
        rename_i hk
        rw [if_neg hk]
        split at h
        · rename_i hk
          rw [if_pos hk]
          obtain ⟨v, hv, rfl⟩ := mapRes_ok h
          have h1 := parseDelete_qc c f d t ra
          have h2 := parseDelete_qc c f d t' rb
          rw [← ht, ← hr] at h2
          exact mapRes_sim (M := Delete.mapT qc) (g := Stmt.delete) hv (fun v v' e => by simp [Stmt.mapT, e])
            (Rel2.two' h1 h2 hv)
        rename_i hk
        rw [if_neg hk]
        split at h
        · rename_i hk
          rw [if_pos hk]
          obtain ⟨v, hv, rfl⟩ := mapRes_ok h
          exact mapRes_sim (M := CreateTable.mapT qc) (g := Stmt.createTable) hv (fun v v' e => by simp [Stmt.mapT, e])
            (parseCreate_sim2 c f d ht.symm hr hv hl)
        rename_i hk
        rw [if_neg hk]
        split at h
        · rename_i hk
          rw [if_pos hk]
          obtain ⟨v, hv, rfl⟩ := mapRes_ok h
          have h1 := parseDrop_qc c f t ra
          have h2 := parseDrop_qc c f t' rb
          rw [← ht, ← hr] at h2
          exact mapRes_sim (M := Drop.mapT qc) (g := Stmt.drop) hv (fun v v' e => by simp [Stmt.mapT, e])
            (Rel2.two' h1 h2 hv)
        rename_i hk
        rw [if_neg hk]
        split at h
        · obtain ⟨q, hq, rfl⟩ := mapRes_ok h
          have : t' = .sym .LParen := by
            have ht' : qc t' = .sym .LParen := ht.symm
            cases t' with
            | sym s => cases s <;> simp_all [qc]
            | word v q kw => cases kw <;> simp [qc] at ht'
            | _ => simp [qc] at ht'
          subst this
          exact mapRes_sim (M := Query.mapT qc) (g := fun q => Stmt.query (Source.query q)) hq
            (fun v v' e => by simp [Stmt.mapT, Source.mapT, e]) (sim_of_rel2 hfull ((query_qc_all c.q f).1 d) hq)
        · simp at h
        · simp at h

end SqlVerif.Dml

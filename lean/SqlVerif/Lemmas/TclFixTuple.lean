import SqlVerif.Lemmas.TclFixVar
/-!
C01 (parse → print → parse) on `SET [LOCAL | SESSION | HIVEVAR :] (a, b) = | TO (v1, v2)` (the parenthesised tuple target
`.many` of `Model/Tcl.lean`, only where `supports_parenthesized_set_variables`), completing `Lemmas/TclFixVar.lean`:

* `vt_ids_reparse`   the printed identifier list is read back as `sepNorm id ids` in front of any non-comma token (a
                     trailing comma of the source is dropped; no hypothesis on `ids` is needed);
* `fixVar_tuple`     the statement, every modifier.  The `SESSION`-dropped caveat of `fixVar_set` does not arise: the
                     printed target begins with `(`.
-/
set_option linter.unusedSimpArgs false
namespace SqlVerif.Tcl
open SqlVerif.Pratt SqlVerif.Query SqlVerif.Dml SqlVerif.Ddl SqlVerif.Gen

theorem vt_identElem_some {ts : List Tok} {n : Tok} {r : List Tok} (h : identElem ts = .ok (n, r)) :
    ts = n :: r ∧ isIdentTok n = true := by
  unfold identElem at h
  split at h
  · simp at h
  · split at h
    · rename_i hi
      simp at h; obtain ⟨rfl, rfl⟩ := h; exact ⟨rfl, hi⟩
    · simp at h

theorem vt_identElem_one {n : Tok} (h : isIdentTok n = true) (r : List Tok) : identElem (n :: r) = .ok (n, r) := by
  simp [identElem, h]

/-- the printed identifier list is read back (each token is kept; a source trailing comma is dropped) -/
theorem vt_ids_reparse (tc : Bool) : ∀ (n : Nat) {a : List Tok} {ids : Sep Tok} {r r' : List Tok},
    commaSepE tc identElem n a = .ok (ids, r) → (∀ x, r' ≠ .sym .Comma :: x) →
    commaSepE tc identElem n (sepFlat (fun t => [t]) (sepNorm id ids) ++ r') = .ok (sepNorm id ids, r') := by
  intro n
  induction n with
  | zero => intro a ids r r' h; simp [commaSepE] at h
  | succ n ih =>
    intro a ids r r' h hr
    simp only [commaSepE] at h
    split at h
    · simp at h
    · rename_i v r1 hv
      obtain ⟨-, hi⟩ := vt_identElem_some hv
      split at h
      · rename_i r2
        split at h
        · simp at h
          obtain ⟨rfl, rfl⟩ := h
          simp only [sepNorm, sepFlat, id, List.append_nil, List.cons_append, List.nil_append, commaSepE]
          rw [vt_identElem_one hi]
          simp only
        · rename_i hle0
          split at h
          · simp at h
          · rename_i vs0 r3 hrec
            simp at h
            obtain ⟨rfl, rfl⟩ := h
            have hne : vs0 ≠ [] := (commaSepE_wf _ _ (fun _ => True) (fun _ _ _ _ => trivial) _ _ _ _ hrec).2
            cases vs0 with
            | nil => exact absurd rfl hne
            | cons y rest0 =>
              have hrec' := ih hrec hr
              have hy0 := commaSepE_yield _ _ (fun t => [t]) (fun ts v rest hv => by simpa using identElem_yield ts v rest hv)
                _ _ _ _ hrec
              have hle : listEnds (sepFlat (fun t => [t]) (sepNorm id (y :: rest0)) ++ r') = listEnds r2 := by
                rw [hy0]
                cases rest0 <;> simp [sepNorm, sepFlat, listEnds]
              simp only [sepNorm, sepFlat, id, List.append_assoc, List.cons_append, List.nil_append, commaSepE]
              rw [vt_identElem_one hi]
              simp only [sepNorm, sepFlat, id, List.append_assoc, List.cons_append, List.nil_append] at hle hrec' ⊢
              rw [hle]
              simp only [hle0, Bool.false_eq_true, ↓reduceIte]
              rw [hrec']
      · rename_i hnc
        simp at h
        obtain ⟨rfl, rfl⟩ := h
        simp only [sepNorm, sepFlat, id, List.append_nil, List.cons_append, List.nil_append, commaSepE]
        rw [vt_identElem_one hi]
        simp only

def Stmt.tupleNormal : Stmt → Bool
  | .setVar _ _ _ (.many _ _ _) _ _ vs _ => sepNormal (fun _ => true) vs
  | _ => false

/-- the printed identifier list -/
def vt_idsT (ids : Sep Tok) : List Tok := sepFlat (fun t => [t]) (sepNorm id ids)

/-- the printed values -/
def vt_valsT (vs : Sep Expr) : List Tok := sepFlat Expr.flatten (sepNorm Expr.norm vs)

/-- the printed statement from the variable on -/
def vt_body (ids : Sep Tok) (vs : Sep Expr) : List Tok :=
  .sym .LParen :: (vt_idsT ids ++ .sym .RParen :: .sym .Eq :: .sym .LParen :: (vt_valsT vs ++ [.sym .RParen]))

theorem vt_showToks (kw : Tok) (md colon : List Tok) (lp0 : Tok) (ids : Sep Tok) (rp0 : Tok) (eq : Tok) (lp : List Tok)
    (vs : Sep Expr) (rp : List Tok) :
    (Stmt.setVar kw md colon (.many lp0 ids rp0) eq lp vs rp).showToks =
      kwT "SET" :: ((if isLocal md then [kwT "LOCAL"] else []) ++ ((if isHivevar md then [kwT "HIVEVAR", .sym .Colon] else []) ++
        vt_body ids vs)) := by
  have hv : toksOf (sepPieces Expr.pieces vs) = sepFlat Expr.flatten (sepNorm Expr.norm vs) :=
    toksOf_sepPieces Expr.pieces Expr.flatten Expr.norm (fun v => showToks_eq v) vs
  have hi : toksOf (sepPieces (fun t => [idPiece false t]) ids) = sepFlat (fun t => [t]) (sepNorm id ids) :=
    toksOf_sepPieces (fun t => [idPiece false t]) (fun t => [t]) id (fun v => by simp [toksOf, idPiece_tok]) ids
  have htg : toksOf (SetTarget.many lp0 ids rp0).pieces =
      .sym .LParen :: (sepFlat (fun t => [t]) (sepNorm id ids) ++ [.sym .RParen]) := by
    simp only [SetTarget.pieces, Pratt.toksOf_append, Pratt.toksOf_glued, hi]
    simp [toksOf]
  show toksOf (setVarPieces md (.many lp0 ids rp0) vs) = _
  have hm : (SetTarget.many lp0 ids rp0).isMany = true := rfl
  generalize SetTarget.many lp0 ids rp0 = tg at htg hm
  unfold setVarPieces localPieces vt_body vt_idsT vt_valsT
  simp only [hm, if_true, Pratt.toksOf_append, Pratt.toksOf_spaced, Pratt.toksOf_glued, hv, htg]
  have hs := Pratt.toksOf_spaced tg.pieces
  have hg := Pratt.toksOf_glued tg.pieces
  rw [htg] at hs hg
  simp only [toksOf] at hs hg
  cases isLocal md <;> cases isHivevar md <;> simp [toksOf, hs, hg]

theorem vt_setTarget_reparse (c : TCfg) (f : Nat) {r0 r1 : List Tok} {lp0 rp0 : Tok} {ids : Sep Tok}
    (h : setTarget c f r0 = .ok (.many lp0 ids rp0, r1)) (X : List Tok) :
    setTarget c f (.sym .LParen :: (vt_idsT ids ++ .sym .RParen :: X)) =
      .ok (.many (.sym .LParen) (sepNorm id ids) (.sym .RParen), X) := by
  unfold setTarget at h
  split at h
  · simp at h
  · split at h
    · rename_i lp r hl
      have hps : c.parenSet = true := by
        cases hh : c.parenSet
        · simp [hh] at hl
        · rfl
      split at h
      · simp at h
      · rename_i ids' r1' hc
        split at h
        · simp at h; obtain ⟨⟨-, rfl, -⟩, -⟩ := h
          have := vt_ids_reparse c.tc f hc (r' := .sym .RParen :: X) (by intro x hx; cases hx)
          unfold setTarget vt_idsT
          have e1 : eatKws (.sym .LParen :: (sepFlat (fun t => [t]) (sepNorm id ids') ++ .sym .RParen :: X)) [TK.TIME, TK.ZONE]
              = none := rfl
          have e2 : ∀ Y, eatSym (.sym .LParen :: Y) .LParen = some (.sym .LParen, Y) := by intro Y; simp [eatSym, Tok.isSym]
          have e3 : ∀ Y, eatSym (.sym .RParen :: Y) .RParen = some (.sym .RParen, Y) := by intro Y; simp [eatSym, Tok.isSym]
          simp only [e1, hps, if_true, e2, this, e3]
        · simp at h
    · split at h
      · simp at h
      · split at h <;> simp at h

theorem vt_setVar_reparse (c : TCfg) (f d : Nat) {r0 r1 r2 r3 r4 lp rp : List Tok} {lp0 rp0 : Tok} {ids : Sep Tok} {eq : Tok}
    {vs : Sep Expr}
    (h1 : setTarget c f r0 = .ok (.many lp0 ids rp0, r1)) (h3 : eqOrTo r1 = some (eq, r2))
    (h4 : optLParen true r2 = .ok (lp, r3)) (h5 : commaSepE c.tc (setValue c f d) f r3 = .ok (vs, r4))
    (h6 : optRParen true r4 = .ok (rp, []))
    (hp : (vs.all fun p => p.1.printable) = true) (hn : sepNormal (fun _ => true) vs = true) (ht : r0.all tokOk = true)
    (md' colon' : List Tok) :
    parseSetVar c f d (kwT "SET") md' colon' (vt_body ids vs) =
      .ok (.setVar (kwT "SET") md' colon' (.many (.sym .LParen) (sepNorm id ids) (.sym .RParen)) (.sym .Eq) [.sym .LParen]
        (sepNorm Expr.norm vs) [.sym .RParen], []) := by
  have ht2 : r2.all tokOk = true :=
    vx_all_suffix (a := [eq]) (eqOrTo_yield h3) (vx_all_suffix (setTarget_yield _ _ _ _ _ h1) ht)
  have ht3 : r3.all tokOk = true := vx_all_suffix (optLParen_yield _ _ _ _ h4) ht2
  have h64 : r4 = [.sym .RParen] := by
    simp only [optRParen, if_true] at h6
    split at h6
    · rename_i t r hs
      obtain ⟨rfl, rfl⟩ := eatSym_some hs
      simp at h6; rw [h6.2]
    · simp at h6
  subst h64
  have hv := vx_values_reparse c f d f h5 hp hn ht3 (r' := [.sym .RParen]) rfl
  have e2 : ∀ Y, eatSym (.sym .LParen :: Y) .LParen = some (.sym .LParen, Y) := by intro Y; simp [eatSym, Tok.isSym]
  have e3 : ∀ Y, eatSym (.sym .RParen :: Y) .RParen = some (.sym .RParen, Y) := by intro Y; simp [eatSym, Tok.isSym]
  have he : ∀ X, eqOrTo (.sym .Eq :: X) = some (.sym .Eq, X) := by intro X; simp [eqOrTo, eatSym, Tok.isSym]
  unfold parseSetVar vt_body
  rw [vt_setTarget_reparse c f h1]
  have hnb : namesBranch c (.many (.sym .LParen) (sepNorm id ids) (.sym .RParen)) = false := by simp [namesBranch]
  simp only [hnb, Bool.false_eq_true, if_false, he]
  simp only [parseSetValues, SetTarget.isMany, optLParen, optRParen, if_true, e2, vt_valsT, hv, e3]

theorem vt_lp_isKw (k : Nat) : (Tok.sym .LParen).isKw k = false := rfl

/-- the statement with a parenthesised tuple target -/
theorem fixVar_tuple (c : TCfg) (f d : Nat) (kw : Tok) (ts rest : List Tok) (s : Stmt)
    (h : parseSet c f d kw ts = .ok (s, rest)) (hv : s.isSetVar = true) (hp : s.varPrintable = true)
    (hn : s.tupleNormal = true) (ht : ts.all tokOk = true) (hr : rest = []) :
    parseStmt c f (d + 1) s.showToks = .ok (s.norm, []) := by
  subst hr
  obtain ⟨m1, m2, m3, m4, m5, m6, n1, n2, n3, n4, n5, n6⟩ := vx_md_facts
  unfold parseSet at h
  have hy0 := oneOfTail_yield [TK.SESSION, TK.LOCAL, TK.HIVEVAR] ts
  generalize hmd : oneOfTail [TK.SESSION, TK.LOCAL, TK.HIVEVAR] ts = A at h hy0
  obtain ⟨md, ts0⟩ := A
  simp only at h hy0
  obtain ⟨hra, colon, r0, hc, hvar⟩ := vx_tail_parts _ _ _ _ _ _ _ _ h hv
  obtain ⟨tg, r1, eq, r2, lp, r3, vs, r4, rp, h1, h2, h3, h4, h5, h6, rfl⟩ := vx_var_parts _ _ _ _ _ _ _ _ _ hvar hv
  simp only [Stmt.varPrintable] at hp
  cases tg with
  | one name => simp [Stmt.tupleNormal] at hn
  | timeZone tz => simp [Stmt.tupleNormal] at hn
  | many lp0 ids rp0 =>
  simp only [Stmt.tupleNormal] at hn
  have ht0 : r0.all tokOk = true := vx_all_suffix (hivevarColon_yield _ _ _ _ hc) (vx_all_suffix hy0 ht)
  have core := vt_setVar_reparse c f d h1 h3 h4 h5 h6 hp hn ht0
  rw [vt_showToks, vx_dispatch_set]
  simp only [Stmt.norm, SetTarget.norm, SetTarget.isMany, if_true]
  have hb : ∃ tl, vt_body ids vs = .sym .LParen :: tl := ⟨_, rfl⟩
  obtain ⟨tl, hb⟩ := hb
  rw [hb] at core ⊢
  have tS := vt_lp_isKw TK.SESSION
  have tL := vt_lp_isKw TK.LOCAL
  have tH := vt_lp_isKw TK.HIVEVAR
  have tR := vt_lp_isKw TK.ROLE
  rcases vx_oneOf3 TK.SESSION TK.LOCAL TK.HIVEVAR ts with ⟨q0, q1, q2, q3⟩ | ⟨t0, tr, rfl, q0, q⟩
  · -- no modifier
    rw [q0] at hmd
    simp only [Prod.mk.injEq] at hmd
    obtain ⟨rfl, rfl⟩ := hmd
    have hL : isLocal [] = false := rfl
    have hH : isHivevar [] = false := rfl
    simp only [varMdNorm, varColonNorm, hL, hH, Bool.false_eq_true, if_false, List.nil_append, List.cons_append,
      Bool.not_false, Bool.and_false]
    unfold parseSet
    rw [vx_oneOf3_none _ _ _ _ _ tS tL tH]
    simp only [parseSetTail, roleAhead, hH, Bool.false_eq_true, if_false, vx_eatKw_none' tR, hivevarColon]
    exact core [] []
  · rw [q0] at hmd
    simp only [Prod.mk.injEq] at hmd
    obtain ⟨rfl, rfl⟩ := hmd
    have hL0 : isLocal [t0] = t0.isKw TK.LOCAL := by simp [isLocal]
    have hH0 : isHivevar [t0] = t0.isKw TK.HIVEVAR := by simp [isHivevar]
    by_cases hL : t0.isKw TK.LOCAL = true
    · -- LOCAL
      have hH : t0.isKw TK.HIVEVAR = false := isKw_excl hL n3
      rw [hL] at hL0; rw [hH] at hH0
      have kH : isHivevar [kwT "LOCAL"] = false := (vx_kh _).trans m3
      simp only [varMdNorm, varColonNorm, hL0, hH0, Bool.false_eq_true, if_false, if_true, List.nil_append, List.cons_append,
        Bool.not_false, Bool.not_true, Bool.and_false, Bool.false_and]
      unfold parseSet
      rw [vx_ko2 _ _ _ _ _ m1 m2]
      simp only [parseSetTail, roleAhead, kH, Bool.false_eq_true, if_false, vx_eatKw_none' tR, hivevarColon]
      exact core _ _
    · have hL' : t0.isKw TK.LOCAL = false := by simpa using hL
      rw [hL'] at hL0
      by_cases hH : t0.isKw TK.HIVEVAR = true
      · -- HIVEVAR
        rw [hH] at hH0
        have kH : isHivevar [kwT "HIVEVAR"] = true := (vx_kh _).trans m6
        simp only [varMdNorm, varColonNorm, hL0, hH0, Bool.false_eq_true, if_false, if_true, List.nil_append,
          List.cons_append, Bool.not_false, Bool.and_self]
        unfold parseSet
        rw [vx_ko3 _ _ _ _ _ m4 m5 m6]
        simp only [parseSetTail, roleAhead, kH, if_true, hivevarColon, vx_colon]
        exact core _ _
      · -- SESSION (dropped by the printer)
        have hH' : t0.isKw TK.HIVEVAR = false := by simpa using hH
        rw [hH'] at hH0
        have kH : isHivevar [] = false := rfl
        simp only [varMdNorm, varColonNorm, hL0, hH0, Bool.false_eq_true, if_false, List.nil_append, List.cons_append,
          Bool.not_false, Bool.and_false]
        unfold parseSet
        rw [vx_oneOf3_none _ _ _ _ _ tS tL tH]
        simp only [parseSetTail, roleAhead, kH, Bool.false_eq_true, if_false, vx_eatKw_none' tR, hivevarColon]
        exact core [] []

section Witnesses
private def vt_sf : TCfg := TCfg.ofRow dialect_snowflake
private def vt_kw (s : String) : Tok := .word (str s) none (some (kwIndex s))
private def vt_wd (s : String) : Tok := .word (str s) none none
private def vt_num (s : String) : Tok := .number (str s) false

/-- non-vacuity of `fixVar_tuple`: `SET SESSION (a, b,) TO (1, c + 2)` (trailing comma in the identifier list, option
on) and `SET LOCAL (a, b) = (1, 'x')` satisfy every hypothesis, and the conclusion holds on them -/
example :
    (match parseSet (vt_sf.withTrailing true) 100 40 (vt_kw "SET")
        [vt_kw "SESSION", .sym .LParen, vt_wd "a", .sym .Comma, vt_wd "b", .sym .Comma, .sym .RParen, vt_kw "TO", .sym .LParen,
         vt_num "1", .sym .Comma, vt_wd "c", .sym .Plus, vt_num "2", .sym .RParen] with
     | .ok (s, []) => s.isSetVar && s.varPrintable && s.tupleNormal &&
         (match parseStmt (vt_sf.withTrailing true) 100 41 s.showToks with | .ok (s', []) => s' == s.norm | _ => false)
     | _ => false) = true ∧
    (match parseSet vt_sf 100 40 (vt_kw "SET")
        [vt_kw "LOCAL", .sym .LParen, vt_wd "a", .sym .Comma, vt_wd "b", .sym .RParen, .sym .Eq, .sym .LParen,
         vt_num "1", .sym .Comma, .sqs (str "x"), .sym .RParen] with
     | .ok (s, []) => s.isSetVar && s.varPrintable && s.tupleNormal &&
         (match parseStmt vt_sf 100 41 s.showToks with | .ok (s', []) => s' == s.norm | _ => false)
     | _ => false) = true := by decide +kernel
end Witnesses
end SqlVerif.Tcl

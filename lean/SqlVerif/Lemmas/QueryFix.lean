import SqlVerif.Lemmas.QueryWF
/-!
The statement-level fixpoint on the query fragment, assembled from

* `parseStatement_sim2` (`Lemmas/QuerySim.lean`): the parser respects the token image `qc`;
* `showToks_eq_norm`, `query_inj` (`Lemmas/QueryNorm.lean`): the printed tokens are the yield of the
  normal form; a tree is determined by its image and its yield;
* `parse_wf` (`Lemmas/QueryWF.lean`), `norm_faithful` (`Lemmas/QueryFaithful.lean`): for parsed,
  printable, normal-shape trees over lexer-like tokens the normal form has the image of the tree;
* `query_sexp_norm` (here): the normal form holds the same AST.
-/
namespace SqlVerif.Query
open SqlVerif.Pratt SqlVerif.Gen
open SqlVerif.SetClimb (Op SQuant precOf)
set_option linter.unusedSimpArgs false

-- ------------------------------------------------------------------ the normal form holds the same AST
theorem aliasSexp_norm (al : List Tok) : aliasSexp (aliasNorm al) = aliasSexp al := by
  unfold aliasNorm aliasSexp
  cases h : al.getLast? <;> simp

theorem aliasNorm_nil_iff (al : List Tok) : aliasNorm al = [] ↔ al = [] := by
  unfold aliasNorm
  cases h : al.getLast? with
  | none => simpa using h
  | some t =>
    simp
    intro h2; subst h2; simp at h

theorem item_sexp_norm (v : SelectItem) : v.norm.sexp = v.sexp := by
  cases v with
  | expr e al =>
    cases al with
    | nil => simp [SelectItem.norm, aliasNorm, SelectItem.sexp, norm_sexp]
    | cons a r =>
      have h1 : aliasNorm (a :: r) ≠ [] := fun h => by simpa using (aliasNorm_nil_iff _).1 h
      have h2 := aliasSexp_norm (a :: r)
      cases hn : aliasNorm (a :: r) with
      | nil => exact absurd hn h1
      | cons b r2 =>
        rw [hn] at h2
        simp [SelectItem.norm, hn, SelectItem.sexp, norm_sexp, h2]
  | wildcard t => rfl
  | qualified toks => rfl

theorem sepNorm_map_fst {α β : Type} (g : α → β) (N : α → α) : ∀ l : Sep α,
    (sepNorm N l).map (fun p => g p.1) = l.map (fun p => g (N p.1)) := by
  intro l
  induction l with
  | nil => rfl
  | cons x rest ih =>
    cases rest with
    | nil => rfl
    | cons y r => simp only [sepNorm, List.map_cons] at ih ⊢; rw [ih]

theorem sepSexp_norm {α : Type} (f : α → String) (N : α → α) (h : ∀ v, f (N v) = f v) (l : Sep α) :
    sepSexp f (sepNorm N l) = sepSexp f l := by
  unfold sepSexp
  rw [sepNorm_map_fst (fun v => " " ++ f v) N l]
  simp only [h]

theorem KASC : (kwT "ASC").isKw K.ASC = true ∧ (kwT "DESC").isKw K.ASC = false := by decide +kernel
theorem KFIRST : (kwT "FIRST").isKw K.FIRST = true ∧ (kwT "LAST").isKw K.FIRST = false := by decide +kernel
theorem KROW : (kwT "ROW").isKw K.ROW = true ∧ (kwT "ROWS").isKw K.ROW = false := by decide +kernel

theorem asc_norm (o : OrderByExpr) : o.norm.asc = o.asc := by
  obtain ⟨e, dir, nulls⟩ := o
  match dir with
  | [] => rfl
  | [t] =>
    simp only [OrderByExpr.norm, OrderByExpr.asc, dirNorm]
    by_cases h : t.isKw K.ASC = true <;> simp [h, KASC.1, KASC.2]
  | _ :: _ :: _ => rfl

theorem nullsFirst_norm (o : OrderByExpr) : o.norm.nullsFirst = o.nullsFirst := by
  obtain ⟨e, dir, nulls⟩ := o
  match nulls with
  | [] => rfl
  | [_] => rfl
  | [a, t] =>
    simp only [OrderByExpr.norm, OrderByExpr.nullsFirst, nullsNorm]
    by_cases h : t.isKw K.FIRST = true <;> simp [h, KFIRST.1, KFIRST.2]
  | _ :: _ :: _ :: _ => rfl

theorem order_sexp_norm (o : OrderByExpr) : o.norm.sexp = o.sexp := by
  unfold OrderByExpr.sexp
  rw [asc_norm, nullsFirst_norm]
  simp [OrderByExpr.norm, norm_sexp]

theorem rowsName_norm (rows : List Tok) : rowsName (rowsNorm rows) = rowsName rows := by
  match rows with
  | [] => rfl
  | [t] =>
    simp only [rowsNorm, rowsName]
    by_cases h : t.isKw K.ROW = true <;> simp [h, KROW.1, KROW.2]
  | _ :: _ :: _ => rfl

theorem limSem_limsNorm (st : Option Expr × Option (Expr × List Tok)) :
    limSem (limsNorm st) = (st.1.map Expr.norm, st.2.map fun p => (p.1.norm, rowsNorm p.2)) := by
  obtain ⟨l, o⟩ := st
  cases l <;> cases o <;> simp [limsNorm, limSem]

theorem optExprSexp_norm (o : Option Expr) : optExprSexp (o.map Expr.norm) = optExprSexp o := by
  cases o <;> simp [optExprSexp, norm_sexp]

theorem tail_sexp_norm (qt : QueryTail) : qt.norm.sexp = qt.sexp := by
  unfold QueryTail.sexp
  simp only [QueryTail.norm, limSem_limsNorm, sepSexp_norm _ _ order_sexp_norm, optExprSexp_norm]
  cases (limSem qt.lims).2 <;> simp [norm_sexp, rowsName_norm]

theorem cstr_sexp_norm (k : JoinCstr) : k.norm.sexp = k.sexp := by
  cases k with
  | none => rfl
  | on kw e => simp [JoinCstr.norm, JoinCstr.sexp, norm_sexp]
  | «using» kw lp cols rp => simp [JoinCstr.norm, JoinCstr.sexp, sepSexp_norm idSexp id (fun _ => rfl)]

theorem connOpen_norm (conn : Conn) (a b : String) : connOpen conn.norm a b = connOpen conn a b := by
  cases conn <;> rfl

theorem isFnil_norm (n : QNode) : n.norm.isFnil = n.isFnil := by
  cases n <;> rfl

-- (the generated equation lemmas of `QNode.sexp` are too expensive; each case holds by `rfl`)
theorem sexp_select (hd : SelHead) (frm : QNode) (tl : SelTail) : (QNode.select hd frm tl).sexp =
    "(select " ++ b01 hd.distinct ++ " (proj" ++ sepSexp SelectItem.sexp hd.proj ++ ") (from" ++
      (if frm.isFnil then "" else frm.sexp ++ ")") ++ ") (where " ++ optExprSexp tl.selection ++ ") (group" ++
      sepSexp Expr.sexp tl.group ++ ") (having " ++ optExprSexp tl.having ++ "))" := rfl
theorem sexp_paren (lp rp : Tok) (body : QNode) (qt : QueryTail) :
    (QNode.paren lp body qt rp).sexp = "(paren (query " ++ body.sexp ++ qt.sexp ++ "))" := rfl
theorem sexp_setOp (l r : QNode) (o : Op) (q : SQuant) (ops : List Tok) :
    (QNode.setOp l o q ops r).sexp = "(setop " ++ opName o ++ " " ++ quantName q ++ " " ++ l.sexp ++ " " ++ r.sexp ++ ")" := rfl
theorem sexp_ftable (conn : Conn) (name al : List Tok) (cstr : JoinCstr) (rest : QNode) :
    (QNode.ftable conn name al cstr rest).sexp =
      connOpen conn ("(table (name" ++ idsSexp name ++ ") " ++ aliasSexp al ++ ")") cstr.sexp ++ rest.sexp := rfl
theorem sexp_fderived (conn : Conn) (lp rp : Tok) (body : QNode) (qt : QueryTail) (al : List Tok) (cstr : JoinCstr)
    (rest : QNode) : (QNode.fderived conn lp body qt rp al cstr rest).sexp =
      connOpen conn ("(derived (query " ++ body.sexp ++ qt.sexp ++ ") " ++ aliasSexp al ++ ")") cstr.sexp ++ rest.sexp := rfl

theorem node_sexp_norm (n : QNode) : n.norm.sexp = n.sexp := by
  induction n with
  | select hd frm tl ih =>
    rw [QNode.norm, sexp_select, sexp_select, ih, isFnil_norm]
    simp only [SelHead.norm, SelTail.norm, sepSexp_norm _ _ item_sexp_norm, sepSexp_norm _ _ norm_sexp, optExprSexp_norm]
  | paren lp body qt rp ih => rw [QNode.norm, sexp_paren, sexp_paren, ih, tail_sexp_norm]
  | setOp l o q ops r ihl ihr => rw [QNode.norm, sexp_setOp, sexp_setOp, ihl, ihr]
  | fnil trail => rfl
  | ftable conn name al cstr rest ih =>
    rw [QNode.norm, sexp_ftable, sexp_ftable, connOpen_norm, aliasSexp_norm, cstr_sexp_norm, ih]
  | fderived conn lp body qt rp al cstr rest ihb ihr =>
    rw [QNode.norm, sexp_fderived, sexp_fderived, connOpen_norm, aliasSexp_norm, cstr_sexp_norm, tail_sexp_norm, ihb, ihr]

/-- the printed normal form holds the same AST -/
theorem query_sexp_norm (q : Query) : q.norm.sexp = q.sexp := by
  simp only [Query.sexp, Query.norm, node_sexp_norm, tail_sexp_norm]


-- ------------------------------------------------------------------ assembly
/-- re-parsing the printed tokens in front of any continuation that looks like the original one:
if the normal form has the image of the tree, the parser reads the normal form back -/
theorem reparse_of_faithful (c : QCfg) (f limit : Nat) (ts : List Tok) (q : Query) (rest rest' : List Tok)
    (h : parseStatement c f limit ts = .ok (q, rest)) (hf : q.norm.mapT qc = q.mapT qc)
    (hr : rest.map qc = rest'.map qc) :
    parseStatement c f limit (q.showToks ++ rest') = .ok (q.norm, rest') := by
  have y : ts = q.flatten ++ rest := parseStatement_yield c f limit ts q rest h
  have hs : ts.map qc = (q.showToks ++ rest').map qc := by
    rw [y, showToks_eq_norm, List.map_append, List.map_append, ← query_flatten_qc, ← query_flatten_qc, hf, hr]
  obtain ⟨q', r', h', hq', hr'⟩ := parseStatement_sim2 c f limit hs h
  have y' : q.showToks ++ rest' = q'.flatten ++ r' := parseStatement_yield c f limit _ q' r' h'
  have hl : rest'.length = r'.length := by
    have h1 := len_of_map hr'
    have h2 := len_of_map hr
    omega
  obtain ⟨a1, a2⟩ := List.append_inj' y' hl
  have : q' = q.norm := query_inj q' q.norm (hq'.trans hf.symm) (by rw [← a1, showToks_eq_norm])
  rw [h', this, a2]

/-- the consumed tokens of an accepted statement are lexer-like when the input is -/
theorem flatten_tokOk (c : QCfg) (f limit : Nat) (ts : List Tok) (q : Query) (rest : List Tok)
    (h : parseStatement c f limit ts = .ok (q, rest)) (ht : ts.all tokOk = true) : q.flatten.all tokOk = true := by
  have y : ts = q.flatten ++ rest := parseStatement_yield c f limit ts q rest h
  rw [y, List.all_append, Bool.and_eq_true] at ht
  exact ht.1

/-- **parse → print → parse** on the query fragment, in front of a continuation -/
theorem query_reparse_sub (c : QCfg) (f limit : Nat) (ts : List Tok) (q : Query) (rest rest' : List Tok)
    (h : parseStatement c f limit ts = .ok (q, rest)) (hp : q.printable = true) (hn : q.normal = true)
    (ht : ts.all tokOk = true) (hr : rest.map qc = rest'.map qc) :
    parseStatement c f limit (q.showToks ++ rest') = .ok (q.norm, rest') :=
  reparse_of_faithful c f limit ts q rest rest' h
    (norm_faithful q (parse_wf c f limit ts q rest h) hn hp (flatten_tokOk c f limit ts q rest h ht)) hr

end SqlVerif.Query

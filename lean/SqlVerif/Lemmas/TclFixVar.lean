import SqlVerif.Lemmas.TclFixBase
import SqlVerif.Lemmas.DmlFix
/-!
C01 (parse → print → parse) on `SET [LOCAL | SESSION | HIVEVAR :] variable = | TO values` of `Model/Tcl.lean`:

* `vx_expr_reparse`    one expression is read back from its printed tokens as its normal form;
* `vx_values_reparse`  the value list of `SET` (no trailing comma in the source);
* `fixVar_set`         the statement, for the targets `.one name` and `.timeZone tz` (printed `TIMEZONE`, read back as a
                       one-word name) and every modifier (none / `SESSION`, dropped by the printer / `LOCAL` / `HIVEVAR :`).

Side condition found on the way (`SetTarget.mdFree`): when the modifier is `SESSION` the first word of the variable must
not be `SESSION | LOCAL | HIVEVAR` — `SET SESSION LOCAL = 1` is accepted, prints `SET LOCAL = 1`, which is rejected
(witness at the end).  NOT proved: the parenthesised tuple target `.many` (`vx_tupleStatement` keeps the statement).
-/
set_option linter.unusedSimpArgs false
namespace SqlVerif.Tcl
open SqlVerif.Pratt SqlVerif.Query SqlVerif.Dml SqlVerif.Ddl SqlVerif.Gen

theorem vx_expr_faith (c : QCfg) (f d : Nat) {a : List Tok} {e : Expr} {r : List Tok} (h : parseE c f d a = .ok (e, r))
    (hp : e.printable = true) (ht : a.all tokOk = true) : e.norm.mapT qc = e.mapT qc := by
  have hy := parseE_yield c f d _ _ _ h
  rw [hy, List.all_append, Bool.and_eq_true] at ht
  exact expr_faith e (parseE_wf c f d _ _ _ h hp) hp (flatten_kwTokOk ht.1)

/-- one expression re-parsed from its printed tokens -/
theorem vx_expr_reparse (c : QCfg) (f d : Nat) {a : List Tok} {e : Expr} {r r' : List Tok} (h : parseE c f d a = .ok (e, r))
    (hp : e.printable = true) (ht : a.all tokOk = true) (hr : r.map qc = r'.map qc) :
    parseE c f d (showToks e ++ r') = .ok (e.norm, r') := by
  rw [showToks_eq]
  exact reparse_one (parseE_qc c f d) (parseE_yield c f d) flatten_mapT_qc (fun _ _ _ _ hm h => expr_cancel hm h) h
    (vx_expr_faith c f d h hp ht) hr

theorem vx_subQueryAhead_qc (ts : List Tok) : subQueryAhead (ts.map qc) = subQueryAhead ts := by
  simp [subQueryAhead, peekKw_qc]

theorem vx_setValue_some {c : TCfg} {f d : Nat} {a : List Tok} {e : Expr} {r : List Tok}
    (h : setValue c f d a = .ok (e, r)) : subQueryAhead a = false ∧ parseE c.q f d a = .ok (e, r) := by
  unfold setValue at h
  split at h
  · simp at h
  · rename_i hs; exact ⟨by simpa using hs, h⟩

theorem vx_setValue_yield (c : TCfg) (f d : Nat) (ts : List Tok) (v : Expr) (rest : List Tok)
    (h : setValue c f d ts = .ok (v, rest)) : ts = v.flatten ++ rest :=
  parseE_yield _ _ _ _ _ _ (vx_setValue_some h).2

theorem vx_setValue_reparse (c : TCfg) (f d : Nat) {a : List Tok} {e : Expr} {r r' : List Tok}
    (h : setValue c f d a = .ok (e, r)) (hp : e.printable = true) (ht : a.all tokOk = true) (hr : r.map qc = r'.map qc) :
    setValue c f d (e.norm.flatten ++ r') = .ok (e.norm, r') ∧ e.norm.flatten.map qc = e.flatten.map qc := by
  obtain ⟨hs, he⟩ := vx_setValue_some h
  have f3 := vx_expr_faith c.q f d he hp ht
  have g3 : e.norm.flatten.map qc = e.flatten.map qc := by rw [← flatten_mapT_qc, ← flatten_mapT_qc, f3]
  refine ⟨?_, g3⟩
  have hy := parseE_yield _ _ _ _ _ _ he
  have hs' : subQueryAhead (e.norm.flatten ++ r') = false := by
    rw [← vx_subQueryAhead_qc, List.map_append, g3, ← hr, ← List.map_append, ← hy, vx_subQueryAhead_qc]; exact hs
  unfold setValue
  rw [hs']
  simp only [Bool.false_eq_true, if_false]
  have := vx_expr_reparse c.q f d he hp ht hr
  rwa [showToks_eq] at this

/-- the value list -/
theorem vx_values_reparse' (c : TCfg) (f d : Nat) : ∀ (n : Nat) {a : List Tok} {vs : Sep Expr} {r r' : List Tok},
    commaSepE c.tc (setValue c f d) n a = .ok (vs, r) → (vs.all fun p => p.1.printable) = true →
    sepNormal (fun _ => true) vs = true → a.all tokOk = true → r.map qc = r'.map qc →
    commaSepE c.tc (setValue c f d) n (sepFlat Expr.flatten (sepNorm Expr.norm vs) ++ r') = .ok (sepNorm Expr.norm vs, r') ∧
    (sepFlat Expr.flatten (sepNorm Expr.norm vs)).map qc = (sepFlat Expr.flatten vs).map qc := by
  intro n
  induction n with
  | zero => intro a vs r r' h; simp [commaSepE] at h
  | succ n ih =>
    intro a vs r r' h hp hn ht hr
    simp only [commaSepE] at h
    split at h
    · simp at h
    · rename_i v r1 hv
      have hyv := vx_setValue_yield _ _ _ _ _ _ hv
      split at h
      · rename_i r2
        split at h
        · simp at h
          obtain ⟨rfl, rfl⟩ := h
          simp [sepNormal] at hn
        · rename_i hle0
          split at h
          · simp at h
          · rename_i vs0 r3 hrec
            simp at h
            obtain ⟨rfl, rfl⟩ := h
            have hne : vs0 ≠ [] := (commaSepE_wf _ _ (fun _ => True) (fun _ _ _ _ => trivial) _ _ _ _ hrec).2
            cases vs0 with
            | nil => exact absurd rfl hne
            | cons y rest0 =>
              simp only [sepNormal, Bool.and_eq_true] at hn
              simp only [List.all_cons, Bool.and_eq_true] at hp
              have ht2 : r2.all tokOk = true := by
                rw [hyv] at ht; simp only [List.all_append, List.all_cons, Bool.and_eq_true] at ht; exact ht.2.2
              obtain ⟨hrec', gi⟩ := ih hrec (by simpa using hp.2) hn.2 ht2 hr
              have hy0 := commaSepE_yield _ _ Expr.flatten (vx_setValue_yield c f d) _ _ _ _ hrec
              have g : (sepFlat Expr.flatten (sepNorm Expr.norm (y :: rest0)) ++ r').map qc = r2.map qc := by
                rw [hy0, List.map_append, List.map_append, hr, gi]
              obtain ⟨k1, k2⟩ := vx_setValue_reparse c f d hv hp.1 ht
                (r' := .sym .Comma :: (sepFlat Expr.flatten (sepNorm Expr.norm (y :: rest0)) ++ r')) (by simp [g, qc])
              refine ⟨?_, ?_⟩
              · simp only [sepNorm, sepFlat, List.append_assoc, List.cons_append, List.nil_append, commaSepE]
                rw [k1]
                simp only
                have hle : listEnds (sepFlat Expr.flatten (sepNorm Expr.norm (y :: rest0)) ++ r') = listEnds r2 := by
                  rw [← listEnds_qc, g, listEnds_qc]
                rw [hle]
                simp only [hle0, Bool.false_eq_true, ↓reduceIte]
                rw [hrec']
              · simp only [sepNorm, sepFlat, List.map_append, k2, gi]
      · rename_i hnc
        simp at h
        obtain ⟨rfl, rfl⟩ := h
        simp only [List.all_cons, Bool.and_eq_true] at hp
        obtain ⟨k1, k2⟩ := vx_setValue_reparse c f d hv hp.1 ht hr
        refine ⟨?_, ?_⟩
        · simp only [sepNorm, sepFlat, List.append_nil, commaSepE]
          rw [k1]
          simp only
          have : ∀ rest', r' ≠ .sym .Comma :: rest' := by
            intro rest' hx
            subst hx
            cases r1 with
            | nil => simp at hr
            | cons x l =>
              simp only [List.map_cons, List.cons.injEq] at hr
              exact hnc l (by rw [qc_eq_comma hr.1])
          split
          · exact absurd rfl (this _)
          · rfl
        · simp only [sepNormal, Bool.true_and, List.isEmpty_iff] at hn
          simp only [sepNorm, sepFlat, List.append_nil, k2, hn]

theorem vx_values_reparse (c : TCfg) (f d : Nat) (n : Nat) {a : List Tok} {vs : Sep Expr} {r r' : List Tok}
    (h : commaSepE c.tc (setValue c f d) n a = .ok (vs, r)) (hp : (vs.all fun p => p.1.printable) = true)
    (hn : sepNormal (fun _ => true) vs = true) (ht : a.all tokOk = true) (hr : r.map qc = r'.map qc) :
    commaSepE c.tc (setValue c f d) n (sepFlat Expr.flatten (sepNorm Expr.norm vs) ++ r') = .ok (sepNorm Expr.norm vs, r') :=
  (vx_values_reparse' c f d n h hp hn ht hr).1

-- ------------------------------------------------------------------ definitions
def Stmt.isSetVar : Stmt → Bool
  | .setVar _ _ _ _ _ _ _ _ => true
  | _ => false

def Stmt.varPrintable : Stmt → Bool
  | .setVar _ _ _ _ _ _ vs _ => vs.all fun p => p.1.printable
  | _ => false

/-- the first token of the variable is none of the modifier keywords -/
def SetTarget.mdFree : SetTarget → Bool
  | .one name => !(peekKw name TK.SESSION || peekKw name TK.LOCAL || peekKw name TK.HIVEVAR)
  | _ => true

def Stmt.varNormal : Stmt → Bool
  | .setVar _ md _ tg _ _ vs _ =>
    sepNormal (fun _ => true) vs && !tg.isMany && (md.isEmpty || isLocal md || isHivevar md || tg.mdFree)
  | _ => false

-- ------------------------------------------------------------------ closed facts
theorem vx_head_set :
    (kwT "SET").isKw TK.START = false ∧ (kwT "SET").isKw TK.BEGIN = false ∧ (kwT "SET").isKw TK.END_ = false ∧
    (kwT "SET").isKw TK.COMMIT = false ∧ (kwT "SET").isKw TK.ROLLBACK = false ∧ (kwT "SET").isKw TK.SAVEPOINT = false ∧
    (kwT "SET").isKw TK.RELEASE = false ∧ (kwT "SET").isKw TK.SET = true := by decide +kernel

theorem vx_dispatch_set (c : TCfg) (f d : Nat) (r : List Tok) :
    parseStmt c f (d + 1) (kwT "SET" :: r) = parseSet c f d (kwT "SET") r := by
  simp only [parseStmt, vx_head_set, Bool.false_eq_true, if_false, if_true]

theorem vx_tz_facts :
    (kwT "TIMEZONE").isKw TK.TIME = false ∧ (kwT "TIMEZONE").isKw TK.SESSION = false ∧
    (kwT "TIMEZONE").isKw TK.LOCAL = false ∧ (kwT "TIMEZONE").isKw TK.HIVEVAR = false ∧
    (kwT "TIMEZONE").isKw TK.ROLE = false ∧ nameIs "names" [kwT "TIMEZONE"] = false ∧
    bigQueryNameForeign [kwT "TIMEZONE"] [] = false := by decide +kernel

theorem vx_md_facts :
    (kwT "LOCAL").isKw TK.SESSION = false ∧ (kwT "LOCAL").isKw TK.LOCAL = true ∧ (kwT "LOCAL").isKw TK.HIVEVAR = false ∧
    (kwT "HIVEVAR").isKw TK.SESSION = false ∧ (kwT "HIVEVAR").isKw TK.LOCAL = false ∧
    (kwT "HIVEVAR").isKw TK.HIVEVAR = true ∧
    (TK.SESSION != TK.LOCAL) = true ∧ (TK.SESSION != TK.HIVEVAR) = true ∧ (TK.LOCAL != TK.HIVEVAR) = true ∧
    (TK.LOCAL != TK.SESSION) = true ∧ (TK.HIVEVAR != TK.SESSION) = true ∧ (TK.HIVEVAR != TK.LOCAL) = true := by
  decide +kernel

-- ------------------------------------------------------------------ names
theorem vx_ident_isSym {t : Tok} (h : isIdentTok t = true) (s : Sym) : t.isSym s = false := by
  cases t <;> simp [isIdentTok] at h <;> rfl

theorem vx_objectName (acc ts : List Tok) : ∀ (name rest : List Tok), objectName acc ts = .ok (name, rest) →
    ∃ nm, name = acc ++ nm ∧ ts = nm ++ rest ∧
      (∃ t nm', nm = t :: nm' ∧ isIdentTok t = true ∧ (nm' = [] ∨ ∃ n2, nm' = .sym .Period :: n2)) ∧
      ∀ acc' x X, x ≠ .sym .Period → objectName acc' (nm ++ x :: X) = .ok (acc' ++ nm, x :: X) := by
  fun_induction objectName acc ts with
  | case1 acc => intro name rest h; simp at h
  | case2 acc t hi rest' ih =>
    intro name rest h
    obtain ⟨nm, rfl, h2, -, h4⟩ := ih name rest h
    refine ⟨t :: .sym .Period :: nm, by simp, by simp [h2], ⟨t, _, rfl, hi, Or.inr ⟨_, rfl⟩⟩, ?_⟩
    intro acc' x X hx
    rw [List.cons_append, List.cons_append, objectName]
    simp only [hi, if_true]
    rw [h4 _ _ _ hx]; simp
  | case3 acc t hi rest hne =>
    intro name rest' h
    simp at h; obtain ⟨rfl, rfl⟩ := h
    refine ⟨[t], rfl, rfl, ⟨t, [], rfl, hi, Or.inl rfl⟩, ?_⟩
    intro acc' x X hx
    rw [List.cons_append, List.nil_append, objectName]
    simp only [hi, if_true]
    intro rest' heq
    simp at heq; exact absurd heq.1 hx
  | case4 acc t rest hi => intro name rest' h; simp at h

theorem vx_nameElem {ts name rest : List Tok} (h : nameElem ts = .ok (name, rest)) :
    ts = name ++ rest ∧ (∃ t nm', name = t :: nm' ∧ isIdentTok t = true ∧ (nm' = [] ∨ ∃ n2, nm' = .sym .Period :: n2)) ∧
    ∀ x X, x ≠ .sym .Period → nameElem (name ++ x :: X) = .ok (name, x :: X) := by
  obtain ⟨nm, h1, h2, h3, h4⟩ := vx_objectName [] ts name rest h
  simp at h1; subst h1
  exact ⟨h2, h3, fun x X hx => by simpa [nameElem] using h4 [] x X hx⟩

-- ------------------------------------------------------------------ the variable
theorem vx_eatKws_name {t : Tok} {nm' : List Tok} (hs : nm' = [] ∨ ∃ n2, nm' = .sym .Period :: n2) (X : List Tok) (a b : Nat) :
    eatKws ((t :: nm') ++ .sym .Eq :: X) [a, b] = none := by
  have hsym : ∀ (s : Sym) (k : Nat), (Tok.sym s).isKw k = false := fun _ _ => rfl
  cases hk : t.isKw a <;> rcases hs with rfl | ⟨n2, rfl⟩ <;> simp [eatKws, eatKw, hk, hsym]

/-- the printed variable is read back, up to the printed `=` -/
theorem vx_setTarget_reparse (c : TCfg) (f : Nat) {r0 r1 : List Tok} {tg : SetTarget}
    (h : setTarget c f r0 = .ok (tg, r1)) (hm : tg.isMany = false) (X : List Tok) :
    setTarget c f (toksOf tg.pieces ++ .sym .Eq :: X) = .ok (tg.norm, .sym .Eq :: X) := by
  obtain ⟨z1, -, -, -, -, -, z7⟩ := vx_tz_facts
  unfold setTarget at h
  split at h
  · rename_i tz r hk
    simp at h; obtain ⟨rfl, rfl⟩ := h
    simp only [SetTarget.pieces, SetTarget.norm, toksOf, List.map, kwP_tok, List.cons_append, List.nil_append]
    unfold setTarget
    simp only [eatKws, eatKw, z1, Bool.false_eq_true, if_false]
    have : eatSym (kwT "TIMEZONE" :: .sym .Eq :: X) .LParen = none := by simp [eatSym, kwT, Tok.isSym]
    simp only [this, ite_self]
    simp only [nameElem, objectName, List.nil_append]
    have hi : isIdentTok (kwT "TIMEZONE") = true := rfl
    simp only [hi, if_true, bqDotted, z7, Bool.and_false, Bool.false_eq_true, if_false]
  · split at h
    · split at h
      · simp at h
      · split at h
        · simp at h; obtain ⟨rfl, -⟩ := h; simp [SetTarget.isMany] at hm
        · simp at h
    · rename_i hnp
      split at h
      · simp at h
      · rename_i name r hn
        split at h
        · simp at h
        · rename_i hbq
          simp at h; obtain ⟨rfl, rfl⟩ := h
          obtain ⟨-, ⟨t, nm', rfl, hi, hs⟩, hre⟩ := vx_nameElem hn
          have hnp := toksOf_namePieces (t :: nm')
          simp only [SetTarget.pieces, SetTarget.norm, hnp]
          unfold setTarget
          rw [vx_eatKws_name hs]
          have : eatSym ((t :: nm') ++ .sym .Eq :: X) .LParen = none := by
            simp [eatSym, vx_ident_isSym hi]
          simp only [this, ite_self]
          rw [hre _ _ (by simp)]
          simp only [hbq, Bool.false_eq_true, if_false]

theorem vx_namesBranch_norm (c : TCfg) (tg : SetTarget) (hm : tg.isMany = false) (h : namesBranch c tg = false) :
    namesBranch c tg.norm = false := by
  obtain ⟨-, -, -, -, -, z6, -⟩ := vx_tz_facts
  cases tg with
  | one name => exact h
  | timeZone tz => simp [namesBranch, SetTarget.norm, z6]
  | many _ _ _ => simp [SetTarget.isMany] at hm

-- ------------------------------------------------------------------ what an accepted `SET variable = values` ran through
theorem vx_names_not (kw : Tok) (md colon name ts : List Tok) (s : Stmt) (rest : List Tok)
    (h : parseSetNames kw md colon name ts = .ok (s, rest)) : s.isSetVar = false := by
  unfold parseSetNames at h
  split at h
  · simp at h; obtain ⟨rfl, -⟩ := h; rfl
  · split at h
    · simp at h
    · split at h
      · simp at h
      · simp at h; obtain ⟨rfl, -⟩ := h; rfl

theorem vx_other_not (c : TCfg) (f d : Nat) (kw : Tok) (md colon : List Tok) (tg : SetTarget) (ts : List Tok) (s : Stmt)
    (rest : List Tok) (h : parseSetOther c f d kw md colon tg ts = .ok (s, rest)) : s.isSetVar = false := by
  unfold parseSetOther at h
  split at h
  · simp at h
  · split at h
    · split at h
      · simp at h
      · simp at h; obtain ⟨rfl, -⟩ := h; rfl
    · split at h
      · unfold parseSetCharacteristics at h
        split at h
        · simp at h
        · split at h
          · simp at h
          · simp at h; obtain ⟨rfl, -⟩ := h; rfl
      · split at h
        · unfold parseSetTransaction at h
          split at h
          · simp at h
          · split at h
            · simp at h
            · simp at h; obtain ⟨rfl, -⟩ := h; rfl
        · simp at h

theorem vx_var_parts (c : TCfg) (f d : Nat) (kw : Tok) (md colon r0 : List Tok) (s : Stmt) (rest : List Tok)
    (h : parseSetVar c f d kw md colon r0 = .ok (s, rest)) (hv : s.isSetVar = true) :
    ∃ tg r1 eq r2 lp r3 vs r4 rp, setTarget c f r0 = .ok (tg, r1) ∧ namesBranch c tg = false ∧ eqOrTo r1 = some (eq, r2) ∧
      optLParen tg.isMany r2 = .ok (lp, r3) ∧ commaSepE c.tc (setValue c f d) f r3 = .ok (vs, r4) ∧
      optRParen tg.isMany r4 = .ok (rp, rest) ∧ s = .setVar kw md colon tg eq lp vs rp := by
  unfold parseSetVar at h
  split at h
  · simp at h
  · rename_i tg r1 htg
    split at h
    · rw [vx_names_not _ _ _ _ _ _ _ h] at hv; simp at hv
    · rename_i hnb
      split at h
      · rename_i eq r2 heq
        unfold parseSetValues at h
        split at h
        · simp at h
        · rename_i lp r3 hlp
          split at h
          · simp at h
          · rename_i vs r4 hvs
            split at h
            · simp at h
            · rename_i rp r5 hrp
              simp at h; obtain ⟨rfl, rfl⟩ := h
              exact ⟨tg, r1, eq, r2, lp, r3, vs, r4, rp, htg, by simpa using hnb, heq, hlp, hvs, hrp, rfl⟩
      · rw [vx_other_not _ _ _ _ _ _ _ _ _ _ h] at hv; simp at hv

theorem vx_tail_parts (c : TCfg) (f d : Nat) (kw : Tok) (md ts0 : List Tok) (s : Stmt) (rest : List Tok)
    (h : parseSetTail c f d kw md ts0 = .ok (s, rest)) (hv : s.isSetVar = true) :
    roleAhead md ts0 = none ∧ ∃ colon r0, hivevarColon md ts0 = .ok (colon, r0) ∧
      parseSetVar c f d kw md colon r0 = .ok (s, rest) := by
  unfold parseSetTail at h
  split at h
  · unfold parseSetRole at h
    split at h
    · simp at h
    · simp at h; obtain ⟨rfl, -⟩ := h; simp [Stmt.isSetVar] at hv
  · rename_i hra
    split at h
    · simp at h
    · rename_i colon r0 hc
      exact ⟨hra, colon, r0, hc, h⟩

-- ------------------------------------------------------------------ the printed tokens
theorem vx_showToks (kw : Tok) (md colon : List Tok) (tg : SetTarget) (eq : Tok) (lp : List Tok) (vs : Sep Expr) (rp : List Tok)
    (hm : tg.isMany = false) :
    (Stmt.setVar kw md colon tg eq lp vs rp).showToks =
      kwT "SET" :: ((if isLocal md then [kwT "LOCAL"] else []) ++ ((if isHivevar md then [kwT "HIVEVAR", .sym .Colon] else []) ++
        (toksOf tg.pieces ++ .sym .Eq :: sepFlat Expr.flatten (sepNorm Expr.norm vs)))) := by
  have hv : toksOf (sepPieces Expr.pieces vs) = sepFlat Expr.flatten (sepNorm Expr.norm vs) :=
    toksOf_sepPieces Expr.pieces Expr.flatten Expr.norm (fun v => showToks_eq v) vs
  show toksOf (setVarPieces md tg vs) = _
  unfold setVarPieces localPieces
  simp only [hm, Bool.false_eq_true, if_false, Pratt.toksOf_append, Pratt.toksOf_spaced, hv]
  have hs := Pratt.toksOf_spaced tg.pieces
  have hg := Pratt.toksOf_glued tg.pieces
  simp only [toksOf] at hs hg
  cases isLocal md <;> cases isHivevar md <;> simp [toksOf, hs, hg]

theorem vx_or3 (t : Tok) (a b c k : Nat) (hk : k = a ∨ k = b ∨ k = c) (h : t.isKw k = true) :
    (t.isKw a || t.isKw b || t.isKw c) = true := by
  rcases hk with rfl | rfl | rfl <;> simp [h]

theorem vx_target_head (c : TCfg) (f : Nat) {r0 r1 : List Tok} {tg : SetTarget}
    (h : setTarget c f r0 = .ok (tg, r1)) (hm : tg.isMany = false) :
    ∃ t tl, toksOf tg.pieces = t :: tl ∧ (t.isKw TK.ROLE = true → peekKw r0 TK.ROLE = true) ∧
      ∀ k, k = TK.SESSION ∨ k = TK.LOCAL ∨ k = TK.HIVEVAR → t.isKw k = true → peekKw r0 k = true ∧ tg.mdFree = false := by
  obtain ⟨-, z2, z3, z4, z5, -, -⟩ := vx_tz_facts
  cases tg with
  | many _ _ _ => simp [SetTarget.isMany] at hm
  | timeZone tz =>
    refine ⟨kwT "TIMEZONE", [], rfl, ?_, ?_⟩
    · intro h; rw [z5] at h; cases h
    intro k hk3 hk
    rcases hk3 with h | h | h
    · rw [h, z2] at hk; cases hk
    · rw [h, z3] at hk; cases hk
    · rw [h, z4] at hk; cases hk
  | one name =>
    unfold setTarget at h
    split at h
    · simp at h
    · split at h
      · split at h
        · simp at h
        · split at h <;> simp at h
      · split at h
        · simp at h
        · rename_i name' r hn
          split at h
          · simp at h
          · simp at h; obtain ⟨rfl, rfl⟩ := h
            obtain ⟨h1, ⟨t, nm', rfl, hi, hs⟩, -⟩ := vx_nameElem hn
            subst h1
            refine ⟨t, nm', toksOf_namePieces _, fun h => h, ?_⟩
            intro k hk3 hk
            refine ⟨hk, ?_⟩
            show (!(t.isKw TK.SESSION || t.isKw TK.LOCAL || t.isKw TK.HIVEVAR)) = false
            rw [vx_or3 t _ _ _ k hk3 hk]; rfl

theorem vx_oneOf3 (a b c : Nat) (ts : List Tok) :
    (oneOfTail [a, b, c] ts = ([], ts) ∧ peekKw ts a = false ∧ peekKw ts b = false ∧ peekKw ts c = false) ∨
    (∃ t r, ts = t :: r ∧ oneOfTail [a, b, c] ts = ([t], r) ∧ (t.isKw a = true ∨ t.isKw b = true ∨ t.isKw c = true)) := by
  cases ts with
  | nil => left; simp [oneOfTail, eatKw, peekKw]
  | cons t r =>
    cases ha : t.isKw a <;> cases hb : t.isKw b <;> cases hc : t.isKw c <;> simp [oneOfTail, eatKw, peekKw, ha, hb, hc]

theorem vx_oneOf3_none (a b c : Nat) (t : Tok) (r : List Tok) (ha : t.isKw a = false) (hb : t.isKw b = false)
    (hc : t.isKw c = false) : oneOfTail [a, b, c] (t :: r) = ([], t :: r) := by
  simp [oneOfTail, eatKw, ha, hb, hc]

theorem vx_all_suffix {p : Tok → Bool} {a b l : List Tok} (h : l = a ++ b) (hl : l.all p = true) : b.all p = true := by
  subst h; rw [List.all_append, Bool.and_eq_true] at hl; exact hl.2

-- ------------------------------------------------------------------ from the variable on
theorem vx_setVar_reparse (c : TCfg) (f d : Nat) {r0 r1 r2 r3 r4 lp rp : List Tok} {tg : SetTarget} {eq : Tok} {vs : Sep Expr}
    (h1 : setTarget c f r0 = .ok (tg, r1)) (h2 : namesBranch c tg = false) (h3 : eqOrTo r1 = some (eq, r2))
    (h4 : optLParen tg.isMany r2 = .ok (lp, r3)) (h5 : commaSepE c.tc (setValue c f d) f r3 = .ok (vs, r4))
    (h6 : optRParen tg.isMany r4 = .ok (rp, [])) (hm : tg.isMany = false)
    (hp : (vs.all fun p => p.1.printable) = true) (hn : sepNormal (fun _ => true) vs = true) (ht : r0.all tokOk = true)
    (md' colon' : List Tok) :
    parseSetVar c f d (kwT "SET") md' colon' (toksOf tg.pieces ++ .sym .Eq :: sepFlat Expr.flatten (sepNorm Expr.norm vs)) =
      .ok (.setVar (kwT "SET") md' colon' tg.norm (.sym .Eq) [] (sepNorm Expr.norm vs) [], []) := by
  have hm' : tg.norm.isMany = false := by cases tg <;> simp_all [SetTarget.isMany, SetTarget.norm]
  rw [hm] at h4 h6
  simp [optLParen] at h4; obtain ⟨rfl, rfl⟩ := h4
  simp [optRParen] at h6; obtain ⟨rfl, rfl⟩ := h6
  have ht3 : r2.all tokOk = true :=
    vx_all_suffix (a := [eq]) (eqOrTo_yield h3) (vx_all_suffix (setTarget_yield _ _ _ _ _ h1) ht)
  have hv := vx_values_reparse c f d f h5 hp hn ht3 (r' := []) rfl
  rw [List.append_nil] at hv
  unfold parseSetVar
  rw [vx_setTarget_reparse c f h1 hm]
  simp only [vx_namesBranch_norm c tg hm h2, Bool.false_eq_true, if_false]
  have he : ∀ X, eqOrTo (.sym .Eq :: X) = some (.sym .Eq, X) := by intro X; simp [eqOrTo, eatSym, Tok.isSym]
  rw [he]
  simp only [parseSetValues, hm', optLParen, optRParen, Bool.false_eq_true, if_false, hv]

theorem vx_peek_cons (t : Tok) (r : List Tok) (k : Nat) : peekKw (t :: r) k = t.isKw k := rfl

theorem vx_false_of {b : Bool} (h : b = true → False) : b = false := by cases b <;> simp_all

theorem vx_eatKw_none {ts : List Tok} {k : Nat} (h : eatKw ts k = none) : peekKw ts k = false := by
  cases ts with
  | nil => rfl
  | cons a b =>
    cases hk : a.isKw k
    · exact hk
    · simp [eatKw, hk] at h

theorem vx_eatKw_none' {t : Tok} {r : List Tok} {k : Nat} (h : t.isKw k = false) : eatKw (t :: r) k = none := by
  simp [eatKw, h]

theorem vx_ko2 (a b c : Nat) (t : Tok) (X : List Tok) (h1 : t.isKw a = false) (h2 : t.isKw b = true) :
    oneOfTail [a, b, c] (t :: X) = ([t], X) := by
  simp [oneOfTail, eatKw, h1, h2]

theorem vx_ko3 (a b c : Nat) (t : Tok) (X : List Tok) (h1 : t.isKw a = false) (h2 : t.isKw b = false) (h3 : t.isKw c = true) :
    oneOfTail [a, b, c] (t :: X) = ([t], X) := by
  simp [oneOfTail, eatKw, h1, h2, h3]

theorem vx_kh (t : Tok) : isHivevar [t] = t.isKw TK.HIVEVAR := by simp [isHivevar]

theorem vx_colon (X : List Tok) : eatSym (.sym .Colon :: X) .Colon = some (.sym .Colon, X) := by simp [eatSym, Tok.isSym]

/-- the statement -/
theorem fixVar_set (c : TCfg) (f d : Nat) (kw : Tok) (ts rest : List Tok) (s : Stmt)
    (h : parseSet c f d kw ts = .ok (s, rest)) (hv : s.isSetVar = true) (hp : s.varPrintable = true)
    (hn : s.varNormal = true) (ht : ts.all tokOk = true) (hr : rest = []) :
    parseStmt c f (d + 1) s.showToks = .ok (s.norm, []) := by
  subst hr
  obtain ⟨m1, m2, m3, m4, m5, m6, n1, n2, n3, n4, n5, n6⟩ := vx_md_facts
  unfold parseSet at h
  have hy0 := oneOfTail_yield [TK.SESSION, TK.LOCAL, TK.HIVEVAR] ts
  generalize hmd : oneOfTail [TK.SESSION, TK.LOCAL, TK.HIVEVAR] ts = A at h hy0
  obtain ⟨md, ts0⟩ := A
  simp only at h hy0
  obtain ⟨hra, colon, r0, hc, hvar⟩ := vx_tail_parts _ _ _ _ _ _ _ _ h hv
  obtain ⟨tg, r1, eq, r2, lp, r3, vs, r4, rp, h1, h2, h3, h4, h5, h6, rfl⟩ := vx_var_parts _ _ _ _ _ _ _ _ _ hvar hv
  simp only [Stmt.varPrintable] at hp
  simp only [Stmt.varNormal, Bool.and_eq_true, Bool.not_eq_true'] at hn
  obtain ⟨⟨hn1, hm⟩, hn3⟩ := hn
  have ht0 : r0.all tokOk = true := vx_all_suffix (hivevarColon_yield _ _ _ _ hc) (vx_all_suffix hy0 ht)
  have core := vx_setVar_reparse c f d h1 h2 h3 h4 h5 h6 hm hp hn1 ht0
  obtain ⟨t, tl, hhd, hrole, hmdk⟩ := vx_target_head c f h1 hm
  rw [vx_showToks _ _ _ _ _ _ _ _ hm, vx_dispatch_set]
  rw [hhd] at core ⊢
  simp only [Stmt.norm, hm, Bool.false_eq_true, if_false]
  rcases vx_oneOf3 TK.SESSION TK.LOCAL TK.HIVEVAR ts with ⟨q0, q1, q2, q3⟩ | ⟨t0, tr, rfl, q0, q⟩
  · -- no modifier
    rw [q0] at hmd
    simp only [Prod.mk.injEq] at hmd
    obtain ⟨rfl, rfl⟩ := hmd
    have hL : isLocal [] = false := rfl
    have hH : isHivevar [] = false := rfl
    simp only [hivevarColon, hH, Bool.false_eq_true, if_false, Except.ok.injEq, Prod.mk.injEq] at hc
    obtain ⟨rfl, rfl⟩ := hc
    simp only [roleAhead, hH, Bool.false_eq_true, if_false] at hra
    have tS : t.isKw TK.SESSION = false := vx_false_of fun hk => by
      have := (hmdk _ (Or.inl rfl) hk).1; rw [q1] at this; cases this
    have tL : t.isKw TK.LOCAL = false := vx_false_of fun hk => by
      have := (hmdk _ (Or.inr (Or.inl rfl)) hk).1; rw [q2] at this; cases this
    have tH : t.isKw TK.HIVEVAR = false := vx_false_of fun hk => by
      have := (hmdk _ (Or.inr (Or.inr rfl)) hk).1; rw [q3] at this; cases this
    have tR : t.isKw TK.ROLE = false := vx_false_of fun hk => by
      have := hrole hk; rw [vx_eatKw_none hra] at this; cases this
    simp only [varMdNorm, varColonNorm, hL, hH, Bool.false_eq_true, if_false, List.nil_append, List.cons_append,
      Bool.not_false, Bool.and_false]
    unfold parseSet
    rw [vx_oneOf3_none _ _ _ _ _ tS tL tH]
    simp only [parseSetTail, roleAhead, hH, Bool.false_eq_true, if_false, eatKw, tR, hivevarColon]
    exact core [] []
  · rw [q0] at hmd
    simp only [Prod.mk.injEq] at hmd
    obtain ⟨rfl, rfl⟩ := hmd
    have hL0 : isLocal [t0] = t0.isKw TK.LOCAL := by simp [isLocal]
    have hH0 : isHivevar [t0] = t0.isKw TK.HIVEVAR := by simp [isHivevar]
    by_cases hL : t0.isKw TK.LOCAL = true
    · -- LOCAL
      have hH : t0.isKw TK.HIVEVAR = false := isKw_excl hL n3
      rw [hL] at hL0; rw [hH] at hH0
      simp only [hivevarColon, hH0, Bool.false_eq_true, if_false, Except.ok.injEq, Prod.mk.injEq] at hc
      obtain ⟨rfl, rfl⟩ := hc
      simp only [roleAhead, hH0, Bool.false_eq_true, if_false] at hra
      have tR : t.isKw TK.ROLE = false := vx_false_of fun hk => by
        have := hrole hk; rw [vx_eatKw_none hra] at this; cases this
      have kH : isHivevar [kwT "LOCAL"] = false := (vx_kh _).trans m3
      simp only [varMdNorm, varColonNorm, hL0, hH0, Bool.false_eq_true, if_false, if_true, List.nil_append, List.cons_append,
        Bool.not_false, Bool.not_true, Bool.and_false, Bool.false_and]
      unfold parseSet
      rw [vx_ko2 _ _ _ _ _ m1 m2]
      simp only [parseSetTail, roleAhead, kH, Bool.false_eq_true, if_false, vx_eatKw_none' tR, hivevarColon]
      exact core _ _
    · have hL' : t0.isKw TK.LOCAL = false := by simpa using hL
      rw [hL'] at hL0
      by_cases hH : t0.isKw TK.HIVEVAR = true
      · -- HIVEVAR
        rw [hH] at hH0
        simp only [hivevarColon, hH0, if_true] at hc
        split at hc
        · rename_i cl rc hcl
          simp only [Except.ok.injEq, Prod.mk.injEq] at hc
          obtain ⟨rfl, rfl⟩ := hc
          have kH : isHivevar [kwT "HIVEVAR"] = true := (vx_kh _).trans m6
          simp only [varMdNorm, varColonNorm, hL0, hH0, Bool.false_eq_true, if_false, if_true, List.nil_append,
            List.cons_append, Bool.not_false, Bool.and_self]
          unfold parseSet
          rw [vx_ko3 _ _ _ _ _ m4 m5 m6]
          simp only [parseSetTail, roleAhead, kH, if_true, hivevarColon, vx_colon]
          exact core _ _
        · simp at hc
      · -- SESSION (dropped by the printer)
        have hH' : t0.isKw TK.HIVEVAR = false := by simpa using hH
        rw [hH'] at hH0
        simp only [hivevarColon, hH0, Bool.false_eq_true, if_false, Except.ok.injEq, Prod.mk.injEq] at hc
        obtain ⟨rfl, rfl⟩ := hc
        simp only [roleAhead, hH0, Bool.false_eq_true, if_false] at hra
        simp only [hL0, hH0, List.isEmpty_cons, Bool.false_or, Bool.or_false] at hn3
        have tS : t.isKw TK.SESSION = false := vx_false_of fun hk => by
          have := (hmdk _ (Or.inl rfl) hk).2; rw [hn3] at this; cases this
        have tL : t.isKw TK.LOCAL = false := vx_false_of fun hk => by
          have := (hmdk _ (Or.inr (Or.inl rfl)) hk).2; rw [hn3] at this; cases this
        have tH : t.isKw TK.HIVEVAR = false := vx_false_of fun hk => by
          have := (hmdk _ (Or.inr (Or.inr rfl)) hk).2; rw [hn3] at this; cases this
        have tR : t.isKw TK.ROLE = false := vx_false_of fun hk => by
          have := hrole hk; rw [vx_eatKw_none hra] at this; cases this
        have kH : isHivevar [] = false := rfl
        simp only [varMdNorm, varColonNorm, hL0, hH0, Bool.false_eq_true, if_false, List.nil_append, List.cons_append,
          Bool.not_false, Bool.and_false]
        unfold parseSet
        rw [vx_oneOf3_none _ _ _ _ _ tS tL tH]
        simp only [parseSetTail, roleAhead, kH, Bool.false_eq_true, if_false, vx_eatKw_none' tR, hivevarColon]
        exact core [] []

/-- the full statement, the tuple target `SET (a, b) = (1, 2)` included: NOT proved (missing: the re-parse of the printed
identifier list `commaSepE c.tc identElem` inside `setTarget`, and `optLParen` / `optRParen` around the values) -/
def vx_tupleStatement : Prop :=
  ∀ (c : TCfg) (f d : Nat) (kw : Tok) (ts : List Tok) (s : Stmt), parseSet c f d kw ts = .ok (s, []) → s.isSetVar = true →
    s.varPrintable = true →
    (match s with
     | .setVar _ md _ tg _ _ vs _ =>
       sepNormal (fun _ => true) vs && (md.isEmpty || isLocal md || isHivevar md || tg.mdFree) &&
         (match tg with | .many _ ids _ => sepNormal (fun _ => true) ids | _ => true)
     | _ => false) = true →
    ts.all tokOk = true → parseStmt c f (d + 1) s.showToks = .ok (s.norm, [])

section Witnesses
private def vx_g : TCfg := TCfg.ofRow dialect_generic
private def vx_kw (s : String) : Tok := .word (str s) none (some (kwIndex s))
private def vx_wd (s : String) : Tok := .word (str s) none none
private def vx_num (s : String) : Tok := .number (str s) false

/-- non-vacuity of `fixVar_set`: `SET SESSION TIME ZONE TO 1, c + 2` and `SET HIVEVAR : a.b = 'x'` satisfy every
hypothesis, and the conclusion holds on them -/
example :
    (match parseSet vx_g 100 40 (vx_kw "SET")
        [vx_kw "SESSION", vx_kw "TIME", vx_kw "ZONE", vx_kw "TO", vx_num "1", .sym .Comma, vx_wd "c", .sym .Plus, vx_num "2"] with
     | .ok (s, []) => s.isSetVar && s.varPrintable && s.varNormal &&
         (match parseStmt vx_g 100 41 s.showToks with | .ok (s', []) => s' == s.norm | _ => false)
     | _ => false) = true ∧
    (match parseSet vx_g 100 40 (vx_kw "SET")
        [vx_kw "HIVEVAR", .sym .Colon, vx_wd "a", .sym .Period, vx_wd "b", .sym .Eq, .sqs (str "x")] with
     | .ok (s, []) => s.isSetVar && s.varPrintable && s.varNormal &&
         (match parseStmt vx_g 100 41 s.showToks with | .ok (s', []) => s' == s.norm | _ => false)
     | _ => false) = true := by decide +kernel

/-- the side condition `SetTarget.mdFree` is needed: `SET SESSION LOCAL = 1` is accepted (the variable is called
`LOCAL`), `Display` drops `SESSION`, and the printed `SET LOCAL = 1` is rejected -/
example :
    (match parseSet vx_g 100 40 (vx_kw "SET") [vx_kw "SESSION", vx_kw "LOCAL", .sym .Eq, vx_num "1"] with
     | .ok (s, []) => s.isSetVar && s.varPrintable && !s.varNormal &&
         (match parseStmt vx_g 100 41 s.showToks with | .error (.syntax _) => true | _ => false)
     | _ => false) = true := by decide +kernel
end Witnesses
end SqlVerif.Tcl

import SqlVerif.Model.QueryPrint
import SqlVerif.Lemmas.PrattLemmas
/-!
Lemmas about the query model (`Model/Query.lean`).

Part 1: the in-order token yield of query trees (`flatten`) and the fact that every parser function
of the model consumes exactly the yield of what it builds (`query_yield_all`, simultaneous induction
on the fuel over the mutual block; the expression part is `Pratt.yield_all`).
-/
namespace SqlVerif.Query
open SqlVerif.Pratt SqlVerif.Gen
open SqlVerif.SetClimb (Op SQuant precOf)

-- ------------------------------------------------------------------ yields
def sepFlat {α : Type} (fl : α → List Tok) : Sep α → List Tok
  | [] => []
  | p :: rest => fl p.1 ++ p.2 ++ sepFlat fl rest

def SelectItem.flatten : SelectItem → List Tok
  | .expr e al => e.flatten ++ al
  | .wildcard t => [t]
  | .qualified toks => toks

def OrderByExpr.flatten (o : OrderByExpr) : List Tok := o.e.flatten ++ o.dir ++ o.nulls

def LimClause.flatten : LimClause → List Tok
  | .limit kw e => kw :: e.flatten
  | .limitAll kw a => [kw, a]
  | .offset kw e rows => kw :: e.flatten ++ rows
  | .comma t e => t :: e.flatten

def limsFlat : List LimClause → List Tok
  | [] => []
  | c :: rest => c.flatten ++ limsFlat rest

def QueryTail.flatten (qt : QueryTail) : List Tok :=
  qt.orderKw ++ sepFlat OrderByExpr.flatten qt.order ++ limsFlat qt.lims

def SelHead.flatten (hd : SelHead) : List Tok := hd.sel :: hd.quant ++ sepFlat SelectItem.flatten hd.proj

def optFlat : Option Expr → List Tok
  | some e => e.flatten
  | none => []

def SelTail.flatten (tl : SelTail) : List Tok :=
  tl.whereKw ++ optFlat tl.selection ++ tl.groupKw ++ sepFlat Expr.flatten tl.group ++ tl.havingKw ++ optFlat tl.having

def Conn.toks : Conn → List Tok
  | .from t => [t]
  | .comma t => [t]
  | .join _ toks => toks

def JoinCstr.flatten : JoinCstr → List Tok
  | .none => []
  | .on kw e => kw :: e.flatten
  | .using kw lp cols rp => kw :: lp :: sepFlat (fun t => [t]) cols ++ [rp]

def QNode.flatten : QNode → List Tok
  | .select hd frm tl => hd.flatten ++ frm.flatten ++ tl.flatten
  | .paren lp body qt rp => lp :: body.flatten ++ qt.flatten ++ [rp]
  | .setOp l _ _ ops r => l.flatten ++ ops ++ r.flatten
  | .fnil trail => trail
  | .ftable conn name al cstr rest => conn.toks ++ name ++ al ++ cstr.flatten ++ rest.flatten
  | .fderived conn lp body qt rp al cstr rest =>
    conn.toks ++ lp :: body.flatten ++ qt.flatten ++ [rp] ++ al ++ cstr.flatten ++ rest.flatten

def Query.flatten (q : Query) : List Tok := q.body.flatten ++ q.tail.flatten

theorem limsFlat_append (a b : List LimClause) : limsFlat (a ++ b) = limsFlat a ++ limsFlat b := by
  induction a with
  | nil => rfl
  | cons c r ih => simp [limsFlat, ih]

-- ------------------------------------------------------------------ helpers consume what they return
theorem parseE_yield (c : QCfg) (f d : Nat) (ts : List Tok) (e : Expr) (rest : List Tok)
    (h : parseE c f d ts = .ok (e, rest)) : ts = e.flatten ++ rest :=
  (yield_all c.e f).1 _ _ _ _ _ h

theorem commaSepE_yield {α : Type} (tc : Bool) (elem : List Tok → Res α) (fl : α → List Tok)
    (hel : ∀ ts v rest, elem ts = .ok (v, rest) → ts = fl v ++ rest) :
    ∀ (n : Nat) (ts : List Tok) (vs : Sep α) (rest : List Tok),
      commaSepE tc elem n ts = .ok (vs, rest) → ts = sepFlat fl vs ++ rest := by
  intro n
  induction n with
  | zero => intro ts vs rest h; simp [commaSepE] at h
  | succ n ih =>
    intro ts vs rest h
    simp only [commaSepE] at h
    split at h
    · simp at h
    · rename_i v r1 he
      have h1 := hel _ _ _ he
      split at h
      · rename_i r2
        split at h
        · simp at h; obtain ⟨rfl, rfl⟩ := h
          simp [sepFlat, h1]
        · split at h
          · simp at h
          · rename_i vs' r3 hr
            have h2 := ih _ _ _ hr
            simp at h; obtain ⟨rfl, rfl⟩ := h
            simp [sepFlat, h1, h2]
      · simp at h; obtain ⟨rfl, rfl⟩ := h
        simp [sepFlat, h1]

theorem optAlias_yield (res : List Nat) (ts al rest : List Tok) (h : optAlias res ts = .ok (al, rest)) :
    ts = al ++ rest := by
  unfold optAlias at h
  split at h
  · rename_i asT r hk
    have := (eatKw_some_iff _ _ _ _).1 hk
    split at h
    · simp at h
    · split at h
      · simp at h; obtain ⟨rfl, rfl⟩ := h; simp [this.1]
      · simp at h
  · repeat' split at h
    all_goals first
      | (simp at h; done)
      | (simp at h; obtain ⟨rfl, rfl⟩ := h; simp)

theorem identElem_yield (ts : List Tok) (t : Tok) (rest : List Tok) (h : identElem ts = .ok (t, rest)) :
    ts = [t] ++ rest := by
  unfold identElem at h
  split at h
  · simp at h
  · split at h
    · simp at h; obtain ⟨rfl, rfl⟩ := h; rfl
    · simp at h

theorem qualScan_yield (acc ts toks rest : List Tok) (h : qualScan acc ts = .wild toks rest) :
    acc ++ ts = toks ++ rest := by
  fun_induction qualScan acc ts <;> simp_all
  all_goals (obtain ⟨rfl, rfl⟩ := h; simp)

theorem groupByElem_yield (c : QCfg) (f d : Nat) (ts : List Tok) (e : Expr) (rest : List Tok)
    (h : groupByElem c f d ts = .ok (e, rest)) : ts = e.flatten ++ rest := by
  unfold groupByElem at h
  split at h
  · simp at h
  · exact parseE_yield _ _ _ _ _ _ h

theorem dirTail_yield (ts : List Tok) : ts = (dirTail ts).1 ++ (dirTail ts).2 := by
  unfold dirTail
  split
  · rename_i t r hk; simp [(eatKw_some_iff _ _ _ _).1 hk]
  · split
    · rename_i t r hk; simp [(eatKw_some_iff _ _ _ _).1 hk]
    · simp

theorem rowsTail_yield (ts : List Tok) : ts = (rowsTail ts).1 ++ (rowsTail ts).2 := by
  unfold rowsTail
  split
  · rename_i t r hk; simp [(eatKw_some_iff _ _ _ _).1 hk]
  · split
    · rename_i t r hk; simp [(eatKw_some_iff _ _ _ _).1 hk]
    · simp

theorem allTail_yield (ts : List Tok) : ts = (allTail ts).1 ++ (allTail ts).2 := by
  unfold allTail
  split
  · rename_i t r hk; simp [(eatKw_some_iff _ _ _ _).1 hk]
  · simp

theorem nullsTail_yield (ts : List Tok) : ts = (nullsTail ts).1 ++ (nullsTail ts).2 := by
  unfold nullsTail
  split
  · rename_i p hk; exact eatKws_yield _ _ _ _ hk
  · split
    · rename_i p hk; exact eatKws_yield _ _ _ _ hk
    · simp

theorem orderByElem_yield (c : QCfg) (f d : Nat) (ts : List Tok) (o : OrderByExpr) (rest : List Tok)
    (h : orderByElem c f d ts = .ok (o, rest)) : ts = o.flatten ++ rest := by
  unfold orderByElem at h
  split at h
  · simp at h
  · rename_i e r0 he
    have h1 := parseE_yield _ _ _ _ _ _ he
    split at h
    · simp at h
    · simp at h
      obtain ⟨rfl, rfl⟩ := h
      have h2 := dirTail_yield r0
      have h3 := nullsTail_yield (dirTail r0).2
      simp only [OrderByExpr.flatten, List.append_assoc]
      rw [← h3, ← h2, h1]

theorem limPart_yield (c : QCfg) (f d : Nat) (cs : List LimClause) (ts : List Tok) (cs' : List LimClause)
    (rest : List Tok) (h : limPart c f d cs ts = .ok (cs', rest)) :
    ∃ new, cs' = cs ++ new ∧ ts = limsFlat new ++ rest := by
  unfold limPart at h
  split at h
  · split at h
    · rename_i kw r hk
      have hk' := (eatKw_some_iff _ _ _ _).1 hk
      split at h
      · rename_i a r' ha
        have ha' := (eatKw_some_iff _ _ _ _).1 ha
        simp at h; obtain ⟨rfl, rfl⟩ := h
        exact ⟨[.limitAll kw a], rfl, by simp [limsFlat, LimClause.flatten, hk'.1, ha'.1]⟩
      · split at h
        · simp at h
        · rename_i e r' he
          have := parseE_yield _ _ _ _ _ _ he
          simp at h; obtain ⟨rfl, rfl⟩ := h
          exact ⟨[.limit kw e], rfl, by simp [limsFlat, LimClause.flatten, hk'.1, this]⟩
    · simp at h; obtain ⟨rfl, rfl⟩ := h; exact ⟨[], by simp, by simp [limsFlat]⟩
  · simp at h; obtain ⟨rfl, rfl⟩ := h; exact ⟨[], by simp, by simp [limsFlat]⟩

theorem offPart_yield (c : QCfg) (f d : Nat) (cs : List LimClause) (ts : List Tok) (cs' : List LimClause)
    (rest : List Tok) (h : offPart c f d cs ts = .ok (cs', rest)) :
    ∃ new, cs' = cs ++ new ∧ ts = limsFlat new ++ rest := by
  unfold offPart at h
  split at h
  · split at h
    · rename_i kw r hk
      have hk' := (eatKw_some_iff _ _ _ _).1 hk
      split at h
      · simp at h
      · rename_i e r' he
        have := parseE_yield _ _ _ _ _ _ he
        simp at h; obtain ⟨rfl, rfl⟩ := h
        refine ⟨[.offset kw e (rowsTail r').1], rfl, ?_⟩
        have hr := rowsTail_yield r'
        simp only [limsFlat, LimClause.flatten, List.append_nil, hk'.1, this, List.cons_append, List.append_assoc]
        rw [← hr]
    · simp at h; obtain ⟨rfl, rfl⟩ := h; exact ⟨[], by simp, by simp [limsFlat]⟩
  · simp at h; obtain ⟨rfl, rfl⟩ := h; exact ⟨[], by simp, by simp [limsFlat]⟩

theorem commaPart_yield (c : QCfg) (f d : Nat) (cs : List LimClause) (ts : List Tok) (cs' : List LimClause)
    (rest : List Tok) (h : commaPart c f d cs ts = .ok (cs', rest)) :
    ∃ new, cs' = cs ++ new ∧ ts = limsFlat new ++ rest := by
  unfold commaPart at h
  split at h
  · split at h
    · rename_i r
      split at h
      · simp at h
      · rename_i e r' he
        have := parseE_yield _ _ _ _ _ _ he
        simp at h; obtain ⟨rfl, rfl⟩ := h
        exact ⟨[.comma (.sym .Comma) e], rfl, by simp [limsFlat, LimClause.flatten, this]⟩
    · simp at h; obtain ⟨rfl, rfl⟩ := h; exact ⟨[], by simp, by simp [limsFlat]⟩
  · simp at h; obtain ⟨rfl, rfl⟩ := h; exact ⟨[], by simp, by simp [limsFlat]⟩

theorem limStep_yield (c : QCfg) (f d : Nat) (cs : List LimClause) (ts : List Tok) (cs' : List LimClause)
    (rest : List Tok) (h : limStep c f d cs ts = .ok (cs', rest)) :
    ∃ new, cs' = cs ++ new ∧ ts = limsFlat new ++ rest := by
  unfold limStep at h
  split at h
  · simp at h
  · rename_i cs1 ts1 h1
    obtain ⟨n1, rfl, e1⟩ := limPart_yield _ _ _ _ _ _ _ h1
    split at h
    · simp at h
    · rename_i cs2 ts2 h2
      obtain ⟨n2, rfl, e2⟩ := offPart_yield _ _ _ _ _ _ _ h2
      obtain ⟨n3, rfl, e3⟩ := commaPart_yield _ _ _ _ _ _ _ h
      exact ⟨n1 ++ n2 ++ n3, by simp, by simp [limsFlat_append, e1, e2, e3]⟩

theorem orderPart_yield (c : QCfg) (f d : Nat) (ts : List Tok) (ko : List Tok × Sep OrderByExpr) (rest : List Tok)
    (h : orderPart c f d ts = .ok (ko, rest)) : ts = ko.1 ++ sepFlat OrderByExpr.flatten ko.2 ++ rest := by
  unfold orderPart at h
  split at h
  · rename_i kws r hk
    have hk' := eatKws_yield _ _ _ _ hk
    split at h
    · simp at h
    · rename_i os r' hl
      have := commaSepE_yield _ _ OrderByExpr.flatten (orderByElem_yield c f d) _ _ _ _ hl
      split at h
      · simp at h
      · simp at h; obtain ⟨rfl, rfl⟩ := h
        simp [hk', this]
  · simp at h; obtain ⟨rfl, rfl⟩ := h; simp [sepFlat]

theorem queryTail_yield (c : QCfg) (f d : Nat) (ts : List Tok) (qt : QueryTail) (rest : List Tok)
    (h : queryTail c f d ts = .ok (qt, rest)) : ts = qt.flatten ++ rest := by
  unfold queryTail at h
  split at h
  · simp at h
  · rename_i ko ts1 ho
    have h0 := orderPart_yield _ _ _ _ _ _ ho
    split at h
    · simp at h
    · rename_i cs1 ts2 h1
      obtain ⟨n1, rfl, e1⟩ := limStep_yield _ _ _ _ _ _ _ h1
      split at h
      · simp at h
      · rename_i cs2 ts3 h2
        obtain ⟨n2, rfl, e2⟩ := limStep_yield _ _ _ _ _ _ _ h2
        split at h
        · simp at h
        · simp at h; obtain ⟨rfl, rfl⟩ := h
          simp [QueryTail.flatten, h0, e1, e2, limsFlat_append]

theorem itemViaExpr_yield (c : QCfg) (f d : Nat) (ts : List Tok) (v : SelectItem) (rest : List Tok)
    (h : itemViaExpr c f d ts = .ok (v, rest)) : ts = v.flatten ++ rest := by
  unfold itemViaExpr at h
  split at h
  · simp at h
  · rename_i e r1 he
    have h1 := parseE_yield _ _ _ _ _ _ he
    split at h
    · simp at h
    · split at h
      · simp at h
      · rename_i al r2 ha
        have h2 := optAlias_yield _ _ _ _ ha
        simp at h; obtain ⟨rfl, rfl⟩ := h
        simp [SelectItem.flatten, h1, h2]

theorem selectItem_yield (c : QCfg) (f d : Nat) (ts : List Tok) (v : SelectItem) (rest : List Tok)
    (h : selectItem c f d ts = .ok (v, rest)) : ts = v.flatten ++ rest := by
  unfold selectItem at h
  split at h
  · rename_i t r
    split at h
    · split at h
      · simp at h
      · simp at h; obtain ⟨rfl, rfl⟩ := h; simp [SelectItem.flatten]
    · split at h
      · rename_i r'
        split at h
        · rename_i toks r2 hq
          have := qualScan_yield _ _ _ _ hq
          split at h
          · simp at h
          · simp at h; obtain ⟨rfl, rfl⟩ := h
            simp [SelectItem.flatten] at this ⊢; exact this
        · exact itemViaExpr_yield _ _ _ _ _ _ h
        · simp at h
      · exact itemViaExpr_yield _ _ _ _ _ _ h
    · split at h
      · rename_i r'
        split at h
        · rename_i toks r2 hq
          have := qualScan_yield _ _ _ _ hq
          split at h
          · simp at h
          · simp at h; obtain ⟨rfl, rfl⟩ := h
            simp [SelectItem.flatten] at this ⊢; exact this
        · exact itemViaExpr_yield _ _ _ _ _ _ h
        · simp at h
      · exact itemViaExpr_yield _ _ _ _ _ _ h
    · exact itemViaExpr_yield _ _ _ _ _ _ h
  · exact itemViaExpr_yield _ _ _ _ _ _ h

theorem setQuant_yield (ts : List Tok) : ts = (setQuant ts).2.1 ++ (setQuant ts).2.2 := by
  unfold setQuant
  split
  · rename_i ops r hk; exact eatKws_yield _ _ _ _ hk
  · split
    · rename_i ops r hk; exact eatKws_yield _ _ _ _ hk
    · split
      · rename_i a r hk
        have ha := (eatKw_some_iff _ _ _ _).1 hk
        split
        · rename_i ops r' hk2; simp [ha.1, eatKws_yield _ _ _ _ hk2]
        · simp [ha.1]
      · split
        · rename_i t r hk; simp [(eatKw_some_iff _ _ _ _).1 hk]
        · simp

theorem leftRightTail_yield (k0 : JoinKind) (t : Tok) (r0 : List Tok) (k : JoinKind) (toks r : List Tok)
    (h : leftRightTail k0 t r0 = .ok (.join k toks r)) : t :: r0 = toks ++ r := by
  unfold leftRightTail at h
  repeat' split at h
  all_goals first
    | (simp at h; done)
    | (simp at h; obtain ⟨rfl, rfl, rfl⟩ := h; simp_all [eatKw_some_iff])

theorem joinHead_yield (ts : List Tok) (k : JoinKind) (toks r : List Tok)
    (h : joinHead ts = .ok (.join k toks r)) : ts = toks ++ r := by
  unfold joinHead at h
  repeat' split at h
  all_goals first
    | (simp at h; done)
    | (simp at h; obtain ⟨rfl, rfl, rfl⟩ := h; simp_all [eatKw_some_iff]; done)
    | (rename_i hk; have := leftRightTail_yield _ _ _ _ _ _ h; simp_all [eatKw_some_iff]; done)

theorem joinCstr_yield (c : QCfg) (f d : Nat) (ts : List Tok) (k : JoinCstr) (rest : List Tok)
    (h : joinCstr c f d ts = .ok (k, rest)) : ts = k.flatten ++ rest := by
  unfold joinCstr at h
  split at h
  · rename_i kw r hk
    have hk' := (eatKw_some_iff _ _ _ _).1 hk
    split at h
    · simp at h
    · rename_i e r' he
      have := parseE_yield _ _ _ _ _ _ he
      simp at h; obtain ⟨rfl, rfl⟩ := h
      simp [JoinCstr.flatten, hk'.1, this]
  · split at h
    · rename_i kw r hk
      have hk' := (eatKw_some_iff _ _ _ _).1 hk
      split at h
      · rename_i r1
        split at h
        · simp at h
        · rename_i cols r2 hl
          have := commaSepE_yield _ _ (fun t => [t]) identElem_yield _ _ _ _ hl
          split at h
          · simp at h; obtain ⟨rfl, rfl⟩ := h
            simp [JoinCstr.flatten, hk'.1, this]
          · simp at h
      · simp at h
    · simp at h; obtain ⟨rfl, rfl⟩ := h; simp [JoinCstr.flatten]

theorem optCstr_yield (c : QCfg) (f d : Nat) (b : Bool) (ts : List Tok) (k : JoinCstr) (rest : List Tok)
    (h : optCstr c f d b ts = .ok (k, rest)) : ts = k.flatten ++ rest := by
  unfold optCstr at h
  split at h
  · exact joinCstr_yield _ _ _ _ _ _ h
  · simp at h; obtain ⟨rfl, rfl⟩ := h; simp [JoinCstr.flatten]

theorem objectName_yield (acc ts name rest : List Tok) (h : objectName acc ts = .ok (name, rest)) :
    acc ++ ts = name ++ rest := by
  fun_induction objectName acc ts <;> simp_all
  all_goals (obtain ⟨rfl, rfl⟩ := h; simp)

theorem optTableAlias_yield (ts al rest : List Tok) (h : optTableAlias ts = .ok (al, rest)) : ts = al ++ rest := by
  unfold optTableAlias at h
  split at h
  · simp at h
  · rename_i al' r ha
    have := optAlias_yield _ _ _ _ ha
    split at h
    · simp at h
    · simp at h; obtain ⟨rfl, rfl⟩ := h; exact this

theorem allOrDistinct_yield (ts : List Tok) (qd : List Tok × Bool) (rest : List Tok)
    (h : allOrDistinct ts = .ok (qd, rest)) : ts = qd.1 ++ rest := by
  unfold allOrDistinct at h
  have ha := allTail_yield ts
  split at h
  · simp at h; obtain ⟨rfl, rfl⟩ := h; exact ha
  · rename_i t r hk
    have hk' := (eatKw_some_iff _ _ _ _).1 hk
    split at h
    · simp at h
    · rename_i hne
      split at h
      · simp at h
      · simp at h; obtain ⟨rfl, rfl⟩ := h
        simp at hne
        rw [ha, hne, hk'.1]; simp

theorem kwExprPart_yield (c : QCfg) (f d k : Nat) (ts : List Tok) (w : List Tok × Option Expr) (rest : List Tok)
    (h : kwExprPart c f d k ts = .ok (w, rest)) : ts = w.1 ++ optFlat w.2 ++ rest := by
  unfold kwExprPart at h
  split at h
  · rename_i kw r hk
    have hk' := (eatKw_some_iff _ _ _ _).1 hk
    split at h
    · simp at h
    · rename_i e r' he
      have := parseE_yield _ _ _ _ _ _ he
      simp at h; obtain ⟨rfl, rfl⟩ := h
      simp [optFlat, hk'.1, this]
  · simp at h; obtain ⟨rfl, rfl⟩ := h; simp [optFlat]

theorem groupPart_yield (c : QCfg) (f d : Nat) (ts : List Tok) (g : List Tok × Sep Expr) (rest : List Tok)
    (h : groupPart c f d ts = .ok (g, rest)) : ts = g.1 ++ sepFlat Expr.flatten g.2 ++ rest := by
  unfold groupPart at h
  split at h
  · rename_i kws r hk
    have hk' := eatKws_yield _ _ _ _ hk
    split at h
    · simp at h
    · split at h
      · simp at h
      · rename_i es r' hl
        have := commaSepE_yield _ _ Expr.flatten (groupByElem_yield c f d) _ _ _ _ hl
        split at h
        · simp at h
        · simp at h; obtain ⟨rfl, rfl⟩ := h
          simp [hk', this]
  · simp at h; obtain ⟨rfl, rfl⟩ := h; simp [sepFlat]

theorem selTail_yield (c : QCfg) (f d : Nat) (ts : List Tok) (tl : SelTail) (rest : List Tok)
    (h : selTail c f d ts = .ok (tl, rest)) : ts = tl.flatten ++ rest := by
  unfold selTail at h
  split at h
  · simp at h
  · split at h
    · simp at h
    · rename_i w ts1 hw
      have h1 := kwExprPart_yield _ _ _ _ _ _ _ hw
      split at h
      · simp at h
      · rename_i g ts2 hg
        have h2 := groupPart_yield _ _ _ _ _ _ hg
        split at h
        · simp at h
        · split at h
          · simp at h
          · rename_i hv ts3 hh
            have h3 := kwExprPart_yield _ _ _ _ _ _ _ hh
            split at h
            · simp at h
            · simp at h; obtain ⟨rfl, rfl⟩ := h
              simp [SelTail.flatten, h1, h2, h3]

theorem selHead_yield (c : QCfg) (f d : Nat) (sel : Tok) (ts : List Tok) (hd : SelHead) (rest : List Tok)
    (h : selHead c f d sel ts = .ok (hd, rest)) : sel :: ts = hd.flatten ++ rest := by
  unfold selHead at h
  split at h
  · simp at h
  · split at h
    · simp at h
    · rename_i qd ts1 hq
      have h1 := allOrDistinct_yield _ _ _ hq
      split at h
      · simp at h
      · split at h
        · simp at h
        · rename_i proj ts2 hp
          have h2 := commaSepE_yield _ _ SelectItem.flatten (selectItem_yield _ f d) _ _ _ _ hp
          split at h
          · simp at h
          · simp at h; obtain ⟨rfl, rfl⟩ := h
            simp [SelHead.flatten, h1, h2]

/-- what a factor head consumed -/
def FactorHead.Yield (ts : List Tok) : FactorHead → Prop
  | .paren lp rest => ts = lp :: rest
  | .table name al rest => ts = name ++ al ++ rest

theorem factorHead_yield (c : QCfg) (ts : List Tok) (fh : FactorHead) (h : factorHead c ts = .ok fh) : fh.Yield ts := by
  unfold factorHead at h
  split at h
  · simp at h
  · split at h
    · rename_i lp rest hl
      simp at h; subst h
      unfold eatSym at hl
      split at hl
      · split at hl <;> simp at hl
        obtain ⟨rfl, rfl⟩ := hl; simp [FactorHead.Yield]
      · simp at hl
    · split at h
      · simp at h
      · split at h
        · simp at h
        · rename_i name r hn
          have h1 := objectName_yield _ _ _ _ hn
          split at h
          · simp at h
          · split at h
            · simp at h
            · split at h
              · simp at h
              · rename_i al r' ha
                have h2 := optTableAlias_yield _ _ _ ha
                split at h
                · simp at h
                · simp at h; subst h
                  simp at h1
                  simp [FactorHead.Yield, h1, h2]

theorem query_yield_all (c : QCfg) (f : Nat) :
    (∀ d ts q rest, parseQuery c f d ts = .ok (q, rest) → ts = q.flatten ++ rest) ∧
    (∀ d prec ts n rest, queryBody c f d prec ts = .ok (n, rest) → ts = n.flatten ++ rest) ∧
    (∀ d e prec ts n rest, remaining c f d e prec ts = .ok (n, rest) → e.flatten ++ ts = n.flatten ++ rest) ∧
    (∀ d sel ts n rest, parseSelect c f d sel ts = .ok (n, rest) → sel :: ts = n.flatten ++ rest) ∧
    (∀ d conn ts n rest, fromItems c f d conn ts = .ok (n, rest) → conn.toks ++ ts = n.flatten ++ rest) ∧
    (∀ d b ts k n rest, fromRest c f d b ts = .ok ((k, n), rest) → ts = k.flatten ++ n.flatten ++ rest) := by
  induction f with
  | zero => simp [parseQuery, queryBody, remaining, parseSelect, fromItems, fromRest]
  | succ f ih =>
    obtain ⟨ihQ, ihB, ihR, ihS, ihF, ihT⟩ := ih
    refine ⟨?_, ?_, ?_, ?_, ?_, ?_⟩
    · -- parseQuery
      intro d ts q rest h
      cases d with
      | zero => simp [parseQuery] at h
      | succ d =>
        simp only [parseQuery] at h
        split at h
        · simp at h
        · split at h
          · simp at h
          · rename_i body ts1 hb
            have h1 := ihB _ _ _ _ _ hb
            split at h
            · simp at h
            · rename_i qt ts2 ht
              have h2 := queryTail_yield _ _ _ _ _ _ ht
              simp at h; obtain ⟨rfl, rfl⟩ := h
              simp [Query.flatten, h1, h2]
    · -- queryBody
      intro d prec ts n rest h
      unfold queryBody at h
      split at h
      · simp at h
      · rename_i t r
        split at h
        · split at h
          · simp at h
          · rename_i s ts1 hs
            have h1 := ihS _ _ _ _ _ hs
            have h2 := ihR _ _ _ _ _ _ h
            rw [h1, h2]
        · split at h
          · split at h
            · simp at h
            · rename_i q ts1 hq
              have h1 := ihQ _ _ _ _ hq
              split at h
              · rename_i ts2
                have h2 := ihR _ _ _ _ _ _ h
                rw [← h2, h1]
                simp [QNode.flatten, Query.flatten]
              · simp at h
          · split at h <;> simp at h
    · -- remaining
      intro d e prec ts n rest h
      unfold remaining at h
      split at h
      · simp at h; obtain ⟨rfl, rfl⟩ := h; rfl
      · rename_i t r
        split at h
        · simp at h; obtain ⟨rfl, rfl⟩ := h; rfl
        · rename_i o ho
          split at h
          · simp at h; obtain ⟨rfl, rfl⟩ := h; rfl
          · split at h
            · simp at h
            · rename_i rr ts1 hb
              have h1 := ihB _ _ _ _ _ hb
              have h2 := ihR _ _ _ _ _ _ h
              rw [← h2]
              have hq := setQuant_yield r
              simp only [QNode.flatten, List.append_assoc, List.cons_append]
              rw [← h1]
              simp only [List.append_cancel_left_eq, List.cons.injEq, true_and]
              exact hq
    · -- parseSelect
      intro d sel ts n rest h
      simp only [parseSelect] at h
      split at h
      · simp at h
      · rename_i hd ts1 hh
        have h1 := selHead_yield _ _ _ _ _ _ _ hh
        split at h
        · rename_i kw r hk
          have hk' := (eatKw_some_iff _ _ _ _).1 hk
          split at h
          · simp at h
          · rename_i fr ts2 hf
            have h2 := ihF _ _ _ _ _ hf
            split at h
            · simp at h
            · rename_i tl ts3 ht
              have h3 := selTail_yield _ _ _ _ _ _ ht
              simp at h; obtain ⟨rfl, rfl⟩ := h
              simp only [Conn.toks, List.singleton_append] at h2
              rw [h1, hk'.1, h2, h3]; simp [QNode.flatten]
        · split at h
          · simp at h
          · rename_i tl ts3 ht
            have h3 := selTail_yield _ _ _ _ _ _ ht
            simp at h; obtain ⟨rfl, rfl⟩ := h
            rw [h1, h3]; simp [QNode.flatten]
    · -- fromItems
      intro d conn ts n rest h
      simp only [fromItems] at h
      split at h
      · simp at h
      · split at h
        · simp at h
        · rename_i name al r hfh
          have h1 := factorHead_yield _ _ _ hfh
          simp only [FactorHead.Yield] at h1
          split at h
          · simp at h
          · rename_i k rs ts' hr
            have h2 := ihT _ _ _ _ _ _ hr
            simp at h; obtain ⟨rfl, rfl⟩ := h
            rw [h1, h2]; simp [QNode.flatten]
        · rename_i lp r hfh
          have h1 := factorHead_yield _ _ _ hfh
          simp only [FactorHead.Yield] at h1
          split at h
          · simp at h
          · simp at h
          · simp at h
          · rename_i q r1 hq
            have h2 := ihQ _ _ _ _ hq
            split at h
            · rename_i r2
              split at h
              · simp at h
              · rename_i al r3 ha
                have h3 := optTableAlias_yield _ _ _ ha
                split at h
                · simp at h
                · split at h
                  · simp at h
                  · rename_i k rs ts' hr
                    have h4 := ihT _ _ _ _ _ _ hr
                    simp at h; obtain ⟨rfl, rfl⟩ := h
                    rw [h1, h2, h3, h4]; simp [QNode.flatten, Query.flatten]
            · simp at h
    · -- fromRest
      intro d b ts k n rest h
      simp only [fromRest] at h
      split at h
      · simp at h
      · rename_i k1 ts1 hc
        have h1 := optCstr_yield _ _ _ _ _ _ _ hc
        split at h
        · simp at h
        · rename_i jk toks r hj
          have h2 := joinHead_yield _ _ _ _ hj
          split at h
          · simp at h
          · rename_i rs ts2 hf
            have h3 := ihF _ _ _ _ _ hf
            simp at h; obtain ⟨⟨rfl, rfl⟩, rfl⟩ := h
            simp only [Conn.toks] at h3
            rw [h1, h2, h3]; simp
        · split at h
          · rename_i r
            split at h
            · simp at h; obtain ⟨⟨rfl, rfl⟩, rfl⟩ := h
              rw [h1]; simp [QNode.flatten]
            · split at h
              · simp at h
              · rename_i rs ts2 hf
                have h3 := ihF _ _ _ _ _ hf
                simp at h; obtain ⟨⟨rfl, rfl⟩, rfl⟩ := h
                simp only [Conn.toks] at h3
                rw [h1]; simp at h3; simp [h3]
          · simp at h; obtain ⟨⟨rfl, rfl⟩, rfl⟩ := h
            rw [h1]; simp [QNode.flatten]

theorem parseStatement_yield (c : QCfg) (f limit : Nat) (ts : List Tok) (q : Query) (rest : List Tok)
    (h : parseStatement c f limit ts = .ok (q, rest)) : ts = q.flatten ++ rest := by
  unfold parseStatement at h
  repeat' split at h
  all_goals first
    | (simp at h; done)
    | exact (query_yield_all c f).1 _ _ _ _ h

end SqlVerif.Query

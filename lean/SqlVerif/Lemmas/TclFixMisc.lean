import SqlVerif.Lemmas.TclDefs
namespace SqlVerif.Tcl
open SqlVerif.Pratt SqlVerif.Query SqlVerif.Dml SqlVerif.Ddl SqlVerif.Gen

-- ------------------------------------------------------------------ closed keyword facts
theorem mx_head_set :
    (kwT "SET").isKw TK.START = false ∧ (kwT "SET").isKw TK.BEGIN = false ∧ (kwT "SET").isKw TK.END_ = false ∧
    (kwT "SET").isKw TK.COMMIT = false ∧ (kwT "SET").isKw TK.ROLLBACK = false ∧ (kwT "SET").isKw TK.SAVEPOINT = false ∧
    (kwT "SET").isKw TK.RELEASE = false ∧ (kwT "SET").isKw TK.SET = true := by decide +kernel

theorem mx_head_use :
    (kwT "USE").isKw TK.START = false ∧ (kwT "USE").isKw TK.BEGIN = false ∧ (kwT "USE").isKw TK.END_ = false ∧
    (kwT "USE").isKw TK.COMMIT = false ∧ (kwT "USE").isKw TK.ROLLBACK = false ∧ (kwT "USE").isKw TK.SAVEPOINT = false ∧
    (kwT "USE").isKw TK.RELEASE = false ∧ (kwT "USE").isKw TK.SET = false ∧ (kwT "USE").isKw TK.USE = true := by
  decide +kernel

theorem mx_head_discard :
    (kwT "DISCARD").isKw TK.START = false ∧ (kwT "DISCARD").isKw TK.BEGIN = false ∧ (kwT "DISCARD").isKw TK.END_ = false ∧
    (kwT "DISCARD").isKw TK.COMMIT = false ∧ (kwT "DISCARD").isKw TK.ROLLBACK = false ∧
    (kwT "DISCARD").isKw TK.SAVEPOINT = false ∧ (kwT "DISCARD").isKw TK.RELEASE = false ∧
    (kwT "DISCARD").isKw TK.SET = false ∧ (kwT "DISCARD").isKw TK.USE = false ∧ (kwT "DISCARD").isKw TK.DISCARD = true := by
  decide +kernel

theorem mx_head_deallocate :
    (kwT "DEALLOCATE").isKw TK.START = false ∧ (kwT "DEALLOCATE").isKw TK.BEGIN = false ∧
    (kwT "DEALLOCATE").isKw TK.END_ = false ∧ (kwT "DEALLOCATE").isKw TK.COMMIT = false ∧
    (kwT "DEALLOCATE").isKw TK.ROLLBACK = false ∧ (kwT "DEALLOCATE").isKw TK.SAVEPOINT = false ∧
    (kwT "DEALLOCATE").isKw TK.RELEASE = false ∧ (kwT "DEALLOCATE").isKw TK.SET = false ∧
    (kwT "DEALLOCATE").isKw TK.USE = false ∧ (kwT "DEALLOCATE").isKw TK.DISCARD = false ∧
    (kwT "DEALLOCATE").isKw TK.DEALLOCATE = true := by
  decide +kernel

theorem mx_head_close :
    (kwT "CLOSE").isKw TK.START = false ∧ (kwT "CLOSE").isKw TK.BEGIN = false ∧ (kwT "CLOSE").isKw TK.END_ = false ∧
    (kwT "CLOSE").isKw TK.COMMIT = false ∧ (kwT "CLOSE").isKw TK.ROLLBACK = false ∧ (kwT "CLOSE").isKw TK.SAVEPOINT = false ∧
    (kwT "CLOSE").isKw TK.RELEASE = false ∧ (kwT "CLOSE").isKw TK.SET = false ∧ (kwT "CLOSE").isKw TK.USE = false ∧
    (kwT "CLOSE").isKw TK.DISCARD = false ∧ (kwT "CLOSE").isKw TK.DEALLOCATE = false ∧
    (kwT "CLOSE").isKw TK.CLOSE = true := by
  decide +kernel

-- ------------------------------------------------------------------ dispatch
theorem mx_dispatch_set (c : TCfg) (f d : Nat) (r : List Tok) :
    parseStmt c f (d + 1) (kwT "SET" :: r) = parseSet c f d (kwT "SET") r := by
  simp only [parseStmt, mx_head_set, Bool.false_eq_true, if_false, if_true]

theorem mx_dispatch_use (c : TCfg) (f d : Nat) (r : List Tok) :
    parseStmt c f (d + 1) (kwT "USE" :: r) = parseUse c (kwT "USE") r := by
  simp only [parseStmt, mx_head_use, Bool.false_eq_true, if_false, if_true]

theorem mx_dispatch_discard (c : TCfg) (f d : Nat) (r : List Tok) :
    parseStmt c f (d + 1) (kwT "DISCARD" :: r) = parseDiscard (kwT "DISCARD") r := by
  simp only [parseStmt, mx_head_discard, Bool.false_eq_true, if_false, if_true]

theorem mx_dispatch_deallocate (c : TCfg) (f d : Nat) (r : List Tok) :
    parseStmt c f (d + 1) (kwT "DEALLOCATE" :: r) = parseDeallocate (kwT "DEALLOCATE") r := by
  simp only [parseStmt, mx_head_deallocate, Bool.false_eq_true, if_false, if_true]

theorem mx_dispatch_close (c : TCfg) (f d : Nat) (r : List Tok) :
    parseStmt c f (d + 1) (kwT "CLOSE" :: r) = parseClose (kwT "CLOSE") r := by
  simp only [parseStmt, mx_head_close, Bool.false_eq_true, if_false, if_true]

-- ------------------------------------------------------------------ small helpers
theorem mx_identElem_some {ts : List Tok} {n : Tok} {r : List Tok} (h : identElem ts = .ok (n, r)) :
    ts = n :: r ∧ isIdentTok n = true := by
  unfold identElem at h
  split at h
  · simp at h
  · split at h
    · rename_i hi
      simp at h; obtain ⟨rfl, rfl⟩ := h; exact ⟨rfl, hi⟩
    · simp at h

theorem mx_identElem_one {n : Tok} (h : isIdentTok n = true) (r : List Tok) : identElem (n :: r) = .ok (n, r) := by
  simp [identElem, h]

theorem mx_ident_kwT (name : String) : isIdentTok (kwT name) = true := rfl

-- ------------------------------------------------------------------ DISCARD
theorem mx_discard_temp : discardKws.any (kwT "TEMP").isKw = true := by decide +kernel

theorem mx_discard_any (t : Tok) : discardKws.any (kwNormTok t).isKw = discardKws.any t.isKw := by
  simp only [discardKws, List.any_cons, List.any_nil, kwNormTok_isKw]

theorem fixMisc_discard (c : TCfg) (f d : Nat) (kw : Tok) (ts rest : List Tok) (s : Stmt)
    (h : parseDiscard kw ts = .ok (s, rest)) : parseStmt c f (d + 1) s.showToks = .ok (s.norm, []) := by
  unfold parseDiscard at h
  split at h
  · simp at h
  · rename_i t r
    split at h
    · rename_i hany
      simp at h; obtain ⟨rfl, rfl⟩ := h
      simp only [Stmt.showToks, Stmt.pieces, List.map, kwP_tok, Stmt.norm, mx_dispatch_discard]
      by_cases ht : t.isKw TK.TEMPORARY = true
      · simp only [ht, if_true, kwP_tok, parseDiscard, mx_discard_temp]
      · simp only [ht, Bool.false_eq_true, if_false, parseDiscard]
        have : discardKws.any (kwTokP true t).tok.isKw = true := by
          have := mx_discard_any t; rw [kwNormTok] at this; rw [this]; exact hany
        simp only [this, if_true, kwNormTok]
    · simp at h

-- ------------------------------------------------------------------ DEALLOCATE
theorem mx_prepare : (kwT "PREPARE").isKw TK.PREPARE = true := by decide +kernel

theorem fixMisc_deallocate (c : TCfg) (f d : Nat) (kw : Tok) (ts rest : List Tok) (s : Stmt)
    (h : parseDeallocate kw ts = .ok (s, rest)) : parseStmt c f (d + 1) s.showToks = .ok (s.norm, []) := by
  unfold parseDeallocate at h
  split at h
  · simp at h
  · rename_i n r hn
    simp at h; obtain ⟨rfl, rfl⟩ := h
    obtain ⟨hts, hi⟩ := mx_identElem_some hn
    simp only [Stmt.showToks, Stmt.pieces, List.map_append, List.map, kwP_tok, idPiece_tok, Stmt.norm,
      List.cons_append, List.nil_append, mx_dispatch_deallocate]
    unfold kwTail at hts ⊢
    split at hts
    · rename_i t r0 hk
      simp only [List.isEmpty_cons, Bool.false_eq_true, if_false, List.map, kwP_tok, List.cons_append, List.nil_append]
      simp only [parseDeallocate, kwTail, eatKw, mx_prepare, if_true, mx_identElem_one hi]
    · rename_i hk
      simp only at hts
      subst hts
      have hk' : n.isKw TK.PREPARE = false := by
        unfold eatKw at hk
        simp only at hk
        cases hh : n.isKw TK.PREPARE
        · rfl
        · simp [hh] at hk
      simp only [List.isEmpty_nil, if_true, List.map, List.nil_append]
      simp only [parseDeallocate, kwTail, eatKw, hk', Bool.false_eq_true, if_false, mx_identElem_one hi]

-- ------------------------------------------------------------------ CLOSE
theorem fixMisc_close (c : TCfg) (f d : Nat) (kw : Tok) (ts rest : List Tok) (s : Stmt)
    (h : parseClose kw ts = .ok (s, rest)) : parseStmt c f (d + 1) s.showToks = .ok (s.norm, []) := by
  unfold parseClose at h
  split at h
  · simp at h
  · rename_i n r hn
    simp at h; obtain ⟨rfl, rfl⟩ := h
    obtain ⟨-, hi⟩ := mx_identElem_some hn
    simp only [Stmt.showToks, Stmt.pieces, List.map, kwP_tok, Stmt.norm, mx_dispatch_close]
    by_cases ha : n.isKw TK.ALL = true
    · simp only [ha, if_true, kwP_tok, parseClose, mx_identElem_one (mx_ident_kwT "ALL")]
    · simp only [ha, Bool.false_eq_true, if_false, idPiece_tok, parseClose, mx_identElem_one hi]

end SqlVerif.Tcl

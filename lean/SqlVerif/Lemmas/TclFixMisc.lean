import SqlVerif.Lemmas.TclDefs
/-!
Parse → print → parse fixpoint (C01) on `Model/Tcl.lean`, the statements that are not transaction
statements: `DISCARD`, `DEALLOCATE`, `CLOSE`, `USE`, and the results of `parseSet` with `Stmt.fixKind`
(`SET ROLE`, `SET NAMES DEFAULT`, `SET NAMES charset [COLLATE collation]`, `SET TRANSACTION` / `SET SESSION CHARACTERISTICS AS TRANSACTION`): parsing the
printed tokens of an accepted statement gives `Stmt.norm`.  The printed lists are explicit, the parser is
evaluated on them; keyword tests between closed tokens are `decide +kernel` facts (`mx_head_*`, `mx_set_kws`,
`mx_set_names`).  The transaction-mode loop is taken as hypotheses `hmodes` / `htoks` (`Lemmas/TclFixTx.lean`).
-/
namespace SqlVerif.Tcl
open SqlVerif.Pratt SqlVerif.Query SqlVerif.Dml SqlVerif.Ddl SqlVerif.Gen

-- ------------------------------------------------------------------ closed keyword facts
theorem mx_head_set :
    (kwT "SET").isKw TK.START = false ∧ (kwT "SET").isKw TK.BEGIN = false ∧ (kwT "SET").isKw TK.END_ = false ∧
    (kwT "SET").isKw TK.COMMIT = false ∧ (kwT "SET").isKw TK.ROLLBACK = false ∧ (kwT "SET").isKw TK.SAVEPOINT = false ∧
    (kwT "SET").isKw TK.RELEASE = false ∧ (kwT "SET").isKw TK.SET = true := by decide +kernel

theorem mx_head_use :
    (kwT "USE").isKw TK.START = false ∧ (kwT "USE").isKw TK.BEGIN = false ∧ (kwT "USE").isKw TK.END_ = false ∧
    (kwT "USE").isKw TK.COMMIT = false ∧ (kwT "USE").isKw TK.ROLLBACK = false ∧ (kwT "USE").isKw TK.SAVEPOINT = false ∧
    (kwT "USE").isKw TK.RELEASE = false ∧ (kwT "USE").isKw TK.SET = false ∧ (kwT "USE").isKw TK.USE = true := by
  decide +kernel

theorem mx_head_discard :
    (kwT "DISCARD").isKw TK.START = false ∧ (kwT "DISCARD").isKw TK.BEGIN = false ∧ (kwT "DISCARD").isKw TK.END_ = false ∧
    (kwT "DISCARD").isKw TK.COMMIT = false ∧ (kwT "DISCARD").isKw TK.ROLLBACK = false ∧
    (kwT "DISCARD").isKw TK.SAVEPOINT = false ∧ (kwT "DISCARD").isKw TK.RELEASE = false ∧
    (kwT "DISCARD").isKw TK.SET = false ∧ (kwT "DISCARD").isKw TK.USE = false ∧ (kwT "DISCARD").isKw TK.DISCARD = true := by
  decide +kernel

theorem mx_head_deallocate :
    (kwT "DEALLOCATE").isKw TK.START = false ∧ (kwT "DEALLOCATE").isKw TK.BEGIN = false ∧
    (kwT "DEALLOCATE").isKw TK.END_ = false ∧ (kwT "DEALLOCATE").isKw TK.COMMIT = false ∧
    (kwT "DEALLOCATE").isKw TK.ROLLBACK = false ∧ (kwT "DEALLOCATE").isKw TK.SAVEPOINT = false ∧
    (kwT "DEALLOCATE").isKw TK.RELEASE = false ∧ (kwT "DEALLOCATE").isKw TK.SET = false ∧
    (kwT "DEALLOCATE").isKw TK.USE = false ∧ (kwT "DEALLOCATE").isKw TK.DISCARD = false ∧
    (kwT "DEALLOCATE").isKw TK.DEALLOCATE = true := by
  decide +kernel

theorem mx_head_close :
    (kwT "CLOSE").isKw TK.START = false ∧ (kwT "CLOSE").isKw TK.BEGIN = false ∧ (kwT "CLOSE").isKw TK.END_ = false ∧
    (kwT "CLOSE").isKw TK.COMMIT = false ∧ (kwT "CLOSE").isKw TK.ROLLBACK = false ∧ (kwT "CLOSE").isKw TK.SAVEPOINT = false ∧
    (kwT "CLOSE").isKw TK.RELEASE = false ∧ (kwT "CLOSE").isKw TK.SET = false ∧ (kwT "CLOSE").isKw TK.USE = false ∧
    (kwT "CLOSE").isKw TK.DISCARD = false ∧ (kwT "CLOSE").isKw TK.DEALLOCATE = false ∧
    (kwT "CLOSE").isKw TK.CLOSE = true := by
  decide +kernel

-- ------------------------------------------------------------------ dispatch
theorem mx_dispatch_set (c : TCfg) (f d : Nat) (r : List Tok) :
    parseStmt c f (d + 1) (kwT "SET" :: r) = parseSet c f d (kwT "SET") r := by
  simp only [parseStmt, mx_head_set, Bool.false_eq_true, if_false, if_true]

theorem mx_dispatch_use (c : TCfg) (f d : Nat) (r : List Tok) :
    parseStmt c f (d + 1) (kwT "USE" :: r) = parseUse c (kwT "USE") r := by
  simp only [parseStmt, mx_head_use, Bool.false_eq_true, if_false, if_true]

theorem mx_dispatch_discard (c : TCfg) (f d : Nat) (r : List Tok) :
    parseStmt c f (d + 1) (kwT "DISCARD" :: r) = parseDiscard (kwT "DISCARD") r := by
  simp only [parseStmt, mx_head_discard, Bool.false_eq_true, if_false, if_true]

theorem mx_dispatch_deallocate (c : TCfg) (f d : Nat) (r : List Tok) :
    parseStmt c f (d + 1) (kwT "DEALLOCATE" :: r) = parseDeallocate (kwT "DEALLOCATE") r := by
  simp only [parseStmt, mx_head_deallocate, Bool.false_eq_true, if_false, if_true]

theorem mx_dispatch_close (c : TCfg) (f d : Nat) (r : List Tok) :
    parseStmt c f (d + 1) (kwT "CLOSE" :: r) = parseClose (kwT "CLOSE") r := by
  simp only [parseStmt, mx_head_close, Bool.false_eq_true, if_false, if_true]

-- ------------------------------------------------------------------ small helpers
theorem mx_identElem_some {ts : List Tok} {n : Tok} {r : List Tok} (h : identElem ts = .ok (n, r)) :
    ts = n :: r ∧ isIdentTok n = true := by
  unfold identElem at h
  split at h
  · simp at h
  · split at h
    · rename_i hi
      simp at h; obtain ⟨rfl, rfl⟩ := h; exact ⟨rfl, hi⟩
    · simp at h

theorem mx_identElem_one {n : Tok} (h : isIdentTok n = true) (r : List Tok) : identElem (n :: r) = .ok (n, r) := by
  simp [identElem, h]

theorem mx_ident_kwT (name : String) : isIdentTok (kwT name) = true := rfl

-- ------------------------------------------------------------------ DISCARD
theorem mx_discard_temp : discardKws.any (kwT "TEMP").isKw = true := by decide +kernel

theorem mx_discard_any (t : Tok) : discardKws.any (kwNormTok t).isKw = discardKws.any t.isKw := by
  simp only [discardKws, List.any_cons, List.any_nil, kwNormTok_isKw]

theorem fixMisc_discard (c : TCfg) (f d : Nat) (kw : Tok) (ts rest : List Tok) (s : Stmt)
    (h : parseDiscard kw ts = .ok (s, rest)) : parseStmt c f (d + 1) s.showToks = .ok (s.norm, []) := by
  unfold parseDiscard at h
  split at h
  · simp at h
  · rename_i t r
    split at h
    · rename_i hany
      simp at h; obtain ⟨rfl, rfl⟩ := h
      simp only [Stmt.showToks, Stmt.pieces, List.map, kwP_tok, Stmt.norm, mx_dispatch_discard]
      by_cases ht : t.isKw TK.TEMPORARY = true
      · simp only [ht, if_true, kwP_tok, parseDiscard, mx_discard_temp]
      · simp only [ht, Bool.false_eq_true, if_false, parseDiscard]
        have : discardKws.any (kwTokP true t).tok.isKw = true := by
          have := mx_discard_any t; rw [kwNormTok] at this; rw [this]; exact hany
        simp only [this, if_true, kwNormTok]
    · simp at h

-- ------------------------------------------------------------------ DEALLOCATE
theorem mx_prepare : (kwT "PREPARE").isKw TK.PREPARE = true := by decide +kernel

theorem fixMisc_deallocate (c : TCfg) (f d : Nat) (kw : Tok) (ts rest : List Tok) (s : Stmt)
    (h : parseDeallocate kw ts = .ok (s, rest)) : parseStmt c f (d + 1) s.showToks = .ok (s.norm, []) := by
  unfold parseDeallocate at h
  split at h
  · simp at h
  · rename_i n r hn
    simp at h; obtain ⟨rfl, rfl⟩ := h
    obtain ⟨hts, hi⟩ := mx_identElem_some hn
    simp only [Stmt.showToks, Stmt.pieces, List.map_append, List.map, kwP_tok, idPiece_tok, Stmt.norm,
      List.cons_append, List.nil_append, mx_dispatch_deallocate]
    unfold kwTail at hts ⊢
    split at hts
    · rename_i t r0 hk
      simp only [List.isEmpty_cons, Bool.false_eq_true, if_false, List.map, kwP_tok, List.cons_append, List.nil_append]
      simp only [parseDeallocate, kwTail, eatKw, mx_prepare, if_true, mx_identElem_one hi]
    · rename_i hk
      simp only at hts
      subst hts
      have hk' : n.isKw TK.PREPARE = false := by
        unfold eatKw at hk
        simp only at hk
        cases hh : n.isKw TK.PREPARE
        · rfl
        · simp [hh] at hk
      simp only [List.isEmpty_nil, if_true, List.map, List.nil_append]
      simp only [parseDeallocate, kwTail, eatKw, hk', Bool.false_eq_true, if_false, mx_identElem_one hi]

-- ------------------------------------------------------------------ CLOSE
theorem fixMisc_close (c : TCfg) (f d : Nat) (kw : Tok) (ts rest : List Tok) (s : Stmt)
    (h : parseClose kw ts = .ok (s, rest)) : parseStmt c f (d + 1) s.showToks = .ok (s.norm, []) := by
  unfold parseClose at h
  split at h
  · simp at h
  · rename_i n r hn
    simp at h; obtain ⟨rfl, rfl⟩ := h
    obtain ⟨-, hi⟩ := mx_identElem_some hn
    simp only [Stmt.showToks, Stmt.pieces, List.map, kwP_tok, Stmt.norm, mx_dispatch_close]
    by_cases ha : n.isKw TK.ALL = true
    · simp only [ha, if_true, kwP_tok, parseClose, mx_identElem_one (mx_ident_kwT "ALL")]
    · simp only [ha, Bool.false_eq_true, if_false, idPiece_tok, parseClose, mx_identElem_one hi]

-- ------------------------------------------------------------------ USE
theorem mx_eatKw_cons (t : Tok) (r : List Tok) (k : Nat) :
    eatKw (t :: r) k = if t.isKw k then some (t, r) else none := by
  cases h : t.isKw k <;> simp [eatKw, h]

/-- `oneOfTail` found a keyword: on the printed keyword it finds it again -/
theorem mx_oneOfTail_cons (ks : List Nat) : ∀ (ts : List Tok) (t : Tok) (l r r' : List Tok),
    oneOfTail ks ts = (t :: l, r) → l = [] ∧ ts = t :: r ∧ oneOfTail ks (kwNormTok t :: r') = ([kwNormTok t], r') := by
  induction ks with
  | nil => intro ts t l r r' h; simp [oneOfTail] at h
  | cons k ks ih =>
    intro ts t l r r' h
    unfold oneOfTail at h ⊢
    split at h
    · rename_i t0 r0 hk
      obtain ⟨rfl, hk0⟩ := (eatKw_some_iff _ _ _ _).1 hk
      simp at h; obtain ⟨⟨rfl, rfl⟩, rfl⟩ := h
      simp [mx_eatKw_cons, kwNormTok_isKw, hk0]
    · rename_i hk
      obtain ⟨rfl, rfl, h3⟩ := ih ts t l r r' h
      have hk0 : t.isKw k = false := by
        cases hh : t.isKw k
        · rfl
        · simp [mx_eatKw_cons, hh] at hk
      simp [mx_eatKw_cons, kwNormTok_isKw, hk0, h3]

/-- `oneOfTail` found nothing: it finds nothing on a list with the same first keyword class -/
theorem mx_oneOfTail_nil (ks : List Nat) : ∀ (ts r : List Tok) (ts' : List Tok),
    oneOfTail ks ts = ([], r) → (∀ k, peekKw ts' k = peekKw ts k) → r = ts ∧ oneOfTail ks ts' = ([], ts') := by
  induction ks with
  | nil => intro ts r ts' h _; simp [oneOfTail] at h ⊢; exact h.symm
  | cons k ks ih =>
    intro ts r ts' h hp
    unfold oneOfTail at h ⊢
    split at h
    · simp at h
    · rename_i hk
      obtain ⟨rfl, h3⟩ := ih ts r ts' h hp
      have hk' : eatKw ts' k = none := by
        have := hp k
        cases ts' with
        | nil => rfl
        | cons a b =>
          cases r with
          | nil => simp [peekKw] at this; simp [mx_eatKw_cons, this]
          | cons a0 b0 =>
            simp only [peekKw] at this
            cases hh : a0.isKw k
            · simp [mx_eatKw_cons, this, hh]
            · simp [mx_eatKw_cons, hh] at hk
      simp [hk', h3]

/-- a name read by `objectName` is read back whole -/
theorem mx_objectName_reparse (acc ts : List Tok) : ∀ (name rest : List Tok), objectName acc ts = .ok (name, rest) →
    ∃ nm, name = acc ++ nm ∧ ts = nm ++ rest ∧ nm ≠ [] ∧ ∀ acc', objectName acc' nm = .ok (acc' ++ nm, []) := by
  fun_induction objectName acc ts with
  | case1 acc => intro name rest h; simp at h
  | case2 acc t hi rest' ih =>
    intro name rest h
    obtain ⟨nm, rfl, h2, -, h4⟩ := ih name rest h
    refine ⟨t :: .sym .Period :: nm, by simp, by simp [h2], by simp, ?_⟩
    intro acc'
    rw [objectName]
    simp only [hi, if_true]
    rw [h4]; simp
  | case3 acc t hi rest hne =>
    intro name rest' h
    simp at h; obtain ⟨rfl, rfl⟩ := h
    refine ⟨[t], rfl, rfl, by simp, ?_⟩
    intro acc'
    simp [objectName, hi]
  | case4 acc t rest hi => intro name rest' h; simp at h

theorem mx_nameElem_reparse {ts name rest : List Tok} (h : nameElem ts = .ok (name, rest)) :
    ts = name ++ rest ∧ name ≠ [] ∧ nameElem name = .ok (name, []) := by
  obtain ⟨nm, h1, h2, h3, h4⟩ := mx_objectName_reparse [] ts name rest h
  simp at h1; subst h1
  exact ⟨h2, h3, by simpa [nameElem] using h4 []⟩

theorem mx_peekKw_append {name : List Tok} (hn : name ≠ []) (a b : List Tok) (k : Nat) :
    peekKw (name ++ a) k = peekKw (name ++ b) k := by
  cases name with
  | nil => exact absurd rfl hn
  | cons x y => rfl

theorem mx_default : (kwT "DEFAULT").isKw TK.DEFAULT = true := by decide +kernel

theorem mx_useDefaultAhead_none (c : TCfg) (ts ts' : List Tok) (h : useDefaultAhead c ts = none)
    (hp : ∀ k, peekKw ts' k = peekKw ts k) : useDefaultAhead c ts' = none := by
  unfold useDefaultAhead at h ⊢
  split
  · rename_i hh
    simp only [hh, if_true] at h
    have := hp TK.DEFAULT
    cases ts' with
    | nil => rfl
    | cons a b =>
      cases ts with
      | nil => simp [peekKw] at this; simp [mx_eatKw_cons, this]
      | cons a0 b0 =>
        simp only [peekKw] at this
        cases hk : a0.isKw TK.DEFAULT
        · simp [mx_eatKw_cons, this, hk]
        · simp [mx_eatKw_cons, hk] at h
  · rfl

/-- the kind keyword is found again, and the name follows -/
theorem mx_useKindTail_reparse (c : TCfg) (ts name rest : List Tok) (hn : name ≠ [])
    (h2 : (useKindTail c ts).2 = name ++ rest) :
    useKindTail c ((useKindTail c ts).1.map kwNormTok ++ name) = ((useKindTail c ts).1.map kwNormTok, name) ∧
    ∀ k, peekKw ((useKindTail c ts).1.map kwNormTok ++ name) k = peekKw ts k := by
  have key : ∀ ks, (oneOfTail ks ts).2 = name ++ rest →
      oneOfTail ks ((oneOfTail ks ts).1.map kwNormTok ++ name) = ((oneOfTail ks ts).1.map kwNormTok, name) ∧
      ∀ k, peekKw ((oneOfTail ks ts).1.map kwNormTok ++ name) k = peekKw ts k := by
    intro ks h2
    generalize hA : oneOfTail ks ts = A at h2
    obtain ⟨l, r⟩ := A
    simp only at h2; subst h2
    cases l with
    | nil =>
      have h0 := mx_oneOfTail_nil ks ts _ (name ++ []) hA (by
        intro k
        have := (mx_oneOfTail_nil ks ts _ ts hA (fun _ => rfl)).1
        rw [← this]; exact mx_peekKw_append hn _ _ k)
      obtain ⟨h01, h02⟩ := h0
      simp only [List.append_nil] at h02
      refine ⟨by simpa using h02, ?_⟩
      intro k
      rw [← h01]
      simpa using mx_peekKw_append hn [] rest k
    | cons t l =>
      obtain ⟨rfl, rfl, h3⟩ := mx_oneOfTail_cons ks ts t l _ name hA
      refine ⟨by simpa using h3, ?_⟩
      intro k
      simp [peekKw, kwNormTok_isKw]
  unfold useKindTail at h2 ⊢
  split
  · rename_i hd
    simp only [hd, if_true] at h2 ⊢
    exact key _ h2
  · rename_i hd
    simp only [hd, Bool.false_eq_true, if_false] at h2 ⊢
    split
    · rename_i hs
      simp only [hs, if_true] at h2 ⊢
      exact key _ h2
    · rename_i hs
      simp only [hs, Bool.false_eq_true, if_false] at h2 ⊢
      subst h2
      refine ⟨by simp, ?_⟩
      intro k
      simpa using mx_peekKw_append hn [] rest k

theorem fixMisc_use (c : TCfg) (f d : Nat) (kw : Tok) (ts rest : List Tok) (s : Stmt)
    (h : parseUse c kw ts = .ok (s, rest)) : parseStmt c f (d + 1) s.showToks = .ok (s.norm, []) := by
  unfold parseUse at h
  split at h
  · rename_i dk r hd
    simp at h; obtain ⟨rfl, rfl⟩ := h
    simp only [Stmt.showToks, Stmt.pieces, List.map, kwP_tok, Stmt.norm, mx_dispatch_use]
    have hh : c.x.d.isHive = true := by
      unfold useDefaultAhead at hd
      split at hd
      · assumption
      · simp at hd
    simp only [parseUse, useDefaultAhead, hh, if_true, mx_eatKw_cons, mx_default]
  · rename_i hd
    split at h
    · simp at h
    · rename_i name r hn
      split at h
      · simp at h
      · rename_i hbq
        simp at h; obtain ⟨rfl, rfl⟩ := h
        obtain ⟨h1, h2, h3⟩ := mx_nameElem_reparse hn
        obtain ⟨k1, k2⟩ := mx_useKindTail_reparse c ts name r h2 h1
        have hsh : (Stmt.useObj kw (useKindTail c ts).1 name).showToks =
            kwT "USE" :: ((useKindTail c ts).1.map kwNormTok ++ name) := by
          have := toksOf_namePieces name
          simp only [toksOf] at this
          simp only [Stmt.showToks, Stmt.pieces, List.map_append, List.map, kwP_tok, List.cons_append, List.nil_append,
            List.map_map]
          have hsp : List.map (fun x => x.tok) (spaced (namePieces name)) = name := by
            have := Pratt.toksOf_spaced (namePieces name)
            simp only [toksOf] at this
            rw [this]; assumption
          rw [hsp]
          rfl
        rw [hsh, mx_dispatch_use]
        unfold parseUse
        rw [mx_useDefaultAhead_none c ts _ hd k2]
        simp only [k1, h3, hbq, Bool.false_eq_true, if_false, Stmt.norm]

-- ------------------------------------------------------------------ SET: closed facts
theorem mx_set_kws :
    (kwT "SESSION").isKw TK.SESSION = true ∧ (kwT "SESSION").isKw TK.HIVEVAR = false ∧
    (kwT "LOCAL").isKw TK.SESSION = false ∧ (kwT "LOCAL").isKw TK.LOCAL = true ∧ (kwT "LOCAL").isKw TK.HIVEVAR = false ∧
    (kwT "ROLE").isKw TK.SESSION = false ∧ (kwT "ROLE").isKw TK.LOCAL = false ∧ (kwT "ROLE").isKw TK.HIVEVAR = false ∧
    (kwT "ROLE").isKw TK.ROLE = true ∧
    (kwT "TRANSACTION").isKw TK.SESSION = false ∧ (kwT "TRANSACTION").isKw TK.LOCAL = false ∧
    (kwT "TRANSACTION").isKw TK.HIVEVAR = false ∧ (kwT "TRANSACTION").isKw TK.ROLE = false ∧
    (kwT "TRANSACTION").isKw TK.TIME = false ∧ (kwT "TRANSACTION").isKw TK.TRANSACTION = true ∧
    (kwT "AS").isKw TK.TO = false ∧ (kwT "AS").isKw TK.AS = true ∧
    (kwT "READ").isKw TK.TO = false ∧ (kwT "READ").isKw TK.SNAPSHOT = false ∧
    (kwT "ISOLATION").isKw TK.TO = false ∧ (kwT "ISOLATION").isKw TK.SNAPSHOT = false := by decide +kernel

theorem mx_set_names :
    nameIs "names" [plainW "NAMES"] = true ∧
    nameIs "names" [kwT "TRANSACTION"] = false ∧ nameIs "timezone" [kwT "TRANSACTION"] = false ∧
    nameIs "characteristics" [kwT "TRANSACTION"] = false ∧ nameIs "transaction" [kwT "TRANSACTION"] = true ∧
    nameIs "names" [plainW "CHARACTERISTICS"] = false ∧ nameIs "timezone" [plainW "CHARACTERISTICS"] = false ∧
    nameIs "characteristics" [plainW "CHARACTERISTICS"] = true ∧
    bigQueryNameForeign [plainW "NAMES"] [] = false ∧ bigQueryNameForeign [kwT "TRANSACTION"] [] = false ∧
    bigQueryNameForeign [plainW "CHARACTERISTICS"] [] = false := by decide +kernel

theorem mx_plainW_isKw (n : String) (k : Nat) : (plainW n).isKw k = false := rfl
theorem mx_plainW_isSym (n : String) (s : Sym) : (plainW n).isSym s = false := rfl
theorem mx_kwT_isSym (n : String) (s : Sym) : (kwT n).isSym s = false := rfl
theorem mx_plainW_ident (n : String) : isIdentTok (plainW n) = true := rfl
theorem mx_kwT_ne_period (n : String) : kwT n ≠ .sym .Period := by intro h; cases h

theorem mx_eatSym_cons (t : Tok) (r : List Tok) (s : Sym) :
    eatSym (t :: r) s = if t.isSym s then some (t, r) else none := by
  cases h : t.isSym s <;> simp [eatSym, h]

-- ------------------------------------------------------------------ SET: the modifier
theorem mx_oneOfTail_hit (k : Nat) (ks : List Nat) (t : Tok) (r : List Tok) (h : t.isKw k = true) :
    oneOfTail (k :: ks) (t :: r) = ([t], r) := by
  simp [oneOfTail, eatKw, h]

theorem mx_oneOfTail_skip (k : Nat) (ks : List Nat) (t : Tok) (r : List Tok) (h : t.isKw k = false) :
    oneOfTail (k :: ks) (t :: r) = oneOfTail ks (t :: r) := by
  simp [oneOfTail, eatKw, h]

theorem mx_md_session (r : List Tok) :
    oneOfTail [TK.SESSION, TK.LOCAL, TK.HIVEVAR] (kwT "SESSION" :: r) = ([kwT "SESSION"], r) :=
  mx_oneOfTail_hit _ _ _ _ mx_set_kws.1

theorem mx_md_local (r : List Tok) :
    oneOfTail [TK.SESSION, TK.LOCAL, TK.HIVEVAR] (kwT "LOCAL" :: r) = ([kwT "LOCAL"], r) := by
  rw [mx_oneOfTail_skip _ _ _ _ mx_set_kws.2.2.1]
  exact mx_oneOfTail_hit _ _ _ _ mx_set_kws.2.2.2.1

theorem mx_md_none (t : Tok) (r : List Tok) (h1 : t.isKw TK.SESSION = false) (h2 : t.isKw TK.LOCAL = false)
    (h3 : t.isKw TK.HIVEVAR = false) : oneOfTail [TK.SESSION, TK.LOCAL, TK.HIVEVAR] (t :: r) = ([], t :: r) := by
  rw [mx_oneOfTail_skip _ _ _ _ h1, mx_oneOfTail_skip _ _ _ _ h2, mx_oneOfTail_skip _ _ _ _ h3]
  rfl

theorem mx_hivevar_nil : isHivevar [] = false := rfl
theorem mx_hivevar_session : isHivevar [kwT "SESSION"] = false := by
  simp only [isHivevar, List.any_cons, List.any_nil, mx_set_kws, Bool.or_false]
theorem mx_hivevar_local : isHivevar [kwT "LOCAL"] = false := by
  simp only [isHivevar, List.any_cons, List.any_nil, mx_set_kws, Bool.or_false]

theorem mx_ctxPieces (md : List Tok) : (ctxPieces md).map (·.tok) = ctxNorm md := by
  unfold ctxPieces ctxNorm
  split
  · rfl
  · split <;> rfl

/-- the printed modifier is one of three closed lists, each read back by `oneOfTail` -/
theorem mx_ctxNorm_cases (md : List Tok) : ctxNorm md = [] ∨ ctxNorm md = [kwT "SESSION"] ∨ ctxNorm md = [kwT "LOCAL"] := by
  unfold ctxNorm
  split
  · exact Or.inr (Or.inr rfl)
  · split
    · exact Or.inr (Or.inl rfl)
    · exact Or.inl rfl

-- ------------------------------------------------------------------ SET ROLE
theorem mx_set_role_eval (c : TCfg) (f d : Nat) (md' : List Tok) (x : Tok)
    (hmd : oneOfTail [TK.SESSION, TK.LOCAL, TK.HIVEVAR] (md' ++ [kwT "ROLE", x]) = (md', [kwT "ROLE", x]))
    (hh : isHivevar md' = false) (hx : isIdentTok x = true) :
    parseSet c f d (kwT "SET") (md' ++ [kwT "ROLE", x]) = .ok (.setRole (kwT "SET") md' (kwT "ROLE") x, []) := by
  unfold parseSet
  rw [hmd]
  simp only [parseSetTail, roleAhead, hh, Bool.false_eq_true, if_false, mx_eatKw_cons, mx_set_kws, if_true, parseSetRole,
    mx_identElem_one hx]

theorem fixMisc_setRole (c : TCfg) (f d : Nat) (kw : Tok) (md : List Tok) (rk : Tok) (ts rest : List Tok) (s : Stmt)
    (h : parseSetRole kw md rk ts = .ok (s, rest)) : parseStmt c f (d + 1) s.showToks = .ok (s.norm, []) := by
  unfold parseSetRole at h
  split at h
  · simp at h
  · rename_i n r hn
    simp at h; obtain ⟨rfl, rfl⟩ := h
    obtain ⟨-, hi⟩ := mx_identElem_some hn
    have hx : isIdentTok (if n.isKw TK.NONE then kwT "NONE" else n) = true := by
      split
      · rfl
      · exact hi
    have hsh : (Stmt.setRole kw md rk n).showToks =
        kwT "SET" :: (ctxNorm md ++ [kwT "ROLE", if n.isKw TK.NONE then kwT "NONE" else n]) := by
      simp only [Stmt.showToks, Stmt.pieces, List.map_append, List.map, kwP_tok, List.cons_append, List.nil_append,
        mx_ctxPieces]
      split
      · rfl
      · rw [idPiece_tok]
    rw [hsh, mx_dispatch_set]
    simp only [Stmt.norm]
    rcases mx_ctxNorm_cases md with h0 | h0 | h0 <;> rw [h0]
    · exact mx_set_role_eval c f d [] _
        (mx_md_none _ _ mx_set_kws.2.2.2.2.2.1 mx_set_kws.2.2.2.2.2.2.1 mx_set_kws.2.2.2.2.2.2.2.1) mx_hivevar_nil hx
    · exact mx_set_role_eval c f d [kwT "SESSION"] _ (mx_md_session _) mx_hivevar_session hx
    · exact mx_set_role_eval c f d [kwT "LOCAL"] _ (mx_md_local _) mx_hivevar_local hx

-- ------------------------------------------------------------------ SET: the variable path
theorem mx_objectName_one (acc : List Tok) (w u : Tok) (r : List Tok) (hw : isIdentTok w = true) (hu : u ≠ .sym .Period) :
    objectName acc (w :: u :: r) = .ok (acc ++ [w], u :: r) := by
  rw [objectName]
  · simp only [hw, if_true]
  · intro rest' heq
    simp only [List.cons.injEq] at heq
    exact hu heq.1

theorem mx_objectName_last (acc : List Tok) (w : Tok) (hw : isIdentTok w = true) :
    objectName acc [w] = .ok (acc ++ [w], []) := by
  simp [objectName, hw]

theorem mx_setTarget_word (c : TCfg) (f : Nat) (w : Tok) (r : List Tok) (h1 : w.isKw TK.TIME = false)
    (h2 : w.isSym .LParen = false) (h3 : nameElem (w :: r) = .ok ([w], r)) (h4 : bigQueryNameForeign [w] [] = false) :
    setTarget c f (w :: r) = .ok (.one [w], r) := by
  have hp : (if c.parenSet then eatSym (w :: r) .LParen else none) = none := by
    cases c.parenSet <;> simp [mx_eatSym_cons, h2]
  unfold setTarget
  simp only [eatKws, mx_eatKw_cons, h1, Bool.false_eq_true, if_false]
  rw [hp]
  simp only [h3, bqDotted, h4, Bool.and_false, Bool.false_eq_true, if_false]

theorem mx_set_var_eval (c : TCfg) (f d : Nat) (md' : List Tok) (w : Tok) (r : List Tok)
    (hmd : oneOfTail [TK.SESSION, TK.LOCAL, TK.HIVEVAR] (md' ++ w :: r) = (md', w :: r))
    (hh : isHivevar md' = false) (hw : w.isKw TK.ROLE = false) :
    parseSet c f d (kwT "SET") (md' ++ w :: r) = parseSetVar c f d (kwT "SET") md' [] (w :: r) := by
  unfold parseSet
  rw [hmd]
  simp only [parseSetTail, roleAhead, hivevarColon, hh, Bool.false_eq_true, if_false, mx_eatKw_cons, hw]

-- ------------------------------------------------------------------ SET NAMES DEFAULT
theorem fixMisc_setNamesDefault (c : TCfg) (f d : Nat) (kw : Tok) (md colon name : List Tok) (dk : Tok)
    (hd : (c.x.d.isMySql || c.x.d.isGeneric) = true) :
    parseStmt c f (d + 1) (Stmt.setNamesDefault kw md colon name dk).showToks =
      .ok ((Stmt.setNamesDefault kw md colon name dk).norm, []) := by
  have hsh : (Stmt.setNamesDefault kw md colon name dk).showToks = [kwT "SET", plainW "NAMES", kwT "DEFAULT"] := rfl
  rw [hsh, mx_dispatch_set]
  have h0 := mx_set_var_eval c f d [] (plainW "NAMES") [kwT "DEFAULT"]
    (mx_md_none _ _ (mx_plainW_isKw _ _) (mx_plainW_isKw _ _) (mx_plainW_isKw _ _)) mx_hivevar_nil (mx_plainW_isKw _ _)
  simp only [List.nil_append] at h0
  rw [h0]
  have ht := mx_setTarget_word c f (plainW "NAMES") [kwT "DEFAULT"] (mx_plainW_isKw _ _) (mx_plainW_isSym _ _)
    (by simpa [nameElem] using mx_objectName_one [] (plainW "NAMES") (kwT "DEFAULT") [] (mx_plainW_ident _) (mx_kwT_ne_period _))
    mx_set_names.2.2.2.2.2.2.2.2.1
  unfold parseSetVar
  rw [ht]
  simp only [namesBranch, mx_set_names, hd, Bool.and_self, if_true, parseSetNames, mx_eatKw_cons, mx_default,
    SetTarget.toks, Stmt.norm]

-- ------------------------------------------------------------------ SET NAMES charset [COLLATE collation]
/-- the token `Display` writes for a charset / collation name: an unquoted word that is no keyword, or a '…' string;
either way it holds the text of the name -/
theorem mx_namesPart_tok (sp : Bool) (t : Tok) :
    (namesPartPiece sp t).tok = .word (litValue t) none none ∨ (namesPartPiece sp t).tok = .sqs (litValue t) := by
  unfold namesPartPiece
  split
  · left; rfl
  · right; rfl

/-- `parse_literal_string` takes the printed name -/
theorem mx_literalString_part (sp : Bool) (t : Tok) (r : List Tok) :
    literalString ((namesPartPiece sp t).tok :: r) = .ok ((namesPartPiece sp t).tok, r) := by
  rcases mx_namesPart_tok sp t with h | h <;> rw [h] <;> rfl

theorem mx_part_isKw (sp : Bool) (t : Tok) (k : Nat) : (namesPartPiece sp t).tok.isKw k = false := by
  rcases mx_namesPart_tok sp t with h | h <;> rw [h] <;> rfl

theorem mx_part_ne_period (sp : Bool) (t : Tok) : (namesPartPiece sp t).tok ≠ .sym .Period := by
  rcases mx_namesPart_tok sp t with h | h <;> rw [h] <;> intro h' <;> cases h'

theorem mx_collate : (kwT "COLLATE").isKw TK.COLLATE = true := by decide +kernel

/-- the printed ` COLLATE name` is read back as it is -/
theorem mx_collatePart_norm (co : List Tok) : collatePart (collateNorm co) = .ok (collateNorm co, []) := by
  unfold collateNorm
  cases co.getLast? with
  | none => rfl
  | some t =>
    simp only [collatePart, mx_eatKw_cons, mx_collate, if_true, mx_literalString_part]

theorem mx_setNames_toks (kw : Tok) (md colon name : List Tok) (cs : Tok) (co : List Tok) :
    (Stmt.setNames kw md colon name cs co).showToks =
      kwT "SET" :: plainW "NAMES" :: (namesPartPiece true cs).tok :: collateNorm co := by
  simp only [Stmt.showToks, Stmt.pieces, collatePieces, collateNorm]
  cases co.getLast? <;> rfl

/-- `SET NAMES charset [COLLATE collation]`: whatever the source tokens were, the printed names are one word or one
'…' string each and are read back as such -/
theorem fixMisc_setNames (c : TCfg) (f d : Nat) (kw : Tok) (md colon name : List Tok) (cs : Tok) (co : List Tok)
    (hd : (c.x.d.isMySql || c.x.d.isGeneric) = true) :
    parseStmt c f (d + 1) (Stmt.setNames kw md colon name cs co).showToks =
      .ok ((Stmt.setNames kw md colon name cs co).norm, []) := by
  rw [mx_setNames_toks, mx_dispatch_set]
  have h0 := mx_set_var_eval c f d [] (plainW "NAMES") ((namesPartPiece true cs).tok :: collateNorm co)
    (mx_md_none _ _ (mx_plainW_isKw _ _) (mx_plainW_isKw _ _) (mx_plainW_isKw _ _)) mx_hivevar_nil (mx_plainW_isKw _ _)
  simp only [List.nil_append] at h0
  rw [h0]
  have ht := mx_setTarget_word c f (plainW "NAMES") ((namesPartPiece true cs).tok :: collateNorm co)
    (mx_plainW_isKw _ _) (mx_plainW_isSym _ _)
    (by
      simpa [nameElem] using mx_objectName_one [] (plainW "NAMES") (namesPartPiece true cs).tok (collateNorm co)
        (mx_plainW_ident _) (mx_part_ne_period _ _))
    mx_set_names.2.2.2.2.2.2.2.2.1
  unfold parseSetVar
  rw [ht]
  simp only [namesBranch, mx_set_names, hd, Bool.and_self, if_true, parseSetNames, mx_eatKw_cons, mx_part_isKw,
    Bool.false_eq_true, if_false, mx_literalString_part, mx_collatePart_norm, SetTarget.toks, Stmt.norm]

-- ------------------------------------------------------------------ SET TRANSACTION
/-- the printed modes are nothing, or begin with `READ` / `ISOLATION` -/
theorem mx_modes_head (ms : Sep TMode) :
    sepFlat TMode.flatten (sepNorm TMode.norm ms) = [] ∨
    ∃ M', sepFlat TMode.flatten (sepNorm TMode.norm ms) = kwT "READ" :: M' ∨
      sepFlat TMode.flatten (sepNorm TMode.norm ms) = kwT "ISOLATION" :: M' := by
  cases ms with
  | nil => exact Or.inl rfl
  | cons p rest =>
    right
    obtain ⟨m, sp⟩ := p
    cases rest with
    | nil => cases m <;> first | exact ⟨_, Or.inl rfl⟩ | exact ⟨_, Or.inr rfl⟩
    | cons q rest => cases m <;> first | exact ⟨_, Or.inl rfl⟩ | exact ⟨_, Or.inr rfl⟩

/-- what the re-parse needs of the token that follows the variable -/
theorem mx_modes_after (ms : Sep TMode) (acc : List Tok) (w : Tok) (hw : isIdentTok w = true) :
    objectName acc (w :: sepFlat TMode.flatten (sepNorm TMode.norm ms)) =
      .ok (acc ++ [w], sepFlat TMode.flatten (sepNorm TMode.norm ms)) ∧
    eqOrTo (sepFlat TMode.flatten (sepNorm TMode.norm ms)) = none ∧
    peekKw (sepFlat TMode.flatten (sepNorm TMode.norm ms)) TK.SNAPSHOT = false := by
  rcases mx_modes_head ms with h | ⟨M', h | h⟩ <;> rw [h]
  · exact ⟨mx_objectName_last acc w hw, rfl, rfl⟩
  · refine ⟨mx_objectName_one acc w _ _ hw (mx_kwT_ne_period _), ?_, ?_⟩
    · simp only [eqOrTo, mx_eatSym_cons, mx_kwT_isSym, Bool.false_eq_true, if_false, mx_eatKw_cons, mx_set_kws]
    · simp only [peekKw, mx_set_kws]
  · refine ⟨mx_objectName_one acc w _ _ hw (mx_kwT_ne_period _), ?_, ?_⟩
    · simp only [eqOrTo, mx_eatSym_cons, mx_kwT_isSym, Bool.false_eq_true, if_false, mx_eatKw_cons, mx_set_kws]
    · simp only [peekKw, mx_set_kws]

theorem fixMisc_setTx (c : TCfg) (f d : Nat)
    (htoks : ∀ ms : Sep TMode, toksOf (modesPieces ms) = sepFlat TMode.flatten (sepNorm TMode.norm ms))
    (kw : Tok) (md colon head : List Tok) (session : Bool) (ms : Sep TMode)
    (hm : modesLoop f false (sepFlat TMode.flatten (sepNorm TMode.norm ms)) = .ok (sepNorm TMode.norm ms, [])) :
    parseStmt c f (d + 1) (Stmt.setTx kw md colon head session ms).showToks =
      .ok ((Stmt.setTx kw md colon head session ms).norm, []) := by
  have hM := htoks ms
  simp only [toksOf] at hM
  cases session with
  | false =>
    have hsh : (Stmt.setTx kw md colon head false ms).showToks =
        kwT "SET" :: kwT "TRANSACTION" :: sepFlat TMode.flatten (sepNorm TMode.norm ms) := by
      simp only [Stmt.showToks, Stmt.pieces, setTxPieces, Bool.false_eq_true, if_false, List.map, kwP_tok,
        List.cons_append, List.nil_append, hM]
    rw [hsh, mx_dispatch_set]
    obtain ⟨a1, a2, a3⟩ := mx_modes_after ms [] (kwT "TRANSACTION") (mx_ident_kwT _)
    have h0 := mx_set_var_eval c f d [] (kwT "TRANSACTION") (sepFlat TMode.flatten (sepNorm TMode.norm ms))
      (mx_md_none _ _ mx_set_kws.2.2.2.2.2.2.2.2.2.1 mx_set_kws.2.2.2.2.2.2.2.2.2.2.1 mx_set_kws.2.2.2.2.2.2.2.2.2.2.2.1)
      mx_hivevar_nil mx_set_kws.2.2.2.2.2.2.2.2.2.2.2.2.1
    simp only [List.nil_append] at h0
    rw [h0]
    have ht := mx_setTarget_word c f (kwT "TRANSACTION") (sepFlat TMode.flatten (sepNorm TMode.norm ms))
      mx_set_kws.2.2.2.2.2.2.2.2.2.2.2.2.2.1 (mx_kwT_isSym _ _) (by simpa [nameElem] using a1)
      mx_set_names.2.2.2.2.2.2.2.2.2.1
    unfold parseSetVar
    rw [ht]
    simp only [namesBranch, mx_set_names, Bool.false_and, Bool.false_eq_true, if_false, a2, parseSetOther,
      SetTarget.isMany, SetTarget.isVar, List.isEmpty_nil, Bool.and_self, if_true, parseSetTransaction, a3, parseModes, hm,
      SetTarget.toks, Stmt.norm]
  | true =>
    have hsh : (Stmt.setTx kw md colon head true ms).showToks =
        kwT "SET" :: kwT "SESSION" :: plainW "CHARACTERISTICS" :: kwT "AS" :: kwT "TRANSACTION" ::
          sepFlat TMode.flatten (sepNorm TMode.norm ms) := by
      simp only [Stmt.showToks, Stmt.pieces, setTxPieces, if_true, List.map, kwP_tok,
        List.cons_append, List.nil_append, hM]
      rfl
    rw [hsh, mx_dispatch_set]
    have h0 := mx_set_var_eval c f d [kwT "SESSION"] (plainW "CHARACTERISTICS")
      (kwT "AS" :: kwT "TRANSACTION" :: sepFlat TMode.flatten (sepNorm TMode.norm ms))
      (mx_md_session _) mx_hivevar_session (mx_plainW_isKw _ _)
    simp only [List.cons_append, List.nil_append] at h0
    rw [h0]
    have hn := mx_objectName_one [] (plainW "CHARACTERISTICS") (kwT "AS")
      (kwT "TRANSACTION" :: sepFlat TMode.flatten (sepNorm TMode.norm ms)) (mx_plainW_ident _) (mx_kwT_ne_period _)
    have ht := mx_setTarget_word c f (plainW "CHARACTERISTICS")
      (kwT "AS" :: kwT "TRANSACTION" :: sepFlat TMode.flatten (sepNorm TMode.norm ms))
      (mx_plainW_isKw _ _) (mx_plainW_isSym _ _) (by simpa [nameElem] using hn) mx_set_names.2.2.2.2.2.2.2.2.2.2
    unfold parseSetVar
    rw [ht]
    simp only [namesBranch, mx_set_names, Bool.false_and, Bool.false_eq_true, if_false, eqOrTo, mx_eatSym_cons,
      mx_kwT_isSym, mx_eatKw_cons, mx_set_kws, parseSetOther, SetTarget.isMany, SetTarget.isVar, if_true,
      parseSetCharacteristics, eatKws, parseModes, hm, SetTarget.toks, Stmt.norm, List.cons_append, List.nil_append]

-- ------------------------------------------------------------------ SET: all results with `fixKind`
/-- `hmodes` / `htoks` are proved by the sibling file (`Lemmas/TclFixTx.lean`) -/
theorem fixMisc_set (c : TCfg) (f d : Nat) (kw : Tok) (ts rest : List Tok) (s : Stmt)
    (hmodes : ∀ (n : Nat) (req : Bool) (ts : List Tok) (ms : Sep TMode) (rest : List Tok),
      modesLoop n req ts = .ok (ms, rest) →
        modesLoop n false (sepFlat TMode.flatten (sepNorm TMode.norm ms)) = .ok (sepNorm TMode.norm ms, []))
    (htoks : ∀ ms : Sep TMode, toksOf (modesPieces ms) = sepFlat TMode.flatten (sepNorm TMode.norm ms))
    (h : parseSet c f d kw ts = .ok (s, rest)) (hk : s.fixKind = true) :
    parseStmt c f (d + 1) s.showToks = .ok (s.norm, []) := by
  unfold parseSet parseSetTail at h
  generalize (oneOfTail [TK.SESSION, TK.LOCAL, TK.HIVEVAR] ts).1 = md at h
  generalize (oneOfTail [TK.SESSION, TK.LOCAL, TK.HIVEVAR] ts).2 = ts1 at h
  split at h
  · exact fixMisc_setRole c f d _ _ _ _ _ _ h
  · split at h
    · simp at h
    · rename_i colon r hc
      unfold parseSetVar at h
      split at h
      · simp at h
      · rename_i tg r1 htg
        split at h
        · rename_i hnb
          have hd : (c.x.d.isMySql || c.x.d.isGeneric) = true := by
            unfold namesBranch at hnb
            simp only [Bool.and_eq_true] at hnb
            exact hnb.2
          unfold parseSetNames at h
          split at h
          · simp at h; obtain ⟨rfl, rfl⟩ := h
            exact fixMisc_setNamesDefault c f d _ _ _ _ _ hd
          · split at h
            · simp at h
            · split at h
              · simp at h
              · simp at h; obtain ⟨rfl, rfl⟩ := h
                exact fixMisc_setNames c f d _ _ _ _ _ _ hd
        · split at h
          · unfold parseSetValues at h
            split at h
            · simp at h
            · split at h
              · simp at h
              · split at h
                · simp at h
                · simp at h; obtain ⟨rfl, rfl⟩ := h
                  simp [Stmt.fixKind] at hk
          · unfold parseSetOther at h
            split at h
            · simp at h
            · split at h
              · split at h
                · simp at h
                · simp at h; obtain ⟨rfl, rfl⟩ := h
                  simp [Stmt.fixKind] at hk
              · split at h
                · unfold parseSetCharacteristics at h
                  split at h
                  · simp at h
                  · split at h
                    · simp at h
                    · rename_i ms r2 hm
                      simp at h; obtain ⟨rfl, rfl⟩ := h
                      exact fixMisc_setTx c f d htoks _ _ _ _ _ _ (hmodes _ _ _ _ _ hm)
                · split at h
                  · unfold parseSetTransaction at h
                    split at h
                    · simp at h
                    · split at h
                      · simp at h
                      · rename_i ms r2 hm
                        simp at h; obtain ⟨rfl, rfl⟩ := h
                        exact fixMisc_setTx c f d htoks _ _ _ _ _ _ (hmodes _ _ _ _ _ hm)
                  · simp at h

-- non-vacuity: accepted inputs of each of the five parsers
example : parseDiscard (kwT "DISCARD") [kwT "TEMPORARY"] = .ok (.discard (kwT "DISCARD") (kwT "TEMPORARY"), []) := by
  decide +kernel
example : parseDeallocate (kwT "DEALLOCATE") [kwT "PREPARE", plainW "p"] =
    .ok (.deallocate (kwT "DEALLOCATE") [kwT "PREPARE"] (plainW "p"), []) := by decide +kernel
example : parseClose (kwT "CLOSE") [kwT "ALL"] = .ok (.close (kwT "CLOSE") (kwT "ALL"), []) := by decide +kernel
example : parseSetRole (kwT "SET") [kwT "LOCAL"] (kwT "ROLE") [kwT "NONE"] =
    .ok (.setRole (kwT "SET") [kwT "LOCAL"] (kwT "ROLE") (kwT "NONE"), []) := by decide +kernel

end SqlVerif.Tcl

import SqlVerif.Lemmas.TclDefs
/-!
C01 (parse → print → parse) on the transaction-control statements of `Model/Tcl.lean`: parsing the PRINTED tokens of
an accepted `START TRANSACTION` / `BEGIN` / `COMMIT` / `END` / `ROLLBACK` / `SAVEPOINT` / `RELEASE` statement gives
`s.norm` (`fixTx_*`), by direct evaluation of the parser on the printed tokens.

* keyword tests between CLOSED keyword tokens are decided from the table positions `tx_ki_*` (one `decide +kernel`
  on the generated table; `kwIndex` is never unfolded by `simp`); `tx_simp [..]` is `simp` with those facts;
* `tx_dispatch_*`: the dispatcher on a printed head keyword;
* `tx_modeHead_norm`, `tx_modes_reparse(_gen)`, `tx_modes_toks`: the printed transaction modes are read back as
  `sepNorm TMode.norm ms` with no more fuel than the original run (re-usable for `SET TRANSACTION`).

Kernel-time trap: rewrite keyword constants only AFTER `oneOfTail` on a literal keyword list is unfolded
(`simp only [oneOfTail, eatKw]` first), otherwise the kernel check takes ~20 s.
-/
namespace SqlVerif.Tcl
open SqlVerif.Pratt SqlVerif.Query SqlVerif.Dml SqlVerif.Ddl SqlVerif.Gen

theorem tx_isKw_kwT (a : String) (k : Nat) : (kwT a).isKw k = (kwIndex a == k) := rfl
theorem tx_isKw_kwTi (k k' : Nat) : (kwTi k).isKw k' = (k == k') := rfl
theorem tx_isKw_plain (v : W) (q : Option Nat) (k : Nat) : (Tok.word v q none).isKw k = false := rfl
theorem tx_isSym_kwT (a : String) (s : Sym) : (kwT a).isSym s = false := rfl
theorem tx_isIdent_kwT (a : String) : isIdentTok (kwT a) = true := rfl

theorem tx_ki :
    kwIndex "START" = 630 ∧ kwIndex "TRANSACTION" = 685 ∧ kwIndex "BEGIN" = 42 ∧ kwIndex "WORK" = 760 ∧
    kwIndex "DEFERRED" = 162 ∧ kwIndex "IMMEDIATE" = 302 ∧ kwIndex "EXCLUSIVE" = 220 ∧ kwIndex "COMMIT" = 101 ∧
    kwIndex "END" = 201 ∧ kwIndex "ROLLBACK" = 575 ∧ kwIndex "AND" = 16 ∧ kwIndex "NO" = 425 ∧ kwIndex "CHAIN" = 75 ∧
    kwIndex "TO" = 681 ∧ kwIndex "SAVEPOINT" = 586 ∧ kwIndex "RELEASE" = 550 ∧ kwIndex "READ" = 529 ∧
    kwIndex "ONLY" = 458 ∧ kwIndex "WRITE" = 761 ∧ kwIndex "ISOLATION" = 337 ∧ kwIndex "LEVEL" = 360 ∧
    kwIndex "UNCOMMITTED" = 708 ∧ kwIndex "COMMITTED" = 102 ∧ kwIndex "REPEATABLE" = 555 ∧
    kwIndex "SERIALIZABLE" = 603 := by decide +kernel

theorem tx_ki_START : kwIndex "START" = 630 := tx_ki.1
theorem tx_ki_TRANSACTION : kwIndex "TRANSACTION" = 685 := tx_ki.2.1
theorem tx_ki_BEGIN : kwIndex "BEGIN" = 42 := tx_ki.2.2.1
theorem tx_ki_WORK : kwIndex "WORK" = 760 := tx_ki.2.2.2.1
theorem tx_ki_DEFERRED : kwIndex "DEFERRED" = 162 := tx_ki.2.2.2.2.1
theorem tx_ki_IMMEDIATE : kwIndex "IMMEDIATE" = 302 := tx_ki.2.2.2.2.2.1
theorem tx_ki_EXCLUSIVE : kwIndex "EXCLUSIVE" = 220 := tx_ki.2.2.2.2.2.2.1
theorem tx_ki_COMMIT : kwIndex "COMMIT" = 101 := tx_ki.2.2.2.2.2.2.2.1
theorem tx_ki_END : kwIndex "END" = 201 := tx_ki.2.2.2.2.2.2.2.2.1
theorem tx_ki_ROLLBACK : kwIndex "ROLLBACK" = 575 := tx_ki.2.2.2.2.2.2.2.2.2.1
theorem tx_ki_AND : kwIndex "AND" = 16 := tx_ki.2.2.2.2.2.2.2.2.2.2.1
theorem tx_ki_NO : kwIndex "NO" = 425 := tx_ki.2.2.2.2.2.2.2.2.2.2.2.1
theorem tx_ki_CHAIN : kwIndex "CHAIN" = 75 := tx_ki.2.2.2.2.2.2.2.2.2.2.2.2.1
theorem tx_ki_TO : kwIndex "TO" = 681 := tx_ki.2.2.2.2.2.2.2.2.2.2.2.2.2.1
theorem tx_ki_SAVEPOINT : kwIndex "SAVEPOINT" = 586 := tx_ki.2.2.2.2.2.2.2.2.2.2.2.2.2.2.1
theorem tx_ki_RELEASE : kwIndex "RELEASE" = 550 := tx_ki.2.2.2.2.2.2.2.2.2.2.2.2.2.2.2.1
theorem tx_ki_READ : kwIndex "READ" = 529 := tx_ki.2.2.2.2.2.2.2.2.2.2.2.2.2.2.2.2.1
theorem tx_ki_ONLY : kwIndex "ONLY" = 458 := tx_ki.2.2.2.2.2.2.2.2.2.2.2.2.2.2.2.2.2.1
theorem tx_ki_WRITE : kwIndex "WRITE" = 761 := tx_ki.2.2.2.2.2.2.2.2.2.2.2.2.2.2.2.2.2.2.1
theorem tx_ki_ISOLATION : kwIndex "ISOLATION" = 337 := tx_ki.2.2.2.2.2.2.2.2.2.2.2.2.2.2.2.2.2.2.2.1
theorem tx_ki_LEVEL : kwIndex "LEVEL" = 360 := tx_ki.2.2.2.2.2.2.2.2.2.2.2.2.2.2.2.2.2.2.2.2.1
theorem tx_ki_UNCOMMITTED : kwIndex "UNCOMMITTED" = 708 := tx_ki.2.2.2.2.2.2.2.2.2.2.2.2.2.2.2.2.2.2.2.2.2.1
theorem tx_ki_COMMITTED : kwIndex "COMMITTED" = 102 := tx_ki.2.2.2.2.2.2.2.2.2.2.2.2.2.2.2.2.2.2.2.2.2.2.1
theorem tx_ki_REPEATABLE : kwIndex "REPEATABLE" = 555 := tx_ki.2.2.2.2.2.2.2.2.2.2.2.2.2.2.2.2.2.2.2.2.2.2.2.1
theorem tx_ki_SERIALIZABLE : kwIndex "SERIALIZABLE" = 603 := tx_ki.2.2.2.2.2.2.2.2.2.2.2.2.2.2.2.2.2.2.2.2.2.2.2.2

/-- `simp` with every keyword test between closed keyword tokens (never unfolds `kwIndex`) -/
macro "tx_simp" "[" ls:Lean.Parser.Tactic.simpLemma,* "]" : tactic => `(tactic| simp [tx_isKw_kwT, tx_isKw_kwTi, TK.START, TK.TRANSACTION, TK.BEGIN, TK.WORK, TK.DEFERRED, TK.IMMEDIATE, TK.EXCLUSIVE,
  TK.COMMIT, TK.END_, TK.ROLLBACK, TK.AND, TK.NO, TK.CHAIN, TK.TO, TK.SAVEPOINT, TK.RELEASE, TK.READ, TK.ONLY, TK.WRITE,
  TK.ISOLATION, TK.LEVEL, TK.UNCOMMITTED, TK.COMMITTED, TK.REPEATABLE, TK.SERIALIZABLE,
  tx_ki_START, tx_ki_TRANSACTION, tx_ki_BEGIN, tx_ki_WORK, tx_ki_DEFERRED, tx_ki_IMMEDIATE, tx_ki_EXCLUSIVE, tx_ki_COMMIT,
  tx_ki_END, tx_ki_ROLLBACK, tx_ki_AND, tx_ki_NO, tx_ki_CHAIN, tx_ki_TO, tx_ki_SAVEPOINT, tx_ki_RELEASE, tx_ki_READ,
  tx_ki_ONLY, tx_ki_WRITE, tx_ki_ISOLATION, tx_ki_LEVEL, tx_ki_UNCOMMITTED, tx_ki_COMMITTED, tx_ki_REPEATABLE,
  tx_ki_SERIALIZABLE, $ls,*])
macro "tx_simp" "[" ls:Lean.Parser.Tactic.simpLemma,* "]" "at" h:ident : tactic => `(tactic| simp [tx_isKw_kwT, tx_isKw_kwTi, TK.START, TK.TRANSACTION, TK.BEGIN, TK.WORK, TK.DEFERRED, TK.IMMEDIATE, TK.EXCLUSIVE,
  TK.COMMIT, TK.END_, TK.ROLLBACK, TK.AND, TK.NO, TK.CHAIN, TK.TO, TK.SAVEPOINT, TK.RELEASE, TK.READ, TK.ONLY, TK.WRITE,
  TK.ISOLATION, TK.LEVEL, TK.UNCOMMITTED, TK.COMMITTED, TK.REPEATABLE, TK.SERIALIZABLE,
  tx_ki_START, tx_ki_TRANSACTION, tx_ki_BEGIN, tx_ki_WORK, tx_ki_DEFERRED, tx_ki_IMMEDIATE, tx_ki_EXCLUSIVE, tx_ki_COMMIT,
  tx_ki_END, tx_ki_ROLLBACK, tx_ki_AND, tx_ki_NO, tx_ki_CHAIN, tx_ki_TO, tx_ki_SAVEPOINT, tx_ki_RELEASE, tx_ki_READ,
  tx_ki_ONLY, tx_ki_WRITE, tx_ki_ISOLATION, tx_ki_LEVEL, tx_ki_UNCOMMITTED, tx_ki_COMMITTED, tx_ki_REPEATABLE,
  tx_ki_SERIALIZABLE, $ls,*] at $h:ident)

theorem tx_dispatch_commit (c : TCfg) (f d : Nat) (r : List Tok) :
    parseStmt c f (d + 1) (kwT "COMMIT" :: r) = parseCommit (kwT "COMMIT") r := by
  tx_simp [parseStmt]


theorem tx_dispatch_start (c : TCfg) (f d : Nat) (r : List Tok) :
    parseStmt c f (d + 1) (kwT "START" :: r) = parseStart f (kwT "START") r := by
  tx_simp [parseStmt]

theorem tx_dispatch_begin (c : TCfg) (f d : Nat) (r : List Tok) :
    parseStmt c f (d + 1) (kwT "BEGIN" :: r) = parseBegin c f (kwT "BEGIN") r := by
  tx_simp [parseStmt]

theorem tx_dispatch_rollback (c : TCfg) (f d : Nat) (r : List Tok) :
    parseStmt c f (d + 1) (kwT "ROLLBACK" :: r) = parseRollback (kwT "ROLLBACK") r := by
  tx_simp [parseStmt]

theorem tx_dispatch_savepoint (c : TCfg) (f d : Nat) (r : List Tok) :
    parseStmt c f (d + 1) (kwT "SAVEPOINT" :: r) = parseSavepoint (kwT "SAVEPOINT") r := by
  tx_simp [parseStmt]

theorem tx_dispatch_release (c : TCfg) (f d : Nat) (r : List Tok) :
    parseStmt c f (d + 1) (kwT "RELEASE" :: r) = parseRelease (kwT "RELEASE") r := by
  tx_simp [parseStmt]

-- ------------------------------------------------------------------ transaction modes
theorem tx_modeHead_nil : modeHead [] = .ok (none, []) := by
  simp [modeHead, eatKws, eatKw]

theorem tx_modeHead_norm (m : TMode) (r : List Tok) : modeHead (m.norm.flatten ++ r) = .ok (some m.norm, r) := by
  cases m with
  | iso t l =>
    cases l <;>
    · tx_simp [TMode.norm, TMode.flatten, IsoLevel.kws, modeHead, isoLevel, eatKws, eatKw]
  | readOnly t =>
    tx_simp [TMode.norm, TMode.flatten, modeHead, eatKws, eatKw]
  | readWrite t =>
    tx_simp [TMode.norm, TMode.flatten, modeHead, eatKws, eatKw]

/-- the first token of a printed mode is a keyword, not a comma -/
theorem tx_mode_head_tok (m : TMode) : ∃ a l, m.norm.flatten = kwT a :: l := by
  cases m with
  | iso t l => exact ⟨_, _, rfl⟩
  | readOnly t => exact ⟨_, _, rfl⟩
  | readWrite t => exact ⟨_, _, rfl⟩

theorem tx_eatSym_mode (m : TMode) (r : List Tok) (s : Sym) : eatSym (m.norm.flatten ++ r) s = none := by
  obtain ⟨a, l, h⟩ := tx_mode_head_tok m
  rw [h]; simp [eatSym, tx_isSym_kwT]

theorem tx_modes_reparse_gen : ∀ (n : Nat) (req : Bool) (ts : List Tok) (ms : Sep TMode) (rest : List Tok),
    modesLoop n req ts = .ok (ms, rest) → ∀ req' : Bool, (req' = true → ms ≠ []) →
    modesLoop n req' (sepFlat TMode.flatten (sepNorm TMode.norm ms)) = .ok (sepNorm TMode.norm ms, []) := by
  intro n
  induction n with
  | zero => intro req ts ms rest h; simp [modesLoop] at h
  | succ n ih =>
    intro req ts ms rest h req' hreq
    have key : ∀ (m : TMode) (sep : List Tok) (ms' : Sep TMode) (b : Bool) (r' r2 : List Tok),
        modesLoop n b r' = .ok (ms', r2) →
        modesLoop (n + 1) req' (sepFlat TMode.flatten (sepNorm TMode.norm ((m, sep) :: ms'))) =
          .ok (sepNorm TMode.norm ((m, sep) :: ms'), []) := by
      intro m sep ms' b r' r2 hr
      cases ms' with
      | nil =>
        have h1 := ih _ _ _ _ hr false (by simp)
        simp only [sepNorm, sepFlat] at h1 ⊢
        have h2 := tx_modeHead_norm m []
        rw [List.append_nil] at h2
        simp only [modesLoop, List.append_nil, h2]
        simp [eatSym, h1]
      | cons q rest' =>
        have h1 := ih _ _ _ _ hr true (by simp)
        simp only [sepNorm, sepFlat] at h1 ⊢
        simp only [modesLoop, List.append_assoc, tx_modeHead_norm m]
        simp [eatSym, Tok.isSym, h1]
    simp only [modesLoop] at h
    split at h
    · simp at h
    · split at h
      · simp at h
      · simp at h; obtain ⟨rfl, rfl⟩ := h
        cases req' with
        | true => simp at hreq
        | false => simp [sepNorm, sepFlat, modesLoop, tx_modeHead_nil]
    · rename_i m r hm
      split at h
      · split at h
        · simp at h
        · rename_i ms' r2 hr
          simp at h; obtain ⟨rfl, rfl⟩ := h
          exact key _ _ _ _ _ _ hr
      · split at h
        · simp at h
        · rename_i ms' r2 hr
          simp at h; obtain ⟨rfl, rfl⟩ := h
          exact key _ _ _ _ _ _ hr

theorem tx_modes_reparse : ∀ (n : Nat) (req : Bool) (ts : List Tok) (ms : Sep TMode) (rest : List Tok),
    modesLoop n req ts = .ok (ms, rest) →
    modesLoop n false (sepFlat TMode.flatten (sepNorm TMode.norm ms)) = .ok (sepNorm TMode.norm ms, []) :=
  fun n req ts ms rest h => tx_modes_reparse_gen n req ts ms rest h false (by simp)

theorem tx_mode_toks (m : TMode) : toksOf m.pieces = m.norm.flatten := by
  cases m with
  | iso t l => cases l <;> rfl
  | readOnly t => rfl
  | readWrite t => rfl

theorem tx_modes_toks (ms : Sep TMode) : toksOf (modesPieces ms) = sepFlat TMode.flatten (sepNorm TMode.norm ms) := by
  unfold modesPieces
  rw [Pratt.toksOf_spaced]
  exact toksOf_sepPieces TMode.pieces TMode.flatten TMode.norm tx_mode_toks ms


-- ------------------------------------------------------------------ small facts about source tokens
theorem tx_idPiece_tok (sp : Bool) (t : Tok) : (idPiece sp t).tok = t := by
  cases t <;> rfl

theorem tx_identElem_some {ts : List Tok} {n : Tok} {r : List Tok} (h : identElem ts = .ok (n, r)) :
    isIdentTok n = true := by
  unfold identElem at h
  split at h
  · simp at h
  · split at h
    · rename_i hi; simp at h; obtain ⟨rfl, rfl⟩ := h; exact hi
    · simp at h

theorem tx_identElem_cons {n : Tok} (h : isIdentTok n = true) (r : List Tok) : identElem (n :: r) = .ok (n, r) := by
  simp [identElem, h]

theorem tx_kwNorm_isKw {t : Tok} {k : Nat} (h : t.isKw k = true) : kwNormTok t = kwTi k := by
  cases t with
  | word v q kw =>
    cases kw with
    | none => simp [Tok.isKw] at h
    | some i => simp [Tok.isKw] at h; subst h; rfl
  | _ => simp [Tok.isKw] at h

theorem tx_kwTokP_tok (t : Tok) : (kwTokP true t).tok = kwNormTok t := rfl

theorem tx_oneOfTail_cases (ks : List Nat) (ts : List Tok) :
    (oneOfTail ks ts).1 = [] ∨ ∃ t k, k ∈ ks ∧ t.isKw k = true ∧ (oneOfTail ks ts).1 = [t] := by
  induction ks with
  | nil => left; rfl
  | cons k ks ih =>
    unfold oneOfTail
    split
    · rename_i t r hk
      right
      exact ⟨t, k, by simp, ((eatKw_some_iff _ _ _ _).1 hk).2, rfl⟩
    · rcases ih with h | ⟨t, k', hk, ht, he⟩
      · left; exact h
      · right; exact ⟨t, k', by simp [hk], ht, he⟩

theorem tx_rollbackSavepoint_sp {ts sp rest : List Tok} (h : rollbackSavepoint ts = .ok (sp, rest)) :
    sp = [] ∨ ∃ n, sp.getLast? = some n ∧ isIdentTok n = true := by
  unfold rollbackSavepoint at h
  split at h
  · simp at h; left; exact h.1
  · split at h
    · simp at h
    · rename_i n r1 hi
      simp at h; obtain ⟨rfl, rfl⟩ := h
      right
      refine ⟨n, ?_, tx_identElem_some hi⟩
      rw [← List.cons_append, List.getLast?_concat]

theorem tx_showToks (s : Stmt) : s.showToks = toksOf s.pieces := rfl

-- ------------------------------------------------------------------ the statements
theorem fixTx_savepoint {c : TCfg} {f d : Nat} {kw : Tok} {ts rest : List Tok} {s : Stmt}
    (h : parseSavepoint kw ts = .ok (s, rest)) : parseStmt c f (d + 1) s.showToks = .ok (s.norm, []) := by
  unfold parseSavepoint at h
  split at h
  · simp at h
  · rename_i n r hi
    have hn := tx_identElem_some hi
    simp at h; obtain ⟨rfl, rfl⟩ := h
    tx_simp [Stmt.showToks, Stmt.pieces, Stmt.norm, tx_idPiece_tok, parseStmt, parseSavepoint, identElem, hn]

theorem fixTx_release {c : TCfg} {f d : Nat} {kw : Tok} {ts rest : List Tok} {s : Stmt}
    (h : parseRelease kw ts = .ok (s, rest)) : parseStmt c f (d + 1) s.showToks = .ok (s.norm, []) := by
  unfold parseRelease at h
  split at h
  · simp at h
  · rename_i n r hi
    have hn := tx_identElem_some hi
    simp at h; obtain ⟨rfl, rfl⟩ := h
    tx_simp [Stmt.showToks, Stmt.pieces, Stmt.norm, tx_idPiece_tok, parseStmt, parseRelease, kwTail, eatKw, identElem, hn]

theorem fixTx_commit {c : TCfg} {f d : Nat} {kw : Tok} {ts rest : List Tok} {s : Stmt}
    (h : parseCommit kw ts = .ok (s, rest)) : parseStmt c f (d + 1) s.showToks = .ok (s.norm, []) := by
  unfold parseCommit at h
  split at h
  · simp at h
  · rename_i ch r hc
    simp at h; obtain ⟨rfl, rfl⟩ := h
    by_cases hch : isChain ch = true
    · tx_simp [Stmt.showToks, Stmt.pieces, Stmt.norm, chainPieces, chainNorm, hch, parseStmt, parseCommit, oneOfTail, txNoise,
        chainPart, kwTail, eatKw]
    · tx_simp [Stmt.showToks, Stmt.pieces, Stmt.norm, chainPieces, chainNorm, hch, parseStmt, parseCommit, oneOfTail, txNoise,
        chainPart, kwTail, eatKw]

theorem fixTx_rollback {c : TCfg} {f d : Nat} {kw : Tok} {ts rest : List Tok} {s : Stmt}
    (h : parseRollback kw ts = .ok (s, rest)) : parseStmt c f (d + 1) s.showToks = .ok (s.norm, []) := by
  unfold parseRollback at h
  split at h
  · simp at h
  · rename_i ch r hc
    split at h
    · simp at h
    · rename_i sp r1 hs
      simp at h; obtain ⟨rfl, rfl⟩ := h
      rcases tx_rollbackSavepoint_sp hs with rfl | ⟨n, hl, hn⟩
      · by_cases hch : isChain ch = true
        · tx_simp [Stmt.showToks, Stmt.pieces, Stmt.norm, chainPieces, chainNorm, savepointPieces, spNorm, hch, parseStmt,
            parseRollback, oneOfTail, txNoise, chainPart, rollbackSavepoint, kwTail, eatKw]
        · tx_simp [Stmt.showToks, Stmt.pieces, Stmt.norm, chainPieces, chainNorm, savepointPieces, spNorm, hch, parseStmt,
            parseRollback, oneOfTail, txNoise, chainPart, rollbackSavepoint, kwTail, eatKw]
      · by_cases hch : isChain ch = true
        · tx_simp [Stmt.showToks, Stmt.pieces, Stmt.norm, chainPieces, chainNorm, savepointPieces, spNorm, hch, hl, parseStmt,
            parseRollback, oneOfTail, txNoise, chainPart, rollbackSavepoint, kwTail, eatKw, tx_idPiece_tok, identElem, hn]
        · tx_simp [Stmt.showToks, Stmt.pieces, Stmt.norm, chainPieces, chainNorm, savepointPieces, spNorm, hch, hl, parseStmt,
            parseRollback, oneOfTail, txNoise, chainPart, rollbackSavepoint, kwTail, eatKw, tx_idPiece_tok, identElem, hn]


theorem fixTx_start {c : TCfg} {f d : Nat} {kw : Tok} {ts rest : List Tok} {s : Stmt}
    (h : parseStart f kw ts = .ok (s, rest)) : parseStmt c f (d + 1) s.showToks = .ok (s.norm, []) := by
  unfold parseStart at h
  split at h
  · simp at h
  · rename_i tk r hk
    split at h
    · simp at h
    · rename_i ms r1 hm
      simp at h; obtain ⟨rfl, rfl⟩ := h
      have hre := tx_modes_reparse f false r ms r1 hm
      rw [tx_showToks]
      simp only [Stmt.pieces, Pratt.toksOf_cons, Pratt.kwP_tok, tx_modes_toks, List.cons_append,
        List.nil_append, Stmt.norm, tx_dispatch_start]
      tx_simp [parseStart, eatKw, parseModes, hre]

theorem tx_noise_transaction (r : List Tok) :
    oneOfTail txNoise (kwT "TRANSACTION" :: r) = ([kwT "TRANSACTION"], r) := by
  tx_simp [oneOfTail, txNoise, eatKw]

theorem tx_beginMod_none (c : TCfg) (r : List Tok) :
    beginModifierTail c (kwT "TRANSACTION" :: r) = ([], kwT "TRANSACTION" :: r) := by
  unfold beginModifierTail
  split
  · simp only [oneOfTail, eatKw]
    tx_simp []
  · rfl

theorem tx_beginMod_some (c : TCfg) (hb : c.beginModifier = true) (k : Nat)
    (hk : k = TK.DEFERRED ∨ k = TK.IMMEDIATE ∨ k = TK.EXCLUSIVE) (r : List Tok) :
    beginModifierTail c (kwTi k :: r) = ([kwTi k], r) := by
  unfold beginModifierTail
  rw [if_pos hb]
  rcases hk with hk | hk | hk <;>
  · rw [hk]
    simp only [oneOfTail, eatKw]
    tx_simp []

/-- `parseBegin` on a printed `BEGIN` statement, given what the modifier step does on it -/
theorem tx_parseBegin_eval (c : TCfg) (f : Nat) (kw : Tok) (md r : List Tok) (ms : Sep TMode)
    (hbm : beginModifierTail c (md ++ kwT "TRANSACTION" :: r) = (md, kwT "TRANSACTION" :: r))
    (hre : modesLoop f false r = .ok (ms, [])) :
    parseBegin c f kw (md ++ kwT "TRANSACTION" :: r) = .ok (.begin kw md [kwT "TRANSACTION"] ms, []) := by
  simp only [parseBegin, hbm, tx_noise_transaction, parseModes, hre]

theorem fixTx_begin {c : TCfg} {f d : Nat} {kw : Tok} {ts rest : List Tok} {s : Stmt}
    (h : parseBegin c f kw ts = .ok (s, rest)) : parseStmt c f (d + 1) s.showToks = .ok (s.norm, []) := by
  unfold parseBegin at h
  split at h
  · simp at h
  · rename_i ms r1 hm
    simp at h; obtain ⟨rfl, rfl⟩ := h
    have hre := tx_modes_reparse f false _ ms r1 hm
    rw [tx_showToks]
    simp only [Stmt.pieces, Pratt.toksOf_append, Pratt.toksOf_cons, Pratt.kwP_tok, tx_modes_toks, List.cons_append,
      List.nil_append, Stmt.norm, tx_dispatch_begin]
    have hmd : toksOf ((beginModifierTail c ts).1.map (kwTokP true)) = (beginModifierTail c ts).1.map kwNormTok := by
      simp [toksOf, tx_kwTokP_tok]
    have hnil : toksOf ([] : List Piece) = [] := rfl
    rw [hmd]
    simp only [hnil, List.append_assoc, List.cons_append, List.nil_append]
    apply tx_parseBegin_eval _ _ _ _ _ _ _ hre
    by_cases hb : c.beginModifier = true
    · have hcases := tx_oneOfTail_cases [TK.DEFERRED, TK.IMMEDIATE, TK.EXCLUSIVE] ts
      have hbt : beginModifierTail c ts = oneOfTail [TK.DEFERRED, TK.IMMEDIATE, TK.EXCLUSIVE] ts := by
        unfold beginModifierTail; rw [if_pos hb]
      rw [← hbt] at hcases
      rcases hcases with h0 | ⟨t, k, hk, ht, h1⟩
      · rw [h0]
        exact tx_beginMod_none c _
      · rw [h1]
        simp only [List.mem_cons, List.not_mem_nil, or_false] at hk
        simp only [List.map, tx_kwNorm_isKw ht, List.cons_append, List.nil_append]
        exact tx_beginMod_some c hb k hk _
    · have h0 : (beginModifierTail c ts).1 = [] := by
        unfold beginModifierTail; rw [if_neg hb]
      rw [h0]
      exact tx_beginMod_none c _

-- ------------------------------------------------------------------ non-vacuity
/-- `START TRANSACTION READ ONLY ISOLATION LEVEL SERIALIZABLE` (no comma in the source): the printed statement has the
comma and is read back as the normal form -/
example (c : TCfg) (d : Nat) :
    parseStmt c 3 (d + 1)
        (Stmt.startTx (kwT "START") (kwT "TRANSACTION")
          [(.readOnly [kwT "READ", kwT "ONLY"], []),
           (.iso [kwT "ISOLATION", kwT "LEVEL", kwT "SERIALIZABLE"] .serializable, [])]).showToks =
      .ok (Stmt.startTx (kwT "START") (kwT "TRANSACTION")
          [(.readOnly [kwT "READ", kwT "ONLY"], [.sym .Comma]),
           (.iso [kwT "ISOLATION", kwT "LEVEL", kwT "SERIALIZABLE"] .serializable, [])], []) :=
  fixTx_start (kw := kwT "START")
    (ts := [kwT "TRANSACTION", kwT "READ", kwT "ONLY", kwT "ISOLATION", kwT "LEVEL", kwT "SERIALIZABLE"])
    (rest := [])
    (by tx_simp [parseStart, parseModes, modesLoop, modeHead, isoLevel, eatKws, eatKw, eatSym, tx_isSym_kwT])

/-- `END WORK AND NO CHAIN` prints `COMMIT` -/
example (c : TCfg) (f d : Nat) :
    parseStmt c f (d + 1) (Stmt.commit (kwT "END") [kwT "WORK"] [kwT "AND", kwT "NO", kwT "CHAIN"]).showToks =
      .ok (Stmt.commit (kwT "COMMIT") [] [], []) :=
  fixTx_commit (kw := kwT "END") (ts := [kwT "WORK", kwT "AND", kwT "NO", kwT "CHAIN"]) (rest := [])
    (by tx_simp [parseCommit, oneOfTail, txNoise, chainPart, kwTail, eatKw])

/-- `ROLLBACK AND CHAIN TO x` prints `ROLLBACK AND CHAIN TO SAVEPOINT x` -/
example (c : TCfg) (f d : Nat) (x : W) :
    parseStmt c f (d + 1)
        (Stmt.rollback (kwT "ROLLBACK") [] [kwT "AND", kwT "CHAIN"] [kwT "TO", .word x none none]).showToks =
      .ok (Stmt.rollback (kwT "ROLLBACK") [] [kwT "AND", kwT "CHAIN"] [kwT "TO", kwT "SAVEPOINT", .word x none none], []) :=
  fixTx_rollback (kw := kwT "ROLLBACK") (ts := [kwT "AND", kwT "CHAIN", kwT "TO", .word x none none]) (rest := [])
    (by tx_simp [parseRollback, oneOfTail, txNoise, chainPart, rollbackSavepoint, kwTail, eatKw, identElem, isIdentTok, tx_isKw_plain])

end SqlVerif.Tcl

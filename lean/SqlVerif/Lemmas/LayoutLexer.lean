import SqlVerif.Lemmas.TokLemmas
/-!
# The lexer half of layout blindness (C07): `next_token` never looks past a separator

`Sep env c` collects what the look-ahead sites of `next_token` need of a whitespace character `c`
(it is whitespace for `char::is_whitespace`, it is an ASCII blank or non-ASCII, and none of the
dialect's "continue this token" predicates accepts it).  The main result, `nextToken_ws_cut`:

  if `next_token` on `s ++ c :: x` returns a token that ends inside `s` (possibly exactly at its end)
  then on `s ++ c' :: x'` it returns the same token and leaves the same part of `s`,

for all separators `c`, `c'`, all `x`, `x'`, every non-Redshift `env` (Redshift's
`is_proper_identifier_inside_quotes` skips a whitespace run on a clone: unbounded look-ahead) and with
one exception that is part of the statement: a lone `\r` directly before the cut is `Newline` on its
own but merges with a following `\n`.  Proved for EVERY branch of `next_token` (no branch
hypotheses): operators, words, numbers, `$`-forms, all string literal forms, delimited identifiers,
comments.  `tokLoop_cut` lifts it through the tokenizer loop.

Technique: `CutRel c x c' x' o o'` says "a successful result `o` whose rest still contains the cut
`c :: x` is reproduced in `o'` with `c' :: x'`"; branch functions are handled by `fun_cases` on the
text before the cut, `takeWhile`/`dropWhile` leaves by frame equations, recursive scanners by
induction with results lying past the cut excluded by the suffix lemmas of `TokLemmas`.
-/
namespace SqlVerif.Tok
open SqlVerif.Scan

structure Sep (env : Env) (c : Nat) : Prop where
  ws : env.isWhitespace c = true
  ascii : c = 9 ∨ c = 10 ∨ c = 11 ∨ c = 12 ∨ c = 13 ∨ c = 32 ∨ 128 ≤ c
  identPart : env.isIdentPart c = false
  customOp : env.isCustomOpPart c = false
  numeric : env.isNumeric c = false
  alnum : env.isAlphanumeric c = false

theorem Sep.ne {env : Env} {c : Nat} (h : Sep env c) :
    c ≠ 33 ∧ c ≠ 34 ∧ c ≠ 36 ∧ c ≠ 38 ∧ c ≠ 39 ∧ c ≠ 42 ∧ c ≠ 43 ∧ c ≠ 45 ∧ c ≠ 46 ∧ c ≠ 47 ∧
    c ≠ 58 ∧ c ≠ 60 ∧ c ≠ 61 ∧ c ≠ 62 ∧ c ≠ 63 ∧ c ≠ 64 ∧ c ≠ 69 ∧ c ≠ 76 ∧ c ≠ 92 ∧ c ≠ 93 ∧
    c ≠ 96 ∧ c ≠ 101 ∧ c ≠ 120 ∧ c ≠ 124 ∧ c ≠ 126 := by
  have := h.ascii; omega

theorem takeWhile_cut (p : Nat → Bool) (s : List Nat) {c : Nat} (x : List Nat) (hc : p c = false) :
    (s ++ c :: x).takeWhile p = s.takeWhile p := by
  induction s with
  | nil => simp [hc]
  | cons d s ih => simp only [List.cons_append, List.takeWhile_cons]; split <;> simp [ih]

theorem dropWhile_cut (p : Nat → Bool) (s : List Nat) {c : Nat} (x : List Nat) (hc : p c = false) :
    (s ++ c :: x).dropWhile p = s.dropWhile p ++ c :: x := by
  induction s with
  | nil => simp [hc]
  | cons d s ih => simp only [List.cons_append, List.dropWhile_cons]; split <;> simp [ih]

section
variable {env : Env} {c c' : Nat} {x x' : List Nat}

/-- `u` and `u'` are the same text up to a cut, after which come `c :: x` resp. `c' :: x'` -/
def Cut2 (c : Nat) (x : List Nat) (c' : Nat) (x' : List Nat) (u u' : List Nat) : Prop :=
  ∃ s, u = s ++ c :: x ∧ u' = s ++ c' :: x'

theorem Cut2.nil : Cut2 c x c' x' (c :: x) (c' :: x') := ⟨[], rfl, rfl⟩
theorem Cut2.app (s) : Cut2 c x c' x' (s ++ c :: x) (s ++ c' :: x') := ⟨s, rfl, rfl⟩
theorem Cut2.cons (d) {u u'} (h : Cut2 c x c' x' u u') : Cut2 c x c' x' (d :: u) (d :: u') := by
  obtain ⟨s, rfl, rfl⟩ := h; exact ⟨d :: s, rfl, rfl⟩

macro "cut2_tac" : tactic =>
  `(tactic| ((repeat (first | exact Cut2.nil | exact Cut2.app _ | apply Cut2.cons)); done))

/-- a successful result that stops before the cut is reproduced on the other text -/
def CutRel {ε α : Type} (c : Nat) (x : List Nat) (c' : Nat) (x' : List Nat)
    (o o' : Except ε (α × List Nat)) : Prop :=
  ∀ t r, o = .ok (t, r ++ c :: x) → o' = .ok (t, r ++ c' :: x')

def frame {ε α : Type} (o : Except ε (α × List Nat)) (y : List Nat) : Except ε (α × List Nat) :=
  match o with
  | .error e => .error e
  | .ok (t, r) => .ok (t, r ++ y)

@[simp] theorem frame_ok {ε α : Type} (t : α) (r y : List Nat) :
    frame (ε := ε) (.ok (t, r)) y = .ok (t, r ++ y) := rfl
@[simp] theorem frame_error {ε α : Type} (e : ε) (y : List Nat) :
    frame (α := α) (.error e) y = .error e := rfl
theorem frame_ite {ε α : Type} (p : Prop) [Decidable p] (a b : Except ε (α × List Nat)) (y) :
    frame (if p then a else b) y = if p then frame a y else frame b y := by
  split <;> rfl

theorem cutRel_frame {ε α : Type} (o : Except ε (α × List Nat)) :
    CutRel c x c' x' (frame o (c :: x)) (frame o (c' :: x')) := by
  intro t r h
  cases o with
  | error e => simp [frame] at h
  | ok v =>
    obtain ⟨t0, r0⟩ := v
    simp only [frame, Except.ok.injEq, Prod.mk.injEq] at h ⊢
    obtain ⟨rfl, h2⟩ := h
    exact ⟨rfl, by rw [List.append_cancel_right h2]⟩

theorem cutRel_ok {ε α : Type} (t : α) {u u'} (h : Cut2 c x c' x' u u') :
    CutRel (ε := ε) c x c' x' (.ok (t, u)) (.ok (t, u')) := by
  obtain ⟨s, rfl, rfl⟩ := h
  exact cutRel_frame (.ok (t, s))

theorem cutRel_error {ε α : Type} (e : ε) (o') :
    CutRel (α := α) c x c' x' (.error e) o' := by
  intro t r h; simp at h

theorem cutRel_ite {ε α : Type} (p : Prop) [Decidable p] (a b a' b' : Except ε (α × List Nat))
    (h1 : p → CutRel c x c' x' a a') (h2 : ¬ p → CutRel c x c' x' b b') :
    CutRel c x c' x' (if p then a else b) (if p then a' else b') := by
  by_cases h : p <;> simp [h, h1, h2]

/-! leaves based on `takeWhile`/`dropWhile` -/

theorem binop_frame (hc : Sep env c) (pfx d) (s : List Nat) :
    binop env pfx d (s ++ c :: x) = frame (binop env pfx d s) (c :: x) := by
  simp [binop, startBinop, frame, takeWhile_cut _ _ _ hc.customOp, dropWhile_cut _ _ _ hc.customOp]

theorem binop_cut (hc : Sep env c) (hc' : Sep env c') (pfx d) {u u'} (h : Cut2 c x c' x' u u') :
    CutRel c x c' x' (binop env pfx d u) (binop env pfx d u') := by
  obtain ⟨s, rfl, rfl⟩ := h
  rw [binop_frame hc, binop_frame hc']; exact cutRel_frame _

theorem wordFrom_frame (hc : Sep env c) (first) (s : List Nat) :
    wordFrom env first (s ++ c :: x) = frame (wordFrom env first s) (c :: x) := by
  simp [wordFrom, tokenizeWord, frame, takeWhile_cut _ _ _ hc.identPart, dropWhile_cut _ _ _ hc.identPart]

theorem wordFrom_cut (hc : Sep env c) (hc' : Sep env c') (first) {u u'} (h : Cut2 c x c' x' u u') :
    CutRel c x c' x' (wordFrom env first u) (wordFrom env first u') := by
  obtain ⟨s, rfl, rfl⟩ := h
  rw [wordFrom_frame hc, wordFrom_frame hc']; exact cutRel_frame _

theorem isDigitOrDot_sep (hc : Sep env c) : isDigitOrDot c = false := by
  have := hc.ascii
  simp only [isDigitOrDot, isAsciiDigit, Bool.or_eq_false_iff, decide_eq_false_iff_not, beq_eq_false_iff_ne]
  omega

theorem isAsciiDigit_sep (hc : Sep env c) : isAsciiDigit c = false := by
  have := hc.ascii
  simp only [isAsciiDigit, decide_eq_false_iff_not]; omega

theorem isAsciiHexdigit_sep (hc : Sep env c) : isAsciiHexdigit c = false := by
  have := hc.ascii
  simp only [isAsciiHexdigit, decide_eq_false_iff_not]; omega

theorem tokenizeWord_cut1 (hc : Sep env c) (first s : List Nat) :
    (tokenizeWord env first (s ++ c :: x)).1 = (tokenizeWord env first s).1 := by
  simp [tokenizeWord, takeWhile_cut _ _ _ hc.identPart]
theorem tokenizeWord_cut2 (hc : Sep env c) (first s : List Nat) :
    (tokenizeWord env first (s ++ c :: x)).2 = (tokenizeWord env first s).2 ++ c :: x := by
  simp [tokenizeWord, dropWhile_cut _ _ _ hc.identPart]

theorem identOrKeyword_frame (hc : Sep env c) (first) (s : List Nat) :
    identOrKeyword env first (s ++ c :: x) = frame (identOrKeyword env first s) (c :: x) := by
  unfold identOrKeyword
  simp only [tokenizeWord_cut1 hc, tokenizeWord_cut2 hc, takeWhile_cut _ _ _ (isDigitOrDot_sep hc),
    dropWhile_cut _ _ _ (isDigitOrDot_sep hc)]
  split <;> rfl

theorem identOrKeyword_cut (hc : Sep env c) (hc' : Sep env c') (first) {u u'} (h : Cut2 c x c' x' u u') :
    CutRel c x c' x' (identOrKeyword env first u) (identOrKeyword env first u') := by
  obtain ⟨s, rfl, rfl⟩ := h
  rw [identOrKeyword_frame hc, identOrKeyword_frame hc']; exact cutRel_frame _

theorem lexQuestion_cut (hc : Sep env c) (hc' : Sep env c') {u u'} (h : Cut2 c x c' x' u u') :
    CutRel c x c' x' (lexQuestion env u) (lexQuestion env u') := by
  obtain ⟨s, rfl, rfl⟩ := h
  have e : ∀ {c x}, Sep env c → lexQuestion env (s ++ c :: x) = frame (lexQuestion env s) (c :: x) := by
    intro c x hc
    simp [lexQuestion, frame, takeWhile_cut _ _ _ hc.numeric, dropWhile_cut _ _ _ hc.numeric]
  rw [e hc, e hc']; exact cutRel_frame _

/-! comments -/

theorem not_suffix_cut {r : List Nat} {c : Nat} {x : List Nat} (h : (r ++ c :: x) <:+ x) : False := by
  have := h.length_le; simp at this; omega

theorem slc_cons_nl (u : List Nat) : singleLineComment (10 :: u) = ([10], u) := by
  simp [singleLineComment]

theorem slc_cons_ne {d : Nat} (u : List Nat) (h : d ≠ 10) :
    singleLineComment (d :: u) = (d :: (singleLineComment u).1, (singleLineComment u).2) := by
  simp only [singleLineComment, List.dropWhile_cons, List.takeWhile_cons, bne_iff_ne, ne_eq, h,
    not_false_eq_true, ↓reduceIte]
  split <;> simp

theorem slc_cut : ∀ (s r : List Nat), (singleLineComment (s ++ c :: x)).2 = r ++ c :: x →
    (singleLineComment (s ++ c' :: x')).2 = r ++ c' :: x' ∧
    (singleLineComment (s ++ c' :: x')).1 = (singleLineComment (s ++ c :: x)).1
  | [], r, h => by
    exfalso
    have h2 := singleLineComment_suf x
    by_cases hc : c = 10
    · subst hc; rw [List.nil_append, slc_cons_nl] at h
      have := congrArg List.length h
      simp at this; omega
    · rw [List.nil_append, slc_cons_ne _ hc] at h
      simp only at h
      exact not_suffix_cut (h ▸ h2)
  | d :: s, r, h => by
    by_cases hd : d = 10
    · subst hd
      simp only [List.cons_append, slc_cons_nl] at h ⊢
      have := List.append_cancel_right h
      subst this; simp
    · simp only [List.cons_append, slc_cons_ne _ hd] at h ⊢
      obtain ⟨h1, h2⟩ := slc_cut s r h
      exact ⟨h1, by rw [h2]⟩

theorem lineComment_cut (pfx) {u u'} (h : Cut2 c x c' x' u u') :
    CutRel c x c' x' (lineComment pfx u) (lineComment pfx u') := by
  obtain ⟨s, rfl, rfl⟩ := h
  intro t r e
  simp only [lineComment, Except.ok.injEq, Prod.mk.injEq] at e ⊢
  obtain ⟨h1, h2⟩ := slc_cut s r e.2
  rw [h2, h1]; exact ⟨e.1, rfl⟩

/-! operator arms -/
theorem append_cut_ne (k : Nat) {s : List Nat} {c : Nat} {x : List Nat} (hs : ∀ r, s = k :: r → False)
    (hc : c ≠ k) : ∀ r, s ++ c :: x = k :: r → False := by
  intro r h
  rcases s with _ | ⟨d, s⟩
  · simp at h; exact hc h.1
  · simp at h; exact hs s (by rw [h.1])

theorem cons_cut_ne (k d : Nat) {s : List Nat} {c : Nat} {x : List Nat} (hs : ∀ r, d :: s = k :: r → False) :
    ∀ r, d :: (s ++ c :: x) = k :: r → False := by
  intro r h
  simp at h; exact hs s (by rw [h.1])

theorem head_cut_ne (k : Nat) {c : Nat} {x : List Nat} (hc : c ≠ k) : ∀ r, c :: x = k :: r → False := by
  intro r h; simp at h; exact hc h.1

macro "cut_disch" : tactic => `(tactic| first
  | assumption
  | (apply append_cut_ne <;> assumption)
  | (apply cons_cut_ne; assumption)
  | (apply head_cut_ne; assumption))

/-! ## `Option`-valued scanners -/

def CutRelO {α : Type} (c : Nat) (x : List Nat) (c' : Nat) (x' : List Nat)
    (o o' : Option (α × List Nat)) : Prop :=
  ∀ t r, o = some (t, r ++ c :: x) → o' = some (t, r ++ c' :: x')

theorem cutRelO_none {α : Type} (o') : CutRelO (α := α) c x c' x' none o' := by
  intro t r h; simp at h

theorem cutRelO_some {α : Type} (t : α) {u u'} (h : Cut2 c x c' x' u u') :
    CutRelO c x c' x' (some (t, u)) (some (t, u')) := by
  obtain ⟨s, rfl, rfl⟩ := h
  intro t0 r e
  simp only [Option.some.injEq, Prod.mk.injEq] at e ⊢
  exact ⟨e.1, by rw [List.append_cancel_right e.2]⟩

theorem cutRelO_push (a : List Nat) {o o'} (h : CutRelO c x c' x' o o') :
    CutRelO c x c' x' (push a o) (push a o') := by
  intro t r e
  obtain ⟨p', e', rfl⟩ := push_eq_some e
  rw [h p' r e']; rfl

theorem cutRelO_of_suf {o : Option (List Nat × List Nat)} (o') (h : SufO o x) : CutRelO c x c' x' o o' := by
  intro t r e
  exact (not_suffix_cut (h t _ e)).elim

theorem cutRel_of_suf {ε α : Type} {o : Except ε (α × List Nat)} (o') (h : SufE o x) :
    CutRel c x c' x' o o' := by
  intro t r e
  exact (not_suffix_cut (h t _ e)).elim

theorem pushE_eq_ok {a : List Nat} {o : Except ScanErr (List Nat × List Nat)} {p r : List Nat}
    (h : pushE a o = .ok (p, r)) : ∃ p', o = .ok (p', r) ∧ p = a ++ p' := by
  cases o with
  | error e => simp [Scan.pushE] at h
  | ok y => obtain ⟨p', r'⟩ := y; simp [Scan.pushE] at h; exact ⟨p', by rw [h.2], h.1.symm⟩

theorem cutRel_pushE (a : List Nat) {o o'} (h : CutRel c x c' x' o o') :
    CutRel c x c' x' (pushE a o) (pushE a o') := by
  intro t r e
  obtain ⟨p', e', rfl⟩ := pushE_eq_ok e
  rw [h p' r e']; rfl

theorem cutRelO_ite {α : Type} (p : Prop) [Decidable p] (a b a' b' : Option (α × List Nat))
    (h1 : p → CutRelO c x c' x' a a') (h2 : ¬ p → CutRelO c x c' x' b b') :
    CutRelO c x c' x' (if p then a else b) (if p then a' else b') := by
  by_cases h : p <;> simp [h, h1, h2]

macro "sufo_close" : tactic => `(tactic| ((try simp only [sufO_push]); first
  | assumption
  | apply_assumption
  | exact SufO.mono (by assumption) (by suff_tac)
  | exact SufO.mono (by apply_assumption) (by suff_tac)))

macro "sufe_close" : tactic => `(tactic| ((try simp only [sufE_pushE]); first
  | assumption
  | apply_assumption
  | exact SufE.mono (by assumption) (by suff_tac)
  | exact SufE.mono (by apply_assumption) (by suff_tac)))

/-- closes goals built from `push`/`pushE`, literal results, induction hypotheses and results that
lie entirely after the cut; the argument is an extra closing tactic (induction hypothesis) -/
macro "scan_with " t:tactic : tactic => `(tactic| (
  repeat (first
    | assumption
    | contradiction
    | ($t:tactic)
    | exact cutRelO_none _
    | exact cutRel_error _ _
    | exact cutRelO_some _ (by cut2_tac)
    | exact cutRel_ok _ (by cut2_tac)
    | apply cutRelO_push
    | apply cutRel_pushE
    | (apply cutRelO_of_suf; sufo_close; done)
    | (apply cutRel_of_suf; sufe_close; done))))

macro "scan_tac" : tactic => `(tactic| scan_with fail)

/-- congruence through `if` with the same condition on both sides -/
macro "ite_cong" : tactic =>
  `(tactic| repeat' (first | (apply cutRelO_ite <;> intro _) | (apply cutRel_ite <;> intro _)))

theorem two_step {P : List Nat → Prop} (h0 : P []) (h1 : ∀ d, P [d])
    (h2 : ∀ d d2 s, P s → P (d2 :: s) → P (d :: d2 :: s)) : ∀ s, P s := by
  have : ∀ s, P s ∧ ∀ d, P (d :: s) := by
    intro s
    induction s with
    | nil => exact ⟨h0, h1⟩
    | cons d s ih => exact ⟨ih.2 d, fun d0 => h2 d0 d s ih.1 (ih.2 d)⟩
  exact fun s => (this s).1

/-! strict suffix: on a non-empty input at least one character is consumed -/

theorem multiLineBody_suf1 (a b d u) : SufO (multiLineBody a b (d :: u)) u := by
  have h := fun a b => multiLineBody_suf a b u
  simp only [multiLineBody]
  repeat' split
  all_goals (simp only [sufO_push, sufO_some]; first | exact h _ _ | suff_tac)

theorem multiLineBody_cut {u u'} (h : Cut2 c x c' x' u u') (a b : Nat) :
    CutRelO c x c' x' (multiLineBody a b u) (multiLineBody a b u') := by
  obtain ⟨s, rfl, rfl⟩ := h
  induction s generalizing a b with
  | nil => have := multiLineBody_suf1 a b c x; scan_tac
  | cons d s ih =>
    simp only [List.cons_append, multiLineBody]
    ite_cong
    all_goals scan_with (exact ih _ _)

theorem quotedBody_suf1 (q bs un d u) : SufO (quotedBody q bs un (d :: u)) u := by
  have h0 := quotedBody_suf q bs un u
  cases u with
  | nil => simp only [quotedBody]; split <;> simp [sufO_none, sufO_some]
  | cons e u =>
    have h1 := quotedBody_suf q bs un u
    simp only [quotedBody]
    repeat' split
    all_goals sufo_tac

theorem quotedBody_cut {q : Nat} (hq : c ≠ q) (hq' : c' ≠ q) (bs un) {u u'} (h : Cut2 c x c' x' u u') :
    CutRelO c x c' x' (quotedBody q bs un u) (quotedBody q bs un u') := by
  obtain ⟨s, rfl, rfl⟩ := h
  induction s using two_step with
  | h0 => have := quotedBody_suf1 q bs un c x; scan_tac
  | h1 d =>
    have := quotedBody_suf1 q bs un c x
    have := quotedBody_suf q bs un x
    simp only [List.cons_append, List.nil_append, quotedBody, hq, hq', ↓reduceIte]
    ite_cong
    all_goals scan_tac
  | h2 d d2 s ih1 ih2 =>
    simp only [List.cons_append, quotedBody]
    ite_cong
    all_goals scan_tac

theorem tripleBody_suf1 (q bs un n d u) : SufO (tripleBody q bs un n (d :: u)) u := by
  have h0 := fun n => tripleBody_suf q bs un n u
  cases u with
  | nil => simp only [tripleBody]; split <;> simp [sufO_none, sufO_some]
  | cons e u =>
    have h1 := fun n => tripleBody_suf q bs un n u
    simp only [tripleBody]
    repeat' split
    all_goals (simp only [sufO_push, sufO_some]; first | exact h0 _ | exact (h1 _).mono (by suff_tac) | suff_tac)

theorem tripleBody_cut {q : Nat} (bs un) {u u'} (h : Cut2 c x c' x' u u') (n : Nat) :
    CutRelO c x c' x' (tripleBody q bs un n u) (tripleBody q bs un n u') := by
  obtain ⟨s, rfl, rfl⟩ := h
  induction s using two_step generalizing n with
  | h0 => have := tripleBody_suf1 q bs un n c x; scan_tac
  | h1 d =>
    have := fun n => tripleBody_suf1 q bs un n c x
    have := fun n => tripleBody_suf q bs un n x
    simp only [List.cons_append, List.nil_append, tripleBody]
    ite_cong
    all_goals scan_tac
  | h2 d d2 s ih1 ih2 =>
    simp only [List.cons_append, tripleBody]
    ite_cong
    all_goals scan_with (first | exact ih1 _ | exact ih2 _)

theorem quotedIdentBody_suf1 (q un d u) : SufO (quotedIdentBody q un (d :: u)) u := by
  have h0 := quotedIdentBody_suf q un u
  cases u with
  | nil => simp only [quotedIdentBody]; split <;> simp [sufO_none, sufO_some]
  | cons e u =>
    have h1 := quotedIdentBody_suf q un u
    simp only [quotedIdentBody]
    repeat' split
    all_goals sufo_tac

theorem quotedIdentBody_cut {q : Nat} (hq : c ≠ q) (hq' : c' ≠ q) (un) {u u'} (h : Cut2 c x c' x' u u') :
    CutRelO c x c' x' (quotedIdentBody q un u) (quotedIdentBody q un u') := by
  obtain ⟨s, rfl, rfl⟩ := h
  induction s using two_step with
  | h0 => have := quotedIdentBody_suf1 q un c x; scan_tac
  | h1 d =>
    have := quotedIdentBody_suf1 q un c x
    have := quotedIdentBody_suf q un x
    simp only [List.cons_append, List.nil_append, quotedIdentBody, hq, hq', ↓reduceIte]
    ite_cong
    all_goals scan_tac
  | h2 d d2 s ih1 ih2 =>
    simp only [List.cons_append, quotedIdentBody]
    ite_cong
    all_goals scan_tac

theorem dollarUntaggedBody_suf1 (k d u) : SufO (dollarUntaggedBody k (d :: u)) u := by
  have h0 := fun k => dollarUntaggedBody_suf k u
  simp only [dollarUntaggedBody]
  repeat' split
  all_goals ((try simp only [sufO_push, sufO_some]); first | exact h0 _ | suff_tac)

theorem dollarUntaggedBody_cut {u u'} (h : Cut2 c x c' x' u u') (k : Option Nat) :
    CutRelO c x c' x' (dollarUntaggedBody k u) (dollarUntaggedBody k u') := by
  obtain ⟨s, rfl, rfl⟩ := h
  induction s generalizing k with
  | nil => have := dollarUntaggedBody_suf1 k c x; scan_tac
  | cons d s ih =>
    simp only [List.cons_append, dollarUntaggedBody]
    ite_cong
    all_goals scan_with (exact ih _)

theorem dollarTaggedBody_suf1 (tag m d u) : SufE (dollarTaggedBody tag m (d :: u)) u := by
  have h0 := fun m => dollarTaggedBody_suf tag m u
  cases u with
  | nil => cases m <;> simp [dollarTaggedBody, sufE_error]
  | cons e u =>
    have h1 := fun m => dollarTaggedBody_suf tag m u
    cases m with
    | none =>
      simp only [dollarTaggedBody]
      repeat' split
      all_goals ((try simp only [sufE_pushE, sufE_ok]); first | trivial | exact h0 _ | suff_tac)
    | some v =>
      obtain ⟨t, ts, m⟩ := v
      simp only [dollarTaggedBody]
      repeat' split
      all_goals ((try simp only [sufE_pushE, sufE_ok]); first | trivial | exact h0 _ | suff_tac)

theorem dollarTaggedBody_cut (h36 : c ≠ 36) (h36' : c' ≠ 36) (tag) {u u'} (h : Cut2 c x c' x' u u')
    (m : Option (Nat × List Nat × List Nat)) :
    CutRel c x c' x' (dollarTaggedBody tag m u) (dollarTaggedBody tag m u') := by
  obtain ⟨s, rfl, rfl⟩ := h
  induction s using two_step generalizing m with
  | h0 => have := dollarTaggedBody_suf1 tag m c x; scan_tac
  | h1 d =>
    have := fun m => dollarTaggedBody_suf1 tag m c x
    rcases m with _ | ⟨t, ts, mm⟩ <;> rcases tag with _ | ⟨t0, ts0⟩ <;> (try rcases ts with _ | ⟨t1, ts1⟩) <;>
      simp only [List.cons_append, List.nil_append, dollarTaggedBody, h36, h36', ↓reduceIte] <;>
      ite_cong <;> scan_tac
  | h2 d d2 s ih1 ih2 =>
    rcases m with _ | ⟨t, ts, mm⟩ <;> rcases tag with _ | ⟨t0, ts0⟩ <;> (try rcases ts with _ | ⟨t1, ts1⟩) <;>
      simp only [List.cons_append, dollarTaggedBody] <;>
      ite_cong <;> scan_with (first | exact ih1 _ | exact ih2 _)

theorem consumeOpening_cut (q : Nat) (hq : c ≠ q) {u u'} (h : Cut2 c x c' x' u u') (n : Nat) :
    ∀ r, consumeOpening q n u = some (r ++ c :: x) → consumeOpening q n u' = some (r ++ c' :: x') := by
  obtain ⟨s, rfl, rfl⟩ := h
  induction n generalizing s with
  | zero => intro r e; simp only [consumeOpening, Option.some.injEq] at e ⊢; rw [List.append_cancel_right e]
  | succ n ih =>
    intro r e
    rcases s with _ | ⟨d, s⟩
    · simp only [List.nil_append, consumeOpening, hq, ↓reduceIte] at e; cases e
    · simp only [List.cons_append, consumeOpening] at e ⊢
      split at e
      · rename_i hd; rw [if_pos hd]; exact ih s r e
      · cases e

theorem scanQuoted_cut {q : Nat} (hq : c ≠ q) (hq' : c' ≠ q) (triple : Bool) (n : Nat) (bs un : Bool) {u u'}
    (h : Cut2 c x c' x' u u') :
    CutRel c x c' x' (scanQuoted q triple n bs un u) (scanQuoted q triple n bs un u') := by
  obtain ⟨s, rfl, rfl⟩ := h
  intro t r e
  unfold scanQuoted at e ⊢
  split at e
  · cases e
  · rename_i body hb
    split at e
    · rename_i htr
      split at e
      · cases e
      · rename_i p r' hr
        simp only [Except.ok.injEq, Prod.mk.injEq] at e
        obtain ⟨rfl, rfl⟩ := e
        obtain ⟨a, ha⟩ := tripleBody_suf q bs un 0 body p _ hr
        have hbody : body = (a ++ r) ++ c :: x := by rw [← ha, List.append_assoc]
        subst hbody
        rw [consumeOpening_cut q hq (Cut2.app s) n _ hb]
        simp only [htr, ↓reduceIte]
        rw [tripleBody_cut bs un (Cut2.app (a ++ r)) 0 p r (by rw [hr])]
    · rename_i htr
      split at e
      · cases e
      · rename_i v hr
        obtain ⟨p, r'⟩ := v
        simp only [Except.ok.injEq, Prod.mk.injEq] at e
        obtain ⟨rfl, rfl⟩ := e
        obtain ⟨a, ha⟩ := quotedBody_suf q bs un body p _ hr
        have hbody : body = (a ++ r) ++ c :: x := by rw [← ha, List.append_assoc]
        subst hbody
        rw [consumeOpening_cut q hq (Cut2.app s) n _ hb]
        simp only [htr]
        rw [quotedBody_cut hq hq' bs un (Cut2.app (a ++ r)) p r (by rw [hr])]
        simp

theorem countOpening_frame {q : Nat} (hq : c ≠ q) (n : Nat) (s : List Nat) :
    countOpening q n (s ++ c :: x) = ((countOpening q n s).1, (countOpening q n s).2 ++ c :: x) := by
  induction n generalizing s with
  | zero => simp [countOpening]
  | succ n ih =>
    rcases s with _ | ⟨d, s⟩
    · simp [countOpening, hq]
    · simp only [List.cons_append, countOpening]
      split
      · rw [ih s]
      · rfl

theorem singleOrTriple_cut {q : Nat} (hq : c ≠ q) (hq' : c' ≠ q) (bs : Bool) (f g : List Nat → Token) {u u'}
    (h : Cut2 c x c' x' u u') :
    CutRel c x c' x' (singleOrTriple env q bs f g u) (singleOrTriple env q bs f g u') := by
  obtain ⟨s, rfl, rfl⟩ := h
  intro t r e
  unfold singleOrTriple scanSingleOrTriple at e ⊢
  rw [countOpening_frame hq] at e
  rw [countOpening_frame hq']
  generalize countOpening q 3 s = kr at e ⊢
  obtain ⟨k, r0⟩ := kr
  rcases k with _ | _ | _ | _ | k
  · simp at e
  · simp only [Nat.zero_add] at e ⊢
    cases hsq : scanQuoted q false 0 bs env.unescape (r0 ++ c :: x) with
    | error err => simp [hsq] at e
    | ok v =>
      obtain ⟨p, r'⟩ := v
      simp only [hsq, Except.ok.injEq, Prod.mk.injEq] at e
      obtain ⟨rfl, rfl⟩ := e
      have := scanQuoted_cut (x' := x') hq hq' false 0 bs env.unescape (Cut2.app r0) p r hsq
      simp [this]
  · simp only [Nat.zero_add, Nat.reduceAdd, Except.ok.injEq, Prod.mk.injEq] at e ⊢
    obtain ⟨rfl, e2⟩ := e
    exact ⟨rfl, by rw [List.append_cancel_right e2]⟩
  · simp only [Nat.zero_add, Nat.reduceAdd] at e ⊢
    cases hsq : scanQuoted q true 0 bs env.unescape (r0 ++ c :: x) with
    | error err => simp [hsq] at e
    | ok v =>
      obtain ⟨p, r'⟩ := v
      simp only [hsq, Except.ok.injEq, Prod.mk.injEq] at e
      obtain ⟨rfl, rfl⟩ := e
      have := scanQuoted_cut (x' := x') hq hq' true 0 bs env.unescape (Cut2.app r0) p r hsq
      simp [this]
  · simp at e

theorem cutRel_ofScan (f : List Nat → Token) {o o'} (h : CutRel c x c' x' o o') :
    CutRel c x c' x' (ofScan f o) (ofScan f o') := by
  intro t r e
  cases o with
  | error err => simp [ofScan] at e
  | ok v =>
    obtain ⟨p, r'⟩ := v
    simp only [ofScan, Except.ok.injEq, Prod.mk.injEq] at e
    obtain ⟨rfl, rfl⟩ := e
    rw [h p r rfl]; rfl

theorem scanSingleQuoted_cut {q : Nat} (hq : c ≠ q) (hq' : c' ≠ q) (bs un : Bool) {u u'}
    (h : Cut2 c x c' x' u u') :
    CutRel c x c' x' (scanSingleQuoted q bs un u) (scanSingleQuoted q bs un u') :=
  scanQuoted_cut hq hq' false 1 bs un h

theorem scanMultiLineComment_cut {u u'} (h : Cut2 c x c' x' u u') :
    CutRel c x c' x' (scanMultiLineComment u) (scanMultiLineComment u') := by
  intro t r e
  unfold scanMultiLineComment at e ⊢
  split at e
  · cases e
  · rename_i p r' hr
    simp only [Except.ok.injEq, Prod.mk.injEq] at e
    obtain ⟨rfl, rfl⟩ := e
    rw [multiLineBody_cut h 32 1 p r hr]

theorem lexMultiLineComment_cut {u u'} (h : Cut2 c x c' x' u u') :
    CutRel c x c' x' (lexMultiLineComment u) (lexMultiLineComment u') :=
  cutRel_ofScan _ (scanMultiLineComment_cut h)

theorem lexQuote_cut {q : Nat} (hq : c ≠ q) (hq' : c' ≠ q) (f g : List Nat → Token) {u u'}
    (h : Cut2 c x c' x' u u') :
    CutRel c x c' x' (lexQuote env q f g u) (lexQuote env q f g u') := by
  unfold lexQuote
  dsimp only
  apply cutRel_ite <;> intro _
  · exact singleOrTriple_cut hq hq' _ _ _ h
  · exact cutRel_ofScan _ (scanSingleQuoted_cut hq hq' _ _ h)

theorem matchingEndQuote_some {d qe : Nat} (h : SqlVerif.Keywords.matchingEndQuote d = some qe) :
    qe = 34 ∨ qe = 93 ∨ qe = 96 := by
  unfold SqlVerif.Keywords.matchingEndQuote at h
  repeat' split at h
  all_goals simp at h
  all_goals omega

theorem lexQuotedIdent_cut (hc : Sep env c) (hc' : Sep env c') (d : Nat) {u u'} (h : Cut2 c x c' x' u u') :
    CutRel c x c' x' (lexQuotedIdent env d u) (lexQuotedIdent env d u') := by
  intro t r e
  unfold lexQuotedIdent at e ⊢
  split at e
  · cases e
  · rename_i qe hqe
    have hq := matchingEndQuote_some hqe
    have h1 := hc.ascii
    have h2 := hc'.ascii
    split at e
    · rename_i p r' hr
      simp only [Except.ok.injEq, Prod.mk.injEq] at e
      obtain ⟨rfl, rfl⟩ := e
      rw [quotedIdentBody_cut (by omega) (by omega) _ h p r hr]
    · cases e

macro "sep_facts1" : tactic => `(tactic| (
  obtain ⟨h33, h34, h36, h38, h39, h42, h43, h45, h46, h47, h58, h60, h61, h62, h63, h64, h69, h76,
    h92, h93, h96, h101, h120, h124, h126⟩ := Sep.ne ‹Sep _ $(Lean.mkIdent `c)›
  have w := Sep.ws ‹Sep _ $(Lean.mkIdent `c)›))

theorem expSign_length_le (r : List Nat) : (expSign r).length ≤ r.length := by
  unfold expSign; split
  · split <;> simp
  · simp

/-- `lexNumber` after its leading digits, second `match` -/
def numRest2 (env : Env) (s1 r1 : List Nat) : Res :=
  match r1 with
  | 46 :: r => lexNumberTail env (s1 ++ [46]) r
  | _ => lexNumberTail env s1 r1

/-- `0x…` literals -/
def numHex (env : Env) (s1 r1 : List Nat) : Res :=
  match r1 with
  | 120 :: r2 => .ok (.hexStringLiteral (r2.takeWhile isAsciiHexdigit), r2.dropWhile isAsciiHexdigit)
  | _ => numRest2 env s1 r1

/-- `lexNumber` after its leading digits -/
def numRest (env : Env) (s1 r1 : List Nat) : Res :=
  if s1 = [48] then numHex env s1 r1 else numRest2 env s1 r1

section num
variable (hc : Sep env c)
include hc

theorem expSign_cut (r : List Nat) : expSign (r ++ c :: x) = expSign r := by
  sep_facts1
  rcases r with _ | ⟨sg, r⟩ <;> simp [expSign, *]

theorem scanExponent_frame (s3 r3 : List Nat) :
    scanExponent s3 (r3 ++ c :: x) =
      ((scanExponent s3 r3).1, (scanExponent s3 r3).2.1, (scanExponent s3 r3).2.2 ++ c :: x) := by
  sep_facts1
  have hd := isAsciiDigit_sep hc
  rcases r3 with _ | ⟨e, r⟩
  · simp [scanExponent, *]
  · simp only [List.cons_append, scanExponent]
    split
    · rw [expSign_cut hc, List.drop_append_of_le_length (expSign_length_le r)]
      generalize r.drop (expSign r).length = r'
      rcases r' with _ | ⟨d, r'⟩
      · simp [hd]
      · simp only [List.cons_append]
        split
        · have e1 : d :: (r' ++ c :: x) = (d :: r') ++ c :: x := rfl
          rw [e1, takeWhile_cut _ _ _ hd, dropWhile_cut _ _ _ hd]
        · rfl
    · rfl

theorem lexNumberTail_frame (s2 r2 : List Nat) :
    lexNumberTail env s2 (r2 ++ c :: x) = frame (lexNumberTail env s2 r2) (c :: x) := by
  sep_facts1
  have hd := isAsciiDigit_sep hc
  unfold lexNumberTail
  simp only [takeWhile_cut _ _ _ hd, dropWhile_cut _ _ _ hd, scanExponent_frame hc,
    takeWhile_cut _ _ _ hc.identPart, dropWhile_cut _ _ _ hc.identPart]
  split
  · rfl
  · split
    · rfl
    · generalize (scanExponent (s2 ++ List.takeWhile isAsciiDigit r2) (List.dropWhile isAsciiDigit r2)).2.2 = r4
      rcases r4 with _ | ⟨d, r4⟩
      · simp [frame, *]
      · simp only [List.cons_append]
        split <;> split <;> simp_all [frame]

omit hc in
theorem lexNumber_eq (s : List Nat) :
    lexNumber env s = numRest env (s.takeWhile isAsciiDigit) (s.dropWhile isAsciiDigit) := by
  unfold lexNumber numRest numHex numRest2
  dsimp only
  generalize List.takeWhile isAsciiDigit s = s1
  generalize List.dropWhile isAsciiDigit s = r1
  by_cases h48 : s1 = [48]
  · simp only [h48, ↓reduceIte]; rfl
  · simp only [h48, ↓reduceIte]; rfl

theorem numRest2_frame (s1 r1 : List Nat) :
    numRest2 env s1 (r1 ++ c :: x) = frame (numRest2 env s1 r1) (c :: x) := by
  sep_facts1
  fun_cases numRest2 env s1 r1
  all_goals simp (disch := cut_disch) [numRest2, lexNumberTail_frame hc, *]

theorem numRest_frame (s1 r1 : List Nat) :
    numRest env s1 (r1 ++ c :: x) = frame (numRest env s1 r1) (c :: x) := by
  sep_facts1
  have hh := isAsciiHexdigit_sep hc
  unfold numRest
  split
  · fun_cases numHex env s1 r1
    all_goals simp (disch := cut_disch) [numHex, numRest2_frame hc, takeWhile_cut _ _ _ hh,
      dropWhile_cut _ _ _ hh, *]
  · exact numRest2_frame hc _ _

theorem lexNumber_frame (s : List Nat) :
    lexNumber env (s ++ c :: x) = frame (lexNumber env s) (c :: x) := by
  have hd := isAsciiDigit_sep hc
  rw [lexNumber_eq, lexNumber_eq, takeWhile_cut _ _ _ hd, dropWhile_cut _ _ _ hd, numRest_frame hc]

end num

/-! `$` -/

def isTag (env : Env) (c : Nat) : Bool := env.isAlphanumeric c || c == 95

def dollarUntagged (r : List Nat) : Res :=
  match dollarUntaggedBody none r with
  | none => .error (.err ⟨str "Unterminated dollar-quoted string", []⟩)
  | some (p, r') => .ok (.dollarQuotedString p none, r')

def dollarTagged (value r : List Nat) : Res :=
  match dollarTaggedBody value none r with
  | .error e => .error (.err e)
  | .ok (p, r') => .ok (.dollarQuotedString p (if value.isEmpty then none else some value), r')

def dollarTag (value rest : List Nat) : Res :=
  match rest with
  | 36 :: r => dollarTagged value r
  | r1 => .ok (.placeholder (36 :: value), r1)

theorem lexDollar_eq36 (r : List Nat) : lexDollar env (36 :: r) = dollarUntagged r := rfl

theorem lexDollar_eq_other (cs : List Nat) (h : ∀ r, cs = 36 :: r → False) :
    lexDollar env cs = dollarTag (cs.takeWhile (isTag env)) (cs.dropWhile (isTag env)) := by
  unfold lexDollar
  split
  · rename_i r; exact (h r rfl).elim
  · rfl

theorem dollarUntagged_cut {u u'} (h : Cut2 c x c' x' u u') :
    CutRel c x c' x' (dollarUntagged u) (dollarUntagged u') := by
  intro t r e
  unfold dollarUntagged at e ⊢
  split at e
  · cases e
  · rename_i p r' hr
    simp only [Except.ok.injEq, Prod.mk.injEq] at e
    obtain ⟨rfl, rfl⟩ := e
    rw [dollarUntaggedBody_cut h none p r hr]

theorem dollarTagged_cut (h36 : c ≠ 36) (h36' : c' ≠ 36) (value) {u u'} (h : Cut2 c x c' x' u u') :
    CutRel c x c' x' (dollarTagged value u) (dollarTagged value u') := by
  intro t r e
  unfold dollarTagged at e ⊢
  split at e
  · cases e
  · rename_i p r' hr
    simp only [Except.ok.injEq, Prod.mk.injEq] at e
    obtain ⟨rfl, rfl⟩ := e
    rw [dollarTaggedBody_cut h36 h36' value h none p r hr]

/-! ## `E'…'` -/

theorem take_takeWhile_cut (p : Nat → Bool) (hp : p c = false) (hp' : p c' = false) :
    ∀ (n : Nat) (s : List Nat), ((s ++ c :: x).take n).takeWhile p = ((s ++ c' :: x').take n).takeWhile p
  | 0, s => by simp
  | n + 1, [] => by simp [hp, hp']
  | n + 1, d :: s => by
    simp only [List.cons_append, List.take_succ_cons, List.takeWhile_cons]
    rw [take_takeWhile_cut p hp hp' n s]

theorem unescapeUnicode_append (n : Nat) (s y : List Nat) (h : n ≤ s.length) :
    unescapeUnicode n (s ++ y) = unescapeUnicode n s := by
  unfold unescapeUnicode
  have h1 : ¬ (s ++ y).length < n := by simp; omega
  have h2 : ¬ s.length < n := by omega
  simp only [h1, h2, ↓reduceIte, List.take_append_of_le_length h]

/-- the table of `escSeq` before the NUL check -/
def escRaw (c : Nat) (cs : List Nat) : Option (Nat × Nat) :=
  if c = 98 then some (8, 1)
  else if c = 102 then some (12, 1)
  else if c = 110 then some (10, 1)
  else if c = 114 then some (13, 1)
  else if c = 116 then some (9, 1)
  else if c = 117 then (unescapeUnicode 4 cs).map fun ch => (ch, 5)
  else if c = 85 then (unescapeUnicode 8 cs).map fun ch => (ch, 9)
  else if c = 120 then
    let ds := (cs.take 2).takeWhile isAsciiHexdigit
    if ds.isEmpty then some (120, 1) else (byteToChar 16 ds).map fun ch => (ch, 1 + ds.length)
  else if isOctDigit c then
    let ds := c :: (cs.take 2).takeWhile isOctDigit
    (byteToChar 8 ds).map fun ch => (ch, ds.length)
  else some (c, 1)

theorem escSeq_cons (c : Nat) (cs : List Nat) :
    escSeq (c :: cs) = match escRaw c cs with
      | none => none
      | some (ch, k) => if ch = 0 then none else some (ch, k) := rfl

theorem escRaw_eq (hc : Sep env c) (hc' : Sep env c') (e : Nat) (s : List Nat)
    (h1 : e = 117 → 4 ≤ s.length) (h2 : e = 85 → 8 ≤ s.length) :
    escRaw e (s ++ c :: x) = escRaw e (s ++ c' :: x') := by
  have hh := isAsciiHexdigit_sep hc
  have hh' := isAsciiHexdigit_sep hc'
  have ho : isOctDigit c = false := by
    have := hc.ascii; simp only [isOctDigit, decide_eq_false_iff_not]; omega
  have ho' : isOctDigit c' = false := by
    have := hc'.ascii; simp only [isOctDigit, decide_eq_false_iff_not]; omega
  unfold escRaw
  rw [take_takeWhile_cut (x := x) (x' := x') _ hh hh' 2 s, take_takeWhile_cut (x := x) (x' := x') _ ho ho' 2 s]
  by_cases h117 : e = 117
  · simp [h117, unescapeUnicode_append _ _ _ (h1 h117)]
  by_cases h85 : e = 85
  · simp [h85, unescapeUnicode_append _ _ _ (h2 h85)]
  simp [h117, h85]

theorem escRaw_k117 (cs : List Nat) (ch k : Nat) (h : escRaw 117 cs = some (ch, k)) : k = 5 := by
  simp only [escRaw, Nat.reduceEqDiff, ↓reduceIte] at h
  cases hu : unescapeUnicode 4 cs with
  | none => simp [hu] at h
  | some v => simp [hu] at h; omega

theorem escRaw_k85 (cs : List Nat) (ch k : Nat) (h : escRaw 85 cs = some (ch, k)) : k = 9 := by
  simp only [escRaw, Nat.reduceEqDiff, ↓reduceIte] at h
  cases hu : unescapeUnicode 8 cs with
  | none => simp [hu] at h
  | some v => simp [hu] at h; omega

theorem escRaw_cut (hc : Sep env c) (hc' : Sep env c') (e : Nat) (s : List Nat) (ch k : Nat)
    (h : escRaw e (s ++ c :: x) = some (ch, k)) (hk : k ≤ s.length + 1) :
    escRaw e (s ++ c' :: x') = some (ch, k) := by
  rw [← escRaw_eq (x := x) hc hc' e s ?_ ?_, h]
  · intro he; subst he; have := escRaw_k117 _ _ _ h; omega
  · intro he; subst he; have := escRaw_k85 _ _ _ h; omega

theorem escSeq_cut (hc : Sep env c) (hc' : Sep env c') (s : List Nat) (ch k : Nat)
    (h : escSeq (s ++ c :: x) = some (ch, k)) (hk : k ≤ s.length) :
    escSeq (s ++ c' :: x') = some (ch, k) := by
  rcases s with _ | ⟨e, s⟩
  · -- the separator itself is escaped: one character is used
    exfalso
    have ha := hc.ascii
    have ho : isOctDigit c = false := by
      simp only [isOctDigit, decide_eq_false_iff_not]; omega
    simp only [List.nil_append, escSeq_cons, escRaw] at h
    have e1 : c ≠ 98 := by omega
    have e2 : c ≠ 102 := by omega
    have e3 : c ≠ 110 := by omega
    have e4 : c ≠ 114 := by omega
    have e5 : c ≠ 116 := by omega
    have e6 : c ≠ 117 := by omega
    have e7 : c ≠ 85 := by omega
    have e8 : c ≠ 120 := by omega
    simp only [e1, e2, e3, e4, e5, e6, e7, e8, ho, ↓reduceIte, Bool.false_eq_true] at h
    split at h
    · cases h
    · cases h; simp at hk
  · simp only [List.cons_append, escSeq_cons] at h ⊢
    cases hr : escRaw e (s ++ c :: x) with
    | none => simp [hr] at h
    | some v =>
      obtain ⟨ch0, k0⟩ := v
      simp only [hr] at h
      split at h
      · cases h
      · cases h
        rw [escRaw_cut hc hc' e s ch k hr (by simpa using hk)]
        simp [*]

theorem escapedBody_suf1 (k d u) : SufO (escapedBody k (d :: u)) u := by
  have h := fun k => escapedBody_suf k u
  cases k with
  | succ k => simp only [escapedBody]; exact h k
  | zero =>
    simp only [escapedBody]
    repeat' split
    all_goals ((try simp only [sufO_push, sufO_some, sufO_none]); first | trivial | exact h _ | suff_tac)

theorem escapedBody_skip : ∀ (s : List Nat) (k : Nat), s.length < k →
    SufO (escapedBody k (s ++ c :: x)) x
  | [], k + 1, _ => by simp only [List.nil_append, escapedBody]; exact escapedBody_suf k x
  | d :: s, k + 1, h => by
    simp only [List.cons_append, escapedBody]
    exact escapedBody_skip s k (by simpa using h)

def escQuote (cs : List Nat) : Option (List Nat × List Nat) :=
  match cs with
  | 39 :: _ => push [39] (escapedBody 1 cs)
  | _ => some ([], cs)

def escBs (cs : List Nat) : Option (List Nat × List Nat) :=
  match escSeq cs with
  | none => none
  | some (ch, k) => push [ch] (escapedBody k cs)

theorem escapedBody_zero_cons (d : Nat) (cs : List Nat) :
    escapedBody 0 (d :: cs) =
      if d = 39 then escQuote cs else if d ≠ 92 then push [d] (escapedBody 0 cs) else escBs cs := rfl

theorem escapedBody_cut (hc : Sep env c) (hc' : Sep env c') {u u'} (h : Cut2 c x c' x' u u') (k : Nat) :
    CutRelO c x c' x' (escapedBody k u) (escapedBody k u') := by
  obtain ⟨s, rfl, rfl⟩ := h
  induction s generalizing k with
  | nil => have := escapedBody_suf1 k c x; scan_tac
  | cons d s ih =>
    rcases k with _ | k
    · simp only [List.cons_append, escapedBody_zero_cons]
      ite_cong
      · -- closing quote or doubled quote
        have h39 : c ≠ 39 := by have := hc.ascii; omega
        have g39 : c' ≠ 39 := by have := hc'.ascii; omega
        fun_cases escQuote s
        all_goals simp (disch := cut_disch) [escQuote, *]
        all_goals scan_with (exact ih _)
      · scan_with (exact ih _)
      · intro t r e
        unfold escBs at e ⊢
        split at e
        · cases e
        · rename_i ch k hs
          by_cases hk : k ≤ s.length
          · rw [escSeq_cut hc hc' s ch k hs hk]
            exact cutRelO_push _ (ih k) t r e
          · obtain ⟨p', e', _⟩ := push_eq_some e
            exact (not_suffix_cut (escapedBody_skip s k (by omega) _ _ e')).elim
    · simp only [List.cons_append, escapedBody]
      exact ih k

/-! ## `U&'…'` -/

theorem takeHexDigits_append (y y' : List Nat) : ∀ (n acc : Nat) (s : List Nat) (v : Nat) (r : List Nat),
    n ≤ s.length → takeHexDigits n acc (s ++ y) = .ok (v, r) →
    ∃ r', takeHexDigits n acc (s ++ y') = .ok (v, r')
  | 0, acc, s, v, r, _, h => by
    simp only [takeHexDigits, Except.ok.injEq, Prod.mk.injEq] at h ⊢
    exact ⟨_, h.1, rfl⟩
  | n + 1, acc, [], v, r, hl, h => by simp at hl
  | n + 1, acc, d :: s, v, r, hl, h => by
    simp only [List.cons_append, takeHexDigits] at h ⊢
    split at h
    · cases h
    · rename_i dv hd
      exact takeHexDigits_append y y' n _ s v r (by simpa using hl) h

theorem takeCharFromHexDigits_append (y y' : List Nat) (n : Nat) (s : List Nat) (ch : Nat) (r : List Nat)
    (hl : n ≤ s.length) (h : takeCharFromHexDigits n (s ++ y) = .ok (ch, r)) :
    ∃ r', takeCharFromHexDigits n (s ++ y') = .ok (ch, r') := by
  unfold takeCharFromHexDigits at h ⊢
  split at h
  · cases h
  · rename_i v rest hv
    obtain ⟨r', hr'⟩ := takeHexDigits_append y y' n 0 s v rest hl hv
    rw [hr']
    split at h
    · rename_i ch0 hch
      simp only [Except.ok.injEq, Prod.mk.injEq] at h
      simp only [hch]
      exact ⟨r', by rw [h.1]⟩
    · cases h

def uniQuote (cs : List Nat) : Except ScanErr (List Nat × List Nat) :=
  match cs with
  | 39 :: _ => pushE [39] (unicodeBody 1 cs)
  | _ => .ok ([], cs)

def uni6 (cs2 cs : List Nat) : Except ScanErr (List Nat × List Nat) :=
  match takeCharFromHexDigits 6 cs2 with
  | .error e => .error e
  | .ok (ch, _) => pushE [ch] (unicodeBody 7 cs)

def uni4 (cs : List Nat) : Except ScanErr (List Nat × List Nat) :=
  match takeCharFromHexDigits 4 cs with
  | .error e => .error e
  | .ok (ch, _) => pushE [ch] (unicodeBody 4 cs)

def uniBs (cs : List Nat) : Except ScanErr (List Nat × List Nat) :=
  match cs with
  | 92 :: _ => pushE [92] (unicodeBody 1 cs)
  | 43 :: cs2 => uni6 cs2 cs
  | _ => uni4 cs

theorem unicodeBody_zero_cons (d : Nat) (cs : List Nat) :
    unicodeBody 0 (d :: cs) =
      if d = 39 then uniQuote cs else if d = 92 then uniBs cs else pushE [d] (unicodeBody 0 cs) := rfl

theorem unicodeBody_suf1 (k d u) : SufE (unicodeBody k (d :: u)) u := by
  have h := fun k => unicodeBody_suf k u
  cases k with
  | succ k => simp only [unicodeBody]; exact h k
  | zero =>
    simp only [unicodeBody]
    repeat' split
    all_goals ((try simp only [sufE_pushE, sufE_ok, sufE_error]); first | trivial | exact h _ | suff_tac)

theorem unicodeBody_skip : ∀ (s : List Nat) (k : Nat), s.length < k →
    SufE (unicodeBody k (s ++ c :: x)) x
  | [], k + 1, _ => by simp only [List.nil_append, unicodeBody]; exact unicodeBody_suf k x
  | d :: s, k + 1, h => by
    simp only [List.cons_append, unicodeBody]
    exact unicodeBody_skip s k (by simpa using h)

theorem uni6_cut (s2 : List Nat)
    (ih : ∀ k, CutRel c x c' x' (unicodeBody k (43 :: (s2 ++ c :: x))) (unicodeBody k (43 :: (s2 ++ c' :: x')))) :
    CutRel c x c' x' (uni6 (s2 ++ c :: x) (43 :: (s2 ++ c :: x))) (uni6 (s2 ++ c' :: x') (43 :: (s2 ++ c' :: x'))) := by
  intro t r e
  unfold uni6 at e ⊢
  split at e
  · cases e
  · rename_i ch rest hch
    by_cases hl : 6 ≤ s2.length
    · obtain ⟨r', hr'⟩ := takeCharFromHexDigits_append _ (c' :: x') 6 s2 ch rest hl hch
      rw [hr']
      exact cutRel_pushE _ (ih 7) t r e
    · obtain ⟨p', e', _⟩ := pushE_eq_ok e
      exact (not_suffix_cut (unicodeBody_skip (43 :: s2) 7 (by simp; omega) _ _ e')).elim

theorem uni4_cut (s : List Nat)
    (ih : ∀ k, CutRel c x c' x' (unicodeBody k (s ++ c :: x)) (unicodeBody k (s ++ c' :: x'))) :
    CutRel c x c' x' (uni4 (s ++ c :: x)) (uni4 (s ++ c' :: x')) := by
  intro t r e
  unfold uni4 at e ⊢
  split at e
  · cases e
  · rename_i ch rest hch
    by_cases hl : 4 ≤ s.length
    · obtain ⟨r', hr'⟩ := takeCharFromHexDigits_append _ (c' :: x') 4 s ch rest hl hch
      rw [hr']
      exact cutRel_pushE _ (ih 4) t r e
    · obtain ⟨p', e', _⟩ := pushE_eq_ok e
      exact (not_suffix_cut (unicodeBody_skip s 4 (by omega) _ _ e')).elim

theorem unicodeBody_cut (hc : Sep env c) (hc' : Sep env c') {u u'} (h : Cut2 c x c' x' u u') (k : Nat) :
    CutRel c x c' x' (unicodeBody k u) (unicodeBody k u') := by
  obtain ⟨s, rfl, rfl⟩ := h
  have h39 : c ≠ 39 := by have := hc.ascii; omega
  have g39 : c' ≠ 39 := by have := hc'.ascii; omega
  have h92 : c ≠ 92 := by have := hc.ascii; omega
  have g92 : c' ≠ 92 := by have := hc'.ascii; omega
  have h43 : c ≠ 43 := by have := hc.ascii; omega
  have g43 : c' ≠ 43 := by have := hc'.ascii; omega
  induction s generalizing k with
  | nil => have := unicodeBody_suf1 k c x; scan_tac
  | cons d s ih =>
    rcases k with _ | k
    · simp only [List.cons_append, unicodeBody_zero_cons]
      ite_cong
      · fun_cases uniQuote s
        all_goals simp (disch := cut_disch) [uniQuote, *]
        all_goals scan_with (exact ih _)
      · fun_cases uniBs s
        all_goals simp (disch := cut_disch) [uniBs, *]
        · scan_with (exact ih _)
        · exact uni6_cut _ ih
        · exact uni4_cut _ ih
      · scan_with (exact ih _)
    · simp only [List.cons_append, unicodeBody]
      exact ih k

section ops
variable (hc : Sep env c) (hc' : Sep env c')
include hc hc'


macro "sep_facts" : tactic => `(tactic| (
  obtain ⟨h33, h34, h36, h38, h39, h42, h43, h45, h46, h47, h58, h60, h61, h62, h63, h64, h69, h76,
    h92, h93, h96, h101, h120, h124, h126⟩ := Sep.ne ‹Sep _ $(Lean.mkIdent `c)›
  obtain ⟨g33, g34, g36, g38, g39, g42, g43, g45, g46, g47, g58, g60, g61, g62, g63, g64, g69, g76,
    g92, g93, g96, g101, g120, g124, g126⟩ := Sep.ne ‹Sep _ $(Lean.mkIdent `c')›
  have w := Sep.ws ‹Sep _ $(Lean.mkIdent `c)›
  have w' := Sep.ws ‹Sep _ $(Lean.mkIdent `c')›))

macro "leaf_tac" : tactic => `(tactic| first
  | exact cutRel_ok _ (by cut2_tac)
  | exact cutRel_error _ _
  | exact identOrKeyword_cut ‹_› ‹_› _ (by cut2_tac)
  | exact binop_cut ‹_› ‹_› _ _ (by cut2_tac)
  | exact wordFrom_cut ‹_› ‹_› _ (by cut2_tac)
  | exact lineComment_cut _ (by cut2_tac)
  | exact lexMultiLineComment_cut (by cut2_tac)
  | exact singleOrTriple_cut (by assumption) (by assumption) _ _ _ (by cut2_tac)
  | exact cutRel_ofScan _ (scanSingleQuoted_cut (by assumption) (by assumption) _ _ (by cut2_tac)))

theorem lexAt_cut {u u'} (h : Cut2 c x c' x' u u') : CutRel c x c' x' (lexAt env u) (lexAt env u') := by
  obtain ⟨s, rfl, rfl⟩ := h
  sep_facts
  fun_cases lexAt env s
  all_goals simp (disch := cut_disch) [lexAt, *]
  all_goals leaf_tac

theorem lexMinus_cut {u u'} (h : Cut2 c x c' x' u u') : CutRel c x c' x' (lexMinus env u) (lexMinus env u') := by
  obtain ⟨s, rfl, rfl⟩ := h
  sep_facts
  fun_cases lexMinus env s
  all_goals simp (disch := cut_disch) [lexMinus, *]
  all_goals leaf_tac

theorem lexSharp_cut {u u'} (h : Cut2 c x c' x' u u') : CutRel c x c' x' (lexSharp env u) (lexSharp env u') := by
  obtain ⟨s, rfl, rfl⟩ := h
  sep_facts
  fun_cases lexSharp env s
  all_goals simp (disch := cut_disch) [lexSharp, *]
  all_goals leaf_tac

theorem lexPercent_cut {u u'} (h : Cut2 c x c' x' u u') : CutRel c x c' x' (lexPercent env u) (lexPercent env u') := by
  obtain ⟨s, rfl, rfl⟩ := h
  sep_facts
  fun_cases lexPercent env s
  all_goals simp (disch := cut_disch) [lexPercent, *]
  all_goals leaf_tac

theorem lexPipe_cut {u u'} (h : Cut2 c x c' x' u u') : CutRel c x c' x' (lexPipe env u) (lexPipe env u') := by
  obtain ⟨s, rfl, rfl⟩ := h
  sep_facts
  fun_cases lexPipe env s
  all_goals simp (disch := cut_disch) [lexPipe, *]
  all_goals leaf_tac

theorem lexLt_cut {u u'} (h : Cut2 c x c' x' u u') : CutRel c x c' x' (lexLt env u) (lexLt env u') := by
  obtain ⟨s, rfl, rfl⟩ := h
  sep_facts
  fun_cases lexLt env s
  all_goals simp (disch := cut_disch) [lexLt, *]
  all_goals leaf_tac

theorem lexGt_cut {u u'} (h : Cut2 c x c' x' u u') : CutRel c x c' x' (lexGt env u) (lexGt env u') := by
  obtain ⟨s, rfl, rfl⟩ := h
  sep_facts
  fun_cases lexGt env s
  all_goals simp (disch := cut_disch) [lexGt, *]
  all_goals leaf_tac

theorem lexAmp_cut {u u'} (h : Cut2 c x c' x' u u') : CutRel c x c' x' (lexAmp env u) (lexAmp env u') := by
  obtain ⟨s, rfl, rfl⟩ := h
  sep_facts
  fun_cases lexAmp env s
  all_goals simp (disch := cut_disch) [lexAmp, *]
  all_goals leaf_tac

theorem lexTilde_cut {u u'} (h : Cut2 c x c' x' u u') : CutRel c x c' x' (lexTilde env u) (lexTilde env u') := by
  obtain ⟨s, rfl, rfl⟩ := h
  sep_facts
  fun_cases lexTilde env s
  all_goals simp (disch := cut_disch) [lexTilde, *]
  all_goals leaf_tac

theorem lexEq_cut {u u'} (h : Cut2 c x c' x' u u') : CutRel c x c' x' (lexEq u) (lexEq u') := by
  obtain ⟨s, rfl, rfl⟩ := h
  sep_facts
  fun_cases lexEq s
  all_goals simp (disch := cut_disch) [lexEq, *]
  all_goals leaf_tac

theorem lexBang_cut {u u'} (h : Cut2 c x c' x' u u') : CutRel c x c' x' (lexBang u) (lexBang u') := by
  obtain ⟨s, rfl, rfl⟩ := h
  sep_facts
  fun_cases lexBang s
  all_goals simp (disch := cut_disch) [lexBang, *]
  all_goals leaf_tac

theorem lexColon_cut {u u'} (h : Cut2 c x c' x' u u') : CutRel c x c' x' (lexColon u) (lexColon u') := by
  obtain ⟨s, rfl, rfl⟩ := h
  sep_facts
  fun_cases lexColon s
  all_goals simp (disch := cut_disch) [lexColon, *]
  all_goals leaf_tac

theorem lexCaret_cut {u u'} (h : Cut2 c x c' x' u u') : CutRel c x c' x' (lexCaret u) (lexCaret u') := by
  obtain ⟨s, rfl, rfl⟩ := h
  sep_facts
  fun_cases lexCaret s
  all_goals simp (disch := cut_disch) [lexCaret, *]
  all_goals leaf_tac

theorem lexQuestionPg_cut {u u'} (h : Cut2 c x c' x' u u') : CutRel c x c' x' (lexQuestionPg u) (lexQuestionPg u') := by
  obtain ⟨s, rfl, rfl⟩ := h
  sep_facts
  fun_cases lexQuestionPg s
  all_goals simp (disch := cut_disch) [lexQuestionPg, *]
  all_goals leaf_tac


theorem lexSlash_cut {u u'} (h : Cut2 c x c' x' u u') : CutRel c x c' x' (lexSlash env u) (lexSlash env u') := by
  obtain ⟨s, rfl, rfl⟩ := h
  sep_facts
  fun_cases lexSlash env s
  all_goals simp (disch := cut_disch) [lexSlash, *]
  all_goals leaf_tac

theorem lexByte_cut (b : Nat) {u u'} (h : Cut2 c x c' x' u u') : CutRel c x c' x' (lexByte env b u) (lexByte env b u') := by
  obtain ⟨s, rfl, rfl⟩ := h
  sep_facts
  fun_cases lexByte env b s
  all_goals simp (disch := cut_disch) [lexByte, *]
  all_goals leaf_tac

theorem lexRaw_cut (b : Nat) {u u'} (h : Cut2 c x c' x' u u') : CutRel c x c' x' (lexRaw env b u) (lexRaw env b u') := by
  obtain ⟨s, rfl, rfl⟩ := h
  sep_facts
  fun_cases lexRaw env b s
  all_goals simp (disch := cut_disch) [lexRaw, *]
  all_goals leaf_tac

theorem lexPrefixed_cut (mk) (b : Nat) {u u'} (h : Cut2 c x c' x' u u') :
    CutRel c x c' x' (lexPrefixed env mk b u) (lexPrefixed env mk b u') := by
  obtain ⟨s, rfl, rfl⟩ := h
  sep_facts
  fun_cases lexPrefixed env mk b s
  all_goals simp (disch := cut_disch) [lexPrefixed, *]
  all_goals leaf_tac

theorem lexNumber_cut {u u'} (h : Cut2 c x c' x' u u') : CutRel c x c' x' (lexNumber env u) (lexNumber env u') := by
  obtain ⟨s, rfl, rfl⟩ := h
  rw [lexNumber_frame hc, lexNumber_frame hc']; exact cutRel_frame _

theorem dollarTag_cut (value) {u u'} (h : Cut2 c x c' x' u u') :
    CutRel c x c' x' (dollarTag value u) (dollarTag value u') := by
  obtain ⟨s, rfl, rfl⟩ := h
  sep_facts
  fun_cases dollarTag value s
  all_goals simp (disch := cut_disch) [dollarTag, *]
  all_goals first
    | leaf_tac
    | exact dollarTagged_cut (by assumption) (by assumption) _ (by cut2_tac)

omit hc' in
theorem isTag_sep : isTag env c = false := by
  have := hc.ascii
  simp only [isTag, hc.alnum, Bool.false_or, beq_eq_false_iff_ne]; omega

theorem lexDollar_cut {u u'} (h : Cut2 c x c' x' u u') : CutRel c x c' x' (lexDollar env u) (lexDollar env u') := by
  obtain ⟨s, rfl, rfl⟩ := h
  sep_facts
  by_cases hs : ∃ r, s = 36 :: r
  · obtain ⟨r, rfl⟩ := hs
    simp only [List.cons_append, lexDollar_eq36]
    exact dollarUntagged_cut (Cut2.app r)
  · have hs' : ∀ r, s = 36 :: r → False := fun r h => hs ⟨r, h⟩
    rw [lexDollar_eq_other _ (append_cut_ne 36 hs' (by assumption)),
      lexDollar_eq_other _ (append_cut_ne 36 hs' (by assumption)),
      takeWhile_cut _ _ _ (isTag_sep hc), dropWhile_cut _ _ _ (isTag_sep hc),
      takeWhile_cut _ _ _ (isTag_sep hc'), dropWhile_cut _ _ _ (isTag_sep hc')]
    exact dollarTag_cut hc hc' _ (Cut2.app _)

theorem lexEscaped_cut (d : Nat) {u u'} (h : Cut2 c x c' x' u u') :
    CutRel c x c' x' (lexEscaped env d u) (lexEscaped env d u') := by
  obtain ⟨s, rfl, rfl⟩ := h
  sep_facts
  rcases s with _ | ⟨q, s⟩
  · simp (disch := cut_disch) [lexEscaped]
    leaf_tac
  · by_cases hq : q = 39
    · subst hq
      simp only [List.cons_append, lexEscaped, scanEscaped]
      intro t r e
      split at e
      · rename_i p r' hr
        simp only [Except.ok.injEq, Prod.mk.injEq] at e
        obtain ⟨rfl, rfl⟩ := e
        rw [escapedBody_cut hc hc' (Cut2.app s) 0 p r hr]
      · cases e
    · simp (disch := cut_disch) [lexEscaped]
      leaf_tac

omit hc hc' in
theorem append_cut_ne2 (k1 k2 : Nat) {s : List Nat} (hs : ∀ r, s = k1 :: k2 :: r → False)
    (h1 : c ≠ k1) (h2 : c ≠ k2) : ∀ r, s ++ c :: x = k1 :: k2 :: r → False := by
  intro r h
  rcases s with _ | ⟨d1, _ | ⟨d2, s⟩⟩
  · simp at h; exact h1 h.1
  · simp at h; exact h2 h.2.1
  · simp at h; exact hs s (by rw [h.1, h.2.1])

theorem lexUnicode_cut (d : Nat) {u u'} (h : Cut2 c x c' x' u u') :
    CutRel c x c' x' (lexUnicode env d u) (lexUnicode env d u') := by
  obtain ⟨s, rfl, rfl⟩ := h
  sep_facts
  by_cases hs : ∃ r, s = 38 :: 39 :: r
  · obtain ⟨r, rfl⟩ := hs
    simp only [List.cons_append, lexUnicode, scanUnicode]
    exact cutRel_ofScan _ (unicodeBody_cut hc hc' (Cut2.app r) 0)
  · have hs' : ∀ r, s = 38 :: 39 :: r → False := fun r h => hs ⟨r, h⟩
    rw [lexUnicode.eq_2 _ _ _ (append_cut_ne2 38 39 hs' (by assumption) (by assumption)),
      lexUnicode.eq_2 _ _ _ (append_cut_ne2 38 39 hs' (by assumption) (by assumption))]
    leaf_tac

theorem lexOp_cut (d : Nat) {u u'} (h : Cut2 c x c' x' u u') :
    CutRel c x c' x' (lexOp env d u) (lexOp env d u') := by
  obtain ⟨s, rfl, rfl⟩ := h
  have h : Cut2 c x c' x' (s ++ c :: x) (s ++ c' :: x') := Cut2.app s
  unfold lexOp
  repeat' (apply cutRel_ite <;> intro _)
  all_goals first
    | leaf_tac
    | exact lexSlash_cut hc hc' h | exact lexPercent_cut hc hc' h | exact lexPipe_cut hc hc' h
    | exact lexEq_cut hc hc' h | exact lexBang_cut hc hc' h | exact lexLt_cut hc hc' h
    | exact lexGt_cut hc hc' h | exact lexColon_cut hc hc' h | exact lexAmp_cut hc hc' h
    | exact lexCaret_cut hc hc' h | exact lexTilde_cut hc hc' h | exact lexSharp_cut hc hc' h
    | exact lexAt_cut hc hc' h | exact lexQuestionPg_cut hc hc' h | exact lexQuestion_cut hc hc' h
    | exact lexDollar_cut hc hc' h

omit hc hc' in
theorem properIdent_true (hrs : env.isRedshift = false) (s : List Nat) :
    env.properIdentInsideQuotes s = true := by
  simp [Env.properIdentInsideQuotes, hrs]

omit hc hc' in
/-- the `\r` arm (699-705): the only place where a whitespace character is looked for *after* a
token; `\r` directly followed by the cut is stable unless the new text starts with `\n` -/
theorem crArm_cut (s : List Nat) (hcr : s = [] → c' = 10 → c = 10) :
    CutRel (ε := LexErr) c x c' x'
      (match s ++ c :: x with
        | 10 :: r => .ok (Token.whitespace .newline, r)
        | _ => .ok (Token.whitespace .newline, s ++ c :: x))
      (match s ++ c' :: x' with
        | 10 :: r => .ok (Token.whitespace .newline, r)
        | _ => .ok (Token.whitespace .newline, s ++ c' :: x')) := by
  rcases s with _ | ⟨d, s⟩
  · intro t r e
    simp only [List.nil_append] at e ⊢
    by_cases h10 : c = 10
    · subst h10
      simp only [Except.ok.injEq, Prod.mk.injEq] at e
      have := congrArg List.length e.2
      simp only [List.length_append, List.length_cons] at this; omega
    · have h10' : c' ≠ 10 := fun h => h10 (hcr rfl h)
      split at e
      · rename_i r0 heq; simp at heq; exact absurd heq.1 h10
      · simp only [Except.ok.injEq, Prod.mk.injEq] at e
        split
        · rename_i r0 heq; simp at heq; exact absurd heq.1 h10'
        · simp only [Except.ok.injEq, Prod.mk.injEq]
          refine ⟨e.1, ?_⟩
          have : r = [] := by
            have := congrArg List.length e.2
            simp only [List.length_append, List.length_cons] at this
            exact List.eq_nil_of_length_eq_zero (by omega)
          subst this; rfl
  · simp only [List.cons_append]
    by_cases hd : d = 10
    · subst hd; exact cutRel_ok _ (by cut2_tac)
    · split
      · rename_i r0 heq; simp at heq; exact absurd heq.1 hd
      · split
        · rename_i r0 heq; simp at heq; exact absurd heq.1 hd
        · exact cutRel_ok _ (by cut2_tac)

attribute [local irreducible] lexOp in
theorem lexHead_cut (hrs : env.isRedshift = false) (d : Nat) (s : List Nat)
    (hcr : d = 13 → s = [] → c' = 10 → c = 10) :
    CutRel c x c' x' (lexHead env d (s ++ c :: x)) (lexHead env d (s ++ c' :: x')) := by
  have h : Cut2 c x c' x' (s ++ c :: x) (s ++ c' :: x') := Cut2.app s
  sep_facts
  unfold lexHead
  simp only [properIdent_true hrs]
  repeat' (apply cutRel_ite <;> intro _)
  all_goals first
    | leaf_tac
    | exact crArm_cut s (hcr (by assumption))
    | exact lexByte_cut hc hc' _ h | exact lexRaw_cut hc hc' _ h | exact lexPrefixed_cut hc hc' _ _ h
    | exact lexEscaped_cut hc hc' _ h | exact lexUnicode_cut hc hc' _ h
    | exact lexQuote_cut (by assumption) (by assumption) _ _ (Cut2.cons _ h)
    | exact lexQuotedIdent_cut hc hc' _ h
    | exact lexNumber_cut hc hc' (Cut2.cons _ h)
    | exact lexMinus_cut hc hc' h
    | exact lexOp_cut hc hc' _ h

/-- **the cut lemma for `next_token`**: a token that ends before a separator character does not
depend on that character nor on anything after it -/
theorem nextToken_ws_cut (hrs : env.isRedshift = false) (s : List Nat) (t : Token) (r : List Nat)
    (hcr : s = [13] → c' = 10 → c = 10)
    (e : nextToken env (s ++ c :: x) = .ok (some (t, r ++ c :: x))) :
    nextToken env (s ++ c' :: x') = .ok (some (t, r ++ c' :: x')) := by
  rcases s with _ | ⟨d, s⟩
  · obtain ⟨pre, hne, hp⟩ := nextToken_suffix env _ _ _ e
    have := congrArg List.length hp
    have : 0 < pre.length := List.length_pos_iff.2 hne
    simp at *; omega
  · simp only [List.cons_append, nextToken] at e ⊢
    split at e
    · cases e
    · rename_i v hv
      obtain ⟨t0, r0⟩ := v
      simp only [Except.ok.injEq, Option.some.injEq, Prod.mk.injEq] at e
      obtain ⟨rfl, rfl⟩ := e
      rw [lexHead_cut hc hc' hrs d s (fun h1 h2 => hcr (by rw [h1, h2])) _ _ hv]

end ops
end
/-! ## the loop -/

/-- lifting a cut property of the token function through `tokLoop`: the entries `A` that end inside
`a` (leaving `m` before the cut) are reproduced, followed by whatever the loop yields on the rest -/
theorem tokLoop_cut {T : Type} {next : List Nat → Except LexErr (Option (T × List Nat))} (hn : NextOK next)
    {c c' : Nat} {x x' : List Nat} (m : List Nat) :
    ∀ (A : List (Entry T)) (a : List Nat)
      (_ : ∀ s t r, s <:+ a → next (s ++ c :: x) = .ok (some (t, r ++ c :: x)) →
        next (s ++ c' :: x') = .ok (some (t, r ++ c' :: x')))
      (fuel fuel' : Nat) (loc : Loc) (R R' : List (Entry T)),
      tokLoop next fuel (a ++ c :: x) loc = .ok (A ++ R) → a = slices A ++ m → A.length ≤ fuel' →
      tokLoop next (fuel' - A.length) (m ++ c' :: x') (advance loc (slices A)) = .ok R' →
      tokLoop next fuel' (a ++ c' :: x') loc = .ok (A ++ R') := by
  intro A
  induction A with
  | nil =>
    intro a _ fuel fuel' loc R R' _ ha _ h2
    simp only [slices_nil, List.nil_append] at ha
    subst ha
    simpa [advance] using h2
  | cons e A ih =>
    intro a hcut fuel fuel' loc R R' h1 ha hf h2
    cases fuel with
    | zero => simp [tokLoop] at h1
    | succ n =>
      rcases tokLoop_step hn h1 with ⟨_, ht⟩ | ⟨t, pre, rest, ts', _, hs, hnx, hrec, ht⟩
      · simp at ht
      · simp only [List.cons_append, List.cons.injEq] at ht
        obtain ⟨rfl, rfl⟩ := ht
        simp only [slices_cons, Entry.slice] at ha
        have hrest : rest = (slices A ++ m) ++ c :: x := by
          subst ha
          have : pre ++ ((slices A ++ m) ++ c :: x) = pre ++ rest := by rw [← hs]; simp
          exact (List.append_cancel_left this).symm
        subst hrest
        have hnx' := hcut a t (slices A ++ m) (List.suffix_refl a) hnx
        cases fuel' with
        | zero => simp at hf
        | succ n' =>
          have hcons : a ++ c' :: x' = pre ++ ((slices A ++ m) ++ c' :: x') := by subst ha; simp
          have ih' := ih (slices A ++ m)
            (fun s t r hs => hcut s t r (hs.trans (by
              subst ha; rw [List.append_assoc]; exact List.suffix_append _ _)))
            n n' (advance loc pre) R R' hrec rfl (by simpa using hf)
            (by simpa [slices_cons, Entry.slice, advance_append] using h2)
          rw [hcons] at hnx'
          rw [hcons]
          simp only [tokLoop, hnx', consumed_append, ih', List.cons_append]

end SqlVerif.Tok

import SqlVerif.Lemmas.DdlDefs
import SqlVerif.Lemmas.DmlSim2
/-!
The second statement model (`Model/Ddl.lean`) respects the token image `qc` of `Lemmas/QuerySim.lean`
(the analogue of `Lemmas/DmlSim.lean` + `Lemmas/DmlSim2.lean`).

* Single-list form, for every function that does not reach a data type: `Rel2 M (F ts) (F (ts.map qc))`
  (`*_qc`; equations for the Bool tests and for the total helpers that split off a token list).
* Two-list form (`*_sim2`: two token lists with the same image, success on the first), for the functions
  on the path to a data type: a view column (no type: outside ClickHouse), the column definition of
  `ALTER TABLE … ADD` (keyword types: `AlterOp.typesLeaf`), up to `parseStmt_sim2`.
* `createHead_sim*`, `dropHead_sim*`: the dispatcher takes the same arm on two lists with the same image.

The image functions (`*.mapT`) and the side condition `Stmt.typesLeaf` are those of `Lemmas/DdlDefs.lean`.
-/
namespace SqlVerif.Ddl
open SqlVerif.Pratt SqlVerif.Query SqlVerif.Dml SqlVerif.Gen
set_option linter.unusedSimpArgs false

-- ------------------------------------------------------------------ Bool helpers and total helpers
theorem viewColOptForeign_qc (c : XCfg) (ts : List Tok) : viewColOptForeign c (ts.map qc) = viewColOptForeign c ts := by
  unfold viewColOptForeign
  simp only [peekKw_qc]

theorem viewIfneTail_qc (c : XCfg) (ts : List Tok) : viewIfneTail c (ts.map qc) = mp (List.map qc) (viewIfneTail c ts) := by
  unfold viewIfneTail
  split
  · exact kwsTail_qc _ _
  · simp [mp]

theorem viewOptsForeign_qc (c : XCfg) (ts : List Tok) : viewOptsForeign c (ts.map qc) = viewOptsForeign c ts := by
  unfold viewOptsForeign
  simp only [peekKw_qc, peekAnyKw_qc]

theorem nsbAhead_qc (c : XCfg) (ts : List Tok) : nsbAhead c (ts.map qc) = nsbAhead c ts := by
  unfold nsbAhead
  simp only [eatKws_qc, Option.isSome_map]

theorem addConstraintAhead_qc (c : XCfg) (ts : List Tok) : addConstraintAhead c (ts.map qc) = addConstraintAhead c ts := by
  unfold addConstraintAhead
  simp only [peekAnyKw_qc]

theorem addIneTail_qc (c : XCfg) (ts : List Tok) : addIneTail c (ts.map qc) = mp (List.map qc) (addIneTail c ts) := by
  unfold addIneTail
  split
  · exact kwsTail_qc _ _
  · simp [mp]

theorem dropOpForeign_qc (ts : List Tok) : dropOpForeign (ts.map qc) = dropOpForeign ts := by
  unfold dropOpForeign
  simp only [eatKws_qc, Option.isSome_map, peekAnyKw_qc]

theorem alterColForeign_qc (c : XCfg) (ts : List Tok) : alterColForeign c (ts.map qc) = alterColForeign c ts := by
  unfold alterColForeign
  simp only [eatKws_qc, Option.isSome_map, peekKw_qc]

theorem opForeign_qc (c : XCfg) (ts : List Tok) : opForeign c (ts.map qc) = opForeign c ts := by
  unfold opForeign
  simp only [eatKws_qc, Option.isSome_map, peekAnyKw_qc]

theorem locationAhead_qc (ts : List Tok) : locationAhead (ts.map qc) = locationAhead ts := by
  unfold locationAhead
  simp only [eatKws_qc, Option.isSome_map, peekKw_qc]

theorem truncIdentity_qc (c : XCfg) (ts : List Tok) : truncIdentity c (ts.map qc) = mp (List.map qc) (truncIdentity c ts) := by
  unfold truncIdentity
  split
  · rw [eatKws_qc]
    cases eatKws ts [XK.RESTART, XK.IDENTITY] with
    | some p => simp [mp]
    | none => simp only [Option.map_none]; exact kwsTail_qc _ _
  · simp [mp]

theorem truncCascade_qc (c : XCfg) (ts : List Tok) : truncCascade c (ts.map qc) = mp (List.map qc) (truncCascade c ts) := by
  unfold truncCascade
  split
  · rw [eatKw_qc]
    cases eatKw ts XK.CASCADE with
    | some p => simp [mp]
    | none => simp only [Option.map_none]; exact kwTail_qc _ _
  · simp [mp]

theorem indexKws_qc (ts : List Tok) : indexKws (ts.map qc) = (indexKws ts).map (mp (List.map qc)) := by
  unfold indexKws
  rw [eatKw_qc]
  cases eatKw ts XK.INDEX with
  | some p => simp [mp]
  | none => simp only [Option.map_none]; exact eatKws_qc _ _

theorem dropHead_qc (ts : List Tok) : dropHead (ts.map qc) = (dropHead ts).map (mp qc) := by
  cases ts with
  | nil => rfl
  | cons t r =>
    have : (qc t).isKw = t.isKw := funext (qc_isKw t)
    simp only [List.map_cons, dropHead, this]
    split <;> simp [mp]

def CreateHead.mapT (m : Tok → Tok) : CreateHead → CreateHead
  | .view o t r => .view (o.map m) (t.map m) (r.map m)
  | .index t ik r => .index (t.map m) (ik.map m) (r.map m)
  | .other => .other

theorem createHeadTail_qc (orRep ts : List Tok) :
    createHeadTail (orRep.map qc) (ts.map qc) = (createHeadTail orRep ts).mapT qc := by
  unfold createHeadTail
  simp only [peekAnyKw_qc, tempTail_qc, mp, List.isEmpty_map, indexKws_qc]
  split
  · rfl
  · split
    · rfl
    · split
      · rfl
      · cases indexKws (tempTail ts).2 with
        | none => rfl
        | some p => rfl

theorem createHead_qc (ts : List Tok) : createHead (ts.map qc) = (createHead ts).mapT qc := by
  unfold createHead
  rw [kwsTail_qc]
  exact createHeadTail_qc _ _

-- ------------------------------------------------------------------ CREATE VIEW (after the column list)
theorem viewBody_qc (c : XCfg) (f d : Nat) (ts : List Tok) :
    Rel2 (fun p : Tok × Source => (qc p.1, p.2.mapT qc)) (viewBody c f d ts) (viewBody c f d (ts.map qc)) := by
  unfold viewBody
  rw [viewOptsForeign_qc]
  split
  · simp
  · rw [eatKw_qc]
    cases h : eatKw ts XK.AS with
    | none => simp
    | some p =>
      obtain ⟨asKw, r⟩ := p
      simp only [Option.map_some, mp]
      rcases (parseSource_qc c.d f d r).elim with ⟨q, r1, h1, h2⟩ | ⟨er, er', h1, h2⟩
      · rw [h1, h2]
        simp only [nsbAhead_qc]
        split <;> simp [mp]
      · rw [h1, h2]; simp

-- ------------------------------------------------------------------ CREATE INDEX
theorem indexName_qc (ifne : Bool) (ts : List Tok) :
    Rel2 (fun p : List Tok × Tok => (p.1.map qc, qc p.2)) (indexName ifne ts) (indexName ifne (ts.map qc)) := by
  unfold indexName
  have h0 : (if ifne then none else eatKw (ts.map qc) XK.ON) = (if ifne then none else eatKw ts XK.ON).map (mp qc) := by
    cases ifne <;> simp [eatKw_qc]
  rw [h0]
  cases h : (if ifne then none else eatKw ts XK.ON) with
  | some p => obtain ⟨on, r⟩ := p; simp [mp]
  | none =>
    simp only [Option.map_none]
    rcases (nameElem_qc ts).elim with ⟨name, r, h1, h2⟩ | ⟨er, er', h1, h2⟩
    · rw [h1, h2]
      simp only [eatKw_qc]
      cases h3 : eatKw r XK.ON with
      | none => simp
      | some p => obtain ⟨on, r1⟩ := p; simp [mp]
    · rw [h1, h2]; simp

theorem indexUsing_qc (ts : List Tok) : Rel2 (List.map qc) (indexUsing ts) (indexUsing (ts.map qc)) := by
  unfold indexUsing
  rw [eatKw_qc]
  cases h : eatKw ts XK.USING with
  | none => simp [mp]
  | some p =>
    obtain ⟨u, r⟩ := p
    simp only [Option.map_some, mp]
    rcases (identElem_qc r).elim with ⟨m, r1, h1, h2⟩ | ⟨er, er', h1, h2⟩
    · rw [h1, h2]; simp [mp]
    · rw [h1, h2]; simp

theorem indexHead_qc (c : XCfg) (ts : List Tok) :
    Rel2 (IdxHead.mapT qc) (indexHead c ts) (indexHead c (ts.map qc)) := by
  unfold indexHead
  simp only [kwTail_qc, kwsTail_qc, mp, List.isEmpty_map]
  rcases (indexName_qc (!(kwsTail ineKws (kwTail XK.CONCURRENTLY ts).2).1.isEmpty)
    (kwsTail ineKws (kwTail XK.CONCURRENTLY ts).2).2).elim with ⟨nm, r1, h1, h2⟩ | ⟨er, er', h1, h2⟩
  · rw [h1, h2]
    simp only
    rcases (nameElem_qc r1).elim with ⟨table, r2, h3, h4⟩ | ⟨er, er', h3, h4⟩
    · rw [h3, h4]
      simp only [bqDotted_qc]
      split
      · simp
      · rcases (indexUsing_qc r2).elim with ⟨us, r3, h5, h6⟩ | ⟨er, er', h5, h6⟩
        · rw [h5, h6]
          simp only [eatLP_qc]
          cases h7 : eatSym r3 .LParen with
          | none => simp
          | some p => obtain ⟨lp, r4⟩ := p; simp [mp, IdxHead.mapT]
        · rw [h5, h6]; simp
    · rw [h3, h4]; simp
  · rw [h1, h2]; simp

theorem includePart_qc (c : XCfg) (f : Nat) (ts : List Tok) :
    Rel2 (fun p : List Tok × ParenIds => (p.1.map qc, p.2.mapT qc)) (includePart c f ts) (includePart c f (ts.map qc)) := by
  unfold includePart
  rw [eatKw_qc]
  cases h : eatKw ts XK.INCLUDE with
  | none => simp [mp, ParenIds.mapT, ParenIds.none, sepMap]
  | some p =>
    obtain ⟨k, r⟩ := p
    simp only [Option.map_some, mp, eatLP_qc]
    cases h2 : eatSym r .LParen with
    | none => simp
    | some p2 =>
      obtain ⟨lp, r1⟩ := p2
      simp only [Option.map_some, mp]
      rcases (commaSepE_qc c.tc _ _ _ identElem_qc f r1).elim with ⟨ids, r2, h3, h4⟩ | ⟨er, er', h3, h4⟩
      · rw [h3, h4]
        simp only [eatRP_qc]
        cases h5 : eatSym r2 .RParen with
        | none => simp
        | some p3 => obtain ⟨rp, r3⟩ := p3; simp [mp, ParenIds.mapT]
      · rw [h3, h4]; simp

theorem nullsDistinct_qc (ts : List Tok) : Rel2 (List.map qc) (nullsDistinct ts) (nullsDistinct (ts.map qc)) := by
  unfold nullsDistinct
  rw [eatKw_qc]
  cases h : eatKw ts XK.NULLS with
  | none => simp [mp]
  | some p =>
    obtain ⟨n, r⟩ := p
    simp only [Option.map_some, mp, kwTail_qc, eatKw_qc]
    cases h2 : eatKw (kwTail XK.NOT r).2 XK.DISTINCT with
    | none => simp
    | some p2 => obtain ⟨dk, r1⟩ := p2; simp [mp]

theorem indexTail_qc (c : XCfg) (f d : Nat) (ts : List Tok) :
    Rel2 (IdxTail.mapT qc) (indexTail c f d ts) (indexTail c f d (ts.map qc)) := by
  unfold indexTail
  rcases (includePart_qc c f ts).elim with ⟨inc, r1, h1, h2⟩ | ⟨er, er', h1, h2⟩
  · rw [h1, h2]
    simp only
    rcases (nullsDistinct_qc r1).elim with ⟨nl, r2, h3, h4⟩ | ⟨er, er', h3, h4⟩
    · rw [h3, h4]
      simp only [peekKw_qc]
      split
      · simp
      · rcases (kwExprPart_qc c.d.q f d XK.WHERE r2).elim with ⟨w, r3, h5, h6⟩ | ⟨er, er', h5, h6⟩
        · rw [h5, h6]; simp [mp, IdxTail.mapT]
        · rw [h5, h6]; simp
    · rw [h3, h4]; simp
  · rw [h1, h2]; simp

theorem parseCreateIndex_qc (c : XCfg) (f d : Nat) (kw : Tok) (temp ik ts : List Tok) :
    Rel2 (CreateIndex.mapT qc) (parseCreateIndex c f d kw temp ik ts)
      (parseCreateIndex c f d (qc kw) (temp.map qc) (ik.map qc) (ts.map qc)) := by
  unfold parseCreateIndex
  rcases (indexHead_qc c ts).elim with ⟨hd, r1, h1, h2⟩ | ⟨er, er', h1, h2⟩
  · rw [h1, h2]
    simp only
    rcases (commaSepE_qc c.tc _ _ _ (orderByElem_qc c.d.q f d) f r1).elim with ⟨cols, r2, h3, h4⟩ | ⟨er, er', h3, h4⟩
    · rw [h3, h4]
      simp only [eatRP_qc]
      cases h5 : eatSym r2 .RParen with
      | none => simp
      | some p =>
        obtain ⟨rp, r3⟩ := p
        simp only [Option.map_some, mp]
        rcases (indexTail_qc c f d r3).elim with ⟨tl, r4, h6, h7⟩ | ⟨er, er', h6, h7⟩
        · rw [h6, h7]; simp [mp, CreateIndex.mapT]
        · rw [h6, h7]; simp
    · rw [h3, h4]; simp
  · rw [h1, h2]; simp

-- ------------------------------------------------------------------ ALTER TABLE (operations without a data type)
theorem dropOp_qc (c : XCfg) (k : Tok) (ts : List Tok) :
    Rel2 (AlterOp.mapT qc) (dropOp c k ts) (dropOp c (qc k) (ts.map qc)) := by
  unfold dropOp
  simp only [dropOpForeign_qc, kwTail_qc, kwsTail_qc, mp, List.isEmpty_map]
  split
  · simp
  · split
    · simp
    · split
      · simp
      · rcases (identElem_qc (kwsTail ieKws (kwTail XK.COLUMN (kwTail XK.PROJECTION
          (kwsTail [XK.PRIMARY, XK.KEY] ts).2).2).2).2).elim with ⟨name, r, h1, h2⟩ | ⟨er, er', h1, h2⟩
        · rw [h1, h2]; simp [mp, AlterOp.mapT, kwTail_qc]
        · rw [h1, h2]; simp

theorem renameColOp_qc (k : Tok) (ts : List Tok) :
    Rel2 (AlterOp.mapT qc) (renameColOp k ts) (renameColOp (qc k) (ts.map qc)) := by
  unfold renameColOp
  simp only [kwTail_qc, mp]
  rcases (identElem_qc (kwTail XK.COLUMN ts).2).elim with ⟨old, r, h1, h2⟩ | ⟨er, er', h1, h2⟩
  · rw [h1, h2]
    simp only [eatKw_qc]
    cases h3 : eatKw r XK.TO with
    | none => simp
    | some p =>
      obtain ⟨toKw, r1⟩ := p
      simp only [Option.map_some, mp]
      rcases (identElem_qc r1).elim with ⟨new, r2, h4, h5⟩ | ⟨er, er', h4, h5⟩
      · rw [h4, h5]; simp [mp, AlterOp.mapT]
      · rw [h4, h5]; simp
  · rw [h1, h2]; simp

theorem renameOp_qc (c : XCfg) (k : Tok) (ts : List Tok) :
    Rel2 (AlterOp.mapT qc) (renameOp c k ts) (renameOp c (qc k) (ts.map qc)) := by
  unfold renameOp
  simp only [peekKw_qc]
  split
  · simp
  · rw [eatKw_qc]
    cases h : eatKw ts XK.TO with
    | none => simp only [Option.map_none]; exact renameColOp_qc k ts
    | some p =>
      obtain ⟨toKw, r⟩ := p
      simp only [Option.map_some, mp]
      rcases (nameElem_qc r).elim with ⟨name, r1, h1, h2⟩ | ⟨er, er', h1, h2⟩
      · rw [h1, h2]
        simp only [bqDotted_qc]
        split <;> simp [mp, AlterOp.mapT]
      · rw [h1, h2]; simp

theorem alterColTail_qc (c : XCfg) (f d : Nat) (ts : List Tok) :
    Rel2 (fun p : List Tok × AlterColOp => (p.1.map qc, p.2.mapT qc)) (alterColTail c f d ts)
      (alterColTail c f d (ts.map qc)) := by
  unfold alterColTail
  simp only [eatKws_qc, alterColForeign_qc]
  cases h1 : eatKws ts [XK.SET, XK.NOT, XK.NULL] with
  | some p => obtain ⟨toks, r⟩ := p; simp [mp, AlterColOp.mapT]
  | none =>
  cases h2 : eatKws ts [XK.DROP, XK.NOT, XK.NULL] with
  | some p => obtain ⟨toks, r⟩ := p; simp [mp, AlterColOp.mapT]
  | none =>
  cases h3 : eatKws ts [XK.SET, XK.DEFAULT] with
  | some p =>
    obtain ⟨toks, r⟩ := p
    simp only [Option.map_some, Option.map_none, mp]
    rcases (parseE_qc c.d.q f d r).elim with ⟨e, r1, h5, h6⟩ | ⟨er, er', h5, h6⟩
    · rw [h5, h6]; simp [mp, AlterColOp.mapT]
    · rw [h5, h6]; simp
  | none =>
  cases h4 : eatKws ts [XK.DROP, XK.DEFAULT] with
  | some p => obtain ⟨toks, r⟩ := p; simp [mp, AlterColOp.mapT]
  | none =>
    simp only [Option.map_none]
    split <;> simp

theorem alterColOp_qc (c : XCfg) (f d : Nat) (k : Tok) (ts : List Tok) :
    Rel2 (AlterOp.mapT qc) (alterColOp c f d k ts) (alterColOp c f d (qc k) (ts.map qc)) := by
  unfold alterColOp
  simp only [kwTail_qc, mp]
  rcases (identElem_qc (kwTail XK.COLUMN ts).2).elim with ⟨name, r, h1, h2⟩ | ⟨er, er', h1, h2⟩
  · rw [h1, h2]
    simp only
    rcases (alterColTail_qc c f d r).elim with ⟨p, r1, h3, h4⟩ | ⟨er, er', h3, h4⟩
    · rw [h3, h4]; simp [mp, AlterOp.mapT]
    · rw [h3, h4]; simp
  · rw [h1, h2]; simp

-- ------------------------------------------------------------------ TRUNCATE, DROP <kind>
theorem parseTruncate_qc (c : XCfg) (f : Nat) (kw : Tok) (ts : List Tok) :
    Rel2 (Truncate.mapT qc) (parseTruncate c f kw ts) (parseTruncate c f (qc kw) (ts.map qc)) := by
  unfold parseTruncate
  simp only [kwTail_qc, mp]
  rcases (commaSepE_qc c.tc _ _ _ nameElem_qc f (kwTail XK.ONLY (kwTail XK.TABLE ts).2).2).elim with
    ⟨names, r1, h1, h2⟩ | ⟨er, er', h1, h2⟩
  · rw [h1, h2]
    simp only [anyDotted_qc, peekKw_qc, truncIdentity_qc, truncCascade_qc, mp, eatKws_qc, Option.isSome_map]
    split
    · simp
    · split
      · simp
      · split <;> simp [mp, Truncate.mapT]
  · rw [h1, h2]; simp

theorem parseDropObj_qc (c : XCfg) (f : Nat) (kw kind : Tok) (ts : List Tok) :
    Rel2 (Drop.mapT qc) (parseDropObj c f kw kind ts) (parseDropObj c f (qc kw) (qc kind) (ts.map qc)) := by
  unfold parseDropObj
  simp only [kwsTail_qc, mp]
  rcases (commaSepE_qc c.tc _ _ _ nameElem_qc f (kwsTail ieKws ts).2).elim with ⟨names, r1, h1, h2⟩ | ⟨er, er', h1, h2⟩
  · rw [h1, h2]
    simp only [anyDotted_qc, kwTail_qc, mp, List.isEmpty_map, qc_isKw, ← List.map_append]
    split
    · simp
    · split
      · simp
      · split <;> simp [mp, Drop.mapT]
  · rw [h1, h2]; simp


-- ================================================================== two-list forms
section transfer
variable {a b : List Tok} (hs : a.map qc = b.map qc)
include hs

/-- a Bool test that respects the image gives the same answer on two lists with the same image -/
theorem sim_bool {F : List Tok → Bool} (hF : ∀ ts, F (ts.map qc) = F ts) : F a = F b := by
  rw [← hF a, hs, hF]

/-- the same for a total helper that splits off a token list -/
theorem sim_tail {F : List Tok → List Tok × List Tok} (hF : ∀ ts, F (ts.map qc) = mp (List.map qc) (F ts)) :
    ((F a).1.map qc = (F b).1.map qc) ∧ ((F a).2.map qc = (F b).2.map qc) := by
  have : mp (List.map qc) (F a) = mp (List.map qc) (F b) := by rw [← hF, ← hF, hs]
  simpa [mp] using this

theorem sim_eatKws_isSome (ks : List Nat) : (eatKws a ks).isSome = (eatKws b ks).isSome := by
  have h1 := eatKws_qc ks a
  have h2 := eatKws_qc ks b
  rw [hs] at h1
  have := congrArg Option.isSome (h1.symm.trans h2)
  simpa using this

theorem sim_eatKw_cases (k : Nat) :
    (eatKw a k = none ∧ eatKw b k = none) ∨
      ∃ t r t' r', eatKw a k = some (t, r) ∧ eatKw b k = some (t', r') ∧ qc t' = qc t ∧ r.map qc = r'.map qc := by
  have h := sim_eatKw hs k
  cases e1 : eatKw a k with
  | none =>
    rw [e1] at h
    cases e2 : eatKw b k with
    | none => exact Or.inl ⟨rfl, rfl⟩
    | some p => rw [e2] at h; simp at h
  | some p =>
    rw [e1] at h
    cases e2 : eatKw b k with
    | none => rw [e2] at h; simp at h
    | some p' =>
      rw [e2] at h
      simp [mp] at h
      exact Or.inr ⟨p.1, p.2, p'.1, p'.2, rfl, rfl, h.1.symm, h.2⟩

theorem sim_eatSym_cases (s : Sym) (h1 : s ≠ .Eq) (h2 : s ≠ .DoubleEq) :
    (eatSym a s = none ∧ eatSym b s = none) ∨
      ∃ t r t' r', eatSym a s = some (t, r) ∧ eatSym b s = some (t', r') ∧ qc t' = qc t ∧ r.map qc = r'.map qc := by
  have h := sim_eatSym hs s h1 h2
  cases e1 : eatSym a s with
  | none =>
    rw [e1] at h
    cases e2 : eatSym b s with
    | none => exact Or.inl ⟨rfl, rfl⟩
    | some p => rw [e2] at h; simp at h
  | some p =>
    rw [e1] at h
    cases e2 : eatSym b s with
    | none => rw [e2] at h; simp at h
    | some p' =>
      rw [e2] at h
      simp [mp] at h
      exact Or.inr ⟨p.1, p.2, p'.1, p'.2, rfl, rfl, h.1.symm, h.2⟩

/-- a parser with one token argument that respects the image, in the two-list form -/
theorem sim_of_rel2_kw {α : Type} {M : α → α} {F : Tok → List Tok → Res α}
    (hF : ∀ k ts, Rel2 M (F k ts) (F (qc k) (ts.map qc))) {k k' : Tok} (hk : qc k' = qc k)
    {v : α} {r : List Tok} (h : F k a = .ok (v, r)) :
    ∃ v' r', F k' b = .ok (v', r') ∧ M v' = M v ∧ r'.map qc = r.map qc := by
  have h1 := hF k a
  have h2 := hF k' b
  rw [hk, ← hs] at h2
  exact Rel2.two' h1 h2 h
end transfer

theorem sim_bqDotted (c : DCfg) {n n' : List Tok} (h : n'.map qc = n.map qc) : bqDotted c n' = bqDotted c n := by
  rw [← bqDotted_qc c n', h, bqDotted_qc]

-- ------------------------------------------------------------------ lists with a per-element side condition
theorem commaSepE_simP {α : Type} (tc : Bool) (elem : List Tok → Res α) (M : α → α) (P : α → Bool)
    (hel : ∀ {a b : List Tok}, a.map qc = b.map qc → ∀ {v : α} {r : List Tok}, elem a = .ok (v, r) → P v = true →
      ∃ v' r', elem b = .ok (v', r') ∧ M v' = M v ∧ r'.map qc = r.map qc) :
    ∀ (n : Nat) {a b : List Tok}, a.map qc = b.map qc → ∀ {vs : Sep α} {r : List Tok},
      commaSepE tc elem n a = .ok (vs, r) → vs.all (fun p => P p.1) = true →
      ∃ vs' r', commaSepE tc elem n b = .ok (vs', r') ∧ sepMap M qc vs' = sepMap M qc vs ∧ r'.map qc = r.map qc := by
  intro n
  induction n with
  | zero => intro a b _ vs r h; simp [commaSepE] at h
  | succ n ih =>
    intro a b hs vs r h hl
    simp only [commaSepE] at h ⊢
    split at h
    · simp at h
    · rename_i v r1 hv
      split at h
      · rename_i r2
        split at h
        · rename_i hle
          simp at h
          obtain ⟨rfl, rfl⟩ := h
          simp only [List.all_cons, List.all_nil, Bool.and_true] at hl
          obtain ⟨v', r1', hv', e1, s1⟩ := hel hs hv hl
          rw [hv']
          cases r1' with
          | nil => simp at s1
          | cons y r2' =>
            simp only [List.map_cons, List.cons.injEq] at s1
            have hy : y = .sym .Comma := qc_eq_comma s1.1
            subst hy
            simp only
            rw [← sim_listEnds s1.2.symm]
            simp only [hle, ↓reduceIte]
            exact ⟨_, _, rfl, by simp [sepMap, e1], s1.2⟩
        · rename_i hle
          split at h
          · simp at h
          · rename_i vs0 r3 hrec
            simp at h
            obtain ⟨rfl, rfl⟩ := h
            simp only [List.all_cons, Bool.and_eq_true] at hl
            obtain ⟨v', r1', hv', e1, s1⟩ := hel hs hv hl.1
            rw [hv']
            cases r1' with
            | nil => simp at s1
            | cons y r2' =>
              simp only [List.map_cons, List.cons.injEq] at s1
              have hy : y = .sym .Comma := qc_eq_comma s1.1
              subst hy
              simp only
              rw [← sim_listEnds s1.2.symm]
              simp only [hle, Bool.false_eq_true, ↓reduceIte]
              obtain ⟨vs0', r3', hrec', e2, s2⟩ := ih s1.2.symm hrec hl.2
              rw [hrec']
              exact ⟨_, _, rfl, by simp [sepMap, e1] at e2 ⊢; exact e2, s2⟩
      · rename_i hnc
        simp at h
        obtain ⟨rfl, rfl⟩ := h
        simp only [List.all_cons, List.all_nil, Bool.and_true] at hl
        obtain ⟨v', r1', hv', e1, s1⟩ := hel hs hv hl
        rw [hv']
        simp only
        have : ∀ rest', r1' ≠ .sym .Comma :: rest' := by
          intro rest' hr
          subst hr
          cases r1 with
          | nil => simp at s1
          | cons x l =>
            simp only [List.map_cons, List.cons.injEq] at s1
            have hx : x = .sym .Comma := qc_eq_comma s1.1.symm
            exact hnc l (by rw [hx])
        split
        · exact absurd rfl (this _)
        · exact ⟨_, _, rfl, by simp [sepMap, e1], s1⟩

-- ------------------------------------------------------------------ CREATE VIEW
theorem viewCol_sim2 (c : XCfg) (f d : Nat) {a b : List Tok} (hs : a.map qc = b.map qc) {v : ViewCol} {r : List Tok}
    (h : viewCol c f d a = .ok (v, r)) (hl : v.ty.isNone = true) :
    ∃ v' r', viewCol c f d b = .ok (v', r') ∧ v'.mapT qc = v.mapT qc ∧ r'.map qc = r.map qc := by
  unfold viewCol at h ⊢
  split at h
  · simp at h
  · rename_i name r0 hn
    obtain ⟨name', r0', hn', e1, s1⟩ := sim_of_rel2 hs identElem_qc hn
    rw [hn']
    simp only
    rw [← sim_bool s1.symm (viewColOptForeign_qc c)]
    cases hb : viewColOptForeign c r0 with
    | true => simp [hb] at h
    | false =>
      simp only [hb, Bool.false_eq_true, ↓reduceIte] at h ⊢
      cases hc : c.isClickHouse with
      | true =>
        simp only [hc, ↓reduceIte] at h
        split at h
        · simp at h
        · simp at h
          obtain ⟨rfl, rfl⟩ := h
          simp at hl
      | false =>
        simp only [hc, Bool.false_eq_true, ↓reduceIte] at h ⊢
        simp at h
        obtain ⟨rfl, rfl⟩ := h
        exact ⟨_, _, rfl, by simp [ViewCol.mapT, e1], s1⟩

theorem viewColumns_sim2 (c : XCfg) (f d : Nat) {a b : List Tok} (hs : a.map qc = b.map qc)
    {cols : List Tok × Sep ViewCol × List Tok} {r : List Tok} (h : viewColumns c f d a = .ok (cols, r))
    (hl : cols.2.1.all (fun p => p.1.ty.isNone) = true) :
    ∃ cols' r', viewColumns c f d b = .ok (cols', r') ∧ cols'.1.map qc = cols.1.map qc ∧
      sepMap (ViewCol.mapT qc) qc cols'.2.1 = sepMap (ViewCol.mapT qc) qc cols.2.1 ∧ cols'.2.2.map qc = cols.2.2.map qc ∧
      r'.map qc = r.map qc := by
  unfold viewColumns at h ⊢
  rcases sim_eatSym_cases hs .LParen LP_ne.1 LP_ne.2 with ⟨e1, e1'⟩ | ⟨lp, r0, lp', r0', e1, e1', hlp, hr0⟩
  · rw [e1] at h
    rw [e1']
    simp at h
    obtain ⟨rfl, rfl⟩ := h
    exact ⟨_, _, rfl, rfl, rfl, rfl, hs.symm⟩
  · rw [e1] at h
    rw [e1']
    simp only at h ⊢
    rcases sim_eatSym_cases hr0 .RParen RP_ne.1 RP_ne.2 with ⟨e2, e2'⟩ | ⟨rp, r1, rp', r1', e2, e2', hrp, hr1⟩
    · rw [e2] at h
      rw [e2']
      simp only at h ⊢
      split at h
      · simp at h
      · rename_i vs r2 hvs
        obtain ⟨vs', r2', hvs', e3, s3⟩ := commaSepE_simP c.tc (viewCol c f d) (ViewCol.mapT qc) (fun v => v.ty.isNone)
          (fun hs _ _ h hl => viewCol_sim2 c f d hs h hl) f hr0 hvs (by
            split at h
            · simp at h; obtain ⟨rfl, rfl⟩ := h; exact hl
            · simp at h)
        rw [hvs']
        simp only
        rcases sim_eatSym_cases s3.symm .RParen RP_ne.1 RP_ne.2 with ⟨e4, e4'⟩ | ⟨rp, r3, rp', r3', e4, e4', hrp, hr3⟩
        · rw [e4] at h; simp at h
        · rw [e4] at h
          rw [e4']
          simp at h
          obtain ⟨rfl, rfl⟩ := h
          exact ⟨_, _, rfl, by simp [hlp], e3, by simp [hrp], hr3.symm⟩
    · rw [e2] at h
      rw [e2']
      simp at h
      obtain ⟨rfl, rfl⟩ := h
      exact ⟨_, _, rfl, by simp [hlp], rfl, by simp [hrp], hr1.symm⟩

theorem parseCreateView_sim2 (c : XCfg) (f d : Nat) {kw kw' : Tok} (hk : qc kw' = qc kw) {orRep orRep' temp temp' : List Tok}
    (ho : orRep'.map qc = orRep.map qc) (htm : temp'.map qc = temp.map qc) {a b : List Tok}
    (hs : a.map qc = b.map qc) {v : CreateView} {r : List Tok} (h : parseCreateView c f d kw orRep temp a = .ok (v, r))
    (hl : v.cols.all (fun p => p.1.ty.isNone) = true) :
    ∃ v' r', parseCreateView c f d kw' orRep' temp' b = .ok (v', r') ∧ v'.mapT qc = v.mapT qc ∧ r'.map qc = r.map qc := by
  unfold parseCreateView at h ⊢
  obtain ⟨hm1, hm2⟩ := sim_tail hs (kwTail_qc XK.MATERIALIZED)
  generalize kwTail XK.MATERIALIZED a = A at *
  generalize kwTail XK.MATERIALIZED b = B at *
  obtain ⟨a1, a2⟩ := A
  obtain ⟨b1, b2⟩ := B
  simp only at h hm1 hm2 ⊢
  rcases sim_eatKw_cases hm2 XK.VIEW with ⟨e1, e1'⟩ | ⟨vk, r0, vk', r0', e1, e1', hvk, hr0⟩
  · rw [e1] at h; simp at h
  · rw [e1] at h
    rw [e1']
    simp only at h ⊢
    obtain ⟨hi1, hi2⟩ := sim_tail hr0 (viewIfneTail_qc c)
    generalize viewIfneTail c r0 = I at *
    generalize viewIfneTail c r0' = I' at *
    obtain ⟨i1, i2⟩ := I
    obtain ⟨j1, j2⟩ := I'
    simp only at h hi1 hi2 ⊢
    split at h
    · simp at h
    · rename_i name r1 hn
      obtain ⟨name', r1', hn', en, sn⟩ := sim_of_rel2 hi2 nameElem_qc hn
      rw [hn']
      simp only
      rw [sim_bqnf en sn]
      split at h
      · simp at h
      · rename_i h4
        simp only [h4, Bool.false_eq_true, ↓reduceIte]
        split at h
        · simp at h
        · rename_i cols r2 hc
          split at h
          · simp at h
          · rename_i bd r3 hb
            simp at h
            obtain ⟨rfl, rfl⟩ := h
            simp only at hl
            obtain ⟨cols', r2', hc', c1, c2, c3, sc⟩ := viewColumns_sim2 c f d sn.symm hc hl
            rw [hc']
            simp only
            obtain ⟨bd', r3', hb', eb, sb⟩ := sim_of_rel2 sc.symm (viewBody_qc c f d) hb
            rw [hb']
            simp only [Prod.mk.injEq] at eb
            refine ⟨_, _, rfl, ?_, sb⟩
            simp [CreateView.mapT, hk, ho, htm, hm1, hvk, hi1, en, c1, c2, c3, eb.1, eb.2]

-- ------------------------------------------------------------------ ALTER TABLE
theorem addOp_sim2 (c : XCfg) (f d : Nat) {k k' : Tok} (hk : qc k' = qc k) {a b : List Tok} (hs : a.map qc = b.map qc)
    {v : AlterOp} {r : List Tok} (h : addOp c f d k a = .ok (v, r)) (hl : v.typesLeaf = true) :
    ∃ v' r', addOp c f d k' b = .ok (v', r') ∧ v'.mapT qc = v.mapT qc ∧ r'.map qc = r.map qc := by
  unfold addOp at h ⊢
  rw [← sim_bool hs (addConstraintAhead_qc c), ← sim_peekKw hs XK.PROJECTION]
  obtain ⟨hi1, hi2⟩ := sim_tail hs (kwsTail_qc ineKws)
  generalize kwsTail ineKws a = I at *
  generalize kwsTail ineKws b = I' at *
  obtain ⟨i1, i2⟩ := I
  obtain ⟨j1, j2⟩ := I'
  simp only at h hi1 hi2 ⊢
  rw [← sim_peekKw hi2 XK.PARTITION]
  obtain ⟨hc1, hc2⟩ := sim_tail hi2 (kwTail_qc XK.COLUMN)
  generalize kwTail XK.COLUMN i2 = C at *
  generalize kwTail XK.COLUMN j2 = C' at *
  obtain ⟨c1, c2⟩ := C
  obtain ⟨d1, d2⟩ := C'
  simp only at h hc1 hc2 ⊢
  obtain ⟨hn1, hn2⟩ := sim_tail hc2 (addIneTail_qc c)
  generalize addIneTail c c2 = N at *
  generalize addIneTail c d2 = N' at *
  obtain ⟨n1, n2⟩ := N
  obtain ⟨m1, m2⟩ := N'
  simp only at h hn1 hn2 ⊢
  split at h
  · simp at h
  · rename_i h1
    split at h
    · simp at h
    · rename_i h2
      split at h
      · simp at h
      · rename_i h3
        simp only [h1, h2, h3, Bool.false_eq_true, ↓reduceIte]
        split at h
        · simp at h
        · rename_i cd r1 hcd
          split at h
          · simp at h
          · rename_i h4
            simp at h
            obtain ⟨rfl, rfl⟩ := h
            simp only [AlterOp.typesLeaf] at hl
            obtain ⟨cd', r1', hcd', e1, s1⟩ := columnDef_sim2 c.d f d hn2 hcd hl
            rw [hcd']
            simp only
            rw [← sim_peekAnyKw s1.symm]
            simp only [h4, Bool.false_eq_true, ↓reduceIte]
            refine ⟨_, _, rfl, ?_, s1⟩
            simp [AlterOp.mapT, hk, hi1, hc1, hn1, e1]

theorem alterOp_sim2 (c : XCfg) (f d : Nat) {a b : List Tok} (hs : a.map qc = b.map qc)
    {v : AlterOp} {r : List Tok} (h : alterOp c f d a = .ok (v, r)) (hl : v.typesLeaf = true) :
    ∃ v' r', alterOp c f d b = .ok (v', r') ∧ v'.mapT qc = v.mapT qc ∧ r'.map qc = r.map qc := by
  unfold alterOp at h ⊢
  rcases sim_eatKw_cases hs XK.ADD with ⟨e1, e1'⟩ | ⟨t, r0, t', r0', e1, e1', ht, hr⟩
  rotate_left
  · rw [e1] at h; rw [e1']
    exact addOp_sim2 c f d ht hr h hl
  rw [e1] at h; rw [e1']
  simp only at h ⊢
  rcases sim_eatKw_cases hs XK.RENAME with ⟨e2, e2'⟩ | ⟨t, r0, t', r0', e2, e2', ht, hr⟩
  rotate_left
  · rw [e2] at h; rw [e2']
    exact sim_of_rel2_kw hr (renameOp_qc c) ht h
  rw [e2] at h; rw [e2']
  simp only at h ⊢
  rcases sim_eatKw_cases hs XK.DROP with ⟨e3, e3'⟩ | ⟨t, r0, t', r0', e3, e3', ht, hr⟩
  rotate_left
  · rw [e3] at h; rw [e3']
    exact sim_of_rel2_kw hr (dropOp_qc c) ht h
  rw [e3] at h; rw [e3']
  simp only at h ⊢
  rcases sim_eatKw_cases hs XK.ALTER with ⟨e4, e4'⟩ | ⟨t, r0, t', r0', e4, e4', ht, hr⟩
  rotate_left
  · rw [e4] at h; rw [e4']
    exact sim_of_rel2_kw hr (alterColOp_qc c f d) ht h
  rw [e4] at h
  simp only at h
  split at h <;> simp at h

theorem parseAlter_sim2 (c : XCfg) (f d : Nat) {kw kw' : Tok} (hk : qc kw' = qc kw) {a b : List Tok}
    (hs : a.map qc = b.map qc) {v : AlterTable} {r : List Tok} (h : parseAlter c f d kw a = .ok (v, r))
    (hl : v.ops.all (fun p => p.1.typesLeaf) = true) :
    ∃ v' r', parseAlter c f d kw' b = .ok (v', r') ∧ v'.mapT qc = v.mapT qc ∧ r'.map qc = r.map qc := by
  unfold parseAlter at h ⊢
  rcases sim_eatKw_cases hs XK.TABLE with ⟨e1, e1'⟩ | ⟨tk, r0, tk', r0', e1, e1', htk, hr0⟩
  · rw [e1] at h
    simp only at h
    split at h <;> simp at h
  · rw [e1] at h
    rw [e1']
    simp only at h ⊢
    obtain ⟨hi1, hi2⟩ := sim_tail hr0 (kwsTail_qc ieKws)
    generalize kwsTail ieKws r0 = I at *
    generalize kwsTail ieKws r0' = I' at *
    obtain ⟨i1, i2⟩ := I
    obtain ⟨j1, j2⟩ := I'
    simp only at h hi1 hi2 ⊢
    obtain ⟨ho1, ho2⟩ := sim_tail hi2 (kwTail_qc XK.ONLY)
    generalize kwTail XK.ONLY i2 = O at *
    generalize kwTail XK.ONLY j2 = O' at *
    obtain ⟨o1, o2⟩ := O
    obtain ⟨p1, p2⟩ := O'
    simp only at h ho1 ho2 ⊢
    split at h
    · simp at h
    · rename_i name r1 hn
      obtain ⟨name', r1', hn', en, sn⟩ := sim_of_rel2 ho2 nameElem_qc hn
      rw [hn']
      simp only
      rw [sim_bqDotted c.d en, ← sim_eatKws_isSome sn.symm]
      split at h
      · simp at h
      · rename_i h1
        split at h
        · simp at h
        · rename_i h2
          simp only [h1, h2, Bool.false_eq_true, ↓reduceIte]
          split at h
          · simp at h
          · rename_i ops r2 hops
            split at h
            · simp at h
            · rename_i h3
              simp at h
              obtain ⟨rfl, rfl⟩ := h
              simp only at hl
              obtain ⟨ops', r2', hops', e3, s3⟩ := commaSepE_simP c.tc (alterOp c f d) (AlterOp.mapT qc) AlterOp.typesLeaf
                (fun hs _ _ h hl => alterOp_sim2 c f d hs h hl) f sn.symm hops hl
              rw [hops']
              simp only
              rw [← sim_bool s3.symm locationAhead_qc]
              simp only [h3, Bool.false_eq_true, ↓reduceIte]
              refine ⟨_, _, rfl, ?_, s3⟩
              simp [AlterTable.mapT, hk, htk, hi1, ho1, en, e3]

-- ------------------------------------------------------------------ the heads of CREATE and DROP
theorem createHead_sim {a b : List Tok} (hs : a.map qc = b.map qc) : (createHead b).mapT qc = (createHead a).mapT qc := by
  rw [← createHead_qc, ← createHead_qc, hs]

theorem createHead_sim_other {a b : List Tok} (hs : a.map qc = b.map qc) (h : createHead a = .other) :
    createHead b = .other := by
  have := createHead_sim hs
  rw [h] at this
  cases hb : createHead b with
  | other => rfl
  | view o t r => rw [hb] at this; simp [CreateHead.mapT] at this
  | index t ik r => rw [hb] at this; simp [CreateHead.mapT] at this

theorem createHead_sim_view {a b : List Tok} (hs : a.map qc = b.map qc) {o t r : List Tok} (h : createHead a = .view o t r) :
    ∃ o' t' r', createHead b = .view o' t' r' ∧ o'.map qc = o.map qc ∧ t'.map qc = t.map qc ∧ r.map qc = r'.map qc := by
  have := createHead_sim hs
  rw [h] at this
  cases hb : createHead b with
  | other => rw [hb] at this; simp [CreateHead.mapT] at this
  | view o' t' r' =>
    rw [hb] at this
    simp only [CreateHead.mapT, CreateHead.view.injEq] at this
    exact ⟨o', t', r', rfl, this.1, this.2.1, this.2.2.symm⟩
  | index t ik r => rw [hb] at this; simp [CreateHead.mapT] at this

theorem createHead_sim_index {a b : List Tok} (hs : a.map qc = b.map qc) {t ik r : List Tok} (h : createHead a = .index t ik r) :
    ∃ t' ik' r', createHead b = .index t' ik' r' ∧ t'.map qc = t.map qc ∧ ik'.map qc = ik.map qc ∧ r.map qc = r'.map qc := by
  have := createHead_sim hs
  rw [h] at this
  cases hb : createHead b with
  | other => rw [hb] at this; simp [CreateHead.mapT] at this
  | view o' t' r' => rw [hb] at this; simp [CreateHead.mapT] at this
  | index t' ik' r' =>
    rw [hb] at this
    simp only [CreateHead.mapT, CreateHead.index.injEq] at this
    exact ⟨t', ik', r', rfl, this.1, this.2.1, this.2.2.symm⟩

theorem dropHead_sim {a b : List Tok} (hs : a.map qc = b.map qc) :
    (dropHead b).map (mp qc) = (dropHead a).map (mp qc) := by
  rw [← dropHead_qc, ← dropHead_qc, hs]

theorem dropHead_sim_none {a b : List Tok} (hs : a.map qc = b.map qc) (h : dropHead a = none) : dropHead b = none := by
  have := dropHead_sim hs
  rw [h] at this
  simpa using this

theorem dropHead_sim_some {a b : List Tok} (hs : a.map qc = b.map qc) {kind : Tok} {r : List Tok}
    (h : dropHead a = some (kind, r)) :
    ∃ kind' r', dropHead b = some (kind', r') ∧ qc kind' = qc kind ∧ r.map qc = r'.map qc := by
  have := dropHead_sim hs
  rw [h] at this
  cases hb : dropHead b with
  | none => rw [hb] at this; simp at this
  | some p =>
    rw [hb] at this
    simp [mp] at this
    exact ⟨p.1, p.2, rfl, this.1, this.2.symm⟩

-- ------------------------------------------------------------------ the dispatcher
theorem mapRes_simD {α : Type} {M : α → α} {g : α → Stmt} {y : Res α} {v : α} {r : List Tok}
    (hg : ∀ v v', M v' = M v → (g v').mapT qc = (g v).mapT qc)
    (h : ∃ v' r', y = .ok (v', r') ∧ M v' = M v ∧ r'.map qc = r.map qc) :
    ∃ s' r', mapRes g y = .ok (s', r') ∧ s'.mapT qc = (g v).mapT qc ∧ r'.map qc = r.map qc := by
  obtain ⟨v', r', hy, e, s⟩ := h
  exact ⟨g v', r', by rw [hy]; rfl, hg _ _ e, s⟩

/-- **the statement parser of the second fragment takes the same branches on two token lists with the
same image**, given that the column types are keyword types (view columns carry none) and — for an
`UPDATE` of the first fragment — that `=` is `=` in both lists -/
theorem parseStmt_sim2 (c : XCfg) (f limit : Nat) {a b : List Tok} (hs : a.map qc = b.map qc) {s : Stmt} {r : List Tok}
    (h : parseStmt c f limit a = .ok (s, r)) (hl : s.typesLeaf = true)
    (he : ∀ s0, s = .dml s0 → s0.isUpdate = true → eqOk a b = true) :
    ∃ s' r', parseStmt c f limit b = .ok (s', r') ∧ s'.mapT qc = s.mapT qc ∧ r'.map qc = r.map qc := by
  unfold parseStmt at h ⊢
  cases limit with
  | zero => simp at h
  | succ d =>
    simp only at h ⊢
    cases a with
    | nil => simp at h
    | cons t ra =>
      cases b with
      | nil => simp at hs
      | cons t' rb =>
        have hfull := hs
        simp only [List.map_cons, List.cons.injEq] at hs
        obtain ⟨ht, hr⟩ := hs
        have hdml : ∀ {s : Stmt} {r : List Tok}, mapRes Stmt.dml (SqlVerif.Dml.parseStmt c.d f (d + 1) (t :: ra)) = .ok (s, r) →
            s.typesLeaf = true → (∀ s0, s = .dml s0 → s0.isUpdate = true → eqOk (t :: ra) (t' :: rb) = true) →
            ∃ s' r', mapRes Stmt.dml (SqlVerif.Dml.parseStmt c.d f (d + 1) (t' :: rb)) = .ok (s', r') ∧
              s'.mapT qc = s.mapT qc ∧ r'.map qc = r.map qc := by
          intro s r h hl he
          obtain ⟨s0, hs0, rfl⟩ := mapRes_ok h
          exact mapRes_simD (M := SqlVerif.Dml.Stmt.mapT qc) (g := Stmt.dml) (fun v v' e => by simp [Stmt.mapT, e])
            (SqlVerif.Dml.parseStmt_sim2 c.d f (d + 1) hfull hs0 hl (he s0 rfl))
        simp only [sim_isKw ht.symm] at h ⊢
        split at h
        · rename_i hk
          rw [if_pos hk]
          cases hc : createHead ra with
          | view o tm r1 =>
            rw [hc] at h
            obtain ⟨o', tm', r1', hc', eo, etm, sr⟩ := createHead_sim_view hr hc
            rw [hc']
            simp only at h ⊢
            obtain ⟨v, hv, rfl⟩ := mapRes_ok h
            exact mapRes_simD (M := CreateView.mapT qc) (g := Stmt.createView) (fun v v' e => by simp [Stmt.mapT, e])
              (parseCreateView_sim2 c f d ht.symm eo etm sr hv hl)
          | index tm ik r1 =>
            rw [hc] at h
            obtain ⟨tm', ik', r1', hc', etm, eik, sr⟩ := createHead_sim_index hr hc
            rw [hc']
            simp only at h ⊢
            obtain ⟨v, hv, rfl⟩ := mapRes_ok h
            have h1 := parseCreateIndex_qc c f d t tm ik r1
            have h2 := parseCreateIndex_qc c f d t' tm' ik' r1'
            rw [← ht, etm, eik, ← sr] at h2
            exact mapRes_simD (M := CreateIndex.mapT qc) (g := Stmt.createIndex) (fun v v' e => by simp [Stmt.mapT, e])
              (Rel2.two' h1 h2 hv)
          | other =>
            rw [hc] at h
            rw [createHead_sim_other hr hc]
            exact hdml h hl he
        rename_i hk
        rw [if_neg hk]
        split at h
        · rename_i hk
          rw [if_pos hk]
          obtain ⟨v, hv, rfl⟩ := mapRes_ok h
          exact mapRes_simD (M := AlterTable.mapT qc) (g := Stmt.alterTable) (fun v v' e => by simp [Stmt.mapT, e])
            (parseAlter_sim2 c f d ht.symm hr hv hl)
        rename_i hk
        rw [if_neg hk]
        split at h
        · rename_i hk
          rw [if_pos hk]
          obtain ⟨v, hv, rfl⟩ := mapRes_ok h
          exact mapRes_simD (M := Truncate.mapT qc) (g := Stmt.truncate) (fun v v' e => by simp [Stmt.mapT, e])
            (sim_of_rel2_kw hr (parseTruncate_qc c f) ht.symm hv)
        rename_i hk
        rw [if_neg hk]
        split at h
        · rename_i hk
          rw [if_pos hk]
          cases hd : dropHead ra with
          | some p =>
            obtain ⟨kind, r1⟩ := p
            rw [hd] at h
            obtain ⟨kind', r1', hd', ekind, sr⟩ := dropHead_sim_some hr hd
            rw [hd']
            simp only at h ⊢
            obtain ⟨v, hv, rfl⟩ := mapRes_ok h
            have h1 := parseDropObj_qc c f t kind r1
            have h2 := parseDropObj_qc c f t' kind' r1'
            rw [← ht, ekind, ← sr] at h2
            exact mapRes_simD (M := Drop.mapT qc) (g := Stmt.dropObj) (fun v v' e => by simp [Stmt.mapT, e])
              (Rel2.two' h1 h2 hv)
          | none =>
            rw [hd] at h
            rw [dropHead_sim_none hr hd]
            exact hdml h hl he
        rename_i hk
        rw [if_neg hk]
        exact hdml h hl he

-- ------------------------------------------------------------------ non-vacuity
section Examples
private def exCfg : XCfg := XCfg.ofRow dialect_generic
private def exW (s : String) : Tok := .word (str s) none none
private def exK (spelling table : String) : Tok := .word (str spelling) none (some (kwIndex table))
/-- `ALTER TABLE t ADD a INT, DROP COLUMN b` -/
private def exA : List Tok :=
  [exK "ALTER" "ALTER", exK "TABLE" "TABLE", exW "t", exK "ADD" "ADD", exW "a", exK "INT" "INT", .sym .Comma,
   exK "DROP" "DROP", exK "COLUMN" "COLUMN", exW "b"]
/-- `alter table t add a int, drop column b` -/
private def exB : List Tok :=
  [exK "alter" "ALTER", exK "table" "TABLE", exW "t", exK "add" "ADD", exW "a", exK "int" "INT", .sym .Comma,
   exK "drop" "DROP", exK "column" "COLUMN", exW "b"]

/-- the hypotheses of `parseStmt_sim2` hold on two different token lists (an `ALTER TABLE` with a column type) -/
example : (exA.map qc == exB.map qc && exA != exB &&
    (match parseStmt exCfg 100 50 exA with
     | .ok (.alterTable t, []) => (Stmt.alterTable t).typesLeaf && t.ops.length == 2
     | _ => false)) = true := by decide +kernel
end Examples

end SqlVerif.Ddl

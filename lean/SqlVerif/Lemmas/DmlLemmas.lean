import SqlVerif.Model.DmlPrint
import SqlVerif.Lemmas.QueryLemmas
/-!
Token yield of the statement model (`Model/Dml.lean`): every parser function consumes exactly the
tokens its tree keeps (`flatten`), on top of `query_yield_all` / `yield_all` of the layers below.
-/
namespace SqlVerif.Dml
open SqlVerif.Pratt SqlVerif.Query SqlVerif.Gen

-- ------------------------------------------------------------------ flatten
def Row.flatten (r : Row) : List Tok := r.rowKw ++ r.lp :: sepFlat Expr.flatten r.exprs ++ [r.rp]

def ValuesQ.flatten (v : ValuesQ) : List Tok := v.kw :: sepFlat Row.flatten v.rows ++ v.tail.flatten

def Source.flatten : Source → List Tok
  | .query q => q.flatten
  | .values v => v.flatten

def ParenIds.flatten (p : ParenIds) : List Tok := p.lp ++ sepFlat (fun t => [t]) p.ids ++ p.rp

def InsSource.flatten : InsSource → List Tok
  | .defaultValues toks => toks
  | .source s => s.flatten

def Insert.flatten (i : Insert) : List Tok :=
  i.kw :: i.into ++ i.tableKw ++ i.name ++ i.cols.flatten ++ i.src.flatten ++ i.retKw ++ sepFlat SelectItem.flatten i.returning

def AssignTarget.flatten : AssignTarget → List Tok
  | .col name => name
  | .tuple lp names rp => lp :: sepFlat (fun n => n) names ++ [rp]

def Assign.flatten (a : Assign) : List Tok := a.target.flatten ++ a.eq :: a.value.flatten

def Update.flatten (u : Update) : List Tok :=
  u.table.flatten ++ u.setKw :: sepFlat Assign.flatten u.assigns ++ u.fromKw ++ u.frm.flatten ++ u.whereKw ++
    optFlat u.selection ++ u.retKw ++ sepFlat SelectItem.flatten u.returning

def Delete.flatten (d : Delete) : List Tok :=
  d.kw :: sepFlat (fun n => n) d.tables ++ d.frm.flatten ++ d.usng.flatten ++ d.whereKw ++ optFlat d.selection ++
    d.retKw ++ sepFlat SelectItem.flatten d.returning ++ d.orderKw ++ sepFlat OrderByExpr.flatten d.order ++
    d.limitKw ++ optFlat d.limit

def ColOpt.flatten : ColOpt → List Tok
  | .null t => [t]
  | .notNull toks => toks
  | .default kw e => kw :: e.flatten
  | .primaryKey toks => toks
  | .unique t => [t]
  | .check kw lp e rp => kw :: lp :: e.flatten ++ [rp]
  | .comment kw s => [kw, s]
  | .dialect t => [t]
  | .references kw name cols => kw :: name ++ cols.flatten

def optsFlat : List ColOpt → List Tok
  | [] => []
  | o :: rest => o.flatten ++ optsFlat rest

def ColDef.flatten (cd : ColDef) : List Tok := cd.name :: cd.tyToks ++ optsFlat cd.opts ++ cd.dropped

def CreateTable.flatten (ct : CreateTable) : List Tok :=
  ct.kw :: ct.temp ++ ct.tableKw :: ct.ifne ++ ct.name ++ ct.lp ++ sepFlat ColDef.flatten ct.cols ++ ct.rp

def Drop.flatten (d : Drop) : List Tok :=
  d.kw :: d.tableKw :: d.ifExists ++ sepFlat (fun n => n) d.names ++ d.cascade ++ d.restrict ++ d.purge

def Stmt.flatten : Stmt → List Tok
  | .query s => s.flatten
  | .insert i => i.flatten
  | .update u => u.flatten
  | .delete d => d.flatten
  | .createTable ct => ct.flatten
  | .drop d => d.flatten

-- ------------------------------------------------------------------ small helpers
theorem eatSym_some {ts : List Tok} {s : Sym} {t : Tok} {r : List Tok} (h : eatSym ts s = some (t, r)) :
    ts = t :: r ∧ t = .sym s := by
  unfold eatSym at h
  split at h
  · split at h
    · rename_i hs
      simp at h; obtain ⟨rfl, rfl⟩ := h
      refine ⟨rfl, ?_⟩
      unfold Tok.isSym at hs
      split at hs
      · simp at hs; subst hs; rfl
      · simp at hs
    · simp at h
  · simp at h

theorem kwTail_yield (k : Nat) (ts : List Tok) : ts = (kwTail k ts).1 ++ (kwTail k ts).2 := by
  unfold kwTail
  split
  · rename_i t r hk; simp [((eatKw_some_iff _ _ _ _).1 hk).1]
  · simp

theorem kwsTail_yield (ks : List Nat) (ts : List Tok) : ts = (kwsTail ks ts).1 ++ (kwsTail ks ts).2 := by
  unfold kwsTail
  split
  · rename_i p hk; exact eatKws_yield _ _ _ _ hk
  · simp

theorem nameElem_yield (ts name rest : List Tok) (h : nameElem ts = .ok (name, rest)) : ts = name ++ rest := by
  have := objectName_yield [] ts name rest h
  simpa using this

theorem tempTail_yield (ts : List Tok) : ts = (tempTail ts).1 ++ (tempTail ts).2 := by
  unfold tempTail
  split
  · rename_i t r hk; simp [((eatKw_some_iff _ _ _ _).1 hk).1]
  · exact kwTail_yield _ _

-- ------------------------------------------------------------------ VALUES, sources
theorem rowBody_yield (c : DCfg) (f d : Nat) (rk ts : List Tok) (row : Row) (rest : List Tok)
    (h : rowBody c f d rk ts = .ok (row, rest)) : rk ++ ts = row.flatten ++ rest := by
  unfold rowBody at h
  split at h
  · simp at h
  · rename_i lp r hl
    obtain ⟨rfl, -⟩ := eatSym_some hl
    split at h
    · rename_i rp r' he
      split at he
      · obtain ⟨rfl, -⟩ := eatSym_some he
        simp at h; obtain ⟨rfl, rfl⟩ := h
        simp [Row.flatten, sepFlat]
      · simp at he
    · split at h
      · simp at h
      · rename_i es r1 hes
        have h1 := commaSepE_yield _ _ Expr.flatten (parseE_yield c.q f d) _ _ _ _ hes
        split at h
        · rename_i rp r2 hr
          obtain ⟨rfl, -⟩ := eatSym_some hr
          simp at h; obtain ⟨rfl, rfl⟩ := h
          simp [Row.flatten, h1]
        · simp at h

theorem valuesRow_yield (c : DCfg) (f d : Nat) (ts : List Tok) (row : Row) (rest : List Tok)
    (h : valuesRow c f d ts = .ok (row, rest)) : ts = row.flatten ++ rest := by
  unfold valuesRow at h
  have := rowBody_yield _ _ _ _ _ _ _ h
  rw [← kwTail_yield] at this
  exact this

theorem valuesQuery_yield (c : DCfg) (f d : Nat) (kw : Tok) (ts : List Tok) (v : ValuesQ) (rest : List Tok)
    (h : valuesQuery c f d kw ts = .ok (v, rest)) : kw :: ts = v.flatten ++ rest := by
  unfold valuesQuery at h
  split at h
  · simp at h
  · rename_i d'
    split at h
    · simp at h
    · rename_i rows r1 hr
      have h1 := commaSepE_yield _ _ Row.flatten (valuesRow_yield c f d') _ _ _ _ hr
      split at h
      · simp at h
      · split at h
        · simp at h
        · rename_i qt r2 hq
          have h2 := queryTail_yield _ _ _ _ _ _ hq
          simp at h; obtain ⟨rfl, rfl⟩ := h
          simp [ValuesQ.flatten, h1, h2]

theorem parseSource_yield (c : DCfg) (f d : Nat) (ts : List Tok) (s : Source) (rest : List Tok)
    (h : parseSource c f d ts = .ok (s, rest)) : ts = s.flatten ++ rest := by
  unfold parseSource at h
  split at h
  · rename_i kw r hk
    obtain ⟨rfl, -⟩ := (eatKw_some_iff _ _ _ _).1 hk
    split at h
    · simp at h
    · rename_i v r' hv
      have := valuesQuery_yield _ _ _ _ _ _ _ hv
      simp at h; obtain ⟨rfl, rfl⟩ := h
      simpa [Source.flatten] using this
  · split at h
    · simp at h
    · rename_i q r' hq
      have := (query_yield_all c.q f).1 _ _ _ _ hq
      simp at h; obtain ⟨rfl, rfl⟩ := h
      simpa [Source.flatten] using this

-- ------------------------------------------------------------------ shared clauses
theorem parenIds_yield (c : DCfg) (f : Nat) (ae : Bool) (ts : List Tok) (p : ParenIds) (rest : List Tok)
    (h : parenIds c f ae ts = .ok (p, rest)) : ts = p.flatten ++ rest := by
  unfold parenIds at h
  split at h
  · simp at h; obtain ⟨rfl, rfl⟩ := h; simp [ParenIds.flatten, ParenIds.none, sepFlat]
  · rename_i lp r hl
    obtain ⟨rfl, -⟩ := eatSym_some hl
    split at h
    · rename_i rp r' he
      split at he
      · obtain ⟨rfl, -⟩ := eatSym_some he
        simp at h; obtain ⟨rfl, rfl⟩ := h
        simp [ParenIds.flatten, sepFlat]
      · simp at he
    · split at h
      · simp at h
      · rename_i ids r1 hi
        have h1 := commaSepE_yield _ _ (fun t => [t]) identElem_yield _ _ _ _ hi
        split at h
        · rename_i rp r2 hr
          obtain ⟨rfl, -⟩ := eatSym_some hr
          simp at h; obtain ⟨rfl, rfl⟩ := h
          simp [ParenIds.flatten, h1]
        · simp at h

theorem retPart_yield (c : DCfg) (f d : Nat) (ts : List Tok) (ret : List Tok × Sep SelectItem) (rest : List Tok)
    (h : retPart c f d ts = .ok (ret, rest)) : ts = ret.1 ++ sepFlat SelectItem.flatten ret.2 ++ rest := by
  unfold retPart at h
  split at h
  · rename_i kw r hk
    obtain ⟨rfl, -⟩ := (eatKw_some_iff _ _ _ _).1 hk
    split at h
    · simp at h
    · rename_i items r' hi
      have h1 := commaSepE_yield _ _ SelectItem.flatten (selectItem_yield c.q f d) _ _ _ _ hi
      simp at h; obtain ⟨rfl, rfl⟩ := h
      simp [h1]
  · simp at h; obtain ⟨rfl, rfl⟩ := h; simp [sepFlat]

-- ------------------------------------------------------------------ INSERT
theorem insertBody_yield (c : DCfg) (f d : Nat) (ts : List Tok) (cs : ParenIds × InsSource) (rest : List Tok)
    (h : insertBody c f d ts = .ok (cs, rest)) : ts = cs.1.flatten ++ cs.2.flatten ++ rest := by
  unfold insertBody at h
  split at h
  · rename_i toks r hk
    have := eatKws_yield _ _ _ _ hk
    simp at h; obtain ⟨rfl, rfl⟩ := h
    simp [ParenIds.flatten, ParenIds.none, sepFlat, InsSource.flatten, this]
  · split at h
    · simp at h
    · rename_i cols r1 hc
      have h1 := parenIds_yield _ _ _ _ _ _ hc
      split at h
      · simp at h
      · split at h
        · simp at h
        · split at h
          · simp at h
          · rename_i s r2 hs
            have h2 := parseSource_yield _ _ _ _ _ _ hs
            simp at h; obtain ⟨rfl, rfl⟩ := h
            simp [InsSource.flatten, h1, h2]

theorem parseInsert_yield (c : DCfg) (f d : Nat) (kw : Tok) (ts : List Tok) (i : Insert) (rest : List Tok)
    (h : parseInsert c f d kw ts = .ok (i, rest)) : kw :: ts = i.flatten ++ rest := by
  unfold parseInsert at h
  split at h
  · simp at h
  · split at h
    · simp at h
    · split at h
      · simp at h
      · rename_i name r1 hn
        have h0 := kwTail_yield DK.INTO ts
        have h0' := kwTail_yield DK.TABLE (kwTail DK.INTO ts).2
        have h1 := nameElem_yield _ _ _ hn
        split at h
        · simp at h
        · split at h
          · simp at h
          · split at h
            · simp at h
            · rename_i cs r2 hb
              have h2 := insertBody_yield _ _ _ _ _ _ hb
              split at h
              · simp at h
              · split at h
                · simp at h
                · rename_i ret r3 hr
                  have h3 := retPart_yield _ _ _ _ _ _ hr
                  simp at h; obtain ⟨rfl, rfl⟩ := h
                  simp only [Insert.flatten]
                  generalize kwTail DK.INTO ts = A at *
                  obtain ⟨a1, a2⟩ := A
                  generalize kwTail DK.TABLE a2 = B at *
                  obtain ⟨b1, b2⟩ := B
                  simp only at h0 h0' h1 ⊢
                  subst h0 h0' h1 h2 h3
                  simp

-- ------------------------------------------------------------------ UPDATE
def Factor.toks : Factor → List Tok
  | .table name al => name ++ al
  | .derived lp body qt rp al => lp :: body.flatten ++ qt.flatten ++ [rp] ++ al

theorem Factor.node_flatten (fac : Factor) (conn : Conn) (k : JoinCstr) (rest : QNode) :
    (fac.node conn k rest).flatten = conn.toks ++ fac.toks ++ k.flatten ++ rest.flatten := by
  cases fac <;> simp [Factor.node, QNode.flatten, Factor.toks]

theorem factorPart_yield (c : QCfg) (f d : Nat) (ts : List Tok) (fac : Factor) (rest : List Tok)
    (h : factorPart c f d ts = .ok (fac, rest)) : ts = fac.toks ++ rest := by
  unfold factorPart at h
  split at h
  · simp at h
  · split at h
    · simp at h
    · rename_i name al r hf
      have := factorHead_yield _ _ _ hf
      simp at h; obtain ⟨rfl, rfl⟩ := h
      simpa [FactorHead.Yield, Factor.toks] using this
    · rename_i lp r hf
      have h0 := factorHead_yield _ _ _ hf
      simp only [FactorHead.Yield] at h0
      split at h
      · simp at h
      · simp at h
      · simp at h
      · rename_i q r1 hq
        have h1 := (query_yield_all c f).1 _ _ _ _ hq
        split at h
        · simp at h
        · rename_i rp r2 hr
          obtain ⟨rfl, -⟩ := eatSym_some hr
          split at h
          · simp at h
          · rename_i al r3 ha
            have h2 := optTableAlias_yield _ _ _ ha
            split at h
            · simp at h
            · simp at h; obtain ⟨rfl, rfl⟩ := h
              simp [Factor.toks, h0, h1, h2, Query.flatten]

theorem twj_yield (c : QCfg) : ∀ (f d : Nat) (conn : Conn) (ts : List Tok) (n : QNode) (rest : List Tok),
    twj c f d conn ts = .ok (n, rest) → conn.toks ++ ts = n.flatten ++ rest := by
  intro f
  induction f with
  | zero => intro d conn ts n rest h; simp [twj] at h
  | succ f ih =>
    intro d conn ts n rest h
    simp only [twj] at h
    split at h
    · simp at h
    · rename_i fac r hf
      have h1 := factorPart_yield _ _ _ _ _ _ hf
      split at h
      · simp at h
      · rename_i k ts1 hc
        have h2 := optCstr_yield _ _ _ _ _ _ _ hc
        split at h
        · simp at h
        · simp at h; obtain ⟨rfl, rfl⟩ := h
          simp [Factor.node_flatten, QNode.flatten, h1, h2]
        · rename_i jk toks r2 hj
          have h3 := joinHead_yield _ _ _ _ hj
          split at h
          · simp at h
          · rename_i rs ts2 hr
            have h4 := ih _ _ _ _ _ hr
            simp at h; obtain ⟨rfl, rfl⟩ := h
            simp only [Conn.toks] at h4
            simp [Factor.node_flatten, h1, h2, h3, ← h4]

theorem commaSepE_names_yield (tc : Bool) (n : Nat) (ts : List Tok) (vs : Sep (List Tok)) (rest : List Tok)
    (h : commaSepE tc nameElem n ts = .ok (vs, rest)) : ts = sepFlat (fun n => n) vs ++ rest :=
  commaSepE_yield _ _ (fun n => n) nameElem_yield _ _ _ _ h

theorem assignTarget_yield (c : DCfg) (f : Nat) (ts : List Tok) (tg : AssignTarget) (rest : List Tok)
    (h : assignTarget c f ts = .ok (tg, rest)) : ts = tg.flatten ++ rest := by
  unfold assignTarget at h
  split at h
  · rename_i lp r hl
    obtain ⟨rfl, -⟩ := eatSym_some hl
    split at h
    · simp at h
    · rename_i names r1 hn
      have h1 := commaSepE_names_yield _ _ _ _ _ hn
      split at h
      · simp at h
      · rename_i rp r2 hr
        obtain ⟨rfl, -⟩ := eatSym_some hr
        split at h
        · simp at h
        · simp at h; obtain ⟨rfl, rfl⟩ := h
          simp [AssignTarget.flatten, h1]
  · split at h
    · simp at h
    · rename_i name r hn
      have h1 := nameElem_yield _ _ _ hn
      split at h
      · simp at h
      · simp at h; obtain ⟨rfl, rfl⟩ := h
        simpa [AssignTarget.flatten] using h1

theorem assignment_yield (c : DCfg) (f d : Nat) (ts : List Tok) (a : Assign) (rest : List Tok)
    (h : assignment c f d ts = .ok (a, rest)) : ts = a.flatten ++ rest := by
  unfold assignment at h
  split at h
  · simp at h
  · rename_i tg r ht
    have h1 := assignTarget_yield _ _ _ _ _ ht
    split at h
    · simp at h
    · rename_i eq r1 he
      obtain ⟨rfl, -⟩ := eatSym_some he
      split at h
      · simp at h
      · rename_i e r2 hp
        have h2 := parseE_yield _ _ _ _ _ _ hp
        simp at h; obtain ⟨rfl, rfl⟩ := h
        simp [Assign.flatten, h1, h2]

theorem updateFromPart_yield (c : DCfg) (f d : Nat) (ts : List Tok) (fr : List Tok × QNode) (rest : List Tok)
    (h : updateFromPart c f d ts = .ok (fr, rest)) : ts = fr.1 ++ fr.2.flatten ++ rest := by
  unfold updateFromPart at h
  split at h
  · simp at h; obtain ⟨rfl, rfl⟩ := h; simp [QNode.flatten]
  · rename_i kw r hk
    obtain ⟨rfl, -⟩ := (eatKw_some_iff _ _ _ _).1 hk
    split at h
    · split at h
      · simp at h
      · rename_i n r' ht
        have := twj_yield _ _ _ _ _ _ _ ht
        simp at h; obtain ⟨rfl, rfl⟩ := h
        simpa [Conn.toks] using this
    · simp at h; obtain ⟨rfl, rfl⟩ := h; simp [QNode.flatten]

theorem parseUpdate_yield (c : DCfg) (f d : Nat) (kw : Tok) (ts : List Tok) (u : Update) (rest : List Tok)
    (h : parseUpdate c f d kw ts = .ok (u, rest)) : kw :: ts = u.flatten ++ rest := by
  unfold parseUpdate at h
  split at h
  · simp at h
  · rename_i tbl r1 ht
    have h1 := twj_yield _ _ _ _ _ _ _ ht
    simp only [Conn.toks] at h1
    split at h
    · simp at h
    · rename_i setKw r2 hs
      obtain ⟨rfl, -⟩ := (eatKw_some_iff _ _ _ _).1 hs
      split at h
      · simp at h
      · rename_i as r3 ha
        have h2 := commaSepE_yield _ _ Assign.flatten (assignment_yield c f d) _ _ _ _ ha
        split at h
        · simp at h
        · rename_i fr r4 hfr
          have h3 := updateFromPart_yield _ _ _ _ _ _ hfr
          split at h
          · simp at h
          · rename_i w r5 hw
            have h4 := kwExprPart_yield _ _ _ _ _ _ _ hw
            split at h
            · simp at h
            · rename_i ret r6 hr
              have h5 := retPart_yield _ _ _ _ _ _ hr
              simp at h; obtain ⟨rfl, rfl⟩ := h
              simp only [Update.flatten]
              simp at h1
              rw [h1, h2, h3, h4, h5]
              simp

-- ------------------------------------------------------------------ DELETE
theorem deleteHead_yield (c : DCfg) (f : Nat) (ts : List Tok) (hd : Sep (List Tok) × Tok) (rest : List Tok)
    (h : deleteHead c f ts = .ok (hd, rest)) : ts = sepFlat (fun n => n) hd.1 ++ hd.2 :: rest := by
  unfold deleteHead at h
  split at h
  · rename_i fk r hk
    obtain ⟨rfl, -⟩ := (eatKw_some_iff _ _ _ _).1 hk
    simp at h; obtain ⟨rfl, rfl⟩ := h; simp [sepFlat]
  · split at h
    · simp at h
    · split at h
      · simp at h
      · rename_i names r1 hn
        have h1 := commaSepE_names_yield _ _ _ _ _ hn
        split at h
        · simp at h
        · rename_i fk r2 hk
          obtain ⟨rfl, -⟩ := (eatKw_some_iff _ _ _ _).1 hk
          split at h
          · simp at h
          · simp at h; obtain ⟨rfl, rfl⟩ := h
            simpa using h1

theorem usingPart_yield (c : DCfg) (f d : Nat) (ts : List Tok) (n : QNode) (rest : List Tok)
    (h : usingPart c f d ts = .ok (n, rest)) : ts = n.flatten ++ rest := by
  unfold usingPart at h
  split at h
  · rename_i kw r hk
    obtain ⟨rfl, -⟩ := (eatKw_some_iff _ _ _ _).1 hk
    have := (query_yield_all c.q f).2.2.2.2.1 _ _ _ _ _ h
    simpa [Conn.toks] using this
  · simp at h; obtain ⟨rfl, rfl⟩ := h; simp [QNode.flatten]

theorem deleteOrderPart_yield (c : DCfg) (f d : Nat) (ts : List Tok) (ob : List Tok × Sep OrderByExpr) (rest : List Tok)
    (h : deleteOrderPart c f d ts = .ok (ob, rest)) : ts = ob.1 ++ sepFlat OrderByExpr.flatten ob.2 ++ rest := by
  unfold deleteOrderPart at h
  split at h
  · rename_i kws r hk
    have h0 := eatKws_yield _ _ _ _ hk
    split at h
    · simp at h
    · rename_i os r' ho
      have h1 := commaSepE_yield _ _ OrderByExpr.flatten (orderByElem_yield c.q f d) _ _ _ _ ho
      simp at h; obtain ⟨rfl, rfl⟩ := h
      simp [h0, h1]
  · simp at h; obtain ⟨rfl, rfl⟩ := h; simp [sepFlat]

theorem deleteLimitPart_yield (c : DCfg) (f d : Nat) (ts : List Tok) (lim : List Tok × Option Expr) (rest : List Tok)
    (h : deleteLimitPart c f d ts = .ok (lim, rest)) : ts = lim.1 ++ optFlat lim.2 ++ rest := by
  unfold deleteLimitPart at h
  split at h
  · rename_i kw r hk
    obtain ⟨rfl, -⟩ := (eatKw_some_iff _ _ _ _).1 hk
    split at h
    · rename_i a r' ha
      obtain ⟨rfl, -⟩ := (eatKw_some_iff _ _ _ _).1 ha
      simp at h; obtain ⟨rfl, rfl⟩ := h; simp [optFlat]
    · split at h
      · simp at h
      · rename_i e r' he
        have := parseE_yield _ _ _ _ _ _ he
        simp at h; obtain ⟨rfl, rfl⟩ := h
        simp [optFlat, this]
  · simp at h; obtain ⟨rfl, rfl⟩ := h; simp [optFlat]

theorem parseDelete_yield (c : DCfg) (f d : Nat) (kw : Tok) (ts : List Tok) (dl : Delete) (rest : List Tok)
    (h : parseDelete c f d kw ts = .ok (dl, rest)) : kw :: ts = dl.flatten ++ rest := by
  unfold parseDelete at h
  split at h
  · simp at h
  · rename_i hd r1 hh
    have h1 := deleteHead_yield _ _ _ _ _ hh
    split at h
    · simp at h
    · rename_i frm r2 hf
      have h2 := (query_yield_all c.q f).2.2.2.2.1 _ _ _ _ _ hf
      simp only [Conn.toks] at h2
      split at h
      · simp at h
      · rename_i us r3 hu
        have h3 := usingPart_yield _ _ _ _ _ _ hu
        split at h
        · simp at h
        · rename_i w r4 hw
          have h4 := kwExprPart_yield _ _ _ _ _ _ _ hw
          split at h
          · simp at h
          · rename_i ret r5 hr
            have h5 := retPart_yield _ _ _ _ _ _ hr
            split at h
            · simp at h
            · rename_i ob r6 ho
              have h6 := deleteOrderPart_yield _ _ _ _ _ _ ho
              split at h
              · simp at h
              · rename_i lim r7 hl
                have h7 := deleteLimitPart_yield _ _ _ _ _ _ hl
                simp at h; obtain ⟨rfl, rfl⟩ := h
                simp only [Delete.flatten]
                simp at h2
                rw [h1]
                simp only [List.append_assoc, List.cons_append]
                rw [h2, h3, h4, h5, h6, h7]
                simp

-- ------------------------------------------------------------------ CREATE TABLE
theorem colType_yield (c : DCfg) (f d : Nat) (ts : List Tok) (ty : SqlVerif.DTy.DT × List Tok) (rest : List Tok)
    (h : colType c f d ts = .ok (ty, rest)) : ts = ty.2 ++ rest := by
  unfold colType at h
  split at h
  · simp at h
  · split at h
    · simp at h
    · simp at h; obtain ⟨rfl, rfl⟩ := h
      simp

theorem colTypePart_yield (c : DCfg) (f d : Nat) (ts : List Tok) (ty : SqlVerif.DTy.DT × List Tok) (rest : List Tok)
    (h : colTypePart c f d ts = .ok (ty, rest)) : ts = ty.2 ++ rest := by
  unfold colTypePart at h
  split at h
  · simp at h; obtain ⟨rfl, rfl⟩ := h; simp
  · exact colType_yield _ _ _ _ _ _ h

/-- what an option attempt consumed -/
def OptRes.toks : OptRes → List Tok
  | .opt o => o.flatten
  | .none dr => dr

theorem dialectOpt_yield (ok : Bool) (t : Tok) (r : List Tok) (o : OptRes) (rest : List Tok)
    (h : dialectOpt ok t r = .ok (o, rest)) : t :: r = o.toks ++ rest := by
  unfold dialectOpt at h
  split at h
  · simp at h; obtain ⟨rfl, rfl⟩ := h; simp [OptRes.toks, ColOpt.flatten]
  · split at h
    · simp at h
    · simp at h; obtain ⟨rfl, rfl⟩ := h; simp [OptRes.toks]

theorem colOptionTail_yield (c : DCfg) (ts : List Tok) (o : OptRes) (rest : List Tok)
    (h : colOptionTail c ts = .ok (o, rest)) : ts = o.toks ++ rest := by
  unfold colOptionTail at h
  split at h
  · rename_i t r hk
    obtain ⟨rfl, -⟩ := (eatKw_some_iff _ _ _ _).1 hk
    exact dialectOpt_yield _ _ _ _ _ h
  · split at h
    · rename_i t r hk
      obtain ⟨rfl, -⟩ := (eatKw_some_iff _ _ _ _).1 hk
      exact dialectOpt_yield _ _ _ _ _ h
    · split at h
      · rename_i t r hk
        obtain ⟨rfl, -⟩ := (eatKw_some_iff _ _ _ _).1 hk
        exact dialectOpt_yield _ _ _ _ _ h
      · split at h
        · rename_i t r hk
          obtain ⟨rfl, -⟩ := (eatKw_some_iff _ _ _ _).1 hk
          exact dialectOpt_yield _ _ _ _ _ h
        · split at h
          · simp at h
          · simp at h; obtain ⟨rfl, rfl⟩ := h; simp [OptRes.toks]

theorem commentTail_yield (kw : Tok) (ts : List Tok) (o : OptRes) (rest : List Tok)
    (h : commentTail kw ts = .ok (o, rest)) : kw :: ts = o.toks ++ rest := by
  unfold commentTail at h
  split at h
  · simp at h; obtain ⟨rfl, rfl⟩ := h; simp [OptRes.toks, ColOpt.flatten]
  · simp at h

theorem checkTail_yield (c : DCfg) (f d : Nat) (kw : Tok) (ts : List Tok) (o : OptRes) (rest : List Tok)
    (h : checkTail c f d kw ts = .ok (o, rest)) : kw :: ts = o.toks ++ rest := by
  unfold checkTail at h
  split at h
  · simp at h
  · rename_i lp r hl
    obtain ⟨rfl, -⟩ := eatSym_some hl
    split at h
    · simp at h
    · rename_i e r1 he
      have h1 := parseE_yield _ _ _ _ _ _ he
      split at h
      · simp at h
      · rename_i rp r2 hr
        obtain ⟨rfl, -⟩ := eatSym_some hr
        simp at h; obtain ⟨rfl, rfl⟩ := h
        simp [OptRes.toks, ColOpt.flatten, h1]

theorem referencesTail_yield (c : DCfg) (f : Nat) (kw : Tok) (ts : List Tok) (o : OptRes) (rest : List Tok)
    (h : referencesTail c f kw ts = .ok (o, rest)) : kw :: ts = o.toks ++ rest := by
  unfold referencesTail at h
  split at h
  · simp at h
  · rename_i name r hn
    have h1 := nameElem_yield _ _ _ hn
    split at h
    · simp at h
    · split at h
      · simp at h
      · rename_i cols r1 hc
        have h2 := parenIds_yield _ _ _ _ _ _ hc
        split at h
        · simp at h
        · simp at h; obtain ⟨rfl, rfl⟩ := h
          simp [OptRes.toks, ColOpt.flatten, h1, h2]

theorem defaultTail_yield (c : DCfg) (f d : Nat) (kw : Tok) (ts : List Tok) (o : OptRes) (rest : List Tok)
    (h : defaultTail c f d kw ts = .ok (o, rest)) : kw :: ts = o.toks ++ rest := by
  unfold defaultTail at h
  split at h
  · simp at h
  · rename_i e r he
    have h1 := parseE_yield _ _ _ _ _ _ he
    simp at h; obtain ⟨rfl, rfl⟩ := h
    simp [OptRes.toks, ColOpt.flatten, h1]

theorem ccTail_yield (o0 : ColOpt) (ts : List Tok) (o : OptRes) (rest : List Tok)
    (h : ccTail o0 ts = .ok (o, rest)) : o = .opt o0 ∧ rest = ts := by
  unfold ccTail at h
  split at h
  · simp at h
  · simp at h; obtain ⟨rfl, rfl⟩ := h; exact ⟨rfl, rfl⟩

theorem colOption_yield (c : DCfg) (f d : Nat) (ts : List Tok) (o : OptRes) (rest : List Tok)
    (h : colOption c f d ts = .ok (o, rest)) : ts = o.toks ++ rest := by
  unfold colOption at h
  split at h
  · simp at h
  · split at h
    · rename_i toks r hk
      have := eatKws_yield _ _ _ _ hk
      simp at h; obtain ⟨rfl, rfl⟩ := h
      simpa [OptRes.toks, ColOpt.flatten] using this
    · split at h
      · rename_i kw r hk
        obtain ⟨rfl, -⟩ := (eatKw_some_iff _ _ _ _).1 hk
        exact commentTail_yield _ _ _ _ h
      · split at h
        · rename_i t r hk
          obtain ⟨rfl, -⟩ := (eatKw_some_iff _ _ _ _).1 hk
          simp at h; obtain ⟨rfl, rfl⟩ := h
          simp [OptRes.toks, ColOpt.flatten]
        · split at h
          · rename_i kw r hk
            obtain ⟨rfl, -⟩ := (eatKw_some_iff _ _ _ _).1 hk
            exact defaultTail_yield _ _ _ _ _ _ _ h
          · split at h
            · simp at h
            · split at h
              · rename_i toks r hk
                have := eatKws_yield _ _ _ _ hk
                obtain ⟨rfl, rfl⟩ := ccTail_yield _ _ _ _ h
                simpa [OptRes.toks, ColOpt.flatten] using this
              · split at h
                · rename_i t r hk
                  obtain ⟨rfl, -⟩ := (eatKw_some_iff _ _ _ _).1 hk
                  obtain ⟨rfl, rfl⟩ := ccTail_yield _ _ _ _ h
                  simp [OptRes.toks, ColOpt.flatten]
                · split at h
                  · rename_i kw r hk
                    obtain ⟨rfl, -⟩ := (eatKw_some_iff _ _ _ _).1 hk
                    exact referencesTail_yield _ _ _ _ _ _ h
                  · split at h
                    · rename_i kw r hk
                      obtain ⟨rfl, -⟩ := (eatKw_some_iff _ _ _ _).1 hk
                      exact checkTail_yield _ _ _ _ _ _ _ h
                    · exact colOptionTail_yield _ _ _ _ h

theorem colOpts_yield (c : DCfg) (f d : Nat) : ∀ (n : Nat) (ts : List Tok) (od : List ColOpt × List Tok) (rest : List Tok),
    colOpts c f d n ts = .ok (od, rest) → ts = optsFlat od.1 ++ od.2 ++ rest := by
  intro n
  induction n with
  | zero => intro ts od rest h; simp [colOpts] at h
  | succ n ih =>
    intro ts od rest h
    simp only [colOpts] at h
    split at h
    · simp at h
    · split at h
      · simp at h
      · rename_i dr r ho
        have h1 := colOption_yield _ _ _ _ _ _ ho
        split at h
        · simp at h
        · simp at h; obtain ⟨rfl, rfl⟩ := h
          simpa [optsFlat, OptRes.toks] using h1
      · rename_i o r ho
        have h1 := colOption_yield _ _ _ _ _ _ ho
        split at h
        · simp at h
        · rename_i od' r' hr
          have h2 := ih _ _ _ hr
          simp at h; obtain ⟨rfl, rfl⟩ := h
          simp only [OptRes.toks] at h1
          simp [optsFlat, h1, h2]

theorem columnDef_yield (c : DCfg) (f d : Nat) (ts : List Tok) (cd : ColDef) (rest : List Tok)
    (h : columnDef c f d ts = .ok (cd, rest)) : ts = cd.flatten ++ rest := by
  unfold columnDef at h
  split at h
  · simp at h
  · rename_i name r hn
    have h1 := identElem_yield _ _ _ hn
    split at h
    · simp at h
    · rename_i ty r1 ht
      have h2 := colTypePart_yield _ _ _ _ _ _ ht
      split at h
      · simp at h
      · split at h
        · simp at h
        · rename_i od r2 ho
          have h3 := colOpts_yield _ _ _ _ _ _ _ ho
          simp at h; obtain ⟨rfl, rfl⟩ := h
          simp [ColDef.flatten, h1, h2, h3]

theorem colEnd_close (tc : Bool) (ts cm : List Tok) (rp : Tok) (r : List Tok) (h : colEnd tc ts = .close cm rp r) :
    ts = cm ++ rp :: r := by
  unfold colEnd at h
  split at h
  · rename_i c1 r1 hc
    obtain ⟨rfl, -⟩ := eatSym_some hc
    split at h
    · rename_i rp' r' he
      split at he
      · obtain ⟨rfl, -⟩ := eatSym_some he
        simp at h; obtain ⟨rfl, rfl, rfl⟩ := h; rfl
      · simp at he
    · simp at h
  · split at h
    · rename_i rp' r' he
      obtain ⟨rfl, -⟩ := eatSym_some he
      simp at h; obtain ⟨rfl, rfl, rfl⟩ := h; rfl
    · simp at h

theorem colEnd_more (tc : Bool) (ts cm r : List Tok) (h : colEnd tc ts = .more cm r) : ts = cm ++ r := by
  unfold colEnd at h
  split at h
  · rename_i c1 r1 hc
    obtain ⟨rfl, -⟩ := eatSym_some hc
    split at h
    · simp at h
    · simp at h; obtain ⟨rfl, rfl⟩ := h; rfl
  · split at h <;> simp at h

theorem colLoop_yield (c : DCfg) (f d : Nat) : ∀ (n : Nat) (ts : List Tok) (cr : Sep ColDef × Tok) (rest : List Tok),
    colLoop c f d n ts = .ok (cr, rest) → ts = sepFlat ColDef.flatten cr.1 ++ cr.2 :: rest := by
  intro n
  induction n with
  | zero => intro ts cr rest h; simp [colLoop] at h
  | succ n ih =>
    intro ts cr rest h
    simp only [colLoop] at h
    split at h
    · simp at h
    · split at h
      · simp at h
      · split at h
        · simp at h
        · rename_i cd r1 hc
          have h1 := columnDef_yield _ _ _ _ _ _ hc
          split at h
          · simp at h
          · rename_i cm rp r2 he
            have h2 := colEnd_close _ _ _ _ _ he
            simp at h; obtain ⟨rfl, rfl⟩ := h
            simp [sepFlat, h1, h2]
          · rename_i cm r2 he
            have h2 := colEnd_more _ _ _ _ he
            split at h
            · simp at h
            · rename_i cr' r3 hr
              have h3 := ih _ _ _ hr
              simp at h; obtain ⟨rfl, rfl⟩ := h
              simp [sepFlat, h1, h2, h3]

theorem parseColumns_yield (c : DCfg) (f d : Nat) (ts : List Tok) (cols : List Tok × Sep ColDef × List Tok) (rest : List Tok)
    (h : parseColumns c f d ts = .ok (cols, rest)) : ts = cols.1 ++ sepFlat ColDef.flatten cols.2.1 ++ cols.2.2 ++ rest := by
  unfold parseColumns at h
  split at h
  · simp at h; obtain ⟨rfl, rfl⟩ := h; simp [sepFlat]
  · rename_i lp r hl
    obtain ⟨rfl, -⟩ := eatSym_some hl
    split at h
    · rename_i rp r' hr
      obtain ⟨rfl, -⟩ := eatSym_some hr
      simp at h; obtain ⟨rfl, rfl⟩ := h; simp [sepFlat]
    · split at h
      · simp at h
      · rename_i cr r' hc
        have := colLoop_yield _ _ _ _ _ _ _ hc
        simp at h; obtain ⟨rfl, rfl⟩ := h
        simp [this]

theorem parseCreate_yield (c : DCfg) (f d : Nat) (kw : Tok) (ts : List Tok) (ct : CreateTable) (rest : List Tok)
    (h : parseCreate c f d kw ts = .ok (ct, rest)) : kw :: ts = ct.flatten ++ rest := by
  unfold parseCreate at h
  split at h
  · simp at h
  · split at h
    · simp at h
    · split at h
      · simp at h
      · split at h
        · split at h <;> simp at h
        · rename_i tk r0 hk
          obtain ⟨h0, -⟩ := (eatKw_some_iff _ _ _ _).1 hk
          have ht := tempTail_yield ts
          have hi := kwsTail_yield [DK.IF, DK.NOT, DK.EXISTS] r0
          split at h
          · simp at h
          · rename_i name r1 hn
            have h1 := nameElem_yield _ _ _ hn
            split at h
            · simp at h
            · split at h
              · simp at h
              · split at h
                · simp at h
                · rename_i cols r2 hc
                  have h2 := parseColumns_yield _ _ _ _ _ _ hc
                  split at h
                  · simp at h
                  · simp at h; obtain ⟨rfl, rfl⟩ := h
                    simp only [CreateTable.flatten]
                    generalize tempTail ts = A at *
                    obtain ⟨a1, a2⟩ := A
                    generalize kwsTail [DK.IF, DK.NOT, DK.EXISTS] r0 = B at *
                    obtain ⟨b1, b2⟩ := B
                    simp only at ht h0 hi h1 ⊢
                    subst ht h0 hi h1 h2
                    simp

-- ------------------------------------------------------------------ DROP
theorem parseDrop_yield (c : DCfg) (f : Nat) (kw : Tok) (ts : List Tok) (dr : Drop) (rest : List Tok)
    (h : parseDrop c f kw ts = .ok (dr, rest)) : kw :: ts = dr.flatten ++ rest := by
  unfold parseDrop at h
  split at h
  · simp at h
  · split at h
    · split at h <;> simp at h
    · rename_i tk r0 hk
      obtain ⟨rfl, -⟩ := (eatKw_some_iff _ _ _ _).1 hk
      have hi := kwsTail_yield [DK.IF, DK.EXISTS] r0
      split at h
      · simp at h
      · rename_i names r1 hn
        have h1 := commaSepE_names_yield _ _ _ _ _ hn
        have hc := kwTail_yield DK.CASCADE r1
        have hr := kwTail_yield DK.RESTRICT (kwTail DK.CASCADE r1).2
        have hp := kwTail_yield DK.PURGE (kwTail DK.RESTRICT (kwTail DK.CASCADE r1).2).2
        split at h
        · simp at h
        · split at h
          · simp at h
          · simp at h; obtain ⟨rfl, rfl⟩ := h
            simp only [Drop.flatten]
            generalize kwsTail [DK.IF, DK.EXISTS] r0 = I at *
            obtain ⟨i1, i2⟩ := I
            generalize kwTail DK.CASCADE r1 = A at *
            obtain ⟨a1, a2⟩ := A
            generalize kwTail DK.RESTRICT a2 = B at *
            obtain ⟨b1, b2⟩ := B
            generalize kwTail DK.PURGE b2 = P at *
            obtain ⟨p1, p2⟩ := P
            simp only at hi h1 hc hr hp ⊢
            subst hi h1 hc hr hp
            simp

-- ------------------------------------------------------------------ statements
theorem mapRes_ok {α β : Type} {g : α → β} {r : Res α} {v : β} {rest : List Tok} (h : mapRes g r = .ok (v, rest)) :
    ∃ a, r = .ok (a, rest) ∧ v = g a := by
  unfold mapRes at h
  split at h
  · simp at h
  · simp at h; obtain ⟨rfl, rfl⟩ := h; exact ⟨_, rfl, rfl⟩

/-- **yield**: a successful statement parse consumes exactly the tokens of its tree -/
theorem parseStmt_yield (c : DCfg) (f limit : Nat) (ts : List Tok) (s : Stmt) (rest : List Tok)
    (h : parseStmt c f limit ts = .ok (s, rest)) : ts = s.flatten ++ rest := by
  unfold parseStmt at h
  cases limit with
  | zero => simp at h
  | succ d =>
    simp only at h
    cases ts with
    | nil => simp at h
    | cons t r =>
      simp only at h
      split at h
      · obtain ⟨q, hq, rfl⟩ := mapRes_ok h
        simpa [Stmt.flatten, Source.flatten] using (query_yield_all c.q f).1 _ _ _ _ hq
      · split at h
        · obtain ⟨v, hv, rfl⟩ := mapRes_ok h
          simpa [Stmt.flatten, Source.flatten] using valuesQuery_yield _ _ _ _ _ _ _ hv
        · split at h
          · obtain ⟨v, hv, rfl⟩ := mapRes_ok h
            simpa [Stmt.flatten] using parseInsert_yield _ _ _ _ _ _ _ hv
          · split at h
            · obtain ⟨v, hv, rfl⟩ := mapRes_ok h
              simpa [Stmt.flatten] using parseUpdate_yield _ _ _ _ _ _ _ hv
            · split at h
              · obtain ⟨v, hv, rfl⟩ := mapRes_ok h
                simpa [Stmt.flatten] using parseDelete_yield _ _ _ _ _ _ _ hv
              · split at h
                · obtain ⟨v, hv, rfl⟩ := mapRes_ok h
                  simpa [Stmt.flatten] using parseCreate_yield _ _ _ _ _ _ _ hv
                · split at h
                  · obtain ⟨v, hv, rfl⟩ := mapRes_ok h
                    simpa [Stmt.flatten] using parseDrop_yield _ _ _ _ _ _ hv
                  · split at h
                    · obtain ⟨q, hq, rfl⟩ := mapRes_ok h
                      simpa [Stmt.flatten, Source.flatten] using (query_yield_all c.q f).1 _ _ _ _ hq
                    · simp at h
                    · simp at h

end SqlVerif.Dml

import SqlVerif.Model.Pratt
/-!
Lemmas about the Pratt model (`Model/Pratt.lean`) used by `Props/C04.lean`.

Part 1: the in-order token yield `Expr.flatten` and the fact that every parser function consumes
exactly the yield of what it builds (simultaneous induction on the fuel).
-/
deriving instance DecidableEq for Except

namespace SqlVerif.Pratt

/-- in-order token yield of a tree; `Nested`, `IN (…)` and `ANY (…)` contribute their parentheses -/

def Expr.flatten : Expr → List Tok
  | .atom _ toks => toks
  | .nested e => .sym .LParen :: e.flatten ++ [.sym .RParen]
  | .pre _ t e => t :: e.flatten
  | .bin _ l ops r => l.flatten ++ ops ++ r.flatten
  | .post _ l ops => l.flatten ++ ops
  | .between _ l ops lo a hi => l.flatten ++ ops ++ lo.flatten ++ [a] ++ hi.flatten
  | .likeEsc _ _ _ l ops pat esc => l.flatten ++ ops ++ pat.flatten ++ esc
  | .inList _ l ops items => l.flatten ++ ops ++ items.flatten ++ [.sym .RParen]
  | .quant _ _ l ops r => l.flatten ++ ops ++ r.flatten ++ [.sym .RParen]
  | .lcons e sep rest => e.flatten ++ sep ++ rest.flatten
  | .lnil => []

theorem eatKw_eq {ts : List Tok} {k : Nat} {t : Tok} {rest : List Tok} (h : eatKw ts k = some (t, rest)) :
    ts = t :: rest ∧ t.isKw k = true := by
  unfold eatKw at h
  split at h
  · split at h <;> simp_all
  · simp at h

theorem eatKw_some_iff (ts : List Tok) (k : Nat) (t : Tok) (rest : List Tok) :
    eatKw ts k = some (t, rest) ↔ ts = t :: rest ∧ t.isKw k = true := by
  unfold eatKw
  split
  · split
    · simp_all
      intro h1 _; subst h1; assumption
    · simp_all
      intro h1 _; subst h1; assumption
  · simp

theorem compoundTail_yield (acc ts : List Tok) (toks rest : List Tok)
    (h : compoundTail acc ts = .ok (toks, rest)) : acc ++ ts = toks ++ rest := by
  fun_induction compoundTail acc ts <;> simp_all
  all_goals (obtain ⟨rfl, rfl⟩ := h; simp)

def PrefixPlan.Yield (ts : List Tok) : PrefixPlan → Prop
  | .atom _ toks rest => ts = toks ++ rest
  | .pre _ t _ rest => ts = t :: rest
  | .paren rest => ts = .sym .LParen :: rest

theorem wordTail_yield (c : Cfg) (t : Tok) (v : W) (rest : List Tok) (plan : PrefixPlan)
    (h : wordTail c t v rest = .ok plan) : plan.Yield (t :: rest) := by
  unfold wordTail at h
  split at h
  · simp at h
  · split at h
    · simp at h
    · rename_i toks rest'' hc
      have := compoundTail_yield _ _ _ _ hc
      split at h
      · simp at h
      · simp at h; subst h; simpa [PrefixPlan.Yield] using this
  all_goals (repeat' split at h)
  all_goals first
    | (simp at h; done)
    | (simp at h; subst h; simp [PrefixPlan.Yield])

theorem prefixHead_yield (c : Cfg) (ts : List Tok) (plan : PrefixPlan)
    (h : prefixHead c ts = .ok plan) : plan.Yield ts := by
  unfold prefixHead at h
  repeat' split at h
  all_goals first
    | (simp at h; done)
    | exact wordTail_yield _ _ _ _ _ h
    | (simp at h; subst h; simp [PrefixPlan.Yield])

def InfixPlan.ops : InfixPlan → List Tok
  | .right _ ops _ _ | .post _ ops _ | .like _ _ _ ops _ | .between _ ops _ | .inl _ ops _
  | .quant _ _ ops _ _ => ops
def InfixPlan.rest : InfixPlan → List Tok
  | .right _ _ rest _ | .post _ _ rest | .like _ _ _ _ rest | .between _ _ rest | .inl _ _ rest
  | .quant _ _ _ rest _ => rest

def IsPlan.ops : IsPlan → List Tok
  | .post _ ops _ | .distinct _ ops _ => ops
def IsPlan.rest : IsPlan → List Tok
  | .post _ _ rest | .distinct _ _ rest => rest

theorem eatKws_yield (ts : List Tok) (ks : List Nat) (ops rest : List Tok)
    (h : eatKws ts ks = some (ops, rest)) : ts = ops ++ rest := by
  induction ks generalizing ts ops rest with
  | nil => simp [eatKws] at h; simp [h]
  | cons k ks ih =>
    unfold eatKws at h
    split at h
    · simp at h
    · rename_i t r hk
      split at h
      · simp at h
      · rename_i ops' rest' hr
        have := ih _ _ _ hr
        simp at h
        obtain ⟨rfl, rfl⟩ := h
        simp [(eatKw_some_iff _ _ _ _).1 hk, this]

theorem isTail_yield (ts : List Tok) (p : IsPlan) (h : isTail ts = some p) : ts = p.ops ++ p.rest := by
  unfold isTail at h
  repeat' split at h
  all_goals first
    | (simp at h; done)
    | (rename_i hh; have := eatKws_yield _ _ _ _ hh; simp at h; subst h; simpa [IsPlan.ops, IsPlan.rest] using this)

theorem notFamilyTail_yield (c : Cfg) (neg : Bool) (pre ts : List Tok) (plan : InfixPlan)
    (h : notFamilyTail c neg pre ts = .ok plan) : pre ++ ts = plan.ops ++ plan.rest := by
  unfold notFamilyTail at h
  repeat' split at h
  all_goals first
    | (simp at h; done)
    | (simp at h; subst h
       simp only [InfixPlan.ops, InfixPlan.rest]
       simp_all [eatKw_some_iff])

theorem infixHead_yield (c : Cfg) (d q : Nat) (ts : List Tok) (plan : InfixPlan)
    (h : infixHead c d q ts = .ok plan) : ts = plan.ops ++ plan.rest := by
  unfold infixHead at h
  repeat' split at h
  all_goals first
    | (simp at h; done)
    | (simp at h; subst h; simp [InfixPlan.ops, InfixPlan.rest]; done)
    | (rename_i hh; have := isTail_yield _ _ hh; simp at h; subst h
       simpa [InfixPlan.ops, InfixPlan.rest, IsPlan.ops, IsPlan.rest] using this)
    | (have := notFamilyTail_yield _ _ _ _ _ h; simpa using this)

theorem escapeTail_yield (c : Cfg) (ts esc rest : List Tok)
    (h : escapeTail c ts = .ok (some (esc, rest))) : ts = esc ++ rest := by
  unfold escapeTail at h
  split at h
  · simp at h
  · rename_i t1 r1 hk
    have := (eatKw_some_iff _ _ _ _).1 hk
    repeat' split at h
    all_goals first
      | (simp at h; done)
      | (simp at h; obtain ⟨rfl, rfl⟩ := h; simp [this.1])

theorem prefixHead_lparen (c : Cfg) (ts : List Tok) (plan : PrefixPlan)
    (h : prefixHead c (.sym .LParen :: ts) = .ok plan) : plan = .paren ts := by
  simp only [prefixHead] at h
  repeat' split at h
  all_goals simp at h
  exact h.symm

theorem collateCheck_ok {e e' : Expr} {rest rest' : List Tok} (h : collateCheck e rest = .ok (e', rest')) :
    e' = e ∧ rest' = rest := by
  unfold collateCheck at h
  split at h <;> simp_all

theorem yield_all (c : Cfg) (f : Nat) :
    (∀ d p ts e rest, parseSubexpr c f d p ts = .ok (e, rest) → ts = e.flatten ++ rest) ∧
    (∀ d p e0 ts e rest, loop c f d p e0 ts = .ok (e, rest) →
      e0.flatten ++ ts = e.flatten ++ rest) ∧
    (∀ d ts e rest, parsePrefix c f d ts = .ok (e, rest) → ts = e.flatten ++ rest) ∧
    (∀ d e0 q ts e rest, parseInfix c f d e0 q ts = .ok (e, rest) →
      e0.flatten ++ ts = e.flatten ++ rest) ∧
    (∀ d ts e rest, parseItems c f d ts = .ok (e, rest) → ts = e.flatten ++ rest) := by
  induction f with
  | zero => simp [parseSubexpr, loop, parsePrefix, parseInfix, parseItems]
  | succ f ih =>
    obtain ⟨ihS, ihL, ihP, ihI, ihT⟩ := ih
    refine ⟨?_, ?_, ?_, ?_, ?_⟩
    · -- parseSubexpr
      intro d p ts e rest h
      cases d with
      | zero => simp [parseSubexpr] at h
      | succ d =>
        simp only [parseSubexpr] at h
        split at h
        · simp at h
        · rename_i e0 ts' hp
          have h1 := ihP _ _ _ _ hp
          have h2 := ihL _ _ _ _ _ _ h
          rw [h1, h2]
    · -- loop
      intro d p e0 ts e rest h
      simp only [loop] at h
      split at h
      · simp at h; obtain ⟨rfl, rfl⟩ := h; rfl
      · split at h
        · simp at h
        · rename_i e1 ts1 hi
          rw [ihI _ _ _ _ _ _ hi, ihL _ _ _ _ _ _ h]
    · -- parsePrefix
      intro d ts e rest h
      simp only [parsePrefix] at h
      split at h
      · simp at h
      split at h
      · simp at h
      · rename_i k toks r hh
        have hy := prefixHead_yield _ _ _ hh
        obtain ⟨rfl, rfl⟩ := collateCheck_ok h
        simpa [PrefixPlan.Yield, Expr.flatten] using hy
      · rename_i o t p r hh
        have hy := prefixHead_yield _ _ _ hh
        split at h
        · simp at h
        · rename_i e1 r1 hs
          have := ihS _ _ _ _ _ hs
          obtain ⟨rfl, rfl⟩ := collateCheck_ok h
          simp [PrefixPlan.Yield] at hy
          simp [Expr.flatten, hy, this]
      · rename_i r hh
        have hy := prefixHead_yield _ _ _ hh
        simp [PrefixPlan.Yield] at hy
        split at h
        · simp at h
        · rename_i e1 r1 hs
          have := ihS _ _ _ _ _ hs
          split at h
          · simp at h
          · split at h
            · simp at h
            · obtain ⟨rfl, rfl⟩ := collateCheck_ok h
              simp [Expr.flatten, hy, this]
          · simp at h
    · -- parseInfix
      intro d e0 q ts e rest h
      simp only [parseInfix] at h
      split at h
      · simp at h
      all_goals (rename_i hh; have hy := infixHead_yield _ _ _ _ _ hh; simp only [InfixPlan.ops, InfixPlan.rest] at hy)
      · -- right
        split at h
        · simp at h
        · rename_i r rest' hs
          have := ihS _ _ _ _ _ hs
          simp at h; obtain ⟨rfl, rfl⟩ := h
          rw [hy, this]; simp [Expr.flatten]
      · -- post
        simp at h; obtain ⟨rfl, rfl⟩ := h
        rw [hy]; simp [Expr.flatten]
      · -- like
        split at h
        · simp at h
        · rename_i pat rest' hs
          have := ihS _ _ _ _ _ hs
          split at h
          · simp at h
          · simp at h; obtain ⟨rfl, rfl⟩ := h
            rw [hy, this]; simp [Expr.flatten]
          · rename_i esc rest'' he
            have hesc := escapeTail_yield _ _ _ _ he
            simp at h; obtain ⟨rfl, rfl⟩ := h
            rw [hy, this, hesc]; simp [Expr.flatten]
      · -- between
        split at h
        · simp at h
        · rename_i lo rest' hs
          have h1 := ihS _ _ _ _ _ hs
          split at h
          · simp at h
          · rename_i andTok rest'' ha
            have h2 := (eatKw_some_iff _ _ _ _).1 ha
            split at h
            · simp at h
            · rename_i hi rest3 hs2
              have h3 := ihS _ _ _ _ _ hs2
              simp at h; obtain ⟨rfl, rfl⟩ := h
              rw [hy, h1, h2.1, h3]; simp [Expr.flatten]
      · -- inl
        split at h
        · simp at h
        · split at h
          · simp at h; obtain ⟨rfl, rfl⟩ := h
            rw [hy]; simp [Expr.flatten]
          · split at h
            · simp at h
            · rename_i items rest' hs
              have h1 := ihT _ _ _ _ hs
              split at h
              · simp at h; obtain ⟨rfl, rfl⟩ := h
                rw [hy, h1]; simp [Expr.flatten]
              · simp at h
      · -- quant
        split at h
        · simp at h
        · rename_i r rest' hs
          have h1 := ihS _ _ _ _ _ hs
          split at h
          · split at h
            · simp at h; obtain ⟨rfl, rfl⟩ := h
              rw [hy, h1]; simp [Expr.flatten]
            · simp at h
          · simp at h
    · -- parseItems
      intro d ts e rest h
      simp only [parseItems] at h
      split at h
      · simp at h
      · rename_i e1 r1 hs
        have h1 := ihS _ _ _ _ _ hs
        split at h
        · split at h
          · simp at h
          · split at h
            · simp at h
            · rename_i items r2 ht
              have h2 := ihT _ _ _ _ ht
              simp at h; obtain ⟨rfl, rfl⟩ := h
              rw [h1, h2]; simp [Expr.flatten]
        · simp at h; obtain ⟨rfl, rfl⟩ := h
          rw [h1]; simp [Expr.flatten]

/-!
Part 2: binding levels, exposed operators, `WellShaped`, and the shape invariant of the parser.

* `leftOpen c e`: levels of the operators on the left edge of `e` whose left operand is open
  (binary / mixfix / postfix nodes); prefix operators, atoms and `( … )` close the edge.
* `rightOpen c e`: levels of the operators on the right edge whose right operand is open
  (binary nodes, `BETWEEN … AND hi`, prefix operators); postfix forms, `ESCAPE`, `IN (…)`,
  `ANY (…)`, atoms and `( … )` close it.
* the level of a node is the *documented* class of its construct (`pIs`, `pBetween`, `pLike`,
  `pAtTz`, `pDoubleColon`, `pUnaryNot`, …) or, for operator tokens, `nextPrec` of the token.
-/

/-- the level at which a prefix operator parses its operand -/
def prefixLevel (c : Cfg) : UnOp → Nat
  | .Not => c.prec.pUnaryNot
  | .Plus | .Minus => c.prec.pMulDivModOp
  | _ => c.prec.pPlusMinus

def binLevel (c : Cfg) (k : BinKind) (ops : List Tok) : Nat :=
  match k with
  | .op _ => nextPrec c ops
  | .isDistinct _ => c.prec.pIs
  | .atTz => c.prec.pAtTz
  | .like _ _ _ => c.prec.pLike

def postLevel (c : Cfg) (k : PostKind) (ops : List Tok) : Nat :=
  match k with
  | .is _ => c.prec.pIs
  | .cast => c.prec.pDoubleColon
  | .factorial => nextPrec c ops

def quantLevel (c : Cfg) (ops : List Tok) : Nat := nextPrec c (ops.take 1)

/-- binding power of the operator at the root (0 for leaves and list cells) -/
def Expr.level (c : Cfg) : Expr → Nat
  | .pre o _ _ => prefixLevel c o
  | .bin k _ ops _ => binLevel c k ops
  | .post k _ ops => postLevel c k ops
  | .between _ _ _ _ _ _ => c.prec.pBetween
  | .inList _ _ _ _ => c.prec.pBetween
  | .likeEsc _ _ _ _ _ _ _ => c.prec.pLike
  | .quant _ _ _ ops _ => quantLevel c ops
  | _ => 0

/-- levels of the operators exposed on the left edge (those whose left operand is open) -/
def leftOpen (c : Cfg) : Expr → List Nat
  | .bin k l ops _ => binLevel c k ops :: leftOpen c l
  | .post k l ops => postLevel c k ops :: leftOpen c l
  | .between _ l _ _ _ _ => c.prec.pBetween :: leftOpen c l
  | .inList _ l _ _ => c.prec.pBetween :: leftOpen c l
  | .likeEsc _ _ _ l _ _ _ => c.prec.pLike :: leftOpen c l
  | .quant _ _ l ops _ => quantLevel c ops :: leftOpen c l
  | _ => []

/-- levels of the operators exposed on the right edge (those whose right operand is open) -/
def rightOpen (c : Cfg) : Expr → List Nat
  | .pre o _ e => prefixLevel c o :: rightOpen c e
  | .bin k _ ops r => binLevel c k ops :: rightOpen c r
  | .between _ _ _ _ _ hi => c.prec.pBetween :: rightOpen c hi
  | _ => []

def WellShaped (c : Cfg) : Expr → Prop
  | .atom _ _ => True
  | .nested e => WellShaped c e
  | .pre o _ e => (∀ y ∈ leftOpen c e, prefixLevel c o < y) ∧ WellShaped c e
  | .bin k l ops r =>
    (∀ x ∈ rightOpen c l, binLevel c k ops ≤ x) ∧ (∀ y ∈ leftOpen c r, binLevel c k ops < y) ∧
    WellShaped c l ∧ WellShaped c r
  | .post k l ops => (∀ x ∈ rightOpen c l, postLevel c k ops ≤ x) ∧ WellShaped c l
  | .between _ l _ lo _ hi =>
    (∀ x ∈ rightOpen c l, c.prec.pBetween ≤ x) ∧ (∀ y ∈ leftOpen c lo, c.prec.pBetween < y) ∧
    (∀ y ∈ leftOpen c hi, c.prec.pBetween < y) ∧ WellShaped c l ∧ WellShaped c lo ∧ WellShaped c hi
  | .likeEsc _ _ _ l _ pat _ =>
    (∀ x ∈ rightOpen c l, c.prec.pLike ≤ x) ∧ (∀ y ∈ leftOpen c pat, c.prec.pLike < y) ∧
    WellShaped c l ∧ WellShaped c pat
  | .inList _ l _ items => (∀ x ∈ rightOpen c l, c.prec.pBetween ≤ x) ∧ WellShaped c l ∧ WellShaped c items
  | .quant _ _ l ops r => (∀ x ∈ rightOpen c l, quantLevel c ops ≤ x) ∧ WellShaped c l ∧ WellShaped c r
  | .lcons e _ rest => WellShaped c e ∧ WellShaped c rest
  | .lnil => True

-- ---------------------------------------------------------------- precedence of the head token
theorem nextPrec_local (c : Cfg) (t : Tok) (rest : List Tok) (h1 : t.kwc ≠ .at) (h2 : t.kwc ≠ .not) :
    nextPrec c (t :: rest) = nextPrec c [t] := by
  unfold nextPrec
  have hp : pgOverride c (t :: rest) = pgOverride c [t] := by simp [pgOverride]
  have hs : peekSym (t :: rest) .Colon = peekSym [t] .Colon := by simp [peekSym]
  have hd : nextPrecDefault c (t :: rest) = nextPrecDefault c [t] := by
    unfold nextPrecDefault
    cases t <;> simp_all
    all_goals (split <;> simp_all)
  rw [hp, hs, hd]

theorem nextPrec_kwc_word {c : Cfg} {v : W} {q kw : Option Nat} {rest : List Tok}
    (hc : (Tok.word v q kw).kwc ≠ .collate) :
    nextPrec c (.word v q kw :: rest) = nextPrecDefault c (.word v q kw :: rest) := by
  unfold nextPrec
  simp [pgOverride, hc, peekSym, Tok.isSym]

def InfixPlan.LevelOK (c : Cfg) (q : Nat) : InfixPlan → Prop
  | .right k ops _ p => p = q ∧ binLevel c k ops = q
  | .post k ops _ => postLevel c k ops = q
  | .like _ _ _ _ _ => c.prec.pLike = q
  | .between _ _ _ => c.prec.pBetween = q
  | .inl _ _ _ => c.prec.pBetween = q
  | .quant _ _ ops _ p => p = q ∧ quantLevel c ops = q

theorem binOpOf_local (c : Cfg) (t : Tok) (o : BinOp) (h : binOpOf c t = .op o) :
    t.kwc ≠ .at ∧ t.kwc ≠ .not := by
  unfold binOpOf at h
  cases t <;> simp_all [Tok.kwc]
  all_goals (split at h <;> simp_all)

theorem notFamilyTail_level (c : Cfg) (neg : Bool) (pre ts : List Tok) (plan : InfixPlan)
    (h : notFamilyTail c neg pre ts = .ok plan) : plan.LevelOK c (famPrec c (peekKwc ts)) := by
  unfold notFamilyTail at h
  repeat' split at h
  all_goals first
    | (simp at h; done)
    | (simp at h; subst h; simp_all [InfixPlan.LevelOK, famPrec, peekKwc, binLevel])

theorem nextPrec_not {c : Cfg} {v : W} {q kw : Option Nat} {rest : List Tok}
    (h : (Tok.word v q kw).kwc = .not) :
    nextPrec c (.word v q kw :: rest) = famPrec c (peekKwc rest) := by
  rw [nextPrec_kwc_word (by simp [h])]
  simp [nextPrecDefault, h]

theorem nextPrec_fam {c : Cfg} {v : W} {q kw : Option Nat} {rest : List Tok}
    (h : (Tok.word v q kw).kwc = .in_ ∨ (Tok.word v q kw).kwc = .between ∨ (Tok.word v q kw).kwc = .like ∨
         (Tok.word v q kw).kwc = .ilike ∨ (Tok.word v q kw).kwc = .similar ∨
         (Tok.word v q kw).kwc = .regexp ∨ (Tok.word v q kw).kwc = .rlike) :
    nextPrec c (.word v q kw :: rest) = famPrec c (peekKwc (.word v q kw :: rest)) := by
  rw [nextPrec_kwc_word (by rcases h with h | h | h | h | h | h | h <;> simp [h])]
  rcases h with h | h | h | h | h | h | h <;> simp [nextPrecDefault, h, famPrec, peekKwc]

theorem infixHead_level (c : Cfg) (d : Nat) (ts : List Tok) (plan : InfixPlan)
    (h : infixHead c d (nextPrec c ts) ts = .ok plan) : plan.LevelOK c (nextPrec c ts) := by
  unfold infixHead at h
  split at h
  · simp [noInfix, debugTok] at h
  · rename_i t rest
    split at h
    · -- MySQL DIV
      rename_i hd
      simp at h; subst h
      simp at hd
      simp [InfixPlan.LevelOK, binLevel]
      exact (nextPrec_local c t rest (by simp [hd.2]) (by simp [hd.2])).symm
    · split at h
      · simp at h
      · -- regular operator
        rename_i o ho
        have hl := binOpOf_local c t o ho
        have := nextPrec_local c t rest hl.1 hl.2
        repeat' split at h
        all_goals first
          | (simp at h; done)
          | (simp at h; subst h; simp [InfixPlan.LevelOK, binLevel, quantLevel, this])
      · -- no regular operator
        split at h
        · -- word
          split at h
          case h_1 =>
            rename_i hk
            repeat' split at h
            all_goals first
              | (simp at h; done)
              | (simp at h; subst h
                 rw [nextPrec_kwc_word (by simp [hk])]
                 simp_all [InfixPlan.LevelOK, binLevel, postLevel, nextPrecDefault])
          case h_2 =>
            rename_i hk
            repeat' split at h
            all_goals first
              | (simp at h; done)
              | (simp at h; subst h
                 rw [nextPrec_kwc_word (by simp [hk])]
                 simp_all [InfixPlan.LevelOK, binLevel, nextPrecDefault])
          case h_3 =>
            rename_i hk
            rw [nextPrec_not hk]
            exact notFamilyTail_level _ _ _ _ _ h
          all_goals first
            | (rename_i hk; rw [nextPrec_fam (by simp [hk])]; exact notFamilyTail_level _ _ _ _ _ h)
            | (simp at h)
        · -- `::`
          repeat' split at h
          all_goals first
            | (simp at h; done)
            | (simp at h; subst h
               simp [InfixPlan.LevelOK, postLevel, nextPrec, pgOverride, nextPrecDefault, symPrec, peekSym, Tok.isSym])
        · -- `!`
          simp at h; subst h
          simp [InfixPlan.LevelOK, postLevel]
          exact (nextPrec_local c _ rest (by simp [Tok.kwc]) (by simp [Tok.kwc])).symm
        all_goals (repeat' split at h) <;> simp at h

theorem prefixHead_level (c : Cfg) (ts : List Tok) (o : UnOp) (t : Tok) (p : Nat) (rest : List Tok)
    (h : prefixHead c ts = .ok (.pre o t p rest)) : p = prefixLevel c o := by
  unfold prefixHead at h
  repeat' split at h
  all_goals first
    | (simp at h; done)
    | (simp at h; obtain ⟨rfl, -, rfl, -⟩ := h; simp [prefixLevel]; done)
    | (simp [wordTail] at h; repeat' split at h
       all_goals simp at h)
    | skip

/-- postcondition of `parse_subexpr(p)` -/
def SubPost (c : Cfg) (p : Nat) (e : Expr) (rest : List Tok) : Prop :=
  WellShaped c e ∧ (∀ y ∈ leftOpen c e, p < y) ∧ (∀ x ∈ rightOpen c e, nextPrec c rest ≤ x) ∧
  nextPrec c rest ≤ p

theorem shape_all (c : Cfg) (f : Nat) :
    (∀ d p ts e rest, parseSubexpr c f d p ts = .ok (e, rest) → SubPost c p e rest) ∧
    (∀ d p e0 ts e rest, WellShaped c e0 → (∀ y ∈ leftOpen c e0, p < y) →
      (∀ x ∈ rightOpen c e0, nextPrec c ts ≤ x) → loop c f d p e0 ts = .ok (e, rest) → SubPost c p e rest) ∧
    (∀ d ts e rest, parsePrefix c f d ts = .ok (e, rest) →
      WellShaped c e ∧ leftOpen c e = [] ∧ (∀ x ∈ rightOpen c e, nextPrec c rest ≤ x)) ∧
    (∀ d e0 ts e rest, WellShaped c e0 → (∀ x ∈ rightOpen c e0, nextPrec c ts ≤ x) →
      parseInfix c f d e0 (nextPrec c ts) ts = .ok (e, rest) →
      WellShaped c e ∧ leftOpen c e = nextPrec c ts :: leftOpen c e0 ∧
      (∀ x ∈ rightOpen c e, nextPrec c rest ≤ x)) ∧
    (∀ d ts e rest, parseItems c f d ts = .ok (e, rest) → WellShaped c e) := by
  induction f with
  | zero => simp [parseSubexpr, loop, parsePrefix, parseInfix, parseItems]
  | succ f ih =>
    obtain ⟨ihS, ihL, ihP, ihI, ihT⟩ := ih
    refine ⟨?_, ?_, ?_, ?_, ?_⟩
    · -- parseSubexpr
      intro d p ts e rest h
      cases d with
      | zero => simp [parseSubexpr] at h
      | succ d =>
        simp only [parseSubexpr] at h
        split at h
        · simp at h
        · rename_i e0 ts' hp
          obtain ⟨w, lo, ro⟩ := ihP _ _ _ _ hp
          exact ihL _ _ _ _ _ _ w (by simp [lo]) ro h
    · -- loop
      intro d p e0 ts e rest w lo ro h
      simp only [loop] at h
      split at h
      · rename_i hge
        simp at h; obtain ⟨rfl, rfl⟩ := h
        exact ⟨w, lo, ro, hge⟩
      · rename_i hlt
        split at h
        · simp at h
        · rename_i e1 ts1 hi
          obtain ⟨w1, lo1, ro1⟩ := ihI _ _ _ _ _ w ro hi
          refine ihL _ _ _ _ _ _ w1 ?_ ro1 h
          rw [lo1]
          intro y hy
          simp at hy
          rcases hy with rfl | hy
          · omega
          · exact lo y hy
    · -- parsePrefix
      intro d ts e rest h
      simp only [parsePrefix] at h
      split at h
      · simp at h
      split at h
      · simp at h
      · obtain ⟨rfl, rfl⟩ := collateCheck_ok h
        simp [WellShaped, leftOpen, rightOpen]
      · split at h
        · simp at h
        · rename_i e1 r1 hs
          obtain ⟨w, lo, ro, hp⟩ := ihS _ _ _ _ _ hs
          obtain ⟨rfl, rfl⟩ := collateCheck_ok h
          have hl := prefixHead_level _ _ _ _ _ _ (by assumption)
          subst hl
          refine ⟨⟨lo, w⟩, rfl, ?_⟩
          intro x hx
          simp [rightOpen] at hx
          rcases hx with rfl | hx
          · exact hp
          · exact ro x hx
      · split at h
        · simp at h
        · rename_i e1 r1 hs
          obtain ⟨w, lo, ro, hp⟩ := ihS _ _ _ _ _ hs
          repeat' split at h
          all_goals first
            | (simp at h; done)
            | (obtain ⟨rfl, rfl⟩ := collateCheck_ok h
               simp [WellShaped, leftOpen, rightOpen, w])
    · -- parseInfix
      intro d e0 ts e rest w ro h
      simp only [parseInfix] at h
      split at h
      · simp at h
      all_goals (rename_i hh; have hlv := infixHead_level _ _ _ _ hh; simp only [InfixPlan.LevelOK] at hlv)
      · -- right
        split at h
        · simp at h
        · rename_i r rest' hs
          obtain ⟨rfl, hb⟩ := hlv
          obtain ⟨w1, lo1, ro1, hp1⟩ := ihS _ _ _ _ _ hs
          simp at h; obtain ⟨rfl, rfl⟩ := h
          refine ⟨⟨by rw [hb]; exact ro, by rw [hb]; exact lo1, w, w1⟩, by simp [leftOpen, hb], ?_⟩
          intro x hx
          simp [rightOpen] at hx
          rcases hx with rfl | hx
          · rw [hb]; exact hp1
          · exact ro1 x hx
      · -- post
        simp at h; obtain ⟨rfl, rfl⟩ := h
        exact ⟨⟨by rw [hlv]; exact ro, w⟩, by simp [leftOpen, hlv], by simp [rightOpen]⟩
      · -- like
        split at h
        · simp at h
        · rename_i pat rest' hs
          obtain ⟨w1, lo1, ro1, hp1⟩ := ihS _ _ _ _ _ hs
          split at h
          · simp at h
          · simp at h; obtain ⟨rfl, rfl⟩ := h
            refine ⟨⟨by simp only [binLevel]; rw [hlv]; exact ro, by simpa [binLevel] using lo1, w, w1⟩,
              by simp [leftOpen, binLevel, hlv], ?_⟩
            intro x hx
            simp [rightOpen, binLevel] at hx
            rcases hx with rfl | hx
            · exact hp1
            · exact ro1 x hx
          · simp at h; obtain ⟨rfl, rfl⟩ := h
            exact ⟨⟨by rw [hlv]; exact ro, lo1, w, w1⟩, by simp [leftOpen, hlv], by simp [rightOpen]⟩
      · -- between
        split at h
        · simp at h
        · rename_i lo rest' hs
          obtain ⟨w1, lo1, ro1, hp1⟩ := ihS _ _ _ _ _ hs
          split at h
          · simp at h
          · split at h
            · simp at h
            · rename_i hi rest3 hs2
              obtain ⟨w2, lo2, ro2, hp2⟩ := ihS _ _ _ _ _ hs2
              simp at h; obtain ⟨rfl, rfl⟩ := h
              refine ⟨⟨by rw [hlv]; exact ro, lo1, lo2, w, w1, w2⟩, by simp [leftOpen, hlv], ?_⟩
              intro x hx
              simp [rightOpen] at hx
              rcases hx with rfl | hx
              · exact hp2
              · exact ro2 x hx
      · -- inl
        split at h
        · simp at h
        · split at h
          · simp at h; obtain ⟨rfl, rfl⟩ := h
            exact ⟨⟨by rw [hlv]; exact ro, w, by simp [WellShaped]⟩, by simp [leftOpen, hlv], by simp [rightOpen]⟩
          · split at h
            · simp at h
            · rename_i items rest' hs
              have wi := ihT _ _ _ _ hs
              split at h
              · simp at h; obtain ⟨rfl, rfl⟩ := h
                exact ⟨⟨by rw [hlv]; exact ro, w, wi⟩, by simp [leftOpen, hlv], by simp [rightOpen]⟩
              · simp at h
      · -- quant
        split at h
        · simp at h
        · rename_i r rest' hs
          obtain ⟨w1, -, -, -⟩ := ihS _ _ _ _ _ hs
          split at h
          · split at h
            · simp at h; obtain ⟨rfl, rfl⟩ := h
              exact ⟨⟨by rw [hlv.2]; exact ro, w, w1⟩, by simp [leftOpen, hlv.2], by simp [rightOpen]⟩
            · simp at h
          · simp at h
    · -- parseItems
      intro d ts e rest h
      simp only [parseItems] at h
      split at h
      · simp at h
      · rename_i e1 r1 hs
        obtain ⟨w1, -, -, -⟩ := ihS _ _ _ _ _ hs
        split at h
        · split at h
          · simp at h
          · split at h
            · simp at h
            · rename_i items r2 ht
              have w2 := ihT _ _ _ _ ht
              simp at h; obtain ⟨rfl, rfl⟩ := h
              exact ⟨w1, w2⟩
        · simp at h; obtain ⟨rfl, rfl⟩ := h
          exact ⟨w1, by simp [WellShaped]⟩

end SqlVerif.Pratt

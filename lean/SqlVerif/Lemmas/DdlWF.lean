import SqlVerif.Lemmas.DdlDefs
/-!
Every tree the second statement model builds is well formed (`Stmt.WF`, `Lemmas/DdlDefs.lean`): each
keyword slot holds its keyword, separators are commas, parentheses are parentheses, expressions /
queries / column definitions are well formed in the sense of the lower layers.
-/
namespace SqlVerif.Ddl
open SqlVerif.Pratt SqlVerif.Query SqlVerif.Dml SqlVerif.Gen

-- ------------------------------------------------------------------ CREATE VIEW
theorem viewCol_wf (c : XCfg) (f d : Nat) (ts : List Tok) (v : ViewCol) (rest : List Tok)
    (h : viewCol c f d ts = .ok (v, rest)) : v.WF := by
  unfold viewCol at h
  split at h
  · simp at h
  · split at h
    · simp at h
    · split at h
      · split at h
        · simp at h
        · simp at h; obtain ⟨rfl, rfl⟩ := h
          intro hh; simp at hh
      · simp at h; obtain ⟨rfl, rfl⟩ := h
        intro _; rfl

theorem viewColumns_wf (c : XCfg) (f d : Nat) (ts : List Tok) (cols : List Tok × Sep ViewCol × List Tok) (rest : List Tok)
    (h : viewColumns c f d ts = .ok (cols, rest)) :
    ((cols.1 = [] ∧ cols.2.1 = [] ∧ cols.2.2 = []) ∨ (cols.1 = [.sym .LParen] ∧ cols.2.2 = [.sym .RParen])) ∧
      sepWF ViewCol.WF cols.2.1 := by
  unfold viewColumns at h
  split at h
  · simp at h; obtain ⟨rfl, rfl⟩ := h
    exact ⟨Or.inl ⟨rfl, rfl, rfl⟩, trivial⟩
  · rename_i lp r hl
    obtain ⟨-, rfl⟩ := eatSym_some hl
    split at h
    · rename_i rp r' hr
      obtain ⟨-, rfl⟩ := eatSym_some hr
      simp at h; obtain ⟨rfl, rfl⟩ := h
      exact ⟨Or.inr ⟨rfl, rfl⟩, trivial⟩
    · split at h
      · simp at h
      · rename_i cs r1 hc
        have h1 := commaSepE_wf _ _ ViewCol.WF (viewCol_wf c f d) _ _ _ _ hc
        split at h
        · rename_i rp r2 hr
          obtain ⟨-, rfl⟩ := eatSym_some hr
          simp at h; obtain ⟨rfl, rfl⟩ := h
          exact ⟨Or.inr ⟨rfl, rfl⟩, h1.1⟩
        · simp at h

theorem viewIfneTail_wf (c : XCfg) (ts : List Tok) :
    (viewIfneTail c ts).1 = [] ∨ isKwL (viewIfneTail c ts).1 [XK.IF, XK.NOT, XK.EXISTS] := by
  unfold viewIfneTail
  split
  · exact kwsTail_wf _ _
  · exact Or.inl rfl

theorem viewBody_wf (c : XCfg) (f d : Nat) (ts : List Tok) (b : Tok × Source) (rest : List Tok)
    (h : viewBody c f d ts = .ok (b, rest)) : b.1.isKw XK.AS = true ∧ b.2.WF := by
  unfold viewBody at h
  split at h
  · simp at h
  · split at h
    · simp at h
    · rename_i asKw r hk
      split at h
      · simp at h
      · rename_i q r1 hq
        split at h
        · simp at h
        · simp at h; obtain ⟨rfl, rfl⟩ := h
          exact ⟨((eatKw_some_iff _ _ _ _).1 hk).2, parseSource_wf _ _ _ _ _ _ hq⟩

theorem parseCreateView_wf (c : XCfg) (f d : Nat) (kw : Tok) (hkw : kw.isKw XK.CREATE = true) (orRep temp : List Tok)
    (ho : orRep = [] ∨ isKwL orRep [XK.OR, XK.REPLACE])
    (htm : temp = [] ∨ ∃ t, temp = [t] ∧ (t.isKw DK.TEMP = true ∨ t.isKw DK.TEMPORARY = true))
    (ts : List Tok) (v : CreateView) (rest : List Tok)
    (h : parseCreateView c f d kw orRep temp ts = .ok (v, rest)) : v.WF := by
  unfold parseCreateView at h
  split at h
  · simp at h
  · rename_i vk r0 hk
    split at h
    · simp at h
    · split at h
      · simp at h
      · split at h
        · simp at h
        · rename_i cols r2 hc
          have h2 := viewColumns_wf _ _ _ _ _ _ hc
          split at h
          · simp at h
          · rename_i b r3 hb
            have h3 := viewBody_wf _ _ _ _ _ _ hb
            simp at h; obtain ⟨rfl, rfl⟩ := h
            exact ⟨hkw, ho, htm, kwTail_wf _ _, ((eatKw_some_iff _ _ _ _).1 hk).2, viewIfneTail_wf _ _, h2.1, h2.2, h3.1, h3.2⟩

-- ------------------------------------------------------------------ CREATE INDEX
theorem indexName_wf (ifne : Bool) (ts : List Tok) (nm : List Tok × Tok) (rest : List Tok)
    (h : indexName ifne ts = .ok (nm, rest)) : nm.2.isKw XK.ON = true := by
  unfold indexName at h
  split at h
  · rename_i on r ho
    split at ho
    · simp at ho
    · simp at h; obtain ⟨rfl, rfl⟩ := h; exact ((eatKw_some_iff _ _ _ _).1 ho).2
  · split at h
    · simp at h
    · split at h
      · simp at h
      · rename_i on r1 ho
        simp at h; obtain ⟨rfl, rfl⟩ := h; exact ((eatKw_some_iff _ _ _ _).1 ho).2

theorem indexUsing_wf (ts us rest : List Tok) (h : indexUsing ts = .ok (us, rest)) :
    us = [] ∨ ∃ u m, us = [u, m] ∧ u.isKw XK.USING = true := by
  unfold indexUsing at h
  split at h
  · simp at h; obtain ⟨rfl, rfl⟩ := h; exact Or.inl rfl
  · rename_i u r hu
    split at h
    · simp at h
    · rename_i m r1 hm
      simp at h; obtain ⟨rfl, rfl⟩ := h
      exact Or.inr ⟨u, m, rfl, ((eatKw_some_iff _ _ _ _).1 hu).2⟩

theorem indexHead_wf (c : XCfg) (ts : List Tok) (hd : IdxHead) (rest : List Tok)
    (h : indexHead c ts = .ok (hd, rest)) : hd.WF := by
  unfold indexHead at h
  split at h
  · simp at h
  · rename_i nm r1 hn
    have h1 := indexName_wf _ _ _ _ hn
    split at h
    · simp at h
    · split at h
      · simp at h
      · split at h
        · simp at h
        · rename_i us r3 hu
          have h3 := indexUsing_wf _ _ _ hu
          split at h
          · simp at h
          · rename_i lp r4 hl
            obtain ⟨-, rfl⟩ := eatSym_some hl
            simp at h; obtain ⟨rfl, rfl⟩ := h
            exact ⟨kwTail_wf _ _, kwsTail_wf _ _, h1, h3, rfl⟩

theorem includePart_wf (c : XCfg) (f : Nat) (ts : List Tok) (inc : List Tok × ParenIds) (rest : List Tok)
    (h : includePart c f ts = .ok (inc, rest)) :
    (inc.1 = [] ∧ inc.2 = ParenIds.none) ∨
      (∃ k, inc.1 = [k] ∧ k.isKw XK.INCLUDE = true ∧ inc.2.lp = [.sym .LParen] ∧ inc.2.rp = [.sym .RParen] ∧
        inc.2.ids ≠ [] ∧ sepWF (fun _ => True) inc.2.ids) := by
  unfold includePart at h
  split at h
  · simp at h; obtain ⟨rfl, rfl⟩ := h; exact Or.inl ⟨rfl, rfl⟩
  · rename_i k r hk
    split at h
    · simp at h
    · rename_i lp r1 hl
      obtain ⟨-, rfl⟩ := eatSym_some hl
      split at h
      · simp at h
      · rename_i ids r2 hi
        have h1 := commaSepE_wf _ identElem (fun _ => True) (fun _ _ _ _ => trivial) _ _ _ _ hi
        split at h
        · simp at h
        · rename_i rp r3 hr
          obtain ⟨-, rfl⟩ := eatSym_some hr
          simp at h; obtain ⟨rfl, rfl⟩ := h
          exact Or.inr ⟨k, rfl, ((eatKw_some_iff _ _ _ _).1 hk).2, rfl, rfl, h1.2, h1.1⟩

theorem nullsDistinct_wf (ts nl rest : List Tok) (h : nullsDistinct ts = .ok (nl, rest)) :
    nl = [] ∨ isKwL nl [XK.NULLS, XK.DISTINCT] ∨ isKwL nl [XK.NULLS, XK.NOT, XK.DISTINCT] := by
  unfold nullsDistinct at h
  split at h
  · simp at h; obtain ⟨rfl, rfl⟩ := h; exact Or.inl rfl
  · rename_i n r hn
    have h0 := ((eatKw_some_iff _ _ _ _).1 hn).2
    split at h
    · simp at h
    · rename_i dk r1 hd
      have h1 := ((eatKw_some_iff _ _ _ _).1 hd).2
      simp at h; obtain ⟨rfl, rfl⟩ := h
      rcases kwTail_wf XK.NOT r with h2 | ⟨t, h2, h3⟩
      · rw [h2]; exact Or.inr (Or.inl ⟨h0, h1, trivial⟩)
      · rw [h2]; exact Or.inr (Or.inr ⟨h0, h3, h1, trivial⟩)

theorem indexTail_wf (c : XCfg) (f d : Nat) (ts : List Tok) (tl : IdxTail) (rest : List Tok)
    (h : indexTail c f d ts = .ok (tl, rest)) : tl.WF := by
  unfold indexTail at h
  split at h
  · simp at h
  · rename_i inc r1 hi
    have h1 := includePart_wf _ _ _ _ _ hi
    split at h
    · simp at h
    · rename_i nl r2 hn
      have h2 := nullsDistinct_wf _ _ _ hn
      split at h
      · simp at h
      · split at h
        · simp at h
        · rename_i w r3 hw
          have h3 := kwExprPart_wf _ _ _ _ _ _ _ hw
          simp at h; obtain ⟨rfl, rfl⟩ := h
          exact ⟨h1, h2, h3⟩

theorem parseCreateIndex_wf (c : XCfg) (f d : Nat) (kw : Tok) (hkw : kw.isKw XK.CREATE = true) (temp ik : List Tok)
    (hik : isKwL ik [XK.INDEX] ∨ isKwL ik [XK.UNIQUE, XK.INDEX]) (ts : List Tok) (i : CreateIndex) (rest : List Tok)
    (h : parseCreateIndex c f d kw temp ik ts = .ok (i, rest)) : i.WF := by
  unfold parseCreateIndex at h
  split at h
  · simp at h
  · rename_i hd r1 hh
    have h1 := indexHead_wf _ _ _ _ hh
    split at h
    · simp at h
    · rename_i cols r2 hc
      have h2 := commaSepE_wf _ _ OrderByExpr.WF (orderByElem_wf c.d.q f d) _ _ _ _ hc
      split at h
      · simp at h
      · rename_i rp r3 hr
        obtain ⟨-, rfl⟩ := eatSym_some hr
        split at h
        · simp at h
        · rename_i tl r4 ht
          have h4 := indexTail_wf _ _ _ _ _ _ ht
          simp at h; obtain ⟨rfl, rfl⟩ := h
          exact ⟨hkw, hik, h1, h2.1, h2.2, rfl, h4⟩

-- ------------------------------------------------------------------ ALTER TABLE
theorem ineTail_wf (ts : List Tok) : ineWF (kwsTail ineKws ts).1 := kwsTail_wf _ _

theorem addIneTail_wf (c : XCfg) (ts : List Tok) : ineWF (addIneTail c ts).1 ∧ (c.addIne = false → (addIneTail c ts).1 = []) := by
  unfold addIneTail
  split
  · rename_i hc
    exact ⟨kwsTail_wf _ _, fun hh => by rw [hc] at hh; cases hh⟩
  · exact ⟨Or.inl rfl, fun _ => rfl⟩

theorem addOp_wf (c : XCfg) (f d : Nat) (k : Tok) (hk : k.isKw XK.ADD = true) (ts : List Tok) (op : AlterOp) (rest : List Tok)
    (h : addOp c f d k ts = .ok (op, rest)) : op.WF := by
  unfold addOp at h
  split at h
  · simp at h
  · split at h
    · simp at h
    · split at h
      · simp at h
      · split at h
        · simp at h
        · rename_i cd r hc
          have h4 := columnDef_wf _ _ _ _ _ _ hc
          split at h
          · simp at h
          · simp at h; obtain ⟨rfl, rfl⟩ := h
            exact ⟨hk, ineTail_wf _, kwTail_wf _ _, (addIneTail_wf _ _).1, (addIneTail_wf _ _).2, h4⟩

theorem dropOp_wf (c : XCfg) (k : Tok) (hk : k.isKw XK.DROP = true) (ts : List Tok) (op : AlterOp) (rest : List Tok)
    (h : dropOp c k ts = .ok (op, rest)) : op.WF := by
  unfold dropOp at h
  split at h
  · simp at h
  · split at h
    · simp at h
    · split at h
      · simp at h
      · split at h
        · simp at h
        · simp at h; obtain ⟨rfl, rfl⟩ := h
          exact ⟨hk, kwTail_wf _ _, kwsTail_wf _ _, kwTail_wf _ _⟩

theorem renameColOp_wf (k : Tok) (hk : k.isKw XK.RENAME = true) (ts : List Tok) (op : AlterOp) (rest : List Tok)
    (h : renameColOp k ts = .ok (op, rest)) : op.WF := by
  unfold renameColOp at h
  split at h
  · simp at h
  · split at h
    · simp at h
    · rename_i toKw r1 ht
      split at h
      · simp at h
      · simp at h; obtain ⟨rfl, rfl⟩ := h
        exact ⟨hk, kwTail_wf _ _, ((eatKw_some_iff _ _ _ _).1 ht).2⟩

theorem renameOp_wf (c : XCfg) (k : Tok) (hk : k.isKw XK.RENAME = true) (ts : List Tok) (op : AlterOp) (rest : List Tok)
    (h : renameOp c k ts = .ok (op, rest)) : op.WF := by
  unfold renameOp at h
  split at h
  · simp at h
  · split at h
    · rename_i toKw r ht
      split at h
      · simp at h
      · split at h
        · simp at h
        · simp at h; obtain ⟨rfl, rfl⟩ := h
          exact ⟨hk, ((eatKw_some_iff _ _ _ _).1 ht).2⟩
    · exact renameColOp_wf _ hk _ _ _ h

theorem alterColTail_wf (c : XCfg) (f d : Nat) (ts : List Tok) (p : List Tok × AlterColOp) (rest : List Tok)
    (h : alterColTail c f d ts = .ok (p, rest)) : p.2.WF p.1 := by
  unfold alterColTail at h
  split at h
  · rename_i toks r hk
    simp at h; obtain ⟨rfl, rfl⟩ := h
    exact eatKws_isKwL _ _ _ _ hk
  · split at h
    · rename_i toks r hk
      simp at h; obtain ⟨rfl, rfl⟩ := h
      exact eatKws_isKwL _ _ _ _ hk
    · split at h
      · rename_i toks r hk
        split at h
        · simp at h
        · rename_i e r1 he
          simp at h; obtain ⟨rfl, rfl⟩ := h
          exact ⟨eatKws_isKwL _ _ _ _ hk, parseE_wf _ _ _ _ _ _ he⟩
      · split at h
        · rename_i toks r hk
          simp at h; obtain ⟨rfl, rfl⟩ := h
          exact eatKws_isKwL _ _ _ _ hk
        · split at h <;> simp at h

theorem alterColOp_wf (c : XCfg) (f d : Nat) (k : Tok) (hk : k.isKw XK.ALTER = true) (ts : List Tok) (op : AlterOp)
    (rest : List Tok) (h : alterColOp c f d k ts = .ok (op, rest)) : op.WF := by
  unfold alterColOp at h
  split at h
  · simp at h
  · split at h
    · simp at h
    · rename_i p r1 hp
      simp at h; obtain ⟨rfl, rfl⟩ := h
      exact ⟨hk, kwTail_wf _ _, alterColTail_wf _ _ _ _ _ _ hp⟩

theorem alterOp_wf (c : XCfg) (f d : Nat) (ts : List Tok) (op : AlterOp) (rest : List Tok)
    (h : alterOp c f d ts = .ok (op, rest)) : op.WF := by
  unfold alterOp at h
  split at h
  · rename_i k r hk
    exact addOp_wf _ _ _ _ ((eatKw_some_iff _ _ _ _).1 hk).2 _ _ _ h
  · split at h
    · rename_i k r hk
      exact renameOp_wf _ _ ((eatKw_some_iff _ _ _ _).1 hk).2 _ _ _ h
    · split at h
      · rename_i k r hk
        exact dropOp_wf _ _ ((eatKw_some_iff _ _ _ _).1 hk).2 _ _ _ h
      · split at h
        · rename_i k r hk
          exact alterColOp_wf _ _ _ _ ((eatKw_some_iff _ _ _ _).1 hk).2 _ _ _ h
        · split at h <;> simp at h

theorem parseAlter_wf (c : XCfg) (f d : Nat) (kw : Tok) (hkw : kw.isKw XK.ALTER = true) (ts : List Tok) (a : AlterTable)
    (rest : List Tok) (h : parseAlter c f d kw ts = .ok (a, rest)) : a.WF := by
  unfold parseAlter at h
  split at h
  · split at h <;> simp at h
  · rename_i tk r0 hk
    split at h
    · simp at h
    · split at h
      · simp at h
      · split at h
        · simp at h
        · split at h
          · simp at h
          · rename_i ops r2 ho
            have h4 := commaSepE_wf _ _ AlterOp.WF (alterOp_wf c f d) _ _ _ _ ho
            split at h
            · simp at h
            · simp at h; obtain ⟨rfl, rfl⟩ := h
              exact ⟨hkw, ((eatKw_some_iff _ _ _ _).1 hk).2, kwsTail_wf _ _, kwTail_wf _ _, h4.1, h4.2⟩

-- ------------------------------------------------------------------ TRUNCATE, DROP
theorem allKw_of_isKwL : ∀ (l : List Tok) (ks : List Nat), isKwL l ks → allKw l
  | [], [], _ => fun t ht => by simp at ht
  | t :: ts, k :: ks, h => fun x hx => by
    simp only [isKwL] at h
    rcases List.mem_cons.1 hx with hx | hx
    · rw [hx]; exact ⟨k, h.1⟩
    · exact allKw_of_isKwL ts ks h.2 x hx
  | [], _ :: _, h => by simp [isKwL] at h
  | _ :: _, [], h => by simp [isKwL] at h

theorem allKw_nil : allKw [] := fun t ht => by simp at ht

theorem truncIdentity_wf (c : XCfg) (ts : List Tok) : allKw (truncIdentity c ts).1 := by
  unfold truncIdentity
  split
  · split
    · rename_i p hp
      obtain ⟨ops, r⟩ := p
      exact allKw_of_isKwL _ _ (eatKws_isKwL _ _ _ _ hp)
    · rcases kwsTail_wf [XK.CONTINUE, XK.IDENTITY] ts with h | h
      · rw [h]; exact allKw_nil
      · exact allKw_of_isKwL _ _ h
  · exact allKw_nil

theorem truncCascade_wf (c : XCfg) (ts : List Tok) : allKw (truncCascade c ts).1 := by
  unfold truncCascade
  split
  · split
    · rename_i t r hk
      intro x hx
      simp at hx; rw [hx]
      exact ⟨_, ((eatKw_some_iff _ _ _ _).1 hk).2⟩
    · rcases kwTail_wf XK.RESTRICT ts with h | ⟨t, h1, h2⟩
      · rw [h]; exact allKw_nil
      · rw [h1]; intro x hx; simp at hx; rw [hx]; exact ⟨_, h2⟩
  · exact allKw_nil

theorem parseTruncate_wf (c : XCfg) (f : Nat) (kw : Tok) (hkw : kw.isKw XK.TRUNCATE = true) (ts : List Tok) (t : Truncate)
    (rest : List Tok) (h : parseTruncate c f kw ts = .ok (t, rest)) : t.WF := by
  unfold parseTruncate at h
  split at h
  · simp at h
  · rename_i names r1 hn
    have h1 := names_wf _ _ _ _ _ hn
    split at h
    · simp at h
    · split at h
      · simp at h
      · split at h
        · simp at h
        · simp at h; obtain ⟨rfl, rfl⟩ := h
          exact ⟨hkw, kwTail_wf _ _, kwTail_wf _ _, h1.1, h1.2, truncIdentity_wf _ _, truncCascade_wf _ _⟩

theorem parseDropObj_wf (c : XCfg) (f : Nat) (kw kind : Tok) (hkw : kw.isKw XK.DROP = true) (hkind : ∃ k, kind.isKw k = true)
    (ts : List Tok) (dr : Drop) (rest : List Tok) (h : parseDropObj c f kw kind ts = .ok (dr, rest)) : dropObjWF dr := by
  unfold parseDropObj at h
  split at h
  · simp at h
  · rename_i names r1 hn
    have h1 := names_wf _ _ _ _ _ hn
    split at h
    · simp at h
    · split at h
      · simp at h
      · split at h
        · simp at h
        · simp at h; obtain ⟨rfl, rfl⟩ := h
          exact ⟨hkw, hkind, kwsTail_wf _ _, h1.1, h1.2, kwTail_wf _ _, kwTail_wf _ _, kwTail_wf _ _⟩

-- ------------------------------------------------------------------ heads and statements
theorem dropHead_wf {ts : List Tok} {kind : Tok} {r : List Tok} (h : dropHead ts = some (kind, r)) : ∃ k, kind.isKw k = true := by
  unfold dropHead at h
  split at h
  · split at h
    · rename_i hk
      simp at h; obtain ⟨rfl, rfl⟩ := h
      obtain ⟨k, -, hk'⟩ := List.any_eq_true.1 hk
      exact ⟨k, hk'⟩
    · simp at h
  · simp at h

theorem indexKws_wf {ts ik r : List Tok} (h : indexKws ts = some (ik, r)) :
    isKwL ik [XK.INDEX] ∨ isKwL ik [XK.UNIQUE, XK.INDEX] := by
  unfold indexKws at h
  split at h
  · rename_i t r' hk
    simp at h; obtain ⟨rfl, rfl⟩ := h
    exact Or.inl ⟨((eatKw_some_iff _ _ _ _).1 hk).2, trivial⟩
  · exact Or.inr (eatKws_isKwL _ _ _ _ h)

theorem createHead_view_wf {ts o t r : List Tok} (h : createHead ts = .view o t r) :
    (o = [] ∨ isKwL o [XK.OR, XK.REPLACE]) ∧ (t = [] ∨ ∃ x, t = [x] ∧ (x.isKw DK.TEMP = true ∨ x.isKw DK.TEMPORARY = true)) := by
  unfold createHead createHeadTail at h
  split at h
  · simp at h
  · split at h
    · simp at h; obtain ⟨rfl, rfl, -⟩ := h
      exact ⟨kwsTail_wf _ _, tempTail_wf _⟩
    · split at h
      · simp at h
      · split at h <;> simp at h

theorem createHead_index_wf {ts t ik r : List Tok} (h : createHead ts = .index t ik r) :
    isKwL ik [XK.INDEX] ∨ isKwL ik [XK.UNIQUE, XK.INDEX] := by
  unfold createHead createHeadTail at h
  split at h
  · simp at h
  · split at h
    · simp at h
    · split at h
      · simp at h
      · split at h
        · rename_i ik' r' hk
          simp at h; obtain ⟨-, rfl, -⟩ := h
          exact indexKws_wf hk
        · simp at h

/-- every tree the statement parser builds is well formed -/
theorem parseStmt_wf (c : XCfg) (f limit : Nat) (ts : List Tok) (s : Stmt) (rest : List Tok)
    (h : parseStmt c f limit ts = .ok (s, rest)) : s.WF := by
  unfold parseStmt at h
  cases limit with
  | zero => simp at h
  | succ d =>
    simp only at h
    cases ts with
    | nil => simp at h
    | cons t r =>
      simp only at h
      split at h
      · rename_i hk
        split at h
        · rename_i o tm r1 hh
          obtain ⟨v, hv, rfl⟩ := mapRes_ok h
          obtain ⟨h1, h2⟩ := createHead_view_wf hh
          exact parseCreateView_wf _ _ _ _ hk _ _ h1 h2 _ _ _ hv
        · rename_i tm ik r1 hh
          obtain ⟨v, hv, rfl⟩ := mapRes_ok h
          exact parseCreateIndex_wf _ _ _ _ hk _ _ (createHead_index_wf hh) _ _ _ hv
        · obtain ⟨v, hv, rfl⟩ := mapRes_ok h
          exact SqlVerif.Dml.parseStmt_wf _ _ _ _ _ _ hv
      · split at h
        · rename_i hk
          obtain ⟨v, hv, rfl⟩ := mapRes_ok h
          exact parseAlter_wf _ _ _ _ hk _ _ _ hv
        · split at h
          · rename_i hk
            obtain ⟨v, hv, rfl⟩ := mapRes_ok h
            exact parseTruncate_wf _ _ _ hk _ _ _ hv
          · split at h
            · rename_i hk
              split at h
              · rename_i kind r1 hh
                obtain ⟨v, hv, rfl⟩ := mapRes_ok h
                exact parseDropObj_wf _ _ _ _ hk (dropHead_wf hh) _ _ _ hv
              · obtain ⟨v, hv, rfl⟩ := mapRes_ok h
                exact SqlVerif.Dml.parseStmt_wf _ _ _ _ _ _ hv
            · obtain ⟨v, hv, rfl⟩ := mapRes_ok h
              exact SqlVerif.Dml.parseStmt_wf _ _ _ _ _ _ hv

end SqlVerif.Ddl

import SqlVerif.Lemmas.DataTypeParse
/-!
Extension lemmas for the data-type model (`Model/DataType.lean`), non-recursive arms only: a type
parsed in front of EOF is parsed to the same value, leaving the same rest, in front of `,` `)` `;`
(the tokens that can follow a column type).  Used by `Lemmas/DmlExt.lean` for the locality of
column definitions (C13) and of `CREATE TABLE` statements (C11).
-/
set_option linter.unusedSectionVars false
set_option linter.unusedSimpArgs false
namespace SqlVerif.DTy
open SqlVerif.Pratt (W Sym str wordDisplay)

/-- a token that separates a column type from what follows: `,` `)` `;` -/
def sepTok : Tok → Bool
  | .sym .Comma | .sym .RParen | .sym .SemiColon => true
  | _ => false

theorem sepTok_shape {x : Tok} (h : sepTok x = true) : x = .sym .Comma ∨ x = .sym .RParen ∨ x = .sym .SemiColon := by
  unfold sepTok at h
  split at h <;> simp_all

theorem expectSym_ext {s : Sym} {ts r' : List Tok} (S : List Tok) (h : expectSym s ts = .ok r') :
    expectSym s (ts ++ S) = .ok (r' ++ S) := by
  cases ts with
  | nil => simp [expectSym, expectedAt] at h
  | cons a b =>
    simp only [expectSym, List.cons_append] at h ⊢
    split at h
    · rename_i hs; simp at h; subst h; simp [hs]
    · simp [expectedAt] at h

theorem expectKw_ext {k : DKw} {n : String} {ts r' : List Tok} (S : List Tok) (h : expectKw k n ts = .ok r') :
    expectKw k n (ts ++ S) = .ok (r' ++ S) := by
  unfold expectKw at h ⊢
  cases ts with
  | nil => simp [peekKw, expectedAt] at h
  | cons a b =>
    split at h
    · rename_i hk
      simp at h; subst h
      have : peekKw (a :: (b ++ S)) k = true := by cases a <;> simp_all [peekKw]
      simp [this]
    · simp [expectedAt] at h

theorem literalUint_ext {ts : List Tok} {n : Nat} {r' : List Tok} (S : List Tok) (h : literalUint ts = .ok (n, r')) :
    literalUint (ts ++ S) = .ok (n, r' ++ S) := by
  unfold literalUint at h
  split at h
  · rename_i s l r0
    simp only [List.cons_append, literalUint]
    cases hp : parseU64 s with
    | error e => simp [hp, bind, Except.bind] at h
    | ok m => simp [hp, bind, Except.bind, pure, Except.pure] at h ⊢; obtain ⟨rfl, rfl⟩ := h; exact ⟨rfl, rfl⟩
  · simp [expectedAt] at h

section
variable {x : Tok} (hx : sepTok x = true) (r : List Tok)
include hx

theorem consumeSym_sep {s : Sym} (hs : s ≠ .Comma ∧ s ≠ .RParen ∧ s ≠ .SemiColon) (ts : List Tok) :
    consumeSym s (ts ++ x :: r) = (consumeSym s ts).map (· ++ x :: r) := by
  cases ts with
  | nil =>
    rcases sepTok_shape hx with rfl | rfl | rfl <;> simp [consumeSym, Tok.isSym] <;> intro h <;> simp_all
  | cons a b => simp only [List.cons_append, consumeSym]; split <;> simp

theorem peekKw_sep (k : DKw) (ts : List Tok) : peekKw (ts ++ x :: r) k = peekKw ts k := by
  cases ts with
  | nil => rcases sepTok_shape hx with rfl | rfl | rfl <;> rfl
  | cons a b => cases a <;> rfl

omit hx in
theorem tail_sep {k : DKw} {ts : List Tok} (S : List Tok) (h : peekKw ts k = true) : (ts ++ S).tail = ts.tail ++ S := by
  cases ts with
  | nil => simp [peekKw] at h
  | cons a b => rfl

theorem optPrecision_ext {ts : List Tok} {p : Option Nat × List Tok} (h : optPrecision ts = .ok p) :
    optPrecision (ts ++ x :: r) = .ok (p.1, p.2 ++ x :: r) := by
  unfold optPrecision at h ⊢
  rw [consumeSym_sep hx r (by simp)]
  cases hc : consumeSym .LParen ts with
  | none => simp [hc, pure, Except.pure] at h ⊢; subst h; exact ⟨rfl, rfl⟩
  | some r0 =>
    simp only [hc, Option.map] at h ⊢
    cases hl : literalUint r0 with
    | error e => simp [hl, bind, Except.bind] at h
    | ok nr =>
      obtain ⟨n, r1⟩ := nr
      rw [literalUint_ext _ hl]
      simp only [hl, bind, Except.bind] at h ⊢
      cases he : expectSym .RParen r1 with
      | error e => simp [he] at h
      | ok r2 =>
        rw [expectSym_ext _ he]
        simp [he, pure, Except.pure] at h ⊢; subst h; exact ⟨rfl, rfl⟩

theorem optCharLen_ext {ts : List Tok} {p : Option CharLen × List Tok} (h : optCharLen ts = .ok p) :
    optCharLen (ts ++ x :: r) = .ok (p.1, p.2 ++ x :: r) := by
  unfold optCharLen at h ⊢
  rw [consumeSym_sep hx r (by simp)]
  cases hc : consumeSym .LParen ts with
  | none => simp [hc, pure, Except.pure] at h ⊢; subst h; exact ⟨rfl, rfl⟩
  | some r0 =>
    simp only [hc, Option.map, peekKw_sep hx r] at h ⊢
    cases hm : peekKw r0 .MAX with
    | true =>
      simp only [hm, ↓reduceIte, tail_sep _ hm] at h ⊢
      cases he : expectSym .RParen r0.tail with
      | error e => simp [he, bind, Except.bind] at h
      | ok r2 =>
        rw [expectSym_ext _ he]
        simp [he, bind, Except.bind, pure, Except.pure] at h ⊢; subst h; exact ⟨rfl, rfl⟩
    | false =>
      simp only [hm, ↓reduceIte, Bool.false_eq_true] at h ⊢
      cases hl : literalUint r0 with
      | error e => simp [hl, bind, Except.bind] at h
      | ok nr =>
        obtain ⟨n, r1⟩ := nr
        rw [literalUint_ext _ hl]
        simp only [hl, bind, Except.bind, peekKw_sep hx r] at h ⊢
        cases h1 : peekKw r1 .CHARACTERS with
        | true =>
          simp only [h1, ↓reduceIte, tail_sep _ h1] at h ⊢
          cases he : expectSym .RParen r1.tail with
          | error e => simp [he] at h
          | ok r2 =>
            rw [expectSym_ext _ he]
            simp [he, pure, Except.pure] at h ⊢; subst h; exact ⟨rfl, rfl⟩
        | false =>
          simp only [h1, ↓reduceIte, Bool.false_eq_true] at h ⊢
          cases h2 : peekKw r1 .OCTETS with
          | true =>
            simp only [h2, ↓reduceIte, tail_sep _ h2] at h ⊢
            cases he : expectSym .RParen r1.tail with
            | error e => simp [he] at h
            | ok r2 =>
              rw [expectSym_ext _ he]
              simp [he, pure, Except.pure] at h ⊢; subst h; exact ⟨rfl, rfl⟩
          | false =>
            simp only [h2, ↓reduceIte, Bool.false_eq_true] at h ⊢
            cases he : expectSym .RParen r1 with
            | error e => simp [he] at h
            | ok r2 =>
              rw [expectSym_ext _ he]
              simp [he, pure, Except.pure] at h ⊢; subst h; exact ⟨rfl, rfl⟩

theorem optNumInfo_ext {ts : List Tok} {p : NumInfo × List Tok} (h : optNumInfo ts = .ok p) :
    optNumInfo (ts ++ x :: r) = .ok (p.1, p.2 ++ x :: r) := by
  unfold optNumInfo at h ⊢
  rw [consumeSym_sep hx r (by simp)]
  cases hc : consumeSym .LParen ts with
  | none => simp [hc, pure, Except.pure] at h ⊢; subst h; exact ⟨rfl, rfl⟩
  | some r0 =>
    simp only [hc, Option.map] at h ⊢
    cases hl : literalUint r0 with
    | error e => simp [hl, bind, Except.bind] at h
    | ok nr =>
      obtain ⟨n, r1⟩ := nr
      rw [literalUint_ext _ hl]
      simp only [hl, bind, Except.bind] at h ⊢
      cases r1 with
      | nil => simp [consumeSym, expectSym, expectedAt] at h
      | cons a b =>
        simp only [List.cons_append, consumeSym] at h ⊢
        cases ha : a.isSym .Comma with
        | true =>
          simp only [ha, ↓reduceIte] at h ⊢
          cases hl2 : literalUint b with
          | error e => simp [hl2] at h
          | ok nr2 =>
            obtain ⟨n2, r3⟩ := nr2
            rw [literalUint_ext _ hl2]
            simp only [hl2] at h ⊢
            cases he : expectSym .RParen r3 with
            | error e => simp [he] at h
            | ok r4 =>
              rw [expectSym_ext _ he]
              simp [he, pure, Except.pure] at h ⊢; subst h; exact ⟨rfl, rfl⟩
        | false =>
          simp only [ha, ↓reduceIte, Bool.false_eq_true] at h ⊢
          cases he : expectSym .RParen (a :: b) with
          | error e => simp [he] at h
          | ok r4 =>
            have := expectSym_ext (x :: r) he
            simp only [List.cons_append] at this
            rw [this]
            simp [he, pure, Except.pure] at h ⊢; subst h; exact ⟨rfl, rfl⟩

theorem optTz_ext {ts : List Tok} {p : TzInfo × List Tok} (h : optTz ts = .ok p) :
    optTz (ts ++ x :: r) = .ok (p.1, p.2 ++ x :: r) := by
  unfold optTz at h ⊢
  simp only [peekKw_sep hx r]
  cases h1 : peekKw ts .WITH with
  | true =>
    simp only [h1, ↓reduceIte, tail_sep _ h1] at h ⊢
    cases he : expectKw .TIME "TIME" ts.tail with
    | error e => simp [he, bind, Except.bind] at h
    | ok r1 =>
      rw [expectKw_ext _ he]
      simp only [he, bind, Except.bind] at h ⊢
      cases he2 : expectKw .ZONE "ZONE" r1 with
      | error e => simp [he2] at h
      | ok r2 =>
        rw [expectKw_ext _ he2]
        simp [he2, pure, Except.pure] at h ⊢; subst h; exact ⟨rfl, rfl⟩
  | false =>
    simp only [h1, ↓reduceIte, Bool.false_eq_true] at h ⊢
    cases h2 : peekKw ts .WITHOUT with
    | true =>
      simp only [h2, ↓reduceIte, tail_sep _ h2] at h ⊢
      cases he : expectKw .TIME "TIME" ts.tail with
      | error e => simp [he, bind, Except.bind] at h
      | ok r1 =>
        rw [expectKw_ext _ he]
        simp only [he, bind, Except.bind] at h ⊢
        cases he2 : expectKw .ZONE "ZONE" r1 with
        | error e => simp [he2] at h
        | ok r2 =>
          rw [expectKw_ext _ he2]
          simp [he2, pure, Except.pure] at h ⊢; subst h; exact ⟨rfl, rfl⟩
    | false =>
      simp [h2, pure, Except.pure] at h ⊢; subst h; exact ⟨rfl, rfl⟩

theorem charFamily_ext (plain varying : CharKind) (large : LenKind) {ts : List Tok} {p : DT × List Tok}
    (h : charFamily plain varying large ts = .ok p) :
    charFamily plain varying large (ts ++ x :: r) = .ok (p.1, p.2 ++ x :: r) := by
  unfold charFamily at h ⊢
  simp only [peekKw_sep hx r]
  cases h1 : peekKw ts .VARYING with
  | true =>
    simp only [h1, ↓reduceIte, tail_sep _ h1] at h ⊢
    cases ho : optCharLen ts.tail with
    | error e => simp [ho, bind, Except.bind] at h
    | ok q =>
      rw [optCharLen_ext hx r ho]
      simp [ho, bind, Except.bind, pure, Except.pure] at h ⊢; subst h; exact ⟨rfl, rfl⟩
  | false =>
    simp only [h1, ↓reduceIte, Bool.false_eq_true, Bool.false_and] at h ⊢
    cases h2 : peekKw ts .LARGE with
    | true =>
      have ht : (ts ++ x :: r).tail = ts.tail ++ x :: r := tail_sep _ h2
      simp only [h2, Bool.true_and, ht, peekKw_sep hx r] at h ⊢
      cases h3 : peekKw ts.tail .OBJECT with
      | true =>
        simp only [h3, ↓reduceIte, tail_sep _ h3] at h ⊢
        cases ho : optPrecision ts.tail.tail with
        | error e => simp [ho, bind, Except.bind] at h
        | ok q =>
          rw [optPrecision_ext hx r ho]
          simp [ho, bind, Except.bind, pure, Except.pure] at h ⊢; subst h; exact ⟨rfl, rfl⟩
      | false =>
        simp only [h3, ↓reduceIte, Bool.false_eq_true] at h ⊢
        cases ho : optCharLen ts with
        | error e => simp [ho, bind, Except.bind] at h
        | ok q =>
          rw [optCharLen_ext hx r ho]
          simp [ho, bind, Except.bind, pure, Except.pure] at h ⊢; subst h; exact ⟨rfl, rfl⟩
    | false =>
      simp only [h2, Bool.false_and, ↓reduceIte, Bool.false_eq_true] at h ⊢
      cases ho : optCharLen ts with
      | error e => simp [ho, bind, Except.bind] at h
      | ok q =>
        rw [optCharLen_ext hx r ho]
        simp [ho, bind, Except.bind, pure, Except.pure] at h ⊢; subst h; exact ⟨rfl, rfl⟩

omit hx in
theorem afterCommaEnds_append (tc : Bool) {r : List Tok} (hr : r ≠ []) (S : List Tok) :
    afterCommaEnds tc (r ++ S) = afterCommaEnds tc r := by
  cases r with
  | nil => exact absurd rfl hr
  | cons a b =>
    cases a <;> try rfl
    rename_i s; cases s <;> rfl

omit hx in
theorem strVals_ext (c : Cfg) (S : List Tok) : ∀ (n : Nat) (ts : List Tok) (p : List W × List Tok), ts.length ≤ n →
    strVals c ts = .ok p → p.2 ≠ [] → strVals c (ts ++ S) = .ok (p.1, p.2 ++ S) := by
  intro n
  induction n with
  | zero =>
    intro ts p hl h
    have : ts = [] := by cases ts <;> simp_all
    subst this; simp [strVals, expectedAt] at h
  | succ n ih =>
    intro ts p hl h hp
    unfold strVals at h
    split at h
    · rename_i v r0
      simp only [List.cons_append]
      unfold strVals
      cases r0 with
      | nil =>
        cases hc : c.trailingCommas <;> simp [hc, afterCommaEnds, strVals, expectedAt, pure, Except.pure, bind, Except.bind] at h
        subst h; simp at hp
      | cons a b =>
        rw [afterCommaEnds_append _ (by simp)]
        cases he : afterCommaEnds c.trailingCommas (a :: b) with
        | true => simp [he, pure, Except.pure] at h ⊢; subst h; exact ⟨rfl, rfl⟩
        | false =>
          simp only [he, Bool.false_eq_true, ↓reduceIte] at h ⊢
          cases hr : strVals c (a :: b) with
          | error e => simp [hr, bind, Except.bind] at h
          | ok q =>
            have hq : q.2 = p.2 := by simp [hr, bind, Except.bind, pure, Except.pure] at h; subst h; rfl
            rw [ih (a :: b) q (by simp at hl ⊢; omega) hr (hq ▸ hp)]
            simp [hr, bind, Except.bind, pure, Except.pure] at h ⊢; subst h; exact ⟨rfl, rfl⟩
    · rename_i v r0 hnc
      simp [pure, Except.pure] at h; subst h
      cases r0 with
      | nil => simp at hp
      | cons a b =>
        simp only [List.cons_append]
        unfold strVals
        split
        · rename_i heq; simp at heq; exact (hnc b (by rw [heq.2.1])).elim
        · rename_i heq; simp at heq; obtain ⟨rfl, rfl⟩ := heq; rfl
        · rename_i _ hx; exact (hx _ _ rfl).elim
    · simp [expectedAt] at h

omit hx in
theorem stringValues_ext (c : Cfg) (S : List Tok) {ts : List Tok} {p : List W × List Tok} (h : stringValues c ts = .ok p) :
    stringValues c (ts ++ S) = .ok (p.1, p.2 ++ S) := by
  unfold stringValues at h ⊢
  cases he : expectSym .LParen ts with
  | error e => simp [he, bind, Except.bind] at h
  | ok r0 =>
    rw [expectSym_ext _ he]
    simp only [he, bind, Except.bind] at h ⊢
    cases hs : strVals c r0 with
    | error e => simp [hs] at h
    | ok q =>
      obtain ⟨vs, r1⟩ := q
      simp only [hs] at h
      cases he2 : expectSym .RParen r1 with
      | error e => simp [he2] at h
      | ok r2 =>
        have hne : r1 ≠ [] := by intro h0; subst h0; simp [expectSym, expectedAt] at he2
        rw [strVals_ext c S _ r0 _ (Nat.le_refl _) hs hne]
        simp only [expectSym_ext _ he2]
        simp [he2, pure, Except.pure] at h ⊢; subst h; exact ⟨rfl, rfl⟩
theorem objName_ext : ∀ (n : Nat) (ts : List Tok) (p : List Ident × List Tok), ts.length ≤ n →
    objName ts = .ok p → objName (ts ++ x :: r) = .ok (p.1, p.2 ++ x :: r) := by
  intro n
  induction n with
  | zero =>
    intro ts p hl h
    have : ts = [] := by cases ts <;> simp_all
    subst this; simp [objName, expectedAt] at h
  | succ n ih =>
    intro ts p hl h
    cases ts with
    | nil => simp [objName, expectedAt] at h
    | cons t r0 =>
      simp only [List.cons_append]
      unfold objName at h ⊢
      cases hp : parseIdent [t] with
      | error e => simp [hp, expectedAt] at h
      | ok q =>
        obtain ⟨i, q2⟩ := q
        simp only [hp] at h ⊢
        cases r0 with
        | nil =>
          simp [pure, Except.pure] at h; subst h
          rcases sepTok_shape hx with rfl | rfl | rfl <;> simp [pure, Except.pure]
        | cons a b =>
          simp only [List.cons_append]
          by_cases ha : a = .sym .Period
          · subst ha
            simp only at h ⊢
            cases hr : objName b with
            | error e => simp [hr, bind, Except.bind] at h
            | ok q =>
              rw [ih b q (by simp at hl; omega) hr]
              simp [hr, bind, Except.bind, pure, Except.pure] at h ⊢; subst h; exact ⟨rfl, rfl⟩
          · split at h
            · rename_i r' heq; simp at heq; exact absurd heq.1 ha
            · split
              · rename_i r' heq; simp at heq; exact absurd heq.1 ha
              · simp [pure, Except.pure] at h ⊢; subst h; exact ⟨rfl, rfl⟩

omit hx in
theorem modLoop_ext (S : List Tok) : ∀ (n : Nat) (ts : List Tok) (p : List W × List Tok), ts.length ≤ n →
    modLoop ts = .ok p → modLoop (ts ++ S) = .ok (p.1, p.2 ++ S) := by
  intro n
  induction n with
  | zero =>
    intro ts p hl h
    have : ts = [] := by cases ts <;> simp_all
    subst this; simp [modLoop, expectedAt] at h
  | succ n ih =>
    intro ts p hl h
    cases ts with
    | nil => simp [modLoop, expectedAt] at h
    | cons t r0 =>
      simp only [List.cons_append]
      have hl' : r0.length ≤ n := by simp at hl; omega
      unfold modLoop at h ⊢
      split at h
      · rename_i v q kw
        split at h
        · simp at h
        · rename_i s hs
          simp only [hs]
          cases hr : modLoop r0 with
          | error e => simp [hr, bind, Except.bind] at h
          | ok q =>
            rw [ih r0 q hl' hr]
            simp [hr, bind, Except.bind, pure, Except.pure] at h ⊢; subst h; exact ⟨rfl, rfl⟩
      · cases hr : modLoop r0 with
        | error e => simp [hr, bind, Except.bind] at h
        | ok q =>
          rw [ih r0 q hl' hr]
          simp [hr, bind, Except.bind, pure, Except.pure] at h ⊢; subst h; exact ⟨rfl, rfl⟩
      · cases hr : modLoop r0 with
        | error e => simp [hr, bind, Except.bind] at h
        | ok q =>
          rw [ih r0 q hl' hr]
          simp [hr, bind, Except.bind, pure, Except.pure] at h ⊢; subst h; exact ⟨rfl, rfl⟩
      · exact ih r0 p hl' h
      · simp [pure, Except.pure] at h ⊢; subst h; exact ⟨rfl, rfl⟩
      · simp [expectedAt] at h

theorem parseCustom_ext (c : Cfg) {ts : List Tok} {p : DT × List Tok} (h : parseCustom c ts = .ok p) :
    parseCustom c (ts ++ x :: r) = .ok (p.1, p.2 ++ x :: r) := by
  unfold parseCustom at h ⊢
  cases ho : objName ts with
  | error e => simp [ho, bind, Except.bind] at h
  | ok q =>
    obtain ⟨name, r0⟩ := q
    rw [objName_ext hx r _ _ _ (Nat.le_refl _) ho]
    simp only [ho, bind, Except.bind, consumeSym_sep hx r (s := .LParen) (by simp)] at h ⊢
    cases hc : consumeSym .LParen r0 with
    | none => simp [hc, pure, Except.pure] at h ⊢; subst h; exact ⟨rfl, rfl⟩
    | some r1 =>
      simp only [hc, Option.map] at h ⊢
      cases hm : modLoop r1 with
      | error e => simp [hm] at h
      | ok q =>
        rw [modLoop_ext _ _ _ _ (Nat.le_refl _) hm]
        simp [hm, pure, Except.pure] at h ⊢; subst h; exact ⟨rfl, rfl⟩

set_option hygiene false in
macro "arm_bind" G:term "," E:term : tactic => `(tactic| (
  cases ho : $G with
  | error e => simp [ho, bind, Except.bind] at hr
  | ok q => rw [$E ho]; simp [ho, bind, Except.bind, pure, Except.pure] at hr ⊢; subst hr; exact ⟨rfl, rfl⟩))

theorem intArm_ext (k : IntKind) {ts : List Tok} {p : DT × List Tok}
    (hr : (do let (l, r) ← optPrecision ts
              if peekKw r .UNSIGNED then pure (DT.int k l true, r.tail) else pure (DT.int k l false, r) : Except Err (DT × List Tok)) = .ok p) :
    (do let (l, r0) ← optPrecision (ts ++ x :: r)
        if peekKw r0 .UNSIGNED then pure (DT.int k l true, r0.tail) else pure (DT.int k l false, r0) : Except Err (DT × List Tok)) =
      .ok (p.1, p.2 ++ x :: r) := by
  cases ho : optPrecision ts with
  | error e => simp [ho, bind, Except.bind] at hr
  | ok q =>
    rw [optPrecision_ext hx r ho]
    simp only [ho, bind, Except.bind, peekKw_sep hx r] at hr ⊢
    cases hu : peekKw q.2 .UNSIGNED with
    | true => simp [hu, pure, Except.pure, tail_sep _ hu] at hr ⊢; subst hr; exact ⟨rfl, rfl⟩
    | false => simp [hu, pure, Except.pure] at hr ⊢; subst hr; exact ⟨rfl, rfl⟩

theorem timeArm_ext (F : Option Nat → TzInfo → DT) {ts : List Tok} {p : DT × List Tok}
    (hr : (do let (pr, r) ← optPrecision ts
              let (tzi, r1) ← optTz r
              pure (F pr tzi, r1) : Except Err (DT × List Tok)) = .ok p) :
    (do let (pr, r0) ← optPrecision (ts ++ x :: r)
        let (tzi, r1) ← optTz r0
        pure (F pr tzi, r1) : Except Err (DT × List Tok)) = .ok (p.1, p.2 ++ x :: r) := by
  cases ho : optPrecision ts with
  | error e => simp [ho, bind, Except.bind] at hr
  | ok q =>
    rw [optPrecision_ext hx r ho]
    simp only [ho, bind, Except.bind] at hr ⊢
    cases ht : optTz q.2 with
    | error e => simp [ht] at hr
    | ok q2 =>
      rw [optTz_ext hx r ht]
      simp [ht, pure, Except.pure] at hr ⊢; subst hr; exact ⟨rfl, rfl⟩

omit hx in
theorem fixedArm_ext (S : List Tok) {ts : List Tok} {p : DT × List Tok}
    (hr : (do let r ← expectSym .LParen ts
              let (n, r1) ← literalUint r
              let r2 ← expectSym .RParen r1
              pure (DT.fixedString n, r2) : Except Err (DT × List Tok)) = .ok p) :
    (do let r ← expectSym .LParen (ts ++ S)
        let (n, r1) ← literalUint r
        let r2 ← expectSym .RParen r1
        pure (DT.fixedString n, r2) : Except Err (DT × List Tok)) = .ok (p.1, p.2 ++ S) := by
  cases he : expectSym .LParen ts with
  | error e => simp [he, bind, Except.bind] at hr
  | ok r0 =>
    rw [expectSym_ext _ he]
    simp only [he, bind, Except.bind] at hr ⊢
    cases hl : literalUint r0 with
    | error e => simp [hl] at hr
    | ok q =>
      obtain ⟨n, r1⟩ := q
      rw [literalUint_ext _ hl]
      simp only [hl] at hr ⊢
      cases he2 : expectSym .RParen r1 with
      | error e => simp [he2] at hr
      | ok r2 =>
        rw [expectSym_ext _ he2]
        simp [he2, pure, Except.pure] at hr ⊢; subst hr; exact ⟨rfl, rfl⟩

theorem parseLeaf_ext (c : Cfg) (kw : DKw) (hk : kw ≠ .DATETIME64) {ts : List Tok} {res : Except Err (DT × List Tok)}
    {p : DT × List Tok} (h : parseLeaf c kw ts = some res) (hr : res = .ok p) :
    parseLeaf c kw (ts ++ x :: r) = some (.ok (p.1, p.2 ++ x :: r)) := by
  cases kw <;> simp only [parseLeaf, simpleOfKw, lenOfKw, intOfKw, numOfKw, Option.some.injEq, reduceCtorEq] at h ⊢ <;>
    (try subst h) <;>
    first
    | exact absurd rfl hk
    | (simp at h; done)
    | (simp [pure, Except.pure] at hr ⊢; subst hr; exact ⟨rfl, rfl⟩)
    | exact charFamily_ext hx r _ _ _ hr
    | exact intArm_ext hx r _ hr
    | exact timeArm_ext hx r _ hr
    | exact fixedArm_ext _ hr
    | arm_bind (optCharLen ts), (optCharLen_ext hx r)
    | arm_bind (optPrecision ts), (optPrecision_ext hx r)
    | arm_bind (optNumInfo ts), (optNumInfo_ext hx r)
    | arm_bind (stringValues c ts), (stringValues_ext c (x :: r))
    | (simp only [peekKw_sep hx r]
       cases hu : peekKw ts .PRECISION with
       | true => simp [hu, pure, Except.pure, tail_sep _ hu] at hr ⊢; subst hr; exact ⟨rfl, rfl⟩
       | false => simp [hu, pure, Except.pure] at hr ⊢; subst hr; exact ⟨rfl, rfl⟩)

omit hx in
theorem parseLeaf_none' (c : Cfg) (kw : DKw) (ts ts' : List Tok) (h : parseLeaf c kw ts = none) : parseLeaf c kw ts' = none := by
  cases kw <;> simp [parseLeaf, simpleOfKw, lenOfKw, intOfKw, numOfKw] at h ⊢

theorem flat_ext (c : Cfg) {ts : List Tok} {p : DT × List Tok}
    (hk : ∀ v q kw r0, ts = .word v q kw :: r0 → kw ≠ .DATETIME64) (h : flat c ts = .ok p) :
    flat c (ts ++ x :: r) = .ok (p.1, p.2 ++ x :: r) := by
  cases ts with
  | nil => simp [flat, expectedAt] at h
  | cons t r0 =>
    cases t with
    | word v q kw =>
      simp only [flat, List.cons_append] at h ⊢
      cases hl : parseLeaf c kw r0 with
      | some res =>
        simp only [hl] at h
        rw [parseLeaf_ext hx r c kw (hk v q kw r0 rfl) hl h]
      | none =>
        simp only [hl, parseLeaf_none' c kw r0 (r0 ++ x :: r) hl] at h ⊢
        have := parseCustom_ext hx r c h
        simpa using this
    | _ => simp [flat, expectedAt] at h

theorem literalUint_err_ext {ts : List Tok} {e : Err} (h : literalUint ts = .error e) :
    ∃ e', literalUint (ts ++ x :: r) = .error e' := by
  cases ts with
  | nil => rcases sepTok_shape hx with rfl | rfl | rfl <;> exact ⟨_, rfl⟩
  | cons a b =>
    cases a with
    | number s l =>
      simp only [literalUint, List.cons_append] at h ⊢
      cases hp : parseU64 s with
      | error e2 => exact ⟨e2, by simp [hp, bind, Except.bind]⟩
      | ok m => simp [hp, bind, Except.bind, pure, Except.pure] at h
    | _ => exact ⟨_, rfl⟩

theorem suffixLoop_ext (c : Cfg) : ∀ (f : Nat) (t : DT) (ts : List Tok) (p : DT × List Tok),
    suffixLoop c f t ts = .ok p → suffixLoop c f t (ts ++ x :: r) = .ok (p.1, p.2 ++ x :: r) := by
  intro f
  induction f with
  | zero => intro t ts p h; simp [suffixLoop] at h
  | succ f ih =>
    intro t ts p h
    simp only [suffixLoop, consumeSym_sep hx r (s := .LBracket) (by simp)] at h ⊢
    cases hc : consumeSym .LBracket ts with
    | none => simp [hc, pure, Except.pure] at h ⊢; subst h; exact ⟨rfl, rfl⟩
    | some r0 =>
      simp only [hc, Option.map] at h ⊢
      have key : ∀ (b : Bool),
          (match expectSym .RBracket (if b = true then
              match literalUint r0 with
              | .ok (n, r') => (some n, r')
              | .error _ => (none, r0) else (none, r0)).snd with
            | .error e => (Except.error e : Except Err (DT × List Tok))
            | .ok r2 => suffixLoop c f (t.arraySquare (if b = true then
              match literalUint r0 with
              | .ok (n, r') => (some n, r')
              | .error _ => (none, r0) else (none, r0)).fst) r2) = .ok p →
          (match expectSym .RBracket (if b = true then
              match literalUint (r0 ++ x :: r) with
              | .ok (n, r') => (some n, r')
              | .error _ => (none, r0 ++ x :: r) else (none, r0 ++ x :: r)).snd with
            | .error e => (Except.error e : Except Err (DT × List Tok))
            | .ok r2 => suffixLoop c f (t.arraySquare (if b = true then
              match literalUint (r0 ++ x :: r) with
              | .ok (n, r') => (some n, r')
              | .error _ => (none, r0 ++ x :: r) else (none, r0 ++ x :: r)).fst) r2) = .ok (p.1, p.2 ++ x :: r) := by
        intro b h
        cases b with
        | true =>
          simp only [if_true] at h ⊢
          cases hl : literalUint r0 with
          | ok q =>
            obtain ⟨n, r1⟩ := q
            rw [literalUint_ext _ hl]
            simp only [hl] at h ⊢
            cases he : expectSym .RBracket r1 with
            | error e => simp [he] at h
            | ok r2 =>
              rw [expectSym_ext _ he]
              simp only [he] at h ⊢
              exact ih _ _ _ h
          | error e =>
            obtain ⟨e', he'⟩ := literalUint_err_ext hx r hl
            simp only [hl, he'] at h ⊢
            cases he : expectSym .RBracket r0 with
            | error e => simp [he] at h
            | ok r2 =>
              rw [expectSym_ext _ he]
              simp only [he] at h ⊢
              exact ih _ _ _ h
        | false =>
          simp only [Bool.false_eq_true, if_false] at h ⊢
          cases he : expectSym .RBracket r0 with
          | error e => simp [he] at h
          | ok r2 =>
            rw [expectSym_ext _ he]
            simp only [he] at h ⊢
            exact ih _ _ _ h
      exact key _ h

theorem finish_ext (c : Cfg) (f : Nat) (t : DT) (tr : Bool) {ts : List Tok} {p : DT × Bool × List Tok}
    (h : finish c f t tr ts = .ok p) : finish c f t tr (ts ++ x :: r) = .ok (p.1, p.2.1, p.2.2 ++ x :: r) := by
  unfold finish at h ⊢
  cases hs : suffixLoop c f t ts with
  | error e => simp [hs] at h
  | ok q =>
    rw [suffixLoop_ext hx r c f t ts q hs]
    simp [hs] at h ⊢; subst h; exact ⟨rfl, rfl, rfl⟩

/-- the first token is a word whose keyword selects a non-recursive arm other than `DATETIME64` -/
def headPlain (c : Cfg) : List Tok → Bool
  | .word _ _ kw :: _ => (headOf c kw).isNone && kw != .DATETIME64
  | _ => false

omit hx in
theorem headPlain_flat (c : Cfg) {ts : List Tok} (h : headPlain c ts = true) : headFlat c ts = true := by
  cases ts with
  | nil => simp [headPlain] at h
  | cons t r0 => cases t <;> simp_all [headPlain, headFlat]

/-- **the data-type parser on a non-recursive type repeats a successful run in front of `,` `)` `;`** -/
theorem parseDataType_ext (c : Cfg) (f d : Nat) {ts : List Tok} (hp : headPlain c ts = true) {p : DT × List Tok}
    (h : parseDataType c f d ts = .ok p) : parseDataType c f d (ts ++ x :: r) = .ok (p.1, p.2 ++ x :: r) := by
  have hp' : headPlain c (ts ++ x :: r) = true := by
    cases ts with
    | nil => simp [headPlain] at hp
    | cons t r0 => cases t <;> simp_all [headPlain]
  cases f with
  | zero => simp [parseDataType, parseHelper] at h
  | succ f =>
    cases d with
    | zero => simp [parseDataType, parseHelper] at h
    | succ d =>
      unfold parseDataType at h ⊢
      rw [helper_flat2 c f d _ (headPlain_flat c hp)] at h
      rw [helper_flat2 c f d _ (headPlain_flat c hp')]
      cases hf : flat c ts with
      | error e => simp [hf] at h
      | ok q =>
        have hk : ∀ v q kw r0, ts = .word v q kw :: r0 → kw ≠ .DATETIME64 := by
          intro v q kw r0 he; subst he
          simp [headPlain] at hp; exact hp.2
        rw [flat_ext hx r c hk hf]
        simp only [hf] at h ⊢
        cases hfin : finish c f q.1 false q.2 with
        | error e => simp [hfin] at h
        | ok q2 =>
          rw [finish_ext hx r c f q.1 false hfin]
          simp only [hfin] at h ⊢
          split at h
          · simp at h
          · rename_i htr
            simp at h; subst h
            simp [htr]
end
end SqlVerif.DTy

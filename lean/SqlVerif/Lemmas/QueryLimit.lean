import SqlVerif.Lemmas.LimitLemmas
import SqlVerif.Lemmas.QueryFuel
/-!
Limit lemmas for the query model (`Model/Query.lean`), used by `Props/C12Query.lean`.

* `LRel x y` ("`x` is the limit error, or `x = y`") and `*_lim` / `qlim_mono_all`: every function of
  the query layer, run under remaining depth `d`, answers `Err.rle` or is the run under any `d' ≥ d`
  (simultaneous induction on the fuel for the mutual block; `parseQuery` and `parseStatement`
  decrement, `fromItems` tests `d = 0` and passes `d - 1` to the derived-table query, everything else
  passes `d` through to the expression parser, whose own lemma is `Pratt.mono_all`).
* `Pratt.norle_all`, `*_norle` / `qnorle_all`: a run whose remaining depth is at least the number of
  remaining tokens plus two never answers `Err.rle` (every recursion level is paid for by a consumed
  token — prefix operator, `(`, infix operator, `,`, `SELECT` — except the level `parse_subexpr` /
  `parse_query` itself holds and the free level `parse_prefix` needs); `parseStatement_norle`,
  `parseScript_norle`: limit `≥ n + 3`.
-/
namespace SqlVerif.Pratt

@[simp] theorem expected_ne_rle (w : String) (t : Option Tok) : expected w t ≠ .rle := by
  unfold expected; split <;> simp

@[simp] theorem noInfix_ne_rle (t : Option Tok) : noInfix t ≠ .rle := by
  unfold noInfix; split <;> simp

@[simp] theorem quantMsg_ne_rle (o : BinOp) : quantMsg o ≠ .rle := by
  simp [quantMsg]

theorem compoundTail_ne_rle (acc ts : List Tok) : compoundTail acc ts ≠ .error .rle := by
  fun_induction compoundTail acc ts <;> simp_all

theorem wordTail_ne_rle (c : Cfg) (t : Tok) (v : W) (rest : List Tok) : wordTail c t v rest ≠ .error .rle := by
  unfold wordTail
  repeat' split
  all_goals first
    | (simp; done)
    | (rename_i hc; intro h; simp at h; subst h; exact compoundTail_ne_rle _ _ hc)

theorem prefixHead_ne_rle (c : Cfg) (ts : List Tok) : prefixHead c ts ≠ .error .rle := by
  unfold prefixHead
  repeat' split
  all_goals first
    | (simp; done)
    | exact wordTail_ne_rle _ _ _ _

theorem collateCheck_ne_rle (e : Expr) (rest : List Tok) : collateCheck e rest ≠ .error .rle := by
  unfold collateCheck; split <;> simp

theorem notFamilyTail_ne_rle (c : Cfg) (neg : Bool) (pre ts : List Tok) : notFamilyTail c neg pre ts ≠ .error .rle := by
  unfold notFamilyTail
  repeat' split
  all_goals (simp; done)

theorem infixHead_ne_rle (c : Cfg) (d q : Nat) (ts : List Tok) (hd : d ≠ 0) : infixHead c d q ts ≠ .error .rle := by
  unfold infixHead
  repeat' split
  all_goals first
    | (simp; done)
    | exact notFamilyTail_ne_rle _ _ _ _
    | (rename_i h0; exact absurd h0 hd)

theorem escapeTail_ne_rle (c : Cfg) (ts : List Tok) : escapeTail c ts ≠ .error .rle := by
  unfold escapeTail
  repeat' split
  all_goals (simp; done)


/-- **the expression parser never reports the limit when the remaining depth exceeds the number of
tokens by two**: every recursion level is paid for by a consumed token (prefix operator, `(`, infix
operator, `,`), except the level `parse_subexpr` itself holds and the free level `parse_prefix` needs -/
theorem norle_all (c : Cfg) (f : Nat) :
    (∀ d p ts, ts.length + 2 ≤ d → parseSubexpr c f d p ts ≠ .error .rle) ∧
    (∀ d p e ts, ts.length + 1 ≤ d → loop c f d p e ts ≠ .error .rle) ∧
    (∀ d ts, ts.length + 1 ≤ d → parsePrefix c f d ts ≠ .error .rle) ∧
    (∀ d e q ts, ts.length + 1 ≤ d → parseInfix c f d e q ts ≠ .error .rle) ∧
    (∀ d ts, ts.length + 2 ≤ d → parseItems c f d ts ≠ .error .rle) := by
  induction f with
  | zero =>
    refine ⟨?_, ?_, ?_, ?_, ?_⟩ <;> intros <;> simp [parseSubexpr, loop, parsePrefix, parseInfix, parseItems]
  | succ f ih =>
    obtain ⟨ihS, ihL, ihP, ihI, ihT⟩ := ih
    refine ⟨?_, ?_, ?_, ?_, ?_⟩
    · intro d p ts hf
      cases d with
      | zero => omega
      | succ d =>
        simp only [parseSubexpr]
        split
        · rename_i er hp
          intro h; simp at h; subst h
          exact ihP _ _ (by omega) hp
        · rename_i e ts' hp
          have := prefix_lt hp
          exact ihL _ _ _ _ (by omega)
    · intro d p e ts hf
      simp only [loop]
      split
      · simp
      · split
        · rename_i er hi
          intro h; simp at h; subst h
          exact ihI _ _ _ _ (by omega) hi
        · rename_i e' ts' hi
          have := infix_lt hi
          exact ihL _ _ _ _ (by omega)
    · intro d ts hf
      simp only [parsePrefix]
      split
      · omega
      split
      · rename_i er hh; intro h; simp at h; subst h; exact prefixHead_ne_rle _ _ hh
      all_goals (rename_i hh; have hl := prefixHead_len _ _ _ hh; simp only [PrefixPlan.rest] at hl)
      · exact collateCheck_ne_rle _ _
      · split
        · rename_i er hs; intro h; simp at h; subst h; exact ihS _ _ _ (by omega) hs
        · exact collateCheck_ne_rle _ _
      · split
        · rename_i er hs; intro h; simp at h; subst h; exact ihS _ _ _ (by omega) hs
        · split
          · simp
          · split
            · simp
            · exact collateCheck_ne_rle _ _
          · simp
    · intro d e q ts hf
      simp only [parseInfix]
      split
      · rename_i er hh; intro h; simp at h; subst h; exact infixHead_ne_rle _ _ _ _ (by omega) hh
      all_goals (rename_i hh; have hl := infixHead_len _ _ _ _ _ hh; simp only [InfixPlan.rest] at hl)
      · split
        · rename_i er hs; intro h; simp at h; subst h; exact ihS _ _ _ (by omega) hs
        · simp
      · simp
      · split
        · rename_i er hs; intro h; simp at h; subst h; exact ihS _ _ _ (by omega) hs
        · split
          · rename_i er he; intro h; simp at h; subst h; exact escapeTail_ne_rle _ _ he
          · simp
          · simp
      · split
        · rename_i er hs; intro h; simp at h; subst h; exact ihS _ _ _ (by omega) hs
        · rename_i lo rest' hs
          have h1 := subexpr_le hs
          split
          · simp
          · rename_i andTok rest'' ha
            have h2 := (eatKw_some_iff _ _ _ _).1 ha
            rw [h2.1] at h1; simp at h1
            split
            · rename_i er hs2; intro h; simp at h; subst h; exact ihS _ _ _ (by omega) hs2
            · simp
      · split
        · simp
        · split
          · simp
          · split
            · rename_i er hs; intro h; simp at h; subst h; exact ihT _ _ (by omega) hs
            · split <;> simp
      · split
        · rename_i er hs; intro h; simp at h; subst h; exact ihS _ _ _ (by omega) hs
        · split
          · split <;> simp
          · simp
    · intro d ts hf
      simp only [parseItems]
      split
      · rename_i er hs; intro h; simp at h; subst h; exact ihS _ _ _ (by omega) hs
      · rename_i e rest hs
        have h1 := subexpr_le hs
        split
        · split
          · simp
          · simp at h1
            split
            · rename_i er ht; intro h; simp at h; subst h; exact ihT _ _ (by omega) ht
            · simp
        · simp

end SqlVerif.Pratt


namespace SqlVerif.Query
open SqlVerif.Pratt SqlVerif.Gen
open SqlVerif.SetClimb (Op SQuant precOf)

/-- "hits the limit, or is the same outcome" -/
def LRel {ε α : Type} (rle : ε) (x y : Except ε α) : Prop := x = .error rle ∨ x = y

/-- the relation for the parser's error type -/
abbrev LimR {α : Type} (x y : Except Err α) : Prop := LRel Err.rle x y

theorem LRel.refl {ε α : Type} (rle : ε) (x : Except ε α) : LRel rle x x := Or.inr rfl

theorem LRel.eq_of_ne {ε α : Type} {rle : ε} {x y : Except ε α} (h : LRel rle x y) (hx : x ≠ .error rle) : y = x := by
  rcases h with h | h
  · exact absurd h hx
  · exact h.symm

theorem parseE_lim (c : QCfg) (f : Nat) {d d' : Nat} (h : d ≤ d') (ts : List Tok) :
    LimR (parseE c f d ts) (parseE c f d' ts) := (mono_all c.e f).1 _ _ _ _ h

/-- one sequencing step of a limit-monotonicity proof: the sub-run under the smaller depth hit the
limit (then so does the caller), or it is the sub-run under the larger depth -/
macro "lr_step " h:term : tactic =>
  `(tactic| (have hlr := $h; rcases hlr with h1 | h1 <;> first | (left; rw [h1]; done) | rw [h1]))

theorem commaSepE_lim {α : Type} (tc : Bool) (elem elem' : List Tok → Res α)
    (hel : ∀ ts, LimR (elem ts) (elem' ts)) :
    ∀ (n : Nat) ts, LimR (commaSepE tc elem n ts) (commaSepE tc elem' n ts) := by
  intro n
  induction n with
  | zero => intro ts; right; simp [commaSepE]
  | succ n ih =>
    intro ts
    simp only [commaSepE]
    lr_step hel ts
    cases elem' ts with
    | error er => right; rfl
    | ok v =>
      obtain ⟨v, rest⟩ := v
      simp only
      split
      · rename_i rest'
        split
        · right; rfl
        · lr_step ih rest'
          right; rfl
      · right; rfl

theorem itemViaExpr_lim (c : QCfg) (f : Nat) {d d' : Nat} (h : d ≤ d') (ts : List Tok) :
    LimR (itemViaExpr c f d ts) (itemViaExpr c f d' ts) := by
  unfold itemViaExpr
  lr_step parseE_lim c f h ts
  right; rfl

theorem selectItem_lim (c : QCfg) (f : Nat) {d d' : Nat} (h : d ≤ d') (ts : List Tok) :
    LimR (selectItem c f d ts) (selectItem c f d' ts) := by
  unfold selectItem
  repeat' split
  all_goals first
    | exact itemViaExpr_lim c f h _
    | (right; rfl)

theorem groupByElem_lim (c : QCfg) (f : Nat) {d d' : Nat} (h : d ≤ d') (ts : List Tok) :
    LimR (groupByElem c f d ts) (groupByElem c f d' ts) := by
  unfold groupByElem
  split
  · right; rfl
  · exact parseE_lim c f h ts

theorem orderByElem_lim (c : QCfg) (f : Nat) {d d' : Nat} (h : d ≤ d') (ts : List Tok) :
    LimR (orderByElem c f d ts) (orderByElem c f d' ts) := by
  unfold orderByElem
  lr_step parseE_lim c f h ts
  right; rfl

theorem limPart_lim (c : QCfg) (f : Nat) {d d' : Nat} (h : d ≤ d') (cs : List LimClause) (ts : List Tok) :
    LimR (limPart c f d cs ts) (limPart c f d' cs ts) := by
  unfold limPart
  split
  · split
    · split
      · right; rfl
      · rename_i r _ _ _
        lr_step parseE_lim c f h r
        right; rfl
    · right; rfl
  · right; rfl

theorem offPart_lim (c : QCfg) (f : Nat) {d d' : Nat} (h : d ≤ d') (cs : List LimClause) (ts : List Tok) :
    LimR (offPart c f d cs ts) (offPart c f d' cs ts) := by
  unfold offPart
  split
  · split
    · rename_i kw r _
      lr_step parseE_lim c f h r
      right; rfl
    · right; rfl
  · right; rfl

theorem commaPart_lim (c : QCfg) (f : Nat) {d d' : Nat} (h : d ≤ d') (cs : List LimClause) (ts : List Tok) :
    LimR (commaPart c f d cs ts) (commaPart c f d' cs ts) := by
  unfold commaPart
  split
  · split
    · rename_i r
      lr_step parseE_lim c f h r
      right; rfl
    · right; rfl
  · right; rfl

theorem limStep_lim (c : QCfg) (f : Nat) {d d' : Nat} (h : d ≤ d') (cs : List LimClause) (ts : List Tok) :
    LimR (limStep c f d cs ts) (limStep c f d' cs ts) := by
  unfold limStep
  lr_step limPart_lim c f h cs ts
  cases limPart c f d' cs ts with
  | error er => right; rfl
  | ok v =>
    obtain ⟨cs1, ts1⟩ := v
    simp only
    lr_step offPart_lim c f h cs1 ts1
    cases offPart c f d' cs1 ts1 with
    | error er => right; rfl
    | ok v =>
      obtain ⟨cs2, ts2⟩ := v
      exact commaPart_lim c f h cs2 ts2

theorem orderPart_lim (c : QCfg) (f : Nat) {d d' : Nat} (h : d ≤ d') (ts : List Tok) :
    LimR (orderPart c f d ts) (orderPart c f d' ts) := by
  unfold orderPart
  split
  · rename_i kws r _
    lr_step commaSepE_lim c.e.trailingCommas _ _ (orderByElem_lim c f h) f r
    right; rfl
  · right; rfl

theorem queryTail_lim (c : QCfg) (f : Nat) {d d' : Nat} (h : d ≤ d') (ts : List Tok) :
    LimR (queryTail c f d ts) (queryTail c f d' ts) := by
  unfold queryTail
  lr_step orderPart_lim c f h ts
  cases orderPart c f d' ts with
  | error er => right; rfl
  | ok v =>
    obtain ⟨ko, ts1⟩ := v
    simp only
    lr_step limStep_lim c f h [] ts1
    cases limStep c f d' [] ts1 with
    | error er => right; rfl
    | ok v =>
      obtain ⟨cs1, ts2⟩ := v
      simp only
      lr_step limStep_lim c f h cs1 ts2
      right; rfl

theorem joinCstr_lim (c : QCfg) (f : Nat) {d d' : Nat} (h : d ≤ d') (ts : List Tok) :
    LimR (joinCstr c f d ts) (joinCstr c f d' ts) := by
  unfold joinCstr
  split
  · rename_i kw r _
    lr_step parseE_lim c f h r
    right; rfl
  · right; rfl

theorem optCstr_lim (c : QCfg) (f : Nat) {d d' : Nat} (h : d ≤ d') (b : Bool) (ts : List Tok) :
    LimR (optCstr c f d b ts) (optCstr c f d' b ts) := by
  unfold optCstr
  split
  · exact joinCstr_lim c f h ts
  · right; rfl

theorem kwExprPart_lim (c : QCfg) (f : Nat) {d d' : Nat} (h : d ≤ d') (k : Nat) (ts : List Tok) :
    LimR (kwExprPart c f d k ts) (kwExprPart c f d' k ts) := by
  unfold kwExprPart
  split
  · rename_i kw r _
    lr_step parseE_lim c f h r
    right; rfl
  · right; rfl

theorem groupPart_lim (c : QCfg) (f : Nat) {d d' : Nat} (h : d ≤ d') (ts : List Tok) :
    LimR (groupPart c f d ts) (groupPart c f d' ts) := by
  unfold groupPart
  split
  · rename_i kws r _
    split
    · right; rfl
    · lr_step commaSepE_lim c.e.trailingCommas _ _ (groupByElem_lim c f h) f r
      right; rfl
  · right; rfl

theorem selTail_lim (c : QCfg) (f : Nat) {d d' : Nat} (h : d ≤ d') (ts : List Tok) :
    LimR (selTail c f d ts) (selTail c f d' ts) := by
  unfold selTail
  split
  · right; rfl
  lr_step kwExprPart_lim c f h K.WHERE ts
  cases kwExprPart c f d' K.WHERE ts with
  | error er => right; rfl
  | ok v =>
    obtain ⟨w, ts1⟩ := v
    simp only
    lr_step groupPart_lim c f h ts1
    cases groupPart c f d' ts1 with
    | error er => right; rfl
    | ok v =>
      obtain ⟨gp, ts2⟩ := v
      simp only
      split
      · right; rfl
      lr_step kwExprPart_lim c f h K.HAVING ts2
      right; rfl

theorem selHead_lim (c : QCfg) (f : Nat) {d d' : Nat} (h : d ≤ d') (sel : Tok) (ts : List Tok) :
    LimR (selHead c f d sel ts) (selHead c f d' sel ts) := by
  unfold selHead
  split
  · right; rfl
  split
  · right; rfl
  · rename_i qd ts1 _
    split
    · right; rfl
    · lr_step commaSepE_lim (c.e.trailingCommas || c.projTrailing) _ _
        (selectItem_lim (c.withTrailing (c.e.trailingCommas || c.projTrailing)) f h) f ts1
      right; rfl

/-- **limit monotonicity of the query layer's mutual block** -/
theorem qlim_mono_all (c : QCfg) (f : Nat) : ∀ d d', d ≤ d' →
    (∀ ts, LimR (parseQuery c f d ts) (parseQuery c f d' ts)) ∧
    (∀ prec ts, LimR (queryBody c f d prec ts) (queryBody c f d' prec ts)) ∧
    (∀ e prec ts, LimR (remaining c f d e prec ts) (remaining c f d' e prec ts)) ∧
    (∀ sel ts, LimR (parseSelect c f d sel ts) (parseSelect c f d' sel ts)) ∧
    (∀ conn ts, LimR (fromItems c f d conn ts) (fromItems c f d' conn ts)) ∧
    (∀ cstr ts, LimR (fromRest c f d cstr ts) (fromRest c f d' cstr ts)) := by
  induction f with
  | zero =>
    intro d d' _
    refine ⟨?_, ?_, ?_, ?_, ?_, ?_⟩ <;> intros <;> right <;>
      simp [parseQuery, queryBody, remaining, parseSelect, fromItems, fromRest]
  | succ f ih =>
    intro d d' hd
    obtain ⟨_, ihB, ihR, ihS, ihI, ihF⟩ := ih d d' hd
    refine ⟨?_, ?_, ?_, ?_, ?_, ?_⟩
    · -- parseQuery
      intro ts
      cases d with
      | zero => left; simp [parseQuery]
      | succ d =>
        obtain ⟨d', rfl⟩ : ∃ e, d' = e + 1 := ⟨d' - 1, by omega⟩
        have hd1 : d ≤ d' := by omega
        simp only [parseQuery]
        split
        · right; rfl
        lr_step (ih d d' hd1).2.1 c.e.prec.unknown ts
        cases queryBody c f d' c.e.prec.unknown ts with
        | error er => right; rfl
        | ok v =>
          obtain ⟨body, ts1⟩ := v
          simp only
          lr_step queryTail_lim c f hd1 ts1
          right; rfl
    · -- queryBody
      intro prec ts
      cases ts with
      | nil => right; simp [queryBody]
      | cons t rest =>
        unfold queryBody
        simp only
        split
        · lr_step ihS t rest
          cases parseSelect c f d' t rest with
          | error er => right; rfl
          | ok v => obtain ⟨s, ts1⟩ := v; exact ihR s prec ts1
        · split
          · lr_step (ih d d' hd).1 rest
            cases parseQuery c f d' rest with
            | error er => right; rfl
            | ok v =>
              obtain ⟨q, ts1⟩ := v
              simp only
              split
              · exact ihR _ _ _
              · right; rfl
          · right; rfl
    · -- remaining
      intro e prec ts
      cases ts with
      | nil => right; simp [remaining]
      | cons t rest =>
        unfold remaining
        simp only
        split
        · right; rfl
        · rename_i o _
          split
          · right; rfl
          · lr_step ihB (precOf o) (setQuant rest).2.2
            cases queryBody c f d' (precOf o) (setQuant rest).2.2 with
            | error er => right; rfl
            | ok v => obtain ⟨r, ts1⟩ := v; exact ihR _ _ _
    · -- parseSelect
      intro sel ts
      simp only [parseSelect]
      lr_step selHead_lim c f hd sel ts
      cases selHead c f d' sel ts with
      | error er => right; rfl
      | ok v =>
        obtain ⟨hd', ts1⟩ := v
        simp only
        split
        · rename_i kw r _
          lr_step ihI (.from kw) r
          cases fromItems c f d' (.from kw) r with
          | error er => right; rfl
          | ok v =>
            obtain ⟨fr, ts2⟩ := v
            simp only
            lr_step selTail_lim c f hd ts2
            right; rfl
        · lr_step selTail_lim c f hd ts1
          right; rfl
    · -- fromItems
      intro conn ts
      simp only [fromItems]
      by_cases hd0 : d = 0
      · left; simp [hd0]
      · have hd0' : d' ≠ 0 := by omega
        simp only [hd0, hd0', if_false]
        cases factorHead c ts with
        | error er => right; rfl
        | ok fh =>
          cases fh with
          | table name al r =>
            simp only
            lr_step ihF conn.hasCstr r
            right; rfl
          | paren lp r =>
            simp only
            lr_step (ih (d - 1) (d' - 1) (by omega)).1 r
            cases parseQuery c f (d' - 1) r with
            | error er => cases er <;> (right; rfl)
            | ok v =>
              obtain ⟨q, r1⟩ := v
              simp only
              split
              · split
                · right; rfl
                · split
                  · right; rfl
                  · rename_i r3 _ _
                    lr_step ihF conn.hasCstr r3
                    right; rfl
              · right; rfl
    · -- fromRest
      intro cstr ts
      simp only [fromRest]
      lr_step optCstr_lim c f hd cstr ts
      cases optCstr c f d' cstr ts with
      | error er => right; rfl
      | ok v =>
        obtain ⟨k, ts1⟩ := v
        simp only
        cases joinHead ts1 with
        | error er => right; rfl
        | ok jh =>
          cases jh with
          | join jk toks r =>
            simp only
            lr_step ihI (.join jk toks) r
            right; rfl
          | stop =>
            simp only
            split
            · rename_i r
              split
              · right; rfl
              · lr_step ihI (.comma (.sym .Comma)) r
                right; rfl
            · right; rfl

theorem parseStatement_lim (c : QCfg) (f : Nat) {L L' : Nat} (h : L ≤ L') (ts : List Tok) :
    LimR (parseStatement c f L ts) (parseStatement c f L' ts) := by
  cases L with
  | zero => left; simp [parseStatement]
  | succ d =>
    obtain ⟨d', rfl⟩ : ∃ e, L' = e + 1 := ⟨L' - 1, by omega⟩
    unfold parseStatement
    simp only
    repeat' split
    all_goals first
      | exact (qlim_mono_all c f d d' (by omega)).1 _
      | (right; rfl)

theorem parseScript_lim (c : QCfg) (f : Nat) {L L' : Nat} (h : L ≤ L') (ts : List Tok) :
    parseScript c f L ts = .error (.stmt .rle) ∨ parseScript c f L ts = parseScript c f L' ts :=
  SqlVerif.Stmts.loop_congr stmtClass (parseStatement c f L) (parseStatement c f L') Pratt.Err.rle
    (fun ts' => parseStatement_lim c f h ts') _ _ _ _


-- ------------------------------------------------------------------ enough depth: never the limit error

@[simp] theorem syn_ne_rle (w : String) : syn w ≠ .rle := by simp [syn]

theorem optAlias_ne_rle (res : List Nat) (ts : List Tok) : optAlias res ts ≠ .error .rle := by
  unfold optAlias
  repeat' split
  all_goals (simp; done)

theorem identElem_ne_rle (ts : List Tok) : identElem ts ≠ .error .rle := by
  unfold identElem
  repeat' split
  all_goals (simp; done)

theorem optTableAlias_ne_rle (ts : List Tok) : optTableAlias ts ≠ .error .rle := by
  unfold optTableAlias
  split
  · rename_i er he; intro h; simp at h; subst h; exact optAlias_ne_rle _ _ he
  · split <;> simp

theorem allOrDistinct_ne_rle (ts : List Tok) : allOrDistinct ts ≠ .error .rle := by
  unfold allOrDistinct
  repeat' split
  all_goals (simp; done)

theorem leftRightTail_ne_rle (k : JoinKind) (t : Tok) (r : List Tok) : leftRightTail k t r ≠ .error .rle := by
  unfold leftRightTail
  repeat' split
  all_goals (simp; done)

theorem joinHead_ne_rle (ts : List Tok) : joinHead ts ≠ .error .rle := by
  unfold joinHead
  repeat' split
  all_goals first
    | (simp; done)
    | exact leftRightTail_ne_rle _ _ _

theorem objectName_ne_rle (acc ts : List Tok) : objectName acc ts ≠ .error .rle := by
  fun_induction objectName acc ts <;> simp_all

theorem factorHead_ne_rle (c : QCfg) (ts : List Tok) : factorHead c ts ≠ .error .rle := by
  unfold factorHead
  repeat' split
  all_goals first
    | (simp; done)
    | (rename_i he; intro h; simp at h; subst h; exact objectName_ne_rle _ _ he)
    | (rename_i he; intro h; simp at h; subst h; exact optTableAlias_ne_rle _ he)

-- ------------------------------------------------------------------ enough depth: the helpers
theorem parseE_norle (c : QCfg) (f : Nat) {d : Nat} (ts : List Tok) (h : ts.length + 2 ≤ d) :
    parseE c f d ts ≠ .error .rle := (norle_all c.e f).1 _ _ _ h

/-- a sub-run that failed did not hit the limit -/
macro "nr_err " h:term : tactic =>
  `(tactic| (rename_i er he; intro hc; simp at hc; subst hc; exact $h he))

theorem commaSepE_norle {α : Type} (tc : Bool) (elem : List Tok → Res α)
    (hle : ∀ ts v rest, elem ts = .ok (v, rest) → rest.length ≤ ts.length) :
    ∀ (n : Nat) (ts : List Tok),
      (∀ ts', ts'.length ≤ ts.length → elem ts' ≠ .error .rle) →
      commaSepE tc elem n ts ≠ .error .rle := by
  intro n
  induction n with
  | zero => intro ts _; simp [commaSepE]
  | succ n ih =>
    intro ts hel
    simp only [commaSepE]
    split
    · nr_err hel ts (Nat.le_refl _)
    · rename_i v rest he
      have h1 := hle _ _ _ he
      split
      · rename_i rest'
        simp at h1
        split
        · simp
        · split
          · nr_err ih rest' (fun ts' h' => hel ts' (by omega))
          · simp
      · simp

theorem itemViaExpr_norle (c : QCfg) (f : Nat) {d : Nat} (ts : List Tok) (h : ts.length + 2 ≤ d) :
    itemViaExpr c f d ts ≠ .error .rle := by
  unfold itemViaExpr
  split
  · nr_err parseE_norle c f ts h
  · split
    · simp
    · split
      · nr_err optAlias_ne_rle _ _
      · simp

theorem selectItem_norle (c : QCfg) (f : Nat) {d : Nat} (ts : List Tok) (h : ts.length + 2 ≤ d) :
    selectItem c f d ts ≠ .error .rle := by
  unfold selectItem
  repeat' split
  all_goals first
    | exact itemViaExpr_norle c f _ h
    | (simp; done)

theorem groupByElem_norle (c : QCfg) (f : Nat) {d : Nat} (ts : List Tok) (h : ts.length + 2 ≤ d) :
    groupByElem c f d ts ≠ .error .rle := by
  unfold groupByElem
  split
  · simp
  · exact parseE_norle c f ts h

theorem orderByElem_norle (c : QCfg) (f : Nat) {d : Nat} (ts : List Tok) (h : ts.length + 2 ≤ d) :
    orderByElem c f d ts ≠ .error .rle := by
  unfold orderByElem
  split
  · nr_err parseE_norle c f ts h
  · split <;> simp

theorem limPart_norle (c : QCfg) (f : Nat) {d : Nat} (cs : List LimClause) (ts : List Tok)
    (h : ts.length + 2 ≤ d) : limPart c f d cs ts ≠ .error .rle := by
  unfold limPart
  split
  · split
    · rename_i kw r hk
      have := (eatKw_some_iff _ _ _ _).1 hk
      split
      · simp
      · split
        · nr_err parseE_norle c f r (by rw [this.1] at h; simp at h; omega)
        · simp
    · simp
  · simp

theorem offPart_norle (c : QCfg) (f : Nat) {d : Nat} (cs : List LimClause) (ts : List Tok)
    (h : ts.length + 2 ≤ d) : offPart c f d cs ts ≠ .error .rle := by
  unfold offPart
  split
  · split
    · rename_i kw r hk
      have := (eatKw_some_iff _ _ _ _).1 hk
      split
      · nr_err parseE_norle c f r (by rw [this.1] at h; simp at h; omega)
      · simp
    · simp
  · simp

theorem commaPart_norle (c : QCfg) (f : Nat) {d : Nat} (cs : List LimClause) (ts : List Tok)
    (h : ts.length + 2 ≤ d) : commaPart c f d cs ts ≠ .error .rle := by
  unfold commaPart
  split
  · split
    · rename_i r
      split
      · nr_err parseE_norle c f r (by simp at h; omega)
      · simp
    · simp
  · simp

theorem limStep_norle (c : QCfg) (f : Nat) {d : Nat} (cs : List LimClause) (ts : List Tok)
    (h : ts.length + 2 ≤ d) : limStep c f d cs ts ≠ .error .rle := by
  unfold limStep
  split
  · nr_err limPart_norle c f cs ts h
  · rename_i cs1 ts1 h1
    have := limPart_le h1
    split
    · nr_err offPart_norle c f cs1 ts1 (by omega)
    · rename_i cs2 ts2 h2
      have := offPart_le h2
      exact commaPart_norle c f cs2 ts2 (by omega)

theorem orderPart_norle (c : QCfg) (f : Nat) {d : Nat} (ts : List Tok) (h : ts.length + 2 ≤ d) :
    orderPart c f d ts ≠ .error .rle := by
  unfold orderPart
  split
  · rename_i kws r hk
    have hr : r.length ≤ ts.length := by len_of eatKws_yield _ _ _ _ hk
    split
    · nr_err commaSepE_norle _ _ (fun _ _ _ => orderByElem_le) f r
        (fun ts' h' => orderByElem_norle c f ts' (by omega))
    · split <;> simp
  · simp

theorem queryTail_norle (c : QCfg) (f : Nat) {d : Nat} (ts : List Tok) (h : ts.length + 2 ≤ d) :
    queryTail c f d ts ≠ .error .rle := by
  unfold queryTail
  split
  · nr_err orderPart_norle c f ts h
  · rename_i ko ts1 h0
    have := orderPart_le h0
    split
    · nr_err limStep_norle c f [] ts1 (by omega)
    · rename_i cs1 ts2 h1
      have := limStep_le h1
      split
      · nr_err limStep_norle c f cs1 ts2 (by omega)
      · split <;> simp

theorem joinCstr_norle (c : QCfg) (f : Nat) {d : Nat} (ts : List Tok) (h : ts.length + 2 ≤ d) :
    joinCstr c f d ts ≠ .error .rle := by
  unfold joinCstr
  split
  · rename_i kw r hk
    have := (eatKw_some_iff _ _ _ _).1 hk
    split
    · nr_err parseE_norle c f r (by rw [this.1] at h; simp at h; omega)
    · simp
  · split
    · rename_i kw r hk
      have := (eatKw_some_iff _ _ _ _).1 hk
      split
      · rename_i r1
        split
        · nr_err commaSepE_norle _ _ (fun _ _ _ => identElem_le) f r1
            (fun ts' _ => identElem_ne_rle ts')
        · split <;> simp
      · simp
    · simp

theorem optCstr_norle (c : QCfg) (f : Nat) {d : Nat} (b : Bool) (ts : List Tok) (h : ts.length + 2 ≤ d) :
    optCstr c f d b ts ≠ .error .rle := by
  unfold optCstr
  split
  · exact joinCstr_norle c f ts h
  · simp

theorem kwExprPart_norle (c : QCfg) (f : Nat) {d : Nat} (k : Nat) (ts : List Tok) (h : ts.length + 2 ≤ d) :
    kwExprPart c f d k ts ≠ .error .rle := by
  unfold kwExprPart
  split
  · rename_i kw r hk
    have := (eatKw_some_iff _ _ _ _).1 hk
    split
    · nr_err parseE_norle c f r (by rw [this.1] at h; simp at h; omega)
    · simp
  · simp

theorem groupPart_norle (c : QCfg) (f : Nat) {d : Nat} (ts : List Tok) (h : ts.length + 2 ≤ d) :
    groupPart c f d ts ≠ .error .rle := by
  unfold groupPart
  split
  · rename_i kws r hk
    have hr : r.length ≤ ts.length := by len_of eatKws_yield _ _ _ _ hk
    split
    · simp
    · split
      · nr_err commaSepE_norle _ _ (fun _ _ _ => groupByElem_le) f r
          (fun ts' h' => groupByElem_norle c f ts' (by omega))
      · split <;> simp
  · simp

theorem selTail_norle (c : QCfg) (f : Nat) {d : Nat} (ts : List Tok) (h : ts.length + 2 ≤ d) :
    selTail c f d ts ≠ .error .rle := by
  unfold selTail
  split
  · simp
  split
  · nr_err kwExprPart_norle c f K.WHERE ts h
  · rename_i w ts1 hw
    have := kwExprPart_le hw
    split
    · nr_err groupPart_norle c f ts1 (by omega)
    · rename_i g ts2 hg
      have := groupPart_le hg
      split
      · simp
      split
      · nr_err kwExprPart_norle c f K.HAVING ts2 (by omega)
      · split <;> simp

theorem selHead_norle (c : QCfg) (f : Nat) {d : Nat} (sel : Tok) (ts : List Tok) (h : ts.length + 2 ≤ d) :
    selHead c f d sel ts ≠ .error .rle := by
  unfold selHead
  split
  · simp
  split
  · nr_err allOrDistinct_ne_rle ts
  · rename_i qd ts1 hq
    have := allOrDistinct_le hq
    split
    · simp
    · split
      · nr_err commaSepE_norle _ _ (fun _ _ _ => selectItem_le) f ts1
          (fun ts' h' => selectItem_norle _ f ts' (by omega))
      · split <;> simp



/-- **the query layer never reports the limit when the remaining depth exceeds the number of tokens
by two** (`queryBody`: by one — `parse_query` holds a level without consuming a token, every other
level is paid for by `(`) -/
theorem qnorle_all (c : QCfg) (f : Nat) :
    (∀ d ts, ts.length + 2 ≤ d → parseQuery c f d ts ≠ .error .rle) ∧
    (∀ d prec ts, ts.length + 1 ≤ d → queryBody c f d prec ts ≠ .error .rle) ∧
    (∀ d e prec ts, ts.length + 2 ≤ d → remaining c f d e prec ts ≠ .error .rle) ∧
    (∀ d sel ts, ts.length + 2 ≤ d → parseSelect c f d sel ts ≠ .error .rle) ∧
    (∀ d conn ts, ts.length + 2 ≤ d → fromItems c f d conn ts ≠ .error .rle) ∧
    (∀ d cstr ts, ts.length + 2 ≤ d → fromRest c f d cstr ts ≠ .error .rle) := by
  induction f with
  | zero =>
    refine ⟨?_, ?_, ?_, ?_, ?_, ?_⟩ <;> intros <;>
      simp [parseQuery, queryBody, remaining, parseSelect, fromItems, fromRest]
  | succ f ih =>
    obtain ⟨ihQ, ihB, ihR, ihS, ihI, ihF⟩ := ih
    refine ⟨?_, ?_, ?_, ?_, ?_, ?_⟩
    · -- parseQuery
      intro d ts hf
      cases d with
      | zero => omega
      | succ d =>
        simp only [parseQuery]
        split
        · simp
        split
        · nr_err ihB d _ ts (by omega)
        · rename_i body ts1 hb
          have := queryBody_lt hb
          split
          · nr_err queryTail_norle c f ts1 (by omega)
          · simp
    · -- queryBody
      intro d prec ts hf
      cases ts with
      | nil => simp [queryBody]
      | cons t rest =>
        unfold queryBody
        simp only
        simp at hf
        split
        · split
          · nr_err ihS d t rest (by omega)
          · rename_i s ts1 hs
            have := parseSelect_le hs
            exact ihR _ _ _ _ (by omega)
        · split
          · split
            · nr_err ihQ d rest (by omega)
            · rename_i q ts1 hq
              have := parseQuery_le hq
              split
              · rename_i ts2
                simp at this
                exact ihR _ _ _ _ (by omega)
              · simp
          · split <;> simp
    · -- remaining
      intro d e prec ts hf
      cases ts with
      | nil => simp [remaining]
      | cons t rest =>
        unfold remaining
        simp only
        simp at hf
        have hq := setQuant_le rest
        split
        · simp
        · split
          · simp
          · split
            · nr_err ihB d _ _ (by omega)
            · rename_i r ts1 hb
              have := queryBody_le hb
              exact ihR _ _ _ _ (by omega)
    · -- parseSelect
      intro d sel ts hf
      simp only [parseSelect]
      split
      · nr_err selHead_norle c f sel ts (by omega)
      · rename_i hd ts1 hh
        have h1 := selHead_le hh
        split
        · rename_i kw r hk
          have hk' := (eatKw_some_iff _ _ _ _).1 hk
          rw [hk'.1] at h1; simp at h1
          split
          · nr_err ihI d _ r (by omega)
          · rename_i fr ts2 hfi
            have := fromItems_le hfi
            split
            · nr_err selTail_norle c f ts2 (by omega)
            · simp
        · split
          · nr_err selTail_norle c f ts1 (by omega)
          · simp
    · -- fromItems
      intro d conn ts hf
      simp only [fromItems]
      split
      · omega
      split
      · nr_err factorHead_ne_rle c ts
      · rename_i name al r hfh
        have h1 := factorHead_lt hfh
        simp only at h1
        split
        · nr_err ihF d _ r (by omega)
        · simp
      · rename_i lp r hfh
        have h1 := factorHead_lt hfh
        simp only at h1
        split
        · rename_i hq; exact absurd hq (ihQ _ _ (by omega))
        · simp
        · simp
        · rename_i q r1 hq
          have h2 := parseQuery_le hq
          split
          · rename_i r2
            simp at h2
            split
            · simp
            · rename_i al r3 ha
              have h3 := optTableAlias_le ha
              split
              · simp
              · split
                · nr_err ihF d _ r3 (by omega)
                · simp
          · simp
    · -- fromRest
      intro d cstr ts hf
      simp only [fromRest]
      split
      · nr_err optCstr_norle c f cstr ts (by omega)
      · rename_i k ts1 hc
        have h1 := optCstr_le hc
        split
        · nr_err joinHead_ne_rle ts1
        · rename_i jk toks r hj
          have h2 := joinHead_lt hj
          split
          · nr_err ihI d _ r (by omega)
          · simp
        · split
          · rename_i r _
            simp at h1
            split
            · simp
            · split
              · nr_err ihI d _ r (by omega)
              · simp
          · simp

theorem parseStatement_norle (c : QCfg) (f : Nat) {L : Nat} (ts : List Tok) (h : ts.length + 3 ≤ L) :
    parseStatement c f L ts ≠ .error .rle := by
  cases L with
  | zero => omega
  | succ d =>
    unfold parseStatement
    simp only
    repeat' split
    all_goals first
      | (simp; done)
      | exact (qnorle_all c f).1 _ _ (by omega)

theorem parseScript_norle (c : QCfg) (f : Nat) {L : Nat} (ts : List Tok) (h : ts.length + 3 ≤ L) :
    parseScript c f L ts ≠ .error (.stmt .rle) := by
  intro hc
  obtain ⟨ts', h1, h2⟩ := SqlVerif.Stmts.loop_stmt_err stmtClass _
    (fun _ _ _ h => Nat.le_of_lt (parseStatement_lt h)) _ _ _ _ _ hc
  exact parseStatement_norle c f ts' (by omega) h2

end SqlVerif.Query

import SqlVerif.Lemmas.TclDefs
/-!
Pieces of the C01 fixpoint on the third statement model that do not evaluate the parser: `s.norm` holds
the AST of `s` (`stmt_sexp_norm_fix`), and the dispatcher hands a statement of the first two fragments on
(`dispatch_ddl`): no statement that `Ddl.parseStmt` accepts begins with one of the thirteen keywords of
this fragment.
-/
set_option linter.unusedSimpArgs false
namespace SqlVerif.Tcl
open SqlVerif.Pratt SqlVerif.Query SqlVerif.Dml SqlVerif.Ddl SqlVerif.Gen

-- ------------------------------------------------------------------ keyword tokens
theorem isKw_word {t : Tok} {k : Nat} (h : t.isKw k = true) : ∃ v q k', t = .word v q (some k') ∧ (k' == k) = true := by
  cases t with
  | word v q kw =>
    cases kw with
    | none => simp [Tok.isKw] at h
    | some k' => exact ⟨v, q, k', rfl, by simpa [Tok.isKw] using h⟩
  | _ => simp [Tok.isKw] at h

/-- a token is a word of at most one keyword -/
theorem isKw_excl {t : Tok} {a b : Nat} (ha : t.isKw a = true) (hab : (a != b) = true) : t.isKw b = false := by
  obtain ⟨v, q, k', rfl, hk⟩ := isKw_word ha
  simp only [Tok.isKw] at *
  simp only [beq_iff_eq] at hk
  rw [hk]
  simpa using hab

theorem kwNormTok_isKw (t : Tok) (k : Nat) : (kwNormTok t).isKw k = t.isKw k := by
  cases t with
  | word v q kw =>
    cases kw with
    | none => simp [kwNormTok, kwTokP, noText, Tok.isKw]
    | some k' => simp [kwNormTok, kwTokP, kwTi, Tok.isKw]
  | _ => simp [kwNormTok, kwTokP, noText, Tok.isKw]

theorem kwText_kwNormTok (t : Tok) : kwText (kwNormTok t) = kwText t := by
  cases t with
  | word v q kw =>
    cases kw with
    | none => simp [kwNormTok, kwTokP, noText, kwText]
    | some k' => simp [kwNormTok, kwTokP, kwTi, kwText]
  | _ => simp [kwNormTok, kwTokP, noText, kwText]

-- ------------------------------------------------------------------ the norm holds the same AST
theorem tmode_sexp_norm (m : TMode) : m.norm.sexp = m.sexp := by cases m <;> rfl

theorem modesSexp_norm (ms : Sep TMode) : modesSexp (sepNorm TMode.norm ms) = modesSexp ms := by
  simp [modesSexp, sepSexp_norm _ _ tmode_sexp_norm]

theorem closedFacts :
    isLocal [kwT "LOCAL"] = true ∧ isLocal [kwT "SESSION"] = false ∧ ([kwT "SESSION"].any fun t => t.isKw TK.SESSION) = true ∧
    (kwT "NONE").isKw TK.NONE = true ∧ (kwT "ALL").isKw TK.ALL = true ∧ (kwT "TEMP").isKw TK.TEMPORARY = false ∧
    kwText (kwT "TEMP") = "TEMP" := by decide +kernel

theorem isChain_chainNorm (ch : List Tok) : isChain (chainNorm ch) = isChain ch := by
  unfold chainNorm
  split
  · rename_i h; rw [h]; rfl
  · rename_i h; simp at h; rw [h]; rfl

theorem optIdSexp_spNorm (sp : List Tok) : optIdSexp (spNorm sp) = optIdSexp sp := by
  unfold spNorm optIdSexp
  cases h : sp.getLast? with
  | none => rfl
  | some n => simp

theorem ctxName_ctxNorm (md : List Tok) : ctxName (ctxNorm md) = ctxName md := by
  obtain ⟨h1, h2, h3, -⟩ := closedFacts
  unfold ctxNorm ctxName
  by_cases hl : isLocal md = true
  · simp [hl, h1]
  · simp only [hl, Bool.false_eq_true, ↓reduceIte]
    by_cases hs : (md.any fun t => t.isKw TK.SESSION) = true
    · simp only [hs, ↓reduceIte, h2, h3, Bool.false_eq_true]
    · simp only [hs, Bool.false_eq_true, ↓reduceIte]
      simp [isLocal]

theorem headKwText_norm (d : String) (l : List Tok) : headKwText d (l.map kwNormTok) = headKwText d l := by
  cases l with
  | nil => rfl
  | cons t r => simp [headKwText, kwText_kwNormTok]

/-- the printed charset / collation token holds the same `String` -/
theorem litValue_namesPart (sp : Bool) (t : Tok) : litValue (namesPartPiece sp t).tok = litValue t := by
  unfold namesPartPiece
  split <;> rfl

theorem optLitSexp_collateNorm (co : List Tok) : optLitSexp (collateNorm co) = optLitSexp co := by
  unfold collateNorm optLitSexp
  cases h : co.getLast? with
  | none => rfl
  | some t => simp [litValue_namesPart]

/-- **the norm holds the same AST**, for the statement kinds covered by the direct fixpoint -/
theorem stmt_sexp_norm_fix (s : Stmt) (hk : s.fixKind = true) : s.norm.sexp = s.sexp := by
  obtain ⟨-, -, -, hN, hA, hT, hTT⟩ := closedFacts
  cases s with
  | startTx kw tk ms => simp [Stmt.norm, Stmt.sexp, modesSexp_norm]
  | «begin» kw md noise ms => simp [Stmt.norm, Stmt.sexp, modesSexp_norm, headKwText_norm]
  | commit kw noise ch => simp [Stmt.norm, Stmt.sexp, isChain_chainNorm]
  | rollback kw noise ch sp => simp [Stmt.norm, Stmt.sexp, isChain_chainNorm, optIdSexp_spNorm]
  | savepoint kw n => rfl
  | release kw sk n => rfl
  | setRole kw md rk n =>
    simp only [Stmt.norm, Stmt.sexp, ctxName_ctxNorm]
    by_cases hn : n.isKw TK.NONE = true
    · simp [hn, hN]
    · simp [hn]
  | setVar _ _ _ _ _ _ _ _ => simp [Stmt.fixKind] at hk
  | setTimeZone _ _ _ _ _ => simp [Stmt.fixKind] at hk
  | setNamesDefault _ _ _ _ _ => rfl
  | setNames kw md colon name cs co => simp [Stmt.norm, Stmt.sexp, litValue_namesPart, optLitSexp_collateNorm]
  | setTx kw md colon head session ms =>
    cases session <;> simp [Stmt.norm, Stmt.sexp, modesSexp_norm]
  | useObj kw kind name => simp [Stmt.norm, Stmt.sexp, headKwText_norm]
  | useDefault _ _ => rfl
  | discard kw o =>
    simp only [Stmt.norm, Stmt.sexp]
    by_cases ho : o.isKw TK.TEMPORARY = true
    · simp [ho, hT, hTT]
    · simp [ho, kwNormTok_isKw, kwText_kwNormTok]
  | deallocate kw p n =>
    simp only [Stmt.norm, Stmt.sexp]
    cases p <;> simp
  | close kw w =>
    simp only [Stmt.norm, Stmt.sexp]
    by_cases hw : w.isKw TK.ALL = true
    · simp [hw, hA]
    · simp [hw]
  | assert _ _ _ _ => simp [Stmt.fixKind] at hk
  | ddl _ => simp [Stmt.fixKind] at hk

-- ------------------------------------------------------------------ the dispatcher and the first two fragments
/-- the thirteen keywords this fragment dispatches on -/
def tclKws : List Nat :=
  [TK.START, TK.BEGIN, TK.END_, TK.COMMIT, TK.ROLLBACK, TK.SAVEPOINT, TK.RELEASE, TK.SET, TK.USE, TK.DISCARD, TK.DEALLOCATE,
   TK.CLOSE, TK.ASSERT]

/-- the keywords a statement of the first two fragments begins with -/
def ddlHeads : List Nat :=
  [XK.CREATE, XK.ALTER, XK.TRUNCATE, XK.DROP, DK.SELECT, DK.VALUES, DK.INSERT, DK.UPDATE, DK.DELETE, DK.CREATE, DK.DROP]

theorem heads_disjoint : (tclKws.all fun a => ddlHeads.all fun b => a != b) = true := by decide +kernel

theorem heads_disjoint' {a b : Nat} (ha : a ∈ tclKws) (hb : b ∈ ddlHeads) : (a != b) = true := by
  have := heads_disjoint
  rw [List.all_eq_true] at this
  have h1 := this a ha
  rw [List.all_eq_true] at h1
  exact h1 b hb

/-- the first token is one of the thirteen keywords -/
def tclHead (t : Tok) : Bool := tclKws.any t.isKw

/-- a statement the second model accepts does not begin with a keyword of this fragment -/
theorem ddl_head_foreign (c : XCfg) (f l : Nat) (t : Tok) (r : List Tok) (s : SqlVerif.Ddl.Stmt) (rest : List Tok)
    (h : SqlVerif.Ddl.parseStmt c f l (t :: r) = .ok (s, rest)) : tclHead t = false := by
  cases hh : tclHead t with
  | false => rfl
  | true =>
    exfalso
    simp only [tclHead, List.any_eq_true] at hh
    obtain ⟨a, ha, hta⟩ := hh
    have hx : ∀ b ∈ ddlHeads, t.isKw b = false := fun b hb => isKw_excl hta (heads_disjoint' ha hb)
    obtain ⟨v, q, k', rfl, -⟩ := isKw_word hta
    cases l with
    | zero => simp [SqlVerif.Ddl.parseStmt] at h
    | succ d =>
      have h1 := hx XK.CREATE (by simp only [ddlHeads, List.mem_cons, true_or, or_true])
      have h2 := hx XK.ALTER (by simp only [ddlHeads, List.mem_cons, true_or, or_true])
      have h3 := hx XK.TRUNCATE (by simp only [ddlHeads, List.mem_cons, true_or, or_true])
      have h4 := hx XK.DROP (by simp only [ddlHeads, List.mem_cons, true_or, or_true])
      have h5 := hx DK.SELECT (by simp only [ddlHeads, List.mem_cons, true_or, or_true])
      have h6 := hx DK.VALUES (by simp only [ddlHeads, List.mem_cons, true_or, or_true])
      have h7 := hx DK.INSERT (by simp only [ddlHeads, List.mem_cons, true_or, or_true])
      have h8 := hx DK.UPDATE (by simp only [ddlHeads, List.mem_cons, true_or, or_true])
      have h9 := hx DK.DELETE (by simp only [ddlHeads, List.mem_cons, true_or, or_true])
      have h10 := hx DK.CREATE (by simp only [ddlHeads, List.mem_cons, true_or, or_true])
      have h11 := hx DK.DROP (by simp only [ddlHeads, List.mem_cons, true_or, or_true])
      simp [SqlVerif.Ddl.parseStmt, SqlVerif.Dml.parseStmt, h1, h2, h3, h4, h5, h6, h7, h8, h9, h10, h11, mapRes] at h

/-- on a first token that is none of the thirteen keywords the dispatcher hands on to the second model -/
theorem dispatch_ddl (c : TCfg) (f d : Nat) (t : Tok) (r : List Tok) (ht : tclHead t = false) :
    parseStmt c f (d + 1) (t :: r) = mapRes .ddl (SqlVerif.Ddl.parseStmt c.x f (d + 1) (t :: r)) := by
  simp only [tclHead, tclKws, List.any_cons, List.any_nil, Bool.or_false, Bool.or_eq_false_iff] at ht
  obtain ⟨h1, h2, h3, h4, h5, h6, h7, h8, h9, h10, h11, h12, h13⟩ := ht
  simp only [parseStmt]
  rw [if_neg (by simp [h1]), if_neg (by simp [h2]), if_neg (by simp [h3]), if_neg (by simp [h4]), if_neg (by simp [h5]),
    if_neg (by simp [h6]), if_neg (by simp [h7]), if_neg (by simp [h8]), if_neg (by simp [h9]), if_neg (by simp [h10]),
    if_neg (by simp [h11]), if_neg (by simp [h12]), if_neg (by simp [h13])]

end SqlVerif.Tcl
